import RB.Util.Driver
import RB.Model.Denoise
open Lean RB.Drv RB.Denoise

def str (s : Str) : Json := Json.str (String.ofList s)

def getS? (j : Json) (k : String) : Option Str := (getStr? j k).map String.toList

def parseJV (s : String) : Option JV :=
  match s with
  | "failed" => some .failed
  | "yes" => some .yes
  | "no" => some .no
  | _ => none

def getOptJV? (j : Json) (k : String) : Option (Option JV) :=
  match j.getObjVal? k with
  | .ok Json.null => some none
  | .ok (Json.str s) => (parseJV s).map some
  | _ => none

def parseEnding (s : String) : Option Ending :=
  match s with
  | "ok" => some (.ok true)
  | "failed" => some (.ok false)
  | "ui_error" => some .uiError
  | "interrupt" => some .interrupt
  | "crash" => some .crash
  | _ => none

def endingJson : Ending → Json
  | .ok true => "ok"
  | .ok false => "failed"
  | .uiError => "ui_error"
  | .interrupt => "interrupt"
  | .crash => "crash"

def parseReport (j : Json) : Option Report := do
  match ← getStr? j "kind" with
  | "json" =>
      let nice ← getOptJV? j "nice"
      let shield ← getOptJV? j "shield"
      let others ← (getArr? j "others").bind (fun a => a.toList.mapM (fun v => (asStr? v).bind parseJV))
      pure (.json nice shield others)
  | "nonjson" =>
      match ← getStr? j "msg" with
      | "password" => pure (.nonJson .passwordRequired)
      | "not_found" => pure (.nonJson .commandNotFound)
      | "sudo_missing" => pure (.nonJson .sudoMissing)
      | "other" => pure (.nonJson .other)
      | _ => none
  | "raised" => do
      let e ← (getStr? j "ending").bind parseEnding
      pure (.raised e)
  | _ => none

def parseBodyEv (j : Json) : Option BodyEv := do
  let i ← getNat? j "i"
  match ← getStr? j "t" with
  | "start" => pure (.start i)
  | "stop" => pure (.stop i)
  | "kill" => pure (.sudoKill i)
  | _ => none

def bodyEvJson : BodyEv → Json
  | .start i => Json.mkObj [("t", "start"), ("i", Json.num i)]
  | .stop i => Json.mkObj [("t", "stop"), ("i", Json.num i)]
  | .sudoKill i => Json.mkObj [("t", "kill"), ("i", Json.num i)]

def evJson : Ev → Json
  | .sudoMinimize p => Json.mkObj [("t", "minimize"), ("profiling", Json.bool p)]
  | .sudoRestore ws wn => Json.mkObj [("t", "restore"), ("without_shielding", Json.bool ws), ("without_nice", Json.bool wn)]
  | .body e => bodyEvJson e

def msgJson : Option NonJson → Json
  | none => Json.null
  | some .passwordRequired => "password"
  | some .commandNotFound => "not_found"
  | some .sudoMissing => "sudo_missing"
  | some .other => "other"

def settingName : Setting → String
  | .governor i => s!"governor:{i}"
  | .noTurbo => "no_turbo"
  | .perfMaxPercent => "perf_max_percent"
  | .perfSampleRate => "perf_sample_rate"
  | .perfParanoid => "perf_paranoid"
  | .shield => "shield"

def actJson : Act → Json
  | .write k v => Json.mkObj [("t", "write"), ("s", Json.str (settingName k)), ("v", str v)]
  | .touch k => Json.mkObj [("t", "touch"), ("s", Json.str (settingName k))]
  | .niceProbe => Json.mkObj [("t", "nice")]
  | .shieldOn lo hi => Json.mkObj [("t", "shield_on"), ("lo", Json.num lo), ("hi", Json.num hi)]
  | .shieldReset => Json.mkObj [("t", "shield_reset")]

def parseHost (j : Json) : Option Host := do
  let gov ← (getArr? j "governor_writable").bind (fun a => a.toList.mapM asBool?)
  let nt ← getBool? j "no_turbo_writable"
  let mp ← getBool? j "max_percent_writable"
  let sr ← getBool? j "sample_rate_writable"
  let pa ← getBool? j "paranoid_writable"
  pure { writable := fun s => match s with
           | .governor i => gov.getD i true
           | .noTurbo => nt
           | .perfMaxPercent => mp
           | .perfSampleRate => sr
           | .perfParanoid => pa
           | .shield => true,
         hasCset := ← getBool? j "has_cset",
         shieldActivates := ← getBool? j "shield_activates",
         shieldResets := ← getBool? j "shield_resets",
         canNice := ← getBool? j "can_nice" }

def okJson (b : Bool) (v : Json) : Json := if b then v else Json.str "failed"

def handle (op : String) (j : Json) : Option Json :=
  match op with
  | "c20.session" => do
      let noD ← getBool? j "no_denoise"
      let prof ← getBool? j "profiling"
      let rep ← (getObj? j "report").bind parseReport
      let bj ← getObj? j "body"
      let tr ← (getArr? bj "trace").bind (fun a => a.toList.mapM parseBodyEv)
      let e ← (getStr? bj "ending").bind parseEnding
      let (evs, ending) := session noD prof rep (fun _ _ => { trace := tr, ending := e })
      let res := if noD then none else minimize rep
      pure (Json.mkObj [
        ("trace", Json.arr (evs.map evJson).toArray),
        ("ending", endingJson ending),
        ("changed", Json.bool (!noD && changed rep)),
        ("result", match res with
          | none => Json.null
          | some r => Json.mkObj [("succeeded", Json.bool r.succeeded), ("use_nice", Json.bool r.useNice),
                                  ("use_shielding", Json.bool r.useShielding), ("msg", msgJson r.msg)])])
  | "c20.par_session" => do
      let prof ← getBool? j "profiling"
      let rep ← (getObj? j "report").bind parseReport
      let g ← (getArr? j "events").bind (fun a => a.toList.mapM parseBodyEv)
      let e ← (getStr? j "ending").bind parseEnding
      let at? : Option Nat := getNat? j "interrupt_at"
      let pinned ← getBool? j "pinned"
      let (evs, ending) := if pinned then parSessionPinned prof rep (fun _ _ => g) at? e
                           else parSession prof rep (fun _ _ => g) at? e
      pure (Json.mkObj [("trace", Json.arr (evs.map evJson).toArray), ("ending", endingJson ending)])
  | "c20.interleave" => do
      let sched ← (getArr? j "schedule").bind (fun a => a.toList.mapM asNat?)
      let ws ← (getArr? j "workers").bind (fun a => a.toList.mapM (fun w => (asArr? w).bind (fun b => b.toList.mapM parseBodyEv)))
      pure (Json.arr ((interleave sched ws).map bodyEvJson).toArray)
  | "c20.denoise_minimize" => do
      let h ← (getObj? j "host").bind parseHost
      let n ← getNat? j "n"
      let nice ← getBool? j "nice"
      let shield ← getBool? j "shield"
      let prof ← getBool? j "profiling"
      let (acts, r) := minimizeActs h n nice shield prof
      pure (Json.mkObj [("acts", Json.arr (acts.map actJson).toArray),
        ("result", Json.mkObj [("governor_ok", Json.bool r.governorOk), ("no_turbo_ok", Json.bool r.noTurboOk),
                               ("perf_ok", Json.bool r.perfOk), ("can_nice", Json.bool r.canNice),
                               ("shielding", Json.bool r.shielding)])])
  | "c20.denoise_restore" => do
      let h ← (getObj? j "host").bind parseHost
      let n ← getNat? j "n"
      let shield ← getBool? j "shield"
      let (acts, r) := restoreActs h n shield
      pure (Json.mkObj [("acts", Json.arr (acts.map actJson).toArray),
        ("result", Json.mkObj [("governor_ok", Json.bool r.governorOk), ("no_turbo_ok", Json.bool r.noTurboOk),
                               ("perf_ok", Json.bool r.perfOk), ("shielding", Json.bool r.shielding)])])
  | "c20.wrap" => do
      let c : WrapCfg := {
        useNice := ← getBool? j "use_nice"
        useShielding := ← getBool? j "use_shielding"
        envKeys := ← (getArr? j "env_keys").bind (fun a => a.toList.mapM (fun v => (asStr? v).map String.toList))
        profiling := ← getBool? j "profiling"
        cset := ← (match j.getObjVal? "cset" with
                   | .ok Json.null => some none
                   | .ok (Json.str s) => some (some s.toList)
                   | _ => none)
        denoise := ← getS? j "denoise"
        numCores := ← getS? j "num_cores" }
      let cmd ← getS? j "cmd"
      pure (Json.mkObj [("text", str (wrap c cmd)),
                        ("words", Json.arr ((wrapWords c).map str).toArray)])
  | "c20.exec" => do
      -- wrapper built from the granted capabilities -> flag words -> denoise.py's parser -> _exec
      let c : WrapCfg := {
        useNice := ← getBool? j "use_nice"
        useShielding := ← getBool? j "use_shielding"
        envKeys := []
        profiling := ← getBool? j "profiling"
        cset := ← (match j.getObjVal? "cset" with
                   | .ok Json.null => some none
                   | .ok (Json.str s) => some (some s.toList)
                   | _ => none)
        denoise := ← getS? j "denoise"
        numCores := ← getS? j "num_cores" }
      let lookup ← (match j.getObjVal? "lookup" with
                   | .ok Json.null => some none
                   | .ok (Json.str s) => some (some s.toList)
                   | _ => none)
      let n ← getNat? j "n"
      let cmd ← (getArr? j "cmd").bind (fun a => a.toList.mapM (fun v => (asStr? v).map String.toList))
      let f := parseFlags (flagWords c) {}
      pure (Json.mkObj [("flag_words", Json.arr ((flagWords c).map str).toArray),
                        ("argv", Json.arr ((execArgv f lookup cmd).map str).toArray),
                        ("core_set", match execCoreSet f lookup n with
                                     | some (lo, hi) => Json.arr #[Json.num lo, Json.num hi]
                                     | none => Json.null)])
  | "c20.shield" => do
      let n ← getNat? j "n"
      pure (Json.mkObj [("lo", Json.num (shieldLo n)), ("hi", Json.num (shieldHi n))])
  | "c20.shield_table" => do
      let n ← getNat? j "upto"
      pure (Json.arr ((List.range n).map (fun i => Json.arr #[Json.num (shieldLo (i + 1)), Json.num (shieldHi (i + 1))])).toArray)
  | _ => none

def main : IO Unit := run handle
