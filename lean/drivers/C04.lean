import RB.Util.SchedDriver
/-! driver of C04: ops `c04.trace`, `c04.session`, `c04.exec` (see RB/Util/SchedDriver.lean) -/
def handle (op : String) (j : Lean.Json) : Option Lean.Json :=
  if op.startsWith "c04." then RB.SchedDrv.handle op j else none

def main : IO Unit := RB.Drv.run handle
