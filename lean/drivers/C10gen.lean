/- directed search for the translation tie of the experiment selection and the exit status: the definitions
generated from ReBench.determine_exp_name_and_filters / main_func and the documented ones side by side -/
import RB.Util.Driver
import RB.Gen.CliSession
open Lean RB.Drv RB.Py RB.Gen.CliSession

def isFilterArg (a : List Char) : Bool :=
  ['e', ':'].isPrefixOf a || ['s', ':'].isPrefixOf a || ['t', ':'].isPrefixOf a

def vJson : V → Json
  | .str cs => Json.str (String.ofList cs)
  | .none => Json.null
  | .int i => Json.num (Lean.JsonNumber.fromInt i)
  | _ => Json.str "?"

def handle (op : String) (j : Json) : Option Json :=
  match op with
  | "c10.split_diff" => do
      let arr ← getArr? j "args"
      let args ← arr.toList.mapM asStr?
      let cs := args.map String.toList
      let want : V × List V :=
        (match cs with
         | a :: _ => if isFilterArg a then V.none else V.str a
         | [] => V.none, (cs.filter isFilterArg).map V.str)
      let g := ReBench_determine_exp_name_and_filters_args (cs.map V.str)
      pure (Json.mkObj [("same", Json.bool (g == some want)),
                        ("gen", match g with
                                | some (n, fs) => Json.mkObj [("name", vJson n), ("filters", Json.arr (fs.map vJson).toArray)]
                                | none => Json.null)])
  | "c10.exit_diff" => do
      let b ← getBool? j "run"
      let exc := getStr? j "raised"
      let want : Option V := match exc with
        | none => some (V.int (if b then 0 else 1))
        | some "KeyboardInterrupt" => some (V.int 2)
        | some "UIError" => some (V.int 3)
        | some "BenchmarkThreadExceptions" => some (V.int 4)
        | some _ => none
      let g := main_func b exc
      pure (Json.mkObj [("same", Json.bool (g == want)), ("gen", match g with | some v => vJson v | none => Json.null)])
  | _ => none

def main : IO Unit := run handle
