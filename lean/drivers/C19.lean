import RB.Util.Driver
import RB.Model.ConfigDoc
open Lean RB.Drv RB.ConfigDoc

/-- wire format: null, true/false, integers as JSON numbers, strings as strings,
{"f": repr} floats, {"o": tag} other, [..] lists, {"m": [[k, v], ...]} maps -/
partial def parseDoc (j : Json) : Option Doc :=
  match j with
  | .null => some .null
  | .bool b => some (.bool b)
  | .num _ => (j.getInt?.toOption).map Doc.int
  | .str s => some (.str s)
  | .arr a => (a.toList.mapM parseDoc).map Doc.list
  | .obj _ =>
    match j.getObjVal? "f" with
    | .ok (.str r) => some (.float r)
    | _ =>
      match j.getObjVal? "o" with
      | .ok (.str t) => some (.other t)
      | _ =>
        match j.getObjVal? "m" with
        | .ok (.arr kvs) =>
          (kvs.toList.mapM (fun kv =>
            match kv with
            | Json.arr a => match a.toList with
              | [k, v] => do pure ((← parseDoc k), (← parseDoc v))
              | _ => none
            | _ => none)).map Doc.map
        | _ => none

def excName : Exc → String
  | .typeError => "TypeError" | .keyError => "KeyError" | .indexError => "IndexError"
  | .assertionError => "AssertionError" | .attributeError => "AttributeError"
  | .notImplementedError => "NotImplementedError" | .coreError => "CoreError" | .osError => "OSError"
  | .valueError => "ValueError" | .configurationError => "ConfigurationError" | .uiError => "UIError"

def optStrField (j : Json) (k : String) : Option (Option String) :=
  match j.getObjVal? k with
  | .ok .null => some none
  | .ok (.str s) => some (some s)
  | .ok _ => none
  | _ => some none

def handle (op : String) (j : Json) : Option Json :=
  match op with
  | "c19.compile" => do
      let d ← parseDoc (← getObj? j "doc")
      let cli : Cli := { expName := ← optStrField j "exp", machine := ← optStrField j "machine",
                         invOverride := ← getBool? j "inv_override", itOverride := ← getBool? j "it_override",
                         unreadable := ((getArr? j "unreadable").getD #[]).toList.filterMap asStr? }
      let repaired ← getBool? j "repaired"
      let core := compileCore d cli
      let out := match compileWith repaired d cli with
        | .ok => "ok" | .uiError => "ui_error" | .crash e => "crash:" ++ excName e
      pure (Json.mkObj [("outcome", Json.str out),
                        ("schema_ok", Json.bool (match d with | .null => false | _ => schemaOK d)),
                        ("raised", match core with | .ok _ => Json.null | .error e => Json.str (excName e)),
                        ("runs", match core with | .ok n => Json.num n | .error _ => Json.null)])
  | _ => none

def main : IO Unit := run handle
