/- directed search for the translation tie of the failure classification: the definition generated from
Executor._generate_data_point and the model's decision (RB.Term.classify, first three cases) side by side -/
import RB.Util.Driver
import RB.Model.Termination
import RB.Gen.FailureClass
open Lean RB.Drv RB.Term RB.Py RB.Gen.FailureClass

def evName : Event → String
  | .fail_immediately => "fail_immediately"
  | .indicate_failed_execution => "indicate_failed_execution"
  | .report_run_failed _ => "report_run_failed"
  | .eval_output => "eval_output"
  | .set_executable_missing _ => "executable_missing"
  | .return_abandon => "return_abandon"
  | .return_termination_check => "return_termination_check"

def handle (op : String) (j : Json) : Option Json :=
  match op with
  | "c04.class_diff" => do
      let rc ← getInt? j "rc"
      let faulty ← getBool? j "faulty"
      let ign ← getBool? j "ignore_timeouts"
      let g := Executor_generate_data_point false faulty (V.bool ign) (V.int rc)
      let c : Cfg := { N := 1, retries := 0, faulty := faulty, ignoreTimeouts := ign }
      let m : List String :=
        if rc = 127 then ["fail_immediately", "report_run_failed", "executable_missing", "return_abandon"]
        else match classify c (.exit rc false 1) with
          | .fail => ["indicate_failed_execution", "report_run_failed", "return_termination_check"]
          | _ => ["eval_output", "return_termination_check"]
      let gs := g.map (·.map evName)
      pure (Json.mkObj [("same", Json.bool (gs == some m)),
                        ("gen", match gs with | some l => Json.arr (l.map Json.str).toArray | none => Json.null)])
  | _ => none

def main : IO Unit := run handle
