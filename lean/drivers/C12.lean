import RB.Util.AdapterJson
open Lean RB.Drv

/-- ops: c12.parse, c12.parse_old, c12.match, c12.search, c12.float -/
def handle (op : String) (j : Json) : Option Json :=
  if op.startsWith "c12." then RB.Drv.Ad.handle (op.drop 4).toString j else none

def main : IO Unit := run handle
