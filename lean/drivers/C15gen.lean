/- directed search for the translation tie of C15: run the definitions generated
from rebench/statistics.py and the hand-written model side by side -/
import RB.Util.Driver
import RB.Model.Stats
import RB.Gen.Statistics
open Lean RB.Drv RB.Stats

def handle (op : String) (j : Json) : Option Json :=
  match op with
  | "c15.gen_diff" => do
      let a ← getArr? j "xs"
      let xs ← a.toList.mapM asRat?
      let g := xs.foldl RB.Gen.Statistics.add_sample RB.Gen.Statistics.init
      let s := addAll init xs
      let same := g.num_samples == (s.n : Rat) && g.mean == s.mean &&
        g.variance_times_num_samples == s.m2 && g.min == s.min && g.max == s.max &&
        g.std_dev_sq == s.m2 / (s.n : Rat)
      pure (Json.mkObj [("same", Json.bool same)])
  | _ => none

def main : IO Unit := run handle
