import RB.Util.SchedDriver
/-! driver of C10: ops `c10.trace`, `c10.session`, `c10.exec` (see RB/Util/SchedDriver.lean) -/
def handle (op : String) (j : Lean.Json) : Option Lean.Json :=
  if op.startsWith "c10." then RB.SchedDrv.handle op j else none

def main : IO Unit := RB.Drv.run handle
