import RB.Util.SettingsJson
import RB.Model.Runs
open Lean RB.Drv RB.Settings RB.Runs

def parseVal (j : Json) : Option Val :=
  if j.isNull then some .none else
  match getInt? j "i", getStr? j "s" with
  | some n, none => some (.int n)
  | none, some s => some (.str s)
  | _, _ => none

def valJson : Val → Json
  | .none => Json.null
  | .int n => Json.mkObj [("i", Json.num n)]
  | .str s => Json.mkObj [("s", Json.str s)]

def optList (j : Json) (k : String) : Option (Option (List Val)) :=
  match j.getObjVal? k with
  | .ok v => if v.isNull then some none else do
      let a ← asArr? v
      let l ← a.toList.mapM parseVal
      pure (some l)
  | .error _ => some none

def parseVars (j : Json) : Option VarsCfg := do
  pure { inputSizes := ← optList j "input_sizes", cores := ← optList j "cores",
         variableValues := ← optList j "variable_values", tags := ← optList j "tags" }

def strList (j : Json) (k : String) : Option (List String) := do
  let a ← getArr? j k
  a.toList.mapM asStr?

def parseBench (j : Json) : Option BenchCfg := do
  pure { name := ← getStr? j "name", static := ← getNat? j "static",
         level := ← parseLevelD j, vars := ← parseVars j }

def parseSuite (j : Json) : Option SuiteCfg := do
  let bs ← getArr? j "benchmarks"
  pure { name := ← getStr? j "name", static := ← getNat? j "static",
         level := ← parseLevelD j, vars := ← parseVars j,
         benchmarks := ← bs.toList.mapM parseBench }

def parseExecutor (j : Json) : Option ExecutorCfg := do
  pure { name := ← getStr? j "name", static := ← getNat? j "static",
         level := ← parseLevelD j, vars := ← parseVars j }

def parseExecution (j : Json) : Option Execution := do
  let own ← match j.getObjVal? "own_suites" with
    | .ok v => if v.isNull then some none else do
        let a ← asArr? v
        let l ← a.toList.mapM asStr?
        pure (some l)
    | .error _ => some none
  pure { executor := ← getStr? j "executor", ownSuites := own,
         level := ← parseLevelD j, vars := ← parseVars j }

def parseExperiment (j : Json) : Option Experiment := do
  let xs ← getArr? j "executions"
  pure { name := ← getStr? j "name", executions := ← xs.toList.mapM parseExecution,
         suites := ← strList j "suites", level := ← parseLevelD j, vars := ← parseVars j }

def optStr (j : Json) (k : String) : Option (Option String) :=
  match j.getObjVal? k with
  | .ok v => if v.isNull then some none else (asStr? v).map some
  | .error _ => some none

def parseConfig (j : Json) : Option RB.Runs.Config := do
  let m ← getObj? j "machine"
  let dl ← parseLevelD (← getObj? j "defaults")
  let exs ← getArr? j "executors"
  let ss ← getArr? j "suites"
  let es ← getArr? j "experiments"
  pure { machineName := ← parseVal (← getObj? j "machine_name"),
         machineLevel := ← parseLevelD m, machineVars := ← parseVars m,
         runs := ← parseLevelD (← getObj? j "runs"),
         executors := ← exs.toList.mapM parseExecutor,
         suites := ← ss.toList.mapM parseSuite,
         experiments := ← es.toList.mapM parseExperiment,
         defaultExperiment := ← optStr j "default_experiment",
         defaults := { invocations := dl.invocations, iterations := dl.iterations, warmup := dl.warmup,
                       minIterationTime := dl.minIterationTime, maxInvocationTime := dl.maxInvocationTime,
                       ignoreTimeouts := dl.ignoreTimeouts, retriesAfterFailure := dl.retriesAfterFailure,
                       executeExclusively := dl.executeExclusively, env := dl.env },
         invOverride := ← optField j "invocations_override",
         itOverride := ← optField j "iterations_override" }

def parseSuiteFilter (j : Json) : Option (String × Option String) := do
  pure (← getStr? j "suite", ← optStr j "bench")

def parseSel (j : Json) : Option Sel := do
  let sf ← getArr? j "suite_filters"
  pure { expName := ← optStr j "exp_name", execFilters := ← strList j "exec_filters",
         suiteFilters := ← sf.toList.mapM parseSuiteFilter, tagFilters := ← strList j "tag_filters" }

def varsJson (v : VarsEff) : Json :=
  Json.mkObj [("input_sizes", Json.arr (v.inputSizes.map valJson).toArray),
              ("cores", Json.arr (v.cores.map valJson).toArray),
              ("variable_values", Json.arr (v.variableValues.map valJson).toArray),
              ("tags", Json.arr (v.tags.map valJson).toArray)]

def keyJson (k : RunKey) : Json :=
  Json.mkObj [
    ("bench", Json.str k.bench.name), ("bench_static", Json.num k.bench.static),
    ("bench_details", detailsJson k.bench.details), ("bench_vars", varsJson k.bench.vars),
    ("suite", Json.str k.bench.suite.name), ("suite_static", Json.num k.bench.suite.static),
    ("executor", Json.str k.bench.suite.executor.name),
    ("executor_static", Json.num k.bench.suite.executor.static),
    ("executor_details", detailsJson k.bench.suite.executor.details),
    ("executor_vars", varsJson k.bench.suite.executor.vars),
    ("cores", valJson k.cores), ("input", valJson k.input), ("var", valJson k.var),
    ("tag", valJson k.tag), ("machine", valJson k.machine)]

def handle (op : String) (j : Json) : Option Json :=
  match op with
  | "c01.runs" => do
      let cfg ← parseConfig (← getObj? j "config")
      let sel ← parseSel (← getObj? j "sel")
      let ks := scheduled cfg sel
      pure (Json.mkObj [("runs", Json.arr (ks.map keyJson).toArray)])
  | _ => none

def main : IO Unit := run handle
