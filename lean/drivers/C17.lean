import RB.Util.Driver
import RB.Model.DB
open Lean RB.Drv RB.DB

def parseAttempt : String → Option Attempt
  | "ok" => some .ok
  | "refused" => some .refused
  | "5xx" => some .server
  | "4xx" => some .client
  | "type" => some .typeErr
  | "dropped" => some .dropped
  | _ => none

def parseScript (j : Json) (k : String) : Option (List Attempt) := do
  let a ← getArr? j k
  a.toList.mapM (fun x => do let s ← asStr? x; parseAttempt s)

def parseMeas (j : Json) : Option Meas := do
  let c ← getStr? j "c"
  let u ← getStr? j "u"
  let v ← getRat? j "v"
  pure ⟨(c, u), v⟩

def parseDP (j : Json) : Option DP := do
  let inv ← getNat? j "in"
  let it ← getNat? j "it"
  let ms ← getArr? j "ms"
  let ms ← ms.toList.mapM parseMeas
  pure ⟨inv, it, ms⟩

def parseCache (a : Array Json) : Option Cache :=
  a.toList.mapM (fun p => do
    let r ← getNat? p "run"
    let ds ← getArr? p "dps"
    let ds ← ds.toList.mapM parseDP
    pure (r, ds))

/-- data points handed over by other threads while the request is in flight (absent = none) -/
def parseDuring (j : Json) : List (Run × DP) :=
  match getArr? j "during" with
  | none => []
  | some a => a.toList.filterMap (fun x => do
      let r ← getNat? x "run"
      let d ← getObj? x "dp"
      let d ← parseDP d
      pure (r, d))

def parseEvent (j : Json) : Option Event := do
  let k ← getStr? j "k"
  match k with
  | "persist" => do
      let r ← getNat? j "run"
      let d ← getObj? j "dp"
      let d ← parseDP d
      pure (.persist r d)
  | "send" => do
      let now ← getNat? j "now"
      let s ← parseScript j "script"
      pure (.sendData now s (parseDuring j))
  | "close" => do
      let s ← parseScript j "script"
      pure (.close s (parseDuring j))
  | _ => none

def critJson (t : CritTab) : Json :=
  Json.arr (t.map (fun c => Json.arr #[Json.str c.1, Json.str c.2])).toArray

def p1Json (p : P1) : Json :=
  Json.mkObj [
    ("data", Json.arr (p.data.map (fun re => Json.mkObj [
      ("run", Json.num re.1),
      ("d", Json.arr (re.2.map (fun e => Json.mkObj [
        ("in", Json.num e.inv), ("it", Json.num e.it),
        ("m", Json.arr (e.m.map (fun vc => Json.arr #[ratToJson vc.1, Json.num vc.2])).toArray)])).toArray)])).toArray),
    ("criteria", critJson p.criteria)]

def p2Json (p : P2) : Json :=
  Json.mkObj [
    ("data", Json.arr (p.data.map (fun re => Json.mkObj [
      ("run", Json.num re.1),
      ("d", Json.arr (re.2.map (fun e => Json.mkObj [
        ("in", Json.num e.inv),
        ("m", Json.arr (e.cols.map (fun col => Json.arr (col.map (fun ov =>
          match ov with | none => Json.null | some v => ratToJson v)).toArray)).toArray)])).toArray)])).toArray),
    ("criteria", critJson p.criteria)]

def wireJson (v2 : Bool) (c : Cache) : Json :=
  if v2 then p2Json (encodeV2 c) else p1Json (encodeV1 c)

def dpJson (d : DP) : Json :=
  Json.mkObj [("in", Json.num d.inv), ("it", Json.num d.it),
    ("ms", Json.arr (d.ms.map (fun m => Json.mkObj [("c", Json.str m.crit.1), ("u", Json.str m.crit.2),
                                                    ("v", ratToJson m.value)])).toArray)]

def cacheJson (c : Cache) : Json :=
  Json.arr (c.map (fun p => Json.mkObj [("run", Json.num p.1), ("dps", Json.arr (p.2.map dpJson).toArray)])).toArray

def resultJson (r : SendResult) : List (String × Json) :=
  [("success", Json.bool r.success), ("used", Json.num r.used),
   ("waits", Json.arr (r.waits.map (fun (n : Nat) => Json.num n)).toArray)]

def reqJson (q : Req) : Json :=
  Json.mkObj (resultJson q.result ++ [
    ("v2", Json.bool q.payload.v2),
    ("start", Json.str q.payload.info.startTime),
    ("env", Json.str q.payload.info.env),
    ("source", Json.str q.payload.info.source),
    ("covers", Json.arr ((items q.payload.cache).map (fun x =>
        Json.arr #[Json.num x.1, Json.num x.2.inv, Json.num x.2.it])).toArray),
    ("wire", wireJson q.payload.v2 q.payload.cache)])

def handle (op : String) (j : Json) : Option Json :=
  match op with
  | "c17.retries" => do
      let s ← parseScript j "script"
      pure (Json.mkObj (resultJson (sendWithRetries s)))
  | "c17.encode" => do
      let v2 ← getBool? j "v2"
      let c ← getArr? j "cache"
      let c ← parseCache c
      pure (wireJson v2 c)
  | "c17.session" => do
      let v2 ← getBool? j "v2"
      let t0 ← getNat? j "t0"
      let start ← getStr? j "start"
      let env ← getStr? j "env"
      let source ← getStr? j "source"
      let variant := (getStr? j "variant").getD "repaired"
      let evs ← getArr? j "events"
      let evs ← evs.toList.mapM parseEvent
      let s0 := init ⟨start, env, source⟩ v2 t0
      let s ← match variant with
        | "repaired" => some (run s0 evs)
        | "unlocked" => some (runUnlocked s0 evs)
        | "pinned" => some (runPinned s0 evs)
        | _ => none
      pure (Json.mkObj [
        ("reqs", Json.arr (s.reqs.map reqJson).toArray),
        ("cache", cacheJson s.cache),
        ("lastSend", Json.num s.lastSend),
        ("acked", Json.arr ((ackedItems s).map (fun x =>
            Json.arr #[Json.num x.1, Json.num x.2.inv, Json.num x.2.it])).toArray)])
  | _ => none

def main : IO Unit := run handle
