import RB.Util.Driver
import RB.Model.Kill
open Lean RB.Drv RB.Kill

partial def parseTree (j : Json) : Option Tree := do
  let p ← getNat? j "pid"
  let cs ← getArr? j "children"
  let cs ← cs.toList.mapM parseTree
  pure (.node p cs)

def parseJoinEnd : String → Option JoinEnd
  | "finished" => some .finished
  | "deadline" => some .deadline
  | "interrupt" => some .interrupt
  | _ => none

def parseSituation (j : Json) : Option Situation := do
  let t ← getInt? j "timeout"
  let je ← getStr? j "join_end"
  let je ← parseJoinEnd je
  let a ← getBool? j "alive_reported"
  let c ← getBool? j "child_running"
  let w ← getBool? j "worker_raised"
  pure ⟨t, je, a, c, w⟩

def evJson : Ev → Json
  | .kill p => Json.arr #[Json.str "kill", Json.num p]
  | .joinWorker => Json.arr #[Json.str "join"]
  | .raiseInterrupt => Json.arr #[Json.str "raise", Json.str "KeyboardInterrupt"]
  | .raiseWorkerExc => Json.arr #[Json.str "raise", Json.str "worker"]
  | .ret t => Json.arr #[Json.str "return", Json.bool t]

def natArr (l : List Nat) : Json := Json.arr (l.map (fun (n : Nat) => Json.num n)).toArray

def handle (op : String) (j : Json) : Option Json :=
  match op with
  | "c16.killlist" => do
      let t ← getObj? j "tree"
      let t ← parseTree t
      let rec_ ← getBool? j "recursively"
      pure (Json.mkObj [("pids", natArr (killList t rec_)), ("all", natArr (allPids t))])
  | "c16.sudo" => do
      let t ← getObj? j "tree"
      let t ← parseTree t
      let kt ← getBool? j "kill_tree"
      pure (Json.mkObj [("calls", Json.arr ((sudoCalls t kt).map (fun c => Json.arr (c.map Json.str).toArray)).toArray),
                        ("killed", natArr (sudoKilled t kt))])
  | "c16.run" => do
      let s ← parseSituation j
      let t ← getObj? j "tree"
      let t ← parseTree t
      let kt ← getBool? j "kill_tree"
      let pinned := (getBool? j "pinned").getD false
      let tr := if pinned then runTracePinned s t kt else runTrace s t kt
      pure (Json.mkObj [("trace", Json.arr (tr.map evJson).toArray),
                        ("kills", Json.bool (if pinned then killsPinned s else kills s))])
  | "c16.joinplan" => do
      let t ← getNat? j "timeout"
      pure (Json.mkObj [("slices", natArr (joinPlan t))])
  | "c16.classify" => do
      let rc ← getInt? j "rc"
      let f ← getBool? j "include_faulty"
      let i ← getBool? j "ignore_timeouts"
      let parsed := getNat? j "parsed"
      let inv := invocation rc f i parsed
      let cls := match classify rc f i with
        | .failImmediately => "fail_immediately" | .failed => "failed" | .evaluated => "evaluated"
      pure (Json.mkObj [("class", Json.str cls), ("successful", Json.bool inv.successful),
                        ("recorded", Json.num inv.recorded), ("continues", Json.bool inv.continues)])
  | _ => none

def main : IO Unit := run handle
