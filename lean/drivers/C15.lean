import RB.Util.Driver
import RB.Model.Stats
open Lean RB.Drv RB.Stats

def stateJson (s : S) : Json :=
  Json.mkObj [("n", Json.num s.n), ("mean", ratToJson s.mean), ("m2", ratToJson s.m2),
              ("min", ratToJson s.min), ("max", ratToJson s.max)]

def parseDP (j : Json) : Option DP := do
  let it ← getNat? j "it"
  let t ← getRat? j "total"
  pure { iteration := it, total := t }

def handle (op : String) (j : Json) : Option Json :=
  match op with
  | "c15.stats" => do
      -- batches: list of lists, fed one batch after the other (grouping)
      let bs ← getArr? j "batches"
      let batches ← bs.toList.mapM (fun b => do
        let a ← asArr? b
        a.toList.mapM asRat?)
      let s := batches.foldl addAll init
      pure (stateJson s)
  | "c15.warmup" => do
      let w ← getNat? j "w"
      let invs ← getArr? j "invs"
      let invs ← invs.toList.mapM (fun b => do
        let a ← asArr? b
        a.toList.mapM parseDP)
      let live := invs.flatMap (liveSamples w)
      let reload := invs.flatMap (reloadSamples w)
      pure (Json.mkObj [("live", Json.arr (live.map ratToJson).toArray),
                        ("reload", Json.arr (reload.map ratToJson).toArray),
                        ("live_stats", stateJson (addAll init live)),
                        ("reload_stats", stateJson (addAll init reload))])
  | _ => none

def main : IO Unit := run handle
