import RB.Util.SchedDriver
/-! driver of C11: ops `c11.trace`, `c11.session`, `c11.exec` (see RB/Util/SchedDriver.lean) -/
def handle (op : String) (j : Lean.Json) : Option Lean.Json :=
  if op.startsWith "c11." then RB.SchedDrv.handle op j else none

def main : IO Unit := RB.Drv.run handle
