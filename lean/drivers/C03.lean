import RB.Util.Driver
import RB.Model.Cmdline
open Lean RB.Drv RB.Cmdline

def str (s : Str) : Json := Json.str (String.ofList s)
def optStr : Option Str → Json
  | none => Json.null
  | some s => str s

def getOptStr? (j : Json) (k : String) : Option (Option Str) :=
  match j.getObjVal? k with
  | .ok Json.null => some none
  | .ok (Json.str s) => some (some s.toList)
  | _ => none

def getS? (j : Json) (k : String) : Option Str := (getStr? j k).map String.toList

def parseVal (j : Json) : Option Val :=
  match j with
  | Json.null => some Val.none
  | _ =>
    match j.getObjVal? "i" with
    | .ok v => (asInt? v).map Val.int
    | _ => match j.getObjVal? "s" with
      | .ok v => (asStr? v).map (fun s => Val.str s.toList)
      | _ => none

def getVal? (j : Json) (k : String) : Option Val := (getObj? j k).bind parseVal

def parsePairs (a : Array Json) : Option Env :=
  a.toList.mapM (fun p => do
    let q ← asArr? p
    if q.size ≠ 2 then none else
    let k ← asStr? q[0]!
    let v ← asStr? q[1]!
    pure (k.toList, v.toList))

def getEnv? (j : Json) (k : String) : Option Env := (getArr? j k).bind parsePairs

def getOptInt? (j : Json) (k : String) : Option (Option Int) :=
  match j.getObjVal? k with
  | .ok Json.null => some none
  | .ok v => (asInt? v).map some
  | _ => none

def parseAdapter (j : Json) : Option Adapter :=
  match j.getObjVal? "adapter" with
  | .error _ => some Adapter.plain
  | .ok Json.null => some Adapter.plain
  | .ok a => do
    match ← getStr? a "kind" with
    | "plain" => pure Adapter.plain
    | "time" => do
        let f ← getBool? a "formatted"
        let b ← getS? a "bin"
        pure (Adapter.time f b)
    | "perf" => do
        let c ← getS? a "command"
        let ra ← getS? a "record_args"
        let rp ← getS? a "report_args"
        pure (Adapter.perf c ra rp)
    | _ => none

def parseRun (j : Json) : Option Run := do
  pure {
    benchCommand := ← getS? j "bench"
    cores := ← getVal? j "cores"
    input := ← getVal? j "input"
    varValue := ← getVal? j "variable"
    tag := ← getVal? j "tag"
    executorName := ← getS? j "executor"
    suiteName := ← getS? j "suite"
    iterations := ← getVal? j "iterations"
    warmup := ← getVal? j "warmup"
    pathRaw := ← getOptStr? j "path"
    executable := ← getS? j "executable"
    args := ← getOptStr? j "args"
    command := ← getS? j "command"
    extraArgs := ← getOptStr? j "extra_args"
    hasLocation := ← getBool? j "has_location"
    locationRaw := ← getOptStr? j "location"
    env := ← getEnv? j "env"
    invocations := ← getNat? j "invocations"
    adapter := ← parseAdapter j }

def parseWorld (j : Json) : Option World := do
  pure {
    cwd := ← getS? j "cwd"
    parent := ← getEnv? j "parent"
    pwHome := ← getOptStr? j "pw_home"
    users := ← getEnv? j "users" }

def envJson (e : Env) : Json :=
  Json.arr (e.map (fun kv => Json.arr #[str kv.1, str kv.2])).toArray

def launchJson (l : Launch) : List (String × Json) :=
  [("text", str l.text), ("argv", Json.arr (l.argv.map str).toArray),
   ("cwd", optStr l.cwd), ("env", envJson l.env)]

def eventJson : Event → Json
  | .start run inv l => Json.mkObj ([("t", Json.str "start"), ("run", Json.num run), ("inv", Json.num inv)] ++ launchJson l)
  | .report run inv l => Json.mkObj ([("t", Json.str "report"), ("run", Json.num run), ("inv", Json.num inv)] ++ launchJson l)
  | .append run inv => Json.mkObj [("t", Json.str "append"), ("run", Json.num run), ("inv", Json.num inv)]
  | .plan run cd cmd => Json.mkObj [("t", Json.str "plan"), ("run", Json.num run), ("cd", optStr cd), ("cmd", str cmd)]
  | .uiError run => Json.mkObj [("t", Json.str "ui_error"), ("run", Json.num run)]

def parseOutcome (j : Json) : Option Outcome :=
  match asStr? j with
  | some "ok" => some .ok
  | some "fail" => some .fail
  | some "fail_report" => some .failReport
  | _ => none

/-- sessions one after the other, the completed counters carried over -/
def sessions (w : World) (runs : List Run) :
    List (Bool × List (List Outcome)) → List Nat → List (List Event)
  | [], _ => []
  | (plan, outs) :: rest, cs =>
    let (ev, cs') := session w plan runs 0 cs outs
    ev :: sessions w runs rest cs'

def handle (op : String) (j : Json) : Option Json :=
  match op with
  | "c03.fmt" => do
      -- raw `%` operator: template and a dictionary
      let t ← getS? j "template"
      let e ← getEnv? j "env"
      pure (Json.mkObj [("out", optStr (fmt e t))])
  | "c03.launch" => do
      let w ← (getObj? j "world").bind parseWorld
      let r ← (getObj? j "run").bind parseRun
      let c ← getNat? j "completed"
      let two : Json := match twoPhase w.cwd r (c + 1) with
        | none => Json.str "ui_error"
        | some none => Json.str "crash"
        | some (some s) => Json.mkObj [("ok", str s)]
      let base := [("cmdline", optStr (cmdline w.cwd r)),
                   ("location", match location w.cwd r with
                                | none => Json.str "ui_error"
                                | some l => Json.mkObj [("ok", optStr l)]),
                   ("run_env", envJson (runEnv w r)),
                   ("two_phase", two),
                   ("pre", optStr (nextText w.cwd r (c + 1)))]
      match launch w r c with
      | .ok l => pure (Json.mkObj (("status", Json.str "ok") :: base ++ launchJson l))
      | .uiError => pure (Json.mkObj (("status", Json.str "ui_error") :: base))
      | .crash => pure (Json.mkObj (("status", Json.str "crash") :: base))
  | "c03.sessions" => do
      let w ← (getObj? j "world").bind parseWorld
      let rs ← (getArr? j "runs").bind (fun a => a.toList.mapM parseRun)
      let ss ← (getArr? j "sessions").bind (fun a => a.toList.mapM (fun s => do
        let p ← getBool? s "plan"
        let outs ← (getArr? s "outcomes").bind (fun a => a.toList.mapM (fun o => do
          let oa ← asArr? o
          oa.toList.mapM parseOutcome))
        pure (p, outs)))
      let evs := sessions w rs ss (rs.map (fun _ => 0))
      pure (Json.arr (evs.map (fun es => Json.arr (es.map eventJson).toArray)).toArray)
  | "c03.time_decision" => do
      let rc1 ← getOptInt? j "rc1"
      let rc2 ← getOptInt? j "rc2"
      let (f, b) := timeDecision rc1 rc2
      pure (Json.mkObj [("formatted", Json.bool f), ("bin", str b)])
  | "c03.expand_user" => do
      let w ← (getObj? j "world").bind parseWorld
      let s ← getS? j "line"
      let esc ← getBool? j "escape"
      pure (Json.mkObj [("out", str (expandUserLine w esc s))])
  | "c03.abspath" => do
      let cwd ← getS? j "cwd"
      let p ← getS? j "path"
      pure (Json.mkObj [("out", str (abspath cwd p))])
  | _ => none

def main : IO Unit := run handle
