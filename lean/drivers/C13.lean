import RB.Util.Driver
import RB.Model.Builds
open Lean RB.Drv RB.Builds

def optStr? (j : Json) (k : String) : Option (Option String) :=
  match j.getObjVal? k with
  | .ok .null => some none
  | .ok v => match v.getStr? with | .ok s => some (some s) | _ => none
  | _ => some none

def strList? (j : Json) (k : String) : Option (List String) := do
  let a ← getArr? j k
  a.toList.mapM asStr?

def envOf? (v : Json) : Option Env := do
  let a ← asArr? v
  a.toList.mapM (fun p => do
    let q ← asArr? p
    match q.toList with
    | [a, b] => do pure ((← asStr? a), (← asStr? b))
    | _ => none)

def optEnv? (j : Json) (k : String) : Option (Option Env) :=
  match j.getObjVal? k with
  | .ok .null => some none
  | .ok v => (envOf? v).map some
  | _ => some none

def parseExec (j : Json) : Option ExecCfg := do
  pure { name := ← getStr? j "name", path := ← optStr? j "path",
         build := ← strList? j "build", env := ← optEnv? j "env" }

def parseSuite (j : Json) : Option SuiteCfg := do
  pure { name := ← getStr? j "name", location := ← optStr? j "location",
         build := ← strList? j "build", env := ← optEnv? j "env" }

def parseRes (s : String) : Option BRes :=
  match s with
  | "ok" => some .ok | "fail" => some .fail | "oserr" => some .oserr | _ => none

def resStr : BRes → String
  | .ok => "ok" | .fail => "fail" | .oserr => "oserr"

def parseSched (s : String) : Option Sched :=
  match s with
  | "batch" => some .batch | "round-robin" => some .rr | "random" => some .random | _ => none

def optJ (o : Option String) : Json := match o with | some s => Json.str s | none => Json.null

def envJ (e : Env) : Json := Json.arr (e.map (fun p => Json.arr #[Json.str p.1, Json.str p.2])).toArray

def buildJ (b : Option Build) : Json :=
  match b with
  | none => Json.null
  | some b => Json.arr #[Json.str b.script, optJ b.loc]

def evJ (cwd home : String) : Ev → Json
  | .buildStart b dir env r => Json.arr #[Json.str "B", Json.str b.script, optJ b.loc, Json.str dir, envJ env, Json.num r]
  | .buildEnd b res => Json.arr #[Json.str "E", Json.str b.script, optJ b.loc, Json.str (dirOf cwd home b), Json.str (resStr res)]
  | .start r => Json.arr #[Json.str "S", Json.num r]
  | .finish r => Json.arr #[Json.str "F", Json.num r]

def pcStr : PC → String
  | .idle => "idle" | .wantLock .. => "wantLock" | .atBuild .. => "atBuild" | .building .. => "building"
  | .atStart _ => "atStart" | .running _ => "running" | .dead => "dead"

/-- compile the runs of the request (observed order; id = position) -/
def parseRuns (cwd : String) (j : Json) : Option (List Run) := do
  let home := (getStr? j "home").getD "/root"
  let es ← (← getArr? j "executors").toList.mapM parseExec
  let ss ← (← getArr? j "suites").toList.mapM parseSuite
  let rs ← getArr? j "runs"
  let rec go (l : List Json) (i : Nat) : Option (List Run) :=
    match l with
    | [] => some []
    | r :: rest => do
      let en ← getStr? r "exec"
      let sn ← getStr? r "suite"
      let e ← es.find? (·.name = en)
      let s ← ss.find? (·.name = sn)
      let inv ← getNat? r "inv"
      let excl ← getBool? r "excl"
      let done0 := (getNat? r "done0").getD 0
      -- `env` on machine, runs, experiment, execution-details level (outermost first), and the benchmark's
      let outer ← match getArr? r "outer_env" with
        | some a => a.toList.mapM (fun x => match x with | .null => some none | v => (envOf? v).map some)
        | none => some []
      let benchEnv ← optEnv? r "bench_env"
      let tl ← go rest (i + 1)
      pure (mkRun cwd i e s inv excl done0 home outer benchEnv :: tl)
  go rs.toList 0

/-- results are keyed by (script, directory the script runs in) -/
def parseResults (cwd home : String) (j : Json) : Option (Build → BRes) := do
  let a ← getArr? j "results"
  let l ← a.toList.mapM (fun x => do
    let s ← getStr? x "script"
    let d ← getStr? x "dir"
    let r ← parseRes (← getStr? x "res")
    pure ((s, d), r))
  pure (fun b => match l.find? (·.1 = (b.script, dirOf cwd home b)) with | some p => p.2 | none => .ok)

/-- iterate a sequential scheduler until the work list is empty (bounded) -/
def seqLoop (c : Cfg) (s : Sched) : Nat → List Nat → St → List Run → St × List Run × List Nat
  | 0, ks, st, work => (st, work, ks)
  | fuel + 1, ks, st, work =>
    match work with
    | [] => (st, [], ks)
    | _ =>
      let (k, ks') := match s, ks with
        | .random, k :: ks' => (k, ks')
        | _, _ => (0, ks)
      let p := schedStep c s k st work
      seqLoop c s fuel ks' p.1 p.2

def runStatusJ (st : St) (r : Run) : Json :=
  Json.mkObj [("completed", Json.num (r.done0 + completed st r.id)), ("inv", Json.num r.inv),
              ("fail_imm", Json.bool (decide (r.id ∈ st.failImm))),
              ("failed", Json.bool (isFailed st r.id)),
              ("ebuild", buildJ r.ebuild), ("sbuild", buildJ r.sbuild), ("env", envJ r.env)]

def handle (op : String) (j : Json) : Option Json :=
  match op with
  | "c13.session" => do
      let cwd ← getStr? j "cwd"
      let runs ← parseRuns cwd j
      let home ← getStr? j "home"
      let res ← parseResults cwd home j
      let doB ← getBool? j "do_builds"
      let rep ← getBool? j "repaired"
      let sched ← parseSched (← getStr? j "sched")
      let choices ← (← getArr? j "choices").toList.mapM asNat?
      let cpu ← getNat? j "cpu"
      let c : Cfg := { cwd := cwd, home := home, doBuilds := doB, res := res, oserrRaises := rep }
      let total := (runs.map (fun r => r.inv + 2)).sum + 2
      if useParallel cpu runs then
        let locked ← getBool? j "locked"
        let picks ← (← getArr? j "picks").toList.mapM asNat?
        let pc : PCfg := { toCfg := c, sched := sched, locked := locked }
        let n := numThreads cpu
        -- executor.py:127 `_filter_out_completed_runs` before scheduling
        let active := runs.filter (fun r => r.done0 < r.inv)
        let seqRuns := active.filter (·.excl)
        let parRuns := active.filter (fun r => !r.excl)
        let (st, left, ks) := seqLoop c sched total choices {} seqRuns
        let ps0 : PSt := { st := st, remaining := parRuns, choices := ks, workers := List.replicate n {} }
        -- replay the observed schedule, recording whether each pick could move
        let (ps, moved) := picks.foldl (fun (acc : PSt × List Bool) i =>
            let ps' := pstep pc n (2 * total) i acc.1
            let enabled := match acc.1.workers[i]? with
              | none => false
              | some w => match w.pc with
                | .dead => false
                | .wantLock .. => acc.1.lock.isNone
                | _ => true
            (ps', acc.2 ++ [enabled])) (ps0, [])
        pure (Json.mkObj [
          ("parallel", Json.bool true), ("threads", Json.num n),
          ("events", Json.arr (ps.st.trace.map (evJ cwd home)).toArray),
          ("runs", Json.arr (runs.map (runStatusJ ps.st)).toArray),
          ("left", Json.num (left.length + ps.remaining.length)),
          ("pcs", Json.arr (ps.workers.map (fun w => Json.str (pcStr w.pc))).toArray),
          ("moved", Json.arr (moved.map Json.bool).toArray)])
      else
        let (st, left, _) := seqLoop c sched total choices {} (runs.filter (fun r => r.done0 < r.inv))
        pure (Json.mkObj [
          ("parallel", Json.bool false),
          ("events", Json.arr (st.trace.map (evJ cwd home)).toArray),
          ("runs", Json.arr (runs.map (runStatusJ st)).toArray),
          ("left", Json.num left.length)])
  | "c13.setup" => do
      let cwd ← getStr? j "cwd"
      let runs ← parseRuns cwd j
      let sel := selectSetup [] runs
      pure (Json.mkObj [("selected", Json.arr (sel.map (fun r => Json.num r.id)).toArray)])
  | _ => none

def main : IO Unit := run handle
