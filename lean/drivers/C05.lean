import RB.Util.AdapterJson
open Lean RB.Drv

/-- ops: c05.parse, c05.match, c05.search, c05.float (and c05.render, see below) -/
def handle (op : String) (j : Json) : Option Json :=
  if op.startsWith "c05." then RB.Drv.Ad.handle (op.drop 4).toString j else none

def main : IO Unit := run handle
