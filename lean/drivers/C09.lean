import RB.Util.Driver
import RB.Model.Loader
open Lean RB.Drv RB.Loader

def excName : Exc → String
  | .value => "value" | .index => "index" | .assertion => "assertion" | .decode => "decode"

def recName : Rec → String
  | .session => "session" | .comment => "comment" | .header => "header"
  | .bench id k => s!"bench:{id}:{k}" | .run id b k => s!"run:{id}:{b}:{k}"
  | .metaErr e => s!"metaErr:{excName e}"
  | .meas m => s!"meas:{m.inv}:{m.it}:{String.ofList m.crit}:{m.runIdx}"
  | .dataErr e => s!"dataErr:{excName e}"

def endName : Except End LState → String
  | .ok _ => "ok"
  | .error .uiError => "uiError"
  | .error (.crash e) => s!"crash:{excName e}"

def variantOf (j : Json) : Option Variant :=
  match getStr? j "variant" with
  | some "pinned" => some Variant.pinned
  | some "repaired" => some Variant.repaired
  | some "custom" => do
      let a ← getBool? j "metaTolerant"
      let b ← getBool? j "resetAtComment"
      let c ← getBool? j "skipUnterminated"
      pure ⟨a, b, c⟩
  | _ => none

def payloadsOf (j : Json) : Option Payloads := do
  let bs ← getArr? j "bench_payloads"
  let rs ← getArr? j "run_payloads"
  let bench ← bs.toList.mapM (fun e => do
    let a ← asArr? e
    let p ← asStr? (← a[0]?)
    let k ← asNat? (← a[1]?)
    pure (p.toList, k))
  let run ← rs.toList.mapM (fun e => do
    let a ← asArr? e
    let p ← asStr? (← a[0]?)
    let k ← asNat? (← a[1]?)
    let b ← asNat? (← a[2]?)
    pure (p.toList, k, b))
  -- profile data file: the JSON columns that `json.loads` accepts (null: the loader does not check)
  let prof : Option (Text → Bool) :=
    match j.getObjVal? "profile_json" with
    | .ok (Json.arr a) =>
        let l := a.toList.filterMap (fun e => match e.getStr? with | .ok s => some s.toList | _ => none)
        some (fun js => l.contains js)
    | .ok (Json.str "any") => some (fun _ => true)
    | _ => none
  pure { Payloads.ofLists bench run with profile := prof }

def cfgOf (j : Json) : Option (List RunCfg) := do
  let cs ← getArr? j "cfg"
  cs.toList.mapM (fun e => do
    let a ← asArr? e
    pure ⟨← asNat? (← a[0]?), ← asNat? (← a[1]?), ← asNat? (← a[2]?), ← asNat? (← a[3]?)⟩)

def dpJson (d : DP) : Json :=
  Json.arr #[Json.num d.run, Json.num d.inv,
    Json.arr (d.ms.map (fun m => Json.arr #[Json.num m.1, Json.str (String.ofList m.2.1), Json.str (String.ofList m.2.2)])).toArray]

def natArr (l : List Nat) : Json := Json.arr (l.map (fun (n : Nat) => Json.num n)).toArray

def handle (op : String) (j : Json) : Option Json :=
  match op with
  | "c09.load" => do
      -- text → records → loader; plus what the next session would execute
      let text ← getStr? j "text"
      let hdr ← getStr? j "hdr"
      let v ← variantOf j
      let pl ← payloadsOf j
      let cfg ← cfgOf j
      let recs := records v pl hdr.toList text.toList
      let res := loadText ((getBool? j "decode_tolerant").getD true) v pl hdr.toList text.toList
      let (loaded, runs, benches) := match res with
        | .ok st => (st.loaded, st.runs, st.benches)
        | .error _ => ([], [], [])
      let want := getBool? j "want_recs" |>.getD false
      pure (Json.mkObj [
        ("end", Json.str (endName res)),
        ("nrecs", Json.num recs.length),
        ("recs", if want then Json.arr (recs.map (fun r => Json.str (recName r))).toArray else Json.null),
        ("loaded", Json.arr (loaded.map dpJson).toArray),
        ("runs", natArr runs), ("benches", natArr benches),
        ("todo", Json.arr (cfg.map (fun c => Json.arr #[Json.num c.run, natArr (todo loaded c)])).toArray)])
  | "c09.session" => do
      -- what a session appends (writer model), as record names
      let benches ← (← getArr? j "benches").toList.mapM asNat?
      let runs ← (← getArr? j "runs").toList.mapM asNat?
      let glued ← getBool? j "glued"
      let empty ← getBool? j "empty"
      let ds ← (← getArr? j "dps").toList.mapM (fun e => do
        let a ← asArr? e
        let crits ← (← asArr? (← a[4]?)).toList.mapM (fun c => do
          let ca ← asArr? c
          pure ((← asStr? (← ca[0]?)).toList, (← asStr? (← ca[1]?)).toList))
        pure (⟨← asNat? (← a[0]?), ← asNat? (← a[1]?), ← asNat? (← a[2]?), ← asNat? (← a[3]?), crits,
               (← asStr? (← a[5]?)).toList⟩ : WDP))
      let recs := sessionRecs glued empty ⟨benches, runs⟩ ds
      pure (Json.mkObj [("recs", Json.arr (recs.map (fun r => Json.str (recName r))).toArray)])
  | "c09.render" => do
      -- the text a session appends (text-level writer `mkSess` / `sessText`)
      let benches ← (← getArr? j "benches").toList.mapM asNat?
      let runs ← (← getArr? j "runs").toList.mapM asNat?
      let empty ← getBool? j "empty"
      let cmd ← getStr? j "cmd"
      let hdr ← getStr? j "hdr"
      let comments ← (← getArr? j "comments").toList.mapM asStr?
      let ds ← (← getArr? j "dps").toList.mapM (fun e => do
        let a ← asArr? e
        let crits ← (← asArr? (← a[4]?)).toList.mapM (fun c => do
          let ca ← asArr? c
          pure ((← asStr? (← ca[0]?)).toList, (← asStr? (← ca[1]?)).toList))
        pure (⟨← asNat? (← a[0]?), ← asNat? (← a[1]?), ← asNat? (← a[2]?), ← asNat? (← a[3]?), crits,
               (← asStr? (← a[5]?)).toList⟩ : WDP))
      let cols ← (← getArr? j "cols").toList.mapM (fun e => do
        let a ← asArr? e
        let cs ← (← asArr? (← a[1]?)).toList.mapM asStr?
        pure ((← asNat? (← a[0]?)), cs.map String.toList))
      let units ← (← getArr? j "units").toList.mapM (fun e => do
        let a ← asArr? e
        pure ((← asStr? (← a[0]?)).toList, (← asStr? (← a[1]?)).toList))
      let bj ← (← getArr? j "bench_json").toList.mapM (fun e => do
        let a ← asArr? e
        pure ((← asNat? (← a[0]?)), (← asStr? (← a[1]?)).toList))
      let rj ← (← getArr? j "run_json").toList.mapM (fun e => do
        let a ← asArr? e
        pure (((← asNat? (← a[0]?)), (← asNat? (← a[1]?))), (← asStr? (← a[2]?)).toList))
      let R : Rend := {
        cols := fun k => (cols.lookup k).getD []
        unit := fun c => (units.lookup c).getD []
        benchJson := fun k => (bj.lookup k).getD "?".toList
        runJson := fun k b => (rj.lookup (k, b)).getD "?".toList
        comment := fun i => (comments[i]?.getD "").toList
        hdr := hdr.toList
        profile := (getBool? j "profile").getD false }
      let t := sessText ⟨benches, runs⟩ (mkSess R cmd.toList empty ds)
      pure (Json.mkObj [("text", Json.str (String.ofList t)), ("rend_ok", Json.bool (rendOk R)),
        ("dps_ok", Json.bool (ds.all (dpOk R))), ("cmd_ok", Json.bool (cmdOk cmd.toList && noCR cmd.toList))])
  | "c09.classify" => do
      -- one line → record name
      let line ← getStr? j "line"
      let term ← getBool? j "terminated"
      let hdr ← getStr? j "hdr"
      let pl ← payloadsOf j
      pure (Json.mkObj [("rec", Json.str (recName (classify pl hdr.toList ⟨line.toList, term⟩)))])
  | _ => none

def main : IO Unit := run handle
