import RB.Util.SessionJson
import RB.Model.Identity
open Lean RB.Drv RB.DataFile RB.Session RB.Identity

/-- scalars: null | {"b":bool} | {"i":int} | {"s":str} | {"f":repr} | {"d":iso-date} -/
def parseVal? (j : Json) : Option Val :=
  if j.isNull then some .none else
  match getBool? j "b" with
  | some b => some (.bool b)
  | none => match getInt? j "i" with
    | some i => some (.int i)
    | none => match getStr? j "s" with
      | some s => some (.str s)
      | none => match getStr? j "f" with
        | some s => some (.float s)
        | none => (getStr? j "d").map .date

def parseVals? (j : Json) (k : String) : Option (List Val) := do
  (← getArr? j k).toList.mapM parseVal?

def getV? (j : Json) (k : String) : Option Val := do parseVal? (← getObj? j k)

def parseVars? (j : Json) : Option Vars := do
  pure { inputSizes := ← parseVals? j "input_sizes", cores := ← parseVals? j "cores",
         variableValues := ← parseVals? j "variable_values", tags := ← parseVals? j "tags" }

def parseEnv? (j : Json) : Option (Option (List (String × Val))) :=
  if j.isNull then some none else do
    let a ← asArr? j
    let kvs ← a.toList.mapM (fun p => do
      let pr ← asArr? p
      let k ← asStr? (← pr[0]?)
      let v ← parseVal? (← pr[1]?)
      pure (k, v))
    pure (some kvs)

def parseRD? (j : Json) : Option RunDetails := do
  pure { invocations := ← getV? j "invocations", iterations := ← getV? j "iterations", warmup := ← getV? j "warmup",
         minIterationTime := ← getV? j "min_iteration_time", maxInvocationTime := ← getV? j "max_invocation_time",
         ignoreTimeouts := ← getV? j "ignore_timeouts",
         parallelInterferenceFactor := ← getV? j "parallel_interference_factor",
         executeExclusively := ← getV? j "execute_exclusively",
         retriesAfterFailure := ← getV? j "retries_after_failure", env := ← parseEnv? (← getObj? j "env"),
         invocationsOverride := ← getV? j "invocations_override", iterationsOverride := ← getV? j "iterations_override" }

def parseExec? (j : Json) : Option Exec := do
  pure { name := ← getV? j "name", description := ← getV? j "description", action := ← getV? j "action",
         path := ← getV? j "path", executable := ← getV? j "executable", args := ← getV? j "args",
         build := ← getV? j "build", runDetails := ← parseRD? (← getObj? j "run_details"),
         variables := ← parseVars? (← getObj? j "variables") }

def parseSuite? (j : Json) : Option Suite := do
  pure { name := ← getV? j "name", command := ← getV? j "command", location := ← getV? j "location",
         desc := ← getV? j "_desc", build := ← getV? j "build", executor := ← parseExec? (← getObj? j "executor") }

def parseBench? (j : Json) : Option Bench := do
  pure { name := ← getV? j "name", command := ← getV? j "command", extraArgs := ← getV? j "extra_args",
         runDetails := ← parseRD? (← getObj? j "run_details"), variables := ← parseVars? (← getObj? j "variables"),
         suite := ← parseSuite? (← getObj? j "suite") }

def parseRun? (j : Json) : Option Run := do
  pure { benchmark := ← parseBench? (← getObj? j "benchmark"), cores := ← getV? j "cores",
         inputSize := ← getV? j "input_size", varValue := ← getV? j "var_value", tag := ← getV? j "tag",
         machine := ← getV? j "machine", cmdline := ← getStr? j "cmdline" }

partial def jToJson : J → Json
  | .null => Json.null
  | .bool b => Json.bool b
  | .int i => Json.num (JsonNumber.fromInt i)
  | .str s => Json.str s
  | .float r => Json.mkObj [("__float__", Json.str r)]
  | .date s => Json.mkObj [("__date__", Json.str s)]
  | .arr xs => Json.arr (xs.map jToJson).toArray
  | .obj kvs => Json.mkObj (kvs.map (fun kv => (kv.1, jToJson kv.2)))

def expandTilde (home : String) (s : String) : String :=
  if s = "~" then home else if s.startsWith "~/" then home ++ s.drop 1 else s

def parsedJson : Option ParsedMeas → Json
  | none => Json.null
  | some p => Json.mkObj [("inv", Json.num p.inv), ("it", Json.num p.it), ("value", ratToJson p.value),
                          ("unit", Json.str (str p.unit)), ("crit", Json.str (str p.crit)), ("rid", Json.num p.rid)]

def handle (op : String) (j : Json) : Option Json :=
  match op with
  | "c07.sessions" => do
      let sc ← parseScenario? j
      pure (runScenario sc)
  | "c07.bench" => do
      let b ← parseBench? (← getObj? j "bench")
      let inPlace := (getBool? j "in_place").getD false
      let home := (getStr? j "home").getD "/root"
      let recd := b.recorded inPlace (expandTilde home)
      pure (Json.mkObj [("as_dict", jToJson recd.asDict), ("serialisable", Json.bool recd.asDict.serialisable),
                        ("reload_is_configured", Json.bool (recd.reload == some b)),
                        ("from_dict_is_identity", Json.bool (Bench.fromDict b.asDict == some b))])
  | "c07.run" => do
      let r ← parseRun? (← getObj? j "run")
      let bid ← getNat? j "bench_id"
      let benches := (List.replicate bid exBenchDummy) ++ [r.benchmark]
      pure (Json.mkObj [("as_dict", jToJson (r.asDict bid)),
                        ("reload_is_configured", Json.bool (r.reload benches bid == some r))])
  | "c07.fields" =>
      pure (Json.mkObj [
        ("RunId", Json.arr #["benchmark", "cores", "input_size", "var_value", "tag", "machine"]),
        ("Benchmark", Json.arr #["name", "command", "extra_args", "run_details", "variables", "suite"]),
        ("BenchmarkSuite", Json.arr #["name", "command", "location", "_desc", "build", "executor"]),
        ("Executor", Json.arr #["name", "description", "action", "path", "executable", "args", "build",
                                "run_details", "variables"]),
        ("ExpRunDetails", Json.arr #["invocations", "iterations", "warmup", "min_iteration_time",
                                     "max_invocation_time", "ignore_timeouts", "parallel_interference_factor",
                                     "execute_exclusively", "retries_after_failure", "env",
                                     "invocations_override", "iterations_override"]),
        ("ExpVariables", Json.arr #["input_sizes", "cores", "variable_values", "tags"])])
  | "c07.line" => do
      let inv ← getNat? j "inv"
      let it ← getNat? j "it"
      let value ← match getRat? j "v" with
        | some q => some (fmt6 q)
        | none => (getStr? j "raw").map String.toList
      let unit ← getStr? j "unit"
      let crit ← getStr? j "crit"
      let cols ← (← getArr? j "cols").toList.mapM asStr?
      let rid ← getNat? j "rid"
      let l : MeasLine := { inv := inv, it := it, value := value, unit := unit.toList, crit := crit.toList,
                            cols := cols.map String.toList, rid := rid }
      let text := writeMeas l
      let lines := splitLines (text ++ ['\n'])
      pure (Json.mkObj [("text", Json.str (str text)),
                        ("lines", Json.arr (lines.map (fun x => Json.str (str x))).toArray),
                        ("parsed", Json.arr (lines.map (fun x => parsedJson (parseMeas x))).toArray),
                        ("sep_free", Json.bool (sepFree l.unit && sepFree l.crit && l.cols.all sepFree))])
  | _ => none
where
  exBenchDummy : Bench :=
    let rd : RunDetails := ⟨.none, .none, .none, .none, .none, .none, .none, .none, .none, none, .none, .none⟩
    let vs : Vars := ⟨[], [], [], []⟩
    ⟨.none, .none, .none, rd, vs, ⟨.none, .none, .none, .none, .none, ⟨.none, .none, .none, .none, .none, .none, .none, rd, vs⟩⟩⟩

def main : IO Unit := run handle
