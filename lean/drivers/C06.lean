import RB.Util.SessionJson
open Lean RB.Drv RB.DataFile RB.Session

def optChars (j : Json) (k : String) : Option (List Char) := (getStr? j k).map String.toList

def parseUrl? (j : Json) : Option Url := do
  let scheme ← getStr? j "scheme"
  let host ← getStr? j "host"
  let rest ← getStr? j "rest"
  let auth := match getStr? j "user" with
    | some u => some (u.toList, optChars j "password")
    | none => none
  pure { scheme := scheme.toList, auth := auth, host := host.toList, port := optChars j "port", rest := rest.toList }

def handle (op : String) (j : Json) : Option Json :=
  match op with
  | "c06.sessions" => do
      let sc ← parseScenario? j
      pure (runScenario sc)
  | "c06.url" => do
      let u ← parseUrl? j
      pure (Json.mkObj [("url", Json.str (str u.render)), ("recorded", Json.str (str (stripPassword u)))])
  | _ => none

def main : IO Unit := run handle
