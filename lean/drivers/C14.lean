import RB.Util.Driver
import RB.Model.Rewrite
open Lean RB.Drv RB.Loader RB.Rewrite

def excName : Exc → String
  | .value => "value" | .index => "index" | .assertion => "assertion" | .decode => "decode"

def fendName : FEnd → String
  | .uiError => "uiError" | .crash e => s!"crash:{excName e}" | .typeError => "crash:type"

def lvariantOf (j : Json) : Option Variant :=
  match getStr? j "lvariant" with
  | some "pinned" => some Variant.pinned
  | some "repaired" => some Variant.repaired
  | _ => none

def rvariantOf (j : Json) : Option RVariant :=
  match getStr? j "rvariant" with
  | some "pinned" => some RVariant.pinned
  | some "repaired" => some RVariant.repaired
  | some "custom" => do
      let a ← getBool? j "copyHeader"
      let b ← getBool? j "profileReturnsPair"
      let c ← getBool? j "atomicReplace"
      let d ← getBool? j "closeBeforeMove"
      pure ⟨a, b, c, d⟩
  | _ => none

def payloadsOf (j : Json) : Option Payloads := do
  let bs ← getArr? j "bench_payloads"
  let rs ← getArr? j "run_payloads"
  let bench ← bs.toList.mapM (fun e => do
    let a ← asArr? e
    let p ← asStr? (← a[0]?)
    let k ← asNat? (← a[1]?)
    pure (p.toList, k))
  let run ← rs.toList.mapM (fun e => do
    let a ← asArr? e
    let p ← asStr? (← a[0]?)
    let k ← asNat? (← a[1]?)
    let b ← asNat? (← a[2]?)
    pure (p.toList, k, b))
  -- profile data file: the JSON columns that `json.loads` accepts (null: the loader does not check)
  let prof : Option (Text → Bool) :=
    match j.getObjVal? "profile_json" with
    | .ok (Json.arr a) =>
        let l := a.toList.filterMap (fun e => match e.getStr? with | .ok s => some s.toList | _ => none)
        some (fun js => l.contains js)
    | .ok (Json.str "any") => some (fun _ => true)
    | _ => none
  pure { Payloads.ofLists bench run with profile := prof }

def natArr (l : List Nat) : Json := Json.arr (l.map (fun (n : Nat) => Json.num n)).toArray

def opName : Op → String
  | .create .tmp => "create:tmp" | .create .data => "create:data"
  | .write _ => "write" | .close => "close"
  | .unlink .data => "unlink:data" | .unlink .tmp => "unlink:tmp"
  | .rename _ _ => "rename:tmp:data" | .copyMove _ _ => "copymove:tmp:data"
  | .truncate _ => "truncate:data"

def stateJson (old new : Text) : Option Text → Json
  | none => Json.str "absent"
  | some t => if t = old then Json.str "old" else if t = new then Json.str "new"
              else Json.mkObj [("other", Json.str (String.ofList t))]

def handle (op : String) (j : Json) : Option Json :=
  match op with
  | "c14.rewrite" => do
      let text ← getStr? j "text"
      let hdr ← getStr? j "hdr"
      let lv ← lvariantOf j
      let rv ← rvariantOf j
      let pl ← payloadsOf j
      let profile ← getBool? j "profile"
      let sameFs ← getBool? j "same_fs"
      let cap ← getNat? j "cap"
      let sel ← (← getArr? j "sel").toList.mapM asNat?
      let runs ← (← getArr? j "runs").toList.mapM asNat?     -- run keys in the configuration
      let invocations ← getNat? j "invocations"
      let old := text.toList
      let ls := flines lv profile pl hdr.toList old
      match filterFrom lv rv profile sel LState.init ls with
      | .error e => pure (Json.mkObj [("end", Json.str (fendName e))])
      | .ok (st, out) =>
        let new := out.flatten
        let ops := rewriteOps rv sameFs out
        let fs0 := FS.start old cap
        let states := crashStates fs0 ops
        pure (Json.mkObj [
          ("end", Json.str "ok"),
          ("new", Json.str (String.ofList new)),
          ("ops", Json.arr (ops.map (fun o => Json.str (opName o))).toArray),
          ("writes", Json.arr (out.map (fun t => Json.str (String.ofList t))).toArray),
          ("states", Json.arr (states.map (stateJson old new)).toArray),
          ("final", stateJson old new ((fs0.run ops).content .data)),
          ("todo", Json.arr (runs.map (fun (r : Nat) => Json.arr #[Json.num r,
              natArr (todo st.loaded ⟨r, 0, invocations, 1⟩)])).toArray)])
  | "c14.multi" => do
      -- several data files rewritten by one -r: operation sequence and the contents of all
      -- files after every prefix
      let olds ← (← getArr? j "olds").toList.mapM asStr?
      let cap ← getNat? j "cap"
      let rws ← (← getArr? j "rewrites").toList.mapM (fun e => do
        let a ← asArr? e
        let i ← asNat? (← a[0]?)
        let ls ← (← asArr? (← a[1]?)).toList.mapM asStr?
        pure (i, ls.map String.toList))
      let oldsT := olds.map String.toList
      let ops := multiOps rws
      let states := mcrashStates (MFS.start oldsT cap) ops
      let newOf (jx : Nat) : Option Text := (rws.find? (fun p => p.1 == jx)).map (fun p => p.2.flatten)
      let tag (jx : Nat) (c : Option Text) : Json :=
        match c with
        | none => Json.str "absent"
        | some t => if some t = oldsT[jx]? then Json.str "old" else if some t = newOf jx then Json.str "new"
                    else Json.mkObj [("other", Json.str (String.ofList t))]
      let opName : MOp → String
        | .create => "create:tmp" | .write _ => "write" | .close => "close"
        | .replace i => s!"rename:tmp:data{i}"
      pure (Json.mkObj [
        ("ops", Json.arr (ops.map (fun o => Json.str (opName o))).toArray),
        ("states", Json.arr (states.map (fun st => Json.arr (st.zipIdx.map (fun p => tag p.2 p.1)).toArray)).toArray)])
  | "c14.clean" => do
      let text ← getStr? j "text"
      let fs := (FS.start text.toList 8192).run (cleanOps [.data])
      pure (Json.mkObj [("content", match fs.content .data with
        | some t => Json.str (String.ofList t) | none => Json.null)])
  | _ => none

def main : IO Unit := run handle
