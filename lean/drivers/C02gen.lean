/- directed search for the translation tie of C02: run the definitions generated from
rebench/model/__init__.py and the hand-written settings model side by side on Python values -/
import RB.Util.Driver
import RB.Model.Settings
import RB.Gen.Settings
import RB.Model.SettingsAbs
open Lean RB.Drv RB.Settings RB.Py

def parseV (j : Json) : Option V :=
  if j.isNull then some V.none else
  match asInt? j with
  | some i => some (V.int i)
  | none => (asStr? j).map (fun s => V.str s.toList)

def handle (op : String) (j : Json) : Option Json :=
  match op with
  | "c02.gen_diff" => do
      let v ← parseV (← (j.getObjVal? "val").toOption)
      let d ← parseV (← (j.getObjVal? "default").toOption)
      -- generated side, read through the abstraction
      let gp := (RB.Gen.Settings.prefer_important v d).bind absRaw
      let gr := RB.Gen.Settings.remove_important v
      -- model side
      let mp := (absRaw v).bind fun rv => (absRaw d).map fun rd => preferImportant rv rd
      let mr := (absRaw v).map fun rv => ofOptNat (removeImportant rv)
      let inDomain := (absRaw v).isSome && (absRaw d).isSome
      let same := !inDomain || (gp == mp && gr == mr)
      pure (Json.mkObj [("same", Json.bool same), ("in_domain", Json.bool inDomain)])
  | _ => none

def main : IO Unit := run handle
