/- directed search for the translation tie of C01's run filters: run the definitions generated from
rebench/configurator.py (`_RunFilter.__init__`, `applies_to_bench`, `applies_to_tag`) and the hand-written
filter model (`RB.Runs.appliesToBench` / `appliesToTag`) side by side -/
import RB.Util.Driver
import RB.Model.RunFilterAbs
open Lean RB.Drv RB.Runs RB.Py RB.Gen.RunFilter

def pyStr (s : String) : V := V.str s.toList

/-- {"kind": "exec"|"suite"|"bench"|"tag", "a": str, "b": str?} -/
def parseSpec (j : Json) : Option FilterSpec := do
  let k ← getStr? j "kind"
  let a ← getStr? j "a"
  match k with
  | "exec" => some (.exec a.toList)
  | "suite" => some (.suite a.toList)
  | "bench" => do let b ← getStr? j "b"; some (.bench a.toList b.toList)
  | "tag" => some (.tag a.toList)
  | _ => none

def optBoolJson : Option Bool → Json
  | none => Json.null
  | some b => Json.bool b

def handle (op : String) (j : Json) : Option Json := do
  let fs ← getArr? j "filters"
  let specs ← fs.toList.mapM parseSpec
  let texts ← fs.toList.mapM (fun f => getStr? f "text")
  let rf := RunFilter_init (some (texts.map pyStr))
  let sel := selOfSpecs specs
  match op with
  | "c01.gen_bench" =>
      let e ← getStr? j "e"
      let s ← getStr? j "s"
      let n ← getStr? j "n"
      let b : Benchmark := { name := pyStr n, suite := { name := pyStr s, executor := { name := pyStr e } } }
      let g := rf.bind fun r => RunFilter_applies_to_bench r b
      let m := appliesToBench sel e s n
      pure (Json.mkObj [("gen", optBoolJson g), ("model", Json.bool m), ("same", Json.bool (g == some m))])
  | "c01.gen_tag" =>
      let tj ← (j.getObjVal? "tag").toOption
      let (tv, tm) ← (if tj.isNull then some (V.none, Val.none) else
        match asInt? tj with
        | some i => some (V.int i, Val.int i)
        | none => (asStr? tj).map fun s => (pyStr s, Val.str s))
      let g := rf.bind fun r => RunFilter_applies_to_tag r tv
      let m := appliesToTag sel tm
      pure (Json.mkObj [("gen", optBoolJson g), ("model", Json.bool m), ("same", Json.bool (g == some m))])
  | _ => none

def main : IO Unit := run handle
