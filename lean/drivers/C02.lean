import RB.Util.Driver
import RB.Model.Settings
open Lean RB.Drv RB.Settings

def parseRaw (j : Json) : Option Raw :=
  if j.isNull then some .absent else
  match getNat? j "p", getNat? j "m" with
  | some n, none => some (.plain n)
  | none, some n => some (.marked n)
  | _, _ => none

def rawField (j : Json) (k : String) : Option Raw :=
  match j.getObjVal? k with
  | .ok v => parseRaw v
  | .error _ => some .absent

/-- optional Nat code: missing key or null = not defined at this level -/
def optField (j : Json) (k : String) : Option (Option Nat) :=
  match j.getObjVal? k with
  | .ok v => if v.isNull then some none else (asNat? v).map some
  | .error _ => some none

def parseLevel (j : Json) : Option Level := do
  pure { invocations := ← rawField j "invocations", iterations := ← rawField j "iterations",
         warmup := ← rawField j "warmup",
         minIterationTime := ← optField j "min_iteration_time",
         maxInvocationTime := ← optField j "max_invocation_time",
         ignoreTimeouts := ← optField j "ignore_timeouts",
         retriesAfterFailure := ← optField j "retries_after_failure",
         executeExclusively := ← optField j "execute_exclusively",
         env := ← optField j "env",
         inputSizes := ← optField j "input_sizes", cores := ← optField j "cores",
         variableValues := ← optField j "variable_values", tags := ← optField j "tags" }

def mkDetails (dl : Level) : Details :=
  { invocations := dl.invocations
    iterations := dl.iterations
    warmup := dl.warmup
    minIterationTime := dl.minIterationTime
    maxInvocationTime := dl.maxInvocationTime
    ignoreTimeouts := dl.ignoreTimeouts
    retriesAfterFailure := dl.retriesAfterFailure
    executeExclusively := dl.executeExclusively
    env := dl.env }

def mkVars (dl : Level) : Vars :=
  { inputSizes := dl.inputSizes
    cores := dl.cores
    variableValues := dl.variableValues
    tags := dl.tags }

def optJson : Option Nat → Json
  | some n => Json.num n
  | none => Json.null

def rawJson : Raw → Json
  | .absent => Json.null
  | .plain n => Json.mkObj [("p", Json.num n)]
  | .marked n => Json.mkObj [("m", Json.num n)]

def handle (op : String) (j : Json) : Option Json :=
  match op with
  | "c02.compile" => do
      let ls ← getArr? j "levels"
      let ls ← ls.toList.mapM parseLevel
      match ls with
      | [m, r, e, x, ex, s, b] =>
        let dj ← getObj? j "defaults"
        let dl ← parseLevel dj
        let dD : Details := mkDetails dl
        let dV : Vars := mkVars dl
        let io ← optField j "invocations_override"
        let ito ← optField j "iterations_override"
        let c : Config := { machine := m, runs := r, experiment := e, execution := x,
                            executor := ex, suite := s, benchmark := b }
        let eff := compileRun c dD dV io ito
        pure (Json.mkObj [
          ("invocations", optJson eff.invocations), ("iterations", optJson eff.iterations),
          ("warmup", optJson eff.warmup),
          ("min_iteration_time", optJson eff.details.minIterationTime),
          ("max_invocation_time", optJson eff.details.maxInvocationTime),
          ("ignore_timeouts", optJson eff.details.ignoreTimeouts),
          ("retries_after_failure", optJson eff.details.retriesAfterFailure),
          ("execute_exclusively", optJson eff.details.executeExclusively),
          ("env", optJson eff.details.env),
          ("input_sizes", optJson eff.vars.inputSizes), ("cores", optJson eff.vars.cores),
          ("variable_values", optJson eff.vars.variableValues), ("tags", optJson eff.vars.tags)])
      | _ => none
  | "c02.chain" => do
      let ls ← getArr? j "levels"
      let ls ← ls.toList.mapM parseRaw
      let d ← parseRaw (← getObj? j "default")
      let o ← optField j "override"
      pure (Json.mkObj [("chain", rawJson (chain ls d)), ("effective", optJson (effective o ls d))])
  | _ => none

def main : IO Unit := run handle
