import RB.Util.Driver
import RB.Util.SettingsJson
open Lean RB.Drv RB.Settings

def handle (op : String) (j : Json) : Option Json :=
  match op with
  | "c02.compile" => do
      let ls ← getArr? j "levels"
      let ls ← ls.toList.mapM parseLevel
      match ls with
      | [m, r, e, x, ex, s, b] =>
        let dj ← getObj? j "defaults"
        let dl ← parseLevel dj
        let dD : Details := mkDetails dl
        let dV : Vars := mkVars dl
        let io ← optField j "invocations_override"
        let ito ← optField j "iterations_override"
        let c : Config := { machine := m, runs := r, experiment := e, execution := x,
                            executor := ex, suite := s, benchmark := b }
        let eff := compileRun c dD dV io ito
        pure (Json.mkObj [
          ("invocations", optJson eff.invocations), ("iterations", optJson eff.iterations),
          ("warmup", optJson eff.warmup),
          ("min_iteration_time", optJson eff.details.minIterationTime),
          ("max_invocation_time", optJson eff.details.maxInvocationTime),
          ("ignore_timeouts", optJson eff.details.ignoreTimeouts),
          ("retries_after_failure", optJson eff.details.retriesAfterFailure),
          ("execute_exclusively", optJson eff.details.executeExclusively),
          ("env", optJson eff.details.env),
          ("input_sizes", optJson eff.vars.inputSizes), ("cores", optJson eff.vars.cores),
          ("variable_values", optJson eff.vars.variableValues), ("tags", optJson eff.vars.tags)])
      | _ => none
  | "c02.chain" => do
      let ls ← getArr? j "levels"
      let ls ← ls.toList.mapM parseRaw
      let d ← parseRaw (← getObj? j "default")
      let o ← optField j "override"
      pure (Json.mkObj [("chain", rawJson (chain ls d)), ("effective", optJson (effective o ls d))])
  | _ => none

def main : IO Unit := run handle
