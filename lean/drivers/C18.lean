import RB.Util.Driver
import RB.Model.Report
open Lean RB.Drv RB.Report

def parseRun (j : Json) : Option Run := do
  let ident ← getArr? j "ident"
  let ident ← ident.toList.mapM asStr?
  let samples ← getArr? j "samples"
  let samples ← samples.toList.mapM asRat?
  let failed := (getBool? j "failed").getD false
  pure ⟨ident, samples, failed⟩

def parseRuns (j : Json) : Option (List Run) := do
  let a ← getArr? j "runs"
  a.toList.mapM parseRun

def cellJson : Cell → Json
  | .str s => Json.arr #[Json.str "s", Json.str s]
  | .num n => Json.arr #[Json.str "n", Json.num n]
  | .failed => Json.arr #[Json.str "f"]

def optRat : Option Rat → Json
  | none => Json.null
  | some q => ratToJson q

def entryJson (e : CSEntry) : Json :=
  Json.mkObj [("run", Json.num e.run), ("value", ratToJson e.value), ("min", optRat e.minV), ("max", optRat e.maxV),
    ("m2", match e.m2n with | none => Json.null | some p => ratToJson p.1),
    ("n", match e.m2n with | none => Json.null | some p => Json.num p.2)]

def reqJson (q : CSReq) : Json :=
  Json.mkObj [("entries", Json.arr (q.entries.map entryJson).toArray), ("attempts", Json.num q.attempts)]

def parseCSEvent (j : Json) : Option CSEvent := do
  let k ← getStr? j "k"
  let ok ← getBool? j "ok"
  match k with
  | "completed" => do
      let i ← getNat? j "i"
      let r ← getObj? j "run"
      let r ← parseRun r
      let now ← getNat? j "now"
      pure (.completed i r now ok)
  | "job" => pure (.job ok)
  | _ => none

def handle (op : String) (j : Json) : Option Json :=
  match op with
  | "c18.table" => do
      let rs ← parseRuns j
      let t := table rs
      pure (Json.mkObj [
        ("cols", Json.arr (t.cols.map Json.str).toArray),
        ("rows", Json.arr (t.rows.map (fun r => Json.arr (r.map cellJson).toArray)).toArray),
        ("summary", Json.arr (t.summary.map (fun p => Json.arr #[Json.str p.1, cellJson p.2])).toArray)])
  | "c18.round" => do
      let q ← getRat? j "q"
      pure (Json.mkObj [("r", Json.num (roundHalfEven q))])
  | "c18.cs_final" => do
      let rs ← parseRuns j
      let ok ← getBool? j "ok"
      let pinned := (getBool? j "pinned").getD false
      let attached : Option (List Bool) := (getArr? j "attached").bind (fun a => a.toList.mapM asBool?)
      match (if pinned then csFinalPinned rs ok else match attached with
              | some a => csFinalOf a rs ok
              | none => csFinal rs ok) with
      | .ok reqs => pure (Json.mkObj [("reqs", Json.arr (reqs.map reqJson).toArray)])
      | .error e => pure (Json.mkObj [("crash", Json.str e)])
  | "c18.cs_incr" => do
      let t0 ← getNat? j "t0"
      let evs ← getArr? j "events"
      let evs ← evs.toList.mapM parseCSEvent
      let s := csRun t0 evs
      pure (Json.mkObj [("reqs", Json.arr (s.reqs.map reqJson).toArray),
                        ("cache", Json.arr (s.cache.map (fun p => Json.num p.1)).toArray)])
  | _ => none

def main : IO Unit := run handle
