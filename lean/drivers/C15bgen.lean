/- directed search for the translation tie of the warm-up / recording rule: run the definitions generated
from executor.py / run_id.py / persistence.py and the model's rule side by side -/
import RB.Util.Driver
import RB.Model.WarmupAbs
import RB.Gen.Warmup
open Lean RB.Drv RB.Stats RB.Py RB.Gen.Warmup

def flagsOf : List Event → Option (List (Nat × Bool))
  | [] => some []
  | Event.add_data_point d f :: r =>
    (match d.total with | V.float c _ => some c | _ => none).bind fun c => (flagsOf r).map ((c, f) :: ·)
  | _ => none

def handle (op : String) (j : Json) : Option Json :=
  match op with
  | "c15.warmup_diff" => do
      let n ← getNat? j "n"
      let prof ← getBool? j "profiling"
      let wj ← (j.getObjVal? "w").toOption
      let w ← (if wj.isNull then some V.none else (asInt? wj).map V.int)
      let dps : List DataPoint := (List.range n).map fun i => { total := V.float i true }
      -- generated: which data point (by position) is forwarded with which flag
      let g := (Executor_eval_output dps w prof).bind flagsOf
      let gr := (List.range n).map fun i => reload_warmup_flag (V.int ((i + 1 : Nat) : Int)) w
      match absWarmup w with
      | none => pure (Json.mkObj [("same", Json.bool true), ("in_domain", Json.bool false)])
      | some r =>
        let live := if prof then List.replicate n false else liveFlags r n
        let m := (List.range n).zip live
        let reload := (List.range n).map fun i => some (decide (r ≠ 0 ∧ i + 1 ≤ r))
        let same := g == some m && gr == reload
        pure (Json.mkObj [("same", Json.bool same), ("in_domain", Json.bool true),
                          ("gen_live_ok", Json.bool (g == some m)), ("gen_reload_ok", Json.bool (gr == reload))])
  | _ => none

def main : IO Unit := run handle
