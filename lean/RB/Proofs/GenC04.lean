/-
Translation tie for C04: the Lean definitions generated from
`rebench/model/termination_check.py` by `tools/py2lean.py` (regenerated from
/repo's working tree on every check run) compute exactly the model's
retry / abandon decisions, so the C04 theorems about `RB.Term` hold of the
termination check as translated.
-/
import RB.Gen.TerminationCheck
import RB.Model.Termination
import Mathlib.Tactic.Linarith
import Mathlib.Tactic.FieldSimp
import Mathlib.Algebra.Order.Field.Rat

namespace RB.Term
open RB.Gen

/-- generated counters = model counters -/
def GRel (g : TerminationCheck.S) (s : St) : Prop :=
  g.consecutive_erroneous_executions = (s.consec : Rat) ∧
  g.failed_execution_count = (s.failed : Rat) ∧
  g.fail_immediately = s.failNow

theorem gen_init_rel : GRel TerminationCheck.init {} := by
  simp [GRel, TerminationCheck.init]

theorem gen_fail_immediately (g : TerminationCheck.S) (s : St) (h : GRel g s) :
    GRel (TerminationCheck.fail_immediately g) { s with failNow := true } := by
  obtain ⟨h1, h2, _⟩ := h
  exact ⟨h1, h2, rfl⟩

theorem gen_indicate_failed (g : TerminationCheck.S) (s : St) (h : GRel g s) :
    GRel (TerminationCheck.indicate_failed_execution g)
      { s with consec := s.consec + 1, failed := s.failed + 1 } := by
  obtain ⟨h1, h2, h3⟩ := h
  refine ⟨?_, ?_, h3⟩
  · simp [TerminationCheck.indicate_failed_execution, h1]
  · simp [TerminationCheck.indicate_failed_execution, h2]

theorem gen_indicate_successful (g : TerminationCheck.S) (s : St) (h : GRel g s) :
    GRel (TerminationCheck.indicate_successful_execution g) { s with consec := 0 } := by
  obtain ⟨_, h2, h3⟩ := h
  exact ⟨by simp [TerminationCheck.indicate_successful_execution], h2, h3⟩

theorem gen_fails_consecutively (c : Cfg) (g : TerminationCheck.S) (s : St) (h : GRel g s) :
    TerminationCheck.fails_consecutively g (c.retries : Rat) = failsConsec c s := by
  obtain ⟨h1, _, h3⟩ := h
  unfold TerminationCheck.fails_consecutively failsConsec
  rw [h1, h3]
  congr 2
  · simp
  · simp

theorem gen_has_too_many_failures (g : TerminationCheck.S) (s : St) (h : GRel g s) :
    TerminationCheck.has_too_many_failures g (s.samples : Rat) = (s.failNow || excessive s) := by
  obtain ⟨_, h2, h3⟩ := h
  unfold TerminationCheck.has_too_many_failures excessive
  rw [h2, h3]
  have e1 : decide ((6 : Rat) < (s.failed : Rat)) = decide (s.failed > 6) := by
    have : ((6 : Rat) < (s.failed : Rat)) ↔ s.failed > 6 := by
      constructor <;> intro h <;> exact_mod_cast h
    simp [this]
  have e2 : decide ((10 : Rat) < (s.samples : Rat)) = decide (s.samples > 10) := by
    have : ((10 : Rat) < (s.samples : Rat)) ↔ s.samples > 10 := by
      constructor <;> intro h <;> exact_mod_cast h
    simp [this]
  have e3 : decide ((s.samples : Rat) / 2 < (s.failed : Rat)) = decide (2 * s.failed > s.samples) := by
    have : ((s.samples : Rat) / 2 < (s.failed : Rat)) ↔ 2 * s.failed > s.samples := by
      rw [div_lt_iff₀ (by norm_num : (0 : Rat) < 2)]
      constructor
      · intro h
        have : (s.samples : Rat) < ((2 * s.failed : Nat) : Rat) := by push_cast; linarith
        exact_mod_cast this
      · intro h
        have : (s.samples : Rat) < ((2 * s.failed : Nat) : Rat) := by exact_mod_cast h
        push_cast at this; linarith
    simp [this]
  rw [e1, e2, e3, Bool.or_assoc]

/-- the decision `should_terminate` of the code as translated is the model's
`shouldTerminate`, for every configuration and state -/
theorem gen_should_terminate (c : Cfg) (g : TerminationCheck.S) (s : St) (h : GRel g s) :
    TerminationCheck.should_terminate g (c.retries : Rat) (s.maxInv : Rat) (c.N : Rat) (s.samples : Rat) ()
      = shouldTerminate c s := by
  have hf := gen_fails_consecutively c g s h
  have ht := gen_has_too_many_failures g s h
  have hc : decide ((c.N : Rat) ≤ (s.maxInv : Rat)) = decide (s.maxInv ≥ c.N) := by
    have : ((c.N : Rat) ≤ (s.maxInv : Rat)) ↔ s.maxInv ≥ c.N := by
      constructor <;> intro h <;> exact_mod_cast h
    simp [this]
  unfold TerminationCheck.should_terminate shouldTerminate abandoned
  rw [hf, ht, hc]
  cases hfn : s.failNow <;> cases hfc : failsConsec c s <;> cases hex : excessive s <;>
    cases hd : decide (s.maxInv ≥ c.N) <;> simp_all [failsConsec]

end RB.Term
