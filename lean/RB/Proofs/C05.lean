/-
C05 — the built-in gauge adapters recover exactly what a harness printed.
Property theorems only; helper lemmas are in `RB/Proofs/Lemmas/AdaptersC05.lean`
and `RB/Proofs/Lemmas/AdaptersRender.lean`.

What is proved at full strength
* `c05_collect_ignores_noise*` — lines in no format contribute nothing (all three loops, any classifier);
* `c05_collect_groups`, `c05_collect_roundtrip`, `c05_fresh_roundtrip` — the data points are exactly the
  groups "criteria then total", in order, numbered 1..k, stamped with the invocation, whatever noise is
  interleaved (any classifier);
* `c05_classify_render_{savina, jmh, time_formatted, time_rss}` — the documented lines of SavinaLog, JMH
  and Time -f are classified as printed (first path of the backtracking matcher), also when followed
  by a carriage return;
* `c05_savina_roundtrip`, `c05_jmh_roundtrip`, `c05_time_formatted_roundtrip` — the three together for whole outputs.
What stays a hypothesis (`…_partial`): `classify_render` for ReBenchLog, ValidationLog (the alternatives
of `(?:.*: )?` with a longer prefix must fail), PlainSecondsLog (`float()`) and `time -p`; there the
classification facts are hypotheses of the generic round-trip theorem (`GoodGroup`), listed in the
trusted base and exercised by the correspondence check (recognisers against Python's `re`,
render-then-parse).
-/
import RB.Proofs.Lemmas.AdaptersFloat

namespace RB.Adapters

/-! ## noise -/

/-- "Lines that are not in the format contribute nothing": for every classifier, marker and stop
test, dropping the lines the loop does not react to does not change the result -/
theorem c05_collect_ignores_noise (cfg : Cfg) (inv : Nat) (ls : List Line) :
    collect cfg inv ls = collect cfg inv (ls.filter (fun l => !cfg.noise l)) :=
  collectLoop_ignores_noise cfg inv ls 1 DP.empty []

theorem c05_collect_ignores_noise_fresh (cfg : FreshCfg) (inv : Nat) (ls : List Line) :
    collectFresh cfg inv ls = collectFresh cfg inv (ls.filter (fun l => !cfg.noise l)) :=
  freshLoop_ignores_noise cfg inv ls 1 []

theorem c05_collect_ignores_noise_time_p (marker : Line → Bool) (classify : Line → Option (List Char × Val))
    (inv : Nat) (ls : List Line) :
    collectTimeP marker classify inv ls =
      collectTimeP marker classify inv (ls.filter (fun l => marker l || (classify l).isSome)) :=
  timePLoop_ignores_noise marker classify inv ls _ ⟨rfl, rfl, open_empty inv 1, by intro t h; cases h⟩

/-! ## groups -/

/-- "returns exactly those iterations in order, each with all its criteria, numbered 1..k and stamped
with the current invocation number": for every classifier, a text that consists of groups
(lines with further criteria, then a line with the total; no marker) yields exactly one data point per
group — the i-th one carries iteration i, invocation `inv`, and the measurements of its lines in order -/
theorem c05_collect_groups (cfg : Cfg) (hc : PreNonTotal cfg.classify) (inv : Nat) (gs : List Group)
    (hne : gs ≠ []) (hg : ∀ g ∈ gs, GoodGroup cfg g) :
    collect cfg inv (gs.flatMap Group.lines) = .ok (groupsExpected cfg inv 1 gs) := by
  obtain ⟨dps, h, hms⟩ := collectLoop_groups cfg hc inv gs 1 [] hg
  unfold collect
  rw [h]
  cases dps with
  | nil =>
    cases gs with
    | nil => exact absurd rfl hne
    | cons g gs => simp [groupsExpected] at hms
  | cons d ds => simp only [List.nil_append, finish, List.isEmpty_cons, Bool.false_eq_true, if_false, hms]

/-- `parse_render_roundtrip`, generic form: iterations rendered as groups, interleaved with arbitrary
noise lines, are returned exactly (from `c05_collect_ignores_noise` and `c05_collect_groups`).
`GoodGroup` is the `classify_render` fact for the adapter at hand: every criterion line of a group is
classified as a non-total, the last line as a total, none carries a failure marker. -/
theorem c05_collect_roundtrip (cfg : Cfg) (hc : PreNonTotal cfg.classify) (inv : Nat) (ls : List Line)
    (gs : List Group) (hne : gs ≠ []) (hg : ∀ g ∈ gs, GoodGroup cfg g)
    (hls : ls.filter (fun l => !cfg.noise l) = gs.flatMap Group.lines) :
    collect cfg inv ls = .ok (groupsExpected cfg inv 1 gs) := by
  rw [c05_collect_ignores_noise, hls]
  exact c05_collect_groups cfg hc inv gs hne hg

/-- the hypotheses are satisfiable in a non-trivial way: Time -f output of two iterations with noise -/
example : let ls := ["max rss (kb): 100".toList, "noise".toList, "wall-time (secounds): 1.5".toList,
                     "".toList, "wall-time (secounds): 2.25".toList]
    let gs : List Group := [(["max rss (kb): 100".toList], "wall-time (secounds): 1.5".toList),
                            ([], "wall-time (secounds): 2.25".toList)]
    ls.filter (fun l => !(cfgTimeFormatted false).noise l) = gs.flatMap Group.lines ∧
    collect (cfgTimeFormatted false) 7 ls = .ok (groupsExpected (cfgTimeFormatted false) 7 1 gs) := by
  decide +kernel

/-- the same for the adapters that build a fresh data point per line (SavinaLog, JMH): the non-noise
lines, each classified as `(unit, value)`, come back as data points 1..k with that unit and value -/
theorem c05_fresh_roundtrip (cfg : FreshCfg) (inv : Nat) (ls : List Line)
    (items : List (Line × (List Char × Val))) (hne : items ≠ [])
    (hi : ∀ x ∈ items, cfg.stop x.1 = false ∧ cfg.marker x.1 = false ∧ cfg.classify x.1 = some x.2)
    (hls : ls.filter (fun l => !cfg.noise l) = items.map (·.1)) :
    collectFresh cfg inv ls = .ok (freshExpected inv 1 (items.map (·.2))) := by
  rw [c05_collect_ignores_noise_fresh, hls]
  obtain ⟨dps, h, hms⟩ := freshLoop_items cfg inv items 1 [] hi
  unfold collectFresh
  rw [h]
  cases dps with
  | nil =>
    cases items with
    | nil => exact absurd rfl hne
    | cons x xs => obtain ⟨l, u, v⟩ := x; simp [freshExpected] at hms
  | cons d ds => simp only [List.nil_append, finish, List.isEmpty_cons, Bool.false_eq_true, if_false, hms]

/-! ## `classify_render` -/

/-- `classify_render`, SavinaLog: every line `name ws Iteration-N: ws D.D ms` (name from `[\w.]+`,
blanks = spaces / tabs), followed by anything (a carriage return, more text), is classified as the
total with the printed value; the counter `N` is ignored -/
theorem c05_classify_render_savina (x : SavinaLine) (hx : x.Valid) (tail : List Char) :
    classifySavina (x.render ++ tail) = some (ms, .flt (decVal x.ip x.fp)) := by
  have hm : reSavina.pmatch (x.render ++ tail) = some [(2, x.ip ++ '.' :: x.fp), (1, x.name)] := by
    unfold Re.pmatch reSavina SavinaLine.render
    simp only [seqs, str, m_seq, m_grp, List.append_assoc]
    apply m_plus_first _ _ _ _ _ _ hx.name.1 hx.name.2 (blank_stop_wordDot _ hx.ws1)
    apply m_plus_first _ _ _ _ _ _ hx.ws1.1 (blank_space hx.ws1) (stopsAt_lit _ _ _ (by decide))
    rw [m_lit]
    apply m_plus_first _ _ _ _ _ _ hx.n.1 hx.n.2 (stopsAt_lit _ _ _ (by decide))
    rw [m_lit]
    apply m_plus_first _ _ _ _ _ _ hx.ws2.1 (blank_space hx.ws2) (digits_space_stop _ hx.ip)
    apply m_plus_first _ _ _ _ _ _ hx.ip.1 hx.ip.2 (stopsAt_lit _ _ _ (by decide))
    rw [m_lit]
    apply m_plus_first _ _ _ _ _ _ hx.fp.1 hx.fp.2 (stopsAt_lit _ _ _ (by decide))
    rw [m_lit]
    refine congrArg some ?_
    refine List.cons_eq_cons.mpr ⟨Prod.ext rfl ?_, List.cons_eq_cons.mpr ⟨Prod.ext rfl ?_, rfl⟩⟩
    · exact take_eq_of_append _ (x.ip ++ '.' :: x.fp) (" ms".toList ++ tail) _ (by simp) (by len_tac)
    · exact take_eq_of_append _ x.name _ _ rfl (by len_tac)
  unfold classifySavina
  rw [hm]
  simp only [capD, cap]
  simp [numeralVal_decimal x.ip x.fp hx.ip.2 hx.fp.2]



/-- `classify_render`, JMH (repaired pattern): measurement and warm-up iteration lines, integer or
decimal score, any unit without carriage return that does not start with white space; followed by
nothing or by a carriage return and anything (CR-LF): the unit is recovered exactly -/
theorem c05_classify_render_jmh (x : JMHLine) (hx : x.Valid) (tail : List Char) (ht : crTail tail) :
    classifyJMH (x.render ++ tail) = some (x.unit, .flt x.value) := by
  have hn_stop : stopsAt isSpace (x.n ++ (":".toList ++ (x.ws2 ++ (x.score ++ (x.ws3 ++ (x.unit ++ tail)))))) :=
    digits_space_stop _ hx.n
  have hscore_stop : stopsAt isSpace (x.score ++ (x.ws3 ++ (x.unit ++ tail))) := by
    unfold JMHLine.score
    cases x.fp with
    | none => exact digits_space_stop _ hx.ip
    | some f => simp only [List.append_assoc]; exact digits_space_stop _ hx.ip
  have hdot_none : ∀ (c : Caps) (k : List Char → Caps → Option Caps),
      ((Re.lit ".".toList).seq (Re.plus isDigit)).m (x.ws3 ++ (x.unit ++ tail)) c k = none := by
    intro c k
    obtain ⟨hne, hd⟩ := hx.ws3
    cases hw : x.ws3 with
    | nil => exact absurd hw hne
    | cons d ds => rcases hd d (by simp [hw]) with e | e <;> (subst e; simp [Re.m, stripPrefix])
  have hm : ∃ g1, reJMH.pmatch (x.render ++ tail) = some [(4, x.unit), (3, x.score), (2, x.n), (1, g1)] := by
    refine ⟨x.head, ?_⟩
    unfold Re.pmatch reJMH reJMHWith JMHLine.render
    simp only [seqs, str, m_seq, List.append_assoc]
    have after_head : ∀ (k0 : Caps),
        (Re.plus isSpace).m (x.ws1 ++ (x.n ++ (":".toList ++ (x.ws2 ++ (x.score ++ (x.ws3 ++ (x.unit ++ tail))))))) k0
          (fun s' c' => (Re.grp 2 (Re.plus isDigit)).m s' c' (fun s' c' => (Re.lit ":".toList).m s' c' (fun s' c' =>
            (Re.plus isSpace).m s' c' (fun s' c' =>
              (Re.grp 3 ((Re.plus isDigit).seq (Re.opt ((Re.lit ".".toList).seq (Re.plus isDigit))))).m s' c' (fun s' c' =>
                (Re.plus isSpace).m s' c' (fun s' c' => (Re.grp 4 (Re.plus notCR)).m s' c' (fun _ c => some c)))))))
          = some ((4, x.unit) :: (3, x.score) :: (2, x.n) :: k0) := by
      intro k0
      apply m_plus_first _ _ _ _ _ _ hx.ws1.1 (blank_space hx.ws1) hn_stop
      rw [m_grp]
      apply m_plus_first _ _ _ _ _ _ hx.n.1 hx.n.2 (stopsAt_lit _ _ _ (by decide))
      try dsimp only
      rw [m_lit]
      apply m_plus_first _ _ _ _ _ _ hx.ws2.1 (blank_space hx.ws2) hscore_stop
      rw [m_grp, m_seq]
      have tailpart : ∀ (c1 : Caps), (Re.plus isSpace).m (x.ws3 ++ (x.unit ++ tail)) c1 (fun s' c' =>
          (Re.grp 4 (Re.plus notCR)).m s' c' (fun _ c => some c)) = some ((4, x.unit) :: c1) := by
        intro c1
        apply m_plus_first _ _ _ _ _ _ hx.ws3.1 (blank_space hx.ws3) (unit_space_stop _ hx.unit.1 hx.unit.2.2)
        rw [m_grp]
        apply m_plus_first _ _ _ _ _ _ hx.unit.1 hx.unit.2.1 ht
        refine congrArg some (List.cons_eq_cons.mpr ⟨Prod.ext rfl ?_, rfl⟩)
        exact take_prefix _ _ _ (List.prefix_append _ _) (by len_tac)
      cases hfp : x.fp with
      | none =>
        simp only [JMHLine.score, hfp]
        apply m_plus_first _ _ _ _ _ _ hx.ip.1 hx.ip.2 (blank_stop_digit _ hx.ws3)
        rw [m_opt_skip _ _ _ _ (hdot_none _ _)]
        try dsimp only
        rw [tailpart]
        refine congrArg some (List.cons_eq_cons.mpr ⟨rfl, List.cons_eq_cons.mpr ⟨Prod.ext rfl ?_, List.cons_eq_cons.mpr ⟨Prod.ext rfl ?_, rfl⟩⟩⟩)
        · exact take_prefix _ _ _ (List.prefix_append _ _) (by len_tac)
        · exact take_prefix _ _ _ (List.prefix_append _ _) (by len_tac)
      | some f =>
        have hf := hx.fp f hfp
        simp only [JMHLine.score, hfp, List.append_assoc]
        apply m_plus_first _ _ _ _ _ _ hx.ip.1 hx.ip.2 (stopsAt_lit _ _ _ (by decide))
        apply m_opt_first
        rw [m_seq, m_lit]
        apply m_plus_first _ _ _ _ _ _ hf.1 hf.2 (blank_stop_digit _ hx.ws3)
        try dsimp only
        rw [tailpart]
        refine congrArg some (List.cons_eq_cons.mpr ⟨rfl, List.cons_eq_cons.mpr ⟨Prod.ext rfl ?_, List.cons_eq_cons.mpr ⟨Prod.ext rfl ?_, rfl⟩⟩⟩)
        · exact take_prefix _ _ _ ⟨x.ws3 ++ (x.unit ++ tail), by simp⟩ (by len_tac)
        · exact take_prefix _ _ _ (List.prefix_append _ _) (by len_tac)
    unfold JMHLine.head
    cases x.warmup with
    | false =>
      simp only [Bool.false_eq_true, if_false]
      rw [m_grp]
      apply m_alt_first
      rw [m_lit]
      try dsimp only
      rw [after_head]
      refine congrArg some (List.cons_eq_cons.mpr ⟨rfl, List.cons_eq_cons.mpr ⟨rfl, List.cons_eq_cons.mpr ⟨rfl,
        List.cons_eq_cons.mpr ⟨Prod.ext rfl ?_, rfl⟩⟩⟩⟩)
      exact take_prefix _ _ _ (List.prefix_append _ _) (by len_tac)
    | true =>
      simp only [if_true]
      rw [m_grp, m_alt_second _ _ _ _ _ (m_lit_mismatch _ _ _ _ _ (by decide))]
      rw [m_lit]
      try dsimp only
      rw [after_head]
      refine congrArg some (List.cons_eq_cons.mpr ⟨rfl, List.cons_eq_cons.mpr ⟨rfl, List.cons_eq_cons.mpr ⟨rfl,
        List.cons_eq_cons.mpr ⟨Prod.ext rfl ?_, rfl⟩⟩⟩⟩)
      exact take_prefix _ _ _ (List.prefix_append _ _) (by len_tac)
  obtain ⟨g1, hm⟩ := hm
  unfold classifyJMH classifyJMHWith
  rw [hm]
  simp only [capD, cap]
  unfold JMHLine.score JMHLine.value
  cases hfp : x.fp with
  | none => simp [numeralVal_int x.ip hx.ip.2]
  | some f => simp [numeralVal_decimal x.ip f hx.ip.2 (hx.fp f hfp).2]



/-- `classify_render`, Time with `-f`: `wall-time (secounds): D.D` is the total, seconds → ms (`·1000`) -/
theorem c05_classify_render_time_formatted (ip fp : List Char) (hi : Digits ip) (hf : Digits fp) (tail : List Char)
    (ht : stopsAt isDigit tail) :
    classifyTimeFormatted ("wall-time (secounds): ".toList ++ (ip ++ (".".toList ++ (fp ++ tail)))) =
      some { pre := [], main := { criterion := totalName, unit := ms, value := .flt (decVal ip fp * 1000) } } := by
  have h1 : reFormattedRss.pmatch ("wall-time (secounds): ".toList ++ (ip ++ (".".toList ++ (fp ++ tail)))) = none := by
    unfold Re.pmatch reFormattedRss
    simp only [seqs, str, m_seq]
    exact m_lit_mismatch _ _ _ _ _ (by decide)
  have h2 : reFormattedTime.pmatch ("wall-time (secounds): ".toList ++ (ip ++ (".".toList ++ (fp ++ tail)))) =
      some [(1, ip ++ '.' :: fp)] := by
    unfold Re.pmatch reFormattedTime
    simp only [seqs, str, m_seq]
    rw [m_lit, m_grp]
    simp only [m_seq]
    apply m_plus_first _ _ _ _ _ _ hi.1 hi.2 (stopsAt_lit _ _ _ (by decide))
    rw [m_lit]
    apply m_plus_first _ _ _ _ _ _ hf.1 hf.2 ht
    refine congrArg some (List.cons_eq_cons.mpr ⟨Prod.ext rfl ?_, rfl⟩)
    exact take_prefix _ _ _ ⟨tail, by simp⟩ (by len_tac)
  unfold classifyTimeFormatted
  rw [h1]; simp only [h2, capD, cap]
  simp [numeralVal_decimal ip fp hi.2 hf.2]

/-- `classify_render`, Time with `-f`: `max rss (kb): D` is the criterion `MaxRSS` in kb -/
theorem c05_classify_render_time_rss (n : List Char) (hn : Digits n) (tail : List Char) (ht : stopsAt isDigit tail) :
    classifyTimeFormatted ("max rss (kb): ".toList ++ (n ++ tail)) =
      some { pre := [], main := { criterion := "MaxRSS".toList, unit := "kb".toList, value := .flt (decVal n []) } } := by
  have h1 : reFormattedRss.pmatch ("max rss (kb): ".toList ++ (n ++ tail)) = some [(1, n)] := by
    unfold Re.pmatch reFormattedRss
    simp only [seqs, str, m_seq]
    rw [m_lit, m_grp]
    apply m_plus_first _ _ _ _ _ _ hn.1 hn.2 ht
    refine congrArg some (List.cons_eq_cons.mpr ⟨Prod.ext rfl ?_, rfl⟩)
    exact take_prefix _ _ _ (List.prefix_append _ _) (by len_tac)
  unfold classifyTimeFormatted
  simp only [h1, capD, cap]
  simp [numeralVal_int n hn.2]


/-- the documented shapes are inhabited: the lines of the Savina and JMH harnesses -/
example : (SavinaLine.mk "a.B".toList " ".toList "0".toList "\t ".toList "12".toList "50".toList).Valid :=
  ⟨⟨by decide, by decide⟩, ⟨by decide, by decide⟩, ⟨by decide, by decide⟩, ⟨by decide, by decide⟩,
   ⟨by decide, by decide⟩, ⟨by decide, by decide⟩⟩

example : (JMHLine.mk true "   ".toList "1".toList " ".toList "1234".toList (some "567".toList) " ".toList
    "ops/s".toList).Valid ∧ crTail "\r".toList ∧ crTail [] :=
  ⟨⟨⟨by decide, by decide⟩, ⟨by decide, by decide⟩, ⟨by decide, by decide⟩, ⟨by decide, by decide⟩,
    by intro f hf; cases hf; exact ⟨by decide, by decide⟩, ⟨by decide, by decide⟩,
    ⟨by decide, by decide, stopsAt_cons _ _ _ (by decide)⟩⟩,
   stopsAt_cons _ _ _ (by decide), stopsAt_nil _⟩

/-! ## whole outputs -/

/-- `parse_render_roundtrip` for SavinaLog: any sequence of documented lines (each possibly followed
by a carriage return or other text), interleaved with noise lines, none of them carrying a failure
marker: exactly the printed values, in order, numbered 1..k, unit ms -/
theorem c05_savina_roundtrip (inv : Nat) (ls : List Line) (xs : List (SavinaLine × List Char)) (hne : xs ≠ [])
    (hv : ∀ x ∈ xs, x.1.Valid ∧ (cfgSavina false).marker (x.1.render ++ x.2) = false)
    (hls : ls.filter (fun l => !(cfgSavina false).noise l) = xs.map (fun x => x.1.render ++ x.2)) :
    collectFresh (cfgSavina false) inv ls =
      .ok (freshExpected inv 1 (xs.map (fun x => (ms, .flt (decVal x.1.ip x.1.fp))))) := by
  have h := c05_fresh_roundtrip (cfgSavina false) inv ls
    (xs.map (fun x => (x.1.render ++ x.2, (ms, Val.flt (decVal x.1.ip x.1.fp))))) (by simpa using hne)
    (by
      intro y hy
      obtain ⟨x, hx, rfl⟩ := List.mem_map.mp hy
      exact ⟨rfl, (hv x hx).2, c05_classify_render_savina x.1 (hv x hx).1 x.2⟩)
    (by simpa [List.map_map, Function.comp_def] using hls)
  simpa [List.map_map, Function.comp_def] using h

/-- `parse_render_roundtrip` for JMH (repaired pattern), LF and CR-LF: the unit comes back without
the carriage return -/
theorem c05_jmh_roundtrip (inv : Nat) (ls : List Line) (xs : List (JMHLine × List Char)) (hne : xs ≠ [])
    (hv : ∀ x ∈ xs, x.1.Valid ∧ crTail x.2 ∧ (cfgJMH false).stop (x.1.render ++ x.2) = false ∧
      (cfgJMH false).marker (x.1.render ++ x.2) = false)
    (hls : ls.filter (fun l => !(cfgJMH false).noise l) = xs.map (fun x => x.1.render ++ x.2)) :
    collectFresh (cfgJMH false) inv ls =
      .ok (freshExpected inv 1 (xs.map (fun x => (x.1.unit, .flt x.1.value)))) := by
  have h := c05_fresh_roundtrip (cfgJMH false) inv ls
    (xs.map (fun x => (x.1.render ++ x.2, (x.1.unit, Val.flt x.1.value)))) (by simpa using hne)
    (by
      intro y hy
      obtain ⟨x, hx, rfl⟩ := List.mem_map.mp hy
      obtain ⟨h1, h2, h3, h4⟩ := hv x hx
      exact ⟨h3, h4, c05_classify_render_jmh x.1 h1 x.2 h2⟩)
    (by simpa [List.map_map, Function.comp_def] using hls)
  simpa [List.map_map, Function.comp_def] using h


/-- a group of Time `-f` output: `max rss (kb): D` lines, then `wall-time (secounds): D.D`, each
possibly followed by text that does not start with a digit (a carriage return), none with a marker -/
structure TFGroup (g : Group) : Prop where
  rss : ∀ l ∈ g.1, ∃ n tail, Digits n ∧ stopsAt isDigit tail ∧ l = "max rss (kb): ".toList ++ (n ++ tail) ∧
    (cfgTimeFormatted false).marker l = false
  time : ∃ ip fp tail, Digits ip ∧ Digits fp ∧ stopsAt isDigit tail ∧
    g.2 = "wall-time (secounds): ".toList ++ (ip ++ (".".toList ++ (fp ++ tail))) ∧
    (cfgTimeFormatted false).marker g.2 = false

/-- what the two kinds of line contribute: `MaxRSS` in kb as printed, the total in ms = seconds · 1000 -/
theorem c05_time_formatted_lineMeas (inv it : Nat) (n ip fp tail : List Char) (hn : Digits n) (hi : Digits ip)
    (hf : Digits fp) (ht : stopsAt isDigit tail) :
    lineMeas (cfgTimeFormatted false) inv it ("max rss (kb): ".toList ++ (n ++ tail)) =
      [{ invocation := inv, iteration := it, criterion := "MaxRSS".toList, unit := "kb".toList,
         value := .flt (decVal n []) }] ∧
    lineMeas (cfgTimeFormatted false) inv it ("wall-time (secounds): ".toList ++ (ip ++ (".".toList ++ (fp ++ tail)))) =
      [{ invocation := inv, iteration := it, criterion := totalName, unit := ms,
         value := .flt (decVal ip fp * 1000) }] := by
  constructor
  · simp only [lineMeas, cfgTimeFormatted, c05_classify_render_time_rss n hn tail ht]; rfl
  · simp only [lineMeas, cfgTimeFormatted, c05_classify_render_time_formatted ip fp hi hf tail ht]; rfl

/-- `parse_render_roundtrip` for Time with `-f`: iterations (any number of `max rss` lines, then the
wall time), interleaved with noise: exactly those data points, numbered 1..k -/
theorem c05_time_formatted_roundtrip (inv : Nat) (ls : List Line) (gs : List Group) (hne : gs ≠ [])
    (hg : ∀ g ∈ gs, TFGroup g)
    (hls : ls.filter (fun l => !(cfgTimeFormatted false).noise l) = gs.flatMap Group.lines) :
    collect (cfgTimeFormatted false) inv ls = .ok (groupsExpected (cfgTimeFormatted false) inv 1 gs) := by
  apply c05_collect_roundtrip _ preNonTotal_timeFormatted inv ls gs hne _ hls
  intro g hgm
  obtain ⟨hr, ip, fp, tail, hi, hf, ht, h2, hm2⟩ := hg g hgm
  refine ⟨?_, ?_, ?_⟩
  · intro l hl
    simp only [Group.lines, List.mem_append, List.mem_cons, List.not_mem_nil, or_false] at hl
    rcases hl with hl | hl
    · obtain ⟨n, t, _, _, _, hm⟩ := hr l hl
      exact ⟨rfl, hm⟩
    · subst hl; exact ⟨rfl, hm2⟩
  · intro l hl
    obtain ⟨n, t, hn, ht', he, _⟩ := hr l hl
    subst he
    exact ⟨_, c05_classify_render_time_rss n hn t ht', rfl⟩
  · rw [h2]
    exact ⟨_, c05_classify_render_time_formatted ip fp hi hf tail ht, rfl⟩


/-- non-vacuity: a CR-LF JMH output of two iterations -/
example : collectFresh (cfgJMH false) 1 (splitLines "# Warmup Iteration   1: 5.5 ops/s\r\nIteration   1: 6 ops/s\r\n".toList)
    = .ok [[{ invocation := 1, iteration := 1, criterion := totalName, unit := "ops/s".toList, value := .flt (11/2) }],
           [{ invocation := 1, iteration := 2, criterion := totalName, unit := "ops/s".toList, value := .flt 6 }]] := by
  decide +kernel

/-
Full statement for ReBenchLog / ValidationLog / PlainSecondsLog (not proved: it needs `classify_render`
for patterns starting with `(?:.*: )?`, respectively for `float()`):

  theorem c05_parse_render_roundtrip (inv) (its : List Iteration) (noise …) :
      parse .rebenchLog false inv (render its noise) = .out (.ok (expected inv its))
-/

/-- `parse_render_roundtrip_partial` for the four adapters with the open-data-point loop: with the
`classify_render` facts of the rendered lines as hypothesis (`GoodGroup`: criterion lines classified as
non-totals, total lines as totals, no marker), the parse result of the whole text is exactly the
rendered iterations.  Missing for the full statement: the proof that the rendered ReBenchLog /
ValidationLog / PlainSecondsLog lines satisfy `GoodGroup` (trusted; exercised by the correspondence). -/
theorem c05_parse_render_roundtrip_partial (a : Adapter) (cfg : Cfg) (inv : Nat) (text : List Char) (gs : List Group)
    (ha : (a = .rebenchLog ∧ cfg = cfgRebenchLog false) ∨ (a = .plainSeconds ∧ cfg = cfgPlainSeconds false) ∨
          (a = .timeFormatted ∧ cfg = cfgTimeFormatted false))
    (hne : gs ≠ []) (hg : ∀ g ∈ gs, GoodGroup cfg g)
    (hls : (splitLines text).filter (fun l => !cfg.noise l) = gs.flatMap Group.lines) :
    parse a false inv text = .out (.ok (groupsExpected cfg inv 1 gs)) := by
  rcases ha with ⟨rfl, rfl⟩ | ⟨rfl, rfl⟩ | ⟨rfl, rfl⟩
  · exact congrArg Result.out (c05_collect_roundtrip _ preNonTotal_rebenchLog inv _ gs hne hg hls)
  · exact congrArg Result.out (c05_collect_roundtrip _ preNonTotal_plainSeconds inv _ gs hne hg hls)
  · exact congrArg Result.out (c05_collect_roundtrip _ preNonTotal_timeFormatted inv _ gs hne hg hls)

/-- the hypothesis `GoodGroup` holds for concrete documented ReBenchLog lines (prefix, criterion,
exponent, microseconds, CR) -/
example : GoodGroup (cfgRebenchLog false)
    (["Savina.Chameneos: trace size:    3903398byte\r".toList, "pre: B alloc: iterations=1 runtime: 1.5e3us".toList],
     "[12:00] INFO: LanguageFeatures.Dispatch total: iterations=2342 runtime: .5ms\r".toList) := by
  exact goodGroup_of_dec _ _ (by decide +kernel) (by decide +kernel) (by decide +kernel)


/-! ## numerals, PlainSecondsLog, `time -p` -/

/-- "every numeral shape the documented grammar admits (integers, decimals, leading dot, exponents)":
the text a pattern captures for a numeral has the numeral's value — `D+`, `D+.D*`, `.D+`, each with an
optional `(e|E)[+-]?D+` -/
theorem c05_numeral_value (n : Numeral) (h : n.Valid) : numeralVal n.render = n.value :=
  numeralVal_render n h

example : (Numeral.mk "12".toList (some "50".toList) (some ('e', some '-', "3".toList))).Valid := by
  constructor
  · decide
  · intro f hf; cases hf; decide
  · exact Or.inl (by decide)
  · intro e sg ds h; cases h
    exact ⟨by decide, by intro s hs; cases hs; exact Or.inr rfl, by decide, by decide⟩

example : (Numeral.mk [] (some "5".toList) none).Valid := by
  constructor
  · decide
  · intro f hf; cases hf; decide
  · exact Or.inr ⟨_, rfl, by decide⟩
  · intro e sg ds h; cases h

example : (Numeral.mk "7".toList (some []) (some ('E', none, "2".toList))).Valid := by
  constructor
  · decide
  · intro f hf; cases hf; decide
  · exact Or.inl (by decide)
  · intro e sg ds h; cases h
    exact ⟨by decide, (by intro s hs; cases hs), by decide, by decide⟩

/-- `classify_render`, PlainSecondsLog: a line with a documented numeral (any shape), surrounded by any
white space `float()` strips (blanks, the carriage return of CR-LF), is the total, seconds → ms (`·1000`) -/
theorem c05_classify_render_plain (n : Numeral) (h : n.Valid) (ws1 ws2 : List Char)
    (h1 : ∀ c ∈ ws1, isFloatSpace c = true) (h2 : ∀ c ∈ ws2, isFloatSpace c = true) :
    classifyPlainSeconds (ws1 ++ (n.render ++ ws2)) =
      some { pre := [], main := { criterion := totalName, unit := ms, value := .flt (n.value * 1000) } } := by
  simp [classifyPlainSeconds, pyFloat_render n h ws1 ws2 h1 h2, Val.mul]

/-- `classify_render`, `time -p`: `word blanks D.D` and `word blanks Dm D.Ds` (the shell's `time`); the
word `real` is the total, any other word is its own criterion; value = (minutes · 60 + seconds) · 1000 -/
theorem c05_classify_render_time_p (x : TPLine) (hx : x.Valid) :
    classifyTimeP x.render = some (timeCrit x.w, .flt x.value) :=
  classifyTimeP_render x hx

example : (TPLine.mk "real".toList "\t".toList (some "0".toList) "1".toList "500".toList "\r".toList).Valid := by
  constructor
  · exact ⟨by decide, by decide⟩
  · exact ⟨by decide, by decide⟩
  · intro m hm; cases hm; exact ⟨by decide, by decide⟩
  · exact ⟨by decide, by decide⟩
  · exact ⟨by decide, by decide⟩
  · intro h; cases h

example : (TPLine.mk "user".toList " ".toList none "1".toList "50".toList []).Valid := by
  constructor
  · exact ⟨by decide, by decide⟩
  · exact ⟨by decide, by decide⟩
  · intro m hm; cases hm
  · exact ⟨by decide, by decide⟩
  · exact ⟨by decide, by decide⟩
  · intro _; exact stopsAt_nil _

/-- `parse_render_roundtrip` for PlainSecondsLog: numerals of any documented shape, one per line,
surrounded by white space, interleaved with noise, no failure marker: exactly those values · 1000, in
order, numbered 1..k -/
theorem c05_plain_roundtrip (inv : Nat) (ls : List Line)
    (xs : List (Numeral × List Char × List Char)) (hne : xs ≠ [])
    (hv : ∀ x ∈ xs, x.1.Valid ∧ (∀ c ∈ x.2.1, isFloatSpace c = true) ∧ (∀ c ∈ x.2.2, isFloatSpace c = true) ∧
      (cfgPlainSeconds false).marker (x.2.1 ++ (x.1.render ++ x.2.2)) = false)
    (hls : ls.filter (fun l => !(cfgPlainSeconds false).noise l) = xs.map (fun x => x.2.1 ++ (x.1.render ++ x.2.2))) :
    collect (cfgPlainSeconds false) inv ls =
      .ok (freshExpected inv 1 (xs.map (fun x => (ms, .flt (x.1.value * 1000))))) := by
  have hcl : ∀ x ∈ xs.map (fun x => (x.2.1 ++ (x.1.render ++ x.2.2), (ms, Val.flt (x.1.value * 1000)))),
      (cfgPlainSeconds false).classify x.1 =
        some { pre := [], main := { criterion := totalName, unit := x.2.1, value := x.2.2 } } := by
    intro y hy
    obtain ⟨x, hx, rfl⟩ := List.mem_map.mp hy
    obtain ⟨h0, h1, h2, _⟩ := hv x hx
    exact c05_classify_render_plain x.1 h0 x.2.1 x.2.2 h1 h2
  have hge := groupsExpected_totals (cfgPlainSeconds false) inv _ hcl 1
  have h := c05_collect_roundtrip (cfgPlainSeconds false) preNonTotal_plainSeconds inv ls
    (xs.map (fun x => (([] : List Line), x.2.1 ++ (x.1.render ++ x.2.2)))) (by simpa using hne)
    (by
      intro g hg
      obtain ⟨x, hx, rfl⟩ := List.mem_map.mp hg
      obtain ⟨h0, h1, h2, hm⟩ := hv x hx
      refine ⟨?_, (by intro l hl; cases hl), ⟨_, c05_classify_render_plain x.1 h0 x.2.1 x.2.2 h1 h2, rfl⟩⟩
      intro l hl
      simp only [Group.lines, List.nil_append, List.mem_cons, List.not_mem_nil, or_false] at hl
      subst hl
      exact ⟨rfl, hm⟩)
    (by
      rw [hls]
      clear hls hv hcl hge hne
      induction xs with
      | nil => rfl
      | cons x xs ih => simp [Group.lines, List.flatMap_cons, ih])
  rw [h]
  simp only [List.map_map, Function.comp_def] at hge
  simp only [List.map_map, Function.comp_def, hge]



/-- `parse_render_roundtrip` for `time -p`: the lines of one invocation in any order, interleaved with
noise, no failure marker: one data point that holds every time that is not `real`, in order, and then
the (last) `real` time as the total; without a `real` line the output is rejected -/
theorem c05_time_p_roundtrip (inv : Nat) (ls : List Line) (xs : List TPLine)
    (hv : ∀ x ∈ xs, x.Valid ∧ checkForError false [] x.render = false)
    (hls : ls.filter (fun l => checkForError false [] l || (classifyTimeP l).isSome) = xs.map TPLine.render) :
    collectTimeP (checkForError false []) classifyTimeP inv ls =
      match tpTotal inv (xs.map (fun x => (timeCrit x.w, Val.flt x.value))) none with
      | some t => .ok [tpOthers inv (xs.map (fun x => (timeCrit x.w, Val.flt x.value))) ++ [t]]
      | none => .notParseable := by
  rw [c05_collect_ignores_noise_time_p, hls]
  have h := timePLoop_items (checkForError false []) classifyTimeP inv
    (xs.map (fun x => (x.render, (timeCrit x.w, Val.flt x.value))))
    { it := 1, cur := DP.empty, totalMeasure := none, done := [] }
    ⟨rfl, rfl, open_empty inv 1, by intro t h; cases h⟩
    (by
      intro y hy
      obtain ⟨x, hx, rfl⟩ := List.mem_map.mp hy
      exact ⟨(hv x hx).2, c05_classify_render_time_p x (hv x hx).1⟩)
  simp only [List.map_map, Function.comp_def, DP.empty, List.nil_append] at h
  unfold collectTimeP
  exact h

/-- non-vacuity and the shape of the result: POSIX `time -p` output -/
example : collectTimeP (checkForError false []) classifyTimeP 2
    (splitLines "real 1.50\nuser 1.00\nsys 0.25\n".toList) =
    .ok [[{ invocation := 2, iteration := 1, criterion := "user".toList, unit := msUnit, value := .flt 1000 },
          { invocation := 2, iteration := 1, criterion := "sys".toList, unit := msUnit, value := .flt 250 },
          { invocation := 2, iteration := 1, criterion := totalName, unit := msUnit, value := .flt 1500 }]] := by
  decide +kernel


/-! ## unit conversion -/

/-- microseconds are divided by 1000, milliseconds are kept (ReBenchLog, on concrete documented lines;
for all lines this is part of the hypothesis `GoodGroup` above) -/
theorem c05_rebench_units :
    classifyRebenchLog "LanguageFeatures.Dispatch: iterations=1 runtime: 309557us".toList =
      some { pre := [], main := { criterion := totalName, unit := ms, value := .flt (309557 / 1000) } } ∧
    classifyRebenchLog "Dispatch: iterations=1 runtime: 557ms".toList =
      some { pre := [], main := { criterion := totalName, unit := ms, value := .flt 557 } } ∧
    classifyPlainSeconds " 2.5 ".toList =
      some { pre := [], main := { criterion := totalName, unit := ms, value := .flt 2500 } } := by
  decide +kernel

/-! ## the pinned tree -/

/-- pinned `jmh_adapter.py:35` (unit group `(.+)`): the carriage return of a CR-LF line stayed in the
unit.  Repaired by `fix: JMH adapter does not keep the carriage return …`; `reJMH` follows the repaired
pattern and `c05_classify_render_jmh` covers CR-LF. -/
theorem c05_jmh_pinned_full_fails :
    classifyJMHWith reJMHOld "Iteration   1: 5.5 ops/s\r".toList = some ("ops/s\r".toList, .flt (11/2)) ∧
    classifyJMH "Iteration   1: 5.5 ops/s\r".toList = some ("ops/s".toList, .flt (11/2)) := by
  decide +kernel

end RB.Adapters
