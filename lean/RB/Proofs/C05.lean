/-
C05 — the built-in gauge adapters recover exactly what a harness printed.
Property theorems only; helper lemmas are in `RB/Proofs/Lemmas/Adapters*.lean`.

Everything below is proved at full strength; nothing is `_partial`.
* `c05_collect_ignores_noise*` — lines in no format contribute nothing (all three loops, any classifier);
* `c05_collect_groups`, `c05_collect_roundtrip`, `c05_spec_roundtrip`, `c05_fresh_roundtrip` — the data
  points are exactly the groups "criteria then total", in order, numbered 1..k, stamped with the
  invocation, whatever noise is interleaved (any classifier);
* `c05_numeral_value` — the value of a captured numeral, for every documented shape;
* `classify_render` for every adapter, against the backtracking matcher:
  `c05_classify_render_{savina, jmh, time_formatted, time_rss, plain, time_p}` (first-path arguments),
  `c05_rebench_classify_render`, `c05_rebench_extra_classify_render`, `c05_validation_classify_render`,
  `c05_validation_actors_classify_render` (there the alternatives of `(?:.*: )?` that take a longer
  prefix are shown to fail; the line may carry any prefix text `w: `);
* whole outputs: `c05_parse_render_roundtrip_{rebench, validation, savina, jmh, time_formatted, plain, time_p}`.
The well-formedness predicates of the rendered lines (`RLine.Valid`, `XLine.Valid`, `VLine.Valid`, …)
are decidable for concrete lines; `example`s show that the documented lines satisfy them.
-/
import RB.Proofs.Lemmas.AdaptersSpec

namespace RB.Adapters

/-! ## noise -/

/-- "Lines that are not in the format contribute nothing": for every classifier, marker and stop
test, dropping the lines the loop does not react to does not change the result -/
theorem c05_collect_ignores_noise (cfg : Cfg) (inv : Nat) (ls : List Line) :
    collect cfg inv ls = collect cfg inv (ls.filter (fun l => !cfg.noise l)) :=
  collectLoop_ignores_noise cfg inv ls 1 DP.empty []

theorem c05_collect_ignores_noise_fresh (cfg : FreshCfg) (inv : Nat) (ls : List Line) :
    collectFresh cfg inv ls = collectFresh cfg inv (ls.filter (fun l => !cfg.noise l)) :=
  freshLoop_ignores_noise cfg inv ls 1 []

theorem c05_collect_ignores_noise_time_p (marker : Line → Bool) (classify : Line → Option (List Char × Val))
    (inv : Nat) (ls : List Line) :
    collectTimeP marker classify inv ls =
      collectTimeP marker classify inv (ls.filter (fun l => marker l || (classify l).isSome)) :=
  timePLoop_ignores_noise marker classify inv ls _ ⟨rfl, rfl, open_empty inv 1, by intro t h; cases h⟩

/-! ## groups -/

/-- "returns exactly those iterations in order, each with all its criteria, numbered 1..k and stamped
with the current invocation number": for every classifier, a text that consists of groups
(lines with further criteria, then a line with the total; no marker) yields exactly one data point per
group — the i-th one carries iteration i, invocation `inv`, and the measurements of its lines in order -/
theorem c05_collect_groups (cfg : Cfg) (hc : PreNonTotal cfg.classify) (inv : Nat) (gs : List Group)
    (hne : gs ≠ []) (hg : ∀ g ∈ gs, GoodGroup cfg g) :
    collect cfg inv (gs.flatMap Group.lines) = .ok (groupsExpected cfg inv 1 gs) := by
  obtain ⟨dps, h, hms⟩ := collectLoop_groups cfg hc inv gs 1 [] hg
  unfold collect
  rw [h]
  cases dps with
  | nil =>
    cases gs with
    | nil => exact absurd rfl hne
    | cons g gs => simp [groupsExpected] at hms
  | cons d ds => simp only [List.nil_append, finish, List.isEmpty_cons, Bool.false_eq_true, if_false, hms]

/-- `parse_render_roundtrip`, generic form: iterations rendered as groups, interleaved with arbitrary
noise lines, are returned exactly (from `c05_collect_ignores_noise` and `c05_collect_groups`).
`GoodGroup` is the `classify_render` fact for the adapter at hand: every criterion line of a group is
classified as a non-total, the last line as a total, none carries a failure marker. -/
theorem c05_collect_roundtrip (cfg : Cfg) (hc : PreNonTotal cfg.classify) (inv : Nat) (ls : List Line)
    (gs : List Group) (hne : gs ≠ []) (hg : ∀ g ∈ gs, GoodGroup cfg g)
    (hls : ls.filter (fun l => !cfg.noise l) = gs.flatMap Group.lines) :
    collect cfg inv ls = .ok (groupsExpected cfg inv 1 gs) := by
  rw [c05_collect_ignores_noise, hls]
  exact c05_collect_groups cfg hc inv gs hne hg

/-- the hypotheses are satisfiable in a non-trivial way: Time -f output of two iterations with noise -/
example : let ls := ["max rss (kb): 100".toList, "noise".toList, "wall-time (secounds): 1.5".toList,
                     "".toList, "wall-time (secounds): 2.25".toList]
    let gs : List Group := [(["max rss (kb): 100".toList], "wall-time (secounds): 1.5".toList),
                            ([], "wall-time (secounds): 2.25".toList)]
    ls.filter (fun l => !(cfgTimeFormatted false).noise l) = gs.flatMap Group.lines ∧
    collect (cfgTimeFormatted false) 7 ls = .ok (groupsExpected (cfgTimeFormatted false) 7 1 gs) := by
  decide +kernel

/-- the same for the adapters that build a fresh data point per line (SavinaLog, JMH): the non-noise
lines, each classified as `(unit, value)`, come back as data points 1..k with that unit and value -/
theorem c05_fresh_roundtrip (cfg : FreshCfg) (inv : Nat) (ls : List Line)
    (items : List (Line × (List Char × Val))) (hne : items ≠ [])
    (hi : ∀ x ∈ items, cfg.stop x.1 = false ∧ cfg.marker x.1 = false ∧ cfg.classify x.1 = some x.2)
    (hls : ls.filter (fun l => !cfg.noise l) = items.map (·.1)) :
    collectFresh cfg inv ls = .ok (freshExpected inv 1 (items.map (·.2))) := by
  rw [c05_collect_ignores_noise_fresh, hls]
  obtain ⟨dps, h, hms⟩ := freshLoop_items cfg inv items 1 [] hi
  unfold collectFresh
  rw [h]
  cases dps with
  | nil =>
    cases items with
    | nil => exact absurd rfl hne
    | cons x xs => obtain ⟨l, u, v⟩ := x; simp [freshExpected] at hms
  | cons d ds => simp only [List.nil_append, finish, List.isEmpty_cons, Bool.false_eq_true, if_false, hms]

/-! ## `classify_render` -/

/-- `classify_render`, SavinaLog: every line `name ws Iteration-N: ws D.D ms` (name from `[\w.]+`,
blanks = any run of Python white space), followed by anything (a carriage return, more text), is classified as the
total with the printed value; the counter `N` is ignored -/
theorem c05_classify_render_savina (x : SavinaLine) (hx : x.Valid) (tail : List Char) :
    classifySavina (x.render ++ tail) = some (ms, .flt (decVal x.ip x.fp)) := by
  have hm : reSavina.pmatch (x.render ++ tail) = some [(2, x.ip ++ '.' :: x.fp), (1, x.name)] := by
    unfold Re.pmatch reSavina SavinaLine.render
    simp only [seqs, str, m_seq, m_grp, List.append_assoc]
    apply m_plus_first _ _ _ _ _ _ hx.name.1 hx.name.2 (blank_stop_wordDot _ hx.ws1)
    apply m_plus_first _ _ _ _ _ _ hx.ws1.1 (blank_space hx.ws1) (stopsAt_lit _ _ _ (by decide))
    rw [m_lit]
    apply m_plus_first _ _ _ _ _ _ hx.n.1 hx.n.2 (stopsAt_lit _ _ _ (by decide))
    rw [m_lit]
    apply m_plus_first _ _ _ _ _ _ hx.ws2.1 (blank_space hx.ws2) (digits_space_stop _ hx.ip)
    apply m_plus_first _ _ _ _ _ _ hx.ip.1 hx.ip.2 (stopsAt_lit _ _ _ (by decide))
    rw [m_lit]
    apply m_plus_first _ _ _ _ _ _ hx.fp.1 hx.fp.2 (stopsAt_lit _ _ _ (by decide))
    rw [m_lit]
    refine congrArg some ?_
    refine List.cons_eq_cons.mpr ⟨Prod.ext rfl ?_, List.cons_eq_cons.mpr ⟨Prod.ext rfl ?_, rfl⟩⟩
    · exact take_eq_of_append _ (x.ip ++ '.' :: x.fp) (" ms".toList ++ tail) _ (by simp) (by len_tac)
    · exact take_eq_of_append _ x.name _ _ rfl (by len_tac)
  unfold classifySavina
  rw [hm]
  simp only [capD, cap]
  simp [numeralVal_decimal x.ip x.fp hx.ip.2 hx.fp.2]



/-- `classify_render`, JMH (repaired pattern): measurement and warm-up iteration lines, integer or
decimal score, any unit without carriage return that does not start with white space; followed by
nothing or by a carriage return and anything (CR-LF): the unit is recovered exactly -/
theorem c05_classify_render_jmh (x : JMHLine) (hx : x.Valid) (tail : List Char) (ht : crTail tail) :
    classifyJMH (x.render ++ tail) = some (x.unit, .flt x.value) := by
  have hn_stop : stopsAt isSpace (x.n ++ (":".toList ++ (x.ws2 ++ (x.score ++ (x.ws3 ++ (x.unit ++ tail)))))) :=
    digits_space_stop _ hx.n
  have hscore_stop : stopsAt isSpace (x.score ++ (x.ws3 ++ (x.unit ++ tail))) := by
    unfold JMHLine.score
    cases x.fp with
    | none => exact digits_space_stop _ hx.ip
    | some f => simp only [List.append_assoc]; exact digits_space_stop _ hx.ip
  have hdot_none : ∀ (c : Caps) (k : List Char → Caps → Option Caps),
      ((Re.lit ".".toList).seq (Re.plus isDigit)).m (x.ws3 ++ (x.unit ++ tail)) c k = none := by
    intro c k
    obtain ⟨hne, hd⟩ := hx.ws3
    cases hw : x.ws3 with
    | nil => exact absurd hw hne
    | cons d ds =>
      have hne : d ≠ '.' := (space_props d (hd d (by simp [hw]))).2.2.2.2.1
      simp [Re.m, stripPrefix, Ne.symm hne]
  have hm : ∃ g1, reJMH.pmatch (x.render ++ tail) = some [(4, x.unit), (3, x.score), (2, x.n), (1, g1)] := by
    refine ⟨x.head, ?_⟩
    unfold Re.pmatch reJMH reJMHWith JMHLine.render
    simp only [seqs, str, m_seq, List.append_assoc]
    have after_head : ∀ (k0 : Caps),
        (Re.plus isSpace).m (x.ws1 ++ (x.n ++ (":".toList ++ (x.ws2 ++ (x.score ++ (x.ws3 ++ (x.unit ++ tail))))))) k0
          (fun s' c' => (Re.grp 2 (Re.plus isDigit)).m s' c' (fun s' c' => (Re.lit ":".toList).m s' c' (fun s' c' =>
            (Re.plus isSpace).m s' c' (fun s' c' =>
              (Re.grp 3 ((Re.plus isDigit).seq (Re.opt ((Re.lit ".".toList).seq (Re.plus isDigit))))).m s' c' (fun s' c' =>
                (Re.plus isSpace).m s' c' (fun s' c' => (Re.grp 4 (Re.plus notCR)).m s' c' (fun _ c => some c)))))))
          = some ((4, x.unit) :: (3, x.score) :: (2, x.n) :: k0) := by
      intro k0
      apply m_plus_first _ _ _ _ _ _ hx.ws1.1 (blank_space hx.ws1) hn_stop
      rw [m_grp]
      apply m_plus_first _ _ _ _ _ _ hx.n.1 hx.n.2 (stopsAt_lit _ _ _ (by decide))
      try dsimp only
      rw [m_lit]
      apply m_plus_first _ _ _ _ _ _ hx.ws2.1 (blank_space hx.ws2) hscore_stop
      rw [m_grp, m_seq]
      have tailpart : ∀ (c1 : Caps), (Re.plus isSpace).m (x.ws3 ++ (x.unit ++ tail)) c1 (fun s' c' =>
          (Re.grp 4 (Re.plus notCR)).m s' c' (fun _ c => some c)) = some ((4, x.unit) :: c1) := by
        intro c1
        apply m_plus_first _ _ _ _ _ _ hx.ws3.1 (blank_space hx.ws3) (unit_space_stop _ hx.unit.1 hx.unit.2.2)
        rw [m_grp]
        apply m_plus_first _ _ _ _ _ _ hx.unit.1 hx.unit.2.1 ht
        refine congrArg some (List.cons_eq_cons.mpr ⟨Prod.ext rfl ?_, rfl⟩)
        exact take_prefix _ _ _ (List.prefix_append _ _) (by len_tac)
      cases hfp : x.fp with
      | none =>
        simp only [JMHLine.score, hfp]
        apply m_plus_first _ _ _ _ _ _ hx.ip.1 hx.ip.2 (blank_stop_digit _ hx.ws3)
        rw [m_opt_skip _ _ _ _ (hdot_none _ _)]
        try dsimp only
        rw [tailpart]
        refine congrArg some (List.cons_eq_cons.mpr ⟨rfl, List.cons_eq_cons.mpr ⟨Prod.ext rfl ?_, List.cons_eq_cons.mpr ⟨Prod.ext rfl ?_, rfl⟩⟩⟩)
        · exact take_prefix _ _ _ (List.prefix_append _ _) (by len_tac)
        · exact take_prefix _ _ _ (List.prefix_append _ _) (by len_tac)
      | some f =>
        have hf := hx.fp f hfp
        simp only [JMHLine.score, hfp, List.append_assoc]
        apply m_plus_first _ _ _ _ _ _ hx.ip.1 hx.ip.2 (stopsAt_lit _ _ _ (by decide))
        apply m_opt_first
        rw [m_seq, m_lit]
        apply m_plus_first _ _ _ _ _ _ hf.1 hf.2 (blank_stop_digit _ hx.ws3)
        try dsimp only
        rw [tailpart]
        refine congrArg some (List.cons_eq_cons.mpr ⟨rfl, List.cons_eq_cons.mpr ⟨Prod.ext rfl ?_, List.cons_eq_cons.mpr ⟨Prod.ext rfl ?_, rfl⟩⟩⟩)
        · exact take_prefix _ _ _ ⟨x.ws3 ++ (x.unit ++ tail), by simp⟩ (by len_tac)
        · exact take_prefix _ _ _ (List.prefix_append _ _) (by len_tac)
    unfold JMHLine.head
    cases x.warmup with
    | false =>
      simp only [Bool.false_eq_true, if_false]
      rw [m_grp]
      apply m_alt_first
      rw [m_lit]
      try dsimp only
      rw [after_head]
      refine congrArg some (List.cons_eq_cons.mpr ⟨rfl, List.cons_eq_cons.mpr ⟨rfl, List.cons_eq_cons.mpr ⟨rfl,
        List.cons_eq_cons.mpr ⟨Prod.ext rfl ?_, rfl⟩⟩⟩⟩)
      exact take_prefix _ _ _ (List.prefix_append _ _) (by len_tac)
    | true =>
      simp only [if_true]
      rw [m_grp, m_alt_second _ _ _ _ _ (m_lit_mismatch _ _ _ _ _ (by decide))]
      rw [m_lit]
      try dsimp only
      rw [after_head]
      refine congrArg some (List.cons_eq_cons.mpr ⟨rfl, List.cons_eq_cons.mpr ⟨rfl, List.cons_eq_cons.mpr ⟨rfl,
        List.cons_eq_cons.mpr ⟨Prod.ext rfl ?_, rfl⟩⟩⟩⟩)
      exact take_prefix _ _ _ (List.prefix_append _ _) (by len_tac)
  obtain ⟨g1, hm⟩ := hm
  unfold classifyJMH classifyJMHWith
  rw [hm]
  simp only [capD, cap]
  unfold JMHLine.score JMHLine.value
  cases hfp : x.fp with
  | none => simp [numeralVal_int x.ip hx.ip.2]
  | some f => simp [numeralVal_decimal x.ip f hx.ip.2 (hx.fp f hfp).2]



/-- `classify_render`, Time with `-f`: `wall-time (secounds): D.D` is the total, seconds → ms (`·1000`) -/
theorem c05_classify_render_time_formatted (ip fp : List Char) (hi : Digits ip) (hf : Digits fp) (tail : List Char)
    (ht : stopsAt isDigit tail) :
    classifyTimeFormatted ("wall-time (secounds): ".toList ++ (ip ++ (".".toList ++ (fp ++ tail)))) =
      some { pre := [], main := { criterion := totalName, unit := ms, value := .flt (decVal ip fp * 1000) } } := by
  have h1 : reFormattedRss.pmatch ("wall-time (secounds): ".toList ++ (ip ++ (".".toList ++ (fp ++ tail)))) = none := by
    unfold Re.pmatch reFormattedRss
    simp only [seqs, str, m_seq]
    exact m_lit_mismatch _ _ _ _ _ (by decide)
  have h2 : reFormattedTime.pmatch ("wall-time (secounds): ".toList ++ (ip ++ (".".toList ++ (fp ++ tail)))) =
      some [(1, ip ++ '.' :: fp)] := by
    unfold Re.pmatch reFormattedTime
    simp only [seqs, str, m_seq]
    rw [m_lit, m_grp]
    simp only [m_seq]
    apply m_plus_first _ _ _ _ _ _ hi.1 hi.2 (stopsAt_lit _ _ _ (by decide))
    rw [m_lit]
    apply m_plus_first _ _ _ _ _ _ hf.1 hf.2 ht
    refine congrArg some (List.cons_eq_cons.mpr ⟨Prod.ext rfl ?_, rfl⟩)
    exact take_prefix _ _ _ ⟨tail, by simp⟩ (by len_tac)
  unfold classifyTimeFormatted
  rw [h1]; simp only [h2, capD, cap]
  simp [numeralVal_decimal ip fp hi.2 hf.2]

/-- `classify_render`, Time with `-f`: `max rss (kb): D` is the criterion `MaxRSS` in kb -/
theorem c05_classify_render_time_rss (n : List Char) (hn : Digits n) (tail : List Char) (ht : stopsAt isDigit tail) :
    classifyTimeFormatted ("max rss (kb): ".toList ++ (n ++ tail)) =
      some { pre := [], main := { criterion := "MaxRSS".toList, unit := "kb".toList, value := .flt (decVal n []) } } := by
  have h1 : reFormattedRss.pmatch ("max rss (kb): ".toList ++ (n ++ tail)) = some [(1, n)] := by
    unfold Re.pmatch reFormattedRss
    simp only [seqs, str, m_seq]
    rw [m_lit, m_grp]
    apply m_plus_first _ _ _ _ _ _ hn.1 hn.2 ht
    refine congrArg some (List.cons_eq_cons.mpr ⟨Prod.ext rfl ?_, rfl⟩)
    exact take_prefix _ _ _ (List.prefix_append _ _) (by len_tac)
  unfold classifyTimeFormatted
  simp only [h1, capD, cap]
  simp [numeralVal_int n hn.2]


/-- the documented shapes are inhabited: the lines of the Savina and JMH harnesses -/
example : (SavinaLine.mk "a.B".toList " ".toList "0".toList "\t ".toList "12".toList "50".toList).Valid :=
  ⟨⟨by decide, by decide⟩, ⟨by decide, by decide⟩, ⟨by decide, by decide⟩, ⟨by decide, by decide⟩,
   ⟨by decide, by decide⟩, ⟨by decide, by decide⟩⟩

example : (JMHLine.mk true "   ".toList "1".toList " ".toList "1234".toList (some "567".toList) " ".toList
    "ops/s".toList).Valid ∧ crTail "\r".toList ∧ crTail [] :=
  ⟨⟨⟨by decide, by decide⟩, ⟨by decide, by decide⟩, ⟨by decide, by decide⟩, ⟨by decide, by decide⟩,
    by intro f hf; cases hf; exact ⟨by decide, by decide⟩, ⟨by decide, by decide⟩,
    ⟨by decide, by decide, stopsAt_cons _ _ _ (by decide)⟩⟩,
   stopsAt_cons _ _ _ (by decide), stopsAt_nil _⟩

/-! ## whole outputs -/

/-- `parse_render_roundtrip` for SavinaLog: any sequence of documented lines (each possibly followed
by a carriage return or other text), interleaved with noise lines, none of them carrying a failure
marker: exactly the printed values, in order, numbered 1..k, unit ms -/
theorem c05_savina_roundtrip (inv : Nat) (ls : List Line) (xs : List (SavinaLine × List Char)) (hne : xs ≠ [])
    (hv : ∀ x ∈ xs, x.1.Valid ∧ (cfgSavina false).marker (x.1.render ++ x.2) = false)
    (hls : ls.filter (fun l => !(cfgSavina false).noise l) = xs.map (fun x => x.1.render ++ x.2)) :
    collectFresh (cfgSavina false) inv ls =
      .ok (freshExpected inv 1 (xs.map (fun x => (ms, .flt (decVal x.1.ip x.1.fp))))) := by
  have h := c05_fresh_roundtrip (cfgSavina false) inv ls
    (xs.map (fun x => (x.1.render ++ x.2, (ms, Val.flt (decVal x.1.ip x.1.fp))))) (by simpa using hne)
    (by
      intro y hy
      obtain ⟨x, hx, rfl⟩ := List.mem_map.mp hy
      exact ⟨rfl, (hv x hx).2, c05_classify_render_savina x.1 (hv x hx).1 x.2⟩)
    (by simpa [List.map_map, Function.comp_def] using hls)
  simpa [List.map_map, Function.comp_def] using h

/-- `parse_render_roundtrip` for JMH (repaired pattern), LF and CR-LF: the unit comes back without
the carriage return -/
theorem c05_jmh_roundtrip (inv : Nat) (ls : List Line) (xs : List (JMHLine × List Char)) (hne : xs ≠ [])
    (hv : ∀ x ∈ xs, x.1.Valid ∧ crTail x.2 ∧ (cfgJMH false).stop (x.1.render ++ x.2) = false ∧
      (cfgJMH false).marker (x.1.render ++ x.2) = false)
    (hls : ls.filter (fun l => !(cfgJMH false).noise l) = xs.map (fun x => x.1.render ++ x.2)) :
    collectFresh (cfgJMH false) inv ls =
      .ok (freshExpected inv 1 (xs.map (fun x => (x.1.unit, .flt x.1.value)))) := by
  have h := c05_fresh_roundtrip (cfgJMH false) inv ls
    (xs.map (fun x => (x.1.render ++ x.2, (x.1.unit, Val.flt x.1.value)))) (by simpa using hne)
    (by
      intro y hy
      obtain ⟨x, hx, rfl⟩ := List.mem_map.mp hy
      obtain ⟨h1, h2, h3, h4⟩ := hv x hx
      exact ⟨h3, h4, c05_classify_render_jmh x.1 h1 x.2 h2⟩)
    (by simpa [List.map_map, Function.comp_def] using hls)
  simpa [List.map_map, Function.comp_def] using h


/-- a group of Time `-f` output: `max rss (kb): D` lines, then `wall-time (secounds): D.D`, each
possibly followed by text that does not start with a digit (a carriage return), none with a marker -/
structure TFGroup (g : Group) : Prop where
  rss : ∀ l ∈ g.1, ∃ n tail, Digits n ∧ stopsAt isDigit tail ∧ l = "max rss (kb): ".toList ++ (n ++ tail) ∧
    (cfgTimeFormatted false).marker l = false
  time : ∃ ip fp tail, Digits ip ∧ Digits fp ∧ stopsAt isDigit tail ∧
    g.2 = "wall-time (secounds): ".toList ++ (ip ++ (".".toList ++ (fp ++ tail))) ∧
    (cfgTimeFormatted false).marker g.2 = false

/-- what the two kinds of line contribute: `MaxRSS` in kb as printed, the total in ms = seconds · 1000 -/
theorem c05_time_formatted_lineMeas (inv it : Nat) (n ip fp tail : List Char) (hn : Digits n) (hi : Digits ip)
    (hf : Digits fp) (ht : stopsAt isDigit tail) :
    lineMeas (cfgTimeFormatted false) inv it ("max rss (kb): ".toList ++ (n ++ tail)) =
      [{ invocation := inv, iteration := it, criterion := "MaxRSS".toList, unit := "kb".toList,
         value := .flt (decVal n []) }] ∧
    lineMeas (cfgTimeFormatted false) inv it ("wall-time (secounds): ".toList ++ (ip ++ (".".toList ++ (fp ++ tail)))) =
      [{ invocation := inv, iteration := it, criterion := totalName, unit := ms,
         value := .flt (decVal ip fp * 1000) }] := by
  constructor
  · simp only [lineMeas, cfgTimeFormatted, c05_classify_render_time_rss n hn tail ht]; rfl
  · simp only [lineMeas, cfgTimeFormatted, c05_classify_render_time_formatted ip fp hi hf tail ht]; rfl

/-- `parse_render_roundtrip` for Time with `-f`: iterations (any number of `max rss` lines, then the
wall time), interleaved with noise: exactly those data points, numbered 1..k -/
theorem c05_time_formatted_roundtrip (inv : Nat) (ls : List Line) (gs : List Group) (hne : gs ≠ [])
    (hg : ∀ g ∈ gs, TFGroup g)
    (hls : ls.filter (fun l => !(cfgTimeFormatted false).noise l) = gs.flatMap Group.lines) :
    collect (cfgTimeFormatted false) inv ls = .ok (groupsExpected (cfgTimeFormatted false) inv 1 gs) := by
  apply c05_collect_roundtrip _ preNonTotal_timeFormatted inv ls gs hne _ hls
  intro g hgm
  obtain ⟨hr, ip, fp, tail, hi, hf, ht, h2, hm2⟩ := hg g hgm
  refine ⟨?_, ?_, ?_⟩
  · intro l hl
    simp only [Group.lines, List.mem_append, List.mem_cons, List.not_mem_nil, or_false] at hl
    rcases hl with hl | hl
    · obtain ⟨n, t, _, _, _, hm⟩ := hr l hl
      exact ⟨rfl, hm⟩
    · subst hl; exact ⟨rfl, hm2⟩
  · intro l hl
    obtain ⟨n, t, hn, ht', he, _⟩ := hr l hl
    subst he
    exact ⟨_, c05_classify_render_time_rss n hn t ht', rfl⟩
  · rw [h2]
    exact ⟨_, c05_classify_render_time_formatted ip fp hi hf tail ht, rfl⟩


/-- non-vacuity: a CR-LF JMH output of two iterations -/
example : collectFresh (cfgJMH false) 1 (splitLines "# Warmup Iteration   1: 5.5 ops/s\r\nIteration   1: 6 ops/s\r\n".toList)
    = .ok [[{ invocation := 1, iteration := 1, criterion := totalName, unit := "ops/s".toList, value := .flt (11/2) }],
           [{ invocation := 1, iteration := 2, criterion := totalName, unit := "ops/s".toList, value := .flt 6 }]] := by
  decide +kernel

/-- the hypothesis `GoodGroup` holds for concrete documented ReBenchLog lines (prefix, criterion,
exponent, microseconds, CR) -/
example : GoodGroup (cfgRebenchLog false)
    (["Savina.Chameneos: trace size:    3903398byte\r".toList, "pre: B alloc: iterations=1 runtime: 1.5e3us".toList],
     "[12:00] INFO: LanguageFeatures.Dispatch total: iterations=2342 runtime: .5ms\r".toList) := by
  exact goodGroup_of_dec _ _ (by decide +kernel) (by decide +kernel) (by decide +kernel)


/-! ## numerals, PlainSecondsLog, `time -p` -/

/-- "every numeral shape the documented grammar allows (integers, decimals, leading dot, exponents)":
the text a pattern captures for a numeral has the numeral's value — `D+`, `D+.D*`, `.D+`, each with an
optional `(e|E)[+-]?D+` -/
theorem c05_numeral_value (n : Numeral) (h : n.Valid) : numeralVal n.render = n.value :=
  numeralVal_render n h

example : (Numeral.mk "12".toList (some "50".toList) (some ('e', some '-', "3".toList))).Valid := by
  constructor
  · decide
  · intro f hf; cases hf; decide
  · exact Or.inl (by decide)
  · intro e sg ds h; cases h
    exact ⟨by decide, by intro s hs; cases hs; exact Or.inr rfl, by decide, by decide⟩

example : (Numeral.mk [] (some "5".toList) none).Valid := by
  constructor
  · decide
  · intro f hf; cases hf; decide
  · exact Or.inr ⟨_, rfl, by decide⟩
  · intro e sg ds h; cases h

example : (Numeral.mk "7".toList (some []) (some ('E', none, "2".toList))).Valid := by
  constructor
  · decide
  · intro f hf; cases hf; decide
  · exact Or.inl (by decide)
  · intro e sg ds h; cases h
    exact ⟨by decide, (by intro s hs; cases hs), by decide, by decide⟩

/-- `classify_render`, PlainSecondsLog: a line with a documented numeral (any shape), surrounded by any
white space `float()` strips (blanks, the carriage return of CR-LF), is the total, seconds → ms (`·1000`) -/
theorem c05_classify_render_plain (n : Numeral) (h : n.Valid) (ws1 ws2 : List Char)
    (h1 : ∀ c ∈ ws1, isFloatSpace c = true) (h2 : ∀ c ∈ ws2, isFloatSpace c = true) :
    classifyPlainSeconds (ws1 ++ (n.render ++ ws2)) =
      some { pre := [], main := { criterion := totalName, unit := ms, value := .flt (n.value * 1000) } } := by
  simp [classifyPlainSeconds, pyFloat_render n h ws1 ws2 h1 h2, Val.mul]

/-- `classify_render`, `time -p`: `word blanks D.D` and `word blanks Dm D.Ds` (the shell's `time`); the
word `real` is the total, any other word is its own criterion; value = (minutes · 60 + seconds) · 1000 -/
theorem c05_classify_render_time_p (x : TPLine) (hx : x.Valid) :
    classifyTimeP x.render = some (timeCrit x.w, .flt x.value) :=
  classifyTimeP_render x hx

example : (TPLine.mk "real".toList "\t".toList (some "0".toList) "1".toList "500".toList "\r".toList).Valid := by
  constructor
  · exact ⟨by decide, by decide⟩
  · exact ⟨by decide, by decide⟩
  · intro m hm; cases hm; exact ⟨by decide, by decide⟩
  · exact ⟨by decide, by decide⟩
  · exact ⟨by decide, by decide⟩
  · intro h; cases h

example : (TPLine.mk "user".toList " ".toList none "1".toList "50".toList []).Valid := by
  constructor
  · exact ⟨by decide, by decide⟩
  · exact ⟨by decide, by decide⟩
  · intro m hm; cases hm
  · exact ⟨by decide, by decide⟩
  · exact ⟨by decide, by decide⟩
  · intro _; exact stopsAt_nil _

/-- `parse_render_roundtrip` for PlainSecondsLog: numerals of any documented shape, one per line,
surrounded by white space, interleaved with noise, no failure marker: exactly those values · 1000, in
order, numbered 1..k -/
theorem c05_plain_roundtrip (inv : Nat) (ls : List Line)
    (xs : List (Numeral × List Char × List Char)) (hne : xs ≠ [])
    (hv : ∀ x ∈ xs, x.1.Valid ∧ (∀ c ∈ x.2.1, isFloatSpace c = true) ∧ (∀ c ∈ x.2.2, isFloatSpace c = true) ∧
      (cfgPlainSeconds false).marker (x.2.1 ++ (x.1.render ++ x.2.2)) = false)
    (hls : ls.filter (fun l => !(cfgPlainSeconds false).noise l) = xs.map (fun x => x.2.1 ++ (x.1.render ++ x.2.2))) :
    collect (cfgPlainSeconds false) inv ls =
      .ok (freshExpected inv 1 (xs.map (fun x => (ms, .flt (x.1.value * 1000))))) := by
  have hcl : ∀ x ∈ xs.map (fun x => (x.2.1 ++ (x.1.render ++ x.2.2), (ms, Val.flt (x.1.value * 1000)))),
      (cfgPlainSeconds false).classify x.1 =
        some { pre := [], main := { criterion := totalName, unit := x.2.1, value := x.2.2 } } := by
    intro y hy
    obtain ⟨x, hx, rfl⟩ := List.mem_map.mp hy
    obtain ⟨h0, h1, h2, _⟩ := hv x hx
    exact c05_classify_render_plain x.1 h0 x.2.1 x.2.2 h1 h2
  have hge := groupsExpected_totals (cfgPlainSeconds false) inv _ hcl 1
  have h := c05_collect_roundtrip (cfgPlainSeconds false) preNonTotal_plainSeconds inv ls
    (xs.map (fun x => (([] : List Line), x.2.1 ++ (x.1.render ++ x.2.2)))) (by simpa using hne)
    (by
      intro g hg
      obtain ⟨x, hx, rfl⟩ := List.mem_map.mp hg
      obtain ⟨h0, h1, h2, hm⟩ := hv x hx
      refine ⟨?_, (by intro l hl; cases hl), ⟨_, c05_classify_render_plain x.1 h0 x.2.1 x.2.2 h1 h2, rfl⟩⟩
      intro l hl
      simp only [Group.lines, List.nil_append, List.mem_cons, List.not_mem_nil, or_false] at hl
      subst hl
      exact ⟨rfl, hm⟩)
    (by
      rw [hls]
      clear hls hv hcl hge hne
      induction xs with
      | nil => rfl
      | cons x xs ih => simp [Group.lines, List.flatMap_cons, ih])
  rw [h]
  simp only [List.map_map, Function.comp_def] at hge
  simp only [List.map_map, Function.comp_def, hge]



/-- `parse_render_roundtrip` for `time -p`: the lines of one invocation in any order, interleaved with
noise, no failure marker: one data point that holds every time that is not `real`, in order, and then
the (last) `real` time as the total; without a `real` line the output is rejected -/
theorem c05_time_p_roundtrip (inv : Nat) (ls : List Line) (xs : List TPLine)
    (hv : ∀ x ∈ xs, x.Valid ∧ checkForError false [] x.render = false)
    (hls : ls.filter (fun l => checkForError false [] l || (classifyTimeP l).isSome) = xs.map TPLine.render) :
    collectTimeP (checkForError false []) classifyTimeP inv ls =
      match tpTotal inv (xs.map (fun x => (timeCrit x.w, Val.flt x.value))) none with
      | some t => .ok [tpOthers inv (xs.map (fun x => (timeCrit x.w, Val.flt x.value))) ++ [t]]
      | none => .notParseable := by
  rw [c05_collect_ignores_noise_time_p, hls]
  have h := timePLoop_items (checkForError false []) classifyTimeP inv
    (xs.map (fun x => (x.render, (timeCrit x.w, Val.flt x.value))))
    { it := 1, cur := DP.empty, totalMeasure := none, done := [] }
    ⟨rfl, rfl, open_empty inv 1, by intro t h; cases h⟩
    (by
      intro y hy
      obtain ⟨x, hx, rfl⟩ := List.mem_map.mp hy
      exact ⟨(hv x hx).2, c05_classify_render_time_p x (hv x hx).1⟩)
  simp only [List.map_map, Function.comp_def, DP.empty, List.nil_append] at h
  unfold collectTimeP
  exact h

/-- non-vacuity and the shape of the result: POSIX `time -p` output -/
example : collectTimeP (checkForError false []) classifyTimeP 2
    (splitLines "real 1.50\nuser 1.00\nsys 0.25\n".toList) =
    .ok [[{ invocation := 2, iteration := 1, criterion := "user".toList, unit := msUnit, value := .flt 1000 },
          { invocation := 2, iteration := 1, criterion := "sys".toList, unit := msUnit, value := .flt 250 },
          { invocation := 2, iteration := 1, criterion := totalName, unit := msUnit, value := .flt 1500 }]] := by
  decide +kernel



/-! ## ReBenchLog and ValidationLog -/

/-- `classify_render`, ReBenchLog, the line `[prefix: ]name[ crit]: iterations=N runtime: NUM(m|u)s`:
for every name without white space that does not end in a colon, every criterion word `[\w.]+`, every
counter, every numeral of the documented shapes, both units, LF or CR-LF, without prefix or after a
prefix `w: ` for **any** text `w` (every alternative of `(?:.*: )?` that takes a longer prefix fails) —
the criterion (the word, `total` when there is none), unit ms, microseconds divided by 1000 -/
theorem c05_rebench_classify_render (x : RLine) (hx : x.Valid) (pre : Option (List Char)) :
    classifyRebenchLog (x.render pre) =
      some { pre := [], main := { criterion := x.criterion, unit := ms, value := .flt x.value } } :=
  x.classify hx pre

/-- the documented examples satisfy the well-formedness predicates -/
example : (RLine.mk "LanguageFeatures.Dispatch".toList (some "total".toList) "2342".toList
    (Numeral.mk "557".toList none none) 'm' []).Valid := by
  refine ⟨⟨by decide, by decide, by decide⟩, ?_, ⟨by decide, by decide⟩, ?_, by decide, Or.inl rfl⟩
  · intro cw h; cases h; exact ⟨by decide, by decide⟩
  · exact ⟨by decide, (by intro f hf; cases hf), Or.inl (by decide), (by intro e sg ds h; cases h)⟩

example : (RLine.mk "Savina.Chameneos".toList none "1".toList
    (Numeral.mk "64208".toList (some "5".toList) (some ('e', some '-', "1".toList))) 'u' ['\r']).Valid := by
  refine ⟨⟨by decide, by decide, by decide⟩, ?_, ⟨by decide, by decide⟩, ?_, by decide, Or.inr rfl⟩
  · intro cw h; cases h
  · refine ⟨by decide, (by intro f hf; cases hf; decide), Or.inl (by decide), ?_⟩
    intro e sg ds h; cases h
    exact ⟨by decide, (by intro s hs; cases hs; exact Or.inr rfl), by decide, by decide⟩

/-- `classify_render`, ReBenchLog, the extra-criterion line `[prefix: ]name: criterion:[blanks]NUMunit`:
criterion of 1–30 characters without `:` and `=`, unit `[a-zA-Z]+`, any numeral shape, LF or CR-LF;
without prefix, or after a prefix `w: ` whose word has no colon (and then no `=` in the name) — the
criterion, the unit and the value as printed -/
theorem c05_rebench_extra_classify_render (x : XLine) (hx : x.Valid) (pre : Option (List Char))
    (hp : x.PreOK pre) :
    classifyRebenchLog (x.render pre) =
      some { pre := [], main := { criterion := x.crit, unit := x.unit, value := .flt x.num.value } } :=
  x.classify hx pre hp

example : (XLine.mk "Savina.Chameneos".toList "trace size".toList "    ".toList
    (Numeral.mk "3903398".toList none none) "byte".toList []).Valid := by
  refine ⟨⟨by decide, by decide, by decide⟩, by decide, by decide, by decide, by decide, ?_, by decide,
    by decide, Or.inl rfl⟩
  exact ⟨by decide, (by intro f hf; cases hf), Or.inl (by decide), (by intro e sg ds h; cases h)⟩

/-- `classify_render`, ReBenchLog extra-criterion line after **any** prefix text `w`: it is read as the
extra-criterion line exactly when the result-line pattern (which is tried first) does not match the
whole line; that is the case whenever `: iterations=` occurs nowhere in the line -/
theorem c05_rebench_extra_any_prefix (x : XLine) (hx : x.Valid) (w : List Char)
    (h : (Re.lit litIter).search (w ++ ':' :: ' ' :: x.body) = false) :
    classifyRebenchLog (w ++ ':' :: ' ' :: x.body) =
      some { pre := [], main := { criterion := x.crit, unit := x.unit, value := .flt x.num.value } } := by
  have h1 : reRebenchLog.pmatch (w ++ ':' :: ' ' :: x.body) = none := by
    rw [reRebenchLog_eq]; exact rePrefixBody_none notSpace reLogTail _ ((noLit_iff_search _ _).mpr h)
  have h2 : reRebenchExtra.pmatch (w ++ ':' :: ' ' :: x.body) = some (x.caps []) := by
    rw [reRebenchExtra_eq]
    unfold Re.pmatch
    rw [m_seq]
    exact rePrefix_word w x.body [] _ _ (x.noPrefix_body hx [] _) (x.body_first hx [])
  unfold classifyRebenchLog
  rw [h1]
  simp only [h2]
  have c2 : capD (x.caps []) 2 = x.crit := by
    simp only [capD, XLine.caps, cap]
    rw [cap_numCaps 4 x.num _ 2 (Or.inl (by omega))]
    simp [cap]
  have c3 : capD (x.caps []) 3 = x.num.render := by simp [capD, cap, XLine.caps]
  have c7 : capD (x.caps []) 7 = x.unit := by simp [capD, cap, XLine.caps]
  simp [c2, c3, c7, numeralVal_render x.num hx.num]

/-- the hypothesis is decidable for a concrete line; a prefix with colons that satisfies it -/
example : (Re.lit litIter).search "[12:00:01] INFO: x: y: Savina.Chameneos: trace size:    3903398byte".toList = false := by
  decide +kernel

/-- … and it cannot be dropped: when the prefix contains a complete result line, the result-line pattern
matches the whole line and the line means that result (here: total 5 ms), not the criterion `c` -/
example : classifyRebenchLog "B: iterations=1 runtime: 5ms: N: c: 7kb".toList =
    some { pre := [], main := { criterion := totalName, unit := ms, value := .flt 5 } } := by
  decide +kernel

/-- `classify_render`, ValidationLog, the line
`[prefix: ]name[ crit]: iterations=N runtime: D(m|u)s success: (true|false)`: name and criterion from
`[\w.]+`, any prefix text: `Success` (bool) and then the criterion / total in ms -/
theorem c05_validation_classify_render (x : VLine) (hx : x.Valid) (pre : Option (List Char)) :
    classifyValidation (x.render pre) =
      some { pre := [{ criterion := "Success".toList, unit := "bool".toList, value := .bool x.ok }],
             main := { criterion := x.criterion, unit := ms, value := .flt x.value } } :=
  x.classify hx pre

example : (VLine.mk "Harness.Bench".toList (some "total".toList) "1".toList "5125".toList 'u' true ['\r']).Valid := by
  refine ⟨⟨by decide, by decide⟩, ?_, ⟨by decide, by decide⟩, ⟨by decide, by decide⟩, by decide, Or.inr rfl⟩
  intro cw h; cases h; exact ⟨by decide, by decide⟩

/-- `classify_render`, ValidationLog, the summary line `[Total] A#D M#D P#D`: three counts and a total of 0 -/
theorem c05_validation_actors_classify_render (x : ALine) (hx : x.Valid) :
    classifyValidation x.render =
      some { pre := [{ criterion := "Actors".toList, unit := "count".toList, value := .int (digitsNat x.a) },
                     { criterion := "Messages".toList, unit := "count".toList, value := .int (digitsNat x.m) },
                     { criterion := "Promises".toList, unit := "count".toList, value := .int (digitsNat x.p) }],
             main := { criterion := totalName, unit := ms, value := .int 0 } } :=
  x.classify hx

/-- `parse_render_roundtrip`, generic and at full strength: iterations given as rendered lines with
their meaning (`Rendered` = the `classify_render` fact of each line), interleaved with noise -/
theorem c05_spec_roundtrip (cfg : Cfg) (hc : PreNonTotal cfg.classify) (inv : Nat) (ls : List Line)
    (gs : List SpecGroup) (hne : gs ≠ []) (hg : ∀ g ∈ gs, g.Good cfg)
    (hls : ls.filter (fun l => !cfg.noise l) = gs.flatMap (fun g => g.pairs.map (·.1))) :
    collect cfg inv ls = .ok (specExpected inv 1 gs) := by
  have h := c05_collect_roundtrip cfg hc inv ls (gs.map SpecGroup.toGroup) (by simpa using hne)
    (by intro g hgm; obtain ⟨s, hs, rfl⟩ := List.mem_map.mp hgm; exact specGroup_good cfg s (hg s hs))
    (by
      rw [hls]
      clear hls hne hg
      induction gs with
      | nil => rfl
      | cons g gs ih =>
        simp only [List.flatMap_cons, List.map_cons, ih]
        congr 1
        simp [SpecGroup.toGroup, Group.lines, SpecGroup.pairs])
  rw [h, specExpected_eq cfg inv gs hg 1]



/-- a line of ReBenchLog output -/
inductive RBLine where
  | log (x : RLine) (pre : Option (List Char))
  | extra (x : XLine) (pre : Option (List Char))

def RBLine.render : RBLine → Line
  | .log x pre => x.render pre
  | .extra x pre => x.render pre

/-- what the line means -/
def RBLine.lm : RBLine → LineMeas
  | .log x _ => { pre := [], main := { criterion := x.criterion, unit := ms, value := .flt x.value } }
  | .extra x _ => { pre := [], main := { criterion := x.crit, unit := x.unit, value := .flt x.num.value } }

/-- documented shape, no failure marker -/
def RBLine.Valid : RBLine → Prop
  | .log x pre => x.Valid ∧ (cfgRebenchLog false).marker (x.render pre) = false
  | .extra x pre => x.Valid ∧ x.PreOK pre ∧ (cfgRebenchLog false).marker (x.render pre) = false

theorem RBLine.rendered (l : RBLine) (h : l.Valid) : Rendered (cfgRebenchLog false) l.render l.lm := by
  cases l with
  | log x pre => exact ⟨rfl, h.2, c05_rebench_classify_render x h.1 pre⟩
  | extra x pre => exact ⟨rfl, h.2.2, c05_rebench_extra_classify_render x h.1 pre h.2.1⟩

def RBLine.spec (l : RBLine) : Line × LineMeas := (l.render, l.lm)

/-- `parse_render_roundtrip`, ReBenchLog: any sequence of iterations — lines with further criteria (of
either kind), then the line with the total (of either kind) — with any documented names, criteria,
numerals, units, prefixes and line endings, interleaved with noise, without failure markers, parses to
exactly those iterations: criteria in order, values converted, numbered 1..k, stamped with the invocation -/
theorem c05_parse_render_roundtrip_rebench (inv : Nat) (text : List Char) (gs : List (List RBLine × RBLine))
    (hne : gs ≠ []) (hv : ∀ g ∈ gs, (∀ l ∈ g.1, l.Valid ∧ l.lm.main.isTotal = false) ∧ g.2.Valid ∧ g.2.lm.main.isTotal = true)
    (hls : (splitLines text).filter (fun l => !(cfgRebenchLog false).noise l) =
      gs.flatMap (fun g => (g.1 ++ [g.2]).map RBLine.render)) :
    parse .rebenchLog false inv text =
      .out (.ok (specExpected inv 1 (gs.map (fun g => (g.1.map RBLine.spec, g.2.spec))))) := by
  apply congrArg Result.out
  apply c05_spec_roundtrip _ preNonTotal_rebenchLog inv _ _ (by simpa using hne)
  · intro s hs
    obtain ⟨g, hg, rfl⟩ := List.mem_map.mp hs
    obtain ⟨h1, h2, h3⟩ := hv g hg
    refine ⟨?_, ?_, h3⟩
    · intro p hp
      simp only [SpecGroup.pairs, List.mem_append, List.mem_map, List.mem_cons, List.not_mem_nil, or_false] at hp
      rcases hp with ⟨l, hl, rfl⟩ | rfl
      · exact l.rendered (h1 l hl).1
      · exact g.2.rendered h2
    · intro p hp
      obtain ⟨l, hl, rfl⟩ := List.mem_map.mp hp
      exact (h1 l hl).2
  · rw [hls]
    clear hls hv hne
    induction gs with
    | nil => rfl
    | cons g gs ih =>
      simp only [List.flatMap_cons, List.map_cons, ih]
      congr 1
      simp [SpecGroup.pairs, RBLine.spec, List.map_map, Function.comp_def]

/-- a line of ValidationLog output -/
inductive VBLine where
  | log (x : VLine) (pre : Option (List Char))
  | actors (x : ALine)

def VBLine.render : VBLine → Line
  | .log x pre => x.render pre
  | .actors x => x.render

def VBLine.lm : VBLine → LineMeas
  | .log x _ => { pre := [{ criterion := "Success".toList, unit := "bool".toList, value := .bool x.ok }],
                  main := { criterion := x.criterion, unit := ms, value := .flt x.value } }
  | .actors x =>
    { pre := [{ criterion := "Actors".toList, unit := "count".toList, value := .int (digitsNat x.a) },
              { criterion := "Messages".toList, unit := "count".toList, value := .int (digitsNat x.m) },
              { criterion := "Promises".toList, unit := "count".toList, value := .int (digitsNat x.p) }],
      main := { criterion := totalName, unit := ms, value := .int 0 } }

/-- documented shape, no failure marker, counters that `int()` accepts -/
def VBLine.Valid : VBLine → Prop
  | .log x pre => x.Valid ∧ (cfgValidation false).marker (x.render pre) = false
  | .actors x => x.Valid ∧ (cfgValidation false).marker x.render = false ∧
      x.a.length ≤ intMaxStrDigits ∧ x.m.length ≤ intMaxStrDigits ∧ x.p.length ≤ intMaxStrDigits

theorem VBLine.rendered (l : VBLine) (h : l.Valid) : Rendered (cfgValidation false) l.render l.lm := by
  cases l with
  | log x pre => exact ⟨rfl, h.2, c05_validation_classify_render x h.1 pre⟩
  | actors x => exact ⟨rfl, h.2.1, c05_validation_actors_classify_render x h.1⟩

def VBLine.spec (l : VBLine) : Line × LineMeas := (l.render, l.lm)

theorem VBLine.notOverlong (l : VBLine) (h : l.Valid) : actorsOverlong l.render = false := by
  cases l with
  | log x pre =>
    simp [actorsOverlong, actorsOverlongWith, VBLine.render, x.pmatch h.1 pre]
  | actors x =>
    obtain ⟨hx, _, ha, hm, hp⟩ := h
    simp only [actorsOverlong, actorsOverlongWith, VBLine.render, x.noValidation hx, x.pmatch hx, capD, cap]
    simp [Nat.not_lt.mpr ha, Nat.not_lt.mpr hm, Nat.not_lt.mpr hp]

theorem beforeMarker_subset (marker : Line → Bool) (ls : List Line) : ∀ l ∈ beforeMarker marker ls, l ∈ ls := by
  induction ls with
  | nil => intro l hl; simp [beforeMarker] at hl
  | cons a r ih =>
    intro l hl
    simp only [beforeMarker] at hl
    split at hl
    · simp at hl
    · rcases List.mem_cons.mp hl with rfl | h
      · simp
      · exact List.mem_cons_of_mem _ (ih l h)

/-- `parse_render_roundtrip`, ValidationLog: iterations whose total is a result line or the actors
summary line, with further criteria lines before it; every line contributes `Success` and its
criterion; the counters of a summary line have at most 4300 digits (see C12's known finding) -/
theorem c05_parse_render_roundtrip_validation (inv : Nat) (text : List Char) (gs : List (List VBLine × VBLine))
    (hne : gs ≠ []) (hv : ∀ g ∈ gs, (∀ l ∈ g.1, l.Valid ∧ l.lm.main.isTotal = false) ∧ g.2.Valid ∧ g.2.lm.main.isTotal = true)
    (hls : (splitLines text).filter (fun l => !(cfgValidation false).noise l) =
      gs.flatMap (fun g => (g.1 ++ [g.2]).map VBLine.render)) :
    parse .validation false inv text =
      .out (.ok (specExpected inv 1 (gs.map (fun g => (g.1.map VBLine.spec, g.2.spec))))) := by
  -- no line is an over-long summary line
  have hno : (beforeMarker (cfgValidation false).marker (splitLines text)).any actorsOverlong = false := by
    rw [List.any_eq_false]
    intro l hl
    have hl' := beforeMarker_subset _ _ l hl
    by_cases hn : (cfgValidation false).noise l = true
    · have hc : classifyValidation l = none := by
        simp only [Cfg.noise, cfgValidation, Bool.and_eq_true] at hn
        simpa using hn.2
      unfold classifyValidation at hc
      simp only [actorsOverlong, actorsOverlongWith]
      cases h1 : reValidation.pmatch l with
      | some c => simp [h1] at hc
      | none =>
        cases h2 : reActors.pmatch l with
        | some c => simp [h1, h2] at hc
        | none => simp
    · have : l ∈ (splitLines text).filter (fun l => !(cfgValidation false).noise l) := by
        simp [List.mem_filter, hl', hn]
      rw [hls] at this
      obtain ⟨g, hg, hlg⟩ := List.mem_flatMap.mp this
      obtain ⟨v, hv', rfl⟩ := List.mem_map.mp hlg
      obtain ⟨h1, h2, _⟩ := hv g hg
      have hval : v.Valid := by
        rcases List.mem_append.mp hv' with h | h
        · exact (h1 v h).1
        · simp at h; subst h; exact h2
      simp [v.notOverlong hval]
  simp only [parse, hno, Bool.false_eq_true, if_false]
  apply congrArg Result.out
  apply c05_spec_roundtrip _ preNonTotal_validation inv _ _ (by simpa using hne)
  · intro s hs
    obtain ⟨g, hg, rfl⟩ := List.mem_map.mp hs
    obtain ⟨h1, h2, h3⟩ := hv g hg
    refine ⟨?_, ?_, h3⟩
    · intro p hp
      simp only [SpecGroup.pairs, List.mem_append, List.mem_map, List.mem_cons, List.not_mem_nil, or_false] at hp
      rcases hp with ⟨l, hl, rfl⟩ | rfl
      · exact l.rendered (h1 l hl).1
      · exact g.2.rendered h2
    · intro p hp
      obtain ⟨l, hl, rfl⟩ := List.mem_map.mp hp
      exact (h1 l hl).2
  · rw [hls]
    clear hls hv hne hno
    induction gs with
    | nil => rfl
    | cons g gs ih =>
      simp only [List.flatMap_cons, List.map_cons, ih]
      congr 1
      simp [SpecGroup.pairs, VBLine.spec, List.map_map, Function.comp_def]



/-- non-vacuity of `c05_parse_render_roundtrip_rebench`: the documented example with an extra criterion,
a noise line and CR-LF -/
example :
    let x : XLine := XLine.mk "Savina.Chameneos".toList "trace size".toList "    ".toList
      (Numeral.mk "3903398".toList none none) "byte".toList ['\r']
    let r : RLine := RLine.mk "Savina.Chameneos".toList none "1".toList (Numeral.mk "64208".toList none none) 'u' ['\r']
    let text := "Savina.Chameneos: trace size:    3903398byte\r\nwarming up\r\npre: Savina.Chameneos: iterations=1 runtime: 64208us\r\n".toList
    let gs : List (List RBLine × RBLine) := [([RBLine.extra x none], RBLine.log r (some "pre".toList))]
    (∀ g ∈ gs, (∀ l ∈ g.1, l.Valid ∧ l.lm.main.isTotal = false) ∧ g.2.Valid ∧ g.2.lm.main.isTotal = true) ∧
    (splitLines text).filter (fun l => !(cfgRebenchLog false).noise l) =
      gs.flatMap (fun g => (g.1 ++ [g.2]).map RBLine.render) := by
  intro x r text gs
  have hx : x.Valid := by
    refine ⟨⟨by decide, by decide, by decide⟩, by decide, by decide, by decide, by decide, ?_, by decide,
      by decide, Or.inr rfl⟩
    exact ⟨by decide, (by intro f hf; cases hf), Or.inl (by decide), (by intro e sg ds h; cases h)⟩
  have hr : r.Valid := by
    refine ⟨⟨by decide, by decide, by decide⟩, (by intro cw h; cases h), ⟨by decide, by decide⟩, ?_, by decide, Or.inr rfl⟩
    exact ⟨by decide, (by intro f hf; cases hf), Or.inl (by decide), (by intro e sg ds h; cases h)⟩
  constructor
  · intro g hg
    simp only [gs, List.mem_cons, List.not_mem_nil, or_false] at hg
    subst hg
    refine ⟨?_, ⟨hr, by decide +kernel⟩, by decide +kernel⟩
    intro l hl
    simp only [List.mem_cons, List.not_mem_nil, or_false] at hl
    subst hl
    exact ⟨⟨hx, (by intro w hw; cases hw), by decide +kernel⟩, by decide +kernel⟩
  · decide +kernel

/-! ## the same at the level of `parse_data` for the other adapters -/

theorem c05_parse_render_roundtrip_savina (inv : Nat) (text : List Char) (xs : List (SavinaLine × List Char))
    (hne : xs ≠ []) (hv : ∀ x ∈ xs, x.1.Valid ∧ (cfgSavina false).marker (x.1.render ++ x.2) = false)
    (hls : (splitLines text).filter (fun l => !(cfgSavina false).noise l) = xs.map (fun x => x.1.render ++ x.2)) :
    parse .savina false inv text =
      .out (.ok (freshExpected inv 1 (xs.map (fun x => (ms, .flt (decVal x.1.ip x.1.fp)))))) :=
  congrArg Result.out (c05_savina_roundtrip inv _ xs hne hv hls)

theorem c05_parse_render_roundtrip_jmh (inv : Nat) (text : List Char) (xs : List (JMHLine × List Char))
    (hne : xs ≠ [])
    (hv : ∀ x ∈ xs, x.1.Valid ∧ crTail x.2 ∧ (cfgJMH false).stop (x.1.render ++ x.2) = false ∧
      (cfgJMH false).marker (x.1.render ++ x.2) = false)
    (hls : (splitLines text).filter (fun l => !(cfgJMH false).noise l) = xs.map (fun x => x.1.render ++ x.2)) :
    parse .jmh false inv text = .out (.ok (freshExpected inv 1 (xs.map (fun x => (x.1.unit, .flt x.1.value))))) :=
  congrArg Result.out (c05_jmh_roundtrip inv _ xs hne hv hls)

theorem c05_parse_render_roundtrip_time_formatted (inv : Nat) (text : List Char) (gs : List Group) (hne : gs ≠ [])
    (hg : ∀ g ∈ gs, TFGroup g)
    (hls : (splitLines text).filter (fun l => !(cfgTimeFormatted false).noise l) = gs.flatMap Group.lines) :
    parse .timeFormatted false inv text = .out (.ok (groupsExpected (cfgTimeFormatted false) inv 1 gs)) :=
  congrArg Result.out (c05_time_formatted_roundtrip inv _ gs hne hg hls)

theorem c05_parse_render_roundtrip_plain (inv : Nat) (text : List Char)
    (xs : List (Numeral × List Char × List Char)) (hne : xs ≠ [])
    (hv : ∀ x ∈ xs, x.1.Valid ∧ (∀ c ∈ x.2.1, isFloatSpace c = true) ∧ (∀ c ∈ x.2.2, isFloatSpace c = true) ∧
      (cfgPlainSeconds false).marker (x.2.1 ++ (x.1.render ++ x.2.2)) = false)
    (hls : (splitLines text).filter (fun l => !(cfgPlainSeconds false).noise l) =
      xs.map (fun x => x.2.1 ++ (x.1.render ++ x.2.2))) :
    parse .plainSeconds false inv text =
      .out (.ok (freshExpected inv 1 (xs.map (fun x => (ms, .flt (x.1.value * 1000)))))) :=
  congrArg Result.out (c05_plain_roundtrip inv _ xs hne hv hls)

theorem c05_parse_render_roundtrip_time_p (inv : Nat) (text : List Char) (xs : List TPLine)
    (hv : ∀ x ∈ xs, x.Valid ∧ checkForError false [] x.render = false)
    (hls : (splitLines text).filter (fun l => checkForError false [] l || (classifyTimeP l).isSome) =
      xs.map TPLine.render) :
    parse .timeP false inv text = .out
      (match tpTotal inv (xs.map (fun x => (timeCrit x.w, Val.flt x.value))) none with
       | some t => .ok [tpOthers inv (xs.map (fun x => (timeCrit x.w, Val.flt x.value))) ++ [t]]
       | none => .notParseable) :=
  congrArg Result.out (c05_time_p_roundtrip inv _ xs hv hls)


/-! ## unit conversion -/

/-- microseconds are divided by 1000, milliseconds are kept (ReBenchLog, on concrete documented lines;
for all lines this is part of the hypothesis `GoodGroup` above) -/
theorem c05_rebench_units :
    classifyRebenchLog "LanguageFeatures.Dispatch: iterations=1 runtime: 309557us".toList =
      some { pre := [], main := { criterion := totalName, unit := ms, value := .flt (309557 / 1000) } } ∧
    classifyRebenchLog "Dispatch: iterations=1 runtime: 557ms".toList =
      some { pre := [], main := { criterion := totalName, unit := ms, value := .flt 557 } } ∧
    classifyPlainSeconds " 2.5 ".toList =
      some { pre := [], main := { criterion := totalName, unit := ms, value := .flt 2500 } } := by
  decide +kernel

/-! ## the pinned tree -/

/-- pinned `jmh_adapter.py:35` (unit group `(.+)`): the carriage return of a CR-LF line stayed in the
unit.  Repaired by `fix: JMH adapter does not keep the carriage return …`; `reJMH` follows the repaired
pattern and `c05_classify_render_jmh` covers CR-LF. -/
theorem c05_jmh_pinned_full_fails :
    classifyJMHWith reJMHOld "Iteration   1: 5.5 ops/s\r".toList = some ("ops/s\r".toList, .flt (11/2)) ∧
    classifyJMH "Iteration   1: 5.5 ops/s\r".toList = some ("ops/s".toList, .flt (11/2)) := by
  decide +kernel

end RB.Adapters
