/-
C07 — run identity and measurements survive the data-file round trip.
Property theorems only; helper lemmas are in `RB/Proofs/Lemmas/{Identity,Text,DataFile}.lean`.

Three layers:
* identity: `from_dict ∘ json ∘ as_dict` on the key classes (`RB.Identity`);
* text: a measurement line written with `"\t".join` / `"%f"` and read back with
  universal newlines, `split("\t")`, `int`, `float` (`RB.DataFile`, text level);
* file: the loader's id tables against the writer's dictionaries, for any
  number of sessions (`RB.DataFile.Reach`), given that keys survive (layer 1).
-/
import RB.Proofs.Lemmas.Identity
import RB.Proofs.Lemmas.Text
import RB.Proofs.Lemmas.DataFile
import RB.Proofs.Lemmas.TextLoader
import RB.Model.Session
import RB.Proofs.C15

namespace RB.Identity

/-! ## Identity -/

/-- `fromDict_asDict` (benchmark): for every configured benchmark key — any
names, commands, arguments, env maps, variable lists, builds, descriptions —
`Benchmark.from_dict(b.as_dict())` equals `b` on every `__eq__` field. -/
theorem c07_fromDict_asDict_bench (b : Bench) (h : b.Configured) : Bench.fromDict b.asDict = some b :=
  bench_roundtrip b h

/-- `fromDict_asDict` (run): `RunId.from_dict(r.as_dict(True) + benchmark_id, benchmarks[benchmark_id])`
equals `r`, so a later session with the same configuration interns the loaded
run onto the configured one. -/
theorem c07_fromDict_asDict_run (r : Run) (benchmarks : List Bench) (bid : Nat)
    (hb : benchmarks[bid]? = some r.benchmark) :
    Run.fromDict benchmarks (r.asDict bid) = some r :=
  run_roundtrip r benchmarks bid hb

/-- the hypothesis `Configured` is what every compiled configuration has
(`invocations` is never `None`); without it `as_dict` returns `None` for the run
details and `from_dict` raises `AttributeError` -/
theorem c07_fromDict_asDict_unconfigured_fails :
    ∃ r : RunDetails, RunDetails.fromDict r.asDict = none :=
  ⟨⟨.none, .none, .none, .none, .none, .none, .none, .none, .none, none, .none, .none⟩, by decide⟩

def exVars : Vars := ⟨[.str ""], [.int 1], [.str ""], [.none]⟩
def exRD : RunDetails := ⟨.int 2, .int 1, .none, .int 50, .int (-1), .none, .none, .bool true, .int 0,
  some [("HOME_BIN", .str "~/bin")], .none, .none⟩
def exExec : Exec := ⟨.str "E", .none, .str "benchmark", .str "/p", .str "exe", .none, .str "make", exRD, exVars⟩
def exSuite : Suite := ⟨.str "S", .str "%(benchmark)s", .str "/p", .str "d", .none, exExec⟩
def exBench : Bench := ⟨.str "B", .str "B", .str "x", exRD, ⟨[.int 1, .str "l"], [.int 1], [.str ""], [.none]⟩, exSuite⟩
-- non-vacuity
example : exBench.Configured := by simp [Bench.Configured, RunDetails.Configured, exBench, exSuite, exExec, exRD]

/-- through the file (`json.dumps`, `json.loads`): full strength would quantify
over every scalar YAML can deliver.  PARTIAL: holds when no value in the
benchmark's JSON is a YAML date (`serialisable`). -/
theorem c07_reload_partial (b : Bench) (h : b.Configured) (hs : b.asDict.serialisable = true) :
    b.reload = some b := by
  unfold Bench.reload J.roundTrip
  simp [hs, bench_roundtrip b h]

/-- why the configuration loader reads a scalar that looks like a date as text
(`_ConfigLoader`): a date object among the variable values would make `json.dumps`
raise `TypeError` at the first `persist`; no loaded configuration contains one -/
theorem c07_reload_date_unserialisable : ∃ b : Bench, b.Configured ∧ b.reload = none :=
  ⟨⟨.str "B", .str "B", .str "x", exRD, ⟨[.date "2020-01-01"], [.int 1], [.str ""], [.none]⟩, exSuite⟩,
   by simp [Bench.Configured, RunDetails.Configured, exSuite, exExec, exRD], by decide⟩

example : exBench.asDict.serialisable = true := by decide

/-- the pinned tree (`inPlace = true`): when `~` expansion changes some env
value, the identity that `as_dict` records differs from the configured one — the
next session does not recognise the run and executes it again -/
theorem c07_inplace_env_fails (expand : String → String) (b : Bench) (e : List (String × Val))
    (he : b.runDetails.env = some e) (k s : String) (hk : (k, Val.str s) ∈ e) (hx : expand s ≠ s) :
    b.recorded true expand ≠ b := by
  intro heq
  have h1 : (b.recorded true expand).runDetails.env = b.runDetails.env := by rw [heq]
  simp only [Bench.recorded, if_true, RunDetails.expandEnv, he, Option.map_some, Option.some.injEq] at h1
  have := congrArg (fun l => l.length) h1
  obtain ⟨i, hi, hget⟩ := List.getElem_of_mem hk
  have h2 := congrArg (fun l => l[i]?) h1
  simp only [List.getElem?_map, List.getElem?_eq_getElem hi, hget, Option.map_some, Option.some.injEq,
    Prod.mk.injEq, Val.str.injEq, true_and] at h2
  exact hx h2

example : exBench.recorded true (fun s => if s = "~/bin" then "/root/bin" else s) ≠ exBench := by decide

/-- the repaired tree builds a new map: what is recorded is the configured key, whatever `~` expands to -/
theorem c07_recorded_is_configured (expand : String → String) (b : Bench) (h : b.Configured)
    (hs : b.asDict.serialisable = true) :
    (b.recorded false expand).reload = some b := by
  simp [Bench.recorded, c07_reload_partial b h hs]

end RB.Identity

namespace RB.DataFile

/-! ## Text -/

/-- `fmt6_bound`: what `float()` reads back from `"%f" % x` is within `5·10⁻⁷` of `x`, for every rational `x` -/
theorem c07_fmt6_bound (q : Rat) : ∃ v, readFixed (fmt6 q) = some v ∧ |v - q| ≤ 1 / 2000000 := by
  unfold fmt6
  by_cases h : q < 0
  · simp only [h, if_true]
    refine ⟨_, readFixed_neg_fmtMicro _, ?_⟩
    have := roundMicro_bound (-q) (by linarith)
    rw [abs_le] at this ⊢
    constructor <;> linarith [this.1, this.2]
  · simp only [h, if_false]
    exact ⟨_, readFixed_fmtMicro _, roundMicro_bound q (by linarith)⟩

/-- what the next session reads back for a sample written with `"%f"` -/
def reloadVal (q : Rat) : Rat := (readFixed (fmt6 q)).getD 0

theorem reloadVal_bound (q : Rat) : |reloadVal q - q| ≤ 1 / 2000000 := by
  obtain ⟨v, hv, hb⟩ := c07_fmt6_bound q
  simpa [reloadVal, hv] using hb

theorem sum_reload_bound (xs : List Rat) :
    |RB.Stats.sum (xs.map reloadVal) - RB.Stats.sum xs| ≤ (xs.length : Rat) * (1 / 2000000) := by
  induction xs with
  | nil => simp [RB.Stats.sum_nil]
  | cons x xs ih =>
    simp only [List.map_cons, RB.Stats.sum_cons, List.length_cons]
    have hx := reloadVal_bound x
    rw [abs_le] at hx ih ⊢
    push_cast
    constructor <;> linarith [hx.1, hx.2, ih.1, ih.2]

/-- `stats_reload`: a session that reloads the samples recorded by an earlier
one (each written with `"%f"`, read with `float`) computes the same sample
count, and a mean within `5·10⁻⁷` of the recording session's mean — with the
streaming statistics of C15 on both sides. -/
theorem c07_stats_reload (xs : List Rat) (h : xs ≠ []) :
    (RB.Stats.addAll RB.Stats.init (xs.map reloadVal)).n = (RB.Stats.addAll RB.Stats.init xs).n ∧
    |(RB.Stats.addAll RB.Stats.init (xs.map reloadVal)).mean - (RB.Stats.addAll RB.Stats.init xs).mean|
      ≤ 1 / 2000000 := by
  have h' : xs.map reloadVal ≠ [] := by simpa using h
  refine ⟨by rw [RB.Stats.c15_count, RB.Stats.c15_count]; simp, ?_⟩
  rw [RB.Stats.c15_mean _ h, RB.Stats.c15_mean _ h']
  unfold RB.Stats.tmean
  have hn : (0 : Rat) < (xs.length : Rat) := by
    have : 0 < xs.length := List.length_pos_of_ne_nil h
    exact_mod_cast this
  simp only [List.length_map]
  rw [← sub_div]
  have hs := sum_reload_bound xs
  rw [abs_le] at hs ⊢
  constructor
  · rw [le_div_iff₀ hn]; linarith [hs.1]
  · rw [div_le_iff₀ hn]; linarith [hs.2]

-- non-vacuity
example : ([25 / 2, 1 / 3] : List Rat) ≠ [] := by simp

theorem sepFree_noTab {s : List Char} (h : sepFree s = true) : '\t' ∉ s := by
  intro hm
  simp only [sepFree, List.all_eq_true] at h
  have := h _ hm
  simp at this

theorem fmt6_noTab (q : Rat) : '\t' ∉ fmt6 q := by
  have hm : ∀ u, '\t' ∉ fmtMicro u := by
    intro u hm
    unfold fmtMicro at hm
    rcases List.mem_append.mp hm with h | h
    · exact natToDec_noTab _ h
    · rcases List.mem_cons.mp h with h | h
      · cases h
      · exact not_mem_of_digits (pad6_digits _) _ (by decide) h
  unfold fmt6
  split
  · intro h
    rcases List.mem_cons.mp h with h | h
    · cases h
    · exact hm _ h
  · exact hm _

/-- `load_persist`, line level.  Full strength would quantify over all strings
in criteria, units and the run's columns.  PARTIAL: for lines whose unit,
criterion and columns contain no tab, line feed or carriage return
(`SepFree`) and whose value was written by `"%f"`, the loader recovers the same
invocation, iteration, unit, criterion and run id, and the value to `5·10⁻⁷`. -/
theorem c07_line_roundtrip_partial (l : MeasLine) (q : Rat) (hv : l.value = fmt6 q) (hs : l.SepFree) :
    ∃ v, parseMeas (renderMeas l) = some { inv := l.inv, it := l.it, value := v, unit := l.unit,
                                           crit := l.crit, rid := l.rid }
      ∧ |v - q| ≤ 1 / 2000000 := by
  obtain ⟨v, hr, hb⟩ := c07_fmt6_bound q
  replace hr := readValue_of_readFixed hr
  refine ⟨v, ?_, hb⟩
  unfold parseMeas renderMeas
  rw [splitSep_joinSep '\t' _ (by simp)]
  · simp only [List.cons_append, List.nil_append]
    simp [decToNat_natToDec, hv, hr, List.getLast?_append]
  · intro f hf
    simp only [List.cons_append, List.nil_append, List.mem_cons, List.mem_append, List.not_mem_nil,
      or_false] at hf
    rcases hf with rfl | rfl | rfl | rfl | rfl | hf | rfl
    · exact natToDec_noTab _
    · exact natToDec_noTab _
    · rw [hv]; exact fmt6_noTab q
    · exact sepFree_noTab hs.1
    · exact sepFree_noTab hs.2.1
    · exact sepFree_noTab (hs.2.2 _ hf)
    · exact natToDec_noTab _

def exLine : MeasLine :=
  { inv := 2, it := 3, value := "12.500000".toList, unit := "ms".toList, crit := "total".toList,
    cols := ["B".toList, "E".toList, "S".toList, [], "1".toList, [], [], [], []], rid := 0 }
-- non-vacuity
example : exLine.SepFree := by simp [MeasLine.SepFree, exLine, sepFree]

/-- "a recorded measurement … reload[s] with the same invocation, iteration,
value (to the six decimals written), unit, criterion and run": for every text
an adapter or the configuration can deliver the written line is read back by
text-mode reading as exactly one line, and that line parses to the
measurement's invocation, iteration, run id, the value to `5·10⁻⁷`, and unit
and criterion as written: with a tab / line feed / carriage return replaced by
a space (`cleanCell`) — the same text whenever it contains none of the three
(`cleanCell_of_sepFree`).  The run's columns are written the same way. -/
theorem c07_line_roundtrip (l : MeasLine) (q : Rat) (hv : l.value = fmt6 q) :
    ∃ v, (splitLines (writeMeas l ++ ['\n'])).map parseMeas =
        [some { inv := l.inv, it := l.it, value := v, unit := cleanCell l.unit,
                crit := cleanCell l.crit, rid := l.rid }]
      ∧ |v - q| ≤ 1 / 2000000 := by
  have hok : LineOk l.cleaned q := ⟨hv, cleaned_sepFree l⟩
  obtain ⟨v, hp⟩ := pieces_render l.cleaned q hok
  obtain ⟨v', hp', hb⟩ := c07_line_roundtrip_partial l.cleaned q hv (cleaned_sepFree l)
  have hsplit := splitLines_plain _ (renderMeas_plainLine l.cleaned q hok)
  refine ⟨v', ?_, hb⟩
  unfold writeMeas
  rw [hsplit]
  simp only [List.map_cons, List.map_nil, hp']
  rfl

/-- why the cells are normalised (b1): written as it is, a tab inside the criterion (RebenchLog's `[^:]{1,30}`
allows one) shifts the columns; the line reloads with another criterion -/
theorem c07_line_roundtrip_tab_fails :
    (parseMeas (renderMeas { exLine with crit := "me\tm".toList })).map (·.crit) = some "me".toList := by
  decide +kernel

/-- why the cells are normalised (b2): written as it is, a carriage return inside the unit (JMH's `(.+)` keeps
the `\r` of CR-LF output): universal-newline reading splits the line in two and
neither half parses — the data point is lost and its invocation runs again -/
theorem c07_line_roundtrip_cr_fails :
    (splitLines (renderMeas { exLine with unit := "ms\r".toList } ++ ['\n'])).map parseMeas = [none, none] := by
  decide +kernel

/-- ValidationLog's boolean is written as `True` / `False` and read back as that value
(`True == 1`): before the repair `float()` rejected the line -/
theorem c07_line_roundtrip_bool (l : MeasLine) (hs : l.SepFree) (b : Bool)
    (hv : l.value = (if b then "True".toList else "False".toList)) :
    parseMeas (renderMeas l) = some { inv := l.inv, it := l.it, value := if b then 1 else 0, unit := l.unit,
                                       crit := l.crit, rid := l.rid } := by
  have hval : readValue l.value = some (if b then 1 else 0) := by
    rw [hv]; cases b <;> decide +kernel
  unfold parseMeas renderMeas
  rw [splitSep_joinSep '\t' _ (by simp)]
  · simp only [List.cons_append, List.nil_append]
    simp [decToNat_natToDec, hval, List.getLast?_append]
  · intro f hf
    simp only [List.cons_append, List.nil_append, List.mem_cons, List.mem_append, List.not_mem_nil,
      or_false] at hf
    rcases hf with rfl | rfl | rfl | rfl | rfl | hf | rfl
    · exact natToDec_noTab _
    · exact natToDec_noTab _
    · rw [hv]; cases b <;> decide
    · exact sepFree_noTab hs.1
    · exact sepFree_noTab hs.2.1
    · exact sepFree_noTab (hs.2.2 _ hf)
    · exact natToDec_noTab _

def exHostile : MeasLine :=
  ⟨exLine.inv, exLine.it, exLine.value, "ms\r".toList, "me\tm".toList,
   ["B".toList, "E".toList, "S".toList, "folded args\n".toList, "1".toList, [], [], [], []], exLine.rid⟩

example : (splitLines (writeMeas exHostile ++ ['\n'])).map
    (fun x => (parseMeas x).map (fun p => (p.unit, p.crit))) = [some ("ms ".toList, "me m".toList)] := by
  decide +kernel

/-- why the cells are normalised (b3): written as it is, a line feed inside one of the run's identifying columns
(`extra_args` from a YAML folded scalar ends in `\n`) breaks every measurement
line of the run in two; nothing of the run reloads -/
theorem c07_line_roundtrip_newline_in_columns_fails :
    (splitLines (renderMeas { exLine with cols := ["B".toList, "E".toList, "S".toList, "folded args\n".toList,
        "1".toList, [], [], [], []] } ++ ['\n'])).map parseMeas = [none, none] := by
  decide +kernel

/-! ## File -/

variable {κ β : Type} [DecidableEq κ] [DecidableEq β] (benchOf : κ → β)

/-- `load_persist`, file level (keys surviving, see above): loading what a
session appended to any reachable file yields the data points loaded before
followed by exactly the complete data points the session persisted, attributed
to the same runs with the same invocation and iteration numbers — hence the
same `_max_invocation` and the same number of samples per run. -/
theorem c07_load_persist (c : List (Line κ β)) (T : Tables κ β) (ls : List (Loaded κ))
    (ops : List (κ × DP)) (hr : Reach benchOf c) (hl : load (fun x => x) (fun x => x) c = .ok (T, ls)) :
    ∃ T', load (fun x => x) (fun x => x) (writeOps benchOf ops (FP.ofTables c T)).content
      = .ok (T', ls ++ ops.flatMap (fun op => totalsOf op.1 op.2)) := by
  have hinv := inv_ofTables benchOf c T ls (reach_good benchOf hr) hl
  have key : ∀ (ops : List (κ × DP)) (fp : FP κ β) (ls : List (Loaded κ)), Inv benchOf fp →
      (∃ T, load (fun x => x) (fun x => x) fp.content = .ok (T, ls) ∧ Sim fp T) →
      ∃ T', load (fun x => x) (fun x => x) (writeOps benchOf ops fp).content
        = .ok (T', ls ++ ops.flatMap (fun op => totalsOf op.1 op.2)) := by
    intro ops
    induction ops with
    | nil => intro fp ls _ ⟨T, h, _⟩; exact ⟨T, by simpa [writeOps] using h⟩
    | cons op ops ih =>
      intro fp ls hi ⟨T, h, hs⟩
      obtain ⟨T1, h1, hs1⟩ := load_persist_step benchOf op.1 op.2 fp T ls hs h
      obtain ⟨T2, h2⟩ := ih (persist benchOf op.1 op.2 fp) _ (persist_inv benchOf _ _ fp hi) ⟨T1, h1, hs1⟩
      exact ⟨T2, by simpa [writeOps, List.append_assoc] using h2⟩
  exact key ops _ ls hinv ⟨T, hl, ⟨rfl, rfl, (reach_good benchOf hr).loads.elim (fun T' h => by
    obtain ⟨ls', h0, h1, _⟩ := h; rw [hl] at h0; cases h0; exact h1), (reach_good benchOf hr).loads.elim (fun T' h => by
    obtain ⟨ls', h0, _, h2, _⟩ := h; rw [hl] at h0; cases h0; exact h2)⟩⟩

/-- `ids_consecutive`: in every file produced by any number of sessions the
`# run_id:` ids are `0,1,2,…` without repeat, likewise `# benchmark:`, and the
file loads without assertion failure. -/
theorem c07_ids_consecutive {c : List (Line κ β)} (h : Reach benchOf c) :
    (∃ n, runIds c = List.range n) ∧ (∃ n, benchIds c = List.range n) ∧
    ∃ T ls, load (fun x => x) (fun x => x) c = .ok (T, ls) := by
  obtain ⟨T, ls, hl, _, _, h3, h4, _⟩ := (reach_good benchOf h).loads
  exact ⟨⟨_, h3⟩, ⟨_, h4⟩, T, ls, hl⟩

def errOf {α : Type} : Except LoadErr α → Option LoadErr
  | .error e => some e
  | .ok _ => none

/-- pinned tree: key 0 is recorded as key 1 (its env after `~` expansion), which is not a configured key -/
def rtEx : Nat → Nat := fun k => if k = 0 then 1 else k
def dpEx : DP := { inv := 1, it := 1, ms := [{ crit := "total", unit := "ms", value := .flt 1 }] }
def s1Ex : List (Line Nat Nat) := (persist (fun k : Nat => k) 0 dpEx (FP.ofTables [] emptyTables)).content
def s2Ex : List (Line Nat Nat) :=
  match load rtEx rtEx s1Ex with
  | .ok (T, _) => (persist (fun k : Nat => k) 0 dpEx (FP.ofTables s1Ex T)).content
  | .error _ => []

/-- on the pinned tree the key does not survive (`rt ≠ id`): the second session
does not find the run, records it again under new ids, and the file then holds
two `# benchmark:` records that reload to the same key: the third session dies
in `assert benchmark not in self._benchmarks_in_file` -/
theorem c07_ids_inplace_env_fails :
    errOf (load rtEx rtEx s1Ex) = none ∧ benchIds s2Ex = [0, 1] ∧
    errOf (load rtEx rtEx s2Ex) = some .assertBenchDup := by
  decide +kernel

/-- The text-level loader — rendering with the run's columns, universal
newlines, tab splitting, `int` / `float`, the open data point with its
`UIError` — and the abstract loader agree on every file that any number of
sessions produced from data points as the adapters build them (separator-free
strings, one `total`, last: `DPOk`).  So every theorem stated with `load`
(`c06_*` over `Reach`, `c07_load_persist`, `c07_ids_consecutive`,
`c08_resume_equiv`) speaks about what is really read back; outside `DPOk` the
two differ, which is what the `…_fails` witnesses above and the known findings
record, and there the correspondence check compares the implementation with
`loadT`. -/
theorem c07_textLoader_agrees (colsOf : κ → List (List Char)) {c : List (Line κ β)}
    (h : ReachOk benchOf colsOf c) :
    loadT colsOf (fun x => x) (fun x => x) c = load (fun x => x) (fun x => x) c := by
  obtain ⟨T, ls, d, h1, h2, _⟩ := reachOk_loadT benchOf colsOf h
  unfold loadT
  rw [h2, h1]

/-- … hence a session that reads such files at text level is the session of the abstract model -/
theorem c07_sessionT_agrees (colsOf : κ → List (List Char)) (cfg : List (RB.Session.RunC κ))
    (H : RB.Session.Harness) (sched : RB.Session.Sched) (order choices : List Nat) (stop : Option Nat)
    (contents : List (List (Line κ β))) (h : ∀ c ∈ contents, ReachOk benchOf colsOf c) :
    RB.Session.sessionT benchOf colsOf (fun x => x) (fun x => x) cfg H sched order choices stop contents =
      RB.Session.session benchOf (fun x => x) (fun x => x) cfg H sched order choices stop contents := by
  have hall : RB.Session.loadAllWith (loadT colsOf (fun x => x) (fun x => x)) contents =
      RB.Session.loadAll (fun x => x) (fun x => x) contents := by
    unfold RB.Session.loadAll
    induction contents with
    | nil => rfl
    | cons c cs ih =>
      simp only [RB.Session.loadAllWith]
      rw [c07_textLoader_agrees benchOf colsOf (h c (by simp)), ih (fun x hx => h x (by simp [hx]))]
  unfold RB.Session.sessionT RB.Session.session RB.Session.sessionWith
  rw [hall]

-- non-vacuity: a well-formed data point
example : DPOk (fun _ : Nat => ["B".toList, "E".toList]) 0
    { inv := 1, it := 1, ms := [{ crit := "mem", unit := "kb", value := .flt 3 },
                                 { crit := "total", unit := "ms", value := .flt (25 / 2) }] } :=
  ⟨by intro c hc; simp at hc; rcases hc with rfl | rfl <;> decide,
   by intro m hm; simp at hm; rcases hm with rfl | rfl <;> exact ⟨⟨_, rfl⟩, by decide, by decide⟩,
   ⟨[{ crit := "mem", unit := "kb", value := .flt 3 }], { crit := "total", unit := "ms", value := .flt (25 / 2) },
    rfl, rfl, by intro m hm; simp at hm; subst hm; decide⟩⟩

/-- outside `DPOk`, where the two loaders differed before cells were normalised: a data point whose only
`total` line has a carriage return in its unit used to be cut in two by text-mode reading and never
completed (`loadT` gave 0 data points, `load` 1) — the written cell has a space there, both give 1 -/
theorem c07_textLoader_cr_agrees :
    let dp : DP := { inv := 1, it := 1, ms := [{ crit := "total", unit := "ms\r", value := .flt 1 }] }
    let c := (persist (fun k : Nat => k) 0 dp (FP.ofTables [] emptyTables)).content
    (match loadT (fun _ : Nat => []) (fun x => x) (fun x => x) c with | .ok r => r.2.length | .error _ => 99) = 1 ∧
    (match load (fun x : Nat => x) (fun x : Nat => x) c with | .ok r => r.2.length | .error _ => 99) = 1 := by
  decide +kernel

/-- `_persists_data_point_in_open_file` writes the total last: whatever position an adapter gave the
total (the Multivariate adapter's counted data points put it anywhere), what goes to the file is the other
measurements followed by the totals — for a data point with exactly one total the shape `DPOk` asks for -/
theorem c07_written_total_last (ms : List Meas) (tot : Meas)
    (h : ms.filter (fun m => m.crit = "total") = [tot]) :
    ∃ init, totalLast ms = init ++ [tot] ∧ tot.crit = "total" ∧ ∀ m ∈ init, m.crit ≠ "total" := by
  refine ⟨ms.filter (fun m => m.crit ≠ "total"), by simp [totalLast, h], ?_, ?_⟩
  · have : tot ∈ ms.filter (fun m => m.crit = "total") := by rw [h]; simp
    simpa using (List.mem_filter.mp this).2
  · intro m hm
    simpa using (List.mem_filter.mp hm).2

def mvDP (inv : Nat) : DP :=
  { inv := inv, it := 1, ms := [{ crit := "bar", unit := "ms", value := .flt (3 / 2) },
                               { crit := "total", unit := "ms", value := .flt (5 / 2) },
                               { crit := "baz", unit := "kbyte", value := .raw "3".toList }] }

/-- why: written in the adapter's order (total in the middle), the line after the total opens a data
point that the next invocation of the run runs into — the loader's `UIError`, on every later session
(the defect repaired by `fix: a data point is written with its total as the last line`); written with the
total last the same two invocations load -/
theorem c07_total_in_the_middle_fails :
    let w := fun (f : DP → DP) =>
      (persist (fun k : Nat => k) 0 (f (mvDP 2)) (persist (fun k : Nat => k) 0 (f (mvDP 1)) (FP.ofTables [] emptyTables))).content
    errOf (loadT (fun _ : Nat => []) (fun x => x) (fun x => x) (w id)) = some .mixedDataPoint ∧
    errOf (loadT (fun _ : Nat => []) (fun x => x) (fun x => x) (w (fun d => { d with ms := totalLast d.ms }))) = none := by
  decide +kernel

open RB.Session in
theorem newInFile_seen {κ : Type} [DecidableEq κ] (k : κ) (seen : List (Nat × Nat)) (ls : List (Loaded κ))
    (h : ∀ l ∈ ls, l.k = k → (l.inv, l.it) ∈ seen) : newInFile k seen ls = [] := by
  simp only [newInFile, List.filter_eq_nil_iff, decide_eq_true_eq, not_and, not_not]
  exact fun l hl hk => h l hl hk

open RB.Session in
theorem sampleCount_newInFile {κ : Type} [DecidableEq κ] (k : κ) (w : Nat) (ls : List (Loaded κ)) :
    sampleCount k w (newInFile k [] ls) = sampleCount k w ls := by
  simp only [sampleCount, newInFile, List.filter_filter, List.not_mem_nil, not_false_eq_true, and_true]
  congr 1
  apply List.filter_congr
  intro l _
  by_cases h : l.k = k <;> simp [h]

open RB.Session in
theorem countedLoaded_copies {κ : Type} [DecidableEq κ] (k : κ) (ls : List (Loaded κ)) (n : Nat)
    (seen : List (Nat × Nat)) (h : ∀ l ∈ ls, l.k = k → (l.inv, l.it) ∈ seen) :
    countedLoaded k seen (List.replicate n ls) = List.replicate n [] := by
  induction n generalizing seen with
  | zero => rfl
  | succ n ih =>
    simp only [List.replicate_succ, countedLoaded, newInFile_seen k seen ls h, List.map_nil, List.append_nil]
    rw [ih seen h]

/-- "its sample count … equal[s] that of the recording session" for a run contained in
experiments with different data files: every data point of the run is in each of its
files (`c06_right_files`) and every file is loaded into the same run — the copies of a
data point count once.  (Before the repair each file added its copy: 2 or 3 times the
samples.) -/
theorem c07_samples_multifile {κ : Type} [DecidableEq κ] (c : RB.Session.RunC κ) (ls : List (Loaded κ)) (n : Nat) :
    (RB.Session.initRun c (List.replicate (n + 1) ls)).samples = sampleCount c.key c.warmup ls := by
  have hseen : ∀ l ∈ ls, l.k = c.key →
      (l.inv, l.it) ∈ ([] ++ (RB.Session.newInFile c.key [] ls).map (fun l => (l.inv, l.it))) := by
    intro l hl hk
    simp only [List.nil_append, List.mem_map]
    exact ⟨l, by simp [RB.Session.newInFile, hl, hk], rfl⟩
  simp only [RB.Session.initRun, List.replicate_succ, RB.Session.countedLoaded]
  rw [countedLoaded_copies c.key ls n _ hseen]
  simp only [List.map_cons, List.map_replicate, List.sum_cons, List.sum_replicate, sampleCount_newInFile]
  simp [sampleCount]

example :
    let ls : List (Loaded Nat) := [{ k := 0, inv := 1, it := 1 }]
    let c : RB.Session.RunC Nat := { key := 0, invocations := 1, retries := 0, warmup := 0, files := [0, 1], builds := [] }
    (RB.Session.initRun c [ls, ls]).samples = 1 ∧ (RB.Session.initRun c [ls, ls]).m = 1 := by
  decide

end RB.DataFile
