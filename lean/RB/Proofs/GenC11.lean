/-
Translation tie for C11: the worker-thread arithmetic of the parallel scheduler
as generated from `rebench/executor.py` (`_number_of_threads`,
`_determine_num_work_items_to_take`) equals the model's `numThreads` /
`perThread`, for every core count, thread count and work-list length.
-/
import RB.Gen.ParallelScheduler
import RB.Model.Sched
import Mathlib.Algebra.Order.Floor.Ring
import Mathlib.Data.Rat.Floor
import Mathlib.Tactic.Ring
import Mathlib.Tactic.FieldSimp
import Mathlib.Tactic.Linarith

namespace RB.Sched
open RB.Gen

theorem ratFloor_nat_div (m d : Nat) :
    (((Rat.floor ((m : Rat) / (d : Rat)) : Int)) : Rat) = ((m / d : Nat) : Rat) := by
  have h : Rat.floor ((m : Rat) / (d : Rat)) = ((m / d : Nat) : Int) := by
    have h1 : ⌊((m : Int) : Rat) / (d : Rat)⌋ = (m : Int) / (d : Int) :=
      Rat.floor_intCast_div_natCast (m : Int) d
    have h2 : Rat.floor (((m : Int) : Rat) / (d : Rat)) = ⌊((m : Int) : Rat) / (d : Rat)⌋ := rfl
    have h3 : ((m : Int) : Rat) = (m : Rat) := by simp
    rw [← h3, h2, h1]; simp
  rw [h]; push_cast; rfl

theorem pymax_one_nat (n : Nat) : ParallelScheduler.pymax 1 (n : Rat) = ((max 1 n : Nat) : Rat) := by
  unfold ParallelScheduler.pymax
  by_cases h : (1 : Rat) < (n : Rat)
  · have h' : 1 < n := by exact_mod_cast h
    simp [h, Nat.max_eq_right (Nat.le_of_lt h')]
  · have h' : n ≤ 1 := by
      have : (n : Rat) ≤ 1 := not_lt.mp h
      exact_mod_cast this
    simp [h, Nat.max_eq_left h']

/-- `_number_of_threads` as translated = the model's `numThreads` -/
theorem gen_number_of_threads (g : ParallelScheduler.S) (cpu : Nat) :
    ParallelScheduler.number_of_threads g (cpu : Rat) = ((numThreads cpu : Nat) : Rat) := by
  unfold ParallelScheduler.number_of_threads numThreads
  have e : (cpu : Rat) / ((5 : Rat) / 2) = ((2 * cpu : Nat) : Rat) / ((5 : Nat) : Rat) := by
    push_cast; field_simp
  simp only [e, ratFloor_nat_div, pymax_one_nat]

/-- `_determine_num_work_items_to_take` as translated = the model's `perThread` -/
theorem gen_per_thread (g : ParallelScheduler.S) (threads k : Nat)
    (hg : g.num_worker_threads = (threads : Rat)) :
    ParallelScheduler.determine_num_work_items_to_take g (k : Rat) = ((perThread threads k : Nat) : Rat) := by
  unfold ParallelScheduler.determine_num_work_items_to_take perThread
  simp only [hg, ratFloor_nat_div, pymax_one_nat]

end RB.Sched
