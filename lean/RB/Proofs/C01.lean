/-
C01 — scheduled runs are exactly the configured cross product, filtered;
equal runs are one run.  Property theorems only.
-/
import RB.Proofs.Lemmas.Runs

namespace RB.Runs
open RB.Settings

/-- The independent reference enumeration: `k` is scheduled iff it arises
from a selected experiment, one of its execution entries (whose executor
exists), one of that entry's suites (its own list if it has one, else the
experiment's), one of the suite's benchmarks, and one combination of the
benchmark's effective cores × input sizes × variable values × tags — and every
filter group given matches (or within a group, and across groups).
Nothing is omitted (←) and nothing extra is scheduled (→). -/
theorem c01_mem_scheduled_iff (cfg : Config) (sel : Sel) (k : RunKey) :
    k ∈ scheduled cfg sel ↔
      ∃ e ∈ selected cfg sel, ∃ x ∈ e.executions,
      ∃ ex, lookupExecutor cfg x.executor = some ex ∧
      ∃ sn ∈ suitesFor e x, ∃ s, lookupSuite cfg sn = some s ∧
      ∃ b ∈ s.benchmarks,
      ∃ c ∈ (benchKey cfg (execKey cfg e x ex) s b).vars.cores,
      ∃ i ∈ (benchKey cfg (execKey cfg e x ex) s b).vars.inputSizes,
      ∃ v ∈ (benchKey cfg (execKey cfg e x ex) s b).vars.variableValues,
      ∃ t ∈ (benchKey cfg (execKey cfg e x ex) s b).vars.tags,
        k = mkRun cfg (benchKey cfg (execKey cfg e x ex) s b) c i v t ∧
        group sel.execFilters (fun f => f == ex.name) = true ∧
        group sel.suiteFilters (fun f => suiteFilterMatches f s.name b.name) = true ∧
        group sel.tagFilters (fun f => t == .str f) = true := by
  unfold scheduled
  rw [mem_dedup]
  simp only [List.mem_flatMap, runsOfExperiment, mem_runsOfExecution, mem_runsOfSuite, mem_runsOfBench,
    appliesToBench, appliesToTag, Bool.and_eq_true]
  constructor
  · rintro ⟨e, he, x, hx, ex, hex, sn, hsn, s, hs, b, hb, ⟨hf1, hf2⟩, c, hc, i, hi, v, hv, t, ht, hft, rfl⟩
    exact ⟨e, he, x, hx, ex, hex, sn, hsn, s, hs, b, hb, c, hc, i, hi, v, hv, t, ht, rfl, hf1, hf2, hft⟩
  · rintro ⟨e, he, x, hx, ex, hex, sn, hsn, s, hs, b, hb, c, hc, i, hi, v, hv, t, ht, rfl, hf1, hf2, hft⟩
    exact ⟨e, he, x, hx, ex, hex, sn, hsn, s, hs, b, hb, ⟨hf1, hf2⟩, c, hc, i, hi, v, hv, t, ht, hft, rfl⟩

/-- no run is scheduled twice -/
theorem c01_scheduled_nodup (cfg : Config) (sel : Sel) : (scheduled cfg sel).Nodup :=
  nodup_dedup _

/-- runs of different experiments that agree in every configuration detail
are one run: the scheduled list contains a key once, however many
experiments produce it -/
theorem c01_shared_once (cfg : Config) (sel : Sel) (k : RunKey) : (scheduled cfg sel).count k ≤ 1 :=
  List.nodup_iff_count.mp (c01_scheduled_nodup cfg sel) k

/-- a filter group keeps a run iff it is empty or at least one of its filters matches -/
theorem c01_group_spec {α : Type} (fs : List α) (p : α → Bool) :
    group fs p = true ↔ fs = [] ∨ ∃ f ∈ fs, p f = true := group_iff fs p

/-- selecting an experiment by name selects exactly the experiments of that name; `all` selects all -/
theorem c01_selected_spec (cfg : Config) (sel : Sel) (e : Experiment) :
    e ∈ selected cfg sel ↔
      e ∈ cfg.experiments ∧ (selectedName cfg sel = "all" ∨ e.name = selectedName cfg sel) := by
  unfold selected
  by_cases h : selectedName cfg sel = "all"
  · simp [h]
  · have : (selectedName cfg sel == "all") = false := by simpa using h
    simp [this, h]

/-- a tag filter never keeps an untagged run -/
theorem c01_tag_filter_drops_untagged (sel : Sel) (h : sel.tagFilters ≠ []) :
    appliesToTag sel .none = false := by
  unfold appliesToTag group
  cases hf : sel.tagFilters with
  | nil => exact absurd hf h
  | cons f fs => simp

/-- an executor filter group in which no filter names the executor drops all its runs -/
theorem c01_exec_filter_nomatch (cfg : Config) (sel : Sel) (k : RunKey)
    (hne : sel.execFilters ≠ []) (hno : ∀ f ∈ sel.execFilters, f ≠ k.bench.suite.executor.name) :
    k ∉ scheduled cfg sel := by
  intro hk
  rw [c01_mem_scheduled_iff] at hk
  obtain ⟨e, _, x, _, ex, _, sn, _, s, _, b, _, c, _, i, _, v, _, t, _, rfl, hf1, _, _⟩ := hk
  rw [c01_group_spec] at hf1
  rcases hf1 with h | ⟨f, hf, hm⟩
  · exact hne h
  · have : f = ex.name := by simpa using hm
    exact hno f hf (by simpa [mkRun, benchKey, execKey] using this)

-- non-vacuity: a concrete configuration with two experiments sharing a run
section Example
def exLevel : Level := {}
def exCfg : Config :=
  { machineName := .none, machineLevel := {}, machineVars := {}, runs := {},
    executors := [{ name := "E", static := 0, level := {}, vars := {} }],
    suites := [{ name := "S", static := 0, level := {}, vars := { cores := some [.int 1, .str "2"] },
                 benchmarks := [{ name := "B", static := 0, level := {}, vars := {} }] }],
    experiments := [
      { name := "X1", executions := [{ executor := "E", ownSuites := none, level := {}, vars := {} }],
        suites := ["S"], level := {}, vars := {} },
      { name := "X2", executions := [{ executor := "E", ownSuites := some ["S"], level := {}, vars := {} }],
        suites := [], level := {}, vars := {} }],
    defaultExperiment := none,
    defaults := { invocations := .plain 1, iterations := .plain 1, warmup := .absent,
                  minIterationTime := some 50, maxInvocationTime := none, ignoreTimeouts := none,
                  retriesAfterFailure := some 0, executeExclusively := some 1, env := some 0 },
    invOverride := none, itOverride := none }
def exSel : Sel := { expName := none, execFilters := [], suiteFilters := [], tagFilters := [] }
-- two experiments, two cores each, but the runs are shared: 2 runs, not 4
example : (scheduled exCfg exSel).length = 2 := by decide +kernel
example : (scheduled exCfg { exSel with tagFilters := ["t"] }).length = 0 := by decide +kernel
example : (scheduled exCfg { exSel with suiteFilters := [("*", some "B")] }).length = 2 := by decide +kernel
end Example

end RB.Runs
