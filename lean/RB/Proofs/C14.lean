/-
C14 — `-c` and `-r` discard exactly what they should, atomically.

Property theorems only; helper lemmas are in `RB/Proofs/Lemmas/Rewrite.lean`.
`RVariant.repaired` is the rewrite after the four `fix:` commits,
`RVariant.pinned` the rewrite of the pinned tree (kept for the witnesses).
-/
import RB.Proofs.Lemmas.Rewrite

namespace RB.Rewrite
open RB.Loader

deriving instance DecidableEq for Except

/-! ## `-r` removes exactly the selected runs' measurements -/

/-- `rerun_filters_exactly`: whatever the file holds and whatever is selected, if the `-r` load
ends normally, the new content is the old lines, in order, byte for byte, minus exactly the
measurement lines of the selected runs (under the file's run-id table) — and minus damaged data
lines (remains of an interrupted write, which are neither measurements nor comments). -/
theorem c14_rerun_filters_exactly (lv : Variant) (profile : Bool) (sel : List Nat) (ls : List FLine)
    (st' : LState) (out : List Text)
    (h : filterFrom lv RVariant.repaired profile sel LState.init ls = .ok (st', out)) :
    out = (ls.filter (keepSpec st'.runs sel)).map FLine.text :=
  (filterFrom_spec ls LState.init st' out h).2.1 st'.runs (Ext.refl _)

/-- for a file without damaged lines this is: every line that is not a selected run's measurement
is preserved -/
theorem c14_rerun_preserves_other_lines (lv : Variant) (profile : Bool) (sel : List Nat) (ls : List FLine)
    (st' : LState) (out : List Text) (hd : ∀ l ∈ ls, damaged l.cls = false)
    (h : filterFrom lv RVariant.repaired profile sel LState.init ls = .ok (st', out)) :
    out = (ls.filter (fun l => !(selectedLine st'.runs sel l.cls))).map FLine.text := by
  rw [c14_rerun_filters_exactly lv profile sel ls st' out h]
  congr 1
  apply List.filter_congr
  intro l hl
  simp [keepSpec, hd l hl]

private def ln (s : String) (r : Rec) : FLine := ⟨s.toList, r⟩
private def m0 (inv : Nat) (run : Nat) : Rec := .meas ⟨inv, 1, "1".toList, totalName, true, run⟩
private def file0 : List FLine :=
  [ln "#!\n" .session, ln "h\n" .header, ln "# benchmark: 0\n" (.bench 0 0), ln "# run_id: 0\n" (.run 0 0 0),
   ln "a\n" (m0 1 0), ln "# run_id: 1\n" (.run 1 0 1), ln "b\n" (m0 1 1), ln "c\n" (m0 2 0)]

/-- non-vacuity: a two-run file, run 0 selected: its two lines go, everything else stays -/
example : ∃ st', filterFrom Variant.repaired RVariant.repaired false [0] LState.init file0
    = .ok (st', ["#!\n".toList, "h\n".toList, "# benchmark: 0\n".toList, "# run_id: 0\n".toList,
                 "# run_id: 1\n".toList, "b\n".toList]) := ⟨_, rfl⟩

/-- a torn metadata record (the remains of a session killed while writing `# run_id: …`, with the
next session's `#!` line glued behind it) is a comment line like any other: it is copied -/
example : ∃ st', filterFrom Variant.repaired RVariant.repaired false [0] LState.init
      (file0 ++ [ln "# run_id: 9={\"cmd#!rebench\n" (.metaErr .value), ln "x\n" (.dataErr .value)])
    = .ok (st', ["#!\n".toList, "h\n".toList, "# benchmark: 0\n".toList, "# run_id: 0\n".toList,
                 "# run_id: 1\n".toList, "b\n".toList, "# run_id: 9={\"cmd#!rebench\n".toList]) := ⟨_, rfl⟩

/-- lines are split at `\n` only: U+2028, form feed, U+0085, U+001C … inside a column (a variable
value, an input size) do not end a line (`str.splitlines` would split there, file iteration does not) -/
example : (fileLines ("1\ta\u2028b\x0cc\u0085\x1cd\n2\n".toList)).map (·.content)
    = ["1\ta\u2028b\x0cc\u0085\x1cd".toList, "2".toList] := by decide

/-- pinned tree: the column header line is not copied — `rerun_filters_exactly` is false there -/
theorem c14_rerun_filters_exactly_pinned_full_fails :
    ¬ (∀ (sel : List Nat) (ls : List FLine) (st' : LState) (out : List Text),
        filterFrom Variant.pinned RVariant.pinned false sel LState.init ls = .ok (st', out) →
        out = (ls.filter (keepSpec st'.runs sel)).map FLine.text) := by
  intro h
  have := h [0] file0 _ _ rfl
  revert this
  decide

/-- pinned tree: on a profile data file the first filtered line ends the session in a TypeError
(one value returned where two are unpacked) -/
theorem c14_profile_rerun_crashes_pinned :
    filterFrom Variant.pinned RVariant.pinned true [0] LState.init file0 = .error .typeError := by decide

theorem c14_profile_rerun_repaired :
    ∃ st' out, filterFrom Variant.repaired RVariant.repaired true [0] LState.init file0 = .ok (st', out) :=
  ⟨_, _, rfl⟩

/-! ## The following execution regenerates the removed runs -/

/-- `rerun_regenerates`: after the `-r` load no data point of a selected run has been counted, so
the executor starts every invocation `1 … invocations` of every selected run again. (Runs that
are not part of the session are not started at all: the executor only sees the session's runs.) -/
theorem c14_rerun_regenerates (lv : Variant) (profile : Bool) (sel : List Nat) (ls : List FLine)
    (st' : LState) (out : List Text)
    (h : filterFrom lv RVariant.repaired profile sel LState.init ls = .ok (st', out))
    (c : RunCfg) (hc : c.run ∈ sel) :
    todo st'.loaded c = (List.range c.invocations).map (· + 1) := by
  have hn : NoSel sel st'.loaded :=
    (filterFrom_spec ls LState.init st' out h).2.2 (by intro d hd; cases hd)
  apply todo_all
  apply maxInv_of_no_dp
  intro d hd he
  have := hn d hd
  rw [he] at this
  have hc' : sel.contains c.run = true := by simpa using hc
  rw [hc'] at this; cases this

example : ∃ st' out, filterFrom Variant.repaired RVariant.repaired false [0] LState.init file0 = .ok (st', out)
    ∧ todo st'.loaded ⟨0, 0, 2, 1⟩ = [1, 2] ∧ todo st'.loaded ⟨1, 0, 2, 1⟩ = [2] :=
  ⟨_, _, rfl, by decide, by decide⟩

/-! ## Atomicity -/

/-- `rewrite_atomic`: for every old content, every filtered content, every buffer capacity, either
placement of the temporary directory, and a kill after any prefix of the file-system operations
of the rewrite, the data file on disk holds the old or the new content — never less. -/
theorem c14_rewrite_atomic (old : Text) (out : List Text) (cap : Nat) (sameFs : Bool) :
    ∀ s ∈ crashStates (FS.start old cap) (rewriteOps RVariant.repaired sameFs out),
      s = some old ∨ s = some out.flatten := by
  intro s hs
  have hops : rewriteOps RVariant.repaired sameFs out
      = [Op.create .tmp] ++ (out.map Op.write ++ [Op.close, Op.rename .tmp .data]) := by
    simp [rewriteOps, RVariant.repaired]
  rw [hops, mem_crashStates_append] at hs
  have w0 : Writing ((FS.start old cap).run [Op.create .tmp]) old [] :=
    ⟨rfl, rfl, rfl, rfl, [], [], rfl, rfl, rfl⟩
  rcases hs with hs | hs
  · -- before / after creating the temporary file
    simp only [crashStates, List.mem_cons, List.not_mem_nil, or_false] at hs
    rcases hs with hs | hs <;> (left; rw [hs]; rfl)
  · rw [mem_crashStates_append] at hs
    obtain ⟨w1, hw⟩ := writing_writes old out _ [] w0
    rcases hs with hs | hs
    · exact Or.inl (hw s hs)
    · -- close, then the atomic replace
      simp only [List.nil_append] at w1
      obtain ⟨disk, buf, h1, h2, h3⟩ := w1.h
      have wf := writing_flush w1
      obtain ⟨disk', buf', h1', h2', h3'⟩ := wf.h
      have hb : buf' = [] := by
        have : (FS.flushH ((FS.start old cap).run [Op.create Name.tmp] |>.run (out.map Op.write))).handle
            = some (1, []) := by unfold FS.flushH; rw [h2]
        rw [this] at h2'; cases h2'; rfl
      subst hb
      simp only [List.append_nil] at h3'
      simp only [crashStates, List.mem_cons, List.not_mem_nil, or_false] at hs
      rcases hs with hs | hs | hs
      · left; rw [hs]; exact w1.content
      · left; rw [hs]
        simp [FS.content, FS.lookup, FS.apply, wf.data, wf.old]
      · right; rw [hs]
        simp [FS.content, FS.lookup, FS.apply, FS.bind, wf.tmp, h1', h3']

/-- an OSError at any file-system call of the rewrite (no space, no permission, name too long,
cross-device rename): the calls before it have been performed — creating the temporary file, some
or all writes, the close — and the replace has not.  In every such state the data file holds its
old content: the (repaired) session stops there with an error and has discarded nothing. -/
theorem c14_rewrite_fault_keeps_old (old : Text) (out : List Text) (cap : Nat) (sameFs : Bool) :
    ∀ s ∈ crashStates (FS.start old cap) (rewriteOps RVariant.repaired sameFs out).dropLast, s = some old := by
  intro s hs
  have hops : (rewriteOps RVariant.repaired sameFs out).dropLast
      = [Op.create .tmp] ++ (out.map Op.write ++ [Op.close]) := by
    have : rewriteOps RVariant.repaired sameFs out
        = ([Op.create .tmp] ++ (out.map Op.write ++ [Op.close])) ++ [Op.rename .tmp .data] := by
      simp [rewriteOps, RVariant.repaired]
    rw [this, List.dropLast_concat]
  rw [hops, mem_crashStates_append] at hs
  have w0 : Writing ((FS.start old cap).run [Op.create .tmp]) old [] :=
    ⟨rfl, rfl, rfl, rfl, [], [], rfl, rfl, rfl⟩
  rcases hs with hs | hs
  · simp only [crashStates, List.mem_cons, List.not_mem_nil, or_false] at hs
    rcases hs with hs | hs <;> (rw [hs]; rfl)
  · rw [mem_crashStates_append] at hs
    obtain ⟨w1, hw⟩ := writing_writes old out _ [] w0
    rcases hs with hs | hs
    · exact hw s hs
    · simp only [List.nil_append] at w1
      have wf := writing_flush w1
      simp only [crashStates, List.mem_cons, List.not_mem_nil, or_false] at hs
      rcases hs with hs | hs
      · rw [hs]; exact w1.content
      · rw [hs]
        simp [FS.content, FS.lookup, FS.apply, wf.data, wf.old]

/-- and when nothing kills it, the data file ends up with the new content -/
theorem c14_rewrite_result (old : Text) (out : List Text) (cap : Nat) (sameFs : Bool) :
    ((FS.start old cap).run (rewriteOps RVariant.repaired sameFs out)).content .data = some out.flatten := by
  have hops : rewriteOps RVariant.repaired sameFs out
      = [Op.create .tmp] ++ (out.map Op.write ++ [Op.close, Op.rename .tmp .data]) := by
    simp [rewriteOps, RVariant.repaired]
  rw [hops, run_append, run_append]
  have w0 : Writing ((FS.start old cap).run [Op.create .tmp]) old [] :=
    ⟨rfl, rfl, rfl, rfl, [], [], rfl, rfl, rfl⟩
  obtain ⟨w1, _⟩ := writing_writes old out _ [] w0
  simp only [List.nil_append] at w1
  generalize ((FS.start old cap).run [Op.create .tmp]).run (out.map Op.write) = fs1 at w1 ⊢
  obtain ⟨disk, buf, h1, h2, h3⟩ := w1.h
  have wf := writing_flush w1
  obtain ⟨disk', buf', h1', h2', h3'⟩ := wf.h
  have hb : buf' = [] := by
    have : (FS.flushH fs1).handle = some (1, []) := by unfold FS.flushH; rw [h2]
    rw [this] at h2'; cases h2'; rfl
  subst hb
  simp only [List.append_nil] at h3'
  simp [FS.run, FS.content, FS.lookup, FS.apply, FS.bind, wf.tmp, h1', h3']

example : crashStates (FS.start "old".toList 4) (rewriteOps RVariant.repaired false ["ab".toList, "cde".toList])
    = [some "old".toList, some "old".toList, some "old".toList, some "old".toList, some "old".toList,
       some "abcde".toList] := by decide

/-- pinned tree, witness 1: a kill between `os.unlink` and `shutil.move` leaves no data file -/
theorem c14_rewrite_atomic_pinned_full_fails :
    ¬ (∀ (old : Text) (out : List Text) (cap : Nat) (sameFs : Bool),
        ∀ s ∈ crashStates (FS.start old cap) (rewriteOps RVariant.pinned sameFs out),
          s = some old ∨ s = some out.flatten) := by
  intro h
  have := h "old".toList ["new".toList] 8 true none (by decide)
  revert this
  decide

/-- pinned tree, witness 2: with the temporary directory on another file system the still open,
unflushed temporary file is copied as it is on disk — the data file ends up empty (and everything
of the other runs is lost), although nothing was killed -/
theorem c14_cross_fs_move_loses_data_pinned :
    ((FS.start "old".toList 8).run (rewriteOps RVariant.pinned false ["new".toList])).content .data = some [] := by
  decide

/-- closing the temporary file before the move (second repair on its own) already gives the
right final content on both placements, but not atomicity -/
theorem c14_close_before_move (sameFs : Bool) :
    ((FS.start "old".toList 8).run (rewriteOps ⟨true, true, false, true⟩ sameFs ["new".toList])).content .data
      = some "new".toList := by
  cases sameFs <;> decide

/-! ## Several data files -/

/-- `rewrite_atomic_multi`: one `-r` over experiments with different data files rewrites each
file on its own (temporary file next to it, closed, `os.replace`).  For every list of old contents,
every list of rewrites (file index, filtered lines), every buffer capacity and a kill after any
prefix of the whole operation sequence: the first `m` files of the sequence hold their new
content and all others their old content — in particular every single file is old or new, never
less, also when the kill falls between two files. -/
theorem c14_rewrite_atomic_multi (olds : List Text) (rws : List (Nat × List Text)) (cap : Nat) :
    ∀ c ∈ mcrashStates (MFS.start olds cap) (multiOps rws),
      (∃ m, m ≤ rws.length ∧ c = switched (olds.map some) (rws.take m))
      ∧ ∀ j, j < olds.length →
          c[j]? = some (some olds[j]!) ∨ ∃ p ∈ rws, p.1 = j ∧ c[j]? = some (some p.2.flatten) := by
  intro c hc
  obtain ⟨m, hm, hcm⟩ := (multi_states rws _ (start_sound olds cap)).1 c hc
  rw [start_contents] at hcm
  refine ⟨⟨m, hm, hcm⟩, fun j hj => ?_⟩
  rcases switched_get (rws.take m) (olds.map some) j with h | ⟨p, hp, hpj, hv⟩
  · left
    rw [hcm, h, List.getElem?_map, List.getElem?_eq_getElem hj]
    simp [getElem!_pos, hj]
  · right
    exact ⟨p, List.mem_of_mem_take hp, hpj, by rw [hcm]; exact hv⟩

/-- and when nothing kills it every rewritten file holds its new content, every other file its old -/
theorem c14_rewrite_result_multi (olds : List Text) (rws : List (Nat × List Text)) (cap : Nat) :
    ((MFS.start olds cap).run (multiOps rws)).contents = switched (olds.map some) rws := by
  rw [(multi_states rws _ (start_sound olds cap)).2, start_contents]

example : mcrashStates (MFS.start ["a".toList, "b".toList, "c".toList] 4)
      (multiOps [(2, ["C".toList]), (0, ["A".toList, "A".toList])])
    = [ [some "a".toList, some "b".toList, some "c".toList], [some "a".toList, some "b".toList, some "c".toList],
        [some "a".toList, some "b".toList, some "c".toList], [some "a".toList, some "b".toList, some "c".toList],
        [some "a".toList, some "b".toList, some "C".toList], [some "a".toList, some "b".toList, some "C".toList],
        [some "a".toList, some "b".toList, some "C".toList], [some "a".toList, some "b".toList, some "C".toList],
        [some "a".toList, some "b".toList, some "C".toList],
        [some "AA".toList, some "b".toList, some "C".toList] ] := by decide

/-! ## `-c` -/

/-- `clean_empties`: truncation empties the configured data file whatever it held, and does not
touch a file behind another name -/
theorem c14_clean_empties (fs : FS) (i j : Nat) (hd : fs.data = some i) (ht : fs.tmp = some j) (hij : i ≠ j)
    (hi : i < fs.inodes.length) :
    (fs.run (cleanOps [.data])).content .data = some [] ∧
    (fs.run (cleanOps [.data])).content .tmp = fs.content .tmp := by
  simp only [cleanOps, List.map_cons, List.map_nil, FS.run, List.foldl_cons, List.foldl_nil, FS.apply, FS.lookup, hd,
    setAt, FS.content, ht]
  constructor
  · rw [List.getElem?_set_self hi]
  · rw [List.getElem?_set_ne hij]

theorem c14_clean_empties_start (old : Text) (cap : Nat) :
    ((FS.start old cap).run (cleanOps [.data])).content .data = some [] := by
  simp [cleanOps, FS.run, FS.apply, FS.lookup, FS.start, setAt, FS.content]

end RB.Rewrite
