/-
C19 — any configuration file is either accepted or rejected with a diagnostic.
Property theorems only.

`compile d cli` is the outcome class of a session for the parsed document `d`
(`yaml.safe_load`) and the command line `cli`, on the repaired tree;
`compileWith false` is the pinned tree, whose `ReBench.run` translated only
ConfigurationError and ValueError (rebench.py:266-274).
-/
import RB.Model.ConfigDoc

namespace RB.ConfigDoc

/-- "it never ends in a traceback" — full statement, for every document and every
command line: the repaired tree translates every exception class that loading,
validating and compiling a configuration can raise (fixes: "report an empty
configuration file as a user error", "report configurations that cannot be compiled
as user errors"). -/
theorem c19_never_crash (d : Doc) (cli : Cli) (e : Exc) : compile d cli ≠ .crash e := by
  unfold compile compileWith
  cases compileCore d cli with
  | ok n => simp
  | error x =>
    have : handled true x = true := by cases x <;> rfl
    simp [this]

/-- so every document is either accepted or rejected with a diagnostic -/
theorem c19_accepted_or_rejected (d : Doc) (cli : Cli) :
    compile d cli = .ok ∨ compile d cli = .uiError := by
  cases h : compile d cli with
  | ok => exact Or.inl rfl
  | uiError => exact Or.inr rfl
  | crash e => exact absurd h (c19_never_crash d cli e)

/-! ### the pinned tree: `never_crash` is false, one witness per class
(each replayed on the real code: `harness/corpus/C19/*.json`) -/

def suiteOk : Doc :=
  .map [(.str "gauge_adapter", .str "Time"), (.str "command", .str "c"), (.str "benchmarks", .list [.str "b1"])]

def suiteWith (extra : List (Doc × Doc)) (benchmarks : Doc) : Doc :=
  .map ([(.str "gauge_adapter", .str "Time"), (.str "command", .str "c"), (.str "benchmarks", benchmarks)] ++ extra)

def docWith (rootExtra : List (Doc × Doc)) (suite executor exp : Doc) : Doc :=
  .map (rootExtra ++
        [ (.str "benchmark_suites", .map [(.str "S1", suite)]),
          (.str "executors", .map [(.str "E1", executor)]),
          (.str "experiments", .map [(.str "X", exp)]) ])

def executorOk : Doc := .map [(.str "executable", .str "x")]
def expOk : Doc := .map [(.str "suites", .list [.str "S1"]), (.str "executions", .list [.str "E1"])]

/-- the base document is schema-valid and accepted: the witnesses below are
one-step mutations of an accepted document -/
theorem c19_base_accepted : schemaOK (docWith [] suiteOk executorOk expOk) = true ∧
    compileWith false (docWith [] suiteOk executorOk expOk) {} = .ok := by decide

/-- empty document → pykwalify CoreError -/
theorem c19_pinned_crash_empty_document : compileWith false .null {} = .crash .coreError := by decide

/-- experiment without `executions` (schema-valid) → TypeError in
`_compile_executors_and_benchmark_suites` -/
theorem c19_pinned_crash_no_executions :
    schemaOK (docWith [] suiteOk executorOk (.map [(.str "suites", .list [.str "S1"])])) = true ∧
    compileWith false (docWith [] suiteOk executorOk (.map [(.str "suites", .list [.str "S1"])])) {}
      = .crash .typeError := by decide

/-- experiment without `suites` → TypeError -/
theorem c19_pinned_crash_no_suites :
    compileWith false (docWith [] suiteOk executorOk (.map [(.str "executions", .list [.str "E1"])])) {}
      = .crash .typeError := by decide

/-- undefined suite → KeyError in `get_suite` -/
theorem c19_pinned_crash_undefined_suite :
    compileWith false (docWith [] suiteOk executorOk
      (.map [(.str "suites", .list [.str "S9"]), (.str "executions", .list [.str "E1"])])) {}
      = .crash .keyError := by decide

/-- two-key benchmark map (schema-valid) → AssertionError in `value_with_optional_details` -/
theorem c19_pinned_crash_two_key_benchmark :
    schemaOK (docWith [] (suiteWith [] (.list [.map [(.str "b1", .map []), (.str "b2", .map [])]])) executorOk expOk) = true ∧
    compileWith false (docWith [] (suiteWith [] (.list [.map [(.str "b1", .map []), (.str "b2", .map [])]])) executorOk expOk) {}
      = .crash .assertionError := by decide

/-- `invocations: ""` → IndexError in `is_marked_important` -/
theorem c19_pinned_crash_invocations_empty_string :
    compileWith false (docWith [(.str "runs", .map [(.str "invocations", .str "")])] suiteOk executorOk expOk) {}
      = .crash .indexError := by decide

/-- `invocations: 2.5` → TypeError in `remove_important` -/
theorem c19_pinned_crash_invocations_float :
    compileWith false (docWith [(.str "runs", .map [(.str "invocations", .float "2.5")])] suiteOk executorOk expOk) {}
      = .crash .typeError := by decide

/-- … but not with `-in N` / `-q`: the override replaces the value before it is looked at -/
example : compileWith false (docWith [(.str "runs", .map [(.str "invocations", .float "2.5")])] suiteOk executorOk expOk)
    { invOverride := true } = .ok := by decide

/-- `cores: ~` on a suite → TypeError in `_compile_runs` -/
theorem c19_pinned_crash_null_variable_list :
    compileWith false (docWith [] (suiteWith [(.str "cores", .null)] (.list [.str "b1"])) executorOk expOk) {}
      = .crash .typeError := by decide

/-- `build: [~]` → TypeError in `BuildCommand.create` -/
theorem c19_pinned_crash_null_build_item :
    compileWith false (docWith [] suiteOk (.map [(.str "executable", .str "x"), (.str "build", .list [.null])]) expOk) {}
      = .crash .typeError := by decide

/-- `action: profile` without a profiler → TypeError (`len(None)`) -/
theorem c19_pinned_crash_profile_without_profiler :
    compileWith false (docWith [] suiteOk executorOk
      (.map [(.str "suites", .list [.str "S1"]), (.str "executions", .list [.str "E1"]), (.str "action", .str "profile")])) {}
      = .crash .typeError := by decide

/-- unknown profiler → NotImplementedError -/
theorem c19_pinned_crash_unknown_profiler :
    compileWith false (docWith [] suiteOk
      (.map [(.str "executable", .str "x"), (.str "profiler", .map [(.str "vtune", .map [])])]) expOk) {}
      = .crash .notImplementedError := by decide

/-- a data file name that is a directory → IsADirectoryError in `_read_start_time` -/
theorem c19_pinned_crash_data_file_directory :
    compileWith false (docWith [(.str "default_data_file", .str "/tmp")] suiteOk executorOk expOk)
      { unreadable := ["/tmp"] } = .crash .osError := by decide

/-- an environment variable needs a value (`nullable: false`, fix "reject an environment
variable without a value in the configuration"): `env: {X: ~}` is rejected by the schema with a
diagnostic on every level, instead of being accepted and ending in a traceback at execution -/
theorem c19_env_value_required :
    schemaOK (docWith [(.str "runs", .map [(.str "env", .map [(.str "X", .null)])])] suiteOk executorOk expOk) = false ∧
    schemaOK (docWith [] (suiteWith [(.str "env", .map [(.str "X", .null)])] (.list [.str "b1"])) executorOk expOk) = false ∧
    schemaOK (docWith [(.str "runs", .map [(.str "env", .map [(.str "X", .str "")])])] suiteOk executorOk expOk) = true ∧
    compile (docWith [(.str "runs", .map [(.str "env", .map [(.str "X", .null)])])] suiteOk executorOk expOk) {} = .uiError := by
  decide

/-- the full statement is false of the pinned tree -/
theorem c19_never_crash_pinned_fails : ∃ d cli e, compileWith false d cli = .crash e :=
  ⟨.null, {}, .coreError, c19_pinned_crash_empty_document⟩

/-- what the pinned tree did guarantee: a document is rejected with a diagnostic or
accepted unless its compilation raises one of the untranslated classes -/
theorem c19_never_crash_partial (d : Doc) (cli : Cli) (e : Exc)
    (h : compileWith false d cli = .crash e) :
    compileCore d cli = .error e ∧ e ≠ .uiError ∧ e ≠ .configurationError ∧ e ≠ .valueError := by
  unfold compileWith at h
  cases hc : compileCore d cli with
  | ok n => simp [hc] at h
  | error x =>
    simp only [hc] at h
    by_cases hx : handled false x = true
    · simp [hx] at h
    · simp [hx] at h
      subst h
      refine ⟨rfl, ?_, ?_, ?_⟩ <;> (intro he; subst he; simp [handled] at hx)

/-- documents that are not schema-valid are rejected with a diagnostic (never accepted,
never a traceback) — on both trees -/
theorem c19_schema_invalid_rejected (r : Bool) (d : Doc) (cli : Cli) (hn : d ≠ .null)
    (h : schemaOK d = false) : compileWith r d cli = .uiError := by
  unfold compileWith compileCore
  cases d <;> simp_all [handled, bind, Except.bind, pure, Except.pure, throw, throwThe, MonadExceptOf.throw]

end RB.ConfigDoc
