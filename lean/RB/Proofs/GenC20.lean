import RB.Gen.DenoiseWrap
import RB.Gen.DenoiseOptions
import RB.Model.Denoise
/-!
# Translation tie for the denoise wrapper (C20)

Generated from the current source: `Executor._construct_cmdline` (the `sudo … denoise … exec -- ` prefix of a
benchmark command), `denoise.py`'s `_exec` (the argv handed to `execvpe` and whether the core set is put into the
environment), the arguments `main_func` passes to `_exec`, and the table of options of `_shell_options`
(`tools/py2lean_fields.py`).

Proved: the generated prefix is the model's `wrap` for every configuration; the generated `_exec` is the model's
`execArgv` / `execCoreSet`; `main_func` hands `_exec` the parsed `use_nice`, `use_shielding` and the remaining
arguments in this order; the flags the model writes (`flagWords`) and reads (`parseFlags`) are the options of the
parser, with the action and destination the model assumes.
Not imported by `RB.lean`: built by the `gen` entry of the obligations.
-/
namespace RB.Denoise
open RB.Py RB.Gen.DenoiseWrap

theorem pystr_nat (n : Nat) : V.pystr (V.int n) = some (V.str (V.natDigits n)) := by
  simp [V.pystr]

theorem add_str (a b : List Char) : V.add (V.str a) (V.str b) = some (V.str (a ++ b)) := rfl

/-- **the generated prefix is the model's `wrap`**: for every configuration, number of cores and command (the env
map is truthy iff it has keys; `cset` is only read when there is one) -/
theorem gen_construct_cmdline_eq_model (c : WrapCfg) (n : Nat) (envV csetV : V) (cmd : Str)
    (hn : c.numCores = V.natDigits n) (henv : envV.truthy = decide (c.envKeys ≠ []))
    (hcset : ∀ p, c.cset = some p → csetV = V.str p) :
    Executor_construct_cmdline (V.int n) envV (V.str (joinWith [','] c.envKeys)) (c.useNice || c.useShielding)
        (V.str c.denoise) c.useNice c.useShielding c.cset.isSome csetV c.profiling (V.str cmd) =
      some (V.str (wrap c cmd)) := by
  obtain ⟨nice, shield, keys, prof, cset, dn, nc⟩ := c
  simp only at hn henv hcset
  subst hn
  cases cset with
  | none =>
    cases nice <;> cases shield <;> cases prof <;> by_cases hk : keys = [] <;>
      simp [Executor_construct_cmdline, wrap, add_str, pystr_nat, henv, hk, sSudo, sPreserve, sWithoutNice,
        sWithoutShielding, sForProfiling, sNumCores, sExec, sDashDash, List.append_assoc]
  | some p =>
    have := hcset p rfl
    subst this
    cases nice <;> cases shield <;> cases prof <;> by_cases hk : keys = [] <;>
      simp [Executor_construct_cmdline, wrap, add_str, pystr_nat, henv, hk, sSudo, sPreserve, sWithoutNice,
        sWithoutShielding, sCsetPath, sForProfiling, sNumCores, sExec, sDashDash, List.append_assoc]

/-- the `cset` the exec side uses: the path handed over, else the one found on the machine -/
def csetOf (f : Flags) (lookup : Option Str) : Option Str :=
  match f.csetPath with | some p => some p | none => lookup

/-- **the generated `_exec` is the model's**: the argv is `execArgv` (its first word is the program), and the core
set is put into the environment exactly when the model says there is one -/
theorem gen_exec_eq_model (f : Flags) (lookup : Option Str) (csetV : V) (cmd : List Str) (n : Nat)
    (hcset : ∀ p, csetOf f lookup = some p → csetV = V.str p) :
    exec (csetOf f lookup).isSome csetV f.useNice f.useShielding (cmd.map V.str) =
      (execArgv f lookup cmd).head?.map fun h =>
        (if (execCoreSet f lookup n).isSome then [Event.set_core_set] else []) ++
          [Event.execvpe (V.str h) ((execArgv f lookup cmd).map V.str)] := by
  obtain ⟨nice, shield, cp, prof⟩ := f
  cases cp with
  | some p =>
    have := hcset p rfl
    subst this
    cases nice <;> cases shield <;> cases cmd <;>
      simp [exec, execArgv, execCoreSet, csetOf, sNice, sNiceArg, sShield, sDashExec, sDashDash]
  | none =>
    cases lookup with
    | some p =>
      have := hcset p rfl
      subst this
      cases nice <;> cases shield <;> cases cmd <;>
        simp [exec, execArgv, execCoreSet, csetOf, sNice, sNiceArg, sShield, sDashExec, sDashDash]
    | none =>
      cases nice <;> cases shield <;> cases cmd <;>
        simp [exec, execArgv, execCoreSet, csetOf, sNice, sNiceArg]

/-- `main_func` hands `_exec` what the parser stored under `use_nice`, `use_shielding`, and the arguments after
`exec --`, in this order -/
theorem gen_exec_arguments (a b : Bool) (r : List V) :
    exec_use_nice a b r = some a ∧ exec_use_shielding a b r = some b ∧ exec_args a b r = some r :=
  ⟨rfl, rfl, rfl⟩

/-! ### the flags -/

def optionOf (flag : String) : Option (String × String × String) :=
  (RB.Gen.DenoiseOptions.denoise_options.find? (fun o => o.1 == flag)).map (·.2)

/-- the flags the model writes and reads are options of `denoise.py`'s parser, with the action, default and
destination the model assumes: `--without-nice` / `--without-shielding` clear `use_nice` / `use_shielding` (default
true), `--for-profiling` sets `for_profiling` (default false), `--cset-path` and `--num-cores` take a value -/
theorem gen_flags_are_options :
    optionOf (String.ofList sWithoutNice) = some ("store_false", "True", "use_nice") ∧
    optionOf (String.ofList sWithoutShielding) = some ("store_false", "True", "use_shielding") ∧
    optionOf (String.ofList sForProfiling) = some ("store_true", "False", "for_profiling") ∧
    optionOf (String.ofList sCsetPath) = some ("store", "None", "cset_path") ∧
    optionOf (String.ofList sNumCores) = some ("store", "None", "num_cores") ∧
    optionOf "command" = some ("store", "None", "command") := by
  decide +kernel

/-- the model's parser reads each of these flags as the option table says (one flag at a time, from the defaults of
the table) -/
theorem gen_parse_single_flags (p : Str) :
    parseFlags [sWithoutNice] {} = { useNice := false } ∧
    parseFlags [sWithoutShielding] {} = { useShielding := false } ∧
    parseFlags [sForProfiling] {} = { profiling := true } ∧
    parseFlags [sCsetPath, p] {} = { csetPath := some p } ∧
    ({} : Flags) = { useNice := true, useShielding := true, csetPath := none, profiling := false } := by
  refine ⟨by decide, by decide, by decide, ?_, rfl⟩
  simp [parseFlags]

/-- every word `flagWords` writes is an option of the parser or the value of `--cset-path` -/
theorem gen_flag_words_known (c : WrapCfg) :
    ∀ w ∈ flagWords c, w = sWithoutNice ∨ w = sWithoutShielding ∨ w = sForProfiling ∨ w = sCsetPath ∨ c.cset = some w := by
  obtain ⟨nice, shield, keys, prof, cset, dn, nc⟩ := c
  intro w hw
  cases nice <;> cases shield <;> cases prof <;> cases cset <;> simp [flagWords] at hw <;> grind

end RB.Denoise
