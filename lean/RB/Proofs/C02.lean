/-
C02 — effective settings follow the documented priority, `!` marks and CLI
overrides.  Property theorems only; helpers are in `Lemmas/Settings.lean`.
Lists of levels are ordered from lowest to highest priority and may have any
length; the code instantiates them with the seven levels
machine, runs, experiment, execution entry, executor, suite, benchmark
(`c02_levels_*`).
-/
import RB.Proofs.Lemmas.Settings

namespace RB.Settings

/-- Closed form of the chain for invocations / iterations / warmup: the
highest-priority marked value if there is one, else the highest-priority
defined value, else the default. -/
theorem c02_chain_spec (ls : List Raw) (d : Raw) (hd : d.isMarked = false) :
    chain ls d =
      match ls.reverse.find? Raw.isMarked with
      | some v => v
      | none => (ls.reverse.find? Raw.isDefined).getD d := by
  rw [chain_spec_gen ls d]
  cases h : List.find? Raw.isMarked ls.reverse <;> simp [hd]

/-- "a value marked with '!' beats every unmarked value (among marked values
the highest-priority one wins)": a marked value at some level wins whatever
the lower levels say, provided no higher level is marked. -/
theorem c02_marked_wins (lo hi : List Raw) (n : Nat) (d : Raw)
    (h : ∀ r ∈ hi, r.isMarked = false) :
    chain (lo ++ .marked n :: hi) d = .marked n := by
  rw [chain_append, chain_cons]
  have : preferImportant (.marked n) (chain lo d) = .marked n := rfl
  rw [this]; exact chain_marked_stays hi n h

/-- "takes the value of the highest-priority level that defines it": with no
mark anywhere below, an unmarked value wins if every higher level is absent. -/
theorem c02_plain_wins (lo hi : List Raw) (n : Nat) (d : Raw) (hd : d.isMarked = false)
    (hlo : ∀ r ∈ lo, r.isMarked = false) (hhi : ∀ r ∈ hi, r = .absent) :
    chain (lo ++ .plain n :: hi) d = .plain n := by
  rw [chain_append, chain_cons, chain_absent hi _ hhi]
  have := chain_unmarked lo d hd hlo
  simp [preferImportant, this]

/-- nothing defined anywhere: the default -/
theorem c02_default (ls : List Raw) (d : Raw) (h : ∀ r ∈ ls, r = .absent) : chain ls d = d :=
  chain_absent ls d h

/-- the command-line options (-in / -it / -q / --setup-only) beat everything -/
theorem c02_cli_override (o : Nat) (ls : List Raw) (d : Raw) : effective (some o) ls d = some o := rfl

/-- without an override the mark is stripped from the chained value -/
theorem c02_no_override (ls : List Raw) (d : Raw) :
    effective none ls d = removeImportant (chain ls d) := rfl

/-- every other run detail and every variable list: the highest-priority
level that defines it, whatever lower levels say -/
theorem c02_plain_setting_wins (lo hi : List (Option Nat)) (v : Nat) (d : Option Nat)
    (hhi : ∀ r ∈ hi, r = none) :
    chainPlain (lo ++ some v :: hi) d = some v := by
  rw [chainPlain_append]
  have : chainPlain (some v :: hi) (chainPlain lo d) = chainPlain hi (some v) := rfl
  rw [this, chainPlain_none hi _ hhi]

theorem c02_plain_setting_default (ls : List (Option Nat)) (d : Option Nat)
    (h : ∀ r ∈ ls, r = none) : chainPlain ls d = d := chainPlain_none ls d h

/-- the configuration compiler hands the seven levels to the chain in the
documented order (machine lowest … benchmark highest) -/
theorem c02_levels_invocations (c : Config) (dflt : Details) :
    (compileRunDetails c dflt).invocations = chain (c.levels.map (·.invocations)) dflt.invocations := rfl
theorem c02_levels_iterations (c : Config) (dflt : Details) :
    (compileRunDetails c dflt).iterations = chain (c.levels.map (·.iterations)) dflt.iterations := rfl
theorem c02_levels_warmup (c : Config) (dflt : Details) :
    (compileRunDetails c dflt).warmup = chain (c.levels.map (·.warmup)) dflt.warmup := rfl

theorem c02_levels_plain (c : Config) (dflt : Details) :
    let r := compileRunDetails c dflt
    r.minIterationTime = chainPlain (c.levels.map (·.minIterationTime)) dflt.minIterationTime ∧
    r.maxInvocationTime = chainPlain (c.levels.map (·.maxInvocationTime)) dflt.maxInvocationTime ∧
    r.ignoreTimeouts = chainPlain (c.levels.map (·.ignoreTimeouts)) dflt.ignoreTimeouts ∧
    r.retriesAfterFailure = chainPlain (c.levels.map (·.retriesAfterFailure)) dflt.retriesAfterFailure ∧
    r.executeExclusively = chainPlain (c.levels.map (·.executeExclusively)) dflt.executeExclusively ∧
    r.env = chainPlain (c.levels.map (·.env)) dflt.env := by
  refine ⟨rfl, rfl, rfl, rfl, rfl, rfl⟩

/-- variable lists have no global-runs level -/
theorem c02_levels_vars (c : Config) (dflt : Vars) :
    let r := compileRunVars c dflt
    r.inputSizes = chainPlain (c.varLevels.map (·.inputSizes)) dflt.inputSizes ∧
    r.cores = chainPlain (c.varLevels.map (·.cores)) dflt.cores ∧
    r.variableValues = chainPlain (c.varLevels.map (·.variableValues)) dflt.variableValues ∧
    r.tags = chainPlain (c.varLevels.map (·.tags)) dflt.tags := by
  refine ⟨rfl, rfl, rfl, rfl⟩

/-- end to end: what a run uses for invocations / iterations / warmup -/
theorem c02_compileRun (c : Config) (dD : Details) (dV : Vars) (io ito : Option Nat) :
    let e := compileRun c dD dV io ito
    e.invocations = effective io (c.levels.map (·.invocations)) dD.invocations ∧
    e.iterations = effective ito (c.levels.map (·.iterations)) dD.iterations ∧
    e.warmup = effective none (c.levels.map (·.warmup)) dD.warmup := by
  refine ⟨rfl, rfl, rfl⟩

-- non-vacuity / concrete instances of the hypotheses
example : chain [.plain 3, .marked 5, .plain 7, .absent] (.plain 1) = .marked 5 :=
  c02_marked_wins [.plain 3] [.plain 7, .absent] 5 (.plain 1) (by decide)
example : chain [.marked 2, .marked 5, .plain 7] (.plain 1) = .marked 5 := by decide
example : chain [.plain 3, .absent, .plain 7, .absent] (.plain 1) = .plain 7 :=
  c02_plain_wins [.plain 3, .absent] [.absent] 7 (.plain 1) rfl (by decide) (by decide)
example : effective (some 1) [.marked 9, .plain 4] (.plain 1) = some 1 := rfl
example : effective none [.absent, .absent] .absent = none := rfl  -- warmup nowhere configured: None

end RB.Settings
