import RB.Gen.KillDecision
import RB.Model.Kill
/-!
# Translation tie for the kill decision (C16)

`RB.Gen.KillDecision` is generated from the current source by `tools/py2lean_fn.py`:
`subprocess_with_timeout._wait_for_completion` (was the wait interrupted, is the child still running, is there a time
limit: kill or not, and what is returned or raised), `run` (the bookkeeping of the owner's `RunningProcesses`), and
`subprocess_kill._kill` / `kill_process` (which processes get which signal, in which order, and what is returned).
The list `_get_process_children(pid)` is an input of `kill_process`: the recursion through `pgrep` has no measure to
recurse on and is left to C16's correspondence tie (`c16_collect_*` are about the model's `descendants`).

Proved here: the decision is the model's `kills` / `result` for every situation; `kill_process` signals exactly the
model's `killList`, root first, each process once with SIGKILL (or through the sudo helper), then joins the worker;
together they give the model's `runTrace`; and `run` discards the process from its owner exactly once, after the wait,
whether or not the wait raised, and a stopped owner always means KeyboardInterrupt.
Not imported by `RB.lean`: built by the `gen` entry of the obligations.
-/
namespace RB.Kill
open RB.Py RB.Gen.KillDecision

theorem pyeq_int (a b : Int) : V.pyeq (V.int a) (V.int b) = decide (a = b) := by
  unfold V.pyeq
  by_cases h : a = b
  · subst h; simp
  · simp [h]

theorem truthy_true : V.truthy (V.bool true) = true := rfl
theorem truthy_false : V.truthy (V.bool false) = false := rfl

/-- how the function ends, as an event -/
def endEvent : Result → Event
  | .returned => .return_result
  | .timedOut => .return_kill_result
  | .interrupted => .raise_interrupt
  | .raised => .raise_worker_exception

/-- what `_wait_for_completion` reads of the worker thread stands for the situation `s` -/
structure Reads (s : Situation) (ident returncode exc : V) : Prop where
  running : ((!ident.isNone) && returncode.isNone && exc.isNone) = s.childRunning
  raised : exc.truthy = s.workerRaised

/-- **the translated decision is the model's**: `kill_process` is called exactly when the model kills, and the
function ends as the model's `result` says, for every situation -/
theorem gen_wait_eq_model (s : Situation) (ident returncode exc : V) (h : Reads s ident returncode exc) :
    wait_for_completion ident returncode exc s.aliveReported (wasInterrupted s) (V.int s.timeout) =
      some ((if kills s then [Event.kill_process] else []) ++ [endEvent (result s)]) := by
  obtain ⟨hr, he⟩ := h
  have hr' : (V.isNone returncode && V.isNone exc && !V.isNone ident) = s.childRunning := by
    rw [← hr]; cases V.isNone ident <;> cases V.isNone returncode <;> cases V.isNone exc <;> rfl
  cases hj : s.joinEnd <;> cases ha : s.aliveReported <;> cases hc : s.childRunning <;> cases hw : s.workerRaised <;>
    by_cases ht : s.timeout = -1 <;>
    simp [wait_for_completion, kills, result, killsWith, resultWith, stillRunning, wasInterrupted, endEvent,
      pyeq_int, truthy_true, truthy_false, hj, ha, hc, hw, ht, hr, he] <;> simp_all

/-- `-1` disables the limit and a finished child is never killed, as translated -/
theorem gen_wait_no_kill (ident returncode exc : V) (alive : Bool) (evs : List Event)
    (h : wait_for_completion ident returncode exc alive false (V.int (-1)) = some evs) :
    Event.kill_process ∉ evs := by
  cases alive <;> cases he : V.truthy exc <;>
    simp [wait_for_completion, truthy_true, truthy_false, pyeq_int, he] at h <;> subst h <;> simp

/-- an interrupt is always re-raised, killed child or not -/
theorem gen_wait_interrupt_reraised (ident returncode exc : V) (alive : Bool) (timeout : V) (evs : List Event)
    (h : wait_for_completion ident returncode exc alive true timeout = some evs) :
    evs.getLast? = some Event.raise_interrupt := by
  cases h1 : V.isNone ident <;> cases h2 : V.isNone returncode <;> cases h3 : V.isNone exc <;>
    cases h4 : V.pyeq timeout (V.int (-1)) <;>
    simp [wait_for_completion, truthy_true, truthy_false, h1, h2, h3, h4] at h <;> subst h <;> rfl

/-! ### which processes are signalled -/

/-- the signal one process gets: SIGKILL (9), or the request to the sudo helper -/
def killEvent (sudo : Bool) (p : V) : Event := if sudo then .sudo_kill p else .kill p (V.int 9)

theorem forEach_kill (sudo gone : Bool) (l : List V) (tr : List Event) :
    forEachM l tr (fun st proc_id =>
        let trace := st
        (kill sudo gone proc_id).bind fun t1 =>
        let trace := trace ++ t1
        some trace) = some (tr ++ l.map (killEvent sudo)) := by
  induction l generalizing tr with
  | nil => simp [forEachM]
  | cons p r ih =>
    cases sudo <;> cases gone <;> simp [forEachM, kill, killEvent] at ih ⊢ <;> rw [ih] <;> simp

def pidV (p : Nat) : V := V.int p

/-- **`kill_process` signals the model's kill list**: the process itself first, then (if `recursively`) the
discovered descendants in the order they were discovered, each exactly once, all with the same signal -- also when
a process is already gone (`ProcessLookupError`), which stops nothing; then the worker is joined (if there is one)
and the time-out result returned -/
theorem gen_kill_list (t : Tree) (recursively hasThread sudo gone : Bool) :
    kill_process ((descendants t).map pidV) hasThread sudo gone (pidV t.pid) recursively =
      some (((killList t recursively).map pidV).map (killEvent sudo) ++
        (if hasThread then [Event.join_worker, Event.return_timeout_with_output]
         else [Event.return_timeout_without_output])) := by
  cases recursively <;> cases hasThread <;>
    simp [kill_process, forEach_kill, killList, List.map_append]

/-- the model's view of an event of the translated functions (the return inside `kill_process` is not an event of
`run`) -/
def toModel : Event → List Ev
  | .kill (V.int p) _ => [.kill p.toNat]
  | .sudo_kill (V.int p) => [.kill p.toNat]
  | .join_worker => [.joinWorker]
  | .raise_interrupt => [.raiseInterrupt]
  | .raise_worker_exception => [.raiseWorkerExc]
  | .return_kill_result => [.ret true]
  | .return_result => [.ret false]
  | _ => []

/-- the events of `_wait_for_completion` with the call of `kill_process` replaced by its own events -/
def spliced (outer inner : List Event) : List Event :=
  outer.flatMap (fun e => if e = .kill_process then inner else [e])

theorem toModel_kills (sudo : Bool) (l : List Nat) :
    ((l.map pidV).map (killEvent sudo)).flatMap toModel = l.map Ev.kill := by
  induction l with
  | nil => rfl
  | cons p r ih =>
    simp only [List.map_cons, List.flatMap_cons, ih]
    cases sudo <;> simp [killEvent, pidV, toModel]

/-- **the two together are the model's trace of `run`** after the join: the kill list (if the model kills), the
join of the worker, then the return or raise -/
theorem gen_run_trace_eq_model (s : Situation) (t : Tree) (killTree sudo gone : Bool) (ident returncode exc : V)
    (h : Reads s ident returncode exc) :
    ∃ outer inner,
      wait_for_completion ident returncode exc s.aliveReported (wasInterrupted s) (V.int s.timeout) = some outer ∧
      kill_process ((descendants t).map pidV) true sudo gone (pidV t.pid) killTree = some inner ∧
      (spliced outer inner).flatMap toModel = runTrace s t killTree := by
  refine ⟨_, _, gen_wait_eq_model s ident returncode exc h, gen_kill_list t killTree true sudo gone, ?_⟩
  have hk := toModel_kills sudo (killList t killTree)
  simp only [List.map_map] at hk
  unfold runTrace runTraceWith
  change _ = (if kills s = true then _ else _) ++ [endEv (result s)]
  cases hkl : kills s <;> cases hres : result s <;>
    simp [spliced, hk, toModel, endEvent, endEv, List.flatMap_append]

/-! ### the owner's bookkeeping in `run` -/

/-- with an owner (`running`), the process is discarded from it exactly once and after the wait, whether the wait
returned or raised; what the wait raised propagates -/
theorem gen_run_discards_once (wasStopped waitRaises : Bool) (evs : List Event)
    (h : run false wasStopped waitRaises = some evs) :
    evs.count .discard = 1 ∧ evs.take 2 = [.wait_for_completion, .discard] ∧
    (waitRaises = true → evs = [.wait_for_completion, .discard, .propagate]) := by
  cases wasStopped <;> cases waitRaises <;> simp [run] at h <;> subst h <;> decide

/-- a process that ended because its owner is stopping is never a result: KeyboardInterrupt, whatever the wait
returned -/
theorem gen_run_stopped_is_interrupt :
    run false true false = some [.wait_for_completion, .discard, .raise_interrupt] ∧
    run false false false = some [.wait_for_completion, .discard, .return_result] ∧
    (∀ a b, run true a b = some [.wait_for_completion]) := by
  refine ⟨rfl, rfl, ?_⟩
  intro a b; rfl

end RB.Kill
