import RB.Gen.BuildFlags
import RB.Model.Builds
/-!
# Translation tie for the build bookkeeping (C13)

`RB.Gen.BuildFlags` is generated from the current source by `tools/py2lean_fn.py`: the two flags of
`BuildCommand` (`__init__`, `mark_succeeded`, `mark_failed`) and the events of `Executor._process_builds` /
`_execute_build_cmd` as a function of what they read (is there a build, its two flags, the `OSError` / return code
of the build script): taking the build lock, running the script, marking the build, failing the run, raising
`FailedBuilding`.  The region of `with self._build_lock:` extends to the end of the function (the translator refuses
anything else), so every event after `acquire_build_lock` happens under the lock.

Proved here: the translated decision is the model's `processBuild` (repaired tree), flag by flag; the flags are only
read again, the script only run and the build only marked under the lock; a build is marked exactly once per
script run, failed exactly when the run is failed and `FailedBuilding` raised; the flag methods set one flag each.
Not imported by `RB.lean`: built by the `gen` entry of the obligations.
-/
namespace RB.Builds
open RB.Py RB.Gen.BuildFlags

theorem pyeq_int0 (a : Int) : V.pyeq (V.int a) (V.int 0) = decide (a = 0) := by
  unfold V.pyeq
  by_cases h : a = 0
  · subst h; simp
  · simp [h]

/-- what `_execute_build_cmd` sees of the result of the build script: the return code, and whether starting
`/bin/sh` raised `OSError` -/
def resInputs : BRes → Int → V × Bool
  | .ok, _ => (V.int 0, false)
  | .fail, rc => (V.int rc, false)
  | .oserr, _ => (V.none, true)

/-- the translated `_process_builds` on the model's state: a build, its flags as the model keeps them -/
def genProcess (c : Cfg) (st : St) (b : Build) (rc : Int) : Option (List Event) :=
  Executor_process_builds true (decide (b ∈ st.built)) (decide (b ∈ st.failed)) true
    (resInputs (c.res b) rc).1 (resInputs (c.res b) rc).2

/-- **the translated bookkeeping is the model's** (repaired tree: an `OSError` raises `FailedBuilding` too): the
build is added to the built / failed ones exactly when the events mark it so, the run is failed exactly when
`fail_immediately` is among the events, `FailedBuilding` is raised exactly when the model says so, and the script
is attempted (the model's trace grows by its start and end) exactly when the build is marked -/
theorem gen_process_build_eq_model (c : Cfg) (st : St) (run : Run) (b : Build) (rc : Int) (hrc : rc ≠ 0)
    (hc : c.oserrRaises = true) :
    ∃ evs, genProcess c st b rc = some evs ∧
      (processBuild c st run (some b)).2 = evs.contains .raise_failed_building ∧
      (processBuild c st run (some b)).1.built = (if evs.contains .mark_succeeded then b :: st.built else st.built) ∧
      (processBuild c st run (some b)).1.failed = (if evs.contains .mark_failed then b :: st.failed else st.failed) ∧
      (processBuild c st run (some b)).1.failImm =
        (if evs.contains .fail_immediately then run.id :: st.failImm else st.failImm) ∧
      (processBuild c st run (some b)).1.trace.length =
        st.trace.length + (if evs.contains .mark_succeeded || evs.contains .mark_failed then 2 else 0) := by
  unfold genProcess
  by_cases h1 : b ∈ st.built
  · exact ⟨[], by simp [Executor_process_builds, h1], by simp [processBuild, h1]⟩
  · by_cases h2 : b ∈ st.failed
    · exact ⟨[.acquire_build_lock, .fail_immediately, .raise_failed_building],
        by simp [Executor_process_builds, h1, h2], by simp [processBuild, h1, h2]⟩
    · cases hr : c.res b with
      | ok =>
        exact ⟨[.acquire_build_lock, .run_build_script, .mark_succeeded],
          by simp [Executor_process_builds, Executor_execute_build_cmd, resInputs, h1, h2, pyeq_int0],
          by simp [processBuild, h1, h2, hr, St.emit]⟩
      | fail =>
        exact ⟨[.acquire_build_lock, .run_build_script, .mark_failed, .fail_immediately, .report_run_failed,
            .raise_failed_building],
          by simp [Executor_process_builds, Executor_execute_build_cmd, resInputs, h1, h2, pyeq_int0, hrc],
          by simp [processBuild, h1, h2, hr, St.emit]⟩
      | oserr =>
        exact ⟨[.acquire_build_lock, .mark_failed, .fail_immediately, .report_run_failed, .raise_failed_building],
          by simp [Executor_process_builds, Executor_execute_build_cmd, resInputs, h1, h2],
          by simp [processBuild, h1, h2, hr, hc, St.emit]⟩

/-- no build, or a build that is built: nothing happens, and the lock is not even taken -/
theorem gen_built_is_noop (hb ib bf ls oe : Bool) (rc : V) (h : hb = false ∨ ib = true) :
    Executor_process_builds hb ib bf ls rc oe = some [] := by
  rcases h with h | h <;> subst h <;> simp [Executor_process_builds]

/-- **everything else happens under the lock**: when there is a build that is not built, the first event is
`acquire_build_lock` -- the failed flag is read, the script run and the build marked after it (and the lock's region
is the rest of the function) -/
theorem gen_lock_first (bf ls oe : Bool) (rc : V) (evs : List Event)
    (h : Executor_process_builds true false bf ls rc oe = some evs) :
    evs.head? = some .acquire_build_lock ∧ (evs.drop 1).all (· != .acquire_build_lock) = true := by
  cases bf <;> cases ls <;> cases oe <;> by_cases h0 : V.pyeq rc (V.int 0) = true <;>
    simp [Executor_process_builds, Executor_execute_build_cmd, h0] at h <;> subst h <;> decide

/-- a build known to have failed is not run again: the run is failed and `FailedBuilding` raised -/
theorem gen_failed_build_not_rerun (ls oe : Bool) (rc : V) :
    Executor_process_builds true false true ls rc oe =
      some [.acquire_build_lock, .fail_immediately, .raise_failed_building] := by
  simp [Executor_process_builds]

/-- running the script marks the build exactly once, succeeded or failed; it is marked failed exactly when the
run is failed, the failure reported and `FailedBuilding` raised -/
theorem gen_marks_once (rc : V) (oe : Bool) (evs : List Event)
    (h : Executor_execute_build_cmd true rc oe = some evs) :
    evs.count .mark_succeeded + evs.count .mark_failed = 1 ∧
    (evs.contains .mark_failed = evs.contains .fail_immediately) ∧
    (evs.contains .mark_failed = evs.contains .report_run_failed) ∧
    (evs.contains .mark_failed = evs.contains .raise_failed_building) ∧
    (evs.contains .mark_succeeded = (!oe && V.pyeq rc (V.int 0))) := by
  cases oe <;> by_cases h0 : V.pyeq rc (V.int 0) = true <;>
    simp [Executor_execute_build_cmd, h0] at h <;> subst h <;> simp [h0] <;> decide

/-- the flags of a `BuildCommand`: both clear at first; `mark_succeeded` sets `is_built` and nothing else,
`mark_failed` sets `build_failed` and nothing else -/
theorem gen_flags (cmd loc : V) (b : BuildCommand) :
    BuildCommand_init cmd loc = some { command := cmd, location := loc, is_built := false, build_failed := false } ∧
    BuildCommand_mark_succeeded b = some { b with is_built := true } ∧
    BuildCommand_mark_failed b = some { b with build_failed := true } :=
  ⟨rfl, rfl, rfl⟩

end RB.Builds
