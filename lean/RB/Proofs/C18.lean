/-
C18 — the final report shows every run once with its true sample count and mean.
Property theorems only; helper lemmas are in `RB/Proofs/Lemmas/Report.lean`.
All statements are for every list of runs (any size, any identifying strings,
any samples); `csFinal` follows the **repaired** Codespeed reporter,
`csFinalPinned` is the pinned tree.
-/
import RB.Proofs.Lemmas.Report

namespace RB.Report

/-- the rows before column compaction: one full row per run, in table order -/
def fullRows (rs : List Run) : List (List Cell) := (sortedRuns rs).map cells

/-- is column `i` still a table column? (all columns for at most 4 rows) -/
def keptAt (rs : List Run) (i : Nat) : Bool :=
  decide (rs.length ≤ 4) || (i == colNames.length - 1 || !(uniformAt i (fullRows rs)))

theorem fullRows_length (rs : List Run) : (fullRows rs).length = rs.length := by
  simp [fullRows, sortedRuns, (List.mergeSort_perm rs keyLe).length_eq]

/-! ### "lists every selected run exactly once" -/

/-- the table's rows are the rows of a permutation of the selected runs: each run
exactly once (projected to the columns that stay), nothing else -/
theorem c18_rows_perm (rs : List Run) :
    (sortedRuns rs).Perm rs ∧ (table rs).rows.length = rs.length ∧
    ∃ project : List Cell → List Cell, (table rs).rows = (sortedRuns rs).map (fun r => project (cells r)) := by
  refine ⟨List.mergeSort_perm rs keyLe, ?_, ?_⟩
  · have := fullRows_length rs
    simp only [fullRows] at this
    simp only [table]
    split <;> simp [sortedRuns, (List.mergeSort_perm rs keyLe).length_eq]
  · simp only [table]
    split
    · exact ⟨id, by simp⟩
    · exact ⟨filterMask (mask ((sortedRuns rs).map cells)), by simp⟩

/-- the rows are in non-decreasing order of the sort key (suite, executor, extra args,
cores, input size, variable, tag, machine), compared as Python compares the key
tuples: lexicographically, strings by code point -/
theorem c18_rows_sorted (rs : List Run) :
    (sortedRuns rs).Pairwise (fun a b => sortKey a ≤ sortKey b) := by
  have h := List.pairwise_mergeSort (le := keyLe) keyLe_trans keyLe_total rs
  exact h.imp (fun hab => (keyLe_iff _ _).mp hab)

/-- … hence no later row has a strictly smaller key -/
theorem c18_rows_sorted_lt (rs : List Run) :
    (sortedRuns rs).Pairwise (fun a b => ¬ sortKey b < sortKey a) :=
  (c18_rows_sorted rs).imp (fun h => List.not_lt.mpr h)

/-- the sort is stable (`sorted` is): two runs whose keys are in order keep the order in
which the run set was iterated — in particular runs that differ only in the benchmark name -/
theorem c18_rows_stable (rs : List Run) (a b : Run) (hab : sortKey a ≤ sortKey b)
    (h : [a, b].Sublist rs) : [a, b].Sublist (sortedRuns rs) :=
  List.pair_sublist_mergeSort keyLe_trans keyLe_total ((keyLe_iff a b).mpr hab) h

example : sortKey ⟨["B", "E", "S", "", "10", "", "", "", ""], [], false⟩
    ≤ sortKey ⟨["A", "E", "S", "", "2", "", "", "", ""], [], false⟩ := by decide

/-! ### "with the number of non-warm-up data points available for it and their rounded mean, or 'Failed'" -/

/-- the `#Samples` cell is the number of samples; the `Mean (ms)` cell is `Failed`
when there are none, otherwise the textbook mean Σ/n rounded to the nearest integer -/
theorem c18_cells_correct (r : Run) :
    samplesCell r = .num r.samples.length ∧
    meanCell r = (if r.samples = [] then .failed else .num (roundHalfEven (Stats.tmean r.samples))) := by
  have hn : (stats r).n = r.samples.length := Stats.c15_count r.samples
  refine ⟨by simp [samplesCell, hn], ?_⟩
  unfold meanCell
  rw [hn]
  by_cases h : r.samples = []
  · simp [h]
  · have : r.samples.length ≠ 0 := by simpa using h
    simp only [this, h, if_false]
    rw [show (stats r).mean = Stats.tmean r.samples from Stats.c15_mean r.samples h]

/-- the two cells sit at positions 9 and 10 of a run's row, after its nine identifying strings -/
theorem c18_cells_position (r : Run) (h : r.ident.length = 9) :
    (cells r)[9]? = some (samplesCell r) ∧ (cells r)[10]? = some (meanCell r) ∧
    ∀ i, i < 9 → (cells r)[i]? = (r.ident[i]?).map .str := by
  refine ⟨?_, ?_, ?_⟩
  · simp [cells, h]
  · simp [cells, h]
  · intro i hi
    simp [cells, List.getElem?_append, h, hi]

/-- rounding is to a nearest integer (distance at most 1/2), and an exact tie goes to the even one -/
theorem c18_round_nearest (q : Rat) :
    q - 1 / 2 ≤ (roundHalfEven q : Rat) ∧ (roundHalfEven q : Rat) ≤ q + 1 / 2 ∧
    ((roundHalfEven q : Rat) = q + 1 / 2 ∨ (roundHalfEven q : Rat) = q - 1 / 2 → roundHalfEven q % 2 = 0) := by
  have hf := Rat.floor_le q
  have hl := Rat.lt_floor_add_one q
  have hl' : q < (q.floor : Rat) + 1 := by simpa using hl
  refine ⟨?_, ?_, ?_⟩
  · rcases round_cases q with ⟨h, hb⟩ | ⟨h, hb⟩
    · rw [h]; linarith
    · rw [h]; push_cast; linarith
  · rcases round_cases q with ⟨h, hb⟩ | ⟨h, hb⟩
    · rw [h]; linarith
    · rw [h]; push_cast; linarith
  · intro htie
    have hhalf : q - (q.floor : Rat) = 1 / 2 := by
      rcases round_cases q with ⟨h, hb⟩ | ⟨h, hb⟩
      · rw [h] at htie
        rcases htie with ht | ht
        · linarith
        · linarith
      · rw [h] at htie
        push_cast at htie
        rcases htie with ht | ht
        · linarith
        · linarith
    unfold roundHalfEven lessHalf moreHalf
    simp only [hhalf]
    have h1 : ¬ ((1 : Rat) / 2 < 1 / 2) := lt_irrefl _
    simp only [h1, decide_false, Bool.false_eq_true, if_false]
    by_cases h3 : q.floor % 2 = 0
    · simp [h3]
    · simp only [h3, if_false]
      omega

example : roundHalfEven (5 / 2) = 2 := by decide +kernel
example : roundHalfEven (7 / 2) = 4 := by decide +kernel
example : roundHalfEven (-5 / 2) = -2 := by decide +kernel
example : roundHalfEven (249999 / 100000) = 2 := by decide +kernel

/-! ### "a column whose value is identical for all runs is moved to a separate list instead of being dropped" -/

/-- every expected column is either still a table column — then every row shows
the run's own value in it — or it is a summary entry, and then every run has
exactly that value.  Nothing is dropped, for every set of well-formed runs. -/
theorem c18_columns_moved_not_dropped (rs : List Run) (hw : ∀ r ∈ rs, r.ident.length = 9)
    (i : Nat) (hi : i < colNames.length) :
    (keptAt rs i = true ∧ ∃ j : Nat, (table rs).cols[j]? = colNames[i]? ∧
        ∀ k : Nat, ((table rs).rows[k]?.bind (fun (row : List Cell) => row[j]?)) =
          ((fullRows rs)[k]?.bind (fun (row : List Cell) => row[i]?))) ∨
    (keptAt rs i = false ∧ ∃ c, (colNames[i], c) ∈ (table rs).summary ∧
        ∀ row ∈ fullRows rs, row[i]? = some c) := by
  have hlen := fullRows_length rs
  by_cases hsmall : rs.length ≤ 4
  · left
    refine ⟨by simp [keptAt, hsmall], i, ?_, ?_⟩
    · simp [table, fullRows] at hlen ⊢
      simp [hlen, hsmall]
    · intro k
      simp [table, fullRows] at hlen ⊢
      simp [hlen, hsmall]
  · have htab : table rs = ⟨filterMask (mask (fullRows rs)) colNames,
        (fullRows rs).map (filterMask (mask (fullRows rs))),
        summaryOf (mask (fullRows rs)) colNames ((fullRows rs).headD [])⟩ := by
      unfold table
      simp only [fullRows] at hlen ⊢
      simp [hlen, hsmall]
    have hm := mask_get (fullRows rs) i hi
    by_cases hk : (i == colNames.length - 1 || !(uniformAt i (fullRows rs))) = true
    · left
      rw [hk] at hm
      refine ⟨by simp [keptAt, hsmall, hk], pos (mask (fullRows rs)) i, ?_, ?_⟩
      · rw [htab]; exact filterMask_get _ _ i hm
      · intro k
        rw [htab]
        simp only [List.getElem?_map]
        cases hrow : (fullRows rs)[k]? with
        | none => simp
        | some row => simpa using filterMask_get _ row i hm
    · right
      have hk' : (i == colNames.length - 1 || !(uniformAt i (fullRows rs))) = false := by simpa using hk
      rw [hk'] at hm
      have huni : uniformAt i (fullRows rs) = true := by
        simp only [Bool.or_eq_false_iff, Bool.not_eq_false'] at hk'
        exact hk'.2
      -- the first full row exists (more than 4 rows) and has 11 cells
      have hne : fullRows rs ≠ [] := by
        intro h; rw [h] at hlen; simp at hlen; omega
      obtain ⟨row0, rest, hrows⟩ := List.exists_cons_of_ne_nil hne
      have hrow0 : row0 ∈ fullRows rs := by rw [hrows]; simp
      have hcell : ∀ row ∈ fullRows rs, row.length = 11 := by
        intro row hrow
        simp only [fullRows, List.mem_map] at hrow
        obtain ⟨r, hr, rfl⟩ := hrow
        have : r ∈ rs := (List.mergeSort_perm rs keyLe).mem_iff.mp hr
        rw [cells_length, hw r this]
      have hi11 : i < 11 := hi
      have h0len := hcell row0 hrow0
      have hc0 : row0[i]? = some (row0[i]'(by omega)) := List.getElem?_eq_getElem (by omega)
      refine ⟨by simp [keptAt, hsmall, hk'], row0[i]'(by omega), ?_, ?_⟩
      · rw [htab]
        refine summaryOf_mem _ _ _ i _ _ hm (List.getElem?_eq_getElem hi).symm.symm ?_
        rw [hrows]; simp [hc0]
      · intro row hrow
        have := uniformAt_spec i (fullRows rs) huni row hrow
        rw [this, hrows]; simp [hc0]

/-- the last column (the mean) is always a table column -/
theorem c18_last_column_kept (rs : List Run) : keptAt rs (colNames.length - 1) = true := by
  simp [keptAt]

/-- at most 4 rows: every column is shown and there is no summary -/
theorem c18_small_table_complete (rs : List Run) (h : rs.length ≤ 4) :
    (table rs).cols = colNames ∧ (table rs).summary = [] ∧ (table rs).rows = fullRows rs := by
  have hlen := fullRows_length rs
  unfold table
  simp only [fullRows] at hlen ⊢
  simp [hlen, h]

-- non-vacuity: six well-formed runs, executor and cores vary, everything else is uniform
example : ∀ r ∈ ([⟨["B", "E1", "S", "", "1", "", "", "", ""], [2, 3], false⟩,
                  ⟨["B", "E2", "S", "", "2", "", "", "", ""], [], true⟩] : List Run), r.ident.length = 9 := by
  decide

/-! ### Codespeed -/

/-- what one entry carries: −1 and nothing else for a failed run; otherwise mean,
variance·n (hence the standard deviation), minimum and maximum of the run's samples -/
theorem c18_codespeed_entry (i : Nat) (r : Run) :
    (r.failed = true → (csEntry i r).value = -1 ∧ (csEntry i r).minV = none ∧
        (csEntry i r).maxV = none ∧ (csEntry i r).m2n = none) ∧
    (r.failed = false → r.samples ≠ [] →
        (csEntry i r).value = Stats.tmean r.samples ∧
        (csEntry i r).m2n = some (Stats.tm2 r.samples, r.samples.length) ∧
        (∃ mn, (csEntry i r).minV = some mn ∧ mn ∈ r.samples ∧ ∀ y ∈ r.samples, mn ≤ y) ∧
        (∃ mx, (csEntry i r).maxV = some mx ∧ mx ∈ r.samples ∧ ∀ y ∈ r.samples, y ≤ mx)) := by
  constructor
  · intro hf; simp [csEntry, hf]
  · intro hf hne
    simp only [csEntry, hf, Bool.false_eq_true, if_false, stats]
    refine ⟨Stats.c15_mean _ hne, ?_, ?_, ?_⟩
    · rw [Stats.c15_m2 _ hne, Stats.c15_count]
    · exact ⟨_, rfl, Stats.c15_min _ hne⟩
    · exact ⟨_, rfl, Stats.c15_max _ hne⟩

/-- final (non-incremental) mode: exactly one request, with exactly one entry per
run, in run order — for every number of runs, including one -/
theorem c18_codespeed_final (rs : List Run) (ok : Bool) :
    ∃ q, csFinal rs ok = .ok [q] ∧ q.entries.length = rs.length ∧
      ∀ i r, rs[i]? = some r → q.entries[i]? = some (csEntry i r) := by
  refine ⟨_, rfl, by simp [csSend], ?_⟩
  intro i r h
  simp [csSend, List.getElem?_zipIdx, h]

theorem csEntry_run (i : Nat) (r : Run) : (csEntry i r).run = i := by
  unfold csEntry; split <;> rfl

/-- final mode with several Codespeed reporters in one session (experiments with their own
`reporting` section): a reporter's request has an entry for every run attached to it and for
no other run -/
theorem c18_codespeed_final_only_attached (attached : List Bool) (rs : List Run) (ok : Bool) :
    ∃ q, csFinalOf attached rs ok = .ok [q] ∧
      (∀ e ∈ q.entries, attached.getD e.run false = true ∧ ∃ r, rs[e.run]? = some r ∧ e = csEntry e.run r) ∧
      (∀ i r, rs[i]? = some r → attached.getD i false = true → csEntry i r ∈ q.entries) := by
  refine ⟨_, rfl, ?_, ?_⟩
  · intro e he
    simp only [csSend, List.mem_map, List.mem_filter] at he
    obtain ⟨p, ⟨hp, ha⟩, rfl⟩ := he
    obtain ⟨r, i⟩ := p
    have hi : rs[i]? = some r := by
      have := List.mem_zipIdx_iff_getElem?.mp hp
      simpa using this
    rw [csEntry_run]
    exact ⟨ha, r, hi, rfl⟩
  · intro i r hi ha
    simp only [csSend, List.mem_map, List.mem_filter]
    refine ⟨(r, i), ⟨?_, ha⟩, rfl⟩
    exact List.mem_zipIdx_iff_getElem?.mpr (by simpa using hi)

/-- before the repair a reporter also reported runs it was not attached to -/
theorem c18_codespeed_final_only_attached_full_fails :
    ¬ (∀ (attached : List Bool) (rs : List Run) (ok : Bool), ∀ q, csFinalOfAllRuns attached rs ok = .ok [q] →
        ∀ e ∈ q.entries, attached.getD e.run false = true) := by
  intro h
  have := h [true, false] [⟨[], [1], false⟩, ⟨[], [2], false⟩] true _ rfl
    (csEntry 1 ⟨[], [2], false⟩) (by decide)
  revert this
  decide

/-- the pinned tree crashes for exactly one run (`run_ids[0]` on a set) -/
theorem c18_codespeed_final_pinned_fails :
    ¬ (∀ (rs : List Run) (ok : Bool), ∃ q, csFinalPinned rs ok = .ok [q] ∧ q.entries.length = rs.length) := by
  intro h
  obtain ⟨q, hq, _⟩ := h [⟨["B", "E", "S", "", "1", "", "", "", ""], [1], false⟩] true
  revert hq
  simp [csFinalPinned]

/-- incremental mode: when every run completes once, the entries sent over all
requests of the session, followed by nothing (the cache is empty after the job
completed), are exactly the entries of the completed runs, in completion order:
each once, none invented -/
theorem c18_codespeed_incremental (t0 : Nat) (es : List CSEvent) (ok : Bool)
    (h : (completedIdx es).Nodup) :
    sentEntries (csRun t0 (es ++ [.job ok])) = completedEntries es ∧
    (csRun t0 (es ++ [.job ok])).cache = [] := by
  have hcache : (csRun t0 (es ++ [.job ok])).cache = [] := by
    simp only [csRun, List.foldl_append, List.foldl_cons, List.foldl_nil, csStep]
    exact csFlush_cache_nil _ ok
  refine ⟨?_, hcache⟩
  have hidx : completedIdx (es ++ [.job ok]) = completedIdx es := by
    simp [completedIdx_append, completedIdx]
  have hent : completedEntries (es ++ [.job ok]) = completedEntries es := by
    simp [completedEntries_append, completedEntries]
  have inv := csRun_invariant ⟨[], t0, []⟩ (es ++ [.job ok]) (by rw [hidx]; exact h) (by simp)
  have hcache' : (List.foldl csStep ⟨[], t0, []⟩ (es ++ [.job ok])).cache = [] := hcache
  rw [hcache', hent] at inv
  simpa [sentEntries, csRun] using inv

end RB.Report
