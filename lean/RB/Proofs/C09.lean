/-
C09 — the data file stays loadable and unmixed after a crash at any write point.

Property theorems only; helper lemmas are in `RB/Proofs/Lemmas/Loader.lean`.
`Variant.repaired` is the loader after the three `fix:` commits, `Variant.pinned`
the loader of the pinned tree (kept for the witnesses).  All statements
quantify over every loader state (hence every old file), every list of data
points a session writes, every crash point.
-/
import RB.Proofs.Lemmas.LoaderRender

namespace RB.Loader

deriving instance DecidableEq for Except

/-! ## What a torn line can be -/

/- `Torn r` (defined in `Lemmas/LoaderText.lean`): what the torn tail of an interrupted write, with the
next session's `#!…` line appended directly behind it, can classify as — a damaged data line
(`dataErr`), a damaged metadata record (`metaErr`), a comment, or the session line itself. -/

/-- bridge lemma (text level), "a torn line is garbage": a data line whose last tab-separated
field contains a character that is not a digit never parses as a measurement — in particular
no strict prefix of a measurement line with the next session's `#!command line` behind it. -/
theorem c09_torn_is_garbage (pl : Payloads) (hp : pl.profile = none) (hdr pre cmd : Text) (t : Bool)
    (hcmd : '\t' ∉ cmd) (m : Meas) :
    classify pl hdr ⟨pre ++ '#' :: '!' :: cmd, t⟩ ≠ .meas m :=
  classify_glued_not_meas pl hp hdr pre cmd t hcmd m

/-- the same for a profile data file, where the last column is free text and the run id is the
column before it: what rejects the glued line is the JSON check of the last column (repaired
loader; the pinned loader does not check and can read such a line as a line of another run) -/
theorem c09_torn_is_garbage_profile (pl : Payloads) (hpl : PlOk pl) (ok : Text → Bool)
    (hp : pl.profile = some ok) (pre cmd : Text) (hc : cmdOk cmd = true) :
    classifyProfile ok (splitOn '\t' (pre ++ sessLine cmd)) = .dataErr .value :=
  classifyProfile_glued pl hpl ok hp pre cmd hc

example : classify Payloads.none "h".toList ⟨"1\t1\t2.5".toList ++ '#' :: '!' :: "rebench -D c.conf".toList, true⟩
    = .dataErr .value := by decide

/-- bridge lemma (text level): rendering fields without tabs and splitting them again is the identity -/
theorem c09_fields_roundtrip (fs : List Text) (h : fs ≠ []) (hs : ∀ f ∈ fs, '\t' ∉ f) :
    splitOn '\t' (joinWith '\t' fs) = fs := splitOn_joinWith '\t' fs h hs

/-- bridge lemma (text level), `parse (render rec) = rec`: a line rendered from tab-free fields
(invocation, iteration, value, unit, criterion, the run's columns, run id) whose numerals read
back as `inv`, `it`, `idx` classifies as exactly that measurement -/
theorem c09_rendered_line_parses (invT itT val unit crit : Text) (mid : List Text) (idxT : Text)
    (inv it idx : Nat)
    (hnotab : ∀ f ∈ [invT, itT, val, unit, crit] ++ mid ++ [idxT], '\t' ∉ f)
    (h1 : pyNat? invT = some inv) (h2 : pyNat? itT = some it) (h3 : pyFloatOk val = true)
    (h4 : pyNat? idxT = some idx) :
    classifyData (splitOn '\t' (joinWith '\t' ([invT, itT, val, unit, crit] ++ mid ++ [idxT])))
      = .meas ⟨inv, it, val, crit, crit == totalName, idx⟩ :=
  rendered_line_parses invT itT val unit crit mid idxT inv it idx hnotab h1 h2 h3 h4

example : classify Payloads.none "h".toList ⟨"2\t1\t100017.000000\tms\ttotal\tB\tE\tS\t\t1\t\t\t\t\t0".toList, true⟩
    = .meas ⟨2, 1, "100017.000000".toList, totalName, true, 0⟩ := by decide

/-! ## The repaired loader -/

/-- `load_total`: whatever state the loader is in (whatever the file held, including torn
tails of earlier crashes), everything a session writes afterwards — its block, the metadata
records of runs not yet in the file, its data points — loads without error, and the loader
hands over exactly the session's data points, each once, each made of its own lines only. -/
theorem c09_load_total (st : LState) (glued empty : Bool) (ds : List WDP) :
    ∃ st', loadFrom Variant.repaired st (sessionRecs glued empty st.tables ds) = .ok st'
      ∧ st'.loaded = st.loaded ++ ds.map WDP.toDP := by
  cases ds with
  | nil => exact ⟨st, rfl, by simp⟩
  | cons d ds =>
    simp only [sessionRecs]
    rw [loadFrom_append_ok (load_block _ st glued empty)]
    have hc : Clean (atComment Variant.repaired st).cur := by
      simp [atComment, Variant.repaired]; exact clean_none
    obtain ⟨st', h, _, hl, _⟩ := load_emitAll Variant.repaired (d :: ds) (atComment Variant.repaired st) hc
    rw [atComment_tables] at h
    exact ⟨st', h, by rw [hl, atComment_loaded]⟩

example : ∃ st', loadFrom Variant.repaired LState.init
    (sessionRecs false true LState.init.tables
      [⟨0, 0, 1, 1, [("mem".toList, "7".toList)], "3".toList⟩, ⟨0, 0, 1, 2, [], "4".toList⟩]) = .ok st'
    ∧ st'.loaded.length = 2 := ⟨_, rfl, by decide⟩

/-- a torn tail is tolerated by the repaired loader: it hands over nothing and stops nothing -/
theorem c09_torn_tolerated (st : LState) (r : Rec) (h : Torn r) :
    ∃ st', step Variant.repaired st r = .ok st' ∧ st'.loaded = st.loaded ∧ st'.tables = st.tables :=
  torn_tolerated st r h

/-- `load_after_any_prefix`, first part (loadable): an old file that loads, any session on top of
it cut after any number `k` of records with any torn tail behind the cut, then two further
sessions writing arbitrary data points: every one of the three loads ends normally, and the
two later sessions' data points are handed over exactly once each, unmixed.  (`g1 g2 g3`: whether
the session's `#!` line was glued to a torn tail without newline and is therefore not a record.) -/
theorem c09_load_after_any_prefix (st : LState) (g1 g2 g3 empty : Bool) (ds ds2 ds3 : List WDP) (k : Nat)
    (torn : List Rec) (htorn : ∀ r ∈ torn, Torn r) :
    ∃ st1, loadFrom Variant.repaired st ((sessionRecs g1 empty st.tables ds).take k ++ torn) = .ok st1 ∧
    ∃ st2, loadFrom Variant.repaired st1 (sessionRecs g2 false st1.tables ds2) = .ok st2
      ∧ st2.loaded = st1.loaded ++ ds2.map WDP.toDP ∧
    ∃ st3, loadFrom Variant.repaired st2 (sessionRecs g3 false st2.tables ds3) = .ok st3
      ∧ st3.loaded = st2.loaded ++ ds3.map WDP.toDP := by
  obtain ⟨stF, hF, _⟩ := c09_load_total st g1 empty ds
  rw [← List.take_append_drop k (sessionRecs g1 empty st.tables ds)] at hF
  obtain ⟨stA, hA, _⟩ := loadFrom_prefix_ok hF
  have htl : ∀ (torn : List Rec) (s : LState), (∀ r ∈ torn, Torn r) →
      ∃ s', loadFrom Variant.repaired s torn = .ok s' := by
    intro torn
    induction torn with
    | nil => intro s _; exact ⟨s, rfl⟩
    | cons r rs ih =>
      intro s h
      obtain ⟨s1, h1, _, _⟩ := c09_torn_tolerated s r (h r (List.mem_cons_self ..))
      obtain ⟨s2, h2⟩ := ih s1 (fun r hr => h r (List.mem_cons_of_mem _ hr))
      exact ⟨s2, by simp only [loadFrom, h1]; exact h2⟩
  obtain ⟨st1, h1⟩ := htl torn stA htorn
  refine ⟨st1, by rw [loadFrom_append_ok hA]; exact h1, ?_⟩
  obtain ⟨st2, h2, hl2⟩ := c09_load_total st1 g2 false ds2
  refine ⟨st2, h2, hl2, ?_⟩
  exact c09_load_total st2 g3 false ds3

/-- `load_after_any_prefix`, second part (counted exactly once, unmixed): if the cut falls after
the data points `ds1` and strictly inside what `persist_data_point` writes for `d` (its metadata
records and lines, `j` of them), with any torn tail, then exactly `ds1` is handed over from the
interrupted session: every completely written data point once, for its run, with its own lines,
and nothing of the torn one. -/
theorem c09_crash_counts_complete_only (st : LState) (glued empty : Bool) (ds1 : List WDP) (d : WDP) (j : Nat)
    (hj : j < (emitDP (ensureAll st.tables ds1) d).length) (torn : List Rec) (htorn : ∀ r ∈ torn, Torn r) :
    ∃ st1, loadFrom Variant.repaired st
        (blockRecs glued empty ++ emitAll st.tables ds1 ++ (emitDP (ensureAll st.tables ds1) d).take j ++ torn) = .ok st1
      ∧ st1.loaded = st.loaded ++ ds1.map WDP.toDP := by
  have hc : Clean (atComment Variant.repaired st).cur := by
    simp [atComment, Variant.repaired]; exact clean_none
  obtain ⟨stA, hA, htA, hlA, hcA⟩ := load_emitAll Variant.repaired ds1 (atComment Variant.repaired st) hc
  rw [atComment_tables] at hA htA
  rw [atComment_loaded] at hlA
  obtain ⟨stB, hB, _⟩ := load_emitDP Variant.repaired stA d hcA
  rw [htA] at hB
  rw [← List.take_append_drop j (emitDP (ensureAll st.tables ds1) d)] at hB
  obtain ⟨stC, hC, _⟩ := loadFrom_prefix_ok hB
  -- the first j records contain no total line
  have hnt : ∀ r ∈ (emitDP (ensureAll st.tables ds1) d).take j, isTotal r = false := by
    intro r hr
    have hsplit : emitDP (ensureAll st.tables ds1) d
        = (metaRecs (ensureAll st.tables ds1) d
            ++ d.crits.map (fun cv => Rec.meas ⟨d.inv, d.it, cv.2, cv.1, false,
                ((ensureAll st.tables ds1).ensure d).runs.idxOf d.run⟩))
          ++ [Rec.meas ⟨d.inv, d.it, d.total, totalName, true,
                ((ensureAll st.tables ds1).ensure d).runs.idxOf d.run⟩] := by
      simp [emitDP, dpRecs]
    rw [hsplit] at hr hj
    rw [List.take_append_of_le_length (by simp at hj ⊢; omega)] at hr
    have hr' := List.mem_of_mem_take hr
    rcases List.mem_append.mp hr' with hm | hm
    · unfold metaRecs at hm
      split at hm
      · cases hm
      · rcases List.mem_append.mp hm with hm | hm
        · split at hm
          · cases hm
          · simp only [List.mem_singleton] at hm; subst hm; rfl
        · simp only [List.mem_singleton] at hm; subst hm; rfl
    · obtain ⟨cv, _, rfl⟩ := List.mem_map.mp hm
      rfl
  have hlC := loadFrom_loaded_of_no_total _ stA stC hnt hC
  have htl : ∀ (torn : List Rec) (s : LState), (∀ r ∈ torn, Torn r) →
      ∃ s', loadFrom Variant.repaired s torn = .ok s' ∧ s'.loaded = s.loaded := by
    intro torn
    induction torn with
    | nil => intro s _; exact ⟨s, rfl, rfl⟩
    | cons r rs ih =>
      intro s h
      obtain ⟨s1, h1, hl1, _⟩ := c09_torn_tolerated s r (h r (List.mem_cons_self ..))
      obtain ⟨s2, h2, hl2⟩ := ih s1 (fun r hr => h r (List.mem_cons_of_mem _ hr))
      exact ⟨s2, by simp only [loadFrom, h1]; exact h2, by rw [hl2, hl1]⟩
  obtain ⟨st1, h1, hl1⟩ := htl torn stC htorn
  refine ⟨st1, ?_, by rw [hl1, hlC, hlA]⟩
  rw [List.append_assoc, List.append_assoc, loadFrom_append_ok (load_block _ st glued empty),
    loadFrom_append_ok hA, loadFrom_append_ok hC]
  exact h1

example : (emitDP (ensureAll LState.init.tables []) ⟨0, 0, 1, 1, [("mem".toList, "7".toList)], "3".toList⟩).length = 4 := by
  decide

/-! ## The same on bytes -/

/-- `load_after_any_prefix` on byte prefixes of the rendered text.  For every old file text that
loads (whatever it is: complete lines and possibly an unterminated rest of an earlier crash),
every session `s1` rendered behind it and every number `k` of bytes of it that reached the file:

* the file `oldText ++ (text of s1).take k` loads without error, and exactly the first `n` data
  points of `s1` are handed over, each once and made of its own lines, where `n` is the number
  of `total` lines lying completely inside the `k` bytes (a data point's last line is its `total`
  line, so these are the completely written data points);
* whatever sessions `ss` are then rendered behind the cut (directly behind the torn bytes, from
  the tables the loader reports), the file loads without error and hands over, in addition,
  exactly the data points of `ss`.

Text-level side conditions, all explicit: `Sess.Ok` (every line the session writes is a line
without newline / carriage return that classifies as the record meant, the records are the
writer model's; the command line is one line, without tab, not ending in `}`), `noCR oldText`
(the model does not split at carriage returns), `'#' ∉ hdr`, `PlOk` (accepted JSON payloads end in
`}`).  The concrete renderer `mkSess` satisfies `Sess.Ok` (`mkSess_ok`). -/
theorem c09_load_after_any_byte_prefix
    (pl : Payloads) (hdr : Text) (hh : '#' ∉ hdr) (hpl : PlOk pl)
    (oldText : Text) (_hcr : noCR oldText = true) (st : LState)
    (hold : load Variant.repaired (records Variant.repaired pl hdr oldText) = .ok st)
    (s1 : Sess) (hs1 : s1.Ok pl hdr) (k : Nat) :
    ∃ st1 n,
      load Variant.repaired (records Variant.repaired pl hdr (oldText ++ (sessText st.tables s1).take k)) = .ok st1
      ∧ n = countTotals (records Variant.repaired pl hdr ((sessText st.tables s1).take k))
      ∧ st1.loaded = st.loaded ++ (s1.ds.take n).map WDP.toDP
      ∧ ∀ (ss : List Sess), (∀ s ∈ ss, s.Ok pl hdr) →
          ∃ st3, load Variant.repaired (records Variant.repaired pl hdr
                    (oldText ++ (sessText st.tables s1).take k ++ sessionsText st1.tables ss)) = .ok st3
            ∧ st3.loaded = st1.loaded ++ (ss.flatMap (·.ds)).map WDP.toDP := by
  obtain ⟨oldLines, p0, rfl, holdl, hp0⟩ := exists_lines oldText
  -- the old file: its complete lines; the unterminated rest `p0` is not seen
  have hrold : records Variant.repaired pl hdr (renderLines oldLines ++ p0)
      = oldLines.map (fun l => classify pl hdr ⟨l, true⟩) := by
    rw [records_renderLines_append _ _ _ _ _ holdl, records_partial _ _ _ hp0]; simp
  rw [hrold] at hold
  unfold load at hold
  -- the interrupted session's lines
  have hL : ∀ l ∈ sessLine s1.cmd :: (s1.body st.tables).map RLine.text, '\n' ∉ l := by
    intro l hl
    rcases List.mem_cons.mp hl with rfl | hl
    · simpa using sessLine_nonl (q := []) (by simp) hs1.1
    · exact body_nonl hs1 st.tables l hl
  obtain ⟨j, p, htake, hp⟩ := take_renderLines _ hL k
  have htake' : (sessText st.tables s1).take k
      = renderLines ((sessLine s1.cmd :: (s1.body st.tables).map RLine.text).take j) ++ p := htake
  rw [htake']
  cases j with
  | zero =>
    -- the cut is inside the `#!` line: nothing of the session is seen
    have hq : '\n' ∉ p0 ++ p := by
      intro hm; rcases List.mem_append.mp hm with h | h
      · exact hp0 h
      · exact hp h
    simp only [List.take_zero, renderLines_nil, List.nil_append]
    refine ⟨st, 0, ?_, ?_, by simp, ?_⟩
    · rw [List.append_assoc, records_renderLines_append _ _ _ _ _ holdl, records_partial _ _ _ hq]
      simpa [load] using hold
    · rw [records_partial _ _ _ hp]; rfl
    · intro ss hss
      obtain ⟨st3, h3, hl3⟩ := load_recsOfSessions pl hdr hh hpl ss (p0 ++ p) st hss
      refine ⟨st3, ?_, hl3⟩
      rw [List.append_assoc, List.append_assoc, ← List.append_assoc p0,
        records_renderLines_append _ _ _ _ _ holdl, records_sessionsText pl hdr ss _ _ hq hss]
      unfold load
      rw [loadFrom_append_ok hold]
      exact h3
  | succ j' =>
    -- the `#!` line is complete (glued to `p0` if the old file ended without newline)
    simp only [List.take_succ_cons]
    let W := blockRecs true s1.empty ++ emitAll st.tables s1.ds
    have hW : (s1.body st.tables).map RLine.cls = W := (hs1.2.2 st.tables).2
    have hcl : (((s1.body st.tables).map RLine.text).take j').map (fun l => classify pl hdr ⟨l, true⟩)
        = W.take j' := by
      rw [← List.map_take, ← hW, ← body_classes hs1 st.tables, List.map_take, List.map_take]
    have hnl : ∀ l ∈ ((s1.body st.tables).map RLine.text).take j', '\n' ∉ l :=
      fun l hl => body_nonl hs1 st.tables l (List.mem_of_mem_take hl)
    -- loading: junction, then a prefix of the writer's records
    obtain ⟨st0, h0, hl0, ht0⟩ := torn_tolerated st _ (junction_torn pl hdr hh hpl p0 s1.cmd hs1.1)
    have hc : Clean (atComment Variant.repaired st0).cur := by
      simp [atComment, Variant.repaired]; exact clean_none
    obtain ⟨stF, hF, _, hlF, _⟩ := load_emitAll Variant.repaired s1.ds (atComment Variant.repaired st0) hc
    rw [atComment_tables, ht0] at hF
    rw [atComment_loaded] at hlF
    have hWfull : loadFrom Variant.repaired st0 W = .ok stF := by
      show loadFrom Variant.repaired st0 (blockRecs true s1.empty ++ emitAll st.tables s1.ds) = .ok stF
      rw [loadFrom_append_ok (load_block _ st0 true s1.empty)]; exact hF
    rw [← List.take_append_drop j' W] at hWfull
    obtain ⟨stA, hA, _⟩ := loadFrom_prefix_ok hWfull
    have hlA : stA.loaded = st0.loaded ++ (s1.ds.map WDP.toDP).take (countTotals (W.take j')) :=
      prefix_loaded hA hWfull hlF
    have hrec1 : ∀ R : Text, records Variant.repaired pl hdr
          (renderLines oldLines ++ p0 ++ (renderLines (sessLine s1.cmd :: ((s1.body st.tables).map RLine.text).take j') ++ R))
        = oldLines.map (fun l => classify pl hdr ⟨l, true⟩)
          ++ (classify pl hdr ⟨p0 ++ sessLine s1.cmd, true⟩ :: (W.take j' ++ records Variant.repaired pl hdr R)) := by
      intro R
      have e : renderLines oldLines ++ p0 ++ (renderLines (sessLine s1.cmd :: ((s1.body st.tables).map RLine.text).take j') ++ R)
          = renderLines oldLines ++ ((p0 ++ sessLine s1.cmd) ++ '\n' ::
              (renderLines (((s1.body st.tables).map RLine.text).take j') ++ R)) := by
        simp [renderLines_cons, List.append_assoc]
      rw [e, records_renderLines_append _ _ _ _ _ holdl,
        records_cons_line _ _ _ _ _ (sessLine_nonl hp0 hs1.1),
        records_renderLines_append _ _ _ _ _ hnl, hcl]
    have hloadA : ∀ rest : List Rec, loadFrom Variant.repaired LState.init
          (oldLines.map (fun l => classify pl hdr ⟨l, true⟩)
            ++ (classify pl hdr ⟨p0 ++ sessLine s1.cmd, true⟩ :: (W.take j' ++ rest)))
        = loadFrom Variant.repaired stA rest := by
      intro rest
      rw [loadFrom_append_ok hold]
      simp only [loadFrom, h0]
      rw [loadFrom_append_ok hA]
    refine ⟨stA, countTotals (W.take j'), ?_, ?_, ?_, ?_⟩
    · unfold load
      rw [hrec1 p, records_partial _ _ _ hp, hloadA []]; rfl
    · have e2 : renderLines (sessLine s1.cmd :: ((s1.body st.tables).map RLine.text).take j') ++ p
          = sessLine s1.cmd ++ '\n' :: (renderLines (((s1.body st.tables).map RLine.text).take j') ++ p) := by
        simp [renderLines_cons, List.append_assoc]
      have hsl : '\n' ∉ sessLine s1.cmd := by simpa using sessLine_nonl (q := []) (by simp) hs1.1
      rw [e2, records_cons_line _ _ _ _ _ hsl, records_renderLines_append _ _ _ _ _ hnl, hcl,
        records_partial _ _ _ hp, classify_sessLine, List.append_nil,
        countTotals_of_torn _ (by right; right; right; right; right; rfl)]
    · rw [hlA, hl0, List.map_take]
    · intro ss hss
      obtain ⟨st3, h3, hl3⟩ := load_recsOfSessions pl hdr hh hpl ss p stA hss
      refine ⟨st3, ?_, hl3⟩
      unfold load
      have e3 : renderLines oldLines ++ p0 ++ (renderLines (sessLine s1.cmd :: ((s1.body st.tables).map RLine.text).take j') ++ p)
            ++ sessionsText stA.tables ss
          = renderLines oldLines ++ p0 ++ (renderLines (sessLine s1.cmd :: ((s1.body st.tables).map RLine.text).take j')
              ++ (p ++ sessionsText stA.tables ss)) := by
        simp [List.append_assoc]
      rw [e3, hrec1, records_sessionsText pl hdr ss _ _ hp hss, hloadA]
      exact h3


/-- the same for the concrete renderer of the model (`str(n)` numerals, tab-joined columns,
`# benchmark: id=json` / `# run_id: id=json` records): the side conditions left are decidable
predicates on the rendered fields (`rendOk`, `dpOk`, `cmdOk`, `noCR`) and the decoders accepting
the renderer's payloads (`RendFor`, `PlOk`, and `Mode`: benchmark data file, or profile data file
whose JSON columns the decoder accepts). -/
theorem c09_load_after_any_byte_prefix_rendered
    (pl : Payloads) (R : Rend) (hR : rendOk R = true) (hpl : PlOk pl) (hfor : RendFor pl R)
    (oldText : Text) (hcr : noCR oldText = true) (st : LState)
    (hold : load Variant.repaired (records Variant.repaired pl R.hdr oldText) = .ok st)
    (cmd1 : Text) (empty1 : Bool) (ds1 : List WDP)
    (hc1 : cmdOk cmd1 = true ∧ noCR cmd1 = true) (hm1 : Mode pl R ds1) (hd1 : ∀ d ∈ ds1, dpOk R d = true) (k : Nat) :
    ∃ st1 n,
      load Variant.repaired (records Variant.repaired pl R.hdr
          (oldText ++ (sessText st.tables (mkSess R cmd1 empty1 ds1)).take k)) = .ok st1
      ∧ n = countTotals (records Variant.repaired pl R.hdr ((sessText st.tables (mkSess R cmd1 empty1 ds1)).take k))
      ∧ st1.loaded = st.loaded ++ (ds1.take n).map WDP.toDP
      ∧ ∀ (later : List (Text × Bool × List WDP)),
          (∀ s ∈ later, cmdOk s.1 = true ∧ noCR s.1 = true ∧ Mode pl R s.2.2 ∧ ∀ d ∈ s.2.2, dpOk R d = true) →
          ∃ st3, load Variant.repaired (records Variant.repaired pl R.hdr
                    (oldText ++ (sessText st.tables (mkSess R cmd1 empty1 ds1)).take k
                      ++ sessionsText st1.tables (later.map (fun s => mkSess R s.1 s.2.1 s.2.2)))) = .ok st3
            ∧ st3.loaded = st1.loaded ++ (later.flatMap (·.2.2)).map WDP.toDP := by
  have hh : '#' ∉ R.hdr := (rendOk_spec hR).2.2.2.2.2
  have hs1 := mkSess_ok pl R hR hfor cmd1 hc1.1 hc1.2 empty1 ds1 hm1 hd1
  obtain ⟨st1, n, h1, hn, hl1, hrest⟩ :=
    c09_load_after_any_byte_prefix pl R.hdr hh hpl oldText hcr st hold (mkSess R cmd1 empty1 ds1) hs1 k
  refine ⟨st1, n, h1, hn, hl1, fun later hlater => ?_⟩
  obtain ⟨st3, h3, hl3⟩ := hrest (later.map (fun s => mkSess R s.1 s.2.1 s.2.2)) (by
    intro s hs
    obtain ⟨x, hx, rfl⟩ := List.mem_map.mp hs
    obtain ⟨c1, c2, c3, c4⟩ := hlater x hx
    exact mkSess_ok pl R hR hfor x.1 c1 c2 x.2.1 x.2.2 c3 c4)
  refine ⟨st3, h3, ?_⟩
  rw [hl3]
  congr 2
  rw [List.flatMap_map]
  rfl

/-- non-vacuity of the byte-prefix theorem: a concrete renderer, decoders, command lines and data
points (two criteria, two iterations) satisfy every hypothesis, from the empty file -/
theorem c09_byte_prefix_hypotheses_hold :
    rendOk exRend = true ∧ PlOk exPl ∧ RendFor exPl exRend ∧ noCR [] = true
    ∧ load Variant.repaired (records Variant.repaired exPl exRend.hdr []) = .ok LState.init
    ∧ (cmdOk "rebench -D t.conf".toList = true ∧ noCR "rebench -D t.conf".toList = true)
    ∧ Mode exPl exRend [(⟨0, 0, 1, 1, [("mem".toList, "7.000000".toList)], "3.000000".toList⟩ : WDP),
              ⟨0, 0, 1, 2, [], "4.000000".toList⟩]
    ∧ (∀ d ∈ [(⟨0, 0, 1, 1, [("mem".toList, "7.000000".toList)], "3.000000".toList⟩ : WDP),
              ⟨0, 0, 1, 2, [], "4.000000".toList⟩], dpOk exRend d = true) :=
  ⟨exRend_ok, exPl_ok, exRend_for, rfl, rfl, by decide, Or.inl ⟨rfl, rfl⟩, by decide⟩

/-- the same for a profile data file: the decoder accepts JSON columns that end in `]` -/
theorem c09_byte_prefix_hypotheses_hold_profile :
    let plP : Payloads := { exPl with profile := some (fun js => js.getLast? == some ']') }
    let RP : Rend := { exRend with profile := true }
    rendOk RP = true ∧ PlOk plP ∧ RendFor plP RP
    ∧ load Variant.repaired (records Variant.repaired plP RP.hdr []) = .ok LState.init
    ∧ Mode plP RP [(⟨0, 0, 1, 1, [], "[1]".toList⟩ : WDP), ⟨0, 0, 2, 1, [], "[2]".toList⟩]
    ∧ (∀ d ∈ [(⟨0, 0, 1, 1, [], "[1]".toList⟩ : WDP), ⟨0, 0, 2, 1, [], "[2]".toList⟩], dpOk RP d = true) := by
  refine ⟨by decide, ⟨exPl_ok.1, exPl_ok.2.1, ?_⟩, exRend_for, rfl, ?_, by decide⟩
  · intro ok js h hok
    simp only [Option.some.injEq] at h
    subst h
    left; simpa using hok
  · exact Or.inr ⟨_, rfl, rfl, by decide⟩

/-- and one evaluated instance (202 bytes of text): a cut inside the first `total` line counts
nothing, a cut inside the last line counts the first data point, the whole text both -/
example :
    let s := mkSess exRend "rebench -D t.conf".toList true
      [⟨0, 0, 1, 1, [("mem".toList, "7.000000".toList)], "3.000000".toList⟩, ⟨0, 0, 1, 2, [], "4.000000".toList⟩]
    (sessText LState.init.tables s).length = 202
    ∧ countTotals (records Variant.repaired exPl exRend.hdr ((sessText LState.init.tables s).take 150)) = 0
    ∧ countTotals (records Variant.repaired exPl exRend.hdr ((sessText LState.init.tables s).take 170)) = 1
    ∧ countTotals (records Variant.repaired exPl exRend.hdr ((sessText LState.init.tables s).take 202)) = 2 := by
  decide +kernel

/-! ## The pinned loader: witnesses -/

/-- witness 1 (pinned tree): a torn `# run_id:` record — the next load ends in a traceback -/
theorem c09_torn_metadata_crashes :
    load Variant.pinned [.session, .comment, .comment, .comment, .header, .bench 0 0, .metaErr .value,
                         .comment, .comment, .comment] = .error (.crash .value) := by decide

/-- the same records are harmless for the repaired loader -/
theorem c09_torn_metadata_repaired :
    ∃ st, load Variant.repaired [.session, .comment, .comment, .comment, .header, .bench 0 0, .metaErr .value,
                         .comment, .comment, .comment] = .ok st := ⟨_, rfl⟩

private def mm (inv it : Nat) (v : String) (tot : Bool) : Rec :=
  .meas ⟨inv, it, v.toList, if tot then totalName else "mem".toList, tot, 0⟩

/-- witness 2 (pinned tree): session 1 dies after the criterion line of the second data point of
invocation 1; session 2 (which runs invocation 2) appends; the criterion line left over is merged
into session 2's first data point and the load of session 3 — and of every later one — ends with
"A data point is expected to represent a single invocation" (exit 3) -/
theorem c09_leftover_merges :
    load Variant.pinned [.session, .header, .bench 0 0, .run 0 0 0,
        mm 1 1 "1" false, mm 1 1 "2" true, mm 1 2 "3" false, .dataErr .value,
        .comment, .comment, mm 2 1 "5" false, mm 2 1 "6" true] = .error .uiError := by decide

/-- witness 2b (pinned tree), the silent form: the interrupted invocation is repeated with the same
number, and the leftover line becomes part of the repeated data point -/
theorem c09_leftover_mixes_silently :
    ∃ st, load Variant.pinned [.session, .header, .bench 0 0, .run 0 0 0,
        mm 1 1 "1" false, .dataErr .value, .comment, mm 1 1 "5" false, mm 1 1 "6" true] = .ok st
      ∧ st.loaded = [⟨0, 1, [(1, "mem".toList, "1".toList), (1, "mem".toList, "5".toList),
                             (1, totalName, "6".toList)]⟩] := ⟨_, rfl, by decide⟩

/-- the repaired loader hands over the repeated data point alone -/
theorem c09_leftover_repaired :
    ∃ st, load Variant.repaired [.session, .header, .bench 0 0, .run 0 0 0,
        mm 1 1 "1" false, .dataErr .value, .comment, mm 1 1 "5" false, mm 1 1 "6" true] = .ok st
      ∧ st.loaded = [⟨0, 1, [(1, "mem".toList, "5".toList), (1, totalName, "6".toList)]⟩] :=
  ⟨_, rfl, by decide⟩

private def hdr0 : Text := "invocation\titeration".toList
private def torn9 : Text := "1\t1\t1.000000\tms\ttotal\tB\tE\tS\t\t1".toList

/-- witness 3 (pinned tree, text level): a measurement line of run 0 cut directly behind its
`cores` column (`1`) and not followed by anything reads as a line of run 1; with one run in the
file the load ends with "Possibly corrupted data file. run_id 1 not found" (exit 3), for good -/
theorem c09_unterminated_numeric_field :
    load Variant.pinned (Rec.bench 0 0 :: Rec.run 0 0 0 :: records Variant.pinned Payloads.none hdr0 torn9)
      = .error .uiError := by decide

theorem c09_unterminated_repaired :
    ∃ st, load Variant.repaired (Rec.bench 0 0 :: Rec.run 0 0 0 :: records Variant.repaired Payloads.none hdr0 torn9)
      = .ok st := ⟨_, rfl⟩

/-- witness 4 (profile data files, loader without the JSON check): a profile line of run 0 cut
behind the tab after its `cores` column (`1`), the next session's `#!` line glued behind it: the
remainder lands in the last column, the run id is read from the column before it — the line
counts for run 1.  The repaired loader checks the JSON column first and drops the line. -/
theorem c09_profile_torn_line_misread :
    classify { Payloads.none with profile := some (fun _ => true) } hdr0
        ⟨"2\t1\tB\tE\tS\t\t1\t".toList ++ sessLine "rebench -D c.conf".toList, true⟩
      = .meas ⟨2, 1, sessLine "rebench -D c.conf".toList, totalName, true, 1⟩
    ∧ classify { Payloads.none with profile := some (fun js => js.getLast? == some ']') } hdr0
        ⟨"2\t1\tB\tE\tS\t\t1\t".toList ++ sessLine "rebench -D c.conf".toList, true⟩
      = .dataErr .value := by
  constructor <;> decide

/-- witness 5 (bytes): the file ends between the two bytes of the `é` of a benchmark name. The
loader that decodes strictly ends in a UnicodeDecodeError (for good: nothing is appended by a
session that dies while loading); the repaired loader (`errors="replace"`) sees a damaged line. -/
theorem c09_cut_inside_character_crashes :
    loadText false Variant.repaired Payloads.none hdr0
        ("1\t1\t2.000000\tms\ttotal\tB".toList ++ [Char.ofNat 0xC3]) = .error (.crash .decode)
    ∧ loadText false Variant.repaired Payloads.none hdr0
        ("1\t1\t2.000000\tms\ttotal\tB".toList ++ [Char.ofNat 0xC3] ++ sessLine "rebench c.conf".toList ++ ['\n'])
        = .error (.crash .decode)
    ∧ loadText true Variant.repaired Payloads.none hdr0
        ("1\t1\t2.000000\tms\ttotal\tB".toList ++ [Char.ofNat 0xC3] ++ sessLine "rebench c.conf".toList ++ ['\n'])
        = .ok LState.init := by
  refine ⟨by decide, by decide, by decide⟩

/-- the repaired loader on bytes is the loader of the theorems above: whatever the bytes are,
decoding does not fail (`c09_load_after_any_byte_prefix` is a statement about every byte text) -/
theorem c09_loadText_tolerant (v : Variant) (pl : Payloads) (hdr t : Text) :
    loadText true v pl hdr t = load v (records v pl hdr t) := by
  simp [loadText]

/-- the full statement is false of the pinned loader -/
theorem c09_load_after_any_prefix_pinned_full_fails :
    ¬ (∀ (st : LState) (glued empty : Bool) (ds : List WDP) (k : Nat) (torn : List Rec), (∀ r ∈ torn, Torn r) →
        ∃ st1, loadFrom Variant.pinned st ((sessionRecs glued empty st.tables ds).take k ++ torn) = .ok st1) := by
  intro h
  obtain ⟨st1, h1⟩ := h LState.init false true [⟨0, 0, 1, 1, [], "3".toList⟩] 6 [.metaErr .value]
    (by intro r hr; simp only [List.mem_singleton] at hr; subst hr; right; right; left; rfl)
  have hno : ∀ s, loadFrom Variant.pinned LState.init
      (List.take 6 (sessionRecs false true LState.init.tables [⟨0, 0, 1, 1, [], "3".toList⟩]) ++ [Rec.metaErr Exc.value])
      ≠ .ok s := by
    intro s hs
    have : loadFrom Variant.pinned LState.init
      (List.take 6 (sessionRecs false true LState.init.tables [⟨0, 0, 1, 1, [], "3".toList⟩]) ++ [Rec.metaErr Exc.value])
      = .error (.crash .value) := by decide
    rw [this] at hs; cases hs
  exact hno st1 h1

/-! ## Resuming: the invocation that was interrupted -/

private def val0 : Nat → Nat → Nat → Text := fun _ _ _ => "1".toList

/-- the data points the loader has for invocation `i` of run `r` after the resumed session -/
def afterResume (st : LState) (cfg : List RunCfg) (val : Nat → Nat → Nat → Text) : Except End LState :=
  loadFrom Variant.repaired st (sessionRecs false false st.tables (resumeDPs val st.loaded cfg))

/-- `invocation_counted_early` (witness; holds for the repaired loader as well — known finding):
an invocation produces two data points, the session dies between the two flushes. The first data
point makes `completed_invocations` 1, so the resumed session executes invocation 2 only, and
invocation 1 keeps one of its two data points for good. -/
theorem c09_invocation_counted_early :
    ∃ st st', load Variant.repaired [.session, .header, .bench 0 0, .run 0 0 0, mm 1 1 "2" true] = .ok st
      ∧ todo st.loaded ⟨0, 0, 2, 2⟩ = [2]
      ∧ afterResume st [⟨0, 0, 2, 2⟩] val0 = .ok st'
      ∧ countInv st'.loaded 0 1 = 1 ∧ countInv st'.loaded 0 2 = 2 := ⟨_, _, rfl, by decide, rfl, by decide, by decide⟩

/-- the last sentence of the property at full strength: after resuming, every invocation in
the file has all its data points.  False (witness above). -/
theorem c09_resume_complete_full_fails :
    ¬ (∀ (st : LState) (cfg : List RunCfg) (val : Nat → Nat → Nat → Text) (st' : LState),
        afterResume st cfg val = .ok st' →
        ∀ c ∈ cfg, ∀ i, 1 ≤ i → i ≤ c.invocations → countInv st'.loaded c.run i = c.iterations) := by
  intro h
  obtain ⟨st, st', hst, _, hres, h1, _⟩ := c09_invocation_counted_early
  have := h st [⟨0, 0, 2, 2⟩] val0 st' hres ⟨0, 0, 2, 2⟩ (by simp) 1 (by decide) (by decide)
  rw [h1] at this
  cases this

/-- why no loader (and no executor) can repair this on the present file format: the number of
data points of an invocation is whatever the harness prints, and the file has no end-of-invocation
record.  History A: invocation 1 printed ONE data point and the session ended normally.  History B:
invocation 1 printed TWO data points and the session was killed after the first flush.  Both leave
exactly the same records, so every function of the file gives both the same plan — but A needs
"continue with invocation 2" and B needs "invocation 1 again". -/
theorem c09_complete_and_torn_indistinguishable :
    let a : List WDP := [⟨0, 0, 1, 1, [], "2".toList⟩]
    let b : List WDP := [⟨0, 0, 1, 1, [], "2".toList⟩, ⟨0, 0, 1, 2, [], "3".toList⟩]
    sessionRecs false true LState.init.tables a = (sessionRecs false true LState.init.tables b).take 8
    ∧ ∀ plan : List Rec → List Nat,
        ¬ (plan (sessionRecs false true LState.init.tables a) = [2]
           ∧ plan ((sessionRecs false true LState.init.tables b).take 8) = [1, 2]) := by
  refine ⟨by decide, fun plan h => ?_⟩
  have e : sessionRecs false true LState.init.tables [⟨0, 0, 1, 1, [], "2".toList⟩]
      = (sessionRecs false true LState.init.tables
          [⟨0, 0, 1, 1, [], "2".toList⟩, ⟨0, 0, 1, 2, [], "3".toList⟩]).take 8 := by decide
  rw [e] at h
  have := h.1.symm.trans h.2
  cases this

/-- `resume_complete`, proved part: if every invocation counted so far is complete (for every run of
the session, each invocation up to `completed_invocations` has all its data points — which excludes
exactly the state left by a kill between two flushes of one invocation), then after the resumed
session every invocation `1 … invocations` of every run has exactly its `iterations` data points:
the complete ones are kept as they are, the missing ones are executed, none twice. -/
theorem c09_resume_complete_partial (st : LState) (cfg : List RunCfg) (val : Nat → Nat → Nat → Text) (st' : LState)
    (hdist : cfg.Pairwise (fun a b => a.run ≠ b.run))
    (hcomplete : ∀ c ∈ cfg, ∀ i, 1 ≤ i → i ≤ maxInv st.loaded c.run → countInv st.loaded c.run i = c.iterations)
    (h : afterResume st cfg val = .ok st') :
    ∀ c ∈ cfg, ∀ i, 1 ≤ i → i ≤ c.invocations → countInv st'.loaded c.run i = c.iterations := by
  intro c hc i h1 h2
  obtain ⟨st2, hl, hlo⟩ := c09_load_total st false false (resumeDPs val st.loaded cfg)
  unfold afterResume at h
  rw [hl] at h; cases h
  rw [hlo, countInv_append, countInv_map_toDP, cnt_resume val st.loaded i cfg hdist c hc]
  unfold todo; rw [count_todo]
  by_cases hm : i ≤ maxInv st.loaded c.run
  · rw [hcomplete c hc i h1 hm, if_neg (by omega)]; simp
  · rw [countInv_zero_above _ _ _ (by omega), if_pos ⟨by omega, h2⟩]; simp

/-- non-vacuity: invocation 1 of run 0 complete (2 data points), run 1 not started; the resumed
session completes both runs -/
example : ∃ st st', load Variant.repaired [.session, .header, .bench 0 0, .run 0 0 0, mm 1 1 "2" true, mm 1 2 "3" true] = .ok st
    ∧ (∀ c ∈ [(⟨0, 0, 2, 2⟩ : RunCfg), ⟨1, 1, 1, 2⟩], ∀ i, 1 ≤ i → i ≤ maxInv st.loaded c.run →
        countInv st.loaded c.run i = c.iterations)
    ∧ afterResume st [⟨0, 0, 2, 2⟩, ⟨1, 1, 1, 2⟩] val0 = .ok st'
    ∧ countInv st'.loaded 0 1 = 2 ∧ countInv st'.loaded 0 2 = 2 ∧ countInv st'.loaded 1 1 = 2 := by
  refine ⟨_, _, rfl, ?_, rfl, by decide, by decide, by decide⟩
  intro c hc i h1 h2
  simp only [List.mem_cons, List.not_mem_nil, or_false] at hc
  rcases hc with rfl | rfl
  · have : maxInv [(⟨0, 1, [(1, totalName, "2".toList)]⟩ : DP), ⟨0, 1, [(2, totalName, "3".toList)]⟩] 0 = 1 := by decide
    simp only [mm] at h2
    have hi : i = 1 := by
      have h2' : i ≤ 1 := by simpa [LState.init, load, loadFrom, step, stepMeas, atComment, Variant.repaired, maxInv, fresh] using h2
      omega
    subst hi; decide
  · have h2' : i ≤ 0 := by simpa [LState.init, load, loadFrom, step, stepMeas, atComment, Variant.repaired, maxInv, fresh, mm] using h2
    omega

end RB.Loader
