import RB.Gen.DbRetry
import RB.Model.DB
/-!
# Translation tie for the retry loop of ReBenchDB (C17)

`RB.Gen.DbRetry` is generated from the current source of `ReBenchDB._send_with_retries` by `tools/py2lean_fn.py`
(unit kind `retry_loop`): a function of what the successive `_send_payload` calls do -- return, raise `TypeError`,
raise `IOError` / `HTTPException` with or without a `status` -- giving the calls, the `sleep`s and how the method
returns.

Proved: for every script of attempts the generated loop does what the model's `sendLoop` / `sendWithRetries` says
(number of requests, the waits in order, success), for every number of remaining attempts and every wait; which
errors are retried is decided by the status alone (`400 ≤ status < 500` is not retried, everything else is); a
dropped connection is retried; the loop needs at most five iterations.
Not imported by `RB.lean`: built by the `gen` entry of the obligations.
-/
namespace RB.DB
open RB.Py RB.Gen.DbRetry

abbrev GAttempt := RB.Gen.DbRetry.Attempt
abbrev GEvent := RB.Gen.DbRetry.Event

def caught : String := "IOError|HTTPException"

/-- what `_send_with_retries` sees of an attempt of the model: `refused` and `dropped` are `IOError`s /
`HTTPException`s without a status (URLError, ConnectionResetError, RemoteDisconnected, ...), `server` / `client` are
`HTTPError`s with a status outside / inside 400..499 -/
def absAttempt : RB.DB.Attempt → GAttempt
  | .ok => ⟨"", false, V.none⟩
  | .refused => ⟨caught, false, V.none⟩
  | .dropped => ⟨caught, false, V.none⟩
  | .server => ⟨caught, true, V.int 503⟩
  | .client => ⟨caught, true, V.int 404⟩
  | .typeErr => ⟨"TypeError", false, V.none⟩

/-- the events of a request that goes as the model's result says -/
def eventsOf (res : SendResult) : List GEvent :=
  res.waits.flatMap (fun w => [.send_payload, .sleep (V.int w)]) ++
    [.send_payload, if res.success then .return_success else .return_failure]

theorem getD_succ {α} (l : List α) (i : Nat) (d : α) : l.getD (i + 1) d = l.tail.getD i d := by
  cases l <;> simp

theorem getD_zero' {α} (l : List α) (d : α) : l.getD 0 d = l.headD d := by
  cases l <;> simp

/-- **the generated loop is the model's `sendLoop`**, with `r` retries left and the current wait, on every script -/
theorem gen_retry_loop_eq_model (r : Nat) :
    ∀ (wait : Nat) (script : List RB.DB.Attempt) (out : Nat → GAttempt) (k fuel : Nat) (trace : List GEvent),
      (∀ i, out (k + i) = absAttempt (script.getD i .refused)) → r + 1 ≤ fuel →
      ReBenchDB_send_with_retries_loop out fuel k (V.int r) (V.int wait) trace =
        some (trace ++ eventsOf (sendLoop r wait script)) := by
  induction r with
  | zero =>
    intro wait script out k fuel trace h hf
    obtain ⟨f, rfl⟩ : ∃ f, fuel = f + 1 := ⟨fuel - 1, by omega⟩
    have h0 := h 0
    rw [Nat.add_zero, getD_zero'] at h0
    rcases script with _ | ⟨a, t⟩
    · simp [ReBenchDB_send_with_retries_loop, h0, absAttempt, caught, sendLoop, eventsOf, V.gt, V.le, V.lt, V.asInt?]
    · cases a <;>
        simp [ReBenchDB_send_with_retries_loop, h0, absAttempt, caught, sendLoop, eventsOf, V.gt, V.le, V.lt, V.asInt?]
  | succ r ih =>
    intro wait script out k fuel trace h hf
    obtain ⟨f, rfl⟩ : ∃ f, fuel = f + 1 := ⟨fuel - 1, by omega⟩
    have h0 := h 0
    rw [Nat.add_zero, getD_zero'] at h0
    have hnext : ∀ i, out (k + 1 + i) = absAttempt (script.tail.getD i .refused) := by
      intro i
      rw [← getD_succ, ← h (i + 1)]
      congr 1
      omega
    have hrec := ih (wait * 2) script.tail out (k + 1) f (trace ++ [.send_payload, .sleep (V.int wait)]) hnext (by omega)
    rw [show ((wait * 2 : Nat) : Int) = (wait : Int) * 2 by omega] at hrec
    have e1 : (V.int ((r : Int) + 1)).sub (V.int 1) = some (V.int (r : Int)) := by
      simp [V.sub, V.asInt?]
    have e2 : (V.int (wait : Int)).mul (V.int 2) = some (V.int ((wait : Int) * 2)) := by
      simp [V.mul, V.asInt?]
    have e3 : (V.int ((r : Int) + 1)).gt (V.int 0) = some true := by
      simp [V.gt, V.asInt?] <;> omega
    rcases script with _ | ⟨a, t⟩
    · simp [ReBenchDB_send_with_retries_loop, h0, absAttempt, caught, sendLoop, eventsOf, retryable,
        V.le, V.lt, V.asInt?, e1, e2, e3, List.append_assoc] at hrec ⊢
      simp [hrec]
      try rfl
    · cases a <;>
        simp [ReBenchDB_send_with_retries_loop, h0, absAttempt, caught, sendLoop, eventsOf, retryable,
          V.le, V.lt, V.asInt?, e1, e2, e3, List.append_assoc] at hrec ⊢ <;> (try simp [hrec]) <;> (try rfl)

/-- **`_send_with_retries` is the model's `sendWithRetries`**: four retries, waits 10, 20, 40, 80, at most five
iterations -/
theorem gen_retry_eq_model (script : List RB.DB.Attempt) (fuel : Nat) (hf : 5 ≤ fuel) :
    ReBenchDB_send_with_retries (fun i => absAttempt (script.getD i .refused)) fuel =
      some (eventsOf (sendWithRetries script)) := by
  have := gen_retry_loop_eq_model 4 10 script (fun i => absAttempt (script.getD i .refused)) 0 fuel []
    (by intro i; simp) hf
  simpa [ReBenchDB_send_with_retries, sendWithRetries] using this

/-- which answers with a status are retried: exactly those outside 400..499 (while retries are left) -/
theorem gen_retry_by_status (out : Nat → GAttempt) (st : Int) (fuel k : Nat) (r wait : Nat) (trace : List GEvent)
    (h : out k = ⟨caught, true, V.int st⟩) :
    ReBenchDB_send_with_retries_loop out (fuel + 1) k (V.int (r + 1 : Nat)) (V.int wait) trace =
      if 400 ≤ st ∧ st < 500 then some (trace ++ [.send_payload, .return_failure])
      else ReBenchDB_send_with_retries_loop out fuel (k + 1) (V.int r) (V.int (wait * 2 : Nat))
            (trace ++ [.send_payload, .sleep (V.int wait)]) := by
  have e1 : (V.int ((r : Int) + 1)).sub (V.int 1) = some (V.int (r : Int)) := by
    simp [V.sub, V.asInt?]
  have e2 : (V.int (wait : Int)).mul (V.int 2) = some (V.int ((wait : Int) * 2)) := by
    simp [V.mul, V.asInt?]
  have e3 : (V.int ((r : Int) + 1)).gt (V.int 0) = some true := by
    simp [V.gt, V.asInt?] <;> omega
  by_cases h1 : 400 ≤ st <;> by_cases h2 : st < 500 <;>
    simp [ReBenchDB_send_with_retries_loop, h, caught, V.le, V.lt, V.asInt?, e1, e2, e3, h1, h2, List.append_assoc]

/-- a connection that is dropped while the answer is read (an `OSError` or `HTTPException` without status) is
retried like a refused one; a `TypeError` and an exception no handler names are not -/
theorem gen_dropped_is_retried (script : List RB.DB.Attempt) :
    ReBenchDB_send_with_retries (fun i => absAttempt ((RB.DB.Attempt.dropped :: script).getD i .refused)) 5 =
      some ([.send_payload, .sleep (V.int 10)] ++
        (eventsOf (sendLoop 3 20 script))) ∧
    ReBenchDB_send_with_retries (fun _ => ⟨"TypeError", false, V.none⟩) 5 = some [.send_payload, .return_failure] ∧
    ReBenchDB_send_with_retries (fun _ => ⟨"KeyError", false, V.none⟩) 5 = none := by
  refine ⟨?_, by decide +kernel, by decide +kernel⟩
  rw [gen_retry_eq_model _ 5 (Nat.le_refl 5)]
  simp [sendWithRetries, sendLoop, retryable, eventsOf, List.append_assoc]

/-! ### the cache around one request (`_ReBenchDB._send_data_and_empty_cache`) -/

/-- the skeleton of the bookkeeping as translated: the cache is taken and replaced by an empty one under the lock;
an empty cache sends nothing; the request is made outside the lock; only after a failed request the lock is taken
again, the taken data points are extended with the newer ones and put back.  (The loop that extends the lists is
one event: which list goes first is not part of the translation.) -/
theorem gen_cache_skeleton (cached : V) (success : Bool) :
    ReBenchDB_send_data_and_empty_cache cached success = some (
      [RB.Gen.DbRetry.Event.acquire_lock, .set_cache (V.dict 0 false), .release_lock] ++
      (if cached.truthy then
         [RB.Gen.DbRetry.Event.send_data] ++
         (if success then [] else [.acquire_lock, .extend_unsent_with_newer, .set_cache cached, .release_lock])
       else [])) := by
  cases h : cached.truthy <;> cases success <;> simp [ReBenchDB_send_data_and_empty_cache, h]

/-- against the model's `sendAndEmpty`: a request is recorded exactly when `send_data` is an event, and the cache is
put back exactly when the model merges back (a failed request) -/
theorem gen_cache_eq_model (s : State) (script : List RB.DB.Attempt) (during : List (Run × DP)) (evs : List GEvent)
    (h : ReBenchDB_send_data_and_empty_cache (V.dict 1 (decide (s.cache ≠ []))) (sendWithRetries script).success = some evs) :
    (sendAndEmpty s script during).reqs.length = s.reqs.length + evs.count .send_data ∧
    ((sendAndEmpty s script during).cache =
        if evs.contains .extend_unsent_with_newer then mergeBack s.cache (addAll [] during) else addAll [] during) := by
  rw [gen_cache_skeleton] at h
  injection h with h
  subst h
  cases hc : s.cache with
  | nil => simp [sendAndEmpty, hc, V.truthy, List.count_cons]
  | cons a t =>
    cases hs : (sendWithRetries script).success <;> simp [sendAndEmpty, hc, hs, V.truthy, List.count_cons]

end RB.DB
