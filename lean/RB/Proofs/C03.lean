/-
C03 — executed command, working directory, environment and plan are exactly as
configured.  Property theorems only; helper lemmas are in
`RB/Proofs/Lemmas/Cmdline.lean`.  All statements quantify over every template
text, every run, every number of completed invocations and every environment
of ReBench's own process.
-/
import RB.Proofs.Lemmas.Cmdline
import RB.Proofs.Lemmas.CmdlineStrip

namespace RB.Cmdline

/-! ## "every %(name)s placeholder is replaced by that run's value, '%%' yields a literal '%'" -/

/-- The `%`-operator on the written form of any sequence of literal characters,
`%%` and placeholders yields exactly the literal text, `%` and the values
(`render` is the property's reading of a template). -/
theorem c03_fmt_unparse (env : Env) (ts : List Tok) (h : ∀ t ∈ ts, t.WF) :
    fmt env (unparse ts) = render env ts := by
  simp [fmt, parse_unparse ts h]

example : ∀ t ∈ [Tok.lit 'a', Tok.pct, Tok.ph kCores, Tok.lit '~'], t.WF := by
  simp [Tok.WF, kCores]

/-- the placeholder names are mapped to these fields of the run, and `invocation`
to the number handed in -/
theorem c03_placeholder_values (r : Run) (k : Nat) :
    lookup (envAll r k) kBenchmark = some r.benchCommand ∧
    lookup (envAll r k) kCores = some r.cores.asStr ∧
    lookup (envAll r k) kExecutor = some r.executorName ∧
    lookup (envAll r k) kInput = some r.input.asStr ∧
    lookup (envAll r k) kIterations = some r.iterations.pyStr ∧
    lookup (envAll r k) kInvocation = some (decimal k) ∧
    lookup (envAll r k) kSuite = some r.suiteName ∧
    lookup (envAll r k) kVariable = some r.varValue.asStr ∧
    lookup (envAll r k) kTag = some r.tag.asStr ∧
    lookup (envAll r k) kWarmup = some r.warmup.pyStr := by
  simp [envAll, envWith, envPre, envPost, lookup, kBenchmark, kCores, kExecutor, kInput, kIterations,
    kInvocation, kSuite, kVariable, kTag, kWarmup]

/-- The command of the invocation after `c` recorded ones: for every template
that is the written form of literal text, `%%` and placeholders, the process
receives the words of its gauge adapter's wrapper (none for the default
`acquire_command`; `/usr/bin/time -p` or `<time> -f <format>` for Time;
`perf <record_args>` for a profile run) followed by the words of (literal text,
`%`, the run's values with invocation number `c + 1`), each with its leading `~`
expanded; the string handed to the shell is the adapter's prefix followed,
verbatim, by that text `~`-expanded and quoted by `expand_user`. -/
theorem c03_command_exact (w : World) (r : Run) (c : Nat) (l : Launch) (ts : List Tok)
    (hwf : ∀ t ∈ ts, t.WF) (ht : template w.cwd r = unparse ts)
    (h : launch w r c = .ok l) :
    ∃ s, render (envAll r (c + 1)) ts = some s ∧
      l.argv = wrapperArgv r.adapter ++ (words (strip s)).map (expandWord w) ∧
      l.text = acquire r.adapter (expandUserLine w true (strip s)) := by
  have hf := c03_fmt_unparse (envAll r (c + 1)) ts hwf
  simp only [launch, nextText, direct, ht, hf] at h
  cases hr : render (envAll r (c + 1)) ts with
  | none => simp [hr] at h
  | some s =>
    refine ⟨s, rfl, ?_⟩
    simp only [hr, Option.map_some] at h
    cases hloc : location w.cwd r with
    | none => simp [hloc] at h
    | some loc =>
      simp only [hloc, Res.ok.injEq] at h
      subst h; exact ⟨rfl, rfl⟩

/-- The language is exact: the `%`-operator accepts a text iff it is the written form
of a sequence of literal characters, `%%` and `%(name)s` placeholders. -/
theorem c03_language_exact (s : Str) :
    (parse s).isSome ↔ ∃ ts, (∀ t ∈ ts, t.WF) ∧ s = unparse ts := by
  constructor
  · intro h
    cases hp : parse s with
    | none => simp [hp] at h
    | some ts => exact ⟨ts, (parse_sound s ts hp).2, (parse_sound s ts hp).1⟩
  · rintro ⟨ts, hwf, rfl⟩
    simp [parse_unparse ts hwf]

/-- `c03_command_exact` without a hypothesis on the template: *whenever* a process
is started, the configured command line is such a written form and the process
receives the words of its substitution with invocation number `c + 1`. -/
theorem c03_command_exact_all (w : World) (r : Run) (c : Nat) (l : Launch)
    (h : launch w r c = .ok l) :
    ∃ ts s, (∀ t ∈ ts, t.WF) ∧ template w.cwd r = unparse ts ∧
      render (envAll r (c + 1)) ts = some s ∧
      l.argv = wrapperArgv r.adapter ++ (words (strip s)).map (expandWord w) ∧
      l.text = acquire r.adapter (expandUserLine w true (strip s)) := by
  cases hp : parse (template w.cwd r) with
  | none => simp [launch, nextText, direct, fmt, hp] at h
  | some ts =>
    obtain ⟨ht, hwf⟩ := parse_sound _ ts hp
    obtain ⟨s, h1, h2, h3⟩ := c03_command_exact w r c l ts hwf ht h
    exact ⟨ts, s, hwf, ht, h1, h2, h3⟩

/-- what each gauge adapter puts in front of the command — the command itself follows
verbatim: nothing for the default `acquire_command` (RebenchLog, TimeManual, custom adapters
that inherit it), `/usr/bin/time -p ` or `<bin> -f <format> ` for Time, `perf <record_args> `
for a profile run -/
def adapterPrefix : Adapter → Str
  | .plain => []
  | .time false _ => usrBinTime ++ [' ', '-', 'p', ' ']
  | .time true bin => bin ++ [' ', '-', 'f', ' '] ++ timeFormat ++ [' ']
  | .perf c ra _ => c ++ [' '] ++ ra ++ [' ']

theorem c03_acquire_suffix (a : Adapter) (cmd : Str) :
    acquire a cmd = adapterPrefix a ++ cmd ∧ acquire .plain cmd = cmd := by
  refine ⟨?_, rfl⟩
  cases a with
  | plain => rfl
  | time f b => cases f <;> simp [acquire, adapterPrefix, List.append_assoc]
  | perf c ra rp => simp [acquire, adapterPrefix, List.append_assoc]

/-- the words of the wrapper are the words of that prefix (for `time -f` the format is one
quoted word, which the shell hands over without its quotes) -/
theorem c03_wrapper_words (a : Adapter) :
    (∀ f b, a = .time f b → f = false → wrapperArgv a = words (adapterPrefix a)) ∧
    (∀ c ra rp, a = .perf c ra rp → wrapperArgv a = words (c ++ [' '] ++ ra)) ∧
    (a = .plain → wrapperArgv a = []) ∧
    (∀ b, a = .time true b → wrapperArgv a = [b, ['-', 'f'], timeFormatArg] ∧
       timeFormat = ['"'] ++ timeFormatArg ++ ['"']) := by
  refine ⟨?_, ?_, ?_, ?_⟩
  · rintro f b rfl rfl; simp only [wrapperArgv, adapterPrefix]; decide
  · rintro c ra rp rfl; rfl
  · rintro rfl; rfl
  · rintro b rfl; exact ⟨rfl, by decide⟩

/-- `TimeAdapter._check_which_time_command_is_available` as a decision table: the formatted
variant is used iff `/usr/bin/time -f …` exits 0, or it exits 1 / cannot be started and
`gtime -f …` exits 0 — and only in the latter case the binary is `gtime` -/
theorem c03_time_decision (rc1 rc2 : Option Int) :
    ((timeDecision rc1 rc2).1 = true ↔
      rc1 = some 0 ∨ ((rc1 = some 1 ∨ rc1 = none) ∧ rc2 = some 0)) ∧
    ((timeDecision rc1 rc2).2 = gtimeBin ↔ ((rc1 = some 1 ∨ rc1 = none) ∧ rc2 = some 0)) ∧
    ((timeDecision rc1 rc2).2 = gtimeBin ∨ (timeDecision rc1 rc2).2 = usrBinTime) := by
  have hne : usrBinTime ≠ gtimeBin := by decide
  unfold timeDecision
  cases rc1 with
  | none =>
    cases rc2 with
    | none => simp [hne]
    | some b => by_cases hb : b = 0 <;> simp [hb, hne]
  | some a =>
    by_cases ha : a = 1
    · subst ha
      cases rc2 with
      | none => simp [hne]
      | some b => by_cases hb : b = 0 <;> simp [hb, hne]
    · by_cases h0 : a = 0 <;> simp [ha, h0, hne]

/-- any other use of `%` is a format error: no process is started -/
theorem c03_malformed_rejected (w : World) (r : Run) (c : Nat)
    (h : parse (template w.cwd r) = none) : launch w r c = .uiError := by
  simp [launch, nextText, direct, fmt, h]

/-! ## two phases (identity string first, invocation number later)

`two_phase_eq_direct` — FULL STATEMENT, false of the two-phase mechanism of the
pinned tree:

    theorem c03_two_phase_eq_direct (r : Run) (k : Nat) (t : Str) :
        twoPhaseFmt r k t = directFmt r k t

The pinned tree started `expand2 (expand1 t)`.  It was repaired
(`fix: expand the command line for an invocation in one step`): `launch`
uses `direct`, so `c03_command_exact` above is the full-strength statement
about what is started.  What remains true of the recorded identity string
(`cmdline()`, which still contains `%(invocation)s`) is the `_partial`
theorem below. -/

/-- no `%%` in the template, no `%` in substituted values -/
def PctFree (r : Run) (t : Str) : Prop :=
  (∀ ts, parse t = some ts → Tok.pct ∉ ts) ∧ ValuesPctFree r

theorem c03_two_phase_full_fails :
    ¬ ∀ (r : Run) (k : Nat) (t : Str), twoPhaseFmt r k t = directFmt r k t := by
  intro h
  have := h ⟨[], .none, .none, .none, .none, [], [], .none, .none, none, [], none, [], none, false, none, [], 1, .plain⟩
    1 ['%', '%']
  revert this
  decide

/-- the witness in detail: `%%` makes the second phase fail (a traceback on the
pinned tree) where the direct substitution yields `%` -/
theorem c03_two_phase_witness (r : Run) (k : Nat) :
    twoPhaseFmt r k ['%', '%'] = none ∧ directFmt r k ['%', '%'] = some ['%'] := by
  simp [twoPhaseFmt, directFmt, fmt, parse, scan, render]

theorem c03_two_phase_eq_direct_partial (r : Run) (k : Nat) (t : Str) (h : PctFree r t) :
    twoPhaseFmt r k t = directFmt r k t := by
  unfold twoPhaseFmt directFmt
  cases hp : parse t with
  | none => simp [fmt, hp]
  | some ts =>
    have hl := scan_lit_ne t .text ts hp
    have := two_phase_tokens r k h.2 ts (h.1 ts hp) hl
    simp only [fmt, hp, Option.bind_some]
    rw [← this]; rfl

-- non-vacuity: a run and a template with placeholders that satisfy `PctFree`
example : PctFree ⟨['B'], .int 4, .str ['x'], .none, .none, ['E'], ['S'], .int 1, .none, none,
    ['e'], none, [], none, false, none, [], 3, .plain⟩ ['h', ' ', '%', '(', 'c', 'o', 'r', 'e', 's', ')', 's'] := by
  constructor
  · intro ts h
    have : ts = [.lit 'h', .lit ' ', .ph kCores] := by
      have e : parse ['h', ' ', '%', '(', 'c', 'o', 'r', 'e', 's', ')', 's']
          = some [.lit 'h', .lit ' ', .ph kCores] := by decide
      rw [e] at h; exact (Option.some.inj h).symm
    subst this; decide
  · intro n v hn hl
    simp only [env1, envWith, envPre, envPost, lookup, List.cons_append, List.nil_append] at hl
    repeat' split at hl
    all_goals first
      | (cases hl; decide)
      | (cases hl; rename_i hk; exact absurd hk.symm hn)
      | cases hl

/-! ### … with the `.strip()` of `_construct_cmdline` in between

`RunId.cmdline()` is `(template % env1).strip()`; the pinned tree formatted *that* a second
time, the repaired tree strips the one-step expansion.  Leading / trailing blanks do occur
(`command: Harness %(input)s` with no input size, an `extra_args` ending in a blank), so the
`strip` is not vacuous.  It commutes with the second phase because the invocation number is
a non-empty string of digits (`fmt_env2_strip`). -/

/-- the identity string, completed with the invocation number, is the command that is
started — for `PctFree` configurations, blanks at either end included -/
theorem c03_two_phase_strip_partial (cwd : Str) (r : Run) (k : Nat)
    (h : PctFree r (template cwd r)) :
    twoPhase cwd r k = (direct cwd r k).map some := by
  have hfmt := c03_two_phase_eq_direct_partial r k (template cwd r) h
  unfold twoPhaseFmt directFmt at hfmt
  unfold twoPhase direct cmdline
  cases h1 : fmt (env1 r) (template cwd r) with
  | none =>
    simp only [h1, Option.bind_none] at hfmt
    simp [← hfmt]
  | some s1 =>
    simp only [h1, Option.bind_some] at hfmt
    -- the one-step expansion succeeds as well: the dictionaries have the same keys
    have hsome : ∃ y, fmt (envAll r k) (template cwd r) = some y := by
      unfold fmt at h1 ⊢
      cases hp : parse (template cwd r) with
      | none => simp [hp] at h1
      | some ts =>
        simp only [hp, Option.bind_some] at h1 ⊢
        have := render_isSome_inv r invPlaceholder (decimal k) ts
        simp only [env1] at h1
        rw [h1] at this
        simp only [envAll]
        cases hr : render (envWith r (decimal k)) ts with
        | none => rw [hr] at this; cases this
        | some y => exact ⟨y, rfl⟩
    obtain ⟨y, hy⟩ := hsome
    rw [hy] at hfmt
    simp [hy, fmt_env2_strip k s1 y hfmt]

/-- FULL STATEMENT (false of the two-phase mechanism):
`∀ cwd r k, twoPhase cwd r k = (direct cwd r k).map some` — a command `100%%`: the second
phase fails (`some none`: a traceback) where the one-step expansion gives `e 100%` -/
theorem c03_two_phase_strip_full_fails :
    ¬ ∀ (cwd : Str) (r : Run) (k : Nat), twoPhase cwd r k = (direct cwd r k).map some := by
  intro h
  have := h [] ⟨[], .none, .none, .none, .none, [], [], .none, .none, none, ['e'], none,
    ['1', '0', '0', '%', '%'], none, false, none, [], 1, .plain⟩ 1
  revert this
  decide

-- the strip matters: an empty input size leaves a trailing blank in the expansion
example : fmt (env1 ⟨['B'], .none, .none, .none, .none, [], [], .none, .none, none, ['e'], none,
    ['h', ' ', '%', '(', 'i', 'n', 'p', 'u', 't', ')', 's'], none, false, none, [], 1, .plain⟩)
    ['e', ' ', 'h', ' ', '%', '(', 'i', 'n', 'p', 'u', 't', ')', 's'] = some ['e', ' ', 'h', ' '] := by
  decide

/-! ## "that run's value" for `warmup` when no level configures it

docs/config.md gives `0` as the default of `warmup`; the implementation hands
Python's `None` to the `%`-operator. -/

def docWarmup : Val → Str
  | .none => ['0']
  | v => v.pyStr

/-- FULL STATEMENT (false): `∀ r k, lookup (envAll r k) kWarmup = some (docWarmup r.warmup)` -/
theorem c03_documented_values_full_fails :
    ¬ ∀ (r : Run) (k : Nat), lookup (envAll r k) kWarmup = some (docWarmup r.warmup) := by
  intro h
  have := h ⟨[], .none, .none, .none, .none, [], [], .none, .none, none, [], none, [], none, false, none, [], 1, .plain⟩ 1
  revert this
  decide

theorem c03_documented_values_partial (r : Run) (k : Nat) (h : r.warmup ≠ .none) :
    lookup (envAll r k) kWarmup = some (docWarmup r.warmup) := by
  rw [(c03_placeholder_values r k).2.2.2.2.2.2.2.2.2]
  cases hw : r.warmup with
  | none => exact absurd hw h
  | int i => rfl
  | str s => rfl

example : (Val.int 0) ≠ Val.none := by decide

/-! ## "it runs in the suite's location (else the executor's path)" -/

/-- The working directory is a function of the run's *own* suite and executor: the suite's
location if it has one, else the path of the executor the run is executed with — made
absolute unless it starts with `~`, placeholders of the run substituted, `~` expanded.  In
particular a suite without a location that is shared by several executors runs, for each of
them, in that executor's path. -/
theorem c03_cwd_rule (w : World) (r : Run) (c : Nat) (l : Launch) (h : launch w r c = .ok l) :
    ∃ loc, location w.cwd r = some loc ∧ l.cwd = loc.map (expanduser w) ∧
      r.locationCfg w.cwd =
        compilePath w.cwd (if r.hasLocation then r.locationRaw else compilePath w.cwd r.pathRaw) := by
  simp only [launch] at h
  split at h
  · rename_i t loc _ hloc
    simp only [Res.ok.injEq] at h
    exact ⟨loc, hloc, by subst h; rfl, rfl⟩
  · cases h

/-- two runs of the same suite (no location) with different executors: each in its own path -/
example :
    let r1 : Run := ⟨['B'], .none, .none, .none, .none, ['E'], ['S'], .none, .none, some ['/', 'a'],
      ['e'], none, ['h'], none, false, none, [], 1, .plain⟩
    let r2 : Run := { r1 with executorName := ['F'], pathRaw := some ['/', 'b'] }
    location ['/', 'w'] r1 = some (some ['/', 'a']) ∧ location ['/', 'w'] r2 = some (some ['/', 'b']) := by
  decide

/-! ## "sees exactly the configured env variables, none inherited from ReBench's own environment" -/

/-- Two ReBench processes whose environments differ arbitrarily — except for
`HOME`, which `~` expansion reads — start the same process: same text, argv,
working directory and the same *complete* environment. -/
theorem c03_env_noninterference (w₁ w₂ : World) (r : Run) (c : Nat)
    (hc : w₁.cwd = w₂.cwd) (hh : w₁.home = w₂.home) (hu : w₁.users = w₂.users) :
    launch w₁ r c = launch w₂ r c := by
  simp only [launch, runEnv, popenEnv, hc, expanduser_congr w₁ w₂ hh hu,
    expandWord_congr w₁ w₂ hh hu, expandUserLine_congr w₁ w₂ hh hu]

-- non-vacuity: environments that differ in everything but HOME
example : (World.mk ['/'] [(['A'], ['1']), (['H', 'O', 'M', 'E'], ['/', 'r'])] none []).home
    = (World.mk ['/'] [(['H', 'O', 'M', 'E'], ['/', 'r']), (['Z'], ['9']), (['P'], [])] (some ['x']) []).home := by
  decide

/-- the environment of the process is the configured map (values `~`-expanded):
exactly the configured variable names, in particular nothing from `w.parent` -/
theorem c03_env_exact (w : World) (r : Run) (c : Nat) (l : Launch) (h : launch w r c = .ok l) :
    l.env = runEnv w r ∧ l.env.map (·.1) = r.env.map (·.1) ∧
    ((∀ kv ∈ r.env, '~' ∉ kv.2) → l.env = r.env) := by
  have he : l.env = runEnv w r := by
    simp only [launch] at h
    split at h
    · simp only [Res.ok.injEq] at h; subst h; rfl
    · cases h
  refine ⟨he, ?_, ?_⟩
  · rw [he]; simp [runEnv, List.map_map, Function.comp_def]
  · intro ht
    rw [he]
    have : ∀ kv ∈ r.env, (fun kv : Str × Str => (kv.1, expandUserLine w false kv.2)) kv = kv := by
      intro kv hkv
      simp [expandUserLine_no_tilde w false kv.2 (ht kv hkv)]
    calc runEnv w r = r.env.map id := List.map_congr_left this
      _ = r.env := List.map_id _

/-! ## "the 1-based number of the invocation being started", also across resumed sessions -/

def startNums : List Event → List Nat
  | [] => []
  | .start _ n _ :: es => n :: startNums es
  | _ :: es => startNums es

theorem startNums_report (r : Run) (id n : Nat) (l : Launch) (es : List Event) :
    startNums (reportEvents r id n l ++ es) = startNums es := by
  unfold reportEvents
  split <;> simp [startNums]

/-- The `j`-th process start of a run (counted from 0 within a session that
found `c` recorded invocations) carries `c +` (successful starts before it) `+ 1`,
whatever the outcomes are. -/
theorem c03_invocation_number (w : World) (r : Run) (id : Nat)
    (hl : ∀ k, ∃ l, launch w r k = .ok l) (outs : List Outcome) :
    ∀ (c j : Nat), j < outs.length →
      (startNums (runStarts w r id c outs).1)[j]? = some (c + (outs.take j).count .ok + 1) := by
  induction outs with
  | nil => intro c j hj; simp at hj
  | cons o os ih =>
    intro c j hj
    obtain ⟨l, hl'⟩ := hl c
    cases o with
    | ok =>
      simp only [runStarts, hl']
      cases j with
      | zero => simp [startNums]
      | succ j =>
        have := ih (c + 1) j (by simpa using hj)
        simp only [startNums, startNums_report, List.getElem?_cons_succ, this, List.take_succ_cons,
          List.count_cons_self]
        congr 1; omega
    | fail =>
      simp only [runStarts, hl']
      cases j with
      | zero => simp [startNums]
      | succ j =>
        have := ih c j (by simpa using hj)
        have hne : (Outcome.fail == Outcome.ok) = false := by decide
        simp only [startNums, List.getElem?_cons_succ, this, List.take_succ_cons, List.count_cons, hne]
        simp
    | failReport =>
      simp only [runStarts, hl']
      cases j with
      | zero => simp [startNums]
      | succ j =>
        have := ih c j (by simpa using hj)
        have hne : (Outcome.failReport == Outcome.ok) = false := by decide
        simp only [startNums, startNums_report, List.getElem?_cons_succ, this, List.take_succ_cons,
          List.count_cons, hne]
        simp

/-- whether the command line of a run can be built does not depend on the
invocation number: the hypothesis of the numbering theorems holds as soon as
one launch succeeds -/
theorem c03_launch_total (w : World) (r : Run) (c : Nat) (h : ∃ l, launch w r c = .ok l) :
    ∀ k, ∃ l, launch w r k = .ok l := fun k => launch_ok_of_ok w r c k h

-- non-vacuity: a concrete run (command `h %(invocation)s ~/x`) can always be launched
example : ∀ k, ∃ l, launch (World.mk ['/', 'w'] [(['H', 'O', 'M', 'E'], ['/', 'r'])] none [])
    ⟨['B'], .int 4, .none, .none, .none, ['E'], ['S'], .int 1, .none, some ['.'],
      ['e'], none, ['h', ' ', '%', '(', 'i', 'n', 'v', 'o', 'c', 'a', 't', 'i', 'o', 'n', ')', 's', ' ', '~', '/', 'x'],
      none, false, none, [(['A'], ['~'])], 3, .time true gtimeBin⟩ k = .ok l :=
  c03_launch_total _ _ 0 (Res.exists_of_isOk _ (by decide +kernel))

/-- the number of recorded invocations after the session: `c +` successes;
this is what the next session resumes from -/
theorem c03_completed_after (w : World) (r : Run) (id : Nat)
    (hl : ∀ k, ∃ l, launch w r k = .ok l) (outs : List Outcome) :
    ∀ c, (runStarts w r id c outs).2 = c + outs.count .ok := by
  induction outs with
  | nil => intro c; simp [runStarts]
  | cons o os ih =>
    intro c
    obtain ⟨l, hl'⟩ := hl c
    cases o with
    | ok => simp only [runStarts, hl', ih (c + 1), List.count_cons_self]; omega
    | fail =>
      have hne : (Outcome.fail == Outcome.ok) = false := by decide
      simp only [runStarts, hl', ih c, List.count_cons, hne]; simp
    | failReport =>
      have hne : (Outcome.failReport == Outcome.ok) = false := by decide
      simp only [runStarts, hl', ih c, List.count_cons, hne]; simp

/-- a session resumed from the recorded count continues the numbering: running
`o₁` and then, in a new session, `o₂` gives the starts of running `o₁ ++ o₂` -/
theorem c03_resume (w : World) (r : Run) (id : Nat)
    (hl : ∀ k, ∃ l, launch w r k = .ok l) (o₁ o₂ : List Outcome) :
    ∀ c, (runStarts w r id c (o₁ ++ o₂)).1 =
      (runStarts w r id c o₁).1 ++ (runStarts w r id (runStarts w r id c o₁).2 o₂).1 := by
  induction o₁ with
  | nil => intro c; simp [runStarts]
  | cons o os ih =>
    intro c
    obtain ⟨l, hl'⟩ := hl c
    cases o with
    | ok => simp only [List.cons_append, runStarts, hl', ih (c + 1), List.append_assoc]
    | fail => simp only [List.cons_append, runStarts, hl', ih c]
    | failReport => simp only [List.cons_append, runStarts, hl', ih c, List.append_assoc]

/-- every start event carries the launch record of its own number -/
theorem not_start_of_mem_report (r : Run) (id n : Nat) (l0 : Launch) (e : Event)
    (he : e ∈ reportEvents r id n l0) (i k : Nat) (l : Launch) : e ≠ .start i k l := by
  unfold reportEvents at he
  split at he
  · simp at he; subst he; intro h; cases h
  · simp at he

theorem c03_start_is_launch (w : World) (r : Run) (id : Nat) (outs : List Outcome) :
    ∀ c, ∀ e ∈ (runStarts w r id c outs).1, ∀ i n l, e = .start i n l →
      i = id ∧ 1 ≤ n ∧ launch w r (n - 1) = .ok l := by
  induction outs with
  | nil => intro c e he; simp [runStarts] at he
  | cons o os ih =>
    intro c e he i n l hE
    simp only [runStarts] at he
    cases hL : launch w r c with
    | ok l0 =>
      simp only [hL] at he
      cases o with
      | ok =>
        simp only [List.mem_cons, List.mem_append] at he
        rcases he with rfl | he | rfl | he
        · cases hE; exact ⟨rfl, by omega, by simpa using hL⟩
        · exact absurd hE (not_start_of_mem_report r id _ l0 e he i n l)
        · cases hE
        · exact ih (c + 1) e he i n l hE
      | fail =>
        simp only [List.mem_cons] at he
        rcases he with rfl | he
        · cases hE; exact ⟨rfl, by omega, by simpa using hL⟩
        · exact ih c e he i n l hE
      | failReport =>
        simp only [List.mem_cons, List.mem_append] at he
        rcases he with rfl | he | he
        · cases hE; exact ⟨rfl, by omega, by simpa using hL⟩
        · exact absurd hE (not_start_of_mem_report r id _ l0 e he i n l)
        · exact ih c e he i n l hE
    | uiError => simp [hL] at he; subst he; cases hE
    | crash => simp [hL] at he; subst he; cases hE

/-- the report step of a profile run: it exists only for the perf adapter, directly
belongs to a started invocation, and runs `command report_args` in the working directory
and the environment of that invocation's benchmark process -/
theorem c03_report_step (w : World) (r : Run) (id : Nat) (outs : List Outcome) :
    ∀ c, ∀ e ∈ (runStarts w r id c outs).1, ∀ i n rl, e = .report i n rl →
      ∃ cmd ra rp l, r.adapter = .perf cmd ra rp ∧ i = id ∧ launch w r (n - 1) = .ok l ∧
        rl.text = cmd ++ [' '] ++ rp ∧ rl.cwd = l.cwd ∧ rl.env = l.env := by
  have key : ∀ (n : Nat) (l0 : Launch) (e : Event), e ∈ reportEvents r id n l0 → ∀ i k rl,
      e = .report i k rl → ∃ cmd ra rp, r.adapter = .perf cmd ra rp ∧ i = id ∧ k = n ∧
        rl.text = cmd ++ [' '] ++ rp ∧ rl.cwd = l0.cwd ∧ rl.env = l0.env := by
    intro n l0 e he i k rl hE
    unfold reportEvents at he
    split at he
    · rename_i cmd ra rp hA
      simp at he; subst he; cases hE
      exact ⟨cmd, ra, rp, hA, rfl, rfl, by simp, rfl, rfl⟩
    · simp at he
  induction outs with
  | nil => intro c e he; simp [runStarts] at he
  | cons o os ih =>
    intro c e he i n rl hE
    simp only [runStarts] at he
    cases hL : launch w r c with
    | ok l0 =>
      simp only [hL] at he
      cases o with
      | ok =>
        simp only [List.mem_cons, List.mem_append] at he
        rcases he with rfl | he | rfl | he
        · cases hE
        · obtain ⟨cmd, ra, rp, h1, h2, h3, h4, h5, h6⟩ := key _ l0 e he i n rl hE
          subst h3
          exact ⟨cmd, ra, rp, l0, h1, h2, by simpa using hL, h4, h5, h6⟩
        · cases hE
        · exact ih (c + 1) e he i n rl hE
      | fail =>
        simp only [List.mem_cons] at he
        rcases he with rfl | he
        · cases hE
        · exact ih c e he i n rl hE
      | failReport =>
        simp only [List.mem_cons, List.mem_append] at he
        rcases he with rfl | he | he
        · cases hE
        · obtain ⟨cmd, ra, rp, h1, h2, h3, h4, h5, h6⟩ := key _ l0 e he i n rl hE
          subst h3
          exact ⟨cmd, ra, rp, l0, h1, h2, by simpa using hL, h4, h5, h6⟩
        · exact ih c e he i n rl hE
    | uiError => simp [hL] at he; subst he; cases hE
    | crash => simp [hL] at he; subst he; cases hE

/-! ## the execution plan (`-p`) -/

def Event.isEffect : Event → Bool
  | .start _ _ _ => true
  | .append _ _ => true
  | _ => false

theorem planRun_no_effect (w : World) (r : Run) (id c : Nat) :
    ∀ e ∈ planRun w r id c, e.isEffect = false := by
  intro e he
  unfold planRun at he
  split at he
  · split at he
    · simp at he; subst he; rfl
    · simp at he; subst he; rfl
  · simp at he

/-- a `-p` session starts no process and records nothing, and the recorded
counts are what they were -/
theorem c03_plan_no_effects (w : World) (runs : List Run) :
    ∀ (id : Nat) (cs : List Nat) (outs : List (List Outcome)),
      (∀ e ∈ (session w true runs id cs outs).1, e.isEffect = false) ∧
      (cs.length = runs.length → (session w true runs id cs outs).2 = cs) := by
  induction runs with
  | nil =>
    intro id cs outs
    refine ⟨by simp [session], ?_⟩
    intro h; simp [session]; exact (List.length_eq_zero_iff.mp h)
  | cons r rs ih =>
    intro id cs outs
    obtain ⟨h1, h2⟩ := ih (id + 1) cs.tail outs.tail
    refine ⟨?_, ?_⟩
    · intro e he
      simp only [session, if_true, List.mem_append] at he
      rcases he with he | he
      · exact planRun_no_effect w r id _ e he
      · exact h1 e he
    · intro hlen
      cases cs with
      | nil => simp at hlen
      | cons c cs' =>
        simp only [List.length_cons, Nat.add_right_cancel_iff] at hlen
        simp only [session, if_true, List.headD_cons, List.tail_cons]
        simp only [List.tail_cons] at h2
        rw [h2 hlen]

/-- the plan of a session consists of the plan entries of its runs -/
theorem c03_plan_session (w : World) (runs : List Run) :
    ∀ (id : Nat) (cs : List Nat) (outs : List (List Outcome)) (e : Event),
      e ∈ (session w true runs id cs outs).1 ↔
        ∃ j r, runs[j]? = some r ∧ e ∈ planRun w r (id + j) (cs.getD j 0) := by
  induction runs with
  | nil => intro id cs outs e; simp [session]
  | cons r rs ih =>
    intro id cs outs e
    simp only [session, if_true, List.mem_append, ih (id + 1) cs.tail outs.tail e]
    constructor
    · rintro (h | ⟨j, r', hj, he⟩)
      · refine ⟨0, r, by simp, ?_⟩
        cases cs <;> simpa using h
      · refine ⟨j + 1, r', by simpa using hj, ?_⟩
        have : id + (j + 1) = id + 1 + j := by omega
        rw [this]
        cases cs <;> simpa using he
    · rintro ⟨j, r', hj, he⟩
      cases j with
      | zero =>
        left
        simp only [List.getElem?_cons_zero, Option.some.injEq] at hj
        subst hj
        cases cs <;> simpa using he
      | succ j =>
        right
        refine ⟨j, r', by simpa using hj, ?_⟩
        have : id + (j + 1) = id + 1 + j := by omega
        rw [this] at he
        cases cs <;> simpa using he

/-- The plan entry of a run: nothing for a finished run; for an unfinished one
exactly the directory and the command of its next invocation — the very text
and (after `~` expansion) the very directory that an executing session uses
for the first process it starts for that run. -/
theorem c03_plan_exact (w : World) (r : Run) (id c : Nat) :
    (r.invocations ≤ c → planRun w r id c = []) ∧
    (c < r.invocations → ∀ l, launch w r c = .ok l →
      ∃ loc, location w.cwd r = some loc ∧
        planRun w r id c = [.plan id (truthy loc) l.text] ∧
        l.cwd = loc.map (expanduser w) ∧
        ∀ o os, (runStarts w r id c (o :: os)).1.head? = some (.start id (c + 1) l)) := by
  refine ⟨?_, ?_⟩
  · intro h
    have : ¬ c < r.invocations := by omega
    simp [planRun, this]
  · intro hc l hl
    have hl0 := hl
    simp only [launch] at hl
    split at hl
    · rename_i t loc ht hloc
      simp only [Res.ok.injEq] at hl
      refine ⟨loc, hloc, ?_, ?_, ?_⟩
      · simp [planRun, hc, hl0, hloc]
      · subst hl; rfl
      · intro o os
        cases o <;> simp [runStarts, hl0]
    · cases hl

end RB.Cmdline
