/-
C15 — streaming statistics equal the textbook values.
Property theorems only; helper lemmas are in `RB/Proofs/Lemmas/Stats.lean`.
All statements quantify over every list of rational samples (no bound on
length or magnitude).
-/
import RB.Proofs.Lemmas.Stats

namespace RB.Stats

/-- sample count = length of the complete list -/
theorem c15_count (xs : List Rat) : (addAll init xs).n = xs.length := by
  cases xs with
  | nil => rfl
  | cons x xs => exact (inv_all x xs).n

/-- arithmetic mean = Σ / n -/
theorem c15_mean (xs : List Rat) (h : xs ≠ []) : (addAll init xs).mean = tmean xs := by
  obtain ⟨x, xs, rfl⟩ := List.exists_cons_of_ne_nil h
  have hi := (inv_all x xs).mean
  have hL : (((x :: xs).length : Nat) : Rat) ≠ 0 := by
    simp only [List.length_cons]; push_cast; positivity
  unfold tmean
  rw [← hi]; field_simp

/-- `_variance_times_num_samples` = Σ (x − mean)², hence std_dev² = that / n:
the *population* standard deviation -/
theorem c15_m2 (xs : List Rat) (h : xs ≠ []) : (addAll init xs).m2 = tm2 xs := by
  obtain ⟨x, xs, rfl⟩ := List.exists_cons_of_ne_nil h
  have hm := c15_mean (x :: xs) (by simp)
  have hi := inv_all x xs
  unfold tm2
  rw [sum_sq_dev, hi.m2, ← hm, ← hi.mean]
  ring

theorem c15_min (xs : List Rat) (h : xs ≠ []) :
    (addAll init xs).min ∈ xs ∧ ∀ y ∈ xs, (addAll init xs).min ≤ y := by
  obtain ⟨x, xs, rfl⟩ := List.exists_cons_of_ne_nil h
  rw [(inv_all x xs).min]; exact tmin_spec x xs

theorem c15_max (xs : List Rat) (h : xs ≠ []) :
    (addAll init xs).max ∈ xs ∧ ∀ y ∈ xs, y ≤ (addAll init xs).max := by
  obtain ⟨x, xs, rfl⟩ := List.exists_cons_of_ne_nil h
  rw [(inv_all x xs).max]; exact tmax_spec x xs

/-- the order in which samples arrive does not matter -/
theorem c15_perm_invariant (xs ys : List Rat) (h : xs.Perm ys) :
    addAll init xs = addAll init ys := by
  by_cases hx : xs = []
  · subst hx; rw [List.Perm.nil_eq h]
  have hy : ys ≠ [] := fun e => hx (by subst e; exact List.Perm.eq_nil h)
  have hlen : xs.length = ys.length := h.length_eq
  have hmean : (addAll init xs).mean = (addAll init ys).mean := by
    rw [c15_mean xs hx, c15_mean ys hy]; unfold tmean; rw [perm_sum h, hlen]
  have hm2 : (addAll init xs).m2 = (addAll init ys).m2 := by
    rw [c15_m2 xs hx, c15_m2 ys hy]; unfold tm2
    have : tmean xs = tmean ys := by unfold tmean; rw [perm_sum h, hlen]
    rw [this]; exact perm_sum (h.map _)
  have hmin : (addAll init xs).min = (addAll init ys).min := by
    obtain ⟨a1, a2⟩ := c15_min xs hx
    obtain ⟨b1, b2⟩ := c15_min ys hy
    exact le_antisymm (a2 _ (h.mem_iff.mpr b1)) (b2 _ (h.mem_iff.mp a1))
  have hmax : (addAll init xs).max = (addAll init ys).max := by
    obtain ⟨a1, a2⟩ := c15_max xs hx
    obtain ⟨b1, b2⟩ := c15_max ys hy
    exact le_antisymm (b2 _ (h.mem_iff.mp a1)) (a2 _ (h.mem_iff.mpr b1))
  have hn : (addAll init xs).n = (addAll init ys).n := by
    rw [c15_count, c15_count, hlen]
  cases hsx : addAll init xs; cases hsy : addAll init ys
  simp only [hsx, hsy] at hmean hm2 hmin hmax hn
  simp [hmean, hm2, hmin, hmax, hn]

/-- grouping does not matter: feeding the samples in any two batches equals
feeding the concatenation -/
theorem c15_append_fold (xs ys : List Rat) :
    addAll (addAll init xs) ys = addAll init (xs ++ ys) := by
  simp [addAll, List.foldl_append]

/-- warm-up exclusion: dropping the first `w` data points by position (live)
equals dropping those with iteration number ≤ `w` (reload), for data points
numbered 1..k as every adapter produces them (C12). -/
theorem numbered_filter_drop (w : Nat) (dps : List DP) : ∀ i, numbered i dps →
    dps.filter (fun d => w < d.iteration) = dps.drop (w + 1 - i) := by
  induction dps with
  | nil => intro i _; simp
  | cons d ds ih =>
    intro i h
    obtain ⟨hd, hrest⟩ := h
    have := ih (i + 1) hrest
    by_cases hc : w < i
    · have h0 : w + 1 - i = 0 := by omega
      have h1 : w + 1 - (i + 1) = 0 := by omega
      rw [h0]; rw [h1] at this
      simp only [List.drop_zero] at *
      rw [List.filter_cons, this]; simp [hd, hc]
    · have h1 : w + 1 - i = (w + 1 - (i + 1)) + 1 := by omega
      rw [h1, List.drop_succ_cons, List.filter_cons, this]; simp [hd, hc]

theorem c15_warmup_live_eq_reload (w : Nat) (dps : List DP) (h : numbered 1 dps) :
    liveSamples w dps = reloadSamples w dps := by
  unfold liveSamples reloadSamples
  rw [numbered_filter_drop w dps 1 h]; simp

/-- statistics of the live and the reloaded session agree -/
theorem c15_live_eq_reload_stats (w : Nat) (invs : List (List DP))
    (h : ∀ dps ∈ invs, numbered 1 dps) :
    addAll init (invs.flatMap (liveSamples w)) = addAll init (invs.flatMap (reloadSamples w)) := by
  congr 1
  induction invs with
  | nil => rfl
  | cons d ds ih =>
    simp only [List.flatMap_cons]
    rw [c15_warmup_live_eq_reload w d (h d List.mem_cons_self),
        ih (fun x hx => h x (List.mem_cons_of_mem _ hx))]

-- non-vacuity: a concrete numbered list satisfies the hypothesis
example : numbered 1 [⟨1, 5⟩, ⟨2, 7⟩, ⟨3, 9⟩] := by simp [numbered]
example : liveSamples 2 [⟨1, 5⟩, ⟨2, 7⟩, ⟨3, 9⟩] = [9] := by decide
-- without the hypothesis the two exclusions differ (why C12 matters here)
example : liveSamples 1 [⟨2, 5⟩, ⟨3, 7⟩] ≠ reloadSamples 1 [⟨2, 5⟩, ⟨3, 7⟩] := by decide

end RB.Stats
