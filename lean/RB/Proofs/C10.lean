/-
C10 — failures stay contained and the exit status tells the truth.
Property theorems only; helper lemmas are in `RB/Proofs/Lemmas/Sched.lean`.

`session cf k g order cs` is a sequential session (batch, round-robin or random
scheduler `k`, choice stream `cs`, runs iterated in `order`) started from the
state `g` loaded from the data file; every run carries its own outcome script.
-/
import RB.Proofs.Lemmas.Sched

namespace RB.Sched
open RB.Term

theorem uncompleted_not_done (cf : Conf) (g : G) (order : List Nat) (r : Nat)
    (h : r ∈ uncompleted cf g order) : runDone (cf.run r) (g.rs r) = false := by
  simp only [uncompleted, List.mem_filter, Bool.not_eq_true'] at h
  have h2 := h.2
  simp only [runDone, h2, Bool.and_false, Bool.or_false, Bool.and_eq_false_iff]
  right
  simp only [shouldTerminate, abandoned, failsConsec, Bool.or_eq_false_iff] at h2
  exact h2.1.1.1

/-- **Containment** (non-interference). Let `r` be a run none of whose own build
commands fails (`BuildsOk`: it shares no failed build) and that shares its
executable with no run that gets a 127 (`NoSharedNF`). Then, whatever the other
runs do (fail from the start, fail after k successes, have missing binaries of
other executables, failing builds, unknown adapters), under every sequential
scheduler and every choice stream: the processes started and the data recorded
for `r` (its projection of the session trace, build commands aside — which run
triggers a shared build depends on the order) and `r`'s final state are exactly
those of `r` executed alone, as often as it was picked. `BstSound` holds for the
empty build table every session starts with (`bstSound_fresh`). -/
theorem c10_containment (cf : Conf) (k : Kind) (g : G) (order cs : List Nat) (r : Nat)
    (hb : BuildsOk cf r) (hsound : BstSound cf g) (hns : NoSharedNF cf r g) (hnd : order.Nodup) :
    projR r (session cf k g order cs).trace
        = (solo (runSys cf) r ((session cf k g order cs).picks.count r) (g.rs r)).2 ∧
    (session cf k g order cs).g.rs r
        = (solo (runSys cf) r ((session cf k g order cs).picks.count r) (g.rs r)).1 := by
  have := seq_run_spec_builds cf k r hb cs g (uncompleted cf g order) (hnd.sublist List.filter_sublist) hns hsound
    (uncompleted_not_done cf g order r)
  exact ⟨this.1, this.2.1⟩

theorem bstSound_fresh (cf : Conf) (g : G) (h : ∀ b, g.bst b = none) : BstSound cf g := by
  intro b hb; rw [h b] at hb; exact absurd hb (by simp)

/-- non-vacuity: a run with a succeeding executor build next to a run whose build fails -/
example : let cf : Conf := { run := fun i => { cfg := { N := 1, retries := 0 }, exe := i, builds := [i] },
                             buildOk := fun b => b != 1 }
    let g : G := { rs := fun _ => { script := [.exit 0 false 1] } }
    BuildsOk cf 0 ∧ BstSound cf g ∧
    (session cf .batch g [1, 0] [0, 0, 0]).trace = [(1, .build 1), (0, .build 0), (0, .start 1), (0, .record 1 1)] ∧
    projR 0 (session cf .batch g [1, 0] [0, 0, 0]).trace = [.start 1, .record 1 1] := by
  refine ⟨Or.inr (Or.inr (by intro b hb; simp at hb; subst hb; rfl)), bstSound_fresh _ _ (fun _ => rfl), by decide, by decide⟩

/-- the same without build commands of its own: also no build event is attributed to `r` -/
theorem c10_containment_nobuild (cf : Conf) (k : Kind) (g : G) (order cs : List Nat) (r : Nat)
    (hb : NoBuild cf r) (hns : NoSharedNF cf r g) (hnd : order.Nodup) :
    proj r (session cf k g order cs).trace
        = (solo (runSys cf) r ((session cf k g order cs).picks.count r) (g.rs r)).2 ∧
    (session cf k g order cs).g.rs r
        = (solo (runSys cf) r ((session cf k g order cs).picks.count r) (g.rs r)).1 := by
  have := seq_run_spec cf k r hb cs g (uncompleted cf g order) (hnd.sublist List.filter_sublist) hns
    (uncompleted_not_done cf g order r)
  exact ⟨this.1, this.2.1⟩

/-- non-vacuity: a run next to one that fails from the start and one whose
executable (a different one) is missing -/
example : let cf : Conf := { run := fun i => { cfg := { N := 2, retries := 0 }, exe := if i = 2 then 1 else 0 } }
    let g : G := { rs := fun i => { script := if i = 1 then [.exit 1 false 0] else if i = 2 then [.exit 127 false 0]
                                              else [.exit 0 false 1, .exit 0 false 1] } }
    NoBuild cf 0 ∧ (∀ q, q ≠ 0 → (cf.run q).exe = (cf.run 0).exe → q = 1 ∨ q ≥ 3) ∧
    proj 0 (session cf .roundRobin g [0, 1, 2] (List.replicate 9 0)).trace
      = [.start 1, .record 1 1, .start 2, .record 2 1] := by
  refine ⟨Or.inr rfl, ?_, by decide⟩
  intro q hq he
  by_cases h2 : q = 2
  · subst h2; simp at he
  · omega

theorem solo_congr (cf cf' : Conf) (r : Nat) (h : cf.run r = cf'.run r) (n : Nat) (s : RunSt) :
    solo (runSys cf) r n s = solo (runSys cf') r n s := by
  induction n generalizing s with
  | zero => rfl
  | succ n ih =>
    have hs : (runSys cf).step r s = (runSys cf').step r s := by simp [runSys, h]
    rw [solo_succ, solo_succ, hs, ih]

/-- **Containment, closed form.** Two complete sessions that agree on run `r`
(same configuration of `r`, same loaded state and script of `r`) but are
otherwise arbitrary — other runs, their outcomes, scheduler, choice stream, order
— start the same processes and record the same data for `r` and leave `r` in the
same final state (completed or abandoned alike). -/
theorem c10_containment_closed (cf cf' : Conf) (k k' : Kind) (g g' : G) (order order' cs cs' : List Nat) (r : Nat)
    (hcf : cf.run r = cf'.run r) (hg : g.rs r = g'.rs r)
    (hb : BuildsOk cf r) (hb' : BuildsOk cf' r) (hsound : BstSound cf g) (hsound' : BstSound cf' g') (hns : NoSharedNF cf r g) (hns' : NoSharedNF cf' r g')
    (hnd : order.Nodup) (hnd' : order'.Nodup) (hin : r ∈ order) (hin' : r ∈ order')
    (hfin : (session cf k g order cs).finished = true) (hfin' : (session cf' k' g' order' cs').finished = true) :
    projR r (session cf k g order cs).trace = projR r (session cf' k' g' order' cs').trace ∧
    (session cf k g order cs).g.rs r = (session cf' k' g' order' cs').g.rs r := by
  have A := seq_run_spec_builds cf k r hb cs g (uncompleted cf g order) (hnd.sublist List.filter_sublist) hns hsound
    (uncompleted_not_done cf g order r)
  have B := seq_run_spec_builds cf' k' r hb' cs' g' (uncompleted cf' g' order') (hnd'.sublist List.filter_sublist) hns' hsound'
    (uncompleted_not_done cf' g' order' r)
  simp only [session] at hfin hfin' ⊢
  obtain ⟨a1, a2, a3, a4⟩ := A
  obtain ⟨b1, b2, b3, b4⟩ := B
  -- membership in the task list depends on r alone
  have hmem : r ∈ uncompleted cf g order ↔ r ∈ uncompleted cf' g' order' := by
    simp only [uncompleted, List.mem_filter, hin, hin', true_and, hcf, hg]
  have hcount : (seqLoop cf k g (uncompleted cf g order) cs).picks.count r
      = (seqLoop cf' k' g' (uncompleted cf' g' order') cs').picks.count r := by
    by_cases hm : r ∈ uncompleted cf g order
    · have d1 := a4 hfin hm
      have d2 := b4 hfin' (hmem.mp hm)
      rw [a2] at d1
      rw [b2, ← hg, ← solo_congr cf cf' r hcf] at d2
      apply first_done_unique (runSys cf) r (g.rs r)
      · exact d1
      · exact a3
      · simpa [runSys, hcf] using d2
      · intro j hj
        have := b3 j hj
        rw [← hg, ← solo_congr cf cf' r hcf, ← hcf] at this
        exact this
    · have z1 : (seqLoop cf k g (uncompleted cf g order) cs).picks.count r = 0 :=
        List.count_eq_zero.mpr (fun h => hm (seqLoop_picks_subset _ _ _ _ _ r h))
      have z2 : (seqLoop cf' k' g' (uncompleted cf' g' order') cs').picks.count r = 0 :=
        List.count_eq_zero.mpr (fun h => hm (hmem.mpr (seqLoop_picks_subset _ _ _ _ _ r h)))
      rw [z1, z2]
  rw [a1, a2, b1, b2, hcount, hg, solo_congr cf cf' r hcf]
  exact ⟨rfl, rfl⟩

/-- non-vacuity of the closed form: the same run next to a failing run under round-robin, and alone under batch -/
example : let cf : Conf := { run := fun i => { cfg := { N := 2, retries := 0 }, exe := i } }
    let g : G := { rs := fun i => { script := if i = 1 then [.exit 1 false 0] else [.exit 0 false 1, .exit 0 false 1] } }
    (session cf .roundRobin g [0, 1] (List.replicate 6 0)).finished = true ∧
    (session cf .batch g [0] (List.replicate 6 0)).finished = true ∧
    projR 0 (session cf .roundRobin g [0, 1] (List.replicate 6 0)).trace
      = projR 0 (session cf .batch g [0] (List.replicate 6 0)).trace := by decide

/-! ### exit status -/

/-- **Exit status** of a session that gets as far as executing (no usage error,
no interrupt): 0 exactly when every selected run has its configured number of
invocations recorded, or `-f` was given; otherwise 1. -/
theorem c10_exit_status_spec (cf : Conf) (u : Usage) (k : Kind) (faulty : Bool) (g : G)
    (order cs : List Nat) (hu : usageStatus u = none) :
    ((mainFunc cf u k faulty g order cs none).status = .ok ↔
        (faulty = true ∨ ∀ r ∈ order, ((session cf k g order cs).g.rs r).t.maxInv ≥ (cf.run r).cfg.N)) ∧
    ((mainFunc cf u k faulty g order cs none).status = .failed ↔
        (faulty = false ∧ ∃ r ∈ order, ((session cf k g order cs).g.rs r).t.maxInv < (cf.run r).cfg.N)) := by
  simp only [mainFunc, hu, sessionOk]
  cases faulty
  · simp only [Bool.false_or, Bool.false_eq_true, false_or, true_and]
    by_cases h : (order.all fun r => decide (((session cf k g order cs).g.rs r).t.maxInv ≥ (cf.run r).cfg.N)) = true
    · simp only [h, if_true, true_iff, reduceCtorEq, false_iff]
      simp only [List.all_eq_true, decide_eq_true_eq] at h
      exact ⟨h, fun ⟨r, hr, hlt⟩ => by have := h r hr; omega⟩
    · simp only [h, if_false, Bool.false_eq_true, reduceCtorEq, false_iff, true_iff]
      simp only [List.all_eq_true, decide_eq_true_eq] at h
      refine ⟨h, ?_⟩
      apply Classical.byContradiction
      intro hne
      apply h
      intro r hr
      apply Classical.byContradiction
      intro hlt
      exact hne ⟨r, hr, by omega⟩
  · simp

example : usageStatus {} = none := by decide

/-- usage and configuration errors (unknown machine, malformed filter, unknown
experiment, unknown scheduler) end in the user-facing error, exit 3 -/
theorem c10_usage_errors (cf : Conf) (u : Usage) (k : Kind) (faulty : Bool) (g : G)
    (order cs : List Nat) (stopAt : Option Nat)
    (h : u.machineKnown = false ∨ u.filters.all filterOk = false ∨ u.expKnown = false ∨ u.schedKnown = false) :
    (mainFunc cf u k faulty g order cs stopAt).status = .uiError := by
  have : usageStatus u = some .uiError := by
    unfold usageStatus
    rcases h with h | h | h | h <;> (repeat' split) <;> simp_all
  simp [mainFunc, this]

example : (({ filters := [.suite 4] } : Usage).filters.all filterOk) = false := by decide

/-- a user abort while the `n`-th process runs gives exit 2 -/
theorem c10_abort_status (cf : Conf) (u : Usage) (k : Kind) (faulty : Bool) (g : G)
    (order cs : List Nat) (n : Nat) (hu : usageStatus u = none)
    (hn : n ≥ 1 ∧ n ≤ countStarts (session cf k g order cs).trace) :
    (mainFunc cf u k faulty g order cs (some n)).status = .aborted := by
  simp [mainFunc, hu, hn]

example : let cf : Conf := { run := fun _ => { cfg := { N := 2, retries := 0 }, exe := 0 } }
    let g : G := { rs := fun _ => { script := [.exit 0 false 1, .exit 0 false 1] } }
    usageStatus {} = none ∧ (2 ≥ 1 ∧ 2 ≤ countStarts (session cf .batch g [0] [0, 0, 0]).trace) ∧
    (mainFunc cf {} .batch false g [0] [0, 0, 0] (some 2)).trace = [(0, .start 1), (0, .record 1 1), (0, .start 2)] := by
  decide

/-- "no exception escapes as a traceback": for every input the session ends in
one of the four documented statuses -/
theorem c10_never_crashes (cf : Conf) (u : Usage) (k : Kind) (faulty : Bool) (g : G)
    (order cs : List Nat) (stopAt : Option Nat) :
    (mainFunc cf u k faulty g order cs stopAt).status ≠ .crash := by
  unfold mainFunc
  cases hu : usageStatus u with
  | some st =>
    simp only
    unfold usageStatus at hu
    (repeat' split at hu) <;> first | (injection hu with hu; subst hu; simp) | simp at hu
  | none =>
    simp only
    cases stopAt with
    | none => simp only; split <;> simp
    | some n => simp only; split <;> (try split) <;> simp

/-- "1 when some run failed or was abandoned": in a finished session a selected
run (known adapter, no failing build, no shared missing executable) with fewer
than N invocations recorded has been abandoned by the retry rule -/
theorem c10_incomplete_means_abandoned (cf : Conf) (k : Kind) (g : G) (order cs : List Nat) (r : Nat)
    (hb : NoBuild cf r) (hns : NoSharedNF cf r g) (hnd : order.Nodup) (hin : r ∈ order)
    (had : (cf.run r).adapterKnown = true)
    (hfin : (session cf k g order cs).finished = true)
    (hlt : ((session cf k g order cs).g.rs r).t.maxInv < (cf.run r).cfg.N)
    (hfresh : abandoned (cf.run r).cfg (g.rs r).t = false) :
    abandoned (cf.run r).cfg ((session cf k g order cs).g.rs r).t = true := by
  have A := seq_run_spec cf k r hb cs g (uncompleted cf g order) (hnd.sublist List.filter_sublist) hns
    (uncompleted_not_done cf g order r)
  by_cases hm : r ∈ uncompleted cf g order
  · have d := A.2.2.2 hfin hm
    simp only [session] at hlt ⊢
    simp only [runDone, had, Bool.true_and, Bool.or_eq_true, Bool.and_eq_true, shouldTerminate,
      decide_eq_true_eq] at d
    rcases d with d | d
    · simp at d
    · rcases d with d | d
      · exact d
      · omega
  · -- not in the task list: it was complete from the start, so it cannot be short of N
    have z : (seqLoop cf k g (uncompleted cf g order) cs).picks.count r = 0 :=
      List.count_eq_zero.mpr (fun h => hm (seqLoop_picks_subset _ _ _ _ _ r h))
    have e := A.2.1
    rw [z] at e
    simp only [solo] at e
    simp only [session] at hlt ⊢
    rw [e] at hlt ⊢
    simp only [uncompleted, List.mem_filter, hin, true_and, Bool.not_eq_true', shouldTerminate,
      hfresh, Bool.false_or, decide_eq_false_iff_not] at hm
    omega

/-- non-vacuity: a run that fails at its second invocation with retries 0 -/
example : let cf : Conf := { run := fun _ => { cfg := { N := 3, retries := 0 }, exe := 0 } }
    let g : G := { rs := fun _ => { script := [.exit 0 false 1, .exit 1 false 0] } }
    (session cf .batch g [0] [0, 0, 0]).finished = true ∧
    ((session cf .batch g [0] [0, 0, 0]).g.rs 0).t.maxInv < (cf.run 0).cfg.N ∧
    abandoned (cf.run 0).cfg (g.rs 0).t = false ∧
    abandoned (cf.run 0).cfg ((session cf .batch g [0] [0, 0, 0]).g.rs 0).t = true := by decide

/-! ### the decision of the pinned tree was wrong in both directions (repaired) -/

/-- re-running a completed experiment: every run has its N invocations, yet the
pinned rule (`is_failed` cleared only by a success of this session) reports failure -/
theorem c10_pinned_completed_experiment_exits_1 :
    ∃ (cf : Conf) (g : G) (order : List Nat),
      (∀ r ∈ order, ((session cf .batch g order [0]).g.rs r).t.maxInv ≥ (cf.run r).cfg.N) ∧
      sessionOkPinned false (session cf .batch g order [0]).g order = false ∧
      sessionOk cf false (session cf .batch g order [0]).g order = true :=
  ⟨{ run := fun _ => { cfg := { N := 1, retries := 0 }, exe := 0 } },
   { rs := fun _ => { t := { maxInv := 1, samples := 1 } } }, [0], by decide, by decide, by decide⟩

/-- a run abandoned after one success of three: the pinned rule reports success -/
theorem c10_pinned_abandoned_run_exits_0 :
    ∃ (cf : Conf) (g : G) (order : List Nat),
      (∃ r ∈ order, ((session cf .batch g order [0, 0, 0]).g.rs r).t.maxInv < (cf.run r).cfg.N) ∧
      sessionOkPinned false (session cf .batch g order [0, 0, 0]).g order = true ∧
      sessionOk cf false (session cf .batch g order [0, 0, 0]).g order = false :=
  ⟨{ run := fun _ => { cfg := { N := 3, retries := 0 }, exe := 0 } },
   { rs := fun _ => { script := [.exit 0 false 1, .exit 1 false 0] } }, [0],
   ⟨0, by decide, by decide⟩, by decide, by decide⟩

/-- the pinned tree let a malformed filter and an unknown scheduler escape as tracebacks -/
theorem c10_pinned_usage_crashes :
    usageStatusPinned { filters := [.suite 4] } = some .crash ∧
    usageStatusPinned { schedKnown := false } = some .crash := by decide

end RB.Sched

namespace RB.Sched

/-! ### the positional arguments: experiment name and filter expressions -/

/-- an unknown experiment name as first argument ends in the user-facing error
(exit 3) whatever follows it — filters, further names — and whatever else is
given; nothing is executed (the trace is empty) -/
theorem c10_unknown_experiment_first (cf : Conf) (rest : List Arg) (sk mk : Bool) (k : Kind) (faulty : Bool)
    (g : G) (order cs : List Nat) (stopAt : Option Nat) :
    (mainFunc cf (usageOfArgs (.name false :: rest) sk mk) k faulty g order cs stopAt).status = .uiError ∧
    (mainFunc cf (usageOfArgs (.name false :: rest) sk mk) k faulty g order cs stopAt).trace = [] := by
  have h : usageStatus (usageOfArgs (.name false :: rest) sk mk) = some .uiError := by
    simp only [usageStatus, usageOfArgs, expKnownOf]
    repeat' split
    all_goals simp_all
  simp [mainFunc, h]

/-- arguments without a filter prefix after the first position are not looked at -/
theorem c10_later_names_ignored (a : Arg) (pre post : List Arg) (kn : Bool) (sk mk : Bool) :
    usageOfArgs (a :: pre ++ .name kn :: post) sk mk = usageOfArgs (a :: pre ++ post) sk mk := by
  have hf : ∀ l : List Arg, filtersOf (l ++ .name kn :: post) = filtersOf (l ++ post) := by
    intro l
    induction l with
    | nil => simp [filtersOf]
    | cons x xs ih => cases x <;> simp [filtersOf, ih]
  cases a <;> simp [usageOfArgs, expKnownOf, filtersOf, hf]

/-- a first argument with a filter prefix is a filter, not a name: the default experiment is used -/
theorem c10_filter_first_default_experiment (f : FilterExpr) (rest : List Arg) :
    expKnownOf (.filter f :: rest) = true ∧ filtersOf (.filter f :: rest) = f :: filtersOf rest := by
  simp [expKnownOf, filtersOf]

end RB.Sched
