/-
Translation tie for C15: the Lean definitions *generated from
`rebench/statistics.py`* by `tools/py2lean.py` (regenerated from /repo's
working tree on every check run) refine the hand-written model `RB.Stats`,
so every C15 theorem transfers to the generated code.
-/
import RB.Gen.Statistics
import RB.Proofs.C15

namespace RB.Stats
open RB.Gen

/-- the generated state and the model state describe the same statistics -/
def Rel (g : Statistics.S) (s : S) : Prop :=
  g.num_samples = (s.n : Rat) ∧ g.mean = s.mean ∧ g.variance_times_num_samples = s.m2 ∧
  g.min = s.min ∧ g.max = s.max ∧
  -- `std_dev` is tracked through its square: std_dev² = m2 / n (population variance)
  g.std_dev_sq = s.m2 / (s.n : Rat) ∧ (s.n = 0 → s.m2 = 0)

theorem gen_init_rel : Rel Statistics.init init := by
  simp [Rel, Statistics.init, init]

theorem gen_add_rel (g : Statistics.S) (s : S) (x : Rat) (h : Rel g s) :
    Rel (Statistics.add_sample g x) (add s x) := by
  obtain ⟨hn, hmean, hm2, hmin, hmax, hstd, hz⟩ := h
  unfold Statistics.add_sample add
  by_cases h0 : s.n = 0
  · have : g.num_samples = 0 := by rw [hn, h0]; simp
    have hm0 := hz h0
    have hs0 : g.std_dev_sq = 0 := by rw [hstd, hm0]; simp
    simp [Rel, this, h0, hm2, hm0, hs0]
  · have hne : g.num_samples ≠ 0 := by
      rw [hn]; exact_mod_cast h0
    simp only [hne, decide_false, h0, if_false, Bool.false_eq_true]
    refine ⟨?_, ?_, ?_, ?_, ?_, ?_, ?_⟩
    · simp [hn]
    · simp [hn, hmean]
    · simp [hn, hmean, hm2]
    · simp [Statistics.pymin, rmin, hmin]
    · simp [Statistics.pymax, rmax, hmax]
    · simp [hn, hmean, hm2]
    · intro hc; simp at hc

theorem gen_fold_rel (xs : List Rat) : ∀ (g : Statistics.S) (s : S), Rel g s →
    Rel (xs.foldl Statistics.add_sample g) (addAll s xs) := by
  induction xs with
  | nil => intro g s h; simpa [addAll] using h
  | cons x xs ih => intro g s h; exact ih _ _ (gen_add_rel g s x h)

/-- C15 for the code as translated: count, mean, m2 of the generated
`add_sample` folded over any non-empty list are the textbook values; the
reported std_dev is the square root of the population variance Σ(x−mean)²/n -/
theorem gen_c15 (xs : List Rat) (h : xs ≠ []) :
    let g := xs.foldl Statistics.add_sample Statistics.init
    g.num_samples = (xs.length : Rat) ∧ g.mean = tmean xs ∧
    g.variance_times_num_samples = tm2 xs ∧
    g.std_dev_sq = tm2 xs / (xs.length : Rat) := by
  obtain ⟨hn, hmean, hm2, _, _, hstd, _⟩ := gen_fold_rel xs _ _ gen_init_rel
  refine ⟨?_, ?_, ?_, ?_⟩
  · rw [hn, c15_count]
  · rw [hmean]; exact c15_mean xs h
  · rw [hm2]; exact c15_m2 xs h
  · rw [hstd, c15_m2 xs h, c15_count]

end RB.Stats
