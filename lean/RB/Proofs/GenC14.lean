import RB.Gen.RewriteFilter
import RB.Model.Rewrite
/-!
# Translation tie for the rewrite filter (C14)

`RB.Gen.RewriteFilter` is generated from the current source of `_FilePersistence._parse_data_line` and
`_ProfileFilePersistence._parse_data_line` by `tools/py2lean_fn.py`: given whether there is a target file (`-r`),
whether runs are selected, whether the line's run is one of them and whether parsing the line raises, the events are
`write_line` (the line is copied to the filtered file), how the method returns, or the parse error.

Proved: against the model's `fstep` (repaired variant) a measurement line and a damaged data line are copied exactly
when the generated method writes them -- a measurement line iff its run is not selected, a line that does not parse
never (the error is raised before the write); without a target nothing is written; both variants return a pair on
every path.  The lines that `_process_lines` itself decides (`#` lines, the column header, an incomplete last line)
are not part of this tie: its loop body (`continue`, a `try` whose handler resumes the loop, metadata parsing
between the write and the `continue`) is outside what the translator reads; C14's correspondence covers them.
Not imported by `RB.lean`: built by the `gen` entry of the obligations.
-/
namespace RB.Rewrite
open RB.Loader RB.Gen.RewriteFilter

abbrev GEvent := RB.Gen.RewriteFilter.Event

/-- the generated method for the kind of data file -/
def genLine (profile : Bool) (hasTarget hasSel selected parseRaises : Bool) : Option (List GEvent) :=
  if profile then ProfileFilePersistence_parse_data_line hasTarget hasSel selected parseRaises
  else FilePersistence_parse_data_line hasTarget hasSel selected parseRaises

def writes (r : Option (List GEvent)) : Bool :=
  match r with
  | some evs => evs.contains .write_line
  | none => false

/-- a measurement line is copied iff its run is not among the selected ones (an empty selection selects nothing);
a line that does not parse is not copied -/
theorem gen_meas_copied_iff (profile : Bool) (sel : List Nat) (k : Nat) :
    writes (genLine profile true (!sel.isEmpty) (sel.contains k) false) = !sel.contains k ∧
    writes (genLine profile true (!sel.isEmpty) (sel.contains k) true) = false := by
  cases profile <;> cases hs : sel.contains k <;> cases he : sel.isEmpty <;>
    simp [genLine, writes, FilePersistence_parse_data_line, ProfileFilePersistence_parse_data_line] <;>
    (cases sel <;> simp_all)

/-- **the generated decision is the model's `fstep`** (repaired variant) for the lines `_parse_data_line` decides:
whenever the model goes on after a measurement line or a damaged data line, it keeps the line exactly when the
generated method writes it -/
theorem gen_filter_eq_model (lv : Variant) (profile : Bool) (sel : List Nat) (st st' : LState) (l : FLine) (keep : Bool)
    (h : fstep lv .repaired profile sel st l = .ok (st', keep)) :
    (∀ m k, l.cls = .meas m → st.runs[m.runIdx]? = some k →
        keep = writes (genLine profile true (!sel.isEmpty) (sel.contains k) false)) ∧
    (∀ e, l.cls = .dataErr e → keep = writes (genLine profile true (!sel.isEmpty) false true)) := by
  constructor
  · intro m k hc hk
    rw [(gen_meas_copied_iff profile sel k).1]
    unfold fstep at h
    simp only [hc, hk] at h
    by_cases hs : k ∈ sel
    · simp [hs, RVariant.repaired] at h
      simp [hs, h.2]
    · have hs' : sel.contains k = false := by simpa using hs
      simp [hs, hs'] at h ⊢
      cases hm : stepMeas st m with
      | error e => simp [hm] at h
      | ok s2 => simp [hm] at h; simp [h.2]
  · intro e hc
    unfold fstep at h
    simp only [hc] at h
    cases ht : tolerate true st e with
    | error x => simp [ht] at h
    | ok s2 =>
      simp [ht] at h
      cases profile <;>
        simp [genLine, writes, FilePersistence_parse_data_line, ProfileFilePersistence_parse_data_line, h.2]

/-- a plain load (no target file) writes nothing -/
theorem gen_no_target_no_write (profile hasSel selected parseRaises : Bool) :
    writes (genLine profile false hasSel selected parseRaises) = false := by
  cases profile <;> cases hasSel <;> cases selected <;> cases parseRaises <;> rfl

/-- the parse error leaves the method before anything is written, and is its only event -/
theorem gen_parse_error_before_write (profile hasTarget hasSel selected : Bool) :
    genLine profile hasTarget hasSel selected true = some [.raise_parse_error] := by
  cases profile <;> rfl

/-- both variants return a pair on every path (the caller unpacks two values): also the profile variant for a
line that is filtered out -/
theorem gen_returns_pair (profile hasTarget hasSel selected : Bool) :
    ∃ evs, genLine profile hasTarget hasSel selected false = some evs ∧
      (evs.getLast? = some .return_pair ∨ evs.getLast? = some .return_pair_with_run) := by
  cases profile <;> cases hasTarget <;> cases hasSel <;> cases selected <;>
    simp [genLine, FilePersistence_parse_data_line, ProfileFilePersistence_parse_data_line]

end RB.Rewrite
