/-
Ctrl-C inside the parallel scheduler's `join()`: what the interrupt handler's wait
loop guarantees.  Used by C08 / C16 / C20 (nothing is recorded, started or left
running once the handler has returned); the scenario generator is
`harness/corr/interrupt_join.py`.
-/
import RB.Model.InterruptJoin

namespace RB.InterruptJoin

theorem finishAt_length (ws : List Worker) (i : Nat) : (finishAt ws i).length = ws.length := by
  induction ws generalizing i with
  | nil => rfl
  | cons w ws ih => cases i <;> simp [finishAt, ih]

/-- a worker that is not running stays so -/
theorem finishAt_keeps (ws : List Worker) (i j : Nat) (w : Worker) (h : ws[j]? = some w) (hr : w.running = false) :
    ∃ w', (finishAt ws i)[j]? = some w' ∧ w'.running = false := by
  induction ws generalizing i j with
  | nil => simp at h
  | cons a ws ih =>
    cases i with
    | zero =>
      cases j with
      | zero => exact ⟨{ a with running := false }, by simp [finishAt], rfl⟩
      | succ j => exact ⟨w, by simpa [finishAt] using h, hr⟩
    | succ i =>
      cases j with
      | zero => exact ⟨w, by simpa [finishAt] using h, hr⟩
      | succ j => simpa [finishAt] using ih i j (by simpa using h)

/-- invariant of the repaired wait loop: every worker the handler has passed is not running -/
def Passed (s : State) : Prop := ∀ j, j < s.pc → ∃ w, s.workers[j]? = some w ∧ w.running = false

theorem step_event_passed (s s' : State) (st : Step) (h : Passed s) (hs : step .event s st = some s') :
    Passed s' := by
  cases st with
  | finish i =>
    simp only [step, Option.some.injEq] at hs
    subst hs
    intro j hj
    obtain ⟨w, hw, hr⟩ := h j hj
    exact finishAt_keeps s.workers i j w hw hr
  | advance =>
    simp only [step] at hs
    cases hw : s.workers[s.pc]? with
    | none => simp [hw] at hs
    | some w =>
      simp only [hw] at hs
      split at hs
      · rename_i hret
        simp only [Option.some.injEq] at hs
        subst hs
        intro j hj
        by_cases hjp : j < s.pc
        · exact h j hjp
        · have : j = s.pc := by simp only at hj; omega
          subst this
          exact ⟨w, hw, by simpa [Wait.returns] using hret⟩
      · cases hs

theorem exec_event_passed (steps : List Step) : ∀ (s s' : State), Passed s → exec .event s steps = some s' → Passed s' := by
  induction steps with
  | nil => intro s s' h he; simp only [exec, Option.some.injEq] at he; subst he; exact h
  | cons st r ih =>
    intro s s' h he
    simp only [exec] at he
    cases hst : step .event s st with
    | none => simp [hst] at he
    | some s1 => simp only [hst] at he; exact ih s1 s' (step_event_passed s s1 st h hst) he

/-- **Repaired handler** (`thread.finished.wait()`): for every number of workers in any state (running or
not, wrongly marked as stopped or not), every order in which the workers finish and every interleaving
with the handler's waits: once the handler has returned, no worker is running — nothing can be recorded,
started or left behind by a worker while or after the caller cleans up. -/
theorem handler_event_waits_for_all (ws : List Worker) (steps : List Step) (s' : State)
    (h : exec .event { workers := ws, pc := 0 } steps = some s') (hd : s'.handlerDone = true) :
    ∀ w ∈ s'.workers, w.running = false := by
  have hp : Passed s' := exec_event_passed steps _ s' (by intro j hj; simp at hj) h
  intro w hw
  obtain ⟨j, hj, hjw⟩ := List.getElem_of_mem hw
  have hpc : s'.pc = s'.workers.length := by simpa [State.handlerDone] using hd
  obtain ⟨w', hw', hr⟩ := hp j (by omega)
  have : w' = w := by
    have := List.getElem?_eq_getElem hj
    rw [this, hjw] at hw'
    exact (Option.some.inj hw').symm
  subst this; exact hr

/-- **Pinned handler** (`thread.join()`): the first worker was marked as stopped by the interrupted
join; the handler returns while it is still running. -/
theorem handler_join_can_return_early :
    ∃ s', exec .join { workers := [{ running := true, marked := true }, { running := false, marked := false }], pc := 0 }
            [.advance, .advance] = some s' ∧ s'.handlerDone = true ∧ ∃ w ∈ s'.workers, w.running = true := by
  refine ⟨{ workers := [{ running := true, marked := true }, { running := false, marked := false }], pc := 2 }, by decide, by decide, ?_⟩
  exact ⟨{ running := true, marked := true }, by decide, rfl⟩

/-- the repaired handler cannot take that step: it stays in the wait until the worker has finished -/
theorem handler_event_blocks_on_running_worker (w : Worker) (ws : List Worker) (hr : w.running = true) :
    step .event { workers := w :: ws, pc := 0 } .advance = none := by
  simp [step, Wait.returns, hr]

end RB.InterruptJoin
