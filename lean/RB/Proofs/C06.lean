/-
C06 — every parsed data point is recorded exactly once, in the right file,
attributed.  Property theorems only; helper lemmas are in
`RB/Proofs/Lemmas/DataFile.lean`.

The file is a list of abstract lines (`RB.DataFile.Line`); `persist` is
`_FilePersistence.persist_data_point`; a session on one file is a load followed
by any sequence of `persist` calls (`writeOps`) — which sequence a scheduler
produces is the subject of `RB.Session` (C08); `Reach` closes that under any
number of sessions starting from an absent file.  All statements hold for
every run / benchmark identity type, every data point and every history.
-/
import RB.Proofs.Lemmas.DataFile
import RB.Model.Session

namespace RB.DataFile

variable {κ β : Type} [DecidableEq κ] [DecidableEq β] (benchOf : κ → β)

/-- "bytes written by earlier sessions are never altered": one
`persist_data_point` only appends -/
theorem c06_append_only_step (k : κ) (dp : DP) (fp : FP κ β) :
    fp.content <+: (persist benchOf k dp fp).content := by
  rw [persist_content', List.append_assoc]
  exact List.prefix_append _ _

/-- … and so does any sequence of them, i.e. a whole session on this file -/
theorem c06_append_only (ops : List (κ × DP)) (fp : FP κ β) :
    fp.content <+: (writeOps benchOf ops fp).content := by
  unfold writeOps
  induction ops generalizing fp with
  | nil => exact List.prefix_refl _
  | cons op ops ih => exact (c06_append_only_step benchOf op.1 op.2 fp).trans (ih _)

/-- "every data point … is appended exactly once … as one tab-separated line per
measurement carrying invocation, iteration, value, unit, criterion and the
run's identifying columns … Nothing else is written as a measurement": the
measurement lines of the file after a session are those before, followed by
exactly one line per measurement of every persisted data point, in order
(warm-up data points are persisted like all others: `persist` does not look at
the iteration). -/
theorem c06_appended_exactly (ops : List (κ × DP)) (fp : FP κ β) :
    (writeOps benchOf ops fp).content.filterMap measProj
      = fp.content.filterMap measProj ++ ops.flatMap (fun op => dpProj op.1 op.2) := by
  unfold writeOps
  induction ops generalizing fp with
  | nil => simp
  | cons op ops ih => rw [List.foldl_cons, ih, persist_measProj]; simp

/-- Profile experiments (`_ProfileFilePersistence`): a profile data point is written as *one* line
(invocation, number of iterations, the run's columns, the run id, the profile as JSON) after the same lazy
open and the same metadata records.  In the model it is a data point with a single entry, and `persist`
appends exactly one measurement line for it — the session-level theorems (`c06_appended_exactly`,
`c06_metadata_precedes`, `c06_header_once`, …) hold for it unchanged; only the layout of the line differs,
which the correspondence check reads with the profile column order. -/
theorem c06_profile_one_line (k : κ) (inv it : Nat) (m : Meas) (fp : FP κ β) :
    (persist benchOf k { inv := inv, it := it, ms := [m] } fp).content.filterMap measProj
      = fp.content.filterMap measProj ++ [(k, inv, it, m)] := by
  rw [persist_measProj]; rfl

/-- "in the right file": a data point of run `c` goes to every file of `c`
(the files of the experiments containing the run) and to no other -/
theorem c06_right_files (c : RB.Session.RunC κ) (dp : DP) (files : List (FP κ β)) (f : Nat)
    (hnd : c.files.Nodup) :
    (RB.Session.persistAll benchOf c dp files)[f]? =
      if f ∈ c.files then (files[f]?).map (persist benchOf c.key dp) else files[f]? := by
  unfold RB.Session.persistAll
  generalize c.files = fl at hnd
  induction fl generalizing files with
  | nil => simp
  | cons g gs ih =>
    rw [List.foldl_cons, ih _ (List.nodup_cons.mp hnd).2]
    have hg : g ∉ gs := (List.nodup_cons.mp hnd).1
    by_cases hfg : f = g
    · subst hfg
      simp [hg]
    · by_cases hf : f ∈ gs
      · simp [hf, Ne.symm hfg]
      · simp [hf, hfg, Ne.symm hfg]

-- non-vacuity of the hypothesis: a run in two files
example : ([0, 2] : List Nat).Nodup := by decide

/-- "after a metadata record describing the run": in every file produced by
any number of sessions, every measurement line is preceded by the `# run_id:`
record with its run id and that run, which is preceded by the `# benchmark:`
record of the run's benchmark (whose JSON carries command line, variables and
effective settings: see C07 `asDict`). -/
theorem c06_metadata_precedes {c : List (Line κ β)} (h : Reach benchOf c)
    (pre post : List (Line κ β)) (inv it : Nat) (m : Meas) (k : κ) (rid : Nat)
    (hc : c = pre ++ .meas inv it m k rid :: post) :
    ∃ bid, .run rid bid k ∈ pre ∧ .bench bid (benchOf k) ∈ pre :=
  (reach_good benchOf h).md.meas_spec benchOf pre post inv it m k rid hc

/-- "the column header appears once per file": a file created by ReBench is
empty (nothing was ever recorded) or contains the header exactly once,
whatever the number of sessions -/
theorem c06_header_once {c : List (Line κ β)} (h : Reach benchOf c) :
    c = [] ∨ headerCount c = 1 :=
  (reach_good benchOf h).hdr

/-- Parallel scheduler.  `persist_data_point` does everything — the lazy open
with the session block and header, the metadata records, the measurement
lines, the flush — while holding the persistence object's lock, so whatever
the worker threads do, the persists on one file happen one after the other:
the file after the session is `writeOps l` for *some* order `l` of the threads'
persists.  Every such `l` (in particular every interleaving of the per-thread
sequences) is a session in the sense of `Reach`; hence the header still occurs
exactly once and the contents stay reachable for the following sessions.
That the lock really encloses the open is what the parallel slice of the
correspondence check exercises with a forced interleaving at `open`. -/
theorem c06_locked_persists_are_a_session {c : List (Line κ β)} (hr : Reach benchOf c) (T : Tables κ β)
    (ls : List (Loaded κ)) (hl : load (fun x => x) (fun x => x) c = .ok (T, ls)) (l : List (κ × DP)) :
    Reach benchOf (writeOps benchOf l (FP.ofTables c T)).content ∧
    ((writeOps benchOf l (FP.ofTables c T)).content = [] ∨
      headerCount (writeOps benchOf l (FP.ofTables c T)).content = 1) :=
  ⟨.session c T ls l hr hl, c06_header_once benchOf (.session c T ls l hr hl)⟩

/-- "each recording session first appends a metadata block": the first
`persist` of a session appends the four-line block (and the header if the file
was empty) before anything else; later ones do not repeat it -/
theorem c06_session_block_first (k : κ) (dp : DP) (c : List (Line κ β)) (T : Tables κ β) :
    ∃ rest, (persist benchOf k dp (FP.ofTables c T)).content
        = c ++ sessionBlock ++ (if c.isEmpty then [.header] else []) ++ rest ∧
      ∀ l ∈ rest, ∀ i, l ≠ .sess i := by
  refine ⟨runLines benchOf k (openFile (FP.ofTables c T)) ++
          measLines k (ensureRun benchOf k (openFile (FP.ofTables c T))).1 dp, ?_, ?_⟩
  · rw [persist_content']
    simp [openLines, FP.ofTables]
  · intro l hl i e
    subst e
    rcases List.mem_append.mp hl with h | h
    · unfold runLines benchLines at h
      split at h
      · simp at h
      · split at h <;> simp at h
    · simp [measLines] at h

theorem c06_session_block_once (k : κ) (dp : DP) (fp : FP κ β) (ho : fp.isOpen = true) :
    ∀ l, l ∈ (persist benchOf k dp fp).content → l ∉ fp.content → ∀ i, l ≠ .sess i := by
  intro l hl hn i e
  subst e
  rw [persist_content'] at hl
  simp only [openLines, ho, if_true, List.nil_append, List.mem_append] at hl
  rcases hl with (hl | hl) | hl
  · exact hn hl
  · unfold runLines benchLines at hl
    split at hl
    · simp at hl
    · split at hl <;> simp at hl
  · simp [measLines] at hl

/-- "from which any password in the source repository URL is removed": when
the URL has a non-empty password, what is recorded is the rendering of a URL
without password component (same scheme, user, path; host lower-cased by
`urlparse`, and — actual behaviour — without the port) -/
theorem c06_password_removed (u : Url) (us pw : List Char) (h : u.auth = some (us, some pw))
    (hne : pw ≠ []) :
    stripPassword u = (u.userOnly us).render ∧ (u.userOnly us).password = none := by
  constructor
  · unfold stripPassword Url.render Url.netloc Url.userOnly
    have : pw.isEmpty = false := by cases pw <;> simp_all
    simp [h, this]
  · simp [Url.password, Url.userOnly]

/-- … "and is unchanged when there was none" (no user info, no password, or an empty one) -/
theorem c06_password_unchanged (u : Url) (h : u.password = none ∨ u.password = some []) :
    stripPassword u = u.render := by
  unfold stripPassword
  unfold Url.password at h
  rcases hu : u.auth with _ | ⟨us, _ | pw⟩
  · rfl
  · rfl
  · simp only [hu] at h
    rcases h with h | h
    · cases h
    · cases h; rfl

-- non-vacuity: concrete URLs with and without password and port
example : stripPassword ⟨"https".toList, some ("me".toList, some "s3cret".toList), "Example.com".toList,
    some "8443".toList, "/a.git".toList⟩ = "https://me@example.com/a.git".toList := by decide
example : stripPassword ⟨"https".toList, none, "example.com".toList, some "8443".toList, "/a.git".toList⟩
    = "https://example.com:8443/a.git".toList := by decide

end RB.DataFile
