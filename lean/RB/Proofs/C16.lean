/-
C16 — timed-out or interrupted invocations are killed with their whole process tree.
Property theorems only; helper lemmas are in `RB/Proofs/Lemmas/Kill.lean`.

Proved here: the traversal (for every finite tree) and the decision logic (for
every situation).  Taken as inputs, explored only by the correspondence check:
`pgrep`, `kill(2)`, signal delivery, and what `Thread.is_alive()` reports after
an interrupted `join` (`aliveReported` next to the truth `childRunning`).
`kills` / `result` / `runTrace` follow the **repaired** `run`; the `…Pinned`
variants are the pinned tree.
-/
import RB.Proofs.Lemmas.Kill

namespace RB.Kill

/-! ### "together with all its descendant processes … leaving no descendant alive" -/

/-- for every finite process tree the kill list is the root followed by a
permutation of its strict descendants: every descendant is on it, exactly as
often as it occurs in the tree, and nothing else -/
theorem c16_collect_all (t : Tree) :
    killList t true = t.pid :: descendants t ∧ (descendants t).Perm (strictDescendants t) ∧
    (killList t true).Perm (allPids t) := by
  refine ⟨rfl, desc_perm t, ?_⟩
  rw [allPids_eq]
  exact List.Perm.cons _ (desc_perm t)

/-- … so: every process of the tree is killed, and only processes of the tree -/
theorem c16_collect_mem (t : Tree) (p : Nat) : p ∈ killList t true ↔ p ∈ allPids t :=
  (c16_collect_all t).2.2.mem_iff

/-- … exactly once when pids are distinct (they are, at one instant) -/
theorem c16_collect_nodup (t : Tree) (h : (allPids t).Nodup) : (killList t true).Nodup :=
  (c16_collect_all t).2.2.nodup_iff.mpr h

/-- without `kill_tree` only the root is signalled -/
theorem c16_kill_root_only (t : Tree) : killList t false = [t.pid] := rfl

-- non-vacuity: a depth-3 tree with distinct pids
example : (allPids (.node 1 [.node 2 [.node 4 [.node 7 []], .node 5 []], .node 3 [.node 6 []]])).Nodup := by decide
example : killList (.node 1 [.node 2 [.node 4 [.node 7 []], .node 5 []], .node 3 [.node 6 []]]) true
    = [1, 2, 3, 4, 5, 7, 6] := by decide

/-! ### descendants that left the process group or the session -/

/-- walking the parent links reaches every process of the tree, whatever groups or sessions
its members moved to -/
theorem c16_collect_ignores_groups (t : GTree) (p : Nat) :
    p ∈ killList t.forget true ↔ p ∈ allPids t.forget :=
  c16_collect_mem t.forget p

/-- a single process-group query does not: a descendant that leads a group of its own
(`setsid`, `start_new_session`) and everything below it are missed -/
theorem c16_group_query_full_fails :
    ¬ (∀ (t : GTree) (p : Nat), p ∈ allPids t.forget → p ∈ killListByGroup t) := by
  intro h
  have := h (.node 1 true [.node 2 false [], .node 3 true [.node 4 false []]]) 4
    (by simp [GTree.forget, forgetList, allPids, allPidsList])
  simp [killListByGroup, groupBelow, groupBelowList] at this

/-- what the group query does reach: nothing outside the tree -/
theorem c16_group_query_sound (t : GTree) (p : Nat) (h : p ∈ killListByGroup t) : p ∈ allPids t.forget := by
  cases t with
  | node q l cs =>
    simp only [killListByGroup, List.mem_cons, groupBelow] at h
    simp only [GTree.forget, allPids, List.mem_cons]
    rcases h with h | h
    · exact Or.inl h
    · exact Or.inr (groupBelowList_sub cs p h)

/-! ### the kill channel with denoise: `sudo -n <denoise> --json kill <pid>` -/

/-- with `uses_sudo` the pids handed to `sudo … kill`, one call each and in this order, are
exactly the kill list of `c16_collect_all` -/
theorem c16_sudo_calls (t : Tree) (kt : Bool) :
    sudoCalls t kt = (killList t kt).map (fun p => ["--json", "kill", toString p]) ∧
    (sudoCalls t kt).length = (killList t kt).length := by
  simp [sudoCalls]

/-- the privileged helper kills the tree below each pid it is given, so over all calls every
process of the tree is killed — already by the first call, with or without `kill_tree` —
and nothing outside the tree -/
theorem c16_sudo_kills_whole_tree (t : Tree) (kt : Bool) (p : Nat) :
    p ∈ sudoKilled t kt ↔ p ∈ allPids t := by
  constructor
  · intro h
    simp only [sudoKilled, List.mem_flatMap] at h
    obtain ⟨q, _, hq⟩ := h
    unfold privilegedKill at hq
    split at hq
    · rename_i st hst
      exact (findSub_sub t q st hst).2 p ((c16_collect_mem st p).mp hq)
    · simp at hq
  · intro h
    simp only [sudoKilled, List.mem_flatMap]
    refine ⟨t.pid, by simp [killList], ?_⟩
    simp only [privilegedKill, findSub_root]
    exact (c16_collect_mem t p).mpr h

/-! ### "whenever a benchmark process runs longer than max_invocation_time, or ReBench is interrupted … while a benchmark process is running" -/

/-- `is_alive()` tells the truth after a `join` that returned normally (finished or timed out) -/
def honestOutsideInterrupt (s : Situation) : Prop :=
  s.joinEnd ≠ .interrupt → s.aliveReported = s.childRunning

/-- a kill happens iff (a limit is set or ReBench was interrupted) and the child is
really still running — whatever `is_alive()` reports after an interrupted join -/
theorem c16_kill_iff (s : Situation) (h : honestOutsideInterrupt s) :
    kills s = true ↔ (s.timeout ≠ -1 ∨ s.joinEnd = .interrupt) ∧ s.childRunning = true := by
  unfold kills killsWith stillRunning wasInterrupted
  by_cases hi : s.joinEnd = .interrupt
  · simp [hi]
  · have := h hi
    simp [hi, this]

/-- on the pinned tree the statement is false: interrupted, child running, but
`is_alive()` reports False (CPython 3.12 after an interrupted `join`) → no kill -/
theorem c16_kill_iff_full_fails :
    ¬ (∀ s : Situation, honestOutsideInterrupt s →
        (killsPinned s = true ↔ (s.timeout ≠ -1 ∨ s.joinEnd = .interrupt) ∧ s.childRunning = true)) := by
  intro h
  have := h ⟨-1, .interrupt, false, true, false⟩ (by intro hne; exact absurd rfl hne)
  revert this
  decide

/-- what does hold on the pinned tree: the same, if `is_alive()` is truthful always -/
theorem c16_kill_iff_pinned_partial (s : Situation) (h : s.aliveReported = s.childRunning) :
    killsPinned s = true ↔ (s.timeout ≠ -1 ∨ s.joinEnd = .interrupt) ∧ s.childRunning = true := by
  unfold killsPinned killsWith stillRunningPinned wasInterrupted
  simp [h]

/-- invocations that finish in time are never killed: if the child is no longer
running when the join ends (it finished; even if an interrupt arrives just then),
no process is signalled, whatever the limit -/
theorem c16_finished_never_killed (s : Situation) (h : honestOutsideInterrupt s)
    (hd : s.childRunning = false) (t : Tree) (kt : Bool) (p : Nat) :
    kills s = false ∧ Ev.kill p ∉ runTrace s t kt := by
  have hk : kills s = false := by
    cases hks : kills s with
    | false => rfl
    | true => exact absurd ((c16_kill_iff s h).mp hks).2 (by simp [hd])
  refine ⟨hk, ?_⟩
  have hk' : killsWith stillRunning s = false := hk
  simp only [runTrace, runTraceWith, hk', Bool.false_eq_true, if_false, List.nil_append, List.mem_singleton]
  cases resultWith stillRunning s <;> simp [endEv]

/-- `-1` disables the limit: without an interrupt nothing is ever killed, however long the child runs -/
theorem c16_minus_one_disables (s : Situation) (ht : s.timeout = -1) (hi : s.joinEnd ≠ .interrupt) :
    kills s = false := by
  simp [kills, killsWith, wasInterrupted, ht, hi]

-- non-vacuity of `honestOutsideInterrupt`: the CPython 3.12 situation satisfies it
example : honestOutsideInterrupt ⟨5, .interrupt, false, true, false⟩ := by intro h; exact absurd rfl h
example : honestOutsideInterrupt ⟨5, .deadline, true, true, false⟩ := by intro _; rfl

/-! ### "terminates that process … before it continues or exits" -/

/-- after an interrupt `run` always re-raises KeyboardInterrupt, and if the child was
running the whole kill list and the join of the worker come first: the trace is
`kill p₁ … kill pₙ, join, raise` -/
theorem c16_interrupt_reraised (s : Situation) (t : Tree) (kt : Bool) (hi : s.joinEnd = .interrupt) :
    result s = .interrupted ∧
    runTrace s t kt =
      (if s.childRunning then (killList t kt).map .kill ++ [.joinWorker] else []) ++ [.raiseInterrupt] := by
  have hw : wasInterrupted s = true := by simp [wasInterrupted, hi]
  have hk : killsWith stillRunning s = s.childRunning := by
    simp [killsWith, stillRunning, hi, wasInterrupted]
  have hr : resultWith stillRunning s = .interrupted := by
    unfold resultWith
    simp [hw]
  refine ⟨hr, ?_⟩
  simp only [runTrace, runTraceWith, hk, hr, endEv]

/-- wherever the interrupt arrives — already while `run` is inside `thread.start()` (a signal at
the very start of a process), or in the join — a launched worker's child tree is killed first -/
theorem c16_interrupt_anywhere_kills (at_ : InterruptAt) (s : Situation) (t : Tree)
    (hi : s.joinEnd = .interrupt) (hr : s.childRunning = true) (p : Nat) (hp : p ∈ allPids t) :
    Ev.kill p ∈ runTraceAt at_ s t true ∧ (runTraceAt at_ s t true).getLast? = some .raiseInterrupt := by
  have h := (c16_interrupt_reraised s t true hi).2
  simp only [runTraceAt, h, hr, if_true]
  refine ⟨?_, by simp⟩
  simp only [List.append_assoc, List.mem_append, List.mem_map]
  exact Or.inl ⟨p, (c16_collect_mem t p).mpr hp, rfl⟩

/-- … and whether or not `Popen` has already returned: an interrupt while the pid is not yet
published kills the child just the same (the kill waits for the pid) -/
theorem c16_kill_independent_of_pid_publication (pidKnown : Bool) (s : Situation) (h : honestOutsideInterrupt s) :
    killsAtPid pidKnown s = true ↔ (s.timeout ≠ -1 ∨ s.joinEnd = .interrupt) ∧ s.childRunning = true :=
  c16_kill_iff s h

/-- a decision that needs the pid at that moment leaves the child of a slow `Popen` running -/
theorem c16_pid_required_full_fails :
    ¬ (∀ (pidKnown : Bool) (s : Situation), honestOutsideInterrupt s →
        (killsOnlyIfPidKnown pidKnown s = true ↔ (s.timeout ≠ -1 ∨ s.joinEnd = .interrupt) ∧ s.childRunning = true)) := by
  intro h
  have := h false ⟨-1, .interrupt, false, true, false⟩ (by intro hne; exact absurd rfl hne)
  revert this
  decide

/-- with `thread.start()` outside the `try` (the tree before the second repair) that is false:
an interrupt during `start()` leaves the child running -/
theorem c16_interrupt_at_start_full_fails :
    ¬ (∀ (at_ : InterruptAt) (s : Situation) (t : Tree), s.joinEnd = .interrupt → s.childRunning = true →
        Ev.kill t.pid ∈ runTraceStartOutside at_ s t true) := by
  intro h
  have := h .start ⟨-1, .interrupt, false, true, false⟩ (.node 1 []) rfl rfl
  revert this
  decide

/-- a time-out (no interrupt): the whole kill list, the join, then the E_TIMEOUT result
with the output read so far -/
theorem c16_timeout_kills_then_returns (s : Situation) (t : Tree) (kt : Bool) (h : honestOutsideInterrupt s)
    (hd : s.joinEnd = .deadline) (hr : s.childRunning = true) (ht : s.timeout ≠ -1) :
    runTrace s t kt = (killList t kt).map .kill ++ [.joinWorker, .ret true] := by
  have hne : s.joinEnd ≠ .interrupt := by rw [hd]; decide
  have ha := h hne
  have hw : wasInterrupted s = false := by simp [wasInterrupted, hne]
  have hk : killsWith stillRunning s = true := by
    simp [killsWith, stillRunning, hne, ha, hr, ht]
  simp [runTrace, runTraceWith, hk, resultWith, hw, endEv]

/-- on the pinned tree the interrupt clause fails: child running, nothing killed before the re-raise -/
theorem c16_interrupt_kills_pinned_fails :
    ¬ (∀ (s : Situation) (t : Tree), s.joinEnd = .interrupt → s.childRunning = true →
        Ev.kill t.pid ∈ runTracePinned s t true) := by
  intro h
  have := h ⟨-1, .interrupt, false, true, false⟩ (.node 1 []) rfl rfl
  revert this
  decide

/-! ### "A timed-out invocation is treated as failed (or, with ignore_timeouts, …) and the remaining work continues" -/

/-- E_TIMEOUT without `ignore_timeouts` (and without `-f`): a failed execution, nothing
recorded. With `ignore_timeouts`: the output printed so far goes to the adapter; the
data points it finds are recorded and the invocation counts as successful. In every
case `execute_run` returns to the scheduler. -/
theorem c16_timeout_classified (parsed : Option Nat) :
    invocation E_TIMEOUT false false parsed = ⟨false, 0, true⟩ ∧
    (∀ n, invocation E_TIMEOUT false true (some n) = ⟨true, n, true⟩) ∧
    invocation E_TIMEOUT false true none = ⟨false, 0, true⟩ ∧
    (∀ rc f i p, (invocation rc f i p).continues = true) := by
  refine ⟨by cases parsed <;> simp [invocation, classify, E_TIMEOUT], fun n => by simp [invocation, classify, E_TIMEOUT], by decide, ?_⟩
  intro rc f i p
  unfold invocation
  split <;> try rfl
  cases p <;> rfl

/-- `ignore_timeouts` changes the treatment of E_TIMEOUT only -/
theorem c16_ignore_timeouts_only_timeouts (rc : Int) (f : Bool) (h : rc ≠ E_TIMEOUT) :
    classify rc f true = classify rc f false := by
  simp [classify, h]

/-! ### limits of 10 minutes and more: joined in slices -/

/-- the slices handed to `thread.join` add up to the limit, each is at most 600 s -/
theorem c16_join_plan (timeout : Nat) :
    (joinPlan timeout).foldl (· + ·) 0 = timeout ∧ ∀ x ∈ joinPlan timeout, 0 < x ∧ x ≤ 600 ∨ timeout < 600 := by
  unfold joinPlan
  split
  · refine ⟨by simp, ?_⟩
    intro x _; right; assumption
  · have := joinSlices_sum (timeout / 600 + 1) timeout (by omega)
    exact ⟨this.1, fun x hx => Or.inl (this.2 x hx)⟩

end RB.Kill
