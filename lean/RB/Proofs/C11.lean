/-
C11 — execution order never changes what is executed or recorded.
Property theorems only; helper lemmas are in `RB/Proofs/Lemmas/Sched.lean`.

Two levels. (1) An *abstract scheduler*: any sequence of picks of unfinished
runs that ends when none is left, over independent per-run step functions. The
batch, round-robin and random schedulers are proved to be instances (through
`seq_run_spec`); every observed execution of the parallel scheduler is checked
to be one by the correspondence (`c11.exec`: `valid`, `complete`, same trace).
(2) The concrete sequential session model, including the one way runs interact
(a missing executable).
-/
import RB.Proofs.Lemmas.Sched

namespace RB.Sched
open RB.Term

variable {σ ε : Type}

/-- **Schedule independence, abstract.** For any two valid and complete pick
sequences over the same system and start state (picks taken from `runs`):
every run has the same events (processes started with their invocation numbers,
data recorded) in the same per-run order and the same final state — completed or
abandoned alike. -/
theorem c11_schedule_independent_abstract (S : Sys σ ε) (g : Nat → σ) (runs ps qs : List Nat)
    (hv1 : valid S g ps = true) (hc1 : complete S g runs ps = true) (hs1 : ∀ p ∈ ps, p ∈ runs)
    (hv2 : valid S g qs = true) (hc2 : complete S g runs qs = true) (hs2 : ∀ p ∈ qs, p ∈ runs) (r : Nat) :
    proj r (exec S g ps).2 = proj r (exec S g qs).2 ∧ (exec S g ps).1 r = (exec S g qs).1 r := by
  obtain ⟨a1, a2⟩ := exec_proj S g ps r
  obtain ⟨b1, b2⟩ := exec_proj S g qs r
  have hcount : ps.count r = qs.count r := by
    by_cases hr : r ∈ runs
    · simp only [complete, List.all_eq_true] at hc1 hc2
      have d1 := hc1 r hr
      have d2 := hc2 r hr
      rw [a2] at d1
      rw [b2] at d2
      exact first_done_unique S r (g r) _ _ d1 (valid_solo S g ps r hv1) d2 (valid_solo S g qs r hv2)
    · rw [List.count_eq_zero.mpr (fun h => hr (hs1 r h)), List.count_eq_zero.mpr (fun h => hr (hs2 r h))]
  rw [a1, a2, b1, b2, hcount]
  exact ⟨rfl, rfl⟩

/-- … hence the two traces are permutations of each other: the same multiset of
(run, invocation) process starts and the same multiset of recorded data points -/
theorem c11_schedule_independent_abstract_perm [DecidableEq ε] (S : Sys σ ε) (g : Nat → σ) (runs ps qs : List Nat)
    (hv1 : valid S g ps = true) (hc1 : complete S g runs ps = true) (hs1 : ∀ p ∈ ps, p ∈ runs)
    (hv2 : valid S g qs = true) (hc2 : complete S g runs qs = true) (hs2 : ∀ p ∈ qs, p ∈ runs) :
    (exec S g ps).2.Perm (exec S g qs).2 :=
  perm_of_proj _ _ (fun r => (c11_schedule_independent_abstract S g runs ps qs hv1 hc1 hs1 hv2 hc2 hs2 r).1)

/-- non-vacuity: round-robin-like and batch-like pick sequences over two runs of
the half-step system (start, end of process) are both valid and complete -/
example : let cf : Conf := { run := fun _ => { cfg := { N := 2, retries := 0 }, exe := 0 } }
    let g : Nat → RunSt := fun _ => { script := [.exit 0 false 1, .exit 0 false 1] }
    valid (halfSys cf) g [0, 1, 1, 0, 0, 1, 0, 1] = true ∧ complete (halfSys cf) g [0, 1] [0, 1, 1, 0, 0, 1, 0, 1] = true ∧
    valid (halfSys cf) g [0, 0, 0, 0, 1, 1, 1, 1] = true ∧ complete (halfSys cf) g [0, 1] [0, 0, 0, 0, 1, 1, 1, 1] = true := by
  decide

/-- no process returns 127 (the one way in which the schedule matters, see
`c11_schedule_independent_full_fails`) -/
def NoNF (cf : Conf) (g : G) : Prop :=
  ∀ r, (g.rs r).t.exeMissing = false ∧ ∀ o ∈ (g.rs r).script, classify (cf.run r).cfg o ≠ .notFound

theorem NoNF.shared {cf : Conf} {g : G} (h : NoNF cf g) (r : Nat) : NoSharedNF cf r g :=
  fun q _ _ => h q

/-- FULL STATEMENT (false of the current code):
    for every configuration, loaded state, order, any two schedulers `k₁ k₂` and
    choice streams `cs₁ cs₂` with both sessions finished, the traces (build
    commands aside) are permutations of each other.
Witness: two runs of one executable whose second invocation returns 127: under
batch the second run is still started twice, under round-robin it has built its
command line when the 127 is discovered and is cut short. -/
theorem c11_schedule_independent_full_fails :
    ¬ (∀ (cf : Conf) (g : G) (order : List Nat) (k₁ k₂ : Kind) (cs₁ cs₂ : List Nat),
        (session cf k₁ g order cs₁).finished = true → (session cf k₂ g order cs₂).finished = true →
        ((session cf k₁ g order cs₁).trace.filter noBuildT).Perm ((session cf k₂ g order cs₂).trace.filter noBuildT)) := by
  intro h
  have := h { run := fun _ => { cfg := { N := 2, retries := 0 }, exe := 0 } }
    { rs := fun _ => { script := [.exit 0 false 1, .exit 127 false 0] } } [0, 1] .batch .roundRobin
    (List.replicate 6 0) (List.replicate 6 0) (by decide) (by decide)
  have hl := this.length_eq
  revert hl
  decide

/-- **Schedule independence of the sequential schedulers** (`_partial`: under the
hypothesis that no process returns 127). Builds are allowed — executor and suite
builds, shared or private, succeeding or failing: a successful build is
transparent, a failed one makes every run that depends on it end with nothing
started and nothing recorded whatever the order. For batch, round-robin and
random with any choice streams, any two finished sessions from the same loaded
state (empty build table): the traces, build commands aside, are permutations
of each other (same multiset of (run, invocation) starts, same multiset of
recorded data points) and every run ends in the same state (same number of
invocations recorded, completed or abandoned alike). -/
theorem c11_schedule_independent_partial (cf : Conf) (g : G) (order : List Nat) (k₁ k₂ : Kind)
    (cs₁ cs₂ : List Nat) (hnf : NoNF cf g) (hfresh : ∀ b, g.bst b = none) (hnd : order.Nodup)
    (hf1 : (session cf k₁ g order cs₁).finished = true) (hf2 : (session cf k₂ g order cs₂).finished = true) :
    ((session cf k₁ g order cs₁).trace.filter noBuildT).Perm ((session cf k₂ g order cs₂).trace.filter noBuildT) ∧
    ∀ r, (session cf k₁ g order cs₁).g.rs r = (session cf k₂ g order cs₂).g.rs r := by
  have hnd' := hnd.sublist (List.filter_sublist (l := order) (p := fun r => !shouldTerminate (cf.run r).cfg (g.rs r).t))
  have key : ∀ r, projR r (session cf k₁ g order cs₁).trace = projR r (session cf k₂ g order cs₂).trace ∧
      (session cf k₁ g order cs₁).g.rs r = (session cf k₂ g order cs₂).g.rs r := by
    intro r
    simp only [session] at hf1 hf2 ⊢
    rcases buildsOk_or_failBuild cf r with hb | hfb
    · have A := seq_run_spec_builds cf k₁ r hb cs₁ g (uncompleted cf g order) hnd'
        (hnf.shared r) (bstSound_of_fresh cf g hfresh) (uncompleted_not_done' cf g order r)
      have B := seq_run_spec_builds cf k₂ r hb cs₂ g (uncompleted cf g order) hnd'
        (hnf.shared r) (bstSound_of_fresh cf g hfresh) (uncompleted_not_done' cf g order r)
      obtain ⟨a1, a2, a3, a4⟩ := A
      obtain ⟨b1, b2, b3, b4⟩ := B
      have hcount : (seqLoop cf k₁ g (uncompleted cf g order) cs₁).picks.count r
          = (seqLoop cf k₂ g (uncompleted cf g order) cs₂).picks.count r := by
        by_cases hm : r ∈ uncompleted cf g order
        · have d1 := a4 hf1 hm
          have d2 := b4 hf2 hm
          rw [a2] at d1
          rw [b2] at d2
          exact first_done_unique (runSys cf) r (g.rs r) _ _ d1 a3 d2 b3
        · rw [List.count_eq_zero.mpr (fun h => hm (seqLoop_picks_subset _ _ _ _ _ r h)),
              List.count_eq_zero.mpr (fun h => hm (seqLoop_picks_subset _ _ _ _ _ r h))]
      rw [a1, a2, b1, b2, hcount]
      exact ⟨rfl, rfl⟩
    · by_cases hm : r ∈ uncompleted cf g order
      · have A := seq_run_spec_failbuild cf k₁ r hfb cs₁ g (uncompleted cf g order) hnd'
          (hnf.shared r) (bstSoundT_of_fresh cf g hfresh) (uncompleted_not_terminated cf g order r)
        have B := seq_run_spec_failbuild cf k₂ r hfb cs₂ g (uncompleted cf g order) hnd'
          (hnf.shared r) (bstSoundT_of_fresh cf g hfresh) (uncompleted_not_terminated cf g order r)
        rw [A.1, B.1, A.2 hf1 hm, B.2 hf2 hm]
        exact ⟨rfl, rfl⟩
      · obtain ⟨u1, u2⟩ := seqLoop_untouched cf k₁ r cs₁ g _ hm
        obtain ⟨v1, v2⟩ := seqLoop_untouched cf k₂ r cs₂ g _ hm
        rw [u1, v1, projR_of_proj_nil _ _ u2, projR_of_proj_nil _ _ v2]
        exact ⟨rfl, rfl⟩
  refine ⟨perm_of_proj _ _ (fun r => ?_), fun r => (key r).2⟩
  rw [proj_filter_noBuild, proj_filter_noBuild]
  exact (key r).1

/-- non-vacuity: a failing-and-retried run, a run with a failing private build
and a run with a succeeding one -/
example : let cf : Conf := { run := fun i => { cfg := { N := 2, retries := 2 }, exe := 0,
                                               builds := if i = 1 then [7] else if i = 2 then [8] else [] },
                             buildOk := fun b => b != 7 }
    let g : G := { rs := fun i => { script := if i = 0 then [.exit 1 false 0, .exit 0 false 1, .exit 0 false 2]
                                              else [.exit 0 false 1, .exit 0 false 1] } }
    (session cf .batch g [0, 1, 2] (List.replicate 9 0)).finished = true ∧
    (session cf .random g [0, 1, 2] [1, 0, 1, 0, 1, 1, 1, 0, 0, 0, 0]).finished = true ∧
    (session cf .roundRobin g [0, 1, 2] (List.replicate 9 0)).trace.filter noBuildT
      = [(0, .start 1), (2, .start 1), (2, .record 1 1), (0, .start 1), (0, .record 1 1), (2, .start 2),
         (2, .record 2 1), (0, .start 2), (0, .record 2 2)] := by decide

/-- no build fails (builds may be configured) -/
def AllBuildsOk (cf : Conf) : Prop := ∀ r, BuildsOk cf r

/-- the sequential schedulers are instances of the abstract scheduler: when no
process returns 127 and no build fails, a session's trace (build commands
aside) is the abstract execution of its own pick sequence -/
theorem c11_sequential_is_instance_partial (cf : Conf) (k : Kind) (g : G) (order cs : List Nat)
    (hnf : NoNF cf g) (hbo : AllBuildsOk cf) (hfresh : ∀ b, g.bst b = none) (hnd : order.Nodup) (r : Nat) :
    projR r (session cf k g order cs).trace = proj r (exec (runSys cf) g.rs (session cf k g order cs).picks).2 ∧
    (session cf k g order cs).g.rs r = (exec (runSys cf) g.rs (session cf k g order cs).picks).1 r := by
  have A := seq_run_spec_builds cf k r (hbo r) cs g (uncompleted cf g order) (hnd.sublist List.filter_sublist)
    (hnf.shared r) (bstSound_of_fresh cf g hfresh) (uncompleted_not_done' cf g order r)
  obtain ⟨e1, e2⟩ := exec_proj (runSys cf) g.rs (session cf k g order cs).picks r
  simp only [session] at e1 e2 ⊢
  rw [A.1, A.2.1, e1, e2]
  exact ⟨rfl, rfl⟩

/-- **The parallel scheduler records what the sequential ones record** (`_partial`:
no 127, no failing build, known adapters). Take any valid and complete pick
sequence of the half-step system (process starts and ends of concurrently
running benchmarks in any completion order — what the parallel scheduler's
worker threads produce) and any finished sequential session (batch, round-robin
or random) from the same loaded state: every run has the same events (starts
with their invocation numbers, recorded data) and ends in the same state. -/
theorem c11_parallel_equals_sequential_partial (cf : Conf) (g : G) (order : List Nat) (k : Kind) (cs ps : List Nat)
    (hnf : NoNF cf g) (hbo : AllBuildsOk cf) (hfresh : ∀ b, g.bst b = none) (hnd : order.Nodup)
    (hak : ∀ r, (cf.run r).adapterKnown = true) (hnp : ∀ r, (g.rs r).pending = false)
    (hfin : (session cf k g order cs).finished = true)
    (hv : valid (halfSys cf) g.rs ps = true)
    (hc : complete (halfSys cf) g.rs (uncompleted cf g order) ps = true)
    (hs : ∀ p ∈ ps, p ∈ uncompleted cf g order) (r : Nat) :
    proj r (exec (halfSys cf) g.rs ps).2 = projR r (session cf k g order cs).trace ∧
    (exec (halfSys cf) g.rs ps).1 r = (session cf k g order cs).g.rs r := by
  have A := seq_run_spec_builds cf k r (hbo r) cs g (uncompleted cf g order) (hnd.sublist List.filter_sublist)
    (hnf.shared r) (bstSound_of_fresh cf g hfresh) (uncompleted_not_done' cf g order r)
  obtain ⟨e1, e2⟩ := exec_proj (halfSys cf) g.rs ps r
  simp only [session] at hfin ⊢
  obtain ⟨a1, a2, a3, a4⟩ := A
  have hcount : ps.count r = 2 * (seqLoop cf k g (uncompleted cf g order) cs).picks.count r := by
    by_cases hm : r ∈ uncompleted cf g order
    · have dF := a4 hfin hm
      rw [a2] at dF
      simp only [complete, List.all_eq_true] at hc
      have dH := hc r hm
      rw [e2] at dH
      apply first_done_unique (halfSys cf) r (g.rs r) _ _ dH (valid_solo (halfSys cf) g.rs ps r hv)
      · show halfDone (cf.run r) _ = true
        rw [solo_half_double cf r (hak r) _ _ (hnp r), halfDone_of_not_pending]
        · exact dF
        · rw [solo_runSys_pending]; exact hnp r
      · intro j hj
        show halfDone (cf.run r) _ = false
        have hj2 : j = 2 * (j / 2) ∨ j = 2 * (j / 2) + 1 := by omega
        generalize j / 2 = i at hj2
        rcases hj2 with hi | hi
        · subst hi
          rw [solo_half_double cf r (hak r) _ _ (hnp r), halfDone_of_not_pending]
          · exact a3 i (by omega)
          · rw [solo_runSys_pending]; exact hnp r
        · subst hi
          exact solo_half_odd_not_done cf r (hak r) i _ (hnp r) (a3 i (by omega))
    · rw [List.count_eq_zero.mpr (fun h => hm (hs r h)),
          List.count_eq_zero.mpr (fun h => hm (seqLoop_picks_subset _ _ _ _ _ r h))]
  rw [e1, e2, a1, a2, hcount, solo_half_double cf r (hak r) _ _ (hnp r)]
  exact ⟨rfl, rfl⟩

/-- non-vacuity: an interleaving of two runs and a batch session -/
example : let cf : Conf := { run := fun _ => { cfg := { N := 2, retries := 1 }, exe := 0, builds := [3] } }
    let g : G := { rs := fun i => { script := if i = 0 then [.exit 0 false 2, .exit 1 false 0, .exit 0 false 1]
                                              else [.exit 0 false 1, .exit 0 false 1] } }
    (session cf .batch g [0, 1] (List.replicate 8 0)).finished = true ∧
    valid (halfSys cf) g.rs [0, 1, 1, 0, 1, 0, 0, 1] = true ∧
    complete (halfSys cf) g.rs (uncompleted cf g [0, 1]) [0, 1, 1, 0, 1, 0, 0, 1] = true := by decide

/-! ### the lines of one data point -/

theorem fileLines_append (crit : Nat) (a b : List (Nat × Ev)) :
    fileLines crit (a ++ b) = fileLines crit a ++ fileLines crit b := by
  induction a with
  | nil => rfl
  | cons e a ih =>
    obtain ⟨r, ev⟩ := e
    cases ev <;> simp [fileLines, ih]

/-- **A data point's lines are contiguous.** In the file left by any trace
(any interleaving of the runs), the lines of a recorded data point — invocation
`inv` of run `r`, iteration `j` — appear as one uninterrupted block. (The model
takes `persist_data_point` as atomic, which is what the file lock provides; the
correspondence checks the grouping of lines in the real files under the thread
controller.) -/
theorem c11_datapoint_contiguous (crit : Nat) (tr : List (Nat × Ev)) (r inv dps j : Nat)
    (hrec : (r, Ev.record inv dps) ∈ tr) (hj : j < dps) :
    ∃ pre post, fileLines crit tr = pre ++ dpLines crit r inv (j + 1) ++ post := by
  obtain ⟨a, b, rfl⟩ := List.append_of_mem hrec
  have hblock : ∀ dps, j < dps → ∃ p q, recordLines crit r inv dps = p ++ dpLines crit r inv (j + 1) ++ q := by
    intro dps
    induction dps with
    | zero => intro h; omega
    | succ d ih =>
      intro h
      have hs : recordLines crit r inv (d + 1) = recordLines crit r inv d ++ dpLines crit r inv (d + 1) := by
        simp [recordLines, List.range_succ, List.flatMap_append]
      by_cases hjd : j = d
      · subst hjd; exact ⟨recordLines crit r inv j, [], by rw [hs]; simp⟩
      · obtain ⟨p, q, hpq⟩ := ih (by omega)
        exact ⟨p, q ++ dpLines crit r inv (d + 1), by rw [hs, hpq]; simp [List.append_assoc]⟩
  obtain ⟨p, q, hpq⟩ := hblock dps hj
  refine ⟨fileLines crit a ++ p, q ++ fileLines crit b, ?_⟩
  rw [fileLines_append]
  simp only [fileLines, hpq, List.append_assoc]

example : (0, Ev.record 1 2) ∈ [(1, Ev.start 1), (0, Ev.record 1 2), (1, Ev.record 1 1)] := by decide

end RB.Sched

namespace RB.Sched

/-! ### every run is handed to exactly one worker -/

/-- one `acquire_work`: the chunk is not empty and chunk and remainder together
are exactly the list before (the chunk is its reversed tail) -/
theorem c11_acquire_partition (threads : Nat) (rem c rest : List Nat) (h : acquire threads rem = some (c, rest)) :
    c ≠ [] ∧ rest ++ c.reverse = rem ∧ rest.length < rem.length := by
  unfold acquire at h
  split at h
  · exact absurd h (by simp)
  · rename_i hne
    simp only [Option.some.injEq, Prod.mk.injEq] at h
    obtain ⟨hc, hr⟩ := h
    have hlen : rem.length > 0 := List.length_pos_iff.mpr hne
    have hnum : perThread threads rem.length ≥ 1 := by unfold perThread; omega
    subst hc; subst hr
    refine ⟨?_, by simp, ?_⟩
    · intro e
      have := congrArg List.length e
      simp at this
      omega
    · simp; omega

/-- all successive `acquire_work` calls together hand out every run of the
shared list exactly as often as it occurs there — i.e. (the runs of a session
being distinct) every run goes to exactly one worker — and no chunk is empty -/
theorem c11_chunks_partition (threads : Nat) (rem : List Nat) :
    (chunks threads rem).flatten.Perm rem ∧ ∀ c ∈ chunks threads rem, c ≠ [] := by
  unfold chunks
  have gen : ∀ fuel rem, rem.length ≤ fuel →
      (chunksAux threads fuel rem).flatten.Perm rem ∧ ∀ c ∈ chunksAux threads fuel rem, c ≠ [] := by
    intro fuel
    induction fuel with
    | zero =>
      intro rem h
      have : rem = [] := List.eq_nil_of_length_eq_zero (by omega)
      subst this; simp [chunksAux]
    | succ fuel ih =>
      intro rem h
      unfold chunksAux
      cases ha : acquire threads rem with
      | none =>
        have : rem = [] := by
          unfold acquire at ha
          split at ha
          · assumption
          · simp at ha
        subst this; simp
      | some p =>
        obtain ⟨c, rest⟩ := p
        obtain ⟨h1, h2, h3⟩ := c11_acquire_partition threads rem c rest ha
        obtain ⟨i1, i2⟩ := ih rest (by omega)
        simp only [List.flatten_cons, List.mem_cons]
        refine ⟨?_, ?_⟩
        · have : (c ++ (chunksAux threads fuel rest).flatten).Perm (c.reverse ++ rest) :=
            List.Perm.append (List.reverse_perm c).symm i1
          rw [← h2]
          exact this.trans List.perm_append_comm
        · intro x hx
          rcases hx with hx | hx
          · rw [hx]; exact h1
          · exact i2 x hx
  exact gen rem.length rem (Nat.le_refl _)

theorem c11_each_run_in_one_chunk (threads : Nat) (rem : List Nat) (r : Nat) :
    (chunks threads rem).flatten.count r = rem.count r :=
  (c11_chunks_partition threads rem).1.count_eq r

/-- FULL STATEMENT (false of the pinned tree): whenever the parallel scheduler
is chosen (more than one core) every run of the shared list is handed to a
worker. Witness: two cores give `floor(2 / 2.5) = 0` worker threads, so no
non-exclusive run is ever executed. -/
theorem c11_every_run_handed_out_pinned_full_fails :
    ¬ (∀ (cpu : Nat) (rem : List Nat), cpu > 1 → (handout (numThreadsPinned cpu) rem).flatten.Perm rem) := by
  intro h
  have := (h 2 [0, 1] (by decide)).length_eq
  revert this
  decide

/-- repaired (at least one worker thread): every run is handed to exactly one worker -/
theorem c11_every_run_handed_out (cpu : Nat) (rem : List Nat) :
    (handout (numThreads cpu) rem).flatten.Perm rem ∧ ∀ c ∈ handout (numThreads cpu) rem, c ≠ [] := by
  have hpos : numThreads cpu ≠ 0 := by unfold numThreads; omega
  simp only [handout, hpos, if_false]
  exact c11_chunks_partition _ rem

example : handout (numThreads 8) [0, 1, 2, 3, 4, 5, 6] = [[6, 5], [4], [3], [2], [1], [0]] := by decide

end RB.Sched
