/-
C12 — adapters are total: any output gives well-formed data points or a clean
reject.  Property theorems only; the loop invariants are in
`RB/Proofs/Lemmas/Adapters.lean`.

`OutcomeWF inv o` is the property's disjunction: `o` is a reject
(`OutputNotParseable` / `ResultsIndicatedAsInvalid`) or a non-empty list of
data points in which every data point has exactly one `total`, placed last,
every measurement carries invocation `inv`, and the i-th data point carries
iteration `i` (from 1); `o` is never another exception.

The theorems about the loops hold for *every* classifier function, stop test
and marker test, hence for any regular expressions whatsoever, and for every
list of lines.
-/
import RB.Proofs.Lemmas.Adapters
import RB.Proofs.Lemmas.AdaptersValidation

namespace RB.Adapters

/-! ## the three loops, for arbitrary classifiers -/

/-- open-data-point loop (ReBenchLog, PlainSecondsLog, ValidationLog, Time -f):
for every classifier whose *additional* measurements of a line are not totals,
every marker / stop test and every text, the result is a reject or well formed;
the builder's two error branches (`UIError`, `ValueError`) are unreachable. -/
theorem c12_collect_wf (cfg : Cfg) (hc : PreNonTotal cfg.classify) (inv : Nat) (ls : List Line) :
    OutcomeWF inv (collect cfg inv ls) :=
  collectLoop_wf cfg hc inv ls 1 DP.empty [] (open_empty inv 1) rfl (by simp [WFfrom])

/-- the hypothesis of `c12_collect_wf` is satisfiable in a non-trivial way: a
classifier that yields an extra criterion and totals -/
example : PreNonTotal (fun l => if l = ['t'] then
    some { pre := [{ criterion := ['S'], unit := ['b'], value := .bool true }],
           main := { criterion := totalName, unit := ms, value := .int 0 } } else none) := by
  intro l lm h p hp
  dsimp only at h
  split at h
  · simp at h; subst h; simp at hp; subst hp; rfl
  · cases h

/-- without that hypothesis the statement is false: a line that adds two totals
runs into the builder's `ValueError` -/
theorem c12_collect_wf_needs_hyp :
    collect { stop := noStop, marker := fun _ => false,
              classify := fun _ => some { pre := [{ criterion := totalName, unit := ms, value := .int 0 }],
                                          main := { criterion := totalName, unit := ms, value := .int 0 } } }
      1 [[]] = .crash .valueError := by decide

/-- fresh-data-point loop (SavinaLog, JMH): for every classifier, stop test,
marker test and text -/
theorem c12_collectFresh_wf (cfg : FreshCfg) (inv : Nat) (ls : List Line) :
    OutcomeWF inv (collectFresh cfg inv ls) :=
  freshLoop_wf cfg inv ls 1 [] rfl (by simp [WFfrom])

/-- the `time -p` loop: for every classifier, marker test and text.  (The proof
also shows that the closing test of `time_adapter.py:129-133` never fires:
there is at most one data point, of iteration 1.) -/
theorem c12_time_p_wf (marker : Line → Bool) (classify : Line → Option (List Char × Val)) (inv : Nat)
    (ls : List Line) : OutcomeWF inv (collectTimeP marker classify inv ls) :=
  timePLoop_wf marker classify inv ls _
    ⟨rfl, rfl, open_empty inv 1, by intro t h; cases h⟩

/-- `time -p` returns at most one data point -/
theorem c12_time_p_single (marker : Line → Bool) (classify : Line → Option (List Char × Val)) (inv : Nat)
    (ls : List Line) (dps : List (List Meas)) (h : collectTimeP marker classify inv ls = .ok dps) :
    dps.length = 1 := by
  have key : ∀ (ls : List Line) st, TimePInv inv st → timePLoop marker classify inv ls st = .ok dps →
      dps.length = 1 := by
    intro ls
    induction ls with
    | nil =>
      intro st hst h
      simp only [timePLoop] at h
      cases ht : st.totalMeasure with
      | none => simp [ht, hst.done0, finish] at h
      | some t =>
        simp only [ht] at h
        cases hadd : st.cur.add t with
        | error e => simp [hadd] at h
        | ok c => simp [hadd, hst.done0, finish] at h; subst h; simp
    | cons l ls ih =>
      intro st hst h
      simp only [timePLoop] at h
      split at h
      · cases h
      · obtain ⟨st', hst', hinv'⟩ := timePStep_inv classify inv l hst
        simp only [hst'] at h
        have hnt : ¬ (st'.cur.ms.length = 3 ∧ st'.cur.total.isSome = true) := by
          intro hx; have := hinv'.cur.noTotal; simp [this] at hx
        simp only [hnt, if_false] at h
        exact ih st' hinv' h
  exact key ls _ ⟨rfl, rfl, open_empty inv 1, by intro t h; cases h⟩ h

/-! ## failure markers -/

/-- a marker line in the part of the text the loop looks at (before the first
`stop` line; all of it when there is no stop test) makes the open-data-point
loop reject with `ResultsIndicatedAsInvalid`, whatever else the text contains -/
theorem c12_marker_rejects (cfg : Cfg) (hc : PreNonTotal cfg.classify) (inv : Nat) (ls : List Line)
    (h : ∃ l ∈ visible cfg.stop ls, cfg.marker l = true) : collect cfg inv ls = .invalid :=
  collectLoop_marker cfg hc inv ls 1 DP.empty [] (open_empty inv 1) h

theorem c12_marker_rejects_fresh (cfg : FreshCfg) (inv : Nat) (ls : List Line)
    (h : ∃ l ∈ visible cfg.stop ls, cfg.marker l = true) : collectFresh cfg inv ls = .invalid :=
  freshLoop_marker cfg inv ls 1 [] h

theorem c12_marker_rejects_time_p (marker : Line → Bool) (classify : Line → Option (List Char × Val))
    (inv : Nat) (ls : List Line) (h : ∃ l ∈ ls, marker l = true) :
    collectTimeP marker classify inv ls = .invalid :=
  timePLoop_marker marker classify inv ls _ ⟨rfl, rfl, open_empty inv 1, by intro t h; cases h⟩ h

/-- the hypotheses are satisfiable: a marker line after a line that stops nothing -/
example : ∃ l ∈ visible (cfgJMH false).stop ["x".toList, "Bus error".toList], (cfgJMH false).marker l = true :=
  ⟨"Bus error".toList, by decide, by decide⟩

/-- the three common markers of `adapter.py:33-35` -/
def commonMarker (l : Line) : Bool := reError.search l || reSegfault.search l || reBusError.search l

/-- `check_for_error` answers "no" whenever faulty results were requested … -/
theorem c12_checkForError_faulty (others : List Re) (l : Line) : checkForError true others l = false := rfl

/-- … and "yes" on every line with a common marker otherwise -/
theorem c12_checkForError_common (others : List Re) (l : Line) (h : commonMarker l = true) :
    checkForError false others l = true := by
  unfold commonMarker at h
  simp only [checkForError, Bool.false_eq_true, if_false]
  rw [h]; rfl

/-- the adapter-specific markers (`.*Failed.*verification`, `.*Benchmark done.*verification failed`,
`.*incorrect.*`, `.*error.*`) are looked for with Python's `search`; the model tries offset 0 only,
which is the same thing for a pattern that starts with `.*` -/
theorem c12_dotStar_markers_search (l : Line) :
    reNPBPartial.search l = reNPBPartial.searchDotStar l ∧ reNPBInvalid.search l = reNPBInvalid.searchDotStar l ∧
    reIncorrect.search l = reIncorrect.searchDotStar l ∧ reErr.search l = reErr.searchDotStar l :=
  ⟨search_dotStar _ l, search_dotStar _ l, search_dotStar _ l, search_dotStar _ l⟩

/-! ## the adapters -/

/-- every built-in adapter except ValidationLog, both `include_faulty` settings,
every invocation number, every text: a reject or a well-formed result -/
theorem c12_parse_wf (a : Adapter) (ha : a ≠ .validation) (faulty : Bool) (inv : Nat) (text : List Char) :
    ∃ o, parse a faulty inv text = .out o ∧ OutcomeWF inv o := by
  cases a with
  | rebenchLog => exact ⟨_, rfl, c12_collect_wf _ preNonTotal_rebenchLog inv _⟩
  | plainSeconds => exact ⟨_, rfl, c12_collect_wf _ preNonTotal_plainSeconds inv _⟩
  | savina => exact ⟨_, rfl, c12_collectFresh_wf _ inv _⟩
  | validation => exact absurd rfl ha
  | jmh => exact ⟨_, rfl, c12_collectFresh_wf _ inv _⟩
  | timeFormatted => exact ⟨_, rfl, c12_collect_wf _ preNonTotal_timeFormatted inv _⟩
  | timeP => exact ⟨_, rfl, c12_time_p_wf _ _ inv _⟩

/-
Full statement for ValidationLog (false of the code, see `c12_validation_wf_full_fails`):

  theorem c12_validation_wf (faulty : Bool) (inv : Nat) (text : List Char) :
      ∃ o, parse .validation faulty inv text = .out o ∧ OutcomeWF inv o
-/

/-- ValidationLog: the same, for every text in which no `[Total] A#… M#… P#…`
line read before the first marker line has a counter of more than 4300 digits
(what CPython's `int()` refuses with a `ValueError`: known finding
`C12-validation-int-digits`) -/
theorem c12_validation_wf_partial (faulty : Bool) (inv : Nat) (text : List Char)
    (h : (beforeMarker (cfgValidation faulty).marker (splitLines text)).any actorsOverlong = false) :
    ∃ o, parse .validation faulty inv text = .out o ∧ OutcomeWF inv o := by
  refine ⟨collect (cfgValidation faulty) inv (splitLines text), ?_, c12_collect_wf _ preNonTotal_validation inv _⟩
  simp only [parse, h, Bool.false_eq_true, if_false]

example : (beforeMarker (cfgValidation false).marker
    (splitLines "[Total]\tA#12\tM#3\tP#4\nB: iterations=1 runtime: 5ms success: true".toList)).any actorsOverlong = false := by
  decide +kernel

/-- the full statement fails: every text with such a line (before the first marker line) ends
`parse_data` with the `ValueError` of `int()` instead of a reject or a result -/
theorem c12_validation_wf_full_fails (faulty : Bool) (inv : Nat) (text : List Char)
    (h : (beforeMarker (cfgValidation faulty).marker (splitLines text)).any actorsOverlong = true) :
    parse .validation faulty inv text = .intDigitsError := by
  simp only [parse, h, if_true]

/-- a summary line whose first counter has `n` digits -/
def overlongLine (n : Nat) : ALine :=
  { ws1 := [' '], a := List.replicate n '9', ws2 := [' '], m := ['1'], ws3 := [' '], p := ['1'], tail := [] }

theorem overlongLine_valid (n : Nat) (hn : 0 < n) : (overlongLine n).Valid := by
  have hb : Blank [' '] := ⟨by decide, by decide⟩
  have hd : Digits ['1'] := ⟨by decide, by decide⟩
  refine ⟨hb, ⟨?_, ?_⟩, hb, hd, hb, hd, Or.inl rfl⟩
  · intro h
    have := congrArg List.length h
    simp only [overlongLine, List.length_replicate, List.length_nil] at this
    omega
  · intro c hc
    have : c = '9' := (List.mem_replicate.mp hc).2
    subst this; decide

/-- the full-size witness of `c12_validation_wf_full_fails`: the line `[Total] A#99…9 M#1 P#1` with more
than 4300 nines (for instance 4301) is an over-long summary line — shown symbolically with the
`classify_render` lemmas of C05, because the kernel cannot evaluate the matcher on such a literal -/
theorem c12_validation_overlong_witness (n : Nat) (hn : intMaxStrDigits < n) :
    actorsOverlong (overlongLine n).render = true := by
  have hv := overlongLine_valid n (by unfold intMaxStrDigits at hn; omega)
  simp only [actorsOverlong, actorsOverlongWith, (overlongLine n).noValidation hv, (overlongLine n).pmatch hv,
    capD, cap]
  have : ((overlongLine n).a).length = n := by simp only [overlongLine, List.length_replicate]
  simp [this, hn]

example : actorsOverlong (overlongLine 4301).render = true :=
  c12_validation_overlong_witness 4301 (by decide)

/-- a common marker in the text the adapter looks at, faulty results not
requested: rejected as invalid (all adapters but ValidationLog; JMH looks at the
text before its `Run complete` line, all others at the whole text) -/
theorem c12_parse_marker_rejects (a : Adapter) (ha : a ≠ .validation) (inv : Nat) (text : List Char)
    (h : ∃ l ∈ visible (if a = .jmh then reRunComplete.search else noStop) (splitLines text),
           commonMarker l = true) :
    parse a false inv text = .out .invalid := by
  obtain ⟨l, hl, hm⟩ := h
  cases a with
  | validation => exact absurd rfl ha
  | rebenchLog =>
    exact congrArg Result.out (c12_marker_rejects _ preNonTotal_rebenchLog inv _ ⟨l, hl, c12_checkForError_common _ l hm⟩)
  | plainSeconds =>
    exact congrArg Result.out (c12_marker_rejects _ preNonTotal_plainSeconds inv _ ⟨l, hl, c12_checkForError_common _ l hm⟩)
  | timeFormatted =>
    exact congrArg Result.out (c12_marker_rejects _ preNonTotal_timeFormatted inv _ ⟨l, hl, c12_checkForError_common _ l hm⟩)
  | savina =>
    exact congrArg Result.out (c12_marker_rejects_fresh _ inv _ ⟨l, hl, c12_checkForError_common _ l hm⟩)
  | jmh =>
    exact congrArg Result.out (c12_marker_rejects_fresh _ inv _ ⟨l, hl, c12_checkForError_common _ l hm⟩)
  | timeP =>
    simp only [reduceCtorEq, if_false, visible_noStop] at hl
    exact congrArg Result.out (c12_marker_rejects_time_p _ _ inv _ ⟨l, hl, c12_checkForError_common _ l hm⟩)

example : ∃ l ∈ visible (if Adapter.savina = .jmh then reRunComplete.search else noStop)
    (splitLines "a.B Iteration-0: 1.5 ms\nSegmentation fault".toList), commonMarker l = true :=
  ⟨"Segmentation fault".toList, by decide, by decide⟩

/-- ValidationLog with a common marker: invalid, unless the `ValueError` of an
over-long counter comes first -/
theorem c12_validation_marker_rejects_partial (inv : Nat) (text : List Char)
    (h : ∃ l ∈ splitLines text, commonMarker l = true)
    (hd : (beforeMarker (cfgValidation false).marker (splitLines text)).any actorsOverlong = false) :
    parse .validation false inv text = .out .invalid := by
  obtain ⟨l, hl, hm⟩ := h
  simp only [parse, hd, Bool.false_eq_true, if_false]
  exact congrArg Result.out (c12_marker_rejects _ preNonTotal_validation inv _
    ⟨l, by simpa [cfgValidation, visible_noStop] using hl, c12_checkForError_common _ l hm⟩)

/-- with `include_faulty` no adapter ever answers `ResultsIndicatedAsInvalid`:
a loop rejects as invalid only on a line its marker test accepts -/
theorem c12_invalid_only_by_marker (cfg : Cfg) (inv : Nat) (ls : List Line)
    (h : collect cfg inv ls = .invalid) : ∃ l ∈ ls, cfg.marker l = true := by
  have key : ∀ (ls : List Line) it cur done, collectLoop cfg inv ls it cur done = .invalid →
      ∃ l ∈ ls, cfg.marker l = true := by
    intro ls
    induction ls with
    | nil => intro it cur done h; simp only [collectLoop, finish] at h; split at h <;> cases h
    | cons l ls ih =>
      intro it cur done h
      simp only [collectLoop] at h
      split at h
      · simp only [finish] at h; split at h <;> cases h
      · split at h
        · rename_i hm; exact ⟨l, by simp, hm⟩
        · have lift : (∃ x ∈ ls, cfg.marker x = true) → ∃ x ∈ l :: ls, cfg.marker x = true :=
            fun ⟨x, hx, hxm⟩ => ⟨x, by simp [hx], hxm⟩
          split at h
          · exact lift (ih _ _ _ h)
          · split at h
            · cases h
            · split at h
              · exact lift (ih _ _ _ h)
              · exact lift (ih _ _ _ h)
  exact key ls _ _ _ h

/-! ## the pinned tree (before the `fix:` commits): witnesses -/

/-- pinned `jmh_adapter.py:47-48` (`return data_points` at `Run complete`):
the output `Run complete` was accepted with an empty list of data points —
neither a reject nor a non-empty result.  Repaired by
`fix: JMH adapter rejects output without results …`; the model `cfgJMH`
follows the repaired code and `c12_parse_wf` covers it. -/
theorem c12_jmh_pinned_full_fails :
    parseJMHOld false 1 "Run complete".toList = .ok [] ∧ ¬ OutcomeWF 1 (parseJMHOld false 1 "Run complete".toList) := by
  have h : parseJMHOld false 1 "Run complete".toList = .ok [] := by decide +kernel
  exact ⟨h, by rw [h]; simp [OutcomeWF, WF]⟩

/-- pinned `savina_log_adapter.py` (no `check_for_error`): output with
`Segmentation fault` was accepted.  Repaired by `fix: SavinaLog adapter checks …`. -/
theorem c12_savina_pinned_full_fails :
    ∃ dps, parseSavinaOld false 3 "a.B Iteration-0: 1.5 ms\nSegmentation fault".toList = .ok dps ∧
      (∃ l ∈ splitLines "a.B Iteration-0: 1.5 ms\nSegmentation fault".toList, commonMarker l = true) := by
  refine ⟨[[{ invocation := 3, iteration := 1, criterion := totalName, unit := ms, value := .flt (3/2) }]], ?_,
          "Segmentation fault".toList, ?_, ?_⟩ <;> decide +kernel

/-- the same two texts on the repaired tree -/
theorem c12_jmh_fixed : parse .jmh false 1 "Run complete".toList = .out .notParseable := by decide +kernel
theorem c12_savina_fixed :
    parse .savina false 3 "a.B Iteration-0: 1.5 ms\nSegmentation fault".toList = .out .invalid := by decide +kernel

end RB.Adapters
