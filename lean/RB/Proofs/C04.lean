/-
C04 — invocation accounting: N recorded invocations, bounded retries, clean failures.
Property theorems only; helper lemmas are in `RB/Proofs/Lemmas/Termination.lean`
and `RB/Proofs/Lemmas/Sched.lean`.

All statements quantify over every configuration `c` (invocations, retries,
warm-up, ignore_timeouts, -f), every start state `s` (what an earlier session
left in the data file) and every finite stream of process outcomes `os`.
An `ok` class always carries at least one data point (`classify` maps an output
without data points to `fail`, which is what the RebenchLog adapter does; an
adapter that returns an empty list without raising is C12's subject).
-/
import RB.Proofs.Lemmas.Termination
import RB.Proofs.Lemmas.Sched

namespace RB.Term

/-- "numbered 1..N without gaps or repeats": every start carries the number
after the last recorded invocation, every record records exactly that number;
the recorded numbers are `m₀+1, m₀+2, …, m` where `m` is the final count. -/
theorem c04_records_consecutive (c : Cfg) (s : St) (os : List Outcome) :
    numbered s.maxInv (runTrace c s os).2 = true ∧
    recorded (runTrace c s os).2 = List.range' (s.maxInv + 1) ((runTrace c s os).1.maxInv - s.maxInv) ∧
    s.maxInv + (recorded (runTrace c s os).2).length = (runTrace c s os).1.maxInv := by
  induction os generalizing s with
  | nil => simp [runTrace, numbered, recorded]
  | cons o os ih =>
    cases h : shouldTerminate c s with
    | true => simp [runTrace_term _ _ _ h, numbered, recorded]
    | false =>
      rw [runTrace_step _ _ _ _ h]
      obtain ⟨h1, h2, h3⟩ := ih (apply c s o).1
      obtain ⟨a1, a2⟩ := apply_numbered c s o
      have hn : numbered s.maxInv ((apply c s o).2 ++ (runTrace c (apply c s o).1 os).2) = true := by
        rw [numbered_append, a1, a2, h1]; rfl
      have hlen : s.maxInv + (recorded ((apply c s o).2 ++ (runTrace c (apply c s o).1 os).2)).length
          = (runTrace c (apply c s o).1 os).1.maxInv := by
        simp only [recorded_append, List.length_append]; omega
      refine ⟨hn, ?_, hlen⟩
      have := numbered_recorded _ _ hn
      rw [this]; congr 1; simp only at hlen ⊢; omega

/-- "never starts it again once N are recorded" (1): from a state with at most
N recorded, never more than N are recorded -/
theorem c04_never_past_N (c : Cfg) (s : St) (os : List Outcome) (h : s.maxInv ≤ c.N) :
    (runTrace c s os).1.maxInv ≤ c.N := by
  induction os generalizing s with
  | nil => simpa [runTrace]
  | cons o os ih =>
    cases ht : shouldTerminate c s with
    | true => simpa [runTrace_term _ _ _ ht]
    | false =>
      rw [runTrace_step _ _ _ _ ht]
      have hlt : s.maxInv < c.N := by
        simp [shouldTerminate] at ht; omega
      apply ih
      rcases apply_maxInv c s o with e | e <;> omega

example : (3 : Nat) ≤ ({ N := 5, retries := 2 } : Cfg).N := by decide

/-- (2): with N recorded nothing is started, whatever the stream -/
theorem c04_no_start_after_N (c : Cfg) (s : St) (os : List Outcome) (h : s.maxInv ≥ c.N) :
    runTrace c s os = (s, []) := by
  apply runTrace_term
  simp [shouldTerminate]; right; exact h

/-- (3): every start carries a number ≤ N -/
theorem c04_starts_le_N (c : Cfg) (s : St) (os : List Outcome) :
    ∀ i ∈ starts (runTrace c s os).2, i ≤ c.N := by
  induction os generalizing s with
  | nil => simp [runTrace, starts]
  | cons o os ih =>
    cases ht : shouldTerminate c s with
    | true => simp [runTrace_term _ _ _ ht, starts]
    | false =>
      rw [runTrace_step _ _ _ _ ht]
      have hlt : s.maxInv < c.N := by
        simp [shouldTerminate] at ht; omega
      intro i hi
      simp only [starts_append, List.mem_append] at hi
      rcases hi with hi | hi
      · unfold apply at hi; split at hi <;> simp [starts] at hi <;> omega
      · exact ih _ i hi

/-- "until exactly the configured number of invocations have delivered data":
when the loop ends because the run terminated and the run was not abandoned,
exactly N invocations are recorded -/
theorem c04_completes_with_exactly_N (c : Cfg) (s : St) (os : List Outcome) (h : s.maxInv ≤ c.N)
    (hterm : shouldTerminate c (runTrace c s os).1 = true)
    (hnab : abandoned c (runTrace c s os).1 = false) :
    (runTrace c s os).1.maxInv = c.N := by
  have h1 := c04_never_past_N c s os h
  simp [shouldTerminate, hnab] at hterm
  omega

example : let c : Cfg := { N := 2, retries := 2 }
    let os := [Outcome.exit 0 false 1, .exit 1 false 0, .exit 0 false 3]
    shouldTerminate c (runTrace c {} os).1 = true ∧ abandoned c (runTrace c {} os).1 = false := by decide

/-- "A failed invocation records nothing": the events of a failed process are
its start alone, and the invocation count does not move -/
theorem c04_failed_records_nothing (c : Cfg) (s : St) (o : Outcome) (h : classify c o = .fail) :
    (apply c s o).2 = [.start (s.maxInv + 1)] ∧ (apply c s o).1.maxInv = s.maxInv ∧
    (apply c s o).1.samples = s.samples := by
  simp [apply_fail c s o h]

/-- without `-f`, every non-zero exit (other than an ignored time-out), every
output with a failure marker and every output without a data point is a failure -/
theorem c04_failure_classes (c : Cfg) (rc : Int) (marker : Bool) (dps : Nat) (hf : c.faulty = false)
    (h127 : rc ≠ 127)
    (h : (rc ≠ 0 ∧ ¬ (rc = -9 ∧ c.ignoreTimeouts = true)) ∨ marker = true ∨ dps = 0) :
    classify c (.exit rc marker dps) = .fail := by
  unfold classify
  simp only [h127, if_false]
  rcases h with h | h | h
  · simp [h.1, hf, h.2]
  · simp [h, hf]
  · simp [h]

example : ((5 : Int) ≠ 0 ∧ ¬ ((5 : Int) = -9 ∧ false = true)) := by decide

/-- "(unless -f)": with `-f` a process that printed data points is recorded
whatever its exit status (other than 127) and whatever markers it printed -/
theorem c04_faulty_records (c : Cfg) (rc : Int) (marker : Bool) (dps : Nat) (hf : c.faulty = true)
    (h127 : rc ≠ 127) (hd : dps ≠ 0) :
    classify c (.exit rc marker dps) = .ok dps := by
  unfold classify
  simp [h127, hf, hd]

example : ({ N := 1, retries := 0, faulty := true } : Cfg).faulty = true ∧ (3 : Int) ≠ 127 ∧ (2 : Nat) ≠ 0 := by decide

/-- `ignore_timeouts`: a timed-out process that printed data points counts as a success -/
theorem c04_ignored_timeout_records (c : Cfg) (dps : Nat) (hi : c.ignoreTimeouts = true)
    (hd : dps ≠ 0) (hf : c.faulty = false) :
    classify c (.exit (-9) false dps) = .ok dps := by
  unfold classify
  simp [hi, hd, hf]

example : ({ N := 1, retries := 0, ignoreTimeouts := true } : Cfg).ignoreTimeouts = true := by decide

/-- the refinement invariant: the counters are functions of the history
(newest first) of a fresh run -/
theorem c04_counters_spec (c : Cfg) (h : List Outcome) :
    (after c {} h).consec = trailing c h ∧ (after c {} h).failed = nFail c h ∧
    (after c {} h).maxInv = nOk c h ∧ (after c {} h).samples = nSamples c h ∧
    (after c {} h).failNow = h.any (isImmediate c) := by
  induction h with
  | nil => simp [after, trailing, nFail, nOk, nSamples]
  | cons o older ih =>
    obtain ⟨i1, i2, i3, i4, i5⟩ := ih
    simp only [after]
    cases hc : classify c o with
    | ok d =>
      simp [apply_ok c _ o d hc, trailing, nFail, nOk, nSamples, isFail, isOk, isImmediate, hc,
            i2, i3, i4, i5]
      omega
    | fail =>
      simp [apply_fail c _ o hc, trailing, nFail, nOk, nSamples, isFail, isOk, isImmediate, hc,
            i1, i2, i3, i4, i5]
    | notFound =>
      simp [apply_notFound c _ o hc, trailing, nFail, nOk, nSamples, isFail, isOk, isImmediate, hc,
            i1, i2, i3, i4]
    | osErr =>
      simp [apply_osErr c _ o hc, trailing, nFail, nOk, nSamples, isFail, isOk, isImmediate, hc,
            i1, i2, i3, i4]

/-- the retry rule, stated on the history: after the history `h` the run is *not*
started again iff a 127 / OSError occurred, or at least `max retries 1` processes
in a row have failed (a success resets the count: `trailing`), or failures are
excessive (more than 6, or more than half of more than 10 samples), or N
invocations are recorded -/
theorem c04_retry_spec (c : Cfg) (h : List Outcome) :
    shouldTerminate c (after c {} h) = specTerminate c h := by
  obtain ⟨i1, i2, i3, i4, i5⟩ := c04_counters_spec c h
  simp only [shouldTerminate, abandoned, failsConsec, excessive, specTerminate, i1, i2, i3, i4, i5]
  simp only [Bool.or_assoc]

/-- "with a setting of 0 or 1 the first failure ends the run" -/
theorem c04_first_failure_ends (c : Cfg) (s : St) (o : Outcome) (hr : c.retries ≤ 1)
    (h : classify c o = .fail) : shouldTerminate c (apply c s o).1 = true := by
  simp [apply_fail c s o h, shouldTerminate, abandoned, failsConsec]
  left; left; right; omega

example : ({ N := 3, retries := 1 } : Cfg).retries ≤ 1 := by decide

/-- "a success resets the count" -/
theorem c04_success_resets (c : Cfg) (s : St) (o : Outcome) (d : Nat) (h : classify c o = .ok d) :
    (apply c s o).1.consec = 0 ∧ (apply c s o).1.failed = s.failed := by
  simp [apply_ok c s o d h]

/-- the loop follows the history: it consumes the longest prefix of the stream
none of whose proper prefixes satisfies the termination rule, and ends in the
state `after` that prefix -/
theorem c04_run_follows_history (c : Cfg) (s : St) (os : List Outcome) :
    (runTrace c s os).1 = after c s ((os.take (consumed c s os)).reverse) ∧
    (∀ j, j < consumed c s os → shouldTerminate c (after c s ((os.take j).reverse)) = false) ∧
    (consumed c s os = os.length ∨
      shouldTerminate c (after c s ((os.take (consumed c s os)).reverse)) = true) := by
  induction os generalizing s with
  | nil => simp [runTrace, consumed, after]
  | cons o os ih =>
    cases ht : shouldTerminate c s with
    | true => simp [runTrace_term _ _ _ ht, consumed, ht, after]
    | false =>
      rw [runTrace_step _ _ _ _ ht]
      have key : ∀ l : List Outcome, after c s (l.reverse ++ [o]) = after c (apply c s o).1 l.reverse := by
        intro l
        induction l.reverse with
        | nil => simp [after]
        | cons x xs ihx => simp [after, ihx]
      obtain ⟨h1, h2, h3⟩ := ih (apply c s o).1
      simp only [consumed, ht, Bool.false_eq_true, if_false, List.take_succ_cons, List.reverse_cons, key]
      refine ⟨h1, ?_, ?_⟩
      · intro j hj
        cases j with
        | zero => simpa [after] using ht
        | succ j =>
          simp only [List.take_succ_cons, List.reverse_cons, key]
          exact h2 j (by omega)
      · rcases h3 with h3 | h3
        · left; simp [h3]
        · right; exact h3

/-- bounded retries: from any state at most `(N − recorded) + (7 − failed)`
processes are started, for every stream; for a fresh run: at most N + 7 -/
theorem c04_starts_bounded (c : Cfg) (s : St) (os : List Outcome) :
    (starts (runTrace c s os).2).length ≤ (c.N - s.maxInv) + (7 - s.failed) := by
  induction os generalizing s with
  | nil => simp [runTrace, starts]
  | cons o os ih =>
    cases ht : shouldTerminate c s with
    | true => simp [runTrace_term _ _ _ ht, starts]
    | false =>
      rw [runTrace_step _ _ _ _ ht]
      have hs : s.maxInv < c.N ∧ s.failed ≤ 6 := by
        simp [shouldTerminate, abandoned, excessive] at ht; omega
      simp only [starts_append, List.length_append]
      cases hc : classify c o with
      | ok d => have := ih (apply c s o).1; simp [apply_ok c s o d hc, starts] at this ⊢; omega
      | fail => have := ih (apply c s o).1; simp [apply_fail c s o hc, starts] at this ⊢; omega
      | notFound =>
        have ht' : shouldTerminate c (apply c s o).1 = true := by
          simp [apply_notFound c s o hc, shouldTerminate, abandoned, failsConsec]
        rw [runTrace_term _ _ _ ht']; simp [apply_notFound c s o hc, starts]; omega
      | osErr =>
        have ht' : shouldTerminate c (apply c s o).1 = true := by
          simp [apply_osErr c s o hc, shouldTerminate, abandoned, failsConsec]
        rw [runTrace_term _ _ _ ht']; simp [apply_osErr c s o hc, starts]; omega

theorem c04_starts_bounded_fresh (c : Cfg) (os : List Outcome) :
    (starts (runTrace c {} os).2).length ≤ c.N + 7 := by
  have := c04_starts_bounded c {} os
  simpa using this

/-- the loop terminates: any stream at least that long ends with the run terminated -/
theorem c04_terminates (c : Cfg) (s : St) (os : List Outcome)
    (hl : os.length ≥ (c.N - s.maxInv) + (7 - s.failed)) :
    shouldTerminate c (runTrace c s os).1 = true := by
  induction os generalizing s with
  | nil =>
    simp at hl
    simp [runTrace, shouldTerminate, abandoned, excessive]; omega
  | cons o os ih =>
    cases ht : shouldTerminate c s with
    | true => simp [runTrace_term _ _ _ ht, ht]
    | false =>
      rw [runTrace_step _ _ _ _ ht]
      have hs : s.maxInv < c.N ∧ s.failed ≤ 6 := by
        simp [shouldTerminate, abandoned, excessive] at ht; omega
      simp only [List.length_cons] at hl
      cases hc : classify c o with
      | ok d => apply ih; simp [apply_ok c s o d hc]; omega
      | fail => apply ih; simp [apply_fail c s o hc]; omega
      | notFound =>
        have ht' : shouldTerminate c (apply c s o).1 = true := by
          simp [apply_notFound c s o hc, shouldTerminate, abandoned, failsConsec]
        simp [runTrace_term _ _ _ ht', ht']
      | osErr =>
        have ht' : shouldTerminate c (apply c s o).1 = true := by
          simp [apply_osErr c s o hc, shouldTerminate, abandoned, failsConsec]
        simp [runTrace_term _ _ _ ht', ht']

/-- non-vacuity: eight outcomes for a fresh run with N = 1 -/
example : (List.replicate 8 (Outcome.exit 1 false 0)).length
    ≥ (({ N := 1, retries := 3 } : Cfg).N - ({} : St).maxInv) + (7 - ({} : St).failed) := by decide

/-- "exit status 127 abandons at once the run": after a 127 (or an OSError at
start) the run is terminated and abandoned in every state, so the loop starts
nothing further whatever the rest of the stream -/
theorem c04_abandon_127 (c : Cfg) (s : St) (o : Outcome) (os : List Outcome)
    (h : classify c o = .notFound ∨ classify c o = .osErr) (hs : shouldTerminate c s = false) :
    abandoned c (apply c s o).1 = true ∧
    runTrace c s (o :: os) = ((apply c s o).1, [.start (s.maxInv + 1)]) := by
  have ht' : abandoned c (apply c s o).1 = true := by
    rcases h with h | h
    · simp [apply_notFound c s o h, abandoned, failsConsec]
    · simp [apply_osErr c s o h, abandoned, failsConsec]
  refine ⟨ht', ?_⟩
  rw [runTrace_step _ _ _ _ hs, runTrace_term _ _ _ (by simp [shouldTerminate, ht'])]
  rcases h with h | h
  · simp [apply_notFound c s o h]
  · simp [apply_osErr c s o h]

example : classify { N := 2, retries := 0 } (.exit 127 false 0) = .notFound := by decide

end RB.Term

namespace RB.Sched
open RB.Term

/-! ### the clause about the other runs of the same executable -/

/-- two runs of the same executable whose processes return 127, one invocation each -/
def c04Witness : Conf × G :=
  ({ run := fun _ => { cfg := { N := 1, retries := 0 }, exe := 0 } },
   { rs := fun _ => { script := [.exit 127 false 0] } })

/-- The pinned tree compared `RunId.executable`, which is `None` until a run's own
command line has been built: a run that had not been started yet never compared
equal, so it was not abandoned and was still started once (replayed on the real
code; repaired by comparing the executors' configured path and executable). -/
theorem c04_pinned_abandon_127_shared_skips_unstarted :
    sameExePinned c04Witness.1 c04Witness.2 0 1 = false ∧ sameExe c04Witness.1 c04Witness.2 0 1 = true ∧
    sharedAbandon c04Witness.1 (session c04Witness.1 .batch c04Witness.2 [0, 1] [0, 0, 0, 0]) [0, 1] = true := by
  decide

/-- "exit status 127 abandons at once … every other run using the same
executable" (1): `without_missing_binaries` marks and removes exactly the runs
of the task list that use the same executable — started or not; every other run
is left untouched and stays -/
theorem c04_abandon_127_shared_step (cf : Conf) (p : Nat) (g : G) (tasks : List Nat) (q : Nat)
    (hq : q ∈ tasks) :
    ((cf.run q).exe = (cf.run p).exe →
        ((withoutMissing cf p g tasks).1.rs q).t.failNow = true ∧ q ∉ (withoutMissing cf p g tasks).2) ∧
    ((cf.run q).exe ≠ (cf.run p).exe →
        (withoutMissing cf p g tasks).1.rs q = g.rs q ∧ q ∈ (withoutMissing cf p g tasks).2) := by
  obtain ⟨_, i2, i3, i4, _, _⟩ := withoutMissing_spec cf p g tasks
  constructor
  · intro h
    exact i3 q hq (by simp [sameExe, h])
  · intro h
    have hs : sameExe cf g p q = false := by simp [sameExe, h]
    exact ⟨i2 q (Or.inr hs), i4 q hq hs⟩

/-- (2): a run removed from the task list is never started again in this
session — the scheduler picks only from its task list -/
theorem c04_removed_never_picked (cf : Conf) (k : Kind) (g : G) (tasks cs : List Nat) (q : Nat)
    (hq : q ∉ tasks) : q ∉ (seqLoop cf k g tasks cs).picks :=
  fun h => hq (seqLoop_picks_subset cf k g tasks cs q h)

/-- **The shared clause, on the session** (sequential schedulers, every choice
stream): once the process of the picked run `r` has returned 127, no run using
the same executable — `r` itself included — is ever picked, hence started, again.
(`seqLoop cf k g (t :: ts) (c :: cs)` picks `r` and then continues with
`nextOf …`; its later picks are exactly the picks quantified over here.) -/
theorem c04_abandon_127_shared (cf : Conf) (k : Kind) (g : G) (t : Nat) (ts : List Nat) (c : Nat) (cs : List Nat)
    (hfb : (execRun cf g (pick k (t :: ts) c)).failedBuilding = false)
    (hco : (execRun cf g (pick k (t :: ts) c)).completed = true)
    (hmiss : (((execRun cf g (pick k (t :: ts) c)).g.rs (pick k (t :: ts) c)).t.exeMissing) = true) :
    (seqLoop cf k g (t :: ts) (c :: cs)).picks
      = pick k (t :: ts) c :: (seqLoop cf k (nextOf cf k (t :: ts) (pick k (t :: ts) c) (execRun cf g (pick k (t :: ts) c))).1
                                 (nextOf cf k (t :: ts) (pick k (t :: ts) c) (execRun cf g (pick k (t :: ts) c))).2 cs).picks ∧
    ∀ q ∈ (seqLoop cf k (nextOf cf k (t :: ts) (pick k (t :: ts) c) (execRun cf g (pick k (t :: ts) c))).1
              (nextOf cf k (t :: ts) (pick k (t :: ts) c) (execRun cf g (pick k (t :: ts) c))).2 cs).picks,
      (cf.run q).exe ≠ (cf.run (pick k (t :: ts) c)).exe := by
  refine ⟨by simp [seqLoop], ?_⟩
  generalize hr : pick k (t :: ts) c = r at *
  intro q hq
  have hsub := seqLoop_picks_subset _ _ _ _ _ q hq
  have hnext : (nextOf cf k (t :: ts) r (execRun cf g r)).2
      = (withoutMissing cf r (execRun cf g r).g ((t :: ts).erase r)).2 := by
    simp [nextOf, hfb, hco, hmiss]
  rw [hnext] at hsub
  obtain ⟨_, _, i3, _, i5, _⟩ := withoutMissing_spec cf r (execRun cf g r).g ((t :: ts).erase r)
  have hqin : q ∈ (t :: ts).erase r := i5.subset hsub
  intro he
  exact (i3 q hqin (by simp [sameExe, he])).2 hsub

/-- non-vacuity: batch, two runs of one executable; the first process returns 127 -/
example : let cf := c04Witness.1; let g := c04Witness.2
    (execRun cf g (pick .batch [0, 1] 0)).failedBuilding = false ∧
    (execRun cf g (pick .batch [0, 1] 0)).completed = true ∧
    ((execRun cf g (pick .batch [0, 1] 0)).g.rs (pick .batch [0, 1] 0)).t.exeMissing = true ∧
    (session cf .batch g [0, 1] [0, 0, 0]).trace = [(0, .start 1)] := by decide

end RB.Sched
