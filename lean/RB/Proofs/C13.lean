/-
C13 — build scripts run once, first, in place, and their failure propagates.
Property theorems only; the invariants are in `RB/Proofs/Lemmas/Builds.lean`.

`session c s ks runs` is the state after `ks.length` iterations of the sequential
scheduler `s` (batch / round-robin / random with the draws `ks`) over the work list
`runs`, so every statement below holds at every point of every sequential session,
for every sharing pattern, every assignment of results to builds and every draw
sequence.  `c.oserrRaises = true` is the repaired tree (fix: "a build that cannot be
started (OSError) stops the run like a failing build"); the pinned tree is
`oserrRaises = false`.
-/
import RB.Proofs.Lemmas.Builds
import RB.Proofs.Lemmas.BuildsPar

namespace RB.Builds

/-- a concrete non-trivial instance used by the `example`s: two executors sharing one
build in one directory, one suite with its own build, the suite build fails -/
def exBuildA : Build := ⟨"make a", some "/w/d1"⟩
def exBuildB : Build := ⟨"make b", some "/w/d1"⟩
def exRuns : List Run :=
  [ { id := 0, ebuild := some exBuildA, sbuild := some exBuildB, env := [("E", "1")], inv := 2, excl := true },
    { id := 1, ebuild := some exBuildA, sbuild := none, env := [], inv := 1, excl := true } ]
def exCfg : Cfg :=
  { cwd := "/w", doBuilds := true, res := fun b => if b = exBuildB then .fail else .ok, oserrRaises := true }

/-- "every distinct build script (same commands, same directory) is executed at most
once" — in any sequential session, for every build -/
theorem c13_build_once_seq (c : Cfg) (s : Sched) (ks : List Nat) (runs : List Run) (b : Build) :
    starts b (session c s ks runs).trace ≤ 1 :=
  (session_inv c s ks runs).once b

/-- the two executors' shared build really is started (exactly once) in the example -/
example : starts exBuildA (session exCfg .rr [0, 0, 0, 0] exRuns).trace = 1 := by decide

/-- "… and has finished before the first benchmark process of any run depending on it
starts": whenever the trace contains a benchmark start of `run`, every build of `run`
has ended successfully in the part of the trace before it -/
theorem c13_build_before_use (c : Cfg) (s : Sched) (ks : List Nat) (runs : List Run)
    (hfix : c.oserrRaises = true) (hB : c.doBuilds = true) (hid : IdInj runs)
    (run : Run) (hrun : run ∈ runs) (b : Build) (hb : b ∈ run.builds)
    (pre post : List Ev) (htr : (session c s ks runs).trace = pre ++ Ev.start run.id :: post) :
    Ev.buildEnd b .ok ∈ pre := by
  refine (session_inv c s ks runs).before (Or.inl hfix) hid pre post run.id htr b ?_
  unfold needOf
  simp only [hB, if_true, List.mem_flatMap, List.mem_filter]
  exact ⟨run, ⟨hrun, by simp⟩, hb⟩

example : IdInj exRuns := by
  intro r1 h1 r2 h2 h
  simp [exRuns] at h1 h2
  rcases h1 with rfl | rfl <;> rcases h2 with rfl | rfl <;> simp_all

example : ∃ pre post, (session exCfg .batch [0, 0, 0] exRuns).trace = pre ++ Ev.start 1 :: post :=
  List.append_of_mem (by decide)

/-- "in its directory and with the run's configured environment": every build start
has the build's directory as cwd and the environment of a run of the session that
requires this build (the one that triggered it) -/
theorem c13_build_env_cwd (c : Cfg) (s : Sched) (ks : List Nat) (runs : List Run)
    (b : Build) (d : String) (env : Env) (r : Nat)
    (h : Ev.buildStart b d env r ∈ (session c s ks runs).trace) :
    d = dirOf c.cwd c.home b ∧ ∃ run ∈ runs, run.id = r ∧ env = run.env ∧ b ∈ run.builds :=
  (session_inv c s ks runs).envcwd b d env r h

example : Ev.buildStart exBuildA "/w/d1" [("E", "1")] 0 ∈ (session exCfg .batch [0] exRuns).trace := by
  decide

/-- the pinned tree did not expand `~` in the location of a build (the benchmarks of the
same suite do run in the expanded directory): the script was started with the literal
string as cwd. Replayed by `harness/corpus/C13/tilde-location.json`; repaired by
"fix: expand ~ in the directory of a build command". -/
theorem c13_tilde_location_pinned :
    dirOfPinned "/w" ⟨"make", some "~/suite"⟩ = "~/suite" ∧
    dirOf "/w" "/root" ⟨"make", some "~/suite"⟩ = "/root/suite" := by decide

/-- "with the run's configured environment": the environment of a run is what the innermost
of the seven levels (machine, runs, experiment, execution details, executor, suite,
benchmark) that defines `env` says — an inner level replaces the outer ones, a level that
does not define it leaves them in force. Together with `c13_build_env_cwd` (the build gets
the triggering run's `env`) this is the environment clause of the property. -/
theorem c13_env_priority (levels : List (Option Env)) (e : Env) :
    lastDefined (levels ++ [some e]) = some e ∧
    lastDefined (levels ++ [none]) = lastDefined levels := by
  induction levels with
  | nil => exact ⟨rfl, rfl⟩
  | cons l ls ih => simp [lastDefined, ih.1, ih.2]

/-- the benchmark's own `env` wins over suite and executor, and `~` in a value is expanded -/
example : (mkRun "/w" 0 ⟨"E", none, [], some [("A", "e")]⟩ ⟨"S", none, ["make"], some [("A", "s")]⟩ 1 true 0 "/root"
    [some [("A", "m")], none, none, none] (some [("A", "~/b")])).env = [("A", "/root/b")] := by decide

/-- "If it fails, no run depending on it is executed and each is reported failed":
once a build has ended unsuccessfully (non-zero return code or OSError), no benchmark
process of a dependent run has been or will be started in the session, so every
dependent run ends with `is_failed` set (the session's exit status is then 1) -/
theorem c13_failure_propagates (c : Cfg) (s : Sched) (ks : List Nat) (runs : List Run)
    (hfix : c.oserrRaises = true) (hid : IdInj runs)
    (b : Build) (res : BRes) (hend : Ev.buildEnd b res ∈ (session c s ks runs).trace)
    (hres : res ≠ .ok) (run : Run) (hrun : run ∈ runs) (hb : b ∈ run.builds) :
    Ev.start run.id ∉ (session c s ks runs).trace ∧ isFailed (session c s ks runs) run.id = true := by
  have inv := session_inv c s ks runs
  obtain ⟨e1, _, e3⟩ := inv.endIn b res hend
  have hbf := e3 hres
  have hB : c.doBuilds = true := by
    cases hB : c.doBuilds with
    | true => rfl
    | false =>
      have := (inv.nobFlags hB).2
      rw [this] at hbf; cases hbf
  have hns : Ev.start run.id ∉ (session c s ks runs).trace := by
    intro hmem
    obtain ⟨pre, post, hsplit⟩ := List.append_of_mem hmem
    have hin := c13_build_before_use c s ks runs hfix hB hid run hrun b hb pre post hsplit
    have hin' : Ev.buildEnd b .ok ∈ (session c s ks runs).trace := by
      rw [hsplit]; simp [hin]
    obtain ⟨_, f2, _⟩ := inv.endIn b .ok hin'
    exact inv.failedRes b hbf (inv.builtRes b (f2 rfl))
  refine ⟨hns, ?_⟩
  unfold isFailed
  simp only [Bool.not_eq_true', List.contains_eq_mem, decide_eq_false_iff_not]
  intro hfin
  exact hns (inv.finStart run.id hfin)

example : Ev.buildEnd exBuildB .fail ∈ (session exCfg .batch [0, 0, 0] exRuns).trace ∧
    exBuildB ∈ (exRuns[0]).builds := by decide

/-- the pinned tree (`oserrRaises = false`): the statement of `c13_failure_propagates`
is false — witness: one run whose executor build cannot be started (OSError); the
benchmark is started anyway and the run ends up not failed. Replayed on the real
code by `harness/corpus/C13/oserr-executor-build.json`. -/
theorem c13_failure_propagates_pinned_fails :
    ∃ (c : Cfg) (s : Sched) (ks : List Nat) (runs : List Run) (b : Build) (res : BRes) (run : Run),
      c.oserrRaises = false ∧ IdInj runs ∧
      Ev.buildEnd b res ∈ (session c s ks runs).trace ∧ res ≠ .ok ∧ run ∈ runs ∧ b ∈ run.builds ∧
      ¬ (Ev.start run.id ∉ (session c s ks runs).trace ∧ isFailed (session c s ks runs) run.id = true) := by
  refine ⟨{ cwd := "/w", doBuilds := true, res := fun _ => .oserr, oserrRaises := false }, .batch, [0],
    [{ id := 0, ebuild := some exBuildA, sbuild := none, env := [], inv := 1, excl := true }],
    exBuildA, .oserr, { id := 0, ebuild := some exBuildA, sbuild := none, env := [], inv := 1, excl := true },
    rfl, ?_, by decide, by decide, by simp, by decide, by decide⟩
  intro r1 h1 r2 h2 _
  simp at h1 h2
  rw [h1, h2]

/-- what holds of the pinned tree as well: failure propagates whenever no build
fails with OSError (the class excluded is exactly the fixed finding) -/
theorem c13_failure_propagates_partial (c : Cfg) (s : Sched) (ks : List Nat) (runs : List Run)
    (hnoos : ∀ b, c.res b ≠ .oserr) (hid : IdInj runs)
    (b : Build) (res : BRes) (hend : Ev.buildEnd b res ∈ (session c s ks runs).trace)
    (hres : res ≠ .ok) (run : Run) (hrun : run ∈ runs) (hb : b ∈ run.builds) :
    Ev.start run.id ∉ (session c s ks runs).trace ∧ isFailed (session c s ks runs) run.id = true := by
  have inv := session_inv c s ks runs
  obtain ⟨e1, _, e3⟩ := inv.endIn b res hend
  have hbf := e3 hres
  have hB : c.doBuilds = true := by
    cases hB : c.doBuilds with
    | true => rfl
    | false =>
      have := (inv.nobFlags hB).2
      rw [this] at hbf; cases hbf
  have hns : Ev.start run.id ∉ (session c s ks runs).trace := by
    intro hmem
    obtain ⟨pre, post, hsplit⟩ := List.append_of_mem hmem
    have hin := inv.before (Or.inr hnoos) hid pre post run.id hsplit b (by
      unfold needOf
      simp only [hB, if_true, List.mem_flatMap, List.mem_filter]
      exact ⟨run, ⟨hrun, by simp⟩, hb⟩)
    have hin' : Ev.buildEnd b .ok ∈ (session c s ks runs).trace := by
      rw [hsplit]; simp [hin]
    obtain ⟨_, f2, _⟩ := inv.endIn b .ok hin'
    exact inv.failedRes b hbf (inv.builtRes b (f2 rfl))
  refine ⟨hns, ?_⟩
  unfold isFailed
  simp only [Bool.not_eq_true', List.contains_eq_mem, decide_eq_false_iff_not]
  intro hfin
  exact hns (inv.finStart run.id hfin)

/-- "… while independent runs proceed": a run is marked to fail immediately only
because one of its *own* builds failed; a run all of whose builds succeed is never
touched by the failure of other builds -/
theorem c13_independent_unaffected (c : Cfg) (s : Sched) (ks : List Nat) (runs : List Run)
    (hid : IdInj runs) (run : Run) (hrun : run ∈ runs) (hok : ∀ b ∈ run.builds, c.res b = .ok) :
    run.id ∉ (session c s ks runs).failImm := by
  intro hmem
  have inv := session_inv c s ks runs
  obtain ⟨run', h1, h2, b, h3, h4⟩ := inv.failImmWhy run.id hmem
  have : run' = run := hid run' h1 run hrun h2
  subst this
  exact inv.failedRes b h4 (hok b h3)

example : ∀ b ∈ (exRuns[1]).builds, exCfg.res b = .ok := by decide

/-- "with -B no build is executed" -/
theorem c13_noB (c : Cfg) (s : Sched) (ks : List Nat) (runs : List Run) (hB : c.doBuilds = false)
    (b : Build) : starts b (session c s ks runs).trace = 0 :=
  (session_inv c s ks runs).nob hB b

/-- "--setup-only executes, for every distinct build, at least one run that requires
it": the selection keeps only configured runs, and every build of every configured
run is required by a selected run — for every order in which the run set is iterated -/
theorem c13_setup_only_covers (runs : List Run) :
    (∀ r ∈ selectSetup [] runs, r ∈ runs) ∧
    ∀ run ∈ runs, ∀ b ∈ run.builds, ∃ r' ∈ selectSetup [] runs, b ∈ r'.builds := by
  refine ⟨selectSetup_sub [] runs, ?_⟩
  intro run hrun b hb
  rcases selectSetup_covers [] runs run hrun b hb with h | h
  · cases h
  · exact h

/-- the selection really drops runs: only the first of the two example runs that share
all their builds with an earlier run is kept -/
example : (selectSetup [] (exRuns ++ exRuns)).length = 1 := by decide

/-- de-duplication is by (script, location): same text in different directories are
different builds, the same text in the same directory is one build -/
theorem c13_dedup_key (cmds : List String) (l1 l2 : Option String) (h : cmds ≠ []) :
    mkBuild cmds l1 = mkBuild cmds l2 ↔ l1 = l2 := by
  unfold mkBuild
  have : cmds.isEmpty = false := by cases cmds <;> simp_all
  simp [this]

/-! ### Parallel scheduler -/

/-- two non-exclusive runs sharing one suite build, two worker threads -/
def exParRuns : List Run :=
  [ { id := 0, ebuild := none, sbuild := some exBuildA, env := [], inv := 1, excl := false },
    { id := 1, ebuild := none, sbuild := some exBuildA, env := [], inv := 1, excl := false } ]

def exParCfg (locked : Bool) : PCfg :=
  { cwd := "/w", doBuilds := true, res := fun _ => .ok, oserrRaises := locked, sched := .batch, locked := locked }

def exParInit : PSt := { remaining := exParRuns, workers := [{}, {}] }

/-- The pinned tree (`locked = false`, executor.py:381-388 unsynchronised): "at most once"
is false under the parallel scheduler. Witness `build_race`: both workers pass the
`is_built` / `build_failed` check before either has marked the build, and the shared
build is started twice. Replayed on the real code with the thread controller by
`harness/corpus/C13/race-two-workers.json`. -/
theorem c13_build_race :
    starts exBuildA (prun (exParCfg false) 2 8 [0, 1, 0, 1] exParInit).st.trace = 2 := by decide

/-- the same schedule on the repaired tree: the second worker waits for the lock, finds
the build done, and the build is started once -/
example : starts exBuildA (prun (exParCfg true) 2 8 [0, 1, 0, 1, 0, 1, 1, 0, 1] exParInit).st.trace = 1 := by
  decide

/-- the state in which the worker threads of the parallel scheduler start
(executor.py:262-268): the exclusive runs have been executed on the main thread by the
sequential scheduler, the non-exclusive ones are the remaining work, `nw` idle workers -/
def parInit (c : PCfg) (ks : List Nat) (seqRuns parRuns : List Run) (nw : Nat) : PSt :=
  { st := session c.toCfg c.sched ks seqRuns, remaining := parRuns, workers := List.replicate nw {} }

/-- "at most once", parallel scheduler, full statement over **all interleavings**: on the
repaired tree (`locked = true`: check, act and mark under the executor's build lock —
fix "run a build shared by parallel runs only once") every distinct build is started
at most once, for every schedule `picks` of the worker threads at the scheduling
points (process start, process end, contended lock), every number of workers, every
chunking parameter, every sharing pattern and every assignment of results. -/
theorem c13_build_once_par (c : PCfg) (hl : c.locked = true) (ks : List Nat)
    (seqRuns parRuns : List Run) (nw n fuel : Nat) (picks : List Nat) (b : Build) :
    starts b (prun c n fuel picks (parInit c ks seqRuns parRuns nw)).st.trace ≤ 1 := by
  refine (prun_inv c hl n fuel picks _ ?_).once b
  have inv := session_inv c.toCfg c.sched ks seqRuns
  refine ⟨?_, inv.once, fun b h1 h2 _ => inv.fresh b h1 h2⟩
  intro j w _ hw b hb
  exfalso
  have : w = {} := by
    simp only [parInit, List.getElem?_replicate] at hw
    split at hw
    · cases hw; rfl
    · cases hw
  subst this
  exact not_busy_idle b hb

/-- non-vacuity: under the locked model workers really do build (the example above
starts the shared build exactly once under a contended schedule) -/
example : (exParCfg true).locked = true := rfl

end RB.Builds
