/-
C06, continued — which invocations count as successful, and that nothing is recorded for the others.
(Separate file: it uses the step lemmas of `RB/Proofs/Lemmas/Resume.lean`, which build on `RB/Proofs/C06.lean`.)
-/
import RB.Proofs.Lemmas.Resume

namespace RB.Session
open RB.DataFile

variable {κ β : Type} [DecidableEq κ] [DecidableEq β] (benchOf : κ → β)

/-- "extracted from a successful invocation": the output of an invocation is evaluated exactly when the
process did not exit with 127 and exited with 0 — or with anything under `--faulty`, or with the time-out
code for a run that ignores time-outs — and its output parses to at least one data point. -/
theorem c06_recordedOutcome_spec (faulty ign : Bool) (o : RawOut) :
    recordedOutcome faulty ign o = true ↔
      o.rc ≠ 127 ∧ (o.rc = 0 ∨ faulty = true ∨ (o.rc = -9 ∧ ign = true)) ∧ o.dps ≠ [] := by
  unfold recordedOutcome
  simp only [Bool.and_eq_true, Bool.or_eq_true, decide_eq_true_eq, Bool.not_eq_true', List.isEmpty_eq_false_iff]
  tauto

/-- in particular a process that crashes (any non-zero exit) after printing results for some iterations
delivers no data — unless `--faulty` is given or it is a time-out of a run that ignores time-outs -/
theorem c06_crash_is_not_data (ign : Nat → Bool) (raw : Nat → Nat → Option RawOut) (buildOk : Nat → Bool)
    (i t : Nat) (o : RawOut) (hraw : raw i t = some o) (hrc : o.rc ≠ 0) (hto : ¬ (o.rc = -9 ∧ ign i = true)) :
    (harnessOf false ign raw buildOk).out i t = none := by
  have : recordedOutcome false (ign i) o = false := by
    cases h : recordedOutcome false (ign i) o
    · rfl
    · have := (c06_recordedOutcome_spec false (ign i) o).mp h
      rcases this.2.1 with h0 | hf | h9
      · exact absurd h0 hrc
      · cases hf
      · exact absurd h9 hto
  simp [harnessOf, hraw, this]

/-- "nothing else is written as a measurement": an `execute_run` whose invocation delivers no data —
it failed, or the session was interrupted before or while it ran — leaves every data file untouched -/
theorem c06_failed_invocation_records_nothing (cfg : List (RunC κ)) (H : Harness) (stop : Option Nat)
    (s : St κ β) (i : Nat) (c : RunC κ) (hc : cfg[i]? = some c) (hi : i < s.runs.length)
    (hfail : H.out i ((s.runs.getD i dfltRun).m + 1) = none) (s' : St κ β) (res : StepRes)
    (hstep : step benchOf cfg H stop s i = (s', res)) : s'.files = s.files := by
  rcases step_effect benchOf cfg H stop s i c hc hi s' res hstep with ⟨hf, _⟩ | ⟨dps, hout, _, _⟩
  · exact hf
  · rw [hfail] at hout; cases hout

-- non-vacuity: a crash with exit 139 after two data points, run without ignore_timeouts
example : recordedOutcome false false { rc := 139, dps := [[{ crit := "total", unit := "ms", value := .flt 1 }]] } = false := by
  decide
example : recordedOutcome false true { rc := -9, dps := [[{ crit := "total", unit := "ms", value := .flt 1 }]] } = true := by
  decide

end RB.Session
