import RB.Gen.CmdlineTemplate
import RB.Gen.Placeholders
import RB.Model.Cmdline
/-!
# Translation tie for the command template and the placeholders (C03)

Generated from the current source: `RunId._cmdline_template` (which parts, in which order, joined by what), the
properties `cores_as_str` / `input_size_as_str` / `var_value_as_str` / `tag_as_str` / `iterations`, the arguments
`cmdline_for_next_invocation` and `_construct_cmdline` hand to `_expand_vars` (`tools/py2lean_fn.py`), and as data
(`tools/py2lean_fields.py`) the dictionary of `_expand_vars` (placeholder -> source text of its value), the default
of its `invocation` parameter and the list of format variables in docs/config.md.

Proved: the generated template is the model's `template`; the `*_as_str` properties are `Val.asStr`; read through
the table "source text -> value of the model" below, the generated dictionary is the model's `envWith` (same keys,
same order, same values) for every run; the default of `invocation` is the model's placeholder; the next invocation
is numbered `completed + 1`; every documented format variable is a key of the dictionary (`tag` is a key that the
list in the documentation does not mention).  The expansion itself is Python's `%` operator, not ReBench code: the
model's `fmt` stays tied by C03's correspondence.
Not imported by `RB.lean`: built by the `gen` entry of the obligations.
-/
namespace RB.Cmdline
open RB.Py RB.Gen.CmdlineTemplate

def optV : Option Str → V
  | none => V.none
  | some s => V.str s

def valV : Val → V
  | .none => V.none
  | .int i => V.int i
  | .str s => V.str s

theorem add_str (a b : List Char) : V.add (V.str a) (V.str b) = some (V.str (a ++ b)) := rfl

theorem truthy_optV (o : Option Str) : V.truthy (optV o) = (truthy o).isSome := by
  cases o with
  | none => rfl
  | some s => cases s <;> simp [optV, V.truthy, truthy]

theorem pystr_str (s : List Char) : V.pystr (V.str s) = some (V.str s) := rfl

theorem pystr_int (i : Int) : V.pystr (V.int i) = some (V.str (intStr i)) := by
  cases i with
  | ofNat n => simp [V.pystr, intStr, decimal, V.natDigits]
  | negSucc n => simp [V.pystr, intStr, decimal, V.natDigits, Int.negSucc_lt_zero]

/-- **the generated template is the model's**: path + "/" (if there is a path), the executable, " " + args (if
any), " " + the suite's command, " " + extra_args (if any) -/
theorem gen_template_eq_model (cwd : Str) (r : Run) :
    RunId_cmdline_template (optV (r.path cwd)) (V.str r.executable) (optV r.args) (V.str r.command) (optV r.extraArgs) =
      some (V.str (template cwd r)) := by
  have hp := truthy_optV (r.path cwd)
  have ha := truthy_optV r.args
  have he := truthy_optV r.extraArgs
  unfold template RunId_cmdline_template
  cases h1 : r.path cwd with
  | none =>
    cases h2 : r.args with
    | none => cases h3 : r.extraArgs with
      | none => simp [optV, V.truthy, truthy, add_str, V.pystr]
      | some e => cases e <;> simp [optV, V.truthy, truthy, add_str, V.pystr]
    | some a => cases a <;> cases h3 : r.extraArgs with
      | none => simp [optV, V.truthy, truthy, add_str, V.pystr]
      | some e => cases e <;> simp [optV, V.truthy, truthy, add_str, V.pystr]
  | some p =>
    cases p <;> cases h2 : r.args with
    | none => cases h3 : r.extraArgs with
      | none => simp [optV, V.truthy, truthy, add_str, V.pystr]
      | some e => cases e <;> simp [optV, V.truthy, truthy, add_str, V.pystr]
    | some a => cases a <;> cases h3 : r.extraArgs with
      | none => simp [optV, V.truthy, truthy, add_str, V.pystr]
      | some e => cases e <;> simp [optV, V.truthy, truthy, add_str, V.pystr]

/-- the four `*_as_str` properties are the model's `asStr`: empty for `None`, else `str(value)` -/
theorem gen_as_str_eq_model (v : Val) :
    RunId_cores_as_str (valV v) = some (V.str v.asStr) ∧
    RunId_input_size_as_str (valV v) = some (V.str v.asStr) ∧
    RunId_var_value_as_str (valV v) = some (V.str v.asStr) ∧
    RunId_tag_as_str (valV v) = some (V.str v.asStr) := by
  cases v <;>
    simp [RunId_cores_as_str, RunId_input_size_as_str, RunId_var_value_as_str, RunId_tag_as_str, valV, V.isNone,
      Val.asStr, pystr_int, pystr_str]

/-- what a source text of the dictionary of `_expand_vars` stands for in the model (`'%s' % x` of the value) -/
def valueOf (r : Run) (inv : Str) : String → Option Str
  | "self.benchmark.command" => some r.benchCommand
  | "self.cores_as_str" => some r.cores.asStr
  | "self.benchmark.suite.executor.name" => some r.executorName
  | "self.input_size_as_str" => some r.input.asStr
  | "self.iterations" => some r.iterations.pyStr
  | "invocation" => some inv
  | "self.benchmark.suite.name" => some r.suiteName
  | "self.var_value_as_str" => some r.varValue.asStr
  | "self.tag_as_str" => some r.tag.asStr
  | "self.benchmark.run_details.warmup" => some r.warmup.pyStr
  | _ => none

/-- **the generated placeholder table is the model's**: same keys, same order, and every value is the model's, for
every run and every text for `invocation` -/
theorem gen_placeholders_eq_model (r : Run) (inv : Str) :
    RB.Gen.Placeholders.placeholders.mapM (fun kv => (valueOf r inv kv.2).map (fun v => (kv.1.toList, v))) =
      some (envWith r inv) := by
  rfl

/-- the keys are the ten placeholders of the model, each once -/
theorem gen_placeholder_keys :
    RB.Gen.Placeholders.placeholders.map (·.1.toList) =
      [kBenchmark, kCores, kExecutor, kInput, kIterations, kInvocation, kSuite, kVariable, kTag, kWarmup] := by
  decide +kernel

/-- without an invocation number, `invocation` stays a placeholder: the default is the model's -/
theorem gen_invocation_default :
    RB.Gen.Placeholders.expand_vars_defaults = [("invocation", String.ofList invPlaceholder)] := by
  decide +kernel

/-- the identity string and the next command line are expanded from the same template, and the next invocation is
numbered `completed + 1`; `iterations` is the run details' value -/
theorem gen_next_invocation (t : V) (n : Nat) (it : V) :
    next_invocation_template t = some t ∧ identity_template t = some t ∧
    next_invocation_number (V.int n) = some (V.int (n + 1 : Nat)) ∧ RunId_iterations it = some it := by
  refine ⟨rfl, rfl, ?_, rfl⟩
  simp [next_invocation_number, V.add, V.asInt?]

/-- every format variable the documentation lists is a placeholder; `tag` is the one placeholder it does not list -/
theorem gen_documented_placeholders :
    (∀ d ∈ RB.Gen.Placeholders.documented_placeholders, d ∈ RB.Gen.Placeholders.placeholders.map (·.1)) ∧
    (RB.Gen.Placeholders.placeholders.map (·.1)).filter (fun k => !RB.Gen.Placeholders.documented_placeholders.contains k) = ["tag"] := by
  decide +kernel

end RB.Cmdline
