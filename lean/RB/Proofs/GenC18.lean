import RB.Gen.ReportFields
import RB.Gen.ReportTables
import RB.Model.Report
import RB.Model.DataFile
/-!
# Translation tie for the field mapping of the reports (C18)

Generated from the current source: `CodespeedReporter._format_for_codespeed` as events (a fresh template, then the
stores `result[key] = value` with what is stored, then the return), `Benchmark.as_str_list` and `RunId.as_str_list`
(the identifying columns of a row), and as data the template dict of `_result_data_template`, the dict that fills
the default benchmark name, and `TextReporter.expected_columns`.

Proved: every entry starts from a fresh template; a run that did not fail (and has statistics) stores min, max,
std_dev and the mean as `result_value`, a failed one stores `result_value = -1` and none of the three, as the model's
`csEntry`; `executable` and `benchmark` are stored on every path, so every key the template leaves `None` is filled
unless it is one of the three statistics of a failed run; `executable` is the configured name or else the
executor's; the row of a run is benchmark, executor, suite, extra args, cores, input size, variable, tag, machine, id
-- nine identifying columns in the order of the column titles, which are the model's `colNames`.
Not imported by `RB.lean`: built by the `gen` entry of the obligations.
-/
namespace RB.Report
open RB.Py RB.Gen.ReportFields

abbrev GEvent := RB.Gen.ReportFields.Event

/-- what an entry holds under a key after the events: the last store -/
def stored (evs : List GEvent) (key : String) : Option V :=
  evs.foldl (fun acc e => match e with
    | .store (V.str k) v => if k = key.toList then some v else acc
    | _ => acc) none

/-- **which statistic goes where, as in the model's `csEntry`**: not failed -> min, max, std_dev and the mean; failed
(or no statistics) -> `-1` and no statistic -/
theorem gen_codespeed_entry_eq_model (i : Nat) (r : Run) (vmin vmax vstd vmean exe en bn : V) :
    ∃ evs, CodespeedReporter_format_for_codespeed true r.failed vmin vmax vstd vmean exe en bn = some evs ∧
      (r.failed = false →
        stored evs "result_value" = some vmean ∧ stored evs "min" = some vmin ∧ stored evs "max" = some vmax ∧
        stored evs "std_dev" = some vstd ∧
        (csEntry i r).minV.isSome ∧ (csEntry i r).maxV.isSome ∧ (csEntry i r).m2n.isSome ∧
        (csEntry i r).value = (stats r).mean) ∧
      (r.failed = true →
        stored evs "result_value" = some (V.int (-1)) ∧ stored evs "min" = none ∧ stored evs "max" = none ∧
        stored evs "std_dev" = none ∧ csEntry i r = ⟨i, -1, none, none, none⟩) := by
  cases h : r.failed
  · refine ⟨_, rfl, fun _ => ⟨?_, ?_, ?_, ?_, ?_, ?_, ?_, ?_⟩, (fun h' => by cases h')⟩
    all_goals first | rfl | simp [csEntry, h]
  · refine ⟨_, rfl, (fun h' => by cases h'), fun _ => ⟨?_, ?_, ?_, ?_, ?_⟩⟩
    all_goals first | rfl | simp [csEntry, h]

/-- without statistics the entry is the one of a failed run -/
theorem gen_codespeed_no_stats (f : Bool) (vmin vmax vstd vmean exe en bn : V) :
    CodespeedReporter_format_for_codespeed false f vmin vmax vstd vmean exe en bn =
      CodespeedReporter_format_for_codespeed true true vmin vmax vstd vmean exe en bn := by
  cases f <;> rfl

/-- **every entry starts from its own template**, and its identity (`executable`, `benchmark`) is stored on every
path -- also for a failed run; the executable is the configured name, or else the executor's -/
theorem gen_codespeed_identity (hs f : Bool) (vmin vmax vstd vmean exe en bn : V) :
    ∃ evs, CodespeedReporter_format_for_codespeed hs f vmin vmax vstd vmean exe en bn = some evs ∧
      evs.head? = some .fresh_template ∧ evs.count .fresh_template = 1 ∧ evs.getLast? = some .return_entry ∧
      stored evs "executable" = some (if V.truthy exe then exe else en) ∧
      stored evs "benchmark" = some bn := by
  cases hs <;> cases f <;>
    exact ⟨_, rfl, rfl, rfl, rfl, rfl, rfl⟩

/-- the keys the template leaves `None` ("have to be filled in") are exactly the six the function stores; three of
them on every path -/
theorem gen_template_keys :
    (RB.Gen.ReportTables.result_template.filter (fun kv => kv.2 == "None")).map (·.1) =
      ["executable", "benchmark", "result_value", "std_dev", "max", "min"] ∧
    (RB.Gen.ReportTables.result_template.filter (fun kv => kv.2 != "None")) =
      [("commitid", "self._cfg.commit_id"), ("project", "self._cfg.project"),
       ("environment", "self._cfg.environment"), ("branch", "self._cfg.branch")] ∧
    RB.Gen.ReportTables.benchmark_name_fields =
      [("cores", "run_id.cores_as_str"), ("input_sizes", "run_id.input_size_as_str"),
       ("extra_args", "run_id.benchmark.extra_args")] := by
  decide +kernel

/-- the column titles are the model's -/
theorem gen_columns_eq_model : RB.Gen.ReportTables.expected_columns = colNames := by
  decide +kernel

/-- `as_table_cell` on the modelled values: the text of a `str` cleaned as the data-file model says
(`RB.DataFile.cleanCell`: tab, line feed and carriage return become a space), anything else unchanged -/
def cellV : V → V
  | .str s => .str (RB.DataFile.cleanCell s)
  | v => v

/-- **the identifying columns of a row**, in the order of the titles: benchmark, executor, suite, extra args (empty
for `None`), cores, input size, variable, tag, machine, each passed through `as_table_cell` (`cell`, whatever it
does); the tenth is the id, whose place `#Samples` takes.  `Benchmark.as_str_list` itself hands out the raw cells. -/
theorem gen_row_columns (cell : V → V) (name exe suite cores size var tag machine : V) (extra : List Char) (id : Nat) :
    (Benchmark_as_str_list name exe suite (V.str extra)).bind
        (fun b => RunId_as_str_list b cores size var tag machine cell (V.int id)) =
      some ([name, exe, suite, V.str extra, cores, size, var, tag, machine, V.str (V.natDigits id)].map cell) ∧
    Benchmark_as_str_list name exe suite V.none = some [name, exe, suite, V.str []] ∧
    colNames.length = 9 + 2 := by
  refine ⟨?_, rfl, rfl⟩
  have hneg : ¬ ((id : Int) < 0) := by omega
  simp [Benchmark_as_str_list, RunId_as_str_list, V.isNone, V.pystr, hneg]

/-- with the cleaning of the data-file model for `as_table_cell`: every text cell of the row is the cleaned text
(no tab, line feed or carriage return is left in it), in the same order, and the id is unchanged -/
theorem gen_row_columns_cleaned (name exe suite extra cores size var tag machine : List Char) (id : Nat) :
    (Benchmark_as_str_list (V.str name) (V.str exe) (V.str suite) (V.str extra)).bind
        (fun b => RunId_as_str_list b (V.str cores) (V.str size) (V.str var) (V.str tag) (V.str machine) cellV (V.int id)) =
      some (([name, exe, suite, extra, cores, size, var, tag, machine].map (fun s => V.str (RB.DataFile.cleanCell s))) ++
        [V.str (RB.DataFile.cleanCell (V.natDigits id))]) ∧
    (∀ s : List Char, ∀ c ∈ RB.DataFile.cleanCell s, c ≠ '\t' ∧ c ≠ '\n' ∧ c ≠ '\r') := by
  refine ⟨?_, ?_⟩
  · have hneg : ¬ ((id : Int) < 0) := by omega
    simp [Benchmark_as_str_list, RunId_as_str_list, V.isNone, V.pystr, cellV, hneg]
  · intro s c hc
    simp only [RB.DataFile.cleanCell, List.mem_map] at hc
    obtain ⟨d, _, rfl⟩ := hc
    split <;> simp_all

end RB.Report
