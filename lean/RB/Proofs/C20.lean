/-
C20 — denoise is always undone and used only as granted.
Property theorems only.  The statements quantify over every report of the
start-up step, every body of the session (any trace of process events with any
ending), every capability / env / profiling combination, every core count.
-/
import RB.Model.Denoise
import RB.Proofs.Lemmas.Denoise
import Mathlib.Analysis.SpecialFunctions.Log.Basic
import Mathlib.Analysis.Complex.ExponentialBounds

namespace RB.Denoise

def Ev.isRestore : Ev → Bool
  | .sudoRestore _ _ => true
  | _ => false

def Ev.isSudo : Ev → Bool
  | .sudoMinimize _ => true
  | .sudoRestore _ _ => true
  | .body (.sudoKill _) => true
  | _ => false

/-! ## "invokes the restore step exactly once, … on every way a session can end" -/

/-- If the start-up step returned a result that changed a setting, then for
*every* body — whatever it starts and however it ends (`ok`, failed benchmarks,
`uiError`, `interrupt`, `crash`) — the session is: the one `minimize` call, the
body's events, exactly one `restore` call as the very last event, with the flags
of the granted capabilities; and the body's ending is what the session ends with. -/
theorem c20_restore_once (prof : Bool) (rep : Report) (body : Bool → Bool → Body)
    (h : changed rep = true) :
    ∃ res, minimize rep = some res ∧
      (session false prof rep body).1 =
        [.sudoMinimize prof] ++ (body res.useNice res.useShielding).trace.map .body ++
          [.sudoRestore (!res.useShielding) (!res.useNice)] ∧
      (session false prof rep body).2 = (body res.useNice res.useShielding).ending ∧
      ((session false prof rep body).1.filter Ev.isRestore).length = 1 := by
  unfold changed at h
  cases hm : minimize rep with
  | none => simp [hm] at h
  | some res =>
    simp only [hm, Bool.not_eq_true'] at h
    refine ⟨res, rfl, ?_, ?_, ?_⟩
    · simp [session, hm, restoreNoise, h]
    · simp [session, hm]
    · simp only [session, hm, restoreNoise, h, Bool.false_eq_true, if_false]
      simp only [List.filter_append, List.length_append]
      have : (List.filter Ev.isRestore (List.map Ev.body (body res.useNice res.useShielding).trace)) = [] := by
        simp [List.filter_eq_nil_iff, Ev.isRestore]
      simp [this, List.filter, Ev.isRestore]

-- non-vacuity: an ordinary report (nice granted, shielding not, one setting failed) changed something
example : changed (.json (some .yes) (some .no) [.yes, .failed, .yes]) = true := by decide

/-- never more than one restore, whatever the start-up step reported -/
theorem c20_restore_at_most_once (noD prof : Bool) (rep : Report) (body : Bool → Bool → Body) :
    ((session noD prof rep body).1.filter Ev.isRestore).length ≤ 1 := by
  have hb : ∀ tr : List BodyEv, List.filter Ev.isRestore (List.map Ev.body tr) = [] := by
    intro tr; simp [List.filter_eq_nil_iff, Ev.isRestore]
  cases noD with
  | true => simp [session, hb]
  | false =>
    cases hm : minimize rep with
    | none => simp [session, hm, restoreNoise, Ev.isRestore]
    | some res =>
      simp only [session, hm, restoreNoise, Bool.false_eq_true, if_false]
      simp only [List.filter_append, List.length_append, hb]
      by_cases hf : allFailed res.values = true <;> simp [hf, List.filter, Ev.isRestore]

/-- the start-up step raised (Ctrl-C during start-up, …): no result, no restore
call, and the exception is the session's ending -/
theorem c20_no_result_no_restore (prof : Bool) (e : Ending) (body : Bool → Bool → Body) :
    session false prof (.raised e) body = ([.sudoMinimize prof], e) := by
  simp [session, minimize, restoreNoise]

/-- why SIGTERM has to be handled from the start of the session: a process that dies of a
signal's default action never restores — FULL STATEMENT "every way a session can end" is false
for it (the pinned tree had two such windows: before the first benchmark process, and the whole
session under the parallel scheduler) -/
theorem c20_killed_session_full_fails :
    ¬ ∀ (prof : Bool) (rep : Report) (body : Bool → Bool → Body) (p : Nat), changed rep = true →
        ((sessionDies prof rep body p).filter Ev.isRestore).length = 1 := by
  intro h
  have := h false (.json (some .yes) (some .yes) []) (fun _ _ => ⟨[.start 1, .stop 1], .ok true⟩) 1 (by decide)
  revert this
  decide

/-- a handled SIGTERM is a `KeyboardInterrupt`: the body ends with `interrupt`, wherever it was,
and `c20_restore_once` applies -/
theorem c20_sigterm_handled (prof : Bool) (rep : Report) (tr : List BodyEv) (h : changed rep = true) :
    ((session false prof rep (fun _ _ => ⟨tr, .interrupt⟩)).1.filter Ev.isRestore).length = 1 ∧
    (session false prof rep (fun _ _ => ⟨tr, .interrupt⟩)).2 = .interrupt := by
  obtain ⟨res, _, _, h2, h3⟩ := c20_restore_once prof rep (fun _ _ => ⟨tr, .interrupt⟩) h
  exact ⟨h3, h2⟩

/-! ## "with -D denoise is never invoked" -/

theorem c20_noD_silent (prof : Bool) (rep : Report) (body : Bool → Bool → Body) :
    (session true prof rep body).1 = (body false false).trace.map .body ∧
    (session true prof rep body).2 = (body false false).ending ∧
    ∀ e ∈ (session true prof rep body).1, ∃ b, e = .body b := by
  refine ⟨by simp [session], by simp [session], ?_⟩
  intro e he
  simp only [session, if_true, List.mem_map] at he
  obtain ⟨b, _, rfl⟩ := he
  exact ⟨b, rfl⟩

/-! ## "after the last benchmark process has ended" -/

/-- processes started and not yet ended, scanning a trace from the left -/
def openProcs : List Ev → List Nat → List Nat
  | [], acc => acc
  | .body (.start i) :: es, acc => openProcs es (i :: acc)
  | .body (.stop i) :: es, acc => openProcs es (acc.filter (· ≠ i))
  | _ :: es, acc => openProcs es acc

/-- no benchmark process is running at the moment `restore` is issued -/
def RestoreAfterEnds (tr : List Ev) : Prop :=
  ∀ pre ws wn post, tr = pre ++ [.sudoRestore ws wn] ++ post → openProcs pre [] = []

/-
FULL STATEMENT (false of the model of the pinned tree, because the body of an
interrupted session may leave its process running — C16):

    theorem c20_restore_after_processes (prof rep body) (h : changed rep = true) :
        RestoreAfterEnds (session false prof rep body).1
-/
theorem c20_restore_after_processes_full_fails :
    ¬ ∀ (prof : Bool) (rep : Report) (body : Bool → Bool → Body), changed rep = true →
        RestoreAfterEnds (session false prof rep body).1 := by
  intro h
  have := h false (.json (some .yes) (some .yes) []) (fun _ _ => ⟨[.start 1], .interrupt⟩) (by decide)
    [.sudoMinimize false, .body (.start 1)] false false [] (by decide)
  revert this
  decide

theorem openProcs_append (a b : List Ev) (acc : List Nat) :
    openProcs (a ++ b) acc = openProcs b (openProcs a acc) := by
  induction a generalizing acc with
  | nil => rfl
  | cons e es ih =>
    cases e with
    | sudoMinimize p => simpa [openProcs] using ih acc
    | sudoRestore x y => simpa [openProcs] using ih acc
    | body be =>
      cases be with
      | start i => simpa [openProcs] using ih (i :: acc)
      | stop i => simpa [openProcs] using ih (acc.filter (· ≠ i))
      | sudoKill i => simpa [openProcs] using ih acc

/-- holds whenever the body has ended all the processes it started by the time it
returns or raises — which is C16's obligation on the interrupt path -/
theorem c20_restore_after_processes_partial (prof : Bool) (rep : Report) (body : Bool → Bool → Body)
    (hb : ∀ n s, openProcs ((body n s).trace.map .body) [] = []) :
    RestoreAfterEnds (session false prof rep body).1 := by
  intro pre ws wn post heq
  cases hm : minimize rep with
  | none =>
    simp only [session, hm, restoreNoise, List.append_nil, Bool.false_eq_true, if_false] at heq
    have : Ev.sudoRestore ws wn ∈ [Ev.sudoMinimize prof] := by rw [heq]; simp
    simp at this
  | some res =>
    simp only [session, hm, restoreNoise, Bool.false_eq_true, if_false] at heq
    by_cases hf : allFailed res.values = true
    · simp only [hf, if_true, List.append_nil] at heq
      have : Ev.sudoRestore ws wn ∈ [Ev.sudoMinimize prof] ++ List.map Ev.body (body res.useNice res.useShielding).trace := by
        rw [heq]; simp
      simp at this
    · simp only [hf, Bool.false_eq_true, if_false] at heq
      -- the only restore event is the last one
      have hpost : post = [] := by
        cases post with
        | nil => rfl
        | cons p ps =>
          exfalso
          have hmem : Ev.sudoRestore ws wn ∈ [Ev.sudoMinimize prof] ++ List.map Ev.body (body res.useNice res.useShielding).trace := by
            have hl := congrArg List.dropLast heq
            simp only [List.dropLast_concat] at hl
            rw [hl]
            have : (pre ++ [Ev.sudoRestore ws wn] ++ p :: ps).dropLast = pre ++ [Ev.sudoRestore ws wn] ++ (p :: ps).dropLast := by
              rw [List.dropLast_append_of_ne_nil (by simp)]
            rw [this]; simp
          simp at hmem
      subst hpost
      simp only [List.append_nil] at heq
      have hpre := congrArg List.dropLast heq
      simp only [List.dropLast_concat] at hpre
      rw [← hpre, openProcs_append]
      simpa [openProcs] using hb res.useNice res.useShielding

-- non-vacuity: a body that ends what it starts
example : openProcs (([BodyEv.start 1, .stop 1, .start 2, .sudoKill 2, .stop 2]).map .body) [] = [] := by decide

/-! ## the parallel scheduler: the main thread restores while worker threads execute -/

theorem takeFrom_perm (i : Nat) (ws : List (List BodyEv)) (e : BodyEv) (ws' : List (List BodyEv))
    (h : takeFrom i ws = some (e, ws')) : (e :: ws'.flatten).Perm ws.flatten := by
  induction ws generalizing i ws' with
  | nil => cases i <;> simp [takeFrom] at h
  | cons w ws ih =>
    cases i with
    | zero =>
      cases w with
      | nil => simp [takeFrom] at h
      | cons x xs =>
        simp only [takeFrom, Option.some.injEq, Prod.mk.injEq] at h
        obtain ⟨rfl, rfl⟩ := h
        simp
    | succ i =>
      simp only [takeFrom, Option.map_eq_some_iff] at h
      obtain ⟨p, hp, hpe⟩ := h
      obtain ⟨pe, pws⟩ := p
      simp only [Prod.mk.injEq] at hpe
      obtain ⟨rfl, rfl⟩ := hpe
      have := ih i pws hp
      simp only [List.flatten_cons]
      exact (List.perm_middle.symm).trans (List.Perm.append_left w this)

/-- whatever the schedule, the global order contains exactly the workers' events -/
theorem c20_interleave_perm (sched : List Nat) (ws : List (List BodyEv)) :
    (interleave sched ws).Perm ws.flatten := by
  induction sched generalizing ws with
  | nil => simp [interleave]
  | cons i is ih =>
    simp only [interleave]
    cases h : takeFrom i ws with
    | none => exact ih ws
    | some p =>
      obtain ⟨e, ws'⟩ := p
      exact (List.Perm.cons e (ih ws')).trans (takeFrom_perm i ws e ws' h)

theorem openIn_append (a b : List BodyEv) (acc : List Nat) :
    openIn (a ++ b) acc = openIn b (openIn a acc) := by
  induction a generalizing acc with
  | nil => rfl
  | cons e es ih => cases e <;> simp [openIn, ih]

theorem openIn_abortTail (w : Bool) (run cur : List Nat) :
    openIn (abortTail w run) cur = cur.filter (fun x => x ∉ run) := by
  induction run generalizing cur with
  | nil => simp [abortTail, openIn]
  | cons i rest ih =>
    have : abortTail w (i :: rest) =
        (if w then [BodyEv.sudoKill i] else []) ++ [BodyEv.stop i] ++ abortTail w rest := by
      simp [abortTail]
    rw [this, openIn_append, openIn_append]
    have h1 : openIn (if w then [BodyEv.sudoKill i] else []) cur = cur := by
      cases w <;> simp [openIn]
    rw [h1]
    simp only [openIn, ih, List.filter_filter]
    congr 1
    funext x
    simp only [List.mem_cons, not_or]
    by_cases h1 : x = i <;> by_cases h2 : x ∈ rest <;> simp [h1, h2]

def bodyOf : List Ev → List BodyEv
  | [] => []
  | .body b :: es => b :: bodyOf es
  | _ :: es => bodyOf es

theorem bodyOf_map (es : List BodyEv) : bodyOf (es.map .body) = es := by
  induction es with
  | nil => rfl
  | cons e es ih => simp [bodyOf, ih]

theorem bodyOf_append (a b : List Ev) : bodyOf (a ++ b) = bodyOf a ++ bodyOf b := by
  induction a with
  | nil => rfl
  | cons e es ih => cases e <;> simp [bodyOf, ih]

theorem openProcs_eq_openIn (es : List Ev) (acc : List Nat) :
    openProcs es acc = (openIn (bodyOf es) acc.reverse).reverse := by
  induction es generalizing acc with
  | nil => simp [openProcs, bodyOf, openIn]
  | cons e es ih =>
    cases e with
    | sudoMinimize p => simpa [openProcs, bodyOf] using ih acc
    | sudoRestore a b => simpa [openProcs, bodyOf] using ih acc
    | body be =>
      cases be with
      | start i => simp [openProcs, bodyOf, openIn, ih]
      | stop i => simp [openProcs, bodyOf, openIn, ih, List.filter_reverse]
      | sudoKill i => simpa [openProcs, bodyOf, openIn] using ih acc

/-- The repaired parallel scheduler, for every report that changed a setting, every global
order `G` of the workers' events, and every point `p` at which Ctrl-C / SIGTERM arrives (or
none): exactly one `restore`, it is the last event — no benchmark is started after it — and no
benchmark process is running when it is issued (the running ones are killed first; without an
interrupt this needs `G` to end what it starts, which the workers do before they are joined). -/
theorem c20_par_restore_once (prof : Bool) (rep : Report) (g : Bool → Bool → List BodyEv)
    (at? : Option Nat) (e : Ending) (h : changed rep = true)
    (hclosed : at? = none → ∀ n s, openIn (g n s) [] = []) :
    ∃ pre ws wn, (parSession prof rep g at? e).1 = pre ++ [.sudoRestore ws wn] ∧
      (∀ x ∈ pre, x.isRestore = false) ∧ openProcs pre [] = [] := by
  unfold changed at h
  cases hm : minimize rep with
  | none => simp [hm] at h
  | some res =>
    simp only [hm, Bool.not_eq_true'] at h
    cases at? with
    | none =>
      refine ⟨[.sudoMinimize prof] ++ (g res.useNice res.useShielding).map .body,
        !res.useShielding, !res.useNice, ?_, ?_, ?_⟩
      · simp [parSession, hm, restoreNoise, h]
      · intro x hx
        simp only [List.mem_append, List.mem_singleton, List.mem_map] at hx
        rcases hx with rfl | ⟨b, _, rfl⟩ <;> rfl
      · rw [openProcs_eq_openIn]
        simp [bodyOf_append, bodyOf, bodyOf_map, hclosed rfl]
    | some p =>
      refine ⟨[.sudoMinimize prof] ++ ((g res.useNice res.useShielding).take p).map .body ++
        (abortTail (res.useNice || res.useShielding)
          (openIn ((g res.useNice res.useShielding).take p) [])).map .body,
        !res.useShielding, !res.useNice, ?_, ?_, ?_⟩
      · simp [parSession, hm, restoreNoise, h]
      · intro x hx
        simp only [List.mem_append, List.mem_singleton, List.mem_map] at hx
        rcases hx with (rfl | ⟨b, _, rfl⟩) | ⟨b, _, rfl⟩ <;> rfl
      · rw [openProcs_eq_openIn]
        simp only [bodyOf_append, bodyOf, bodyOf_map, List.nil_append, List.reverse_nil]
        rw [openIn_append, openIn_abortTail]
        simp

/-- FULL STATEMENT for the pinned tree's scheduler (false): the interrupt reaches only the
main thread, `restore` is issued in the middle of the workers' events -/
theorem c20_par_pinned_full_fails :
    ¬ ∀ (prof : Bool) (rep : Report) (g : Bool → Bool → List BodyEv) (p : Nat) (e : Ending),
        changed rep = true → (∀ n s, openIn (g n s) [] = []) →
        RestoreAfterEnds (parSessionPinned prof rep g (some p) e).1 := by
  intro h
  have := h false (.json (some .yes) (some .yes) [])
    (fun _ _ => [.start 1, .stop 1, .start 2, .stop 2]) 1 .interrupt (by decide) (by decide)
    [.sudoMinimize false, .body (.start 1)] false false
    [.body (.stop 1), .body (.start 2), .body (.stop 2)] (by decide)
  revert this
  decide

/-- … and on the pinned tree every remaining benchmark is still executed after the restore -/
theorem c20_par_pinned_work_continues (prof : Bool) (rep : Report) (g : Bool → Bool → List BodyEv)
    (p : Nat) (e : Ending) (res : Result) (hm : minimize rep = some res) :
    bodyOf (parSessionPinned prof rep g (some p) e).1 = g res.useNice res.useShielding := by
  have hr : bodyOf (restoreNoise (some res)) = [] := by
    simp only [restoreNoise]; split <;> rfl
  simp only [parSessionPinned, hm, bodyOf_append, bodyOf, bodyOf_map, hr, List.nil_append,
    List.append_nil]
  exact List.take_append_drop p _

/-! ## "wrapped with exactly the capabilities the start-up step reported" -/

/-- the command is prefixed with
`sudo [--preserve-env=<exactly the env keys>] denoise [--without-nice]
[--without-shielding | --cset-path p] [--for-profiling] --num-cores n exec --` -/
theorem c20_wrap_spec (c : WrapCfg) (cmd : Str) (h : (c.useNice || c.useShielding) = true) :
    wrap c cmd = joinWith [' '] (wrapWords c ++ [cmd]) := by
  obtain ⟨nice, shield, keys, prof, cset, dn, nc⟩ := c
  simp only at h
  cases nice <;> cases shield <;> cases prof <;> cases cset <;> cases keys <;>
    simp_all [wrap, wrapWords, flagWords, joinWith, List.append_assoc]

/-- not wrapped at all when neither capability was granted -/
theorem c20_wrap_none (c : WrapCfg) (cmd : Str) (hn : c.useNice = false) (hs : c.useShielding = false) :
    wrap c cmd = cmd := by
  simp [wrap, hn, hs]

/-! ### … and on the exec side: what `denoise.py exec` finally starts -/

/-- `denoise.py`'s argument parser reads back from the wrapper's flag words exactly the
capabilities the wrapper was built from -/
theorem c20_flags_roundtrip (c : WrapCfg) :
    parseFlags (flagWords c) {} =
      { useNice := c.useNice, useShielding := c.useShielding,
        csetPath := if c.useShielding then c.cset else none, profiling := c.profiling } := by
  have d1 : sWithoutNice ≠ sCsetPath := by decide
  have d2 : sWithoutShielding ≠ sCsetPath := by decide
  have d3 : sForProfiling ≠ sCsetPath := by decide
  have d4 : sWithoutShielding ≠ sWithoutNice := by decide
  have d5 : sForProfiling ≠ sWithoutNice := by decide
  have d6 : sForProfiling ≠ sWithoutShielding := by decide
  obtain ⟨nice, shield, keys, prof, cset, dn, nc⟩ := c
  cases nice <;> cases shield <;> cases prof <;> cases cset <;>
    simp [flagWords, parseFlags, d1, d2, d3, d4, d5, d6]

/-- The process `denoise.py exec` starts for a command wrapped by `wrap`: `cset shield --exec --`
in front iff shielding was granted and a `cset` is available, `nice -n-20` iff nice was granted —
both when both were granted — followed by exactly the command. -/
theorem c20_exec_as_granted (c : WrapCfg) (lookup : Option Str) (cmd : List Str) :
    execArgv (parseFlags (flagWords c) {}) lookup cmd =
      (match c.useShielding, (match (if c.useShielding then c.cset else none) with
                              | some p => some p | none => lookup) with
       | true, some p => [p, sShield, sDashExec, sDashDash]
       | _, _ => []) ++
      (if c.useNice then [sNice, sNiceArg] else []) ++ cmd := by
  rw [c20_flags_roundtrip]
  rfl

/-- in particular with both capabilities granted and the cset path handed over -/
theorem c20_exec_both (c : WrapCfg) (p : Str) (lookup : Option Str) (cmd : List Str)
    (hn : c.useNice = true) (hs : c.useShielding = true) (hc : c.cset = some p) :
    execArgv (parseFlags (flagWords c) {}) lookup cmd =
      [p, sShield, sDashExec, sDashDash, sNice, sNiceArg] ++ cmd := by
  rw [c20_exec_as_granted]
  simp [hn, hs, hc]

/-- the capabilities used for wrapping are the reported ones: granted iff the
report says so (absent or `false` = not granted) -/
theorem c20_caps_as_reported (nice shield : Option JV) (others : List JV) :
    ∃ res, minimize (.json nice shield others) = some res ∧
      res.useNice = truthy nice ∧ res.useShielding = truthy shield := by
  exact ⟨_, rfl, rfl, rfl⟩

/-! ## `denoise.py` itself: `restore` undoes what `minimize` changed

docs/denoise.md: "`restore` will set the system back to a state that is the presumed
standard state".  `roundTrip` is `minimize` followed by `restore` with the flags ReBench
derives from what `minimize` reported. -/

theorem untouched_flatten (L : List (List Act)) (x : Setting) (h : ∀ g ∈ L, Untouched g x) :
    Untouched L.flatten x := by
  induction L with
  | nil => exact untouched_nil x
  | cons g L ih =>
    simp only [List.flatten_cons]
    exact untouched_append (h g (by simp)) (ih (fun g' hg' => h g' (List.mem_cons_of_mem _ hg')))

theorem focusL (h : Host) (s : Sys) (L R : List (List Act)) (mid : List Act) (x : Setting)
    (hL : ∀ g ∈ L, Untouched g x) (hR : ∀ g ∈ R, Untouched g x) :
    applyActs h s (L.flatten ++ mid ++ R.flatten) x = applyActs h s mid x :=
  focus h s _ mid _ x (untouched_flatten L x hL) (untouched_flatten R x hR)

theorem perf_case (h : Host) (n : Nat) (nice shield prof : Bool) (s0 : Sys) (x : Setting)
    (hx : x.isPerf = true) :
    (roundTrip h n nice shield prof s0).1 x ≠ s0 x →
    (roundTrip h n nice shield prof s0).2 x = stdSys x := by
  have hmP : (minimizeActs h n nice shield prof).1 =
      [(governorActs h vPerformance 0 n).1, (noTurboActs h ['1']).1].flatten ++ (perfConfigActs h prof).1 ++
        [(if nice then [Act.niceProbe] else []),
         (if shield && h.hasCset then [Act.shieldOn (shieldLo n) (shieldHi n)] else [])].flatten := by
    simp [minimizeActs, List.append_assoc]
  have hrP : (restoreActs h n (minimizeActs h n nice shield prof).2.shielding).1 =
      [(governorActs h vPowersave 0 n).1, (noTurboActs h ['0']).1].flatten ++ (perfRestoreActs h).1 ++
        [(if (minimizeActs h n nice shield prof).2.shielding then [Act.shieldReset] else [])].flatten := by
    simp [restoreActs, List.append_assoc]
  have hng : ∀ j, x ≠ .governor j := by intro j e; subst e; simp [Setting.isPerf] at hx
  have hnt : x ≠ .noTurbo := by intro e; subst e; simp [Setting.isPerf] at hx
  have hns : x ≠ .shield := by intro e; subst e; simp [Setting.isPerf] at hx
  have hL : ∀ v w, ∀ g ∈ [(governorActs h v 0 n).1, (noTurboActs h w).1], Untouched g x := by
    intro v w g hg
    simp only [List.mem_cons, List.not_mem_nil, or_false] at hg
    rcases hg with rfl | rfl
    · exact governor_untouched h _ _ _ _ hng
    · exact noTurbo_untouched h _ _ hnt
  simp only [roundTrip]
  rw [hmP, hrP, focusL h _ _ _ _ x (hL _ _), focusL h _ _ _ _ x (hL _ _)]
  · cases hw1 : h.writable .perfMaxPercent <;> cases hw2 : h.writable .perfSampleRate <;>
      cases hw3 : h.writable .perfParanoid <;> cases prof <;> cases x <;>
      simp [Setting.isPerf] at hx <;>
      simp [perfConfigActs, perfRestoreActs, hw1, hw2, hw3, applyActs, applyAct, Sys.upd, stdSys]
  · intro g hg
    simp only [List.mem_singleton] at hg; subst hg
    exact shieldReset_untouched _ _ hns
  · intro g hg
    simp only [List.mem_cons, List.not_mem_nil, or_false] at hg
    rcases hg with rfl | rfl
    · exact nice_untouched _ _
    · exact shieldOn_untouched _ _ _ _ hns

/-- Every setting that `minimize` changed is back at its standard value after `restore` —
for every number of cores, every flag combination, every initial state and every pattern of
files that cannot be written (the script then reports "failed" and stops that step: what it
could not change it does not need to undo), provided `cset shield -r` works. -/
theorem c20_denoise_restore_undoes (h : Host) (hr : h.shieldResets = true) (n : Nat)
    (nice shield prof : Bool) (s0 : Sys) (x : Setting) :
    (roundTrip h n nice shield prof s0).1 x ≠ s0 x →
    (roundTrip h n nice shield prof s0).2 x = stdSys x := by
  -- the five groups of `minimize`, the four of `restore`
  have hm : (minimizeActs h n nice shield prof).1 =
      [].flatten ++ (governorActs h vPerformance 0 n).1 ++
        [(noTurboActs h ['1']).1, (perfConfigActs h prof).1,
         (if nice then [Act.niceProbe] else []),
         (if shield && h.hasCset then [Act.shieldOn (shieldLo n) (shieldHi n)] else [])].flatten := by
    simp [minimizeActs, List.append_assoc]
  cases x with
  | governor j =>
    have e1 : (roundTrip h n nice shield prof s0).1 (.governor j) =
        if govWritten h 0 n j then vPerformance else s0 (.governor j) := by
      simp only [roundTrip]
      rw [hm, focusL h s0 [] _ _ (.governor j) (by simp)]
      · exact governorActs_effect h vPerformance n 0 s0 j
      · intro g hg
        simp only [List.mem_cons, List.not_mem_nil, or_false] at hg
        rcases hg with rfl | rfl | rfl | rfl
        · exact noTurbo_untouched h _ _ (by simp)
        · exact perfConfig_untouched h prof _ rfl
        · exact nice_untouched _ _
        · exact shieldOn_untouched _ _ _ _ (by simp)
    have e2 : ∀ s1 : Sys, applyActs h s1 (restoreActs h n (minimizeActs h n nice shield prof).2.shielding).1
        (.governor j) = if govWritten h 0 n j then vPowersave else s1 (.governor j) := by
      intro s1
      have hrs : (restoreActs h n (minimizeActs h n nice shield prof).2.shielding).1 =
          [].flatten ++ (governorActs h vPowersave 0 n).1 ++
            [(noTurboActs h ['0']).1, (perfRestoreActs h).1,
             (if (minimizeActs h n nice shield prof).2.shielding then [Act.shieldReset] else [])].flatten := by
        simp [restoreActs, List.append_assoc]
      rw [hrs, focusL h s1 [] _ _ (.governor j) (by simp)]
      · exact governorActs_effect h vPowersave n 0 s1 j
      · intro g hg
        simp only [List.mem_cons, List.not_mem_nil, or_false] at hg
        rcases hg with rfl | rfl | rfl
        · exact noTurbo_untouched h _ _ (by simp)
        · exact perfRestore_untouched h _ rfl
        · exact shieldReset_untouched _ _ (by simp)
    intro hne
    rw [e1] at hne
    have e2' := e2 (roundTrip h n nice shield prof s0).1
    simp only [roundTrip] at e2' ⊢
    rw [e2']
    cases hw : govWritten h 0 n j with
    | false => simp [hw] at hne
    | true => simp [stdSys]
  | noTurbo =>
    have hmT : (minimizeActs h n nice shield prof).1 =
        [(governorActs h vPerformance 0 n).1].flatten ++ (noTurboActs h ['1']).1 ++
          [(perfConfigActs h prof).1, (if nice then [Act.niceProbe] else []),
           (if shield && h.hasCset then [Act.shieldOn (shieldLo n) (shieldHi n)] else [])].flatten := by
      simp [minimizeActs, List.append_assoc]
    have hrT : (restoreActs h n (minimizeActs h n nice shield prof).2.shielding).1 =
        [(governorActs h vPowersave 0 n).1].flatten ++ (noTurboActs h ['0']).1 ++
          [(perfRestoreActs h).1,
           (if (minimizeActs h n nice shield prof).2.shielding then [Act.shieldReset] else [])].flatten := by
      simp [restoreActs, List.append_assoc]
    have hL : ∀ v, ∀ g ∈ [(governorActs h v 0 n).1], Untouched g .noTurbo := by
      intro v g hg; simp only [List.mem_singleton] at hg; subst hg
      exact governor_untouched h _ _ _ _ (by intro j; simp)
    simp only [roundTrip]
    rw [hmT, hrT, focusL h _ _ _ _ .noTurbo (hL _), focusL h _ _ _ _ .noTurbo (hL _)]
    · by_cases hw : h.writable .noTurbo = true
      · intro _; simp [noTurboActs, hw, applyActs, applyAct, Sys.upd, stdSys]
      · intro hne; simp [noTurboActs, hw, applyActs] at hne
    · intro g hg
      simp only [List.mem_cons, List.not_mem_nil, or_false] at hg
      rcases hg with rfl | rfl
      · exact perfRestore_untouched h _ rfl
      · exact shieldReset_untouched _ _ (by simp)
    · intro g hg
      simp only [List.mem_cons, List.not_mem_nil, or_false] at hg
      rcases hg with rfl | rfl | rfl
      · exact perfConfig_untouched h prof _ rfl
      · exact nice_untouched _ _
      · exact shieldOn_untouched _ _ _ _ (by simp)
  | perfMaxPercent => exact perf_case h n nice shield prof s0 .perfMaxPercent rfl
  | perfSampleRate => exact perf_case h n nice shield prof s0 .perfSampleRate rfl
  | perfParanoid => exact perf_case h n nice shield prof s0 .perfParanoid rfl
  | shield =>
    have hmS : (minimizeActs h n nice shield prof).1 =
        [(governorActs h vPerformance 0 n).1, (noTurboActs h ['1']).1, (perfConfigActs h prof).1,
         (if nice then [Act.niceProbe] else [])].flatten ++
          (if shield && h.hasCset then [Act.shieldOn (shieldLo n) (shieldHi n)] else []) ++
          [].flatten := by
      simp [minimizeActs, List.append_assoc]
    have hrS : (restoreActs h n (minimizeActs h n nice shield prof).2.shielding).1 =
        [(governorActs h vPowersave 0 n).1, (noTurboActs h ['0']).1, (perfRestoreActs h).1].flatten ++
          (if (minimizeActs h n nice shield prof).2.shielding then [Act.shieldReset] else []) ++
          [].flatten := by
      simp [restoreActs, List.append_assoc]
    simp only [roundTrip]
    rw [hmS, hrS, focusL h _ _ [] _ .shield _ (by simp), focusL h _ _ [] _ .shield _ (by simp)]
    · have hsh : (minimizeActs h n nice shield prof).2.shielding
          = (shield && h.hasCset && h.shieldActivates) := rfl
      rw [hsh]
      by_cases hc : (shield && h.hasCset) = true
      · by_cases ha : h.shieldActivates = true
        · intro _; simp [hc, ha, hr, applyActs, applyAct, Sys.upd, stdSys]
        · intro hne; simp [hc, ha, applyActs, applyAct] at hne
      · intro hne; simp [hc, applyActs] at hne
    · intro g hg
      simp only [List.mem_cons, List.not_mem_nil, or_false] at hg
      rcases hg with rfl | rfl | rfl
      · exact governor_untouched h _ _ _ _ (by intro j; simp)
      · exact noTurbo_untouched h _ _ (by simp)
      · exact perfRestore_untouched h _ rfl
    · intro g hg
      simp only [List.mem_cons, List.not_mem_nil, or_false] at hg
      rcases hg with rfl | rfl | rfl | rfl
      · exact governor_untouched h _ _ _ _ (by intro j; simp)
      · exact noTurbo_untouched h _ _ (by simp)
      · exact perfConfig_untouched h prof _ rfl
      · exact nice_untouched _ _

/-- an action that can only move a setting to its standard value -/
def Act.toStd : Act → Prop
  | .write k v => v = stdSys k
  | .shieldOn _ _ => False
  | _ => True

theorem applyActs_toStd (h : Host) (as : List Act) (hs : ∀ a ∈ as, a.toStd) (x : Setting) :
    ∀ s : Sys, applyActs h s as x = stdSys x ∨ applyActs h s as x = s x := by
  induction as with
  | nil => intro s; right; rfl
  | cons a as ih =>
    intro s
    have hstep : applyAct h s a x = stdSys x ∨ applyAct h s a x = s x := by
      have ha := hs a (by simp)
      cases a with
      | write k v =>
        simp only [Act.toStd] at ha
        simp only [applyAct, Sys.upd]
        by_cases e : x = k
        · subst e; left; simp [ha]
        · right; simp [e]
      | touch k => right; rfl
      | niceProbe => right; rfl
      | shieldOn lo hi => exact absurd ha (by simp [Act.toStd])
      | shieldReset =>
        simp only [applyAct]
        split
        · simp only [Sys.upd]
          by_cases e : x = .shield
          · subst e; left; simp [stdSys]
          · right; simp [e]
        · right; rfl
    have := ih (fun b hb => hs b (List.mem_cons_of_mem _ hb)) (applyAct h s a)
    simp only [applyActs, List.foldl_cons] at this ⊢
    rcases this with h1 | h1
    · left; exact h1
    · rcases hstep with h2 | h2
      · left; rw [h1, h2]
      · right; rw [h1, h2]

theorem restoreActs_toStd (h : Host) (n : Nat) (sh : Bool) : ∀ a ∈ (restoreActs h n sh).1, a.toStd := by
  intro a ha
  simp only [restoreActs, List.mem_append] at ha
  rcases ha with ((ha | ha) | ha) | ha
  · obtain ⟨j, rfl⟩ := governorActs_targets h vPowersave n 0 a ha
    simp [Act.toStd, stdSys]
  · unfold noTurboActs at ha
    split at ha
    · simp at ha; subst ha; simp [Act.toStd, stdSys]
    · simp at ha
  · unfold perfRestoreActs at ha
    (repeat' split at ha) <;> simp at ha <;>
      (try rcases ha with rfl | rfl | rfl) <;> (try rcases ha with rfl | rfl) <;> (try subst ha) <;>
      simp [Act.toStd, stdSys]
  · cases sh <;> simp at ha
    subst ha; simp [Act.toStd]

/-- `restore` moves settings only to their standard values (whatever state it finds) -/
theorem c20_denoise_restore_only_to_standard (h : Host) (n : Nat) (sh : Bool) (s : Sys) (x : Setting) :
    applyActs h s (restoreActs h n sh).1 x = stdSys x ∨ applyActs h s (restoreActs h n sh).1 x = s x :=
  applyActs_toStd h _ (restoreActs_toStd h n sh) x s

/-- from the presumed standard state the round trip is the identity: after `minimize` and
`restore` every setting has its standard value again, for every host and flag combination -/
theorem c20_denoise_roundtrip_standard (h : Host) (hr : h.shieldResets = true) (n : Nat)
    (nice shield prof : Bool) (x : Setting) :
    (roundTrip h n nice shield prof stdSys).2 x = stdSys x := by
  by_cases hc : (roundTrip h n nice shield prof stdSys).1 x = stdSys x
  · have := c20_denoise_restore_only_to_standard h n (minimizeActs h n nice shield prof).2.shielding
      (roundTrip h n nice shield prof stdSys).1 x
    simp only [roundTrip] at this hc ⊢
    rcases this with h1 | h1
    · exact h1
    · rw [h1, hc]
  · exact c20_denoise_restore_undoes h hr n nice shield prof stdSys x hc

/-- FULL STATEMENT "the round trip gives back the state it found" (false: `restore` writes the
*presumed* standard values): a machine whose governor was `ondemand` ends with `powersave` -/
theorem c20_denoise_roundtrip_identity_full_fails :
    ¬ ∀ (h : Host) (n : Nat) (nice shield prof : Bool) (s0 : Sys) (x : Setting),
        h.shieldResets = true → (roundTrip h n nice shield prof s0).2 x = s0 x := by
  intro hall
  have := hall ⟨fun _ => true, false, false, true, false⟩ 1 false false false
    (fun _ => ['o', 'n', 'd', 'e', 'm', 'a', 'n', 'd']) (.governor 0) rfl
  revert this
  decide

/-- the shield is reset only if `minimize` reported one -/
theorem c20_denoise_shield_reset_only_if_reported (h : Host) (n : Nat) (nice shield prof : Bool)
    (s0 : Sys) (hsh : (minimizeActs h n nice shield prof).2.shielding = false) :
    (roundTrip h n nice shield prof s0).2 .shield = (roundTrip h n nice shield prof s0).1 .shield := by
  simp only [roundTrip, hsh]
  apply applyActs_untouched
  intro a ha
  simp only [restoreActs, List.mem_append] at ha
  rcases ha with ((ha | ha) | ha) | ha
  · exact governor_untouched h _ _ _ _ (by intro j; simp) a ha
  · exact noTurbo_untouched h _ _ (by simp) a ha
  · exact perfRestore_untouched h _ rfl a ha
  · simp at ha

/-! ## "the shield's core range always lies within 0..cores-1" -/

/-- the integer statement about what the code computes, for every core count
(the property's `n ≥ 1` is not even needed) -/
theorem c20_shield_range (n : Nat) :
    shieldLo n ≤ shieldHi n ∧ shieldHi n ≤ n - 1 := by
  unfold shieldLo shieldHi
  refine ⟨?_, Nat.le_refl _⟩
  repeat' split
  all_goals omega

/-- over the reals: `0 ≤ ⌊ln n⌋ ≤ n − 1` for every `n ≥ 1` -/
theorem c20_shield_range_real (n : ℕ) (h : 1 ≤ n) :
    0 ≤ ⌊Real.log n⌋ ∧ ⌊Real.log n⌋ ≤ (n : ℤ) - 1 := by
  have h1 : (1 : ℝ) ≤ n := by exact_mod_cast h
  have hpos : (0 : ℝ) < n := by linarith
  constructor
  · exact Int.floor_nonneg.mpr (Real.log_nonneg h1)
  · have := Real.log_le_sub_one_of_pos hpos
    have h2 : (⌊Real.log n⌋ : ℝ) ≤ Real.log n := Int.floor_le _
    have h3 : (⌊Real.log n⌋ : ℝ) ≤ ((n : ℤ) - 1 : ℤ) := by push_cast; linarith
    exact_mod_cast h3

/-- `⌊ln n⌋ = k` from integer brackets and 10-digit bounds of `e` -/
theorem floor_log_of_bounds (n k a b : ℕ) (hn : 1 ≤ n) (ha : a ≤ n) (hb : n + 1 ≤ b)
    (hA : (2.7182818286 : ℝ) ^ k ≤ a) (hB : (b : ℝ) - 1 < (2.7182818283 : ℝ) ^ (k + 1)) :
    ⌊Real.log n⌋ = (k : ℤ) := by
  have elo := Real.exp_one_gt_d9
  have ehi := Real.exp_one_lt_d9
  have hnpos : (0 : ℝ) < n := by exact_mod_cast hn
  have h1 : Real.exp k ≤ n := by
    have e1 : Real.exp (k : ℝ) = Real.exp 1 ^ k := by rw [← Real.exp_nat_mul]; simp
    have e2 : Real.exp 1 ^ k ≤ (2.7182818286 : ℝ) ^ k :=
      pow_le_pow_left₀ (Real.exp_pos 1).le ehi.le k
    have e3 : (a : ℝ) ≤ n := by exact_mod_cast ha
    rw [e1]; linarith
  have h2 : (n : ℝ) < Real.exp ((k : ℝ) + 1) := by
    have e1 : Real.exp ((k : ℝ) + 1) = Real.exp 1 ^ (k + 1) := by
      rw [← Real.exp_nat_mul]; push_cast; ring_nf
    have e2 : (2.7182818283 : ℝ) ^ (k + 1) ≤ Real.exp 1 ^ (k + 1) :=
      pow_le_pow_left₀ (by norm_num) elo.le (k + 1)
    have e3 : (n : ℝ) ≤ (b : ℝ) - 1 := by
      have : ((n + 1 : ℕ) : ℝ) ≤ b := by exact_mod_cast hb
      push_cast at this; linarith
    rw [e1]; linarith
  rw [Int.floor_eq_iff]
  constructor
  · have := Real.log_le_log (Real.exp_pos k) h1
    simpa using this
  · have := Real.log_lt_log hnpos h2
    simpa using this

/-- the tie between the integer table of the model and the real logarithm, for
the property's range of core counts: `shieldLo n = ⌊ln n⌋` for `1 ≤ n ≤ 4096`
(indeed up to 8103) -/
theorem c20_shieldLo_is_floor_log (n : ℕ) (h1 : 1 ≤ n) (h2 : n ≤ 4096) :
    (shieldLo n : ℤ) = ⌊Real.log n⌋ := by
  unfold shieldLo
  split
  · rw [floor_log_of_bounds n 0 1 3 h1 (by omega) (by omega) (by norm_num) (by norm_num)]
  split
  · rw [floor_log_of_bounds n 1 3 8 h1 (by omega) (by omega) (by norm_num) (by norm_num)]
  split
  · rw [floor_log_of_bounds n 2 8 21 h1 (by omega) (by omega) (by norm_num) (by norm_num)]
  split
  · rw [floor_log_of_bounds n 3 21 55 h1 (by omega) (by omega) (by norm_num) (by norm_num)]
  split
  · rw [floor_log_of_bounds n 4 55 149 h1 (by omega) (by omega) (by norm_num) (by norm_num)]
  split
  · rw [floor_log_of_bounds n 5 149 404 h1 (by omega) (by omega) (by norm_num) (by norm_num)]
  split
  · rw [floor_log_of_bounds n 6 404 1097 h1 (by omega) (by omega) (by norm_num) (by norm_num)]
  split
  · rw [floor_log_of_bounds n 7 1097 2981 h1 (by omega) (by omega) (by norm_num) (by norm_num)]
  · rw [floor_log_of_bounds n 8 2981 4097 h1 (by omega) (by omega) (by norm_num) (by norm_num)]

/-- hence the property's sentence for the value the code computes:
`0 ≤ shieldLo n = ⌊ln n⌋ ≤ n − 1 = shieldHi n` on the whole range -/
theorem c20_shield_within_cores (n : ℕ) (h1 : 1 ≤ n) (h2 : n ≤ 4096) :
    (shieldLo n : ℤ) = ⌊Real.log n⌋ ∧ 0 ≤ (shieldLo n : ℤ) ∧ (shieldLo n : ℤ) ≤ (shieldHi n : ℤ) ∧
    (shieldHi n : ℤ) = (n : ℤ) - 1 := by
  refine ⟨c20_shieldLo_is_floor_log n h1 h2, by positivity, ?_, ?_⟩
  · exact_mod_cast (c20_shield_range n).1
  · unfold shieldHi; omega

end RB.Denoise
