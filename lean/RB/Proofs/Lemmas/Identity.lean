/-
Helper lemmas for C07: `from_dict ∘ json ∘ as_dict` on the identity classes.
-/
import RB.Model.Identity

namespace RB.Identity

@[simp] theorem toVal_toJ (v : Val) : v.toJ.toVal = v := by cases v <;> rfl

theorem map_toVal_toJ (vs : List Val) : (vs.map Val.toJ).map J.toVal = vs := by
  induction vs with
  | nil => rfl
  | cons v vs ih => simp [ih]

@[simp] theorem map_comp_toVal_toJ (vs : List Val) : vs.map (J.toVal ∘ Val.toJ) = vs := by
  induction vs with
  | nil => rfl
  | cons v vs ih => simp [ih]

theorem lookup_optField (n m : String) (v : Val) :
    (optField m v).lookup n = if n = m then (if v = .none then none else some v.toJ) else none := by
  unfold optField
  by_cases hv : v = .none
  · simp [hv]
  · by_cases hn : n = m
    · subst hn; simp [hv]
    · have : (n == m) = false := by simpa using hn
      simp [hv, hn, List.lookup_cons, this]

/-- reading a scalar back from `pre ++ optField n v ++ post` -/
theorem getVal_mid (pre post : List (String × J)) (n : String) (v : Val)
    (h1 : pre.lookup n = none) (h2 : post.lookup n = none) :
    getVal (pre ++ optField n v ++ post) n = v := by
  unfold getVal
  simp only [List.lookup_append, h1, h2, lookup_optField, if_true, Option.none_or, Option.or_none]
  by_cases hv : v = .none
  · simp [hv]
  · simp [hv]

theorem getList_cons (n : String) (vs dflt : List Val) (rest : List (String × J)) :
    getList ((n, listJ vs) :: rest) n dflt = vs := by
  simp [getList, listJ, List.lookup_cons, map_toVal_toJ]

theorem vars_roundtrip (v : Vars) : Vars.fromDict v.asDict = some v := by
  cases v
  simp [Vars.fromDict, Vars.asDict, getList, listJ, List.lookup_cons, map_toVal_toJ]

theorem env_roundtrip (e : List (String × Val)) :
    (e.map (fun kv => (kv.1, kv.2.toJ))).map (fun kv => (kv.1, kv.2.toVal)) = e := by
  induction e with
  | nil => rfl
  | cons kv e ih => simp [ih]

@[simp] theorem env_roundtrip' (e : List (String × Val)) :
    e.map ((fun kv : String × J => (kv.1, kv.2.toVal)) ∘ fun kv : String × Val => (kv.1, kv.2.toJ)) = e := by
  induction e with
  | nil => rfl
  | cons kv e ih => simp [ih]

theorem lookup_envField (e : Option (List (String × Val))) (n : String) :
    (envField e).lookup n = if n = "env" then e.map envJ else none := by
  cases e with
  | none => simp [envField]
  | some e =>
    by_cases h : n = "env"
    · subst h; simp [envField]
    · have : (n == "env") = false := by simpa using h
      simp [envField, List.lookup_cons, this, h]

/-- proves `getVal r.fields "<name>" = r.<field>` -/
macro "rd_field" f:term : tactic =>
  `(tactic| (simp only [getVal, RunDetails.fields, List.lookup_append, lookup_optField, lookup_envField]
             simp
             generalize $f = vv
             cases vv <;> simp [Val.toJ, J.toVal]))

theorem getEnv_fields (r : RunDetails) : getEnv r.fields = r.env := by
  simp only [getEnv, RunDetails.fields, List.lookup_append, lookup_optField, lookup_envField]
  simp
  cases r.env <;> simp [envJ]

theorem fields_nonempty (r : RunDetails) (h : r.Configured) : r.fields.isEmpty = false := by
  unfold RunDetails.Configured at h
  unfold RunDetails.fields optField
  simp [h]

theorem rundetails_roundtrip (r : RunDetails) (h : r.Configured) :
    RunDetails.fromDict r.asDict = some r := by
  unfold RunDetails.asDict
  rw [fields_nonempty r h]
  simp only [Bool.false_eq_true, if_false, RunDetails.fromDict, getEnv_fields]
  have h1 : getVal r.fields "invocations" = r.invocations := by rd_field r.invocations
  have h2 : getVal r.fields "iterations" = r.iterations := by rd_field r.iterations
  have h3 : getVal r.fields "warmup" = r.warmup := by rd_field r.warmup
  have h4 : getVal r.fields "minIterationTime" = r.minIterationTime := by rd_field r.minIterationTime
  have h5 : getVal r.fields "maxInvocationTime" = r.maxInvocationTime := by rd_field r.maxInvocationTime
  have h6 : getVal r.fields "ignore_timeouts" = r.ignoreTimeouts := by rd_field r.ignoreTimeouts
  have h7 : getVal r.fields "parallel_interference_factor" = r.parallelInterferenceFactor := by
    rd_field r.parallelInterferenceFactor
  have h8 : getVal r.fields "execute_exclusively" = r.executeExclusively := by rd_field r.executeExclusively
  have h9 : getVal r.fields "retries_after_failure" = r.retriesAfterFailure := by rd_field r.retriesAfterFailure
  have h10 : getVal r.fields "invocations_override" = r.invocationsOverride := by rd_field r.invocationsOverride
  have h11 : getVal r.fields "iterations_override" = r.iterationsOverride := by rd_field r.iterationsOverride
  rw [h1, h2, h3, h4, h5, h6, h7, h8, h9, h10, h11]

/-- a map is never `null`, whatever `RunDetails.asDict` returns -/
theorem rundetails_asDict_cases (r : RunDetails) : r.asDict = .null ∨ r.asDict = .obj r.fields := by
  unfold RunDetails.asDict; split <;> simp

theorem exec_roundtrip (e : Exec) (h : e.runDetails.Configured) : Exec.fromDict e.asDict = some e := by
  have hv : getVal ([("name", e.name.toJ), ("executable", e.executable.toJ), ("action", e.action.toJ),
         ("runDetails", e.runDetails.asDict), ("variables", e.variables.asDict)] ++
        optField "path" e.path ++ optField "args" e.args ++ optField "desc" e.description ++
        optField "build" e.build) "action" = e.action := by
    simp [getVal, List.lookup_cons]
  have hp : getVal ([("name", e.name.toJ), ("executable", e.executable.toJ), ("action", e.action.toJ),
         ("runDetails", e.runDetails.asDict), ("variables", e.variables.asDict)] ++
        optField "path" e.path ++ optField "args" e.args ++ optField "desc" e.description ++
        optField "build" e.build) "path" = e.path := by
    simp only [getVal, List.lookup_append, lookup_optField]; simp [List.lookup_cons]
    cases e.path <;> simp [Val.toJ, J.toVal]
  have ha : getVal ([("name", e.name.toJ), ("executable", e.executable.toJ), ("action", e.action.toJ),
         ("runDetails", e.runDetails.asDict), ("variables", e.variables.asDict)] ++
        optField "path" e.path ++ optField "args" e.args ++ optField "desc" e.description ++
        optField "build" e.build) "args" = e.args := by
    simp only [getVal, List.lookup_append, lookup_optField]; simp [List.lookup_cons]
    cases e.args <;> simp [Val.toJ, J.toVal]
  have hd : getVal ([("name", e.name.toJ), ("executable", e.executable.toJ), ("action", e.action.toJ),
         ("runDetails", e.runDetails.asDict), ("variables", e.variables.asDict)] ++
        optField "path" e.path ++ optField "args" e.args ++ optField "desc" e.description ++
        optField "build" e.build) "desc" = e.description := by
    simp only [getVal, List.lookup_append, lookup_optField]; simp [List.lookup_cons]
    cases e.description <;> simp [Val.toJ, J.toVal]
  have hb : getVal ([("name", e.name.toJ), ("executable", e.executable.toJ), ("action", e.action.toJ),
         ("runDetails", e.runDetails.asDict), ("variables", e.variables.asDict)] ++
        optField "path" e.path ++ optField "args" e.args ++ optField "desc" e.description ++
        optField "build" e.build) "build" = e.build := by
    simp only [getVal, List.lookup_append, lookup_optField]; simp [List.lookup_cons]
    cases e.build <;> simp [Val.toJ, J.toVal]
  unfold Exec.asDict Exec.fromDict
  simp only [hv, hp, ha, hd, hb]
  simp [List.lookup_append, List.lookup_cons, rundetails_roundtrip _ h, vars_roundtrip]

theorem suite_roundtrip (s : Suite) (h : s.executor.runDetails.Configured) : Suite.fromDict s.asDict = some s := by
  unfold Suite.asDict Suite.fromDict
  simp [List.lookup_append, List.lookup_cons, exec_roundtrip _ h, lookup_optField, getVal]
  cases s with
  | mk name command location desc build executor =>
    simp
    refine ⟨?_, ?_, ?_⟩
    · cases location <;> simp [Val.toJ, J.toVal]
    · cases desc <;> simp [Val.toJ, J.toVal]
    · cases build <;> simp [Val.toJ, J.toVal]

theorem rundetails_asDict_obj (r : RunDetails) (h : r.Configured) : r.asDict = .obj r.fields := by
  unfold RunDetails.asDict; rw [fields_nonempty r h]; rfl

theorem bench_roundtrip (b : Bench) (h : b.Configured) : Bench.fromDict b.asDict = some b := by
  unfold Bench.asDict Bench.fromDict
  simp [List.lookup_cons, suite_roundtrip _ h.2, rundetails_roundtrip _ h.1, vars_roundtrip,
        lookup_optField, getVal]
  cases b with
  | mk name command extraArgs runDetails variables suite =>
    simp
    cases extraArgs <;> simp [Val.toJ, J.toVal]

theorem run_roundtrip (r : Run) (benchmarks : List Bench) (bid : Nat) (hb : benchmarks[bid]? = some r.benchmark) :
    Run.fromDict benchmarks (r.asDict bid) = some r := by
  unfold Run.asDict Run.fromDict
  simp [List.lookup_append, List.lookup_cons, lookup_optField, getVal, hb]
  cases r with
  | mk benchmark cores inputSize varValue tag machine cmdline =>
    simp
    refine ⟨?_, ?_, ?_, ?_, ?_⟩
    · cases cores <;> simp [Val.toJ, J.toVal]
    · cases inputSize <;> simp [Val.toJ, J.toVal]
    · cases varValue <;> simp [Val.toJ, J.toVal]
    · cases tag <;> simp [Val.toJ, J.toVal]
    · cases machine <;> simp [Val.toJ, J.toVal]

end RB.Identity
