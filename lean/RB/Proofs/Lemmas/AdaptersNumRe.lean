/-
C05: the numeral pattern `(\d+(\.\d*)?|\.\d+)([eE][-+]?\d+)?` on a rendered numeral (first path).
-/
import RB.Proofs.Lemmas.AdaptersPrefix
namespace RB.Adapters

/-! ## the numeral pattern on a rendered numeral -/

/-- what may follow a numeral without being taken for a part of it -/
structure NumRest (rest : List Char) : Prop where
  digit : stopsAt isDigit rest
  dot : ∀ r, rest ≠ '.' :: r
  exp : ∀ e r, rest = e :: r → isE e = true → stopsAt isDigit r ∧ stopsAt isSign r

/-- the captures of `(\d+(\.\d*)?|\.\d+)([eE][-+]?\d+)?` with group numbers `g`, `g+1`, `g+2` -/
def numCaps (g : Nat) (n : Numeral) (c : Caps) : Caps :=
  let c1 : Caps := match n.fp with
    | some f => if n.ip = [] then c else (g + 1, '.' :: f) :: c
    | none => c
  let c2 : Caps := (g, n.mant) :: c1
  match n.exp with
  | some _ => (g + 2, n.expText) :: c2
  | none => c2

def reExp (g : Nat) : Re :=
  Re.opt (Re.grp (g + 2) ((Re.cls isE).seq ((Re.opt (Re.cls isSign)).seq (Re.plus isDigit))))

theorem m_cls_ok {α : Type} (p : Char → Bool) (x : Char) (xs : List Char) (c : Caps)
    (k : List Char → Caps → Option α) (h : p x = true) : (Re.cls p).m (x :: xs) c k = k xs c := by
  simp [Re.m, h]

theorem m_cls_none {α : Type} (p : Char → Bool) (s : List Char) (c : Caps)
    (k : List Char → Caps → Option α) (h : stopsAt p s) : (Re.cls p).m s c k = none := by
  cases s with
  | nil => simp [Re.m]
  | cons a r => simp [Re.m, h a r rfl]

theorem reExp_first (g : Nat) (n : Numeral) (h : n.Valid) (rest : List Char) (hr : NumRest rest) (c : Caps)
    (k : List Char → Caps → Option Caps) (r : Caps)
    (hk : k rest (match n.exp with | some _ => (g + 2, n.expText) :: c | none => c) = some r) :
    (reExp g).m (n.expText ++ rest) c k = some r := by
  unfold reExp Numeral.expText at *
  cases he : n.exp with
  | none =>
    simp only [he, List.nil_append] at hk ⊢
    rw [m_opt_skip]
    · exact hk
    · rw [m_grp, m_seq]
      cases rest with
      | nil => simp [Re.m]
      | cons e r' =>
        by_cases hE : isE e = true
        · rw [m_cls_ok _ _ _ _ _ hE, m_seq]
          obtain ⟨hd, hs⟩ := hr.exp e r' rfl hE
          rw [m_opt_skip _ _ _ _ (m_cls_none _ _ _ _ hs)]
          exact m_plus_none_head _ _ _ _ hd
        · exact m_cls_none _ _ _ _ (stopsAt_cons _ _ _ (by simpa using hE))
  | some x =>
    obtain ⟨e, sg, ds⟩ := x
    obtain ⟨hE, hs, hd⟩ := h.exp e sg ds he
    simp only [he] at hk ⊢
    apply m_opt_first
    rw [m_grp, m_seq]
    simp only [List.cons_append]
    rw [m_cls_ok _ _ _ _ _ hE, m_seq]
    have hsd : stopsAt isSign (ds ++ rest) := by
      obtain ⟨hne, hdd⟩ := hd
      cases ds with
      | nil => exact absurd rfl hne
      | cons d r' =>
        apply stopsAt_cons
        obtain ⟨n1, n2⟩ := digit_ne_sign d (hdd d (by simp))
        simp [isSign, n1, n2]
    cases hsg : sg with
    | none =>
      simp only [hsg, List.nil_append] at hk ⊢
      rw [m_opt_skip _ _ _ _ (m_cls_none _ _ _ _ hsd)]
      apply m_plus_first _ _ _ _ _ _ hd.1 hd.2 hr.digit
      rw [show (e :: (ds ++ rest)) = (e :: ds) ++ rest from rfl, take_consumed]
      exact hk
    | some s =>
      simp only [hsg, List.cons_append, List.nil_append] at hk ⊢
      apply m_opt_first
      have hs' : isSign s = true := by rcases hs s hsg with rfl | rfl <;> decide
      rw [m_cls_ok _ _ _ _ _ hs']
      apply m_plus_first _ _ _ _ _ _ hd.1 hd.2 hr.digit
      rw [show (e :: s :: (ds ++ rest)) = (e :: s :: ds) ++ rest from rfl, take_consumed]
      exact hk



theorem reNumeral_eq (g : Nat) : reNumeral g =
    (Re.grp g (((Re.plus isDigit).seq (Re.opt (Re.grp (g + 1) ((Re.lit ".".toList).seq (Re.star isDigit))))).alt
      ((Re.lit ".".toList).seq (Re.plus isDigit)))).seq (reExp g) := by
  simp [reNumeral, reExp, seqs, str]

/-- what follows the mantissa: the exponent or the rest -/
theorem afterMant (n : Numeral) (h : n.Valid) (rest : List Char) (hr : NumRest rest) :
    stopsAt isDigit (n.expText ++ rest) ∧ ∀ r, n.expText ++ rest ≠ '.' :: r := by
  unfold Numeral.expText
  cases he : n.exp with
  | none => exact ⟨by simpa using hr.digit, by simpa using hr.dot⟩
  | some x =>
    obtain ⟨e, sg, ds⟩ := x
    have hE := (h.exp e sg ds he).1
    constructor
    · apply stopsAt_cons
      unfold isE at hE; simp only [Bool.or_eq_true, beq_iff_eq] at hE
      rcases hE with rfl | rfl <;> decide
    · intro r heq
      simp only [List.cons_append, List.cons.injEq] at heq
      rw [heq.1] at hE; exact absurd hE (by decide)

/-- the numeral pattern on a rendered numeral takes exactly the numeral (first path) -/
theorem reNumeral_first (g : Nat) (n : Numeral) (h : n.Valid) (rest : List Char) (hr : NumRest rest) (c : Caps)
    (k : List Char → Caps → Option Caps) (r : Caps) (hk : k rest (numCaps g n c) = some r) :
    (reNumeral g).m (n.render ++ rest) c k = some r := by
  obtain ⟨hYd, hYdot⟩ := afterMant n h rest hr
  rw [reNumeral_eq, m_seq, m_grp]
  unfold Numeral.render
  rw [List.append_assoc]
  -- after the mantissa (captures `c1` inside, then group g), the exponent part
  have hexp : ∀ (c1 : Caps), numCaps g n c = (match n.exp with
        | some _ => (g + 2, n.expText) :: (g, n.mant) :: c1 | none => (g, n.mant) :: c1) →
      (reExp g).m (n.expText ++ rest) ((g, n.mant) :: c1) k = some r := by
    intro c1 hc1
    apply reExp_first g n h rest hr
    rw [hc1] at hk
    cases he : n.exp with
    | none => simpa [he] using hk
    | some x => simpa [he] using hk
  have htake : List.take ((n.mant ++ (n.expText ++ rest)).length - (n.expText ++ rest).length)
      (n.mant ++ (n.expText ++ rest)) = n.mant := take_consumed _ _
  unfold Numeral.mant at htake hexp ⊢
  by_cases hip : n.ip = []
  · -- `.D+`
    rcases h.nonempty with h0 | ⟨f, hf, hfne⟩
    · exact absurd hip h0
    · simp only [hip, hf, List.nil_append] at htake hexp ⊢
      rw [m_alt_second _ _ _ _ _ (by rw [m_seq]; exact m_plus_none_head _ _ _ _ (stopsAt_cons _ _ _ (by decide)))]
      rw [m_seq, show ('.' :: f ++ (n.expText ++ rest)) = ".".toList ++ (f ++ (n.expText ++ rest)) from rfl, m_lit]
      apply m_plus_first _ _ _ _ _ _ hfne (h.fp f hf) hYd
      rw [show (".".toList ++ (f ++ (n.expText ++ rest))) = '.' :: f ++ (n.expText ++ rest) from rfl, htake]
      exact hexp c (by simp [numCaps, hip, hf, Numeral.mant])
  · have hipd : Digits n.ip := ⟨hip, h.ip⟩
    apply m_alt_first
    rw [m_seq]
    cases hf : n.fp with
    | none =>
      simp only [hf, List.append_nil] at htake hexp ⊢
      apply m_plus_first _ _ _ _ _ _ hipd.1 hipd.2 hYd
      rw [m_opt_skip]
      · rw [htake]
        exact hexp c (by simp [numCaps, hf, Numeral.mant])
      · rw [m_grp, m_seq]
        apply m_lit_none
        cases hY : n.expText ++ rest with
        | nil => rfl
        | cons a t =>
          have : a ≠ '.' := fun e => hYdot t (by rw [hY, e])
          simp [stripPrefix, Ne.symm this]
    | some f =>
      simp only [hf, List.append_assoc, List.cons_append] at htake hexp ⊢
      apply m_plus_first _ _ _ _ _ _ hipd.1 hipd.2 (stopsAt_cons _ _ _ (by decide))
      apply m_opt_first
      rw [m_grp, m_seq, show ('.' :: (f ++ (n.expText ++ rest))) = ".".toList ++ (f ++ (n.expText ++ rest)) from rfl, m_lit]
      apply m_star_first _ _ _ _ _ _ (h.fp f hf) hYd
      rw [show (".".toList ++ (f ++ (n.expText ++ rest))) = ('.' :: f) ++ (n.expText ++ rest) from rfl, take_consumed]
      rw [show (n.ip ++ (('.' :: f) ++ (n.expText ++ rest))) = n.ip ++ '.' :: (f ++ (n.expText ++ rest)) from rfl, htake]
      exact hexp ((g + 1, '.' :: f) :: c) (by simp [numCaps, hip, hf, Numeral.mant])

end RB.Adapters
