/-
Text-level lemmas for the loader model: lines of rendered text, byte prefixes of
rendered text, the line that results when a session's `#!` line is written
directly behind an unterminated tail.
-/
import RB.Proofs.Lemmas.Loader

namespace RB.Loader

/-! ### rendered lines and `fileLines` -/

theorem renderLines_nil : renderLines [] = [] := rfl

theorem renderLines_cons (l : Text) (ls : List Text) :
    renderLines (l :: ls) = l ++ '\n' :: renderLines ls := by
  simp [renderLines]

theorem renderLines_append (a b : List Text) : renderLines (a ++ b) = renderLines a ++ renderLines b := by
  simp [renderLines]

theorem mkLines_cons_of_ne_nil (l : Text) (rest : List Text) (h : rest ≠ []) :
    mkLines (l :: rest) = ⟨l, true⟩ :: mkLines rest := by
  cases rest with
  | nil => exact absurd rfl h
  | cons m ms => rfl

theorem fileLines_cons_line (l R : Text) (hl : '\n' ∉ l) :
    fileLines (l ++ '\n' :: R) = ⟨l, true⟩ :: fileLines R := by
  unfold fileLines
  rw [splitOn_append_sep '\n' R l hl, mkLines_cons_of_ne_nil _ _ (splitOn_ne_nil _ _)]

theorem fileLines_partial (p : Text) (hp : '\n' ∉ p) :
    fileLines p = if p = [] then [] else [⟨p, false⟩] := by
  unfold fileLines
  rw [splitOn_nosep '\n' p hp]
  rfl

theorem records_cons_line (v : Variant) (pl : Payloads) (hdr l R : Text) (hl : '\n' ∉ l) :
    records v pl hdr (l ++ '\n' :: R) = classify pl hdr ⟨l, true⟩ :: records v pl hdr R := by
  unfold records
  rw [fileLines_cons_line l R hl]
  simp

/-- the repaired loader does not see an unterminated tail -/
theorem records_partial (pl : Payloads) (hdr p : Text) (hp : '\n' ∉ p) :
    records Variant.repaired pl hdr p = [] := by
  unfold records
  rw [fileLines_partial p hp]
  split <;> simp [Variant.repaired]

theorem records_renderLines_append (v : Variant) (pl : Payloads) (hdr : Text) :
    ∀ (ls : List Text) (R : Text), (∀ l ∈ ls, '\n' ∉ l) →
      records v pl hdr (renderLines ls ++ R)
        = ls.map (fun l => classify pl hdr ⟨l, true⟩) ++ records v pl hdr R := by
  intro ls
  induction ls with
  | nil => intro R _; simp [renderLines]
  | cons l ls ih =>
    intro R h
    rw [renderLines_cons, List.append_assoc, List.cons_append,
      records_cons_line v pl hdr l _ (h l (List.mem_cons_self ..)),
      ih R (fun x hx => h x (List.mem_cons_of_mem _ hx))]
    simp

/-- a byte prefix of rendered lines: some complete lines and a newline-free rest -/
theorem take_renderLines : ∀ (ls : List Text), (∀ l ∈ ls, '\n' ∉ l) → ∀ k,
    ∃ j p, (renderLines ls).take k = renderLines (ls.take j) ++ p ∧ '\n' ∉ p := by
  intro ls
  induction ls with
  | nil => intro _ k; exact ⟨0, [], by simp [renderLines], by simp⟩
  | cons l ls ih =>
    intro h k
    have hl : '\n' ∉ l := h l (List.mem_cons_self ..)
    by_cases hk : k ≤ l.length
    · refine ⟨0, l.take k, ?_, fun hm => hl (List.mem_of_mem_take hm)⟩
      rw [renderLines_cons, List.take_append_of_le_length hk]
      simp [renderLines]
    · obtain ⟨j, p, hj, hp⟩ := ih (fun x hx => h x (List.mem_cons_of_mem _ hx)) (k - l.length - 1)
      refine ⟨j + 1, p, ?_, hp⟩
      rw [renderLines_cons, List.take_append]
      have h1 : List.take k l = l := List.take_of_length_le (by omega)
      have h2 : k - l.length = (k - l.length - 1) + 1 := by omega
      rw [h1, h2, List.take_succ_cons, hj, List.take_succ_cons, renderLines_cons]
      simp

/-- every text is some complete lines followed by a newline-free rest -/
theorem exists_lines : ∀ t : Text, ∃ ls p, t = renderLines ls ++ p ∧ (∀ l ∈ ls, '\n' ∉ l) ∧ '\n' ∉ p := by
  intro t
  induction t with
  | nil => exact ⟨[], [], rfl, by simp, by simp⟩
  | cons c t ih =>
    obtain ⟨ls, p, ht, hls, hp⟩ := ih
    by_cases hc : c = '\n'
    · refine ⟨[] :: ls, p, ?_, ?_, hp⟩
      · rw [renderLines_cons, ht, hc]; rfl
      · intro l hl
        rcases List.mem_cons.mp hl with rfl | hl
        · simp
        · exact hls l hl
    · cases ls with
      | nil =>
        refine ⟨[], c :: p, by rw [ht]; rfl, by simp, ?_⟩
        intro hm
        rcases List.mem_cons.mp hm with e | hm
        · exact hc e.symm
        · exact hp hm
      | cons l ls =>
        refine ⟨(c :: l) :: ls, p, ?_, ?_, hp⟩
        · rw [ht, renderLines_cons, renderLines_cons]; rfl
        · intro x hx
          rcases List.mem_cons.mp hx with rfl | hx
          · intro hm
            rcases List.mem_cons.mp hm with e | hm
            · exact hc e.symm
            · exact hls l (List.mem_cons_self ..) hm
          · exact hls x (List.mem_cons_of_mem _ hx)

/-! ### what a line can classify as -/

/-- what the torn tail of an interrupted write (with the next session's `#!…` line appended
directly behind it) can classify as: a damaged data line, a damaged metadata record, a comment
or the session line itself -/
def Torn (r : Rec) : Prop :=
  r = .dataErr .value ∨ r = .dataErr .index ∨ r = .metaErr .value ∨ r = .metaErr .index
    ∨ r = .comment ∨ r = .session

theorem Torn.not_total {r : Rec} (h : Torn r) : isTotal r = false := by
  rcases h with h | h | h | h | h | h <;> subst h <;> rfl

theorem classifyData_cases (f : List Text) :
    classifyData f = .dataErr .value ∨ classifyData f = .dataErr .index ∨ ∃ m, classifyData f = .meas m := by
  unfold classifyData
  repeat' split
  all_goals first | exact Or.inl rfl | exact Or.inr (Or.inl rfl) | exact Or.inr (Or.inr ⟨_, rfl⟩)

theorem splitFirstEq_eq : ∀ (t a b : Text), splitFirstEq t = some (a, b) → t = a ++ '=' :: b := by
  intro t
  induction t with
  | nil => intro a b h; cases h
  | cons c cs ih =>
    intro a b h
    unfold splitFirstEq at h
    split at h
    · next hc => cases h; simp [hc]
    · cases hs : splitFirstEq cs with
      | none => rw [hs] at h; cases h
      | some p =>
        obtain ⟨a', b'⟩ := p
        rw [hs] at h
        simp only [Option.some.injEq, Prod.mk.injEq] at h
        obtain ⟨rfl, rfl⟩ := h
        rw [ih a' b' hs]; rfl

/-- a payload that the table accepts, found behind the first `=` of a line's rest, is a
non-empty suffix of the line -/
theorem payload_suffix (l : Text) (n : Nat) (id js : Text) (h : splitFirstEq (l.drop n) = some (id, js)) :
    ∃ x, l = x ++ js := by
  have := splitFirstEq_eq _ _ _ h
  refine ⟨l.take n ++ id ++ ['='], ?_⟩
  have h2 := List.take_append_drop n l
  rw [this] at h2
  rw [List.append_assoc, List.append_assoc]
  exact h2.symm

theorem getLast?_of_suffix {l x js : Text} (h : l = x ++ js) (hjs : js ≠ []) : js.getLast? = l.getLast? := by
  rw [h, List.getLast?_append]
  cases hj : js.getLast? with
  | none => exact absurd (List.getLast?_eq_none_iff.mp hj) hjs
  | some c => rfl

/-- a comment line that does not end in `}` is never a metadata record that parses -/
theorem classifyComment_torn (pl : Payloads) (hpl : PlOk pl) (l : Text) (hl : l.getLast? ≠ some '}') :
    Torn (classifyComment pl l) := by
  unfold classifyComment
  split
  · cases hs : splitFirstEq (l.drop benchPrefix.length) with
    | none => simp only; right; right; left; rfl
    | some p =>
      obtain ⟨id, js⟩ := p
      simp only
      cases hlk : pl.bench js with
      | none => simp only; right; right; left; rfl
      | some key =>
        exfalso
        have hlast := hpl.1 _ _ hlk
        obtain ⟨x, hx⟩ := payload_suffix l _ id js hs
        have hne : js ≠ [] := by intro e; rw [e] at hlast; cases hlast
        rw [getLast?_of_suffix hx hne] at hlast
        exact hl hlast
  · split
    · cases hs : splitFirstEq (l.drop runPrefix.length) with
      | none => simp only; right; right; left; rfl
      | some p =>
        obtain ⟨id, js⟩ := p
        simp only
        cases hlk : pl.run js with
        | none => simp only; right; right; left; rfl
        | some kb =>
          exfalso
          have hlast := hpl.2.1 _ _ hlk
          obtain ⟨x, hx⟩ := payload_suffix l _ id js hs
          have hne : js ≠ [] := by intro e; rw [e] at hlast; cases hlast
          rw [getLast?_of_suffix hx hne] at hlast
          exact hl hlast
    · split
      · right; right; right; right; right; rfl
      · right; right; right; right; left; rfl

theorem cmdOk_spec {cmd : Text} (h : cmdOk cmd = true) :
    '\t' ∉ cmd ∧ '\n' ∉ cmd ∧ cmd.getLast? ≠ some '}' ∧ cmd.getLast? ≠ some ']' ∧ cmd.getLast? ≠ some '"' := by
  unfold cmdOk at h
  simp only [Bool.and_eq_true, Bool.not_eq_true', bne_iff_ne, ne_eq] at h
  obtain ⟨⟨⟨⟨h1, h2⟩, h3⟩, h4⟩, h5⟩ := h
  exact ⟨by simpa using h1, by simpa using h2, h3, h4, h5⟩

/-- the last character of a line that ends in the `#!` line is the command line's (or `!`) -/
theorem sessLine_getLast_ne (q cmd : Text) (c : Char) (hc : cmd.getLast? ≠ some c) (hc' : c ≠ '!') :
    (q ++ sessLine cmd).getLast? ≠ some c := by
  unfold sessLine
  rw [List.getLast?_append]
  cases cmd with
  | nil => simpa using fun e : '!' = c => hc' e.symm
  | cons d ds =>
    rw [List.getLast?_cons_cons, List.getLast?_cons_cons]
    cases hl : (d :: ds).getLast? with
    | none => simp at hl
    | some e => rw [hl] at hc; simpa using hc

theorem sessLine_getLast (q cmd : Text) (hc : cmdOk cmd = true) : (q ++ sessLine cmd).getLast? ≠ some '}' :=
  sessLine_getLast_ne q cmd '}' (cmdOk_spec hc).2.2.1 (by decide)

/-- the session line itself -/
theorem classify_sessLine (pl : Payloads) (hdr cmd : Text) :
    classify pl hdr ⟨sessLine cmd, true⟩ = .session := by
  have h1 : benchPrefix = '#' :: ' ' :: "benchmark: ".toList := by decide
  have h2 : runPrefix = '#' :: ' ' :: "run_id: ".toList := by decide
  have h3 : sessionPrefix = ['#', '!'] := by decide
  simp [classify, sessLine, classifyComment, h1, h2, h3, List.isPrefixOf]

theorem tab_not_mem_sess (cmd : Text) (hcmd : '\t' ∉ cmd) : '\t' ∉ ('#' :: '!' :: cmd) := by
  intro hmem
  rcases List.mem_cons.mp hmem with e | hmem
  · cases e
  rcases List.mem_cons.mp hmem with e | hmem
  · cases e
  exact hcmd hmem

/-- benchmark data file: a data line with the `#!` line glued to it never parses as a measurement
(its last column, the run id, contains `#`) -/
theorem classify_glued_not_meas (pl : Payloads) (hp : pl.profile = none) (hdr pre cmd : Text) (t : Bool)
    (hcmd : '\t' ∉ cmd) (m : Meas) :
    classify pl hdr ⟨pre ++ '#' :: '!' :: cmd, t⟩ ≠ .meas m := by
  intro h
  unfold classify at h
  simp only at h
  split at h
  · unfold classifyComment at h
    repeat' split at h
    all_goals cases h
  · split at h
    · cases h
    · unfold classifyLine at h
      rw [hp] at h
      simp only at h
      obtain ⟨last, hl, hn⟩ := classifyData_meas_last h
      obtain ⟨x, hx⟩ := splitOn_getLast_append '\t' ('#' :: '!' :: cmd) (tab_not_mem_sess cmd hcmd) pre
      rw [hx] at hl
      cases hl
      have := pyNat?_none_of_nondigit (x ++ '#' :: '!' :: cmd) '#' (by simp) (by decide)
      rw [this] at hn; cases hn

/-- profile data file: a data line with the `#!` line glued to it is rejected by the JSON check of
its last column (which then ends like the command line, not like a JSON value) -/
theorem classifyProfile_glued (pl : Payloads) (hpl : PlOk pl) (ok : Text → Bool) (hp : pl.profile = some ok)
    (pre cmd : Text) (hc : cmdOk cmd = true) :
    classifyProfile ok (splitOn '\t' (pre ++ sessLine cmd)) = .dataErr .value := by
  obtain ⟨htab, _, _, h4, h5⟩ := cmdOk_spec hc
  obtain ⟨x, hx⟩ := splitOn_getLast_append '\t' ('#' :: '!' :: cmd) (tab_not_mem_sess cmd htab) pre
  have hx' : (splitOn '\t' (pre ++ sessLine cmd)).getLast? = some (x ++ sessLine cmd) := hx
  have hrej : ok (x ++ sessLine cmd) = false := by
    cases hok : ok (x ++ sessLine cmd) with
    | false => rfl
    | true =>
      rcases hpl.2.2 ok _ hp hok with h | h
      · exact absurd h (sessLine_getLast_ne x cmd ']' h4 (by decide))
      · exact absurd h (sessLine_getLast_ne x cmd '"' h5 (by decide))
  unfold classifyProfile
  rw [hx']
  simp [hrej]

/-- the junction: whatever newline-free text `q` the file ended in (nothing, the tail of an
interrupted write, or that tail followed by a further torn piece), the line that begins with `q`
and continues with the next session's `#!` line is tolerated by the loader — in a benchmark data
file and in a profile data file -/
theorem junction_torn (pl : Payloads) (hdr : Text) (hh : '#' ∉ hdr) (hpl : PlOk pl)
    (q cmd : Text) (hc : cmdOk cmd = true) :
    Torn (classify pl hdr ⟨q ++ sessLine cmd, true⟩) := by
  have htab : '\t' ∉ cmd := (cmdOk_spec hc).1
  cases q with
  | nil =>
    rw [List.nil_append, classify_sessLine]
    right; right; right; right; right; rfl
  | cons c q =>
    by_cases hcs : c = '#'
    · subst hcs
      have : classify pl hdr ⟨('#' :: q) ++ sessLine cmd, true⟩ = classifyComment pl (('#' :: q) ++ sessLine cmd) := by
        simp [classify]
      rw [this]
      exact classifyComment_torn pl hpl _ (sessLine_getLast _ _ hc)
    · have hnh : ((c :: q) ++ sessLine cmd) ≠ hdr := by
        intro e; apply hh; rw [← e]; simp [sessLine]
      have hcl : classify pl hdr ⟨(c :: q) ++ sessLine cmd, true⟩
          = classifyLine pl (splitOn '\t' ((c :: q) ++ sessLine cmd)) := by
        unfold classify
        simp only [List.cons_append]
        split
        · next heq => simp only [List.cons.injEq] at heq; exact absurd heq.1 hcs
        · simp only [List.cons_append] at hnh
          simp [hnh]
      rw [hcl]
      cases hp : pl.profile with
      | none =>
        have hne : ∀ m, classify pl hdr ⟨(c :: q) ++ sessLine cmd, true⟩ ≠ .meas m :=
          fun m => classify_glued_not_meas pl hp hdr (c :: q) cmd true htab m
        rw [hcl] at hne
        unfold classifyLine at hne ⊢
        rw [hp] at hne ⊢
        simp only at hne ⊢
        rcases classifyData_cases (splitOn '\t' ((c :: q) ++ sessLine cmd)) with h | h | ⟨m, h⟩
        · rw [h]; left; rfl
        · rw [h]; right; left; rfl
        · exact absurd h (hne m)
      | some ok =>
        unfold classifyLine
        rw [hp]
        simp only
        rw [classifyProfile_glued pl hpl ok hp (c :: q) cmd hc]
        left; rfl

/-- `parse (render rec) = rec` for a measurement line rendered from tab-free fields -/
theorem rendered_line_parses (invT itT val unit crit : Text) (mid : List Text) (idxT : Text)
    (inv it idx : Nat)
    (hnotab : ∀ f ∈ [invT, itT, val, unit, crit] ++ mid ++ [idxT], '\t' ∉ f)
    (h1 : pyNat? invT = some inv) (h2 : pyNat? itT = some it) (h3 : pyFloatOk val = true)
    (h4 : pyNat? idxT = some idx) :
    classifyData (splitOn '\t' (joinWith '\t' ([invT, itT, val, unit, crit] ++ mid ++ [idxT])))
      = .meas ⟨inv, it, val, crit, crit == totalName, idx⟩ := by
  rw [splitOn_joinWith '\t' _ (by simp) hnotab]
  unfold classifyData lastAfter5
  simp [h1, h2, h3, h4]

/-! ### the repaired loader on torn records, counting -/

/-- a torn tail is tolerated by the repaired loader: it hands over nothing and stops nothing -/
theorem torn_tolerated (st : LState) (r : Rec) (h : Torn r) :
    ∃ st', step Variant.repaired st r = .ok st' ∧ st'.loaded = st.loaded ∧ st'.tables = st.tables := by
  rcases h with h | h | h | h | h | h <;> subst h <;>
    simp [step, tolerate, atComment, Variant.repaired, LState.tables]

theorem countTotals_cons (r : Rec) (rs : List Rec) :
    countTotals (r :: rs) = (if isTotal r then 1 else 0) + countTotals rs := by
  unfold countTotals
  rw [List.filter_cons]
  cases r <;> simp [isTotal] <;> split <;> simp_all <;> omega

theorem countTotals_nil : countTotals [] = 0 := rfl

theorem countTotals_of_torn (r : Rec) (h : Torn r) (rs : List Rec) : countTotals (r :: rs) = countTotals rs := by
  rw [countTotals_cons, h.not_total]; simp

theorem step_loaded_grow {v : Variant} {st st' : LState} {r : Rec} (h : step v st r = .ok st') :
    ∃ e, st'.loaded = st.loaded ++ e ∧ e.length = if isTotal r then 1 else 0 := by
  by_cases ht : isTotal r = true
  · cases r with
    | meas m =>
      have hm : m.total = true := by simpa [isTotal] using ht
      simp only [step] at h
      cases hr : st.runs[m.runIdx]? with
      | none => unfold stepMeas at h; rw [hr] at h; cases h
      | some k =>
        rw [stepMeas_eq st m k hr] at h
        split at h
        · cases h
        · cases h
          exact ⟨_, rfl, by simp [isTotal, hm]⟩
    | _ => simp [isTotal] at ht
  · have ht' : isTotal r = false := by simpa using ht
    exact ⟨[], by rw [step_loaded_of_not_total ht' h]; simp, by simp [ht']⟩

theorem loadFrom_loaded_grow {v : Variant} : ∀ (rs : List Rec) (st st' : LState),
    loadFrom v st rs = .ok st' → ∃ e, st'.loaded = st.loaded ++ e ∧ e.length = countTotals rs := by
  intro rs
  induction rs with
  | nil => intro st st' h; cases h; exact ⟨[], by simp, rfl⟩
  | cons r rs ih =>
    intro st st' h
    simp only [loadFrom] at h
    cases hs : step v st r with
    | error e => rw [hs] at h; cases h
    | ok st1 =>
      rw [hs] at h
      obtain ⟨e1, h1, l1⟩ := step_loaded_grow hs
      obtain ⟨e2, h2, l2⟩ := ih st1 st' h
      refine ⟨e1 ++ e2, by rw [h2, h1, List.append_assoc], ?_⟩
      rw [List.length_append, l1, l2, countTotals_cons]

/-- the data points handed over by a prefix of a list of records are a prefix of those handed
over by the whole list: one per `total` line in the prefix -/
theorem prefix_loaded {v : Variant} {a b : List Rec} {st st1 st2 : LState} {X : List DP}
    (h1 : loadFrom v st a = .ok st1) (h2 : loadFrom v st (a ++ b) = .ok st2)
    (hX : st2.loaded = st.loaded ++ X) : st1.loaded = st.loaded ++ X.take (countTotals a) := by
  rw [loadFrom_append_ok h1] at h2
  obtain ⟨e1, g1, l1⟩ := loadFrom_loaded_grow a st st1 h1
  obtain ⟨e2, g2, _⟩ := loadFrom_loaded_grow b st1 st2 h2
  rw [g2, g1, List.append_assoc] at hX
  have := List.append_cancel_left hX
  rw [g1, ← this, ← l1, List.take_left']
  rfl

/-! ### sessions as text and as records -/

/-- a session's rendering is right: its command line is a plain line, every line it writes is a
line (no newline, no carriage return) that classifies as the record meant, and the records are the
writer model's for whatever tables it starts from -/
def Sess.Ok (pl : Payloads) (hdr : Text) (s : Sess) : Prop :=
  cmdOk s.cmd = true ∧ noCR s.cmd = true ∧ ∀ tb,
    (∀ l ∈ s.body tb, '\n' ∉ l.text ∧ noCR l.text = true ∧ classify pl hdr ⟨l.text, true⟩ = l.cls)
    ∧ (s.body tb).map RLine.cls = blockRecs true s.empty ++ emitAll tb s.ds

/-- the records of sessions written behind a newline-free rest `q` -/
def recsOfSessions (pl : Payloads) (hdr : Text) (q : Text) (tb : Tables) : List Sess → List Rec
  | [] => []
  | s :: ss => classify pl hdr ⟨q ++ sessLine s.cmd, true⟩
      :: ((s.body tb).map RLine.cls ++ recsOfSessions pl hdr [] (ensureAll tb s.ds) ss)

theorem cmdOk_nonl {cmd : Text} (h : cmdOk cmd = true) : '\n' ∉ cmd := (cmdOk_spec h).2.1

theorem sessLine_nonl {q cmd : Text} (hq : '\n' ∉ q) (h : cmdOk cmd = true) : '\n' ∉ q ++ sessLine cmd := by
  intro hm
  rcases List.mem_append.mp hm with hm | hm
  · exact hq hm
  · unfold sessLine at hm
    rcases List.mem_cons.mp hm with e | hm
    · cases e
    rcases List.mem_cons.mp hm with e | hm
    · cases e
    exact cmdOk_nonl h hm

theorem body_classes {pl : Payloads} {hdr : Text} {s : Sess} (hs : s.Ok pl hdr) (tb : Tables) :
    ((s.body tb).map RLine.text).map (fun l => classify pl hdr ⟨l, true⟩) = (s.body tb).map RLine.cls := by
  rw [List.map_map]
  apply List.map_congr_left
  intro l hl
  exact ((hs.2.2 tb).1 l hl).2.2

theorem body_nonl {pl : Payloads} {hdr : Text} {s : Sess} (hs : s.Ok pl hdr) (tb : Tables) :
    ∀ l ∈ (s.body tb).map RLine.text, '\n' ∉ l := by
  intro l hl
  obtain ⟨x, hx, rfl⟩ := List.mem_map.mp hl
  exact ((hs.2.2 tb).1 x hx).1

theorem records_sessionsText (pl : Payloads) (hdr : Text) : ∀ (ss : List Sess) (q : Text) (tb : Tables),
    '\n' ∉ q → (∀ s ∈ ss, s.Ok pl hdr) →
    records Variant.repaired pl hdr (q ++ sessionsText tb ss) = recsOfSessions pl hdr q tb ss := by
  intro ss
  induction ss with
  | nil => intro q tb hq _; simp only [sessionsText, List.append_nil]; exact records_partial pl hdr q hq
  | cons s ss ih =>
    intro q tb hq hok
    have hs := hok s (List.mem_cons_self ..)
    have e : q ++ sessionsText tb (s :: ss)
        = (q ++ sessLine s.cmd) ++ '\n' :: (renderLines ((s.body tb).map RLine.text)
            ++ ([] ++ sessionsText (ensureAll tb s.ds) ss)) := by
      simp [sessionsText, sessText, renderLines_cons, List.append_assoc]
    rw [e, records_cons_line _ _ _ _ _ (sessLine_nonl hq hs.1),
      records_renderLines_append _ _ _ _ _ (body_nonl hs tb), body_classes hs tb,
      ih [] _ (by simp) (fun x hx => hok x (List.mem_cons_of_mem _ hx))]
    rfl

theorem load_recsOfSessions (pl : Payloads) (hdr : Text) (hh : '#' ∉ hdr) (hpl : PlOk pl) :
    ∀ (ss : List Sess) (q : Text) (st : LState), (∀ s ∈ ss, s.Ok pl hdr) →
    ∃ st', loadFrom Variant.repaired st (recsOfSessions pl hdr q st.tables ss) = .ok st'
      ∧ st'.loaded = st.loaded ++ (ss.flatMap (·.ds)).map WDP.toDP := by
  intro ss
  induction ss with
  | nil => intro q st _; exact ⟨st, rfl, by simp⟩
  | cons s ss ih =>
    intro q st hok
    have hs := hok s (List.mem_cons_self ..)
    obtain ⟨st0, h0, hl0, ht0⟩ := torn_tolerated st _ (junction_torn pl hdr hh hpl q s.cmd hs.1)
    have hc : Clean (atComment Variant.repaired st0).cur := by
      simp [atComment, Variant.repaired]; exact clean_none
    obtain ⟨st2, h2, ht2, hl2, _⟩ := load_emitAll Variant.repaired s.ds (atComment Variant.repaired st0) hc
    rw [atComment_tables, ht0] at h2 ht2
    rw [atComment_loaded, hl0] at hl2
    obtain ⟨st3, h3, hl3⟩ := ih [] st2 (fun x hx => hok x (List.mem_cons_of_mem _ hx))
    refine ⟨st3, ?_, ?_⟩
    · simp only [recsOfSessions, loadFrom, h0]
      rw [(hs.2.2 st.tables).2, List.append_assoc, loadFrom_append_ok (load_block _ st0 true s.empty),
        loadFrom_append_ok h2, ← ht2]
      exact h3
    · rw [hl3, hl2]; simp

end RB.Loader
