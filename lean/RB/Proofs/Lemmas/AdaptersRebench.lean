/-
C05, ReBenchLog: the line `[prefix: ]name[ crit]: iterations=N runtime: NUM(m|u)s` — the alternatives of
`(?:.*: )?` with a longer prefix fail, the intended parse is found.
-/
import RB.Proofs.Lemmas.AdaptersNumRe
namespace RB.Adapters

/-! ## ReBenchLog: the total / criterion line -/

/-- the part of the ReBenchLog line pattern after `: iterations=` -/
def reLogTail : Re :=
  seqs [.grp 3 (.plus isDigit), str " runtime: ", .grp 4 (reNumeral 5), .grp 8 (.cls isMU), str "s"]

theorem reRebenchLog_eq : reRebenchLog = rePrefix.seq (reBody notSpace reLogTail) := by
  rfl

theorem wordDot_props (c : Char) (h : isWordDot c = true) : isSpace c = false ∧ c ≠ ':' ∧ c ≠ ' ' := by
  have hs : isSpace c = false := by
    unfold isWordDot isWord isAlpha isDigit extraWord at h
    unfold isSpace
    simp only [Bool.or_eq_true, Bool.and_eq_true, decide_eq_true_eq, beq_iff_eq, List.contains_cons,
      List.contains_nil, Bool.or_false] at h
    simp only [Bool.or_eq_false_iff, Bool.and_eq_false_iff, decide_eq_false_iff_not, beq_eq_false_iff_ne]
    rcases h with ((((h | h) | h) | h) | h) | h
    · omega
    · omega
    · omega
    · subst h; decide
    · omega
    · subst h; decide
  refine ⟨hs, ?_, ?_⟩
  · intro e; subst e; revert h; decide
  · intro e; subst e; revert hs; decide



/-- benchmark name of ReBenchLog: non-empty, no white space, not ending in a colon -/
structure NameOK (name : List Char) : Prop where
  ne : name ≠ []
  ns : ∀ c ∈ name, notSpace c = true
  last : name.getLast? ≠ some ':'

/-- a criterion word `[\w.]+` -/
def CritWord (cw : List Char) : Prop := cw ≠ [] ∧ ∀ c ∈ cw, isWordDot c = true

/-- end of a line: nothing, or the carriage return of CR-LF -/
def EolTail (tail : List Char) : Prop := tail = [] ∨ tail = ['\r']

def critText (crit : Option (List Char)) : List Char :=
  match crit with | some cw => ' ' :: cw | none => []

theorem critText_free (crit : Option (List Char)) (h : ∀ cw, crit = some cw → CritWord cw) :
    ∀ c ∈ critText crit, c ≠ ':' := by
  intro c hc
  cases hcr : crit with
  | none => simp [critText, hcr] at hc
  | some cw =>
    simp only [critText, hcr, List.mem_cons] at hc
    rcases hc with rfl | hc
    · decide
    · exact (wordDot_props c ((h cw hcr).2 c hc)).2.1

theorem noPrefix_name (K : List Char → Caps → Option Caps) (c : Caps) (name : List Char)
    (hns : ∀ a ∈ name, notSpace a = true) (hlast : name.getLast? ≠ some ':') (X : List Char)
    (hX : NoPrefix K c X) : NoPrefix K c (name ++ X) := by
  induction name with
  | nil => exact hX
  | cons a r ih =>
    have hr : r.getLast? ≠ some ':' := by
      cases r with
      | nil => simp
      | cons b r' => simpa [List.getLast?_cons_cons] using hlast
    have ihr := ih (fun x hx => hns x (by simp [hx])) hr
    apply noPrefix_cons K c a _ ihr
    by_cases ha : a = ':'
    · subst ha
      cases r with
      | nil => simp at hlast
      | cons b r' =>
        have hb : notSpace b = true := hns b (by simp)
        have : b ≠ ' ' := by intro e; subst e; revert hb; decide
        exact prefK_colon_ne K c b _ this
    · exact prefK_ne K c a _ ha



theorem render_chars (n : Numeral) (h : n.Valid) :
    ∀ c ∈ n.render, isDigit c = true ∨ c = '.' ∨ isE c = true ∨ c = '+' ∨ c = '-' := by
  intro c hc
  unfold Numeral.render Numeral.mant Numeral.expText at hc
  rcases List.mem_append.mp hc with hc | hc
  · rcases List.mem_append.mp hc with hc | hc
    · exact Or.inl (h.ip c hc)
    · cases hf : n.fp with
      | none => simp [hf] at hc
      | some f =>
        simp only [hf, List.mem_cons] at hc
        rcases hc with hc | hc
        · exact Or.inr (Or.inl hc)
        · exact Or.inl (h.fp f hf c hc)
  · cases hx : n.exp with
    | none => simp [hx] at hc
    | some x =>
      obtain ⟨e, sg, ds⟩ := x
      obtain ⟨hE, hs, hds⟩ := h.exp e sg ds hx
      simp only [hx, List.mem_cons, List.mem_append] at hc
      rcases hc with hc | hc | hc
      · subst hc; exact Or.inr (Or.inr (Or.inl hE))
      · cases hsg : sg with
        | none => simp [hsg] at hc
        | some s =>
          simp only [hsg, List.mem_cons, List.not_mem_nil, or_false] at hc
          subst hc
          rcases hs c hsg with e1 | e1
          · exact Or.inr (Or.inr (Or.inr (Or.inl e1)))
          · exact Or.inr (Or.inr (Or.inr (Or.inr e1)))
      · exact Or.inl (hds.2 c hc)

theorem render_free (n : Numeral) (h : n.Valid) : ∀ c ∈ n.render, c ≠ ':' := by
  intro c hc e
  subst e
  rcases render_chars n h _ hc with h1 | h1 | h1 | h1 | h1 <;> revert h1 <;> decide

/-- a ReBenchLog line `name[ crit]: iterations=N runtime: NUM(m|u)s` -/
structure RLine where
  name : List Char
  crit : Option (List Char)
  n : List Char
  num : Numeral
  unit : Char
  tail : List Char

structure RLine.Valid (x : RLine) : Prop where
  name : NameOK x.name
  crit : ∀ cw, x.crit = some cw → CritWord cw
  n : Digits x.n
  num : x.num.Valid
  unit : isMU x.unit = true
  tail : EolTail x.tail

def RLine.t0 (x : RLine) : List Char := x.num.render ++ x.unit :: 's' :: x.tail
def RLine.t1 (x : RLine) : List Char := " runtime".toList ++ ':' :: ' ' :: x.t0
def RLine.t2 (x : RLine) : List Char := "iterations=".toList ++ (x.n ++ x.t1)
/-- the line without prefix -/
def RLine.body (x : RLine) : List Char := x.name ++ (critText x.crit ++ ':' :: ' ' :: x.t2)

theorem RLine.t0_free (x : RLine) (hx : x.Valid) : ∀ c ∈ x.t0, c ≠ ':' := by
  intro c hc
  simp only [RLine.t0, List.mem_append, List.mem_cons] at hc
  rcases hc with hc | rfl | rfl | hc
  · exact render_free x.num hx.num c hc
  · intro e; have := hx.unit; rw [e] at this; revert this; decide
  · decide
  · rcases hx.tail with ht | ht <;> simp [ht] at hc
    subst hc; decide

theorem RLine.t0_head (x : RLine) (hx : x.Valid) : ∃ a t, x.t0 = a :: t ∧ a ≠ 'i' := by
  obtain ⟨a, r, hr, ha⟩ := render_head x.num hx.num
  refine ⟨a, r ++ x.unit :: 's' :: x.tail, by simp [RLine.t0, hr], ?_⟩
  rcases ha with ha | rfl
  · intro e; subst e; revert ha; decide
  · decide

theorem litIter_cons : litIter = ':' :: ' ' :: "iterations=".toList := by decide

theorem RLine.noLit_t0 (x : RLine) (hx : x.Valid) : noLit litIter x.t0 := by
  rw [litIter_cons]; exact noLit_free _ (x.t0_free hx)

theorem RLine.noLit_t1 (x : RLine) (hx : x.Valid) : noLit litIter x.t1 := by
  have h0 := x.noLit_t0 hx
  rw [litIter_cons] at h0 ⊢
  unfold RLine.t1
  apply noLit_append_free _ _ (by decide)
  obtain ⟨a, t, hat, hai⟩ := x.t0_head hx
  apply noLit_cons
  · rw [hat]; simp [stripPrefix, Ne.symm hai]
  · exact noLit_cons ' ' (stripPrefix_head_ne _ _ _ _ (by decide)) h0

theorem digits_free {ds : List Char} (h : ∀ c ∈ ds, isDigit c = true) : ∀ c ∈ ds, c ≠ ':' := by
  intro c hc e; subst e; have := h _ hc; revert this; decide

theorem RLine.noLit_t2 (x : RLine) (hx : x.Valid) : noLit litIter x.t2 := by
  have h1 := x.noLit_t1 hx
  rw [litIter_cons] at h1 ⊢
  unfold RLine.t2
  apply noLit_append_free _ _ (by decide)
  exact noLit_append_free _ _ (digits_free hx.n.2) h1

theorem RLine.noLit_sp_t2 (x : RLine) (hx : x.Valid) : noLit litIter (' ' :: x.t2) := by
  have h2 := x.noLit_t2 hx
  rw [litIter_cons] at h2 ⊢
  exact noLit_cons ' ' (stripPrefix_head_ne _ _ _ _ (by decide)) h2

/-- no alternative with a prefix: for every continuation that starts with the name/criterion skeleton -/
theorem RLine.noPrefix_body (x : RLine) (hx : x.Valid) (q : Char → Bool) (X : Re) (c : Caps)
    (k : List Char → Caps → Option Caps) :
    NoPrefix (fun s' c' => (reBody q X).m s' c' k) c x.body := by
  have K0 : ∀ s, noLit litIter s → (fun s' c' => (reBody q X).m s' c' k) s c = none :=
    fun s hs => reBody_none q X s hs c k
  unfold RLine.body
  apply noPrefix_name _ _ _ hx.name.ns hx.name.last
  apply noPrefix_append_free _ _ _ _ (critText_free x.crit hx.crit)
  apply noPrefix_cs _ _ _ _ (K0 _ (x.noLit_t2 hx))
  unfold RLine.t2
  apply noPrefix_append_free _ _ _ _ (by decide)
  apply noPrefix_append_free _ _ _ _ (digits_free hx.n.2)
  unfold RLine.t1
  apply noPrefix_append_free _ _ _ _ (by decide)
  apply noPrefix_cs _ _ _ _ (K0 _ (x.noLit_t0 hx))
  exact noPrefix_free _ _ _ (x.t0_free hx)



/-- give one character back: the run `xs d` is followed by a character outside the class, the
continuation fails there and succeeds one character earlier -/
theorem m_plus_giveback {α : Type} (p : Char → Bool) (xs : List Char) (d : Char) (rest : List Char) (c : Caps)
    (k : List Char → Caps → Option α) (r : α) (hne : xs ≠ []) (hxs : ∀ x ∈ xs, p x = true) (hd : p d = true)
    (hstop : stopsAt p rest) (h1 : k rest c = none) (h2 : k (d :: rest) c = some r) :
    (Re.plus p).m (xs ++ d :: rest) c k = some r := by
  cases xs with
  | nil => exact absurd rfl hne
  | cons x xs =>
    simp only [List.cons_append, Re.m, hxs x (by simp), if_true]
    have hx' : ∀ y ∈ xs, p y = true := fun y hy => hxs y (by simp [hy])
    clear hne hxs
    induction xs with
    | nil =>
      simp only [List.nil_append, starM, hd, if_true]
      have : starM p rest (fun s' => k s' c) = none := by
        cases rest with
        | nil => simpa [starM] using h1
        | cons a t => simp [starM, hstop a t rfl, h1]
      rw [this]; exact h2
    | cons y ys ih =>
      simp only [List.cons_append, starM, hx' y (by simp), if_true, ih (fun z hz => hx' z (by simp [hz]))]

def RLine.afterIter (x : RLine) : List Char := x.n ++ (" runtime: ".toList ++ x.t0)

theorem runtime_split : " runtime: ".toList = " runtime".toList ++ [':', ' '] := by decide

theorem RLine.t2_eq (x : RLine) : x.t2 = "iterations=".toList ++ x.afterIter := by
  unfold RLine.t2 RLine.afterIter RLine.t1
  rw [runtime_split, List.append_assoc]
  rfl

theorem numRest_unit (u : Char) (t : List Char) (hu : isMU u = true) : NumRest (u :: t) := by
  have : u = 'm' ∨ u = 'u' := by simpa [isMU] using hu
  rcases this with rfl | rfl
  · refine ⟨stopsAt_cons _ _ _ (by decide), ?_, ?_⟩
    · intro r e; simp at e
    · intro e r he hE; simp only [List.cons.injEq] at he; obtain ⟨rfl, _⟩ := he; exact absurd hE (by decide)
  · refine ⟨stopsAt_cons _ _ _ (by decide), ?_, ?_⟩
    · intro r e; simp at e
    · intro e r he hE; simp only [List.cons.injEq] at he; obtain ⟨rfl, _⟩ := he; exact absurd hE (by decide)

theorem cap_numCaps (g : Nat) (n : Numeral) (c : Caps) (j : Nat) (hj : j < g ∨ g + 2 < j) :
    cap (numCaps g n c) j = cap c j := by
  unfold numCaps
  have e0 : g ≠ j := by omega
  have e1 : g + 1 ≠ j := by omega
  have e2 : g + 2 ≠ j := by omega
  cases n.exp <;> cases n.fp <;> simp [cap, e0, e1, e2] <;> (split <;> simp [cap, e1])

/-- the captures of the log-line pattern on a rendered line, as far as the adapter reads them -/
def RLine.caps (x : RLine) (c0 : Caps) : Caps :=
  (8, [x.unit]) :: (4, x.num.render) :: numCaps 5 x.num ((3, x.n) ::
    ((match x.crit with | some cw => [(2, ' ' :: cw)] | none => []) ++ (1, x.name) :: c0))

/-- after `: iterations=` -/
theorem RLine.tail_first (x : RLine) (hx : x.Valid) (c1 : Caps) :
    reLogTail.m x.afterIter c1 (fun _ c => some c) =
      some ((8, [x.unit]) :: (4, x.num.render) :: numCaps 5 x.num ((3, x.n) :: c1)) := by
  unfold reLogTail RLine.afterIter RLine.t0
  simp only [seqs, str, m_seq]
  rw [m_grp]
  apply m_plus_first _ _ _ _ _ _ hx.n.1 hx.n.2 (stopsAt_lit _ _ _ (by decide))
  rw [take_consumed, m_lit, m_grp]
  apply reNumeral_first 5 x.num hx.num _ (numRest_unit x.unit _ hx.unit)
  rw [take_consumed, m_grp, m_cls_ok _ _ _ _ _ hx.unit]
  rw [show ('s' :: x.tail) = "s".toList ++ x.tail from rfl, m_lit]
  simp



theorem notSpace_stop_space (rest : List Char) : stopsAt notSpace (' ' :: rest) :=
  stopsAt_cons _ _ _ (by decide)

/-- the skeleton `(name)( crit)?: iterations=` on the body of a rendered line -/
theorem RLine.body_first (x : RLine) (hx : x.Valid) (c0 : Caps) :
    (reBody notSpace reLogTail).m x.body c0 (fun _ c => some c) = some (x.caps c0) := by
  unfold reBody RLine.body
  rw [m_seq, m_grp, x.t2_eq]
  have hiter : ∀ (c1 : Caps), ((Re.lit litIter).seq reLogTail).m (':' :: ' ' :: ("iterations=".toList ++ x.afterIter)) c1
      (fun _ c => some c) = some ((8, [x.unit]) :: (4, x.num.render) :: numCaps 5 x.num ((3, x.n) :: c1)) := by
    intro c1
    rw [m_seq, show (':' :: ' ' :: ("iterations=".toList ++ x.afterIter)) = litIter ++ x.afterIter from rfl, m_lit]
    exact x.tail_first hx c1
  cases hcr : x.crit with
  | some cw =>
    obtain ⟨hcne, hcw⟩ := hx.crit cw hcr
    simp only [critText, List.cons_append]
    apply m_plus_first _ _ _ _ _ _ hx.name.ne hx.name.ns (notSpace_stop_space _)
    rw [take_consumed]
    unfold reCritIter
    rw [m_seq]
    apply m_opt_first
    rw [m_grp, m_seq, show (' ' :: (cw ++ ':' :: ' ' :: ("iterations=".toList ++ x.afterIter))) =
      " ".toList ++ (cw ++ ':' :: ' ' :: ("iterations=".toList ++ x.afterIter)) from rfl, m_lit]
    apply m_plus_first _ _ _ _ _ _ hcne hcw (stopsAt_cons _ _ _ (by decide))
    rw [show (" ".toList ++ (cw ++ ':' :: ' ' :: ("iterations=".toList ++ x.afterIter))) =
      (' ' :: cw) ++ (':' :: ' ' :: ("iterations=".toList ++ x.afterIter)) from rfl, take_consumed]
    rw [hiter]
    simp [RLine.caps, hcr]
  | none =>
    simp only [critText, List.nil_append]
    have hns : noLit litIter (' ' :: ("iterations=".toList ++ x.afterIter)) := by
      rw [← x.t2_eq]; exact x.noLit_sp_t2 hx
    apply m_plus_giveback notSpace x.name ':' _ _ _ _ hx.name.ne hx.name.ns (by decide) (notSpace_stop_space _)
    · exact reCritIter_none reLogTail _ hns _ _
    · rw [take_consumed]
      unfold reCritIter
      rw [m_seq, m_opt_skip]
      · rw [hiter]; simp [RLine.caps, hcr]
      · rw [m_grp, m_seq]
        exact m_lit_none _ _ _ _ (stripPrefix_head_ne ' ' [] ':' _ (by decide))



/-- the line as printed: optionally after a prefix `w: ` (any text `w`) -/
def RLine.render (x : RLine) (pre : Option (List Char)) : List Char :=
  match pre with
  | none => x.body
  | some w => w ++ ':' :: ' ' :: x.body

theorem RLine.pmatch (x : RLine) (hx : x.Valid) (pre : Option (List Char)) :
    reRebenchLog.pmatch (x.render pre) = some (x.caps []) := by
  rw [reRebenchLog_eq]
  unfold Re.pmatch RLine.render
  rw [m_seq]
  cases pre with
  | none =>
    simp only
    rw [rePrefix_skip _ _ _ (x.noPrefix_body hx notSpace reLogTail [] _)]
    exact x.body_first hx []
  | some w =>
    simp only
    exact rePrefix_word w x.body [] _ _ (x.noPrefix_body hx notSpace reLogTail [] _) (x.body_first hx [])

theorem strip_crit (cw : List Char) (h : CritWord cw) : strip (' ' :: cw) = cw := by
  obtain ⟨hne, hw⟩ := h
  have hsp : ∀ c ∈ cw, isSpace c = false := fun c hc => (wordDot_props c (hw c hc)).1
  unfold strip stripBy
  have h1 : (' ' :: cw).dropWhile isSpace = cw := by
    have : isSpace ' ' = true := by decide
    simp only [List.dropWhile, this]
    apply dropWhile_stop
    cases cw with
    | nil => exact absurd rfl hne
    | cons a r => exact stopsAt_cons _ _ _ (hsp a (by simp))
  rw [h1, dropWhile_stop _ _ (digits_stop_rev _ hsp), List.reverse_reverse]

/-- criterion and value of the line -/
def RLine.criterion (x : RLine) : List Char := x.crit.getD totalName
def RLine.value (x : RLine) : Rat := if x.unit = 'u' then x.num.value / 1000 else x.num.value

theorem RLine.classify (x : RLine) (hx : x.Valid) (pre : Option (List Char)) :
    classifyRebenchLog (x.render pre) =
      some { pre := [], main := { criterion := x.criterion, unit := ms, value := .flt x.value } } := by
  unfold classifyRebenchLog
  rw [x.pmatch hx pre]
  have h4 : capD (x.caps []) 4 = x.num.render := by simp [capD, cap, RLine.caps]
  have h8 : capD (x.caps []) 8 = [x.unit] := by simp [capD, cap, RLine.caps]
  have h2 : cap (x.caps []) 2 = x.crit.map (fun cw => ' ' :: cw) := by
    simp only [RLine.caps, cap]
    rw [cap_numCaps 5 x.num _ 2 (Or.inl (by omega))]
    cases x.crit <;> simp [cap]
  simp only [h4, h8, h2, numeralVal_render x.num hx.num]
  unfold RLine.criterion RLine.value
  cases hcr : x.crit with
  | none => simp
  | some cw =>
    simp [strip_crit cw (hx.crit cw hcr)]

end RB.Adapters
