import RB.Model.Settings

namespace RB.Settings

theorem chain_cons (l : Raw) (ls : List Raw) (d : Raw) :
    chain (l :: ls) d = chain ls (preferImportant l d) := rfl

theorem chain_snoc (ls : List Raw) (l : Raw) (d : Raw) :
    chain (ls ++ [l]) d = preferImportant l (chain ls d) := by
  simp [chain, List.foldl_append]

theorem chainPlain_snoc (ls : List (Option Nat)) (l : Option Nat) (d : Option Nat) :
    chainPlain (ls ++ [l]) d = pick l (chainPlain ls d) := by
  simp [chainPlain, List.foldl_append]

/-- general form, for any default -/
theorem chain_spec_gen (ls : List Raw) : ∀ d : Raw,
    chain ls d =
      match ls.reverse.find? Raw.isMarked with
      | some v => v
      | none => if d.isMarked then d else (ls.reverse.find? Raw.isDefined).getD d := by
  induction ls with
  | nil => intro d; cases d <;> simp [chain, Raw.isMarked]
  | cons l ls ih =>
    intro d
    rw [chain_cons, ih (preferImportant l d)]
    simp only [List.reverse_cons, List.find?_append, List.find?_cons, List.find?_nil]
    cases h : List.find? Raw.isMarked ls.reverse with
    | some v => simp
    | none =>
      cases h2 : List.find? Raw.isDefined ls.reverse <;>
        cases l <;> cases d <;> simp [preferImportant, Raw.isMarked, Raw.isDefined]

end RB.Settings

namespace RB.Settings

theorem chain_append (xs ys : List Raw) (d : Raw) : chain (xs ++ ys) d = chain ys (chain xs d) := by
  simp [chain, List.foldl_append]

theorem chainPlain_append (xs ys : List (Option Nat)) (d : Option Nat) :
    chainPlain (xs ++ ys) d = chainPlain ys (chainPlain xs d) := by
  simp [chainPlain, List.foldl_append]

/-- a marked value survives every unmarked higher level -/
theorem chain_marked_stays (hi : List Raw) (n : Nat) (h : ∀ r ∈ hi, r.isMarked = false) :
    chain hi (.marked n) = .marked n := by
  induction hi with
  | nil => rfl
  | cons r hi ih =>
    rw [chain_cons]
    have hr := h r List.mem_cons_self
    have : preferImportant r (.marked n) = .marked n := by
      cases r <;> simp_all [preferImportant, Raw.isMarked]
    rw [this]; exact ih (fun r hr => h r (List.mem_cons_of_mem _ hr))

/-- without marks anywhere the chained value is unmarked -/
theorem chain_unmarked (lo : List Raw) (d : Raw) (hd : d.isMarked = false)
    (h : ∀ r ∈ lo, r.isMarked = false) : (chain lo d).isMarked = false := by
  induction lo generalizing d with
  | nil => exact hd
  | cons r lo ih =>
    rw [chain_cons]
    apply ih
    · have hr := h r List.mem_cons_self
      cases r <;> cases d <;> simp_all [preferImportant, Raw.isMarked]
    · exact fun r hr => h r (List.mem_cons_of_mem _ hr)

theorem chain_absent (hi : List Raw) (d : Raw) (h : ∀ r ∈ hi, r = .absent) : chain hi d = d := by
  induction hi generalizing d with
  | nil => rfl
  | cons r hi ih =>
    rw [chain_cons, h r List.mem_cons_self]
    exact ih d (fun r hr => h r (List.mem_cons_of_mem _ hr))

theorem chainPlain_none (hi : List (Option Nat)) (d : Option Nat) (h : ∀ r ∈ hi, r = none) :
    chainPlain hi d = d := by
  induction hi generalizing d with
  | nil => rfl
  | cons r hi ih =>
    have : chainPlain (r :: hi) d = chainPlain hi (pick r d) := rfl
    rw [this, h r List.mem_cons_self]
    exact ih d (fun r hr => h r (List.mem_cons_of_mem _ hr))

end RB.Settings
