/-
C05, ReBenchLog / ValidationLog: failing alternatives — texts without a literal, the alternatives of `(?:.*: )?`.
-/
import RB.Proofs.Lemmas.AdaptersFloat
namespace RB.Adapters

/-! ## failing on every suffix -/

/-- a greedy run (any class) fails when the continuation fails on every suffix of the text -/
theorem starM_none_suffix {α : Type} (p : Char → Bool) (s : List Char) (k : List Char → Option α)
    (h : ∀ i, k (s.drop i) = none) : starM p s k = none := by
  induction s with
  | nil => have := h 0; simpa [starM] using this
  | cons c cs ih =>
    have h0 := h 0
    have ih' := ih (fun i => by simpa using h (i + 1))
    simp only [List.drop_zero] at h0
    simp only [starM, ih', h0]
    split <;> rfl

theorem m_plus_none_suffix {α : Type} (p : Char → Bool) (s : List Char) (c : Caps)
    (k : List Char → Caps → Option α) (h : ∀ i, k (s.drop i) c = none) : (Re.plus p).m s c k = none := by
  cases s with
  | nil => simp [Re.m]
  | cons a r =>
    simp only [Re.m]
    split
    · exact starM_none_suffix p r _ (fun i => by simpa using h (i + 1))
    · rfl

theorem m_star_none_suffix {α : Type} (p : Char → Bool) (s : List Char) (c : Caps)
    (k : List Char → Caps → Option α) (h : ∀ i, k (s.drop i) c = none) : (Re.star p).m s c k = none := by
  simp only [Re.m]
  exact starM_none_suffix p s _ h

theorem repM_none_suffix {α : Type} (p : Char → Bool) (hi : Nat) :
    ∀ (lo : Nat) (s : List Char) (k : List Char → Option α), (∀ i, k (s.drop i) = none) → repM p lo hi s k = none := by
  induction hi with
  | zero => intro lo s k h; have := h 0; simp only [List.drop_zero] at this; simp [repM, this]
  | succ n ih =>
    intro lo s k h
    have h0 := h 0
    simp only [List.drop_zero] at h0
    cases s with
    | nil => simp [repM, h0]
    | cons a r =>
      have ih' := ih (lo - 1) r k (fun i => by simpa using h (i + 1))
      simp only [repM, ih', h0]
      split <;> (split <;> rfl)

theorem m_rep_none_suffix {α : Type} (p : Char → Bool) (lo hi : Nat) (s : List Char) (c : Caps)
    (k : List Char → Caps → Option α) (h : ∀ i, k (s.drop i) c = none) : (Re.rep p lo hi).m s c k = none := by
  simp only [Re.m]
  exact repM_none_suffix p hi lo s _ h

/-! ## texts in which a literal does not occur -/

/-- the literal `l` matches at no position of `s` -/
def noLit (l s : List Char) : Prop := ∀ i, stripPrefix l (s.drop i) = none

theorem noLit_drop {l s : List Char} (h : noLit l s) (j : Nat) : noLit l (s.drop j) := by
  intro i; rw [List.drop_drop]; exact h (j + i)

theorem noLit_nil (l : List Char) (hl : l ≠ []) : noLit l [] := by
  intro i
  cases l with
  | nil => exact absurd rfl hl
  | cons a r => simp [stripPrefix]

theorem noLit_cons {l s : List Char} (c : Char) (h0 : stripPrefix l (c :: s) = none) (h : noLit l s) :
    noLit l (c :: s) := by
  intro i
  cases i with
  | zero => simpa using h0
  | succ j => simpa using h j

theorem stripPrefix_head_ne (a : Char) (l : List Char) (c : Char) (s : List Char) (h : c ≠ a) :
    stripPrefix (a :: l) (c :: s) = none := by
  simp [stripPrefix, Ne.symm h]

/-- a literal that starts with `a` does not occur in a text without `a` followed by … -/
theorem noLit_append_free {a : Char} {l : List Char} (A B : List Char) (hA : ∀ c ∈ A, c ≠ a)
    (hB : noLit (a :: l) B) : noLit (a :: l) (A ++ B) := by
  induction A with
  | nil => exact hB
  | cons c cs ih =>
    exact noLit_cons c (stripPrefix_head_ne a l c _ (hA c (by simp))) (ih (fun x hx => hA x (by simp [hx])))

theorem noLit_free {a : Char} {l : List Char} (A : List Char) (hA : ∀ c ∈ A, c ≠ a) : noLit (a :: l) A := by
  have := noLit_append_free (l := l) A [] hA (noLit_nil _ (by simp))
  simpa using this

/-- a literal fails on a text if it contains a character that the text does not have near its start -/
theorem stripPrefix_none_of_absent (x : Char) (l : List Char) :
    ∀ s : List Char, x ∈ l → (∀ c ∈ s.take l.length, c ≠ x) → stripPrefix l s = none := by
  induction l with
  | nil => intro s hx; cases hx
  | cons a r ih =>
    intro s hx hs
    cases s with
    | nil => rfl
    | cons c t =>
      simp only [stripPrefix]
      split
      · rename_i hac
        subst hac
        rcases List.mem_cons.mp hx with hx | hx
        · exact absurd hx.symm (hs a (by simp))
        · exact ih t hx (fun d hd => hs d (by simp [List.take_succ_cons, hd]))
      · rfl

theorem m_lit_none {α : Type} (l s : List Char) (c : Caps) (k : List Char → Caps → Option α)
    (h : stripPrefix l s = none) : (Re.lit l).m s c k = none := by
  simp [Re.m, h]



/-! ## the common skeleton of the ReBenchLog / ValidationLog line patterns -/

def litIter : List Char := ": iterations=".toList
def litCS : List Char := ": ".toList

/-- `( [\w\.]+)?: iterations=` followed by anything -/
def reCritIter (X : Re) : Re :=
  (Re.opt (Re.grp 2 ((Re.lit " ".toList).seq (Re.plus isWordDot)))).seq ((Re.lit litIter).seq X)

/-- `(name)( [\w\.]+)?: iterations=…` with the name class `q` -/
def reBody (q : Char → Bool) (X : Re) : Re := (Re.grp 1 (Re.plus q)).seq (reCritIter X)

/-- `(?:.*: )?` -/
def rePrefix : Re := Re.opt ((Re.star anyChar).seq (Re.lit litCS))

theorem stripPrefix_some (l : List Char) : ∀ (s r : List Char), stripPrefix l s = some r → s = l ++ r := by
  induction l with
  | nil => intro s r h; cases s <;> simp [stripPrefix] at h <;> simp [h]
  | cons a l ih =>
    intro s r h
    cases s with
    | nil => simp [stripPrefix] at h
    | cons c t =>
      simp only [stripPrefix] at h
      split at h
      · rename_i e; subst e; rw [ih t r h]; rfl
      · cases h

theorem stripPrefix_single (a : Char) (s r : List Char) (h : stripPrefix [a] s = some r) : s = a :: r := by
  cases s with
  | nil => simp [stripPrefix] at h
  | cons c t =>
    simp only [stripPrefix] at h
    split at h
    · rename_i e; subst e
      cases t <;> simp [stripPrefix] at h <;> simp [h]
    · cases h

theorem iterTail_none (X : Re) (s : List Char) (h : noLit litIter s) (c : Caps)
    (k : List Char → Caps → Option Caps) : ((Re.lit litIter).seq X).m s c k = none := by
  rw [m_seq]
  exact m_lit_none _ _ _ _ (by simpa using h 0)

theorem reCritIter_none (X : Re) (s : List Char) (h : noLit litIter s) (c : Caps)
    (k : List Char → Caps → Option Caps) : (reCritIter X).m s c k = none := by
  unfold reCritIter
  rw [m_seq]
  have hin : (Re.grp 2 ((Re.lit " ".toList).seq (Re.plus isWordDot))).m s c
      (fun s' c' => ((Re.lit litIter).seq X).m s' c' k) = none := by
    rw [m_grp, m_seq]
    simp only [Re.m]
    cases hsp : stripPrefix " ".toList s with
    | none => rfl
    | some r =>
      have hs : s = ' ' :: r := stripPrefix_single ' ' s r hsp
      simp only
      have := m_plus_none_suffix isWordDot r c
        (fun s'' c'' => ((Re.lit litIter).seq X).m s'' ((2, s.take (s.length - s''.length)) :: c'') k)
        (fun i => iterTail_none X _ (by
          have := noLit_drop h (i + 1)
          rw [hs] at this; simpa using this) _ _)
      simpa [Re.m] using this
  rw [m_opt_skip _ _ _ _ hin]
  exact iterTail_none X s h c k

theorem reBody_none (q : Char → Bool) (X : Re) (s : List Char) (h : noLit litIter s) (c : Caps)
    (k : List Char → Caps → Option Caps) : (reBody q X).m s c k = none := by
  unfold reBody
  rw [m_seq, m_grp]
  exact m_plus_none_suffix q s c _ (fun i => reCritIter_none X _ (noLit_drop h i) _ _)

/-- the whole pattern `(?:.*: )?(name)( crit)?: iterations=…` fails on a text without `: iterations=` -/
theorem rePrefixBody_none (q : Char → Bool) (X : Re) (s : List Char) (h : noLit litIter s) :
    (rePrefix.seq (reBody q X)).pmatch s = none := by
  unfold Re.pmatch rePrefix
  rw [m_seq]
  have hp : ((Re.star anyChar).seq (Re.lit litCS)).m s []
      (fun s' c' => (reBody q X).m s' c' (fun _ c => some c)) = none := by
    rw [m_seq]
    apply m_star_none_suffix
    intro i
    simp only [Re.m]
    cases hsp : stripPrefix litCS (s.drop i) with
    | none => rfl
    | some r =>
      simp only
      -- `r` is a suffix of `s`
      have hr : ∃ j, r = s.drop j := by
        refine ⟨i + litCS.length, ?_⟩
        have := stripPrefix_some litCS _ r hsp
        rw [← List.drop_drop, this]; simp
      obtain ⟨j, rfl⟩ := hr
      exact reBody_none q X _ (noLit_drop h j) _ _
  rw [m_opt_skip _ _ _ _ hp]
  exact reBody_none q X s h _ _



/-! ## the alternatives of `(?:.*: )?` -/

/-- what the star of `.*: ` hands each suffix to: the literal `": "`, then the rest of the pattern -/
def prefK (K : List Char → Caps → Option Caps) (c : Caps) (s' : List Char) : Option Caps :=
  (Re.lit litCS).m s' c K

/-- no way of choosing a prefix that ends in `": "` lets the rest of the pattern match -/
def NoPrefix (K : List Char → Caps → Option Caps) (c : Caps) (s : List Char) : Prop :=
  starM anyChar s (prefK K c) = none

theorem prefix_m (s : List Char) (c : Caps) (K : List Char → Caps → Option Caps) :
    ((Re.star anyChar).seq (Re.lit litCS)).m s c K = starM anyChar s (prefK K c) := rfl

theorem prefK_ne (K : List Char → Caps → Option Caps) (c : Caps) (a : Char) (s : List Char) (h : a ≠ ':') :
    prefK K c (a :: s) = none := by
  simp [prefK, Re.m, litCS, stripPrefix, Ne.symm h]

theorem prefK_nil (K : List Char → Caps → Option Caps) (c : Caps) : prefK K c [] = none := by
  simp [prefK, Re.m, litCS, stripPrefix]

theorem prefK_colon_ne (K : List Char → Caps → Option Caps) (c : Caps) (b : Char) (s : List Char) (h : b ≠ ' ') :
    prefK K c (':' :: b :: s) = none := by
  simp [prefK, Re.m, litCS, stripPrefix, Ne.symm h]

theorem prefK_colon_end (K : List Char → Caps → Option Caps) (c : Caps) : prefK K c [':'] = none := by
  simp [prefK, Re.m, litCS, stripPrefix]

theorem prefK_cs (K : List Char → Caps → Option Caps) (c : Caps) (u : List Char) :
    prefK K c (':' :: ' ' :: u) = K u c := by
  have : (':' :: ' ' :: u) = litCS ++ u := rfl
  rw [prefK, this, m_lit]

theorem noPrefix_nil (K : List Char → Caps → Option Caps) (c : Caps) : NoPrefix K c [] := by
  simp [NoPrefix, starM, prefK_nil]

theorem noPrefix_cons (K : List Char → Caps → Option Caps) (c : Caps) (a : Char) (s : List Char)
    (h : NoPrefix K c s) (h0 : prefK K c (a :: s) = none) : NoPrefix K c (a :: s) := by
  unfold NoPrefix at h ⊢
  simp [starM, anyChar, h, h0]

theorem noPrefix_append_free (K : List Char → Caps → Option Caps) (c : Caps) (A B : List Char)
    (hA : ∀ a ∈ A, a ≠ ':') (hB : NoPrefix K c B) : NoPrefix K c (A ++ B) := by
  induction A with
  | nil => exact hB
  | cons a r ih =>
    exact noPrefix_cons K c a _ (ih (fun x hx => hA x (by simp [hx]))) (prefK_ne K c a _ (hA a (by simp)))

theorem noPrefix_free (K : List Char → Caps → Option Caps) (c : Caps) (A : List Char) (hA : ∀ a ∈ A, a ≠ ':') :
    NoPrefix K c A := by
  have := noPrefix_append_free K c A [] hA (noPrefix_nil K c)
  simpa using this

/-- a `": "` put there by the renderer: the rest of the pattern must fail on what follows -/
theorem noPrefix_cs (K : List Char → Caps → Option Caps) (c : Caps) (u : List Char)
    (hu : NoPrefix K c u) (hK : K u c = none) : NoPrefix K c (':' :: ' ' :: u) := by
  apply noPrefix_cons
  · exact noPrefix_cons K c ' ' u hu (prefK_ne K c ' ' u (by decide))
  · rw [prefK_cs]; exact hK

/-- without a prefix: the optional group is skipped -/
theorem rePrefix_skip (s : List Char) (c : Caps) (K : List Char → Caps → Option Caps) (h : NoPrefix K c s) :
    rePrefix.m s c K = K s c := by
  unfold rePrefix
  exact m_opt_skip _ _ _ _ (by rw [prefix_m]; exact h)

theorem starM_any_cons {α : Type} (a : Char) (s : List Char) (k : List Char → Option α) :
    starM anyChar (a :: s) k = (match starM anyChar s k with | some r => some r | none => k (a :: s)) := by
  simp only [starM, anyChar, if_true]
  cases starM anyChar s k <;> rfl

/-- with a prefix `w: ` (any text `w`): every longer prefix fails, this one is taken -/
theorem rePrefix_word (w s : List Char) (c : Caps) (K : List Char → Caps → Option Caps) (r : Caps)
    (h : NoPrefix K c s) (hK : K s c = some r) : rePrefix.m (w ++ ':' :: ' ' :: s) c K = some r := by
  unfold rePrefix
  apply m_opt_first
  rw [prefix_m]
  have hsp : NoPrefix K c (' ' :: s) := noPrefix_cons K c ' ' s h (prefK_ne K c ' ' s (by decide))
  induction w with
  | nil =>
    unfold NoPrefix at hsp
    rw [List.nil_append, starM_any_cons, hsp, prefK_cs]; exact hK
  | cons a w ih => rw [List.cons_append, starM_any_cons, ih]

/-- the literal occurs nowhere iff `search` does not find it -/
theorem noLit_iff_search (l s : List Char) : noLit l s ↔ (Re.lit l).search s = false := by
  have hp : ∀ t : List Char, ((Re.lit l).pmatch t).isSome = (stripPrefix l t).isSome := by
    intro t
    simp only [Re.pmatch, Re.m]
    cases stripPrefix l t <;> rfl
  induction s with
  | nil =>
    simp only [Re.search, hp]
    constructor
    · intro h; have := h 0; simp only [List.drop_nil] at this; simp [this]
    · intro h i; simp only [List.drop_nil]; cases hs : stripPrefix l [] with
      | none => rfl
      | some r => simp [hs] at h
  | cons c cs ih =>
    simp only [Re.search, hp, Bool.or_eq_false_iff]
    constructor
    · intro h
      refine ⟨?_, ih.mp (fun i => by simpa using h (i + 1))⟩
      have := h 0; simp only [List.drop_zero] at this; simp [this]
    · intro ⟨h0, h1⟩ i
      cases i with
      | zero =>
        simp only [List.drop_zero]
        cases hs : stripPrefix l (c :: cs) with
        | none => rfl
        | some r => simp [hs] at h0
      | succ j => simpa using ih.mpr h1 j

end RB.Adapters
