/-
Helper lemmas for C07: the text-level loader `loadT` agrees with the abstract loader `load`
on files whose data points are separator-free and end in their `total`.
-/
import RB.Proofs.Lemmas.Text
import RB.Proofs.Lemmas.DataFile

namespace RB.DataFile

/-! ### universal newlines on a line without `\r` / `\n` -/

theorem splitLinesAux_plain (cs acc : List Char) (h : ∀ c ∈ cs, c ≠ '\r' ∧ c ≠ '\n') :
    splitLinesAux acc (cs ++ ['\n']) = [acc.reverse ++ cs] := by
  induction cs generalizing acc with
  | nil => simp [splitLinesAux]
  | cons c cs ih =>
    have hc := h c (by simp)
    have := ih (c :: acc) (fun x hx => h x (by simp [hx]))
    simp only [List.cons_append]
    rw [splitLinesAux.eq_def]
    split
    · simp at *
    · rename_i heq; simp at heq; exact absurd heq.1 hc.1
    · rename_i heq; simp at heq; exact absurd heq.1 hc.1
    · rename_i heq; simp at heq; exact absurd heq.1 hc.2
    · rename_i c' cs' _ _ _ heq
      simp at heq
      obtain ⟨rfl, rfl⟩ := heq
      simpa using this

theorem splitLines_plain (cs : List Char) (h : ∀ c ∈ cs, c ≠ '\r' ∧ c ≠ '\n') :
    splitLines (cs ++ ['\n']) = [cs] := by
  simpa [splitLines] using splitLinesAux_plain cs [] h

/-! ### the rendered line is plain, and parses back -/

/-- no tab, CR, LF -/
def plainChar (c : Char) : Prop := c ≠ '\t' ∧ c ≠ '\r' ∧ c ≠ '\n'

theorem plain_of_sepFree {s : List Char} (h : sepFree s = true) : ∀ c ∈ s, plainChar c := by
  intro c hc
  simp only [sepFree, List.all_eq_true] at h
  have := h c hc
  simp only [decide_eq_true_eq] at this
  exact ⟨this.1, this.2.2, this.2.1⟩

theorem plain_of_digits {s : List Char} (h : ∀ c ∈ s, c.isDigit = true) : ∀ c ∈ s, plainChar c := by
  intro c hc
  have hd := h c hc
  refine ⟨?_, ?_, ?_⟩ <;> (intro e; rw [e] at hd; exact absurd hd (by decide))

theorem plain_fmtMicro (u : Nat) : ∀ c ∈ fmtMicro u, plainChar c := by
  intro c hc
  unfold fmtMicro at hc
  rcases List.mem_append.mp hc with h | h
  · exact plain_of_digits (natToDec_digits _) c h
  · rcases List.mem_cons.mp h with rfl | h
    · exact ⟨by decide, by decide, by decide⟩
    · exact plain_of_digits (pad6_digits _) c h

theorem plain_fmt6 (q : Rat) : ∀ c ∈ fmt6 q, plainChar c := by
  intro c hc
  unfold fmt6 at hc
  split at hc
  · rcases List.mem_cons.mp hc with rfl | h
    · exact ⟨by decide, by decide, by decide⟩
    · exact plain_fmtMicro _ c h
  · exact plain_fmtMicro _ c hc

theorem mem_joinSep (sep : Char) (fs : List (List Char)) (c : Char) (h : c ∈ joinSep sep fs) :
    c = sep ∨ ∃ f ∈ fs, c ∈ f := by
  induction fs with
  | nil => simp [joinSep] at h
  | cons f fs ih =>
    cases fs with
    | nil => simp only [joinSep] at h; exact .inr ⟨f, by simp, h⟩
    | cons g gs =>
      simp only [joinSep, List.mem_append, List.mem_cons] at h
      rcases h with h | rfl | h
      · exact .inr ⟨f, by simp, h⟩
      · exact .inl rfl
      · rcases ih h with h | ⟨x, hx, hc⟩
        · exact .inl h
        · exact .inr ⟨x, by simp [hx], hc⟩

/-- a line all of whose fields are plain: the value written by `"%f"`, unit, criterion, columns separator-free -/
structure LineOk (l : MeasLine) (q : Rat) : Prop where
  value : l.value = fmt6 q
  sep : l.SepFree

theorem renderMeas_plainLine (l : MeasLine) (q : Rat) (h : LineOk l q) :
    ∀ c ∈ renderMeas l, c ≠ '\r' ∧ c ≠ '\n' := by
  intro c hc
  unfold renderMeas at hc
  rcases mem_joinSep _ _ c hc with rfl | ⟨f, hf, hcf⟩
  · exact ⟨by decide, by decide⟩
  · have hp : plainChar c := by
      simp only [List.cons_append, List.nil_append, List.mem_cons, List.mem_append, List.not_mem_nil,
        or_false] at hf
      rcases hf with rfl | rfl | rfl | rfl | rfl | hf | rfl
      · exact plain_of_digits (natToDec_digits _) c hcf
      · exact plain_of_digits (natToDec_digits _) c hcf
      · rw [h.value] at hcf; exact plain_fmt6 q c hcf
      · exact plain_of_sepFree h.sep.1 c hcf
      · exact plain_of_sepFree h.sep.2.1 c hcf
      · exact plain_of_sepFree (h.sep.2.2 _ hf) c hcf
      · exact plain_of_digits (natToDec_digits _) c hcf
    exact ⟨hp.2.1, hp.2.2⟩

theorem readFixed_fmt6 (q : Rat) : ∃ v, readFixed (fmt6 q) = some v := by
  unfold fmt6
  split
  · exact ⟨_, readFixed_neg_fmtMicro _⟩
  · exact ⟨_, readFixed_fmtMicro _⟩

theorem parseMeas_render (l : MeasLine) (q : Rat) (h : LineOk l q) :
    ∃ v, parseMeas (renderMeas l) = some { inv := l.inv, it := l.it, value := v, unit := l.unit,
                                           crit := l.crit, rid := l.rid } := by
  obtain ⟨v, hr⟩ := readFixed_fmt6 q
  replace hr := readValue_of_readFixed hr
  refine ⟨v, ?_⟩
  unfold parseMeas renderMeas
  rw [splitSep_joinSep '\t' _ (by simp)]
  · simp only [List.cons_append, List.nil_append]
    simp [decToNat_natToDec, h.value, hr, List.getLast?_append]
  · intro f hf
    simp only [List.cons_append, List.nil_append, List.mem_cons, List.mem_append, List.not_mem_nil,
      or_false] at hf
    rcases hf with rfl | rfl | rfl | rfl | rfl | hf | rfl
    · exact natToDec_noTab _
    · exact natToDec_noTab _
    · rw [h.value]; exact fun hm => (plain_fmt6 q _ hm).1 rfl
    · exact fun hm => (plain_of_sepFree h.sep.1 _ hm).1 rfl
    · exact fun hm => (plain_of_sepFree h.sep.2.1 _ hm).1 rfl
    · exact fun hm => (plain_of_sepFree (h.sep.2.2 _ hf) _ hm).1 rfl
    · exact natToDec_noTab _

theorem cleanCell_sepFree (s : List Char) : sepFree (cleanCell s) = true := by
  simp only [sepFree, cleanCell, List.all_map, List.all_eq_true]
  intro c _
  by_cases h : c = '\t' ∨ c = '\n' ∨ c = '\r'
  · simp [h]
  · simp only [Function.comp, h, if_false]
    simpa [not_or] using h

theorem cleanCell_of_sepFree (s : List Char) (h : sepFree s = true) : cleanCell s = s := by
  simp only [sepFree, List.all_eq_true, decide_eq_true_eq] at h
  unfold cleanCell
  conv => rhs; rw [← List.map_id s]
  apply List.map_congr_left
  intro c hc
  have := h c hc
  simp [this.1, this.2.1, this.2.2]

theorem cleaned_sepFree (l : MeasLine) : l.cleaned.SepFree := by
  refine ⟨cleanCell_sepFree _, cleanCell_sepFree _, ?_⟩
  intro c hc
  simp only [MeasLine.cleaned, List.mem_map] at hc
  obtain ⟨a, _, rfl⟩ := hc
  exact cleanCell_sepFree a

/-- texts without such characters are written as they are -/
theorem writeMeas_sepFree (l : MeasLine) (hs : l.SepFree) : writeMeas l = renderMeas l := by
  unfold writeMeas MeasLine.cleaned
  rw [cleanCell_of_sepFree _ hs.1, cleanCell_of_sepFree _ hs.2.1]
  have : l.cols.map cleanCell = l.cols := by
    conv => rhs; rw [← List.map_id l.cols]
    exact List.map_congr_left (fun c hc => cleanCell_of_sepFree c (hs.2.2 c hc))
  rw [this]

/-- what text-mode reading and parsing make of a well-formed line: exactly one piece, with the line's fields -/
theorem pieces_render (l : MeasLine) (q : Rat) (h : LineOk l q) :
    ∃ v, (splitLines (renderMeas l ++ ['\n'])).map parseMeas =
      [some { inv := l.inv, it := l.it, value := v, unit := l.unit, crit := l.crit, rid := l.rid }] := by
  obtain ⟨v, hv⟩ := parseMeas_render l q h
  exact ⟨v, by rw [splitLines_plain _ (renderMeas_plainLine l q h)]; simp [hv]⟩

/-! ### data points the text level cannot disturb -/

variable {κ β : Type} [DecidableEq κ] [DecidableEq β]

/-- the open data point is empty -/
def closedDP (d : Option (κ × Option Nat)) : Prop := d = none ∨ ∃ k, d = some (k, none)

theorem loadT_measLine (colsOf : κ → List (List Char)) (st : TState κ β) (inv it : Nat) (m : Meas) (k : κ)
    (rid : Nat) (hm : MeasOk m) (hcols : ∀ c ∈ colsOf k, sepFree c = true) :
    ∃ v, loadLineT colsOf (fun x => x) (fun x => x) st (.meas inv it m k rid) =
      loadPieces st [some { inv := inv, it := it, value := v, unit := m.unit.toList,
                            crit := m.crit.toList, rid := rid }] := by
  obtain ⟨⟨q, hq⟩, hu, hc⟩ := hm
  have hok : LineOk { inv := inv, it := it, value := m.value.text, unit := m.unit.toList, crit := m.crit.toList,
                      cols := colsOf k, rid := rid } q :=
    ⟨by simp [hq, Value.text], hu, hc, hcols⟩
  obtain ⟨v, hv⟩ := pieces_render _ q hok
  refine ⟨v, ?_⟩
  unfold loadLineT measText
  simp only
  rw [writeMeas_sepFree _ hok.sep, hv]

theorem loadFromT_append (colsOf : κ → List (List Char)) (rtK : κ → κ) (rtB : β → β) (st : TState κ β)
    (a b : List (Line κ β)) :
    loadFromT colsOf rtK rtB st (a ++ b) =
      (match loadFromT colsOf rtK rtB st a with
       | .ok st' => loadFromT colsOf rtK rtB st' b
       | .error e => .error e) := by
  induction a generalizing st with
  | nil => simp [loadFromT]
  | cons l ls ih =>
    simp only [List.cons_append, loadFromT]
    cases loadLineT colsOf rtK rtB st l with
    | ok st' => simp [ih]
    | error e => simp

omit [DecidableEq β] in
theorem openFor_closed (k : κ) (d : Option (κ × Option Nat)) (h : closedDP d) : openFor k d = none := by
  rcases h with rfl | ⟨k0, rfl⟩
  · rfl
  · simp [openFor]

theorem total_toList : "total".toList = ['t', 'o', 't', 'a', 'l'] := by decide

theorem loadT_nonTotal (colsOf : κ → List (List Char)) (T : Tables κ β) (ls : List (Loaded κ))
    (d : Option (κ × Option Nat)) (inv it : Nat) (m : Meas) (k : κ) (rid : Nat)
    (hm : MeasOk m) (hcols : ∀ c ∈ colsOf k, sepFree c = true) (hrid : T.idToRun[rid]? = some k)
    (hd : openFor k d = none ∨ openFor k d = some inv) (hnt : m.crit ≠ "total") :
    loadLineT colsOf (fun x => x) (fun x => x) { t := T, loaded := ls, dp := d } (.meas inv it m k rid) =
      .ok { t := T, loaded := ls, dp := some (k, some inv) } := by
  obtain ⟨v, hv⟩ := loadT_measLine colsOf { t := T, loaded := ls, dp := d } inv it m k rid hm hcols
  rw [hv]
  have hne : ¬ m.crit.toList = ['t', 'o', 't', 'a', 'l'] := by
    rw [← total_toList]; exact fun e => hnt (String.toList_inj.mp e)
  simp only [loadPieces, loadPiece, hrid]
  rcases hd with h | h <;> simp [h, hne]

theorem loadT_total (colsOf : κ → List (List Char)) (T : Tables κ β) (ls : List (Loaded κ))
    (d : Option (κ × Option Nat)) (inv it : Nat) (m : Meas) (k : κ) (rid : Nat)
    (hm : MeasOk m) (hcols : ∀ c ∈ colsOf k, sepFree c = true) (hrid : T.idToRun[rid]? = some k)
    (hd : openFor k d = none ∨ openFor k d = some inv) (ht : m.crit = "total") :
    loadLineT colsOf (fun x => x) (fun x => x) { t := T, loaded := ls, dp := d } (.meas inv it m k rid) =
      .ok { t := T, loaded := ls ++ [{ k := k, inv := inv, it := it }], dp := some (k, none) } := by
  obtain ⟨v, hv⟩ := loadT_measLine colsOf { t := T, loaded := ls, dp := d } inv it m k rid hm hcols
  rw [hv]
  have he : m.crit.toList = ['t', 'o', 't', 'a', 'l'] := by rw [ht, total_toList]
  simp only [loadPieces, loadPiece, hrid]
  rcases hd with h | h <;> simp [h, he]

omit [DecidableEq κ] [DecidableEq β] in
theorem flt_loads (m : Meas) (h : ∃ q, m.value = .flt q) : m.value.loads = true := by
  obtain ⟨q, hq⟩ := h
  obtain ⟨v, hv⟩ := readFixed_fmt6 q
  simp [Value.loads, hq, Value.text, readValue_of_readFixed hv]

/-- the lines of one well-formed data point: the text-level loader reports what the abstract one reports -/
theorem loadT_measLines (colsOf : κ → List (List Char)) (T : Tables κ β) (ls : List (Loaded κ))
    (d : Option (κ × Option Nat)) (k : κ) (rid : Nat) (dp : DP) (hdp : DPOk colsOf k dp)
    (hrid : T.idToRun[rid]? = some k) (hd : closedDP d) :
    loadFromT colsOf (fun x => x) (fun x => x) { t := T, loaded := ls, dp := d } (measLines k rid dp) =
      .ok { t := T, loaded := ls ++ totalsOf k dp, dp := some (k, none) } := by
  obtain ⟨init, tot, hms, htot, hinit⟩ := hdp.shape
  -- the non-total measurements first
  have hpre : ∀ (init : List Meas) (d : Option (κ × Option Nat)),
      (∀ m ∈ init, MeasOk m ∧ m.crit ≠ "total") → (openFor k d = none ∨ openFor k d = some dp.inv) →
      ∃ d', loadFromT colsOf (fun x => x) (fun x => x) { t := T, loaded := ls, dp := d }
          (init.map (fun m => Line.meas dp.inv dp.it m k rid)) = .ok { t := T, loaded := ls, dp := d' } ∧
        (openFor k d' = none ∨ openFor k d' = some dp.inv) := by
    intro init
    induction init with
    | nil => intro d _ hd; exact ⟨d, rfl, hd⟩
    | cons m ms ih =>
      intro d hall hd
      have hm := hall m (by simp)
      simp only [List.map_cons, loadFromT]
      rw [loadT_nonTotal colsOf T ls d dp.inv dp.it m k rid hm.1 hdp.cols hrid hd hm.2]
      exact ih (some (k, some dp.inv)) (fun x hx => hall x (by simp [hx])) (.inr (by simp [openFor]))
  obtain ⟨d', h1, hd'⟩ := hpre init d
    (fun m hm => ⟨hdp.ms m (by rw [hms]; simp [hm]), hinit m hm⟩) (.inl (openFor_closed k d hd))
  have htotals : totalsOf k dp = [{ k := k, inv := dp.inv, it := dp.it }] := by
    unfold totalsOf
    rw [hms, List.filter_append]
    have hnone : init.filter (fun m => m.value.loads && decide (m.crit = "total")) = [] := by
      rw [List.filter_eq_nil_iff]; intro m hm; simp [hinit m hm]
    have hl := flt_loads tot (hdp.ms tot (by rw [hms]; simp)).1
    simp [hnone, htot, hl]
  unfold measLines
  rw [hms, List.map_append, loadFromT_append, h1]
  simp only [List.map_cons, List.map_nil, loadFromT]
  rw [loadT_total colsOf T ls d' dp.inv dp.it tot k rid (hdp.ms tot (by rw [hms]; simp)) hdp.cols hrid hd' htot,
      htotals]

/-! ### comment lines, and one `persist` under both loaders -/

theorem loadT_nonMeas (colsOf : κ → List (List Char)) (lines : List (Line κ β))
    (hnm : ∀ l ∈ lines, isMeas l = false) :
    ∀ (T : Tables κ β) (ls : List (Loaded κ)) (d : Option (κ × Option Nat)) (T' : Tables κ β) (ls' : List (Loaded κ)),
      loadFrom (fun x => x) (fun x => x) (T, ls) lines = .ok (T', ls') → closedDP d →
      ∃ d', loadFromT colsOf (fun x => x) (fun x => x) { t := T, loaded := ls, dp := d } lines
          = .ok { t := T', loaded := ls', dp := d' } ∧ closedDP d' := by
  induction lines with
  | nil =>
    intro T ls d T' ls' h hd
    simp only [loadFrom, Except.ok.injEq, Prod.mk.injEq] at h
    obtain ⟨rfl, rfl⟩ := h
    exact ⟨d, rfl, hd⟩
  | cons l rest ih =>
    intro T ls d T' ls' h hd
    have hl := hnm l (by simp)
    simp only [loadFrom] at h
    cases hline : loadLine (fun x => x) (fun x => x) (T, ls) l with
    | error e => simp [hline] at h
    | ok r =>
      obtain ⟨T1, ls1⟩ := r
      simp only [hline] at h
      cases l with
      | meas => simp [isMeas] at hl
      | header =>
        simp only [loadLine, Except.ok.injEq, Prod.mk.injEq] at hline
        obtain ⟨rfl, rfl⟩ := hline
        obtain ⟨d', h1, h2⟩ := ih (fun x hx => hnm x (by simp [hx])) T ls d T' ls' h hd
        exact ⟨d', by simp [loadFromT, loadLineT, h1], h2⟩
      | sess i =>
        obtain ⟨d', h1, h2⟩ := ih (fun x hx => hnm x (by simp [hx])) T1 ls1 none T' ls' h (.inl rfl)
        exact ⟨d', by simp [loadFromT, loadLineT, hline, h1], h2⟩
      | bench id b =>
        obtain ⟨d', h1, h2⟩ := ih (fun x hx => hnm x (by simp [hx])) T1 ls1 none T' ls' h (.inl rfl)
        exact ⟨d', by simp [loadFromT, loadLineT, hline, h1], h2⟩
      | run id bid k =>
        obtain ⟨d', h1, h2⟩ := ih (fun x hx => hnm x (by simp [hx])) T1 ls1 none T' ls' h (.inl rfl)
        exact ⟨d', by simp [loadFromT, loadLineT, hline, h1], h2⟩

variable (benchOf : κ → β)

theorem loadT_persist_step (colsOf : κ → List (List Char)) (k : κ) (dp : DP) (fp : FP κ β) (T : Tables κ β)
    (ls : List (Loaded κ)) (d : Option (κ × Option Nat)) (hs : Sim fp T) (hdp : DPOk colsOf k dp)
    (hload : load (fun x => x) (fun x => x) fp.content = .ok (T, ls))
    (hloadT : loadFromT colsOf (fun x => x) (fun x => x) { t := emptyTables, loaded := [], dp := none } fp.content
      = .ok { t := T, loaded := ls, dp := d }) (hd : closedDP d) :
    ∃ T', load (fun x => x) (fun x => x) (persist benchOf k dp fp).content = .ok (T', ls ++ totalsOf k dp) ∧
      Sim (persist benchOf k dp fp) T' ∧
      loadFromT colsOf (fun x => x) (fun x => x) { t := emptyTables, loaded := [], dp := none }
        (persist benchOf k dp fp).content = .ok { t := T', loaded := ls ++ totalsOf k dp, dp := some (k, none) } := by
  have hs0 : Sim (openFile fp) T :=
    ⟨by rw [(openFile_dicts fp).1]; exact hs.run, by rw [(openFile_dicts fp).2]; exact hs.bench, hs.wfR, hs.wfB⟩
  obtain ⟨T1, h1, hs1, hr1⟩ := load_runLines benchOf k (openFile fp) T ls hs0
  obtain ⟨T', hl', hs'⟩ := load_persist_step benchOf k dp fp T ls hs hload
  -- the abstract loader over the metadata lines
  have hmeta : loadFrom (fun x => x) (fun x => x) (T, ls) (openLines fp ++ runLines benchOf k (openFile fp))
      = .ok (T1, ls) := by
    rw [loadFrom_append, load_other _ _ (openLines_sess fp)]
    exact h1
  obtain ⟨d1, hT1, hd1⟩ := loadT_nonMeas colsOf (openLines fp ++ runLines benchOf k (openFile fp))
    (by
      intro l hl
      rcases List.mem_append.mp hl with h | h
      · exact openLines_noMeas fp l h
      · exact runLines_noMeas benchOf k _ l h)
    T ls d T1 ls hmeta hd
  have hT' : T' = T1 := by
    have := hl'
    unfold load at this
    rw [persist_content', loadFrom_append, loadFrom_append] at this
    unfold load at hload
    rw [hload] at this
    simp only at this
    rw [hmeta] at this
    simp only at this
    rw [load_measLines k _ dp T1 ls hr1] at this
    simp only [Except.ok.injEq, Prod.mk.injEq] at this
    exact this.1.symm
  subst hT'
  refine ⟨T', hl', hs', ?_⟩
  rw [persist_content', loadFromT_append, loadFromT_append, hloadT]
  simp only
  rw [hT1]
  simp only
  exact loadT_measLines colsOf T' ls d1 k _ dp hdp hr1 hd1

/-! ### any number of sessions -/

theorem reachOk_reach (colsOf : κ → List (List Char)) {c : List (Line κ β)} (h : ReachOk benchOf colsOf c) :
    Reach benchOf c := by
  induction h with
  | empty => exact .empty
  | session c T ls ops _ hl _ ih => exact .session c T ls ops ih hl

theorem loadT_writeOps (colsOf : κ → List (List Char)) (ops : List (κ × DP)) :
    ∀ (fp : FP κ β) (T : Tables κ β) (ls : List (Loaded κ)) (d : Option (κ × Option Nat)),
      Sim fp T → load (fun x => x) (fun x => x) fp.content = .ok (T, ls) →
      loadFromT colsOf (fun x => x) (fun x => x) { t := emptyTables, loaded := [], dp := none } fp.content
        = .ok { t := T, loaded := ls, dp := d } → closedDP d →
      (∀ op ∈ ops, DPOk colsOf op.1 op.2) →
      ∃ T' ls' d', load (fun x => x) (fun x => x) (writeOps benchOf ops fp).content = .ok (T', ls') ∧
        loadFromT colsOf (fun x => x) (fun x => x) { t := emptyTables, loaded := [], dp := none }
          (writeOps benchOf ops fp).content = .ok { t := T', loaded := ls', dp := d' } ∧ closedDP d' := by
  induction ops with
  | nil => intro fp T ls d _ h1 h2 hd _; exact ⟨T, ls, d, by simpa [writeOps] using h1, by simpa [writeOps] using h2, hd⟩
  | cons op ops ih =>
    intro fp T ls d hs h1 h2 hd hall
    obtain ⟨T1, l1, s1, t1⟩ := loadT_persist_step benchOf colsOf op.1 op.2 fp T ls d hs (hall op (by simp)) h1 h2 hd
    obtain ⟨T', ls', d', r1, r2, r3⟩ := ih (persist benchOf op.1 op.2 fp) T1 _ _ s1 l1 t1 (.inr ⟨_, rfl⟩)
      (fun x hx => hall x (by simp [hx]))
    exact ⟨T', ls', d', by simpa [writeOps] using r1, by simpa [writeOps] using r2, r3⟩

theorem reachOk_loadT (colsOf : κ → List (List Char)) {c : List (Line κ β)} (h : ReachOk benchOf colsOf c) :
    ∃ T ls d, load (fun x => x) (fun x => x) c = .ok (T, ls) ∧
      loadFromT colsOf (fun x => x) (fun x => x) { t := emptyTables, loaded := [], dp := none } c
        = .ok { t := T, loaded := ls, dp := d } ∧ closedDP d := by
  induction h with
  | empty => exact ⟨emptyTables, [], none, rfl, rfl, .inl rfl⟩
  | session c T ls ops hr hl hops ih =>
    obtain ⟨T0, ls0, d0, h1, h2, h3⟩ := ih
    rw [hl] at h1
    cases h1
    have hgood := reach_good benchOf (reachOk_reach benchOf colsOf hr)
    obtain ⟨T1, ls1, hl1, w1, w2, _⟩ := hgood.loads
    rw [hl] at hl1
    cases hl1
    exact loadT_writeOps benchOf colsOf ops (FP.ofTables c T) T ls d0 ⟨rfl, rfl, w1, w2⟩ hl h2 h3 hops

end RB.DataFile
