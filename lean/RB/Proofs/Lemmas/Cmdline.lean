/-
Helper lemmas for C03 (`RB.Cmdline`): the scanner of the `%`-template language
is compositional; rendering of `%`-free text.
-/
import RB.Model.Cmdline

namespace RB.Cmdline

/-- well-formed token: a literal is never `%`, a placeholder name has no `)` -/
def Tok.WF : Tok → Prop
  | .lit c => c ≠ '%'
  | .pct => True
  | .ph n => ')' ∉ n

theorem scan_key_name (n : Str) (h : ')' ∉ n) (acc rest : Str) :
    scan (.key acc) (n ++ ')' :: rest) = scan (.close (acc.reverse ++ n)) rest := by
  induction n generalizing acc with
  | nil => simp [scan]
  | cons c cs ih =>
    have hc : c ≠ ')' := fun e => h (by simp [e])
    have hcs : ')' ∉ cs := fun e => h (by simp [e])
    simp only [List.cons_append, scan, hc, if_false]
    rw [ih hcs]; simp

theorem scan_tok (t : Tok) (h : t.WF) (rest : Str) :
    scan .text (unparseTok t ++ rest) = (scan .text rest).map (t :: ·) := by
  cases t with
  | lit c => simp only [Tok.WF] at h; simp [unparseTok, scan, h]
  | pct => simp [unparseTok, scan]
  | ph n =>
    simp only [Tok.WF] at h
    have := scan_key_name n h [] ('s' :: rest)
    simp only [unparseTok, List.cons_append, List.append_assoc, List.nil_append, scan]
    simp only [List.reverse_nil, List.nil_append] at this
    simp [this, scan]

theorem parse_unparse (ts : List Tok) (h : ∀ t ∈ ts, t.WF) : parse (unparse ts) = some ts := by
  induction ts with
  | nil => simp [parse, unparse, scan]
  | cons t ts ih =>
    have h1 := h t (by simp)
    have h2 : ∀ t ∈ ts, t.WF := fun x hx => h x (by simp [hx])
    have := ih h2
    simp only [parse, unparse, List.flatMap_cons] at *
    rw [scan_tok t h1, this]; simp

/-! ### scanning `%`-free text -/

theorem scan_lits (s : Str) (h : '%' ∉ s) (rest : Str) :
    scan .text (s ++ rest) = (scan .text rest).map (s.map Tok.lit ++ ·) := by
  induction s with
  | nil => simp
  | cons c cs ih =>
    have hc : c ≠ '%' := fun e => h (by simp [e])
    have hcs : '%' ∉ cs := fun e => h (by simp [e])
    simp only [List.cons_append, scan, hc, if_false, ih hcs, List.map_cons]
    cases scan .text rest <;> simp

theorem scan_inv (rest : Str) :
    scan .text (invPlaceholder ++ rest) = (scan .text rest).map (Tok.ph kInvocation :: ·) := by
  have h : (Tok.ph kInvocation).WF := by simp [Tok.WF, kInvocation]
  have := scan_tok (.ph kInvocation) h rest
  simpa [unparseTok, invPlaceholder, kInvocation] using this

/-- every literal the scanner produces is a character other than `%` -/
theorem scan_lit_ne (s : Str) : ∀ (st : St) (ts : List Tok), scan st s = some ts →
    ∀ c, Tok.lit c ∈ ts → c ≠ '%' := by
  induction s with
  | nil =>
    intro st ts h c hc
    cases st <;> simp [scan] at h
    subst h; simp at hc
  | cons a as ih =>
    intro st ts h c hc
    cases st with
    | text =>
      simp only [scan] at h
      by_cases ha : a = '%'
      · simp only [ha, if_true] at h; exact ih _ _ h c hc
      · simp only [ha, if_false] at h
        cases hs : scan .text as with
        | none => simp [hs] at h
        | some ts' =>
          simp only [hs, Option.map_some, Option.some.injEq] at h
          subst h
          simp only [List.mem_cons, Tok.lit.injEq] at hc
          rcases hc with rfl | hc
          · exact ha
          · exact ih _ _ hs c hc
    | pct =>
      simp only [scan] at h
      by_cases ha : a = '%'
      · simp only [ha, if_true] at h
        cases hs : scan .text as with
        | none => simp [hs] at h
        | some ts' =>
          simp only [hs, Option.map_some, Option.some.injEq] at h
          subst h
          simp only [List.mem_cons] at hc
          rcases hc with hc | hc
          · cases hc
          · exact ih _ _ hs c hc
      · simp only [ha, if_false] at h
        by_cases hb : a = '('
        · simp only [hb, if_true] at h; exact ih _ _ h c hc
        · simp [hb] at h
    | key acc =>
      simp only [scan] at h
      by_cases ha : a = ')'
      · simp only [ha, if_true] at h; exact ih _ _ h c hc
      · simp only [ha, if_false] at h; exact ih _ _ h c hc
    | close n =>
      simp only [scan] at h
      by_cases ha : a = 's'
      · simp only [ha, if_true] at h
        cases hs : scan .text as with
        | none => simp [hs] at h
        | some ts' =>
          simp only [hs, Option.map_some, Option.some.injEq] at h
          subst h
          simp only [List.mem_cons] at hc
          rcases hc with hc | hc
          · cases hc
          · exact ih _ _ hs c hc
      · simp [ha] at h

theorem render_lits (env : Env) (s : Str) (ts : List Tok) :
    render env (s.map Tok.lit ++ ts) = (render env ts).map (s ++ ·) := by
  induction s with
  | nil => simp
  | cons c cs ih =>
    simp only [List.map_cons, List.cons_append, render, ih]
    cases render env ts <;> simp

/-! ### the dictionary -/

theorem lookup_append (a b : Env) (n : Str) :
    lookup (a ++ b) n = match lookup a n with | some v => some v | none => lookup b n := by
  induction a with
  | nil => simp [lookup]
  | cons kv a ih =>
    obtain ⟨k, v⟩ := kv
    simp only [List.cons_append, lookup]
    by_cases h : k = n <;> simp [h, ih]

theorem lookup_envPre_inv (r : Run) : lookup (envPre r) kInvocation = none := by
  simp [envPre, lookup, kInvocation, kBenchmark, kCores, kExecutor, kInput, kIterations]

theorem lookup_envWith_inv (r : Run) (v : Str) : lookup (envWith r v) kInvocation = some v := by
  simp [envWith, lookup_append, lookup_envPre_inv, lookup]

theorem lookup_envWith_ne (r : Run) (a b n : Str) (h : n ≠ kInvocation) :
    lookup (envWith r a) n = lookup (envWith r b) n := by
  have h' : ¬ kInvocation = n := fun e => h e.symm
  simp [envWith, lookup_append, lookup, h']

/-! ### two phases on token level -/

/-- values other than the invocation number contain no `%` -/
def ValuesPctFree (r : Run) : Prop :=
  ∀ n v, n ≠ kInvocation → lookup (env1 r) n = some v → '%' ∉ v

theorem two_phase_tokens (r : Run) (k : Nat) (hv : ValuesPctFree r) (ts : List Tok)
    (hp : Tok.pct ∉ ts) (hl : ∀ c, Tok.lit c ∈ ts → c ≠ '%') :
    (render (env1 r) ts).bind (fun s => (scan .text s).bind (render (env2 k)))
      = render (envAll r k) ts := by
  induction ts with
  | nil => simp [render, scan]
  | cons t ts ih =>
    have hp' : Tok.pct ∉ ts := fun e => hp (by simp [e])
    have hl' : ∀ c, Tok.lit c ∈ ts → c ≠ '%' := fun c e => hl c (by simp [e])
    have ih := ih hp' hl'
    cases t with
    | pct => exact absurd (by simp) hp
    | lit c =>
      have hc : c ≠ '%' := hl c (by simp)
      simp only [render]
      rw [← ih]
      cases h1 : render (env1 r) ts with
      | none => simp
      | some s' =>
        simp only [Option.map_some, Option.bind_some, scan, hc, if_false]
        cases h2 : scan .text s' with
        | none => simp
        | some x => simp [render]
    | ph n =>
      simp only [render]
      by_cases hn : n = kInvocation
      · subst hn
        have e1 : lookup (env1 r) kInvocation = some invPlaceholder := lookup_envWith_inv r _
        have e2 : lookup (envAll r k) kInvocation = some (decimal k) := lookup_envWith_inv r _
        rw [e1, e2]
        simp only []
        rw [← ih]
        cases h1 : render (env1 r) ts with
        | none => simp
        | some s' =>
          simp only [Option.map_some, Option.bind_some, scan_inv]
          cases h2 : scan .text s' with
          | none => simp
          | some x => simp [render, env2, lookup]
      · have e : lookup (envAll r k) n = lookup (env1 r) n := by
          simp only [envAll, env1]; exact lookup_envWith_ne r _ _ n hn
        rw [e]
        cases hlk : lookup (env1 r) n with
        | none => simp
        | some v =>
          have hvp : '%' ∉ v := hv n v hn hlk
          simp only []
          rw [← ih]
          cases h1 : render (env1 r) ts with
          | none => simp
          | some s' =>
            simp only [Option.map_some, Option.bind_some, scan_lits v hvp]
            cases h2 : scan .text s' with
            | none => simp
            | some x => simp [render_lits]

/-! ### `~` expansion depends only on HOME and the password database -/

theorem expanduser_congr (w₁ w₂ : World) (hh : w₁.home = w₂.home) (hu : w₁.users = w₂.users) :
    expanduser w₁ = expanduser w₂ := by
  funext p
  unfold expanduser
  cases p with
  | nil => rfl
  | cons c cs => simp only [hh, hu]

theorem expandWord_congr (w₁ w₂ : World) (hh : w₁.home = w₂.home) (hu : w₁.users = w₂.users) :
    expandWord w₁ = expandWord w₂ := by
  funext p
  simp only [expandWord, expanduser_congr w₁ w₂ hh hu]

theorem expandUserLine_congr (w₁ w₂ : World) (hh : w₁.home = w₂.home) (hu : w₁.users = w₂.users) :
    expandUserLine w₁ = expandUserLine w₂ := by
  funext e s
  simp only [expandUserLine, expandWord_congr w₁ w₂ hh hu]

theorem mem_of_mem_splitOn (sep : Char) (s : Str) : ∀ w ∈ splitOn sep s, ∀ c ∈ w, c ∈ s := by
  induction s with
  | nil => intro w hw c hc; simp [splitOn] at hw; subst hw; simp at hc
  | cons a as ih =>
    intro w hw c hc
    simp only [splitOn] at hw
    cases hs : splitOn sep as with
    | nil => simp [hs] at hw; subst hw; simp at hc
    | cons x xs =>
      simp only [hs] at hw
      by_cases ha : a = sep
      · simp only [ha, if_true, List.mem_cons] at hw
        rcases hw with rfl | rfl | hw
        · simp at hc
        · exact List.mem_cons_of_mem _ (ih w (by simp [hs]) c hc)
        · exact List.mem_cons_of_mem _ (ih w (by simp [hs, hw]) c hc)
      · simp only [ha, if_false, List.mem_cons] at hw
        rcases hw with rfl | hw
        · simp only [List.mem_cons] at hc
          rcases hc with rfl | hc
          · simp
          · exact List.mem_cons_of_mem _ (ih x (by simp [hs]) c hc)
        · exact List.mem_cons_of_mem _ (ih w (by simp [hs, hw]) c hc)

theorem expandWord_no_tilde (w : World) (p : Str) (h : '~' ∉ p) : expandWord w p = p := by
  have e : expanduser w p = p := by
    unfold expanduser
    cases p with
    | nil => rfl
    | cons c cs =>
      have : c ≠ '~' := fun e => h (by simp [e])
      split
      · rename_i heq; cases heq; exact absurd rfl this
      · rfl
  simp [expandWord, e, h]

/-- a value without `~` is handed over unchanged -/
theorem expandUserLine_no_tilde (w : World) (esc : Bool) (s : Str) (h : '~' ∉ s) :
    expandUserLine w esc s = s := by
  have hw : (words s).map (expandWord w) = words s := by
    have : ∀ x ∈ words s, expandWord w x = x := by
      intro x hx
      apply expandWord_no_tilde
      intro hc
      have hx' : x ∈ splitOn ' ' s := by
        simp only [words, List.mem_filter] at hx; exact hx.1
      exact h (mem_of_mem_splitOn ' ' s x hx' '~' hc)
    calc (words s).map (expandWord w) = (words s).map id := List.map_congr_left this
      _ = words s := List.map_id _
  simp [expandUserLine, hw]

def Res.isOk {α : Type} : Res α → Bool
  | .ok _ => true
  | _ => false

theorem Res.exists_of_isOk {α : Type} (x : Res α) (h : x.isOk = true) : ∃ a, x = .ok a := by
  cases x with
  | ok a => exact ⟨a, rfl⟩
  | uiError => cases h
  | crash => cases h

/-! ### whether a command line can be built does not depend on the invocation number -/

theorem render_isSome_inv (r : Run) (a b : Str) (ts : List Tok) :
    (render (envWith r a) ts).isSome = (render (envWith r b) ts).isSome := by
  induction ts with
  | nil => rfl
  | cons t ts ih =>
    cases t with
    | lit c => simp only [render, Option.isSome_map]; exact ih
    | pct => simp only [render, Option.isSome_map]; exact ih
    | ph n =>
      simp only [render]
      by_cases hn : n = kInvocation
      · subst hn
        simp only [lookup_envWith_inv, Option.isSome_map]; exact ih
      · rw [lookup_envWith_ne r a b n hn]
        cases lookup (envWith r b) n with
        | none => rfl
        | some v => simp only [Option.isSome_map]; exact ih

theorem launch_ok_of_ok (w : World) (r : Run) (c c' : Nat) (h : ∃ l, launch w r c = .ok l) :
    ∃ l, launch w r c' = .ok l := by
  obtain ⟨l, h⟩ := h
  simp only [launch, nextText, direct, fmt, envAll] at h ⊢
  cases hp : parse (template w.cwd r) with
  | none => simp [hp] at h
  | some ts =>
    simp only [hp, Option.bind_some] at h ⊢
    have hs := render_isSome_inv r (decimal (c + 1)) (decimal (c' + 1)) ts
    cases h1 : render (envWith r (decimal (c + 1))) ts with
    | none => simp [h1] at h
    | some s1 =>
      rw [h1] at hs
      cases h2 : render (envWith r (decimal (c' + 1))) ts with
      | none => rw [h2] at hs; cases hs
      | some s2 =>
        cases hloc : location w.cwd r with
        | none => simp [h1, hloc] at h
        | some loc => exact ⟨_, rfl⟩

/-! ### the scanner accepts exactly written forms of well-formed token lists -/

/-- what the scanner has consumed of an unfinished token -/
def St.consumed : St → Str
  | .text => []
  | .pct => ['%']
  | .key acc => '%' :: '(' :: acc.reverse
  | .close n => '%' :: '(' :: n ++ [')']

def St.good : St → Prop
  | .key acc => ')' ∉ acc
  | .close n => ')' ∉ n
  | _ => True

theorem scan_sound (s : Str) : ∀ (st : St) (ts : List Tok), st.good → scan st s = some ts →
    st.consumed ++ s = unparse ts ∧ ∀ t ∈ ts, t.WF := by
  induction s with
  | nil =>
    intro st ts _ h
    cases st <;> simp [scan] at h
    subst h; simp [St.consumed, unparse]
  | cons a as ih =>
    intro st ts hg h
    cases st with
    | text =>
      simp only [scan] at h
      by_cases ha : a = '%'
      · simp only [ha, if_true] at h
        have := ih .pct ts trivial h
        subst ha
        simpa [St.consumed] using this
      · simp only [ha, if_false] at h
        cases hs : scan .text as with
        | none => simp [hs] at h
        | some ts' =>
          simp only [hs, Option.map_some, Option.some.injEq] at h
          subst h
          obtain ⟨h1, h2⟩ := ih .text ts' trivial hs
          simp only [St.consumed, List.nil_append] at h1
          refine ⟨by simpa [St.consumed, unparse, unparseTok, List.flatMap_cons] using h1, ?_⟩
          intro t ht
          simp only [List.mem_cons] at ht
          rcases ht with rfl | ht
          · exact ha
          · exact h2 t ht
    | pct =>
      simp only [scan] at h
      by_cases ha : a = '%'
      · simp only [ha, if_true] at h
        cases hs : scan .text as with
        | none => simp [hs] at h
        | some ts' =>
          simp only [hs, Option.map_some, Option.some.injEq] at h
          subst h; subst ha
          obtain ⟨h1, h2⟩ := ih .text ts' trivial hs
          simp only [St.consumed, List.nil_append] at h1
          refine ⟨by simpa [St.consumed, unparse, unparseTok, List.flatMap_cons] using h1, ?_⟩
          intro t ht
          simp only [List.mem_cons] at ht
          rcases ht with rfl | ht
          · trivial
          · exact h2 t ht
      · simp only [ha, if_false] at h
        by_cases hb : a = '('
        · simp only [hb, if_true] at h
          have := ih (.key []) ts (by simp [St.good]) h
          subst hb
          simpa [St.consumed] using this
        · simp [hb] at h
    | key acc =>
      simp only [St.good] at hg
      simp only [scan] at h
      by_cases ha : a = ')'
      · simp only [ha, if_true] at h
        have := ih (.close acc.reverse) ts (by simpa [St.good] using hg) h
        subst ha
        simpa [St.consumed, List.append_assoc] using this
      · simp only [ha, if_false] at h
        have hg' : (St.key (a :: acc)).good := by
          simp only [St.good, List.mem_cons, not_or]
          exact ⟨fun e => ha e.symm, hg⟩
        have := ih (.key (a :: acc)) ts hg' h
        simpa [St.consumed, List.append_assoc] using this
    | close n =>
      simp only [St.good] at hg
      simp only [scan] at h
      by_cases ha : a = 's'
      · simp only [ha, if_true] at h
        cases hs : scan .text as with
        | none => simp [hs] at h
        | some ts' =>
          simp only [hs, Option.map_some, Option.some.injEq] at h
          subst h; subst ha
          obtain ⟨h1, h2⟩ := ih .text ts' trivial hs
          simp only [St.consumed, List.nil_append] at h1
          refine ⟨by simpa [St.consumed, unparse, unparseTok, List.flatMap_cons, List.append_assoc] using h1, ?_⟩
          intro t ht
          simp only [List.mem_cons] at ht
          rcases ht with rfl | ht
          · exact hg
          · exact h2 t ht
      · simp [ha] at h

theorem parse_sound (s : Str) (ts : List Tok) (h : parse s = some ts) :
    s = unparse ts ∧ ∀ t ∈ ts, t.WF := by
  have := scan_sound s .text ts trivial h
  simpa [St.consumed] using this

end RB.Cmdline
