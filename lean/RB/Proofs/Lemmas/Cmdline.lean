/-
Helper lemmas for C03 (`RB.Cmdline`): the scanner of the `%`-template language
is compositional; rendering of `%`-free text.
-/
import RB.Model.Cmdline

namespace RB.Cmdline

/-- well-formed token: a literal is never `%`, a placeholder name has no `)` -/
def Tok.WF : Tok → Prop
  | .lit c => c ≠ '%'
  | .pct => True
  | .ph n => ')' ∉ n

theorem scan_key_name (n : Str) (h : ')' ∉ n) (acc rest : Str) :
    scan (.key acc) (n ++ ')' :: rest) = scan (.close (acc.reverse ++ n)) rest := by
  induction n generalizing acc with
  | nil => simp [scan]
  | cons c cs ih =>
    have hc : c ≠ ')' := fun e => h (by simp [e])
    have hcs : ')' ∉ cs := fun e => h (by simp [e])
    simp only [List.cons_append, scan, hc, if_false]
    rw [ih hcs]; simp

theorem scan_tok (t : Tok) (h : t.WF) (rest : Str) :
    scan .text (unparseTok t ++ rest) = (scan .text rest).map (t :: ·) := by
  cases t with
  | lit c => simp only [Tok.WF] at h; simp [unparseTok, scan, h]
  | pct => simp [unparseTok, scan]
  | ph n =>
    simp only [Tok.WF] at h
    have := scan_key_name n h [] ('s' :: rest)
    simp only [unparseTok, List.cons_append, List.append_assoc, List.nil_append, scan]
    simp only [List.reverse_nil, List.nil_append] at this
    simp [this, scan]

theorem parse_unparse (ts : List Tok) (h : ∀ t ∈ ts, t.WF) : parse (unparse ts) = some ts := by
  induction ts with
  | nil => simp [parse, unparse, scan]
  | cons t ts ih =>
    have h1 := h t (by simp)
    have h2 : ∀ t ∈ ts, t.WF := fun x hx => h x (by simp [hx])
    have := ih h2
    simp only [parse, unparse, List.flatMap_cons] at *
    rw [scan_tok t h1, this]; simp

end RB.Cmdline
