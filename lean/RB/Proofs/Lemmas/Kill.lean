/-
Helper lemmas for C16 (`RB/Proofs/C16.lean`).
-/
import RB.Model.Kill

namespace RB.Kill

theorem allPids_eq (t : Tree) : allPids t = t.pid :: strictDescendants t := by
  cases t; rfl

mutual
/-- the discovered descendants are a permutation of the strict descendants -/
theorem desc_perm : (t : Tree) → (descendants t).Perm (strictDescendants t)
  | .node _ cs => by
      simp only [descendants, strictDescendants]
      exact descList_perm cs
theorem descList_perm : (cs : List Tree) → (cs.map Tree.pid ++ descList cs).Perm (allPidsList cs)
  | [] => by simp [descList, allPidsList]
  | c :: cs => by
      have h1 := desc_perm c
      have h2 := descList_perm cs
      simp only [List.map_cons, descList, allPidsList, allPids_eq, List.cons_append]
      refine List.Perm.cons _ ?_
      -- cs.map pid ++ (descendants c ++ descList cs) ~ strictDescendants c ++ allPidsList cs
      have h3 : (cs.map Tree.pid ++ (descendants c ++ descList cs)).Perm
          (descendants c ++ (cs.map Tree.pid ++ descList cs)) := by
        rw [← List.append_assoc, ← List.append_assoc]
        exact List.Perm.append_right _ List.perm_append_comm
      exact h3.trans (List.Perm.append h1 h2)
end

mutual
theorem findSub_sub : (t : Tree) → (p : Nat) → (st : Tree) → findSub p t = some st →
    st.pid = p ∧ ∀ x ∈ allPids st, x ∈ allPids t
  | .node q cs, p, st, h => by
      unfold findSub at h
      split at h
      · rename_i hq
        simp only [Option.some.injEq] at h
        subst h
        exact ⟨hq, fun x hx => hx⟩
      · obtain ⟨h1, h2⟩ := findSubList_sub cs p st h
        refine ⟨h1, fun x hx => ?_⟩
        simp only [allPids, List.mem_cons]
        exact Or.inr (h2 x hx)
theorem findSubList_sub : (cs : List Tree) → (p : Nat) → (st : Tree) → findSubList p cs = some st →
    st.pid = p ∧ ∀ x ∈ allPids st, x ∈ allPidsList cs
  | [], p, st, h => by simp [findSubList] at h
  | c :: cs, p, st, h => by
      unfold findSubList at h
      split at h
      · rename_i t ht
        simp only [Option.some.injEq] at h
        subst h
        obtain ⟨h1, h2⟩ := findSub_sub c p t ht
        refine ⟨h1, fun x hx => ?_⟩
        simp only [allPidsList, List.mem_append]
        exact Or.inl (h2 x hx)
      · obtain ⟨h1, h2⟩ := findSubList_sub cs p st h
        refine ⟨h1, fun x hx => ?_⟩
        simp only [allPidsList, List.mem_append]
        exact Or.inr (h2 x hx)
end

theorem findSub_root (t : Tree) : findSub t.pid t = some t := by
  cases t with
  | node q cs => simp [findSub, Tree.pid]

theorem groupBelowList_sub : (cs : List GTree) → ∀ p, p ∈ groupBelowList cs → p ∈ allPidsList (forgetList cs)
  | [], p, h => by simp [groupBelowList] at h
  | .node q true cs' :: cs, p, h => by
      simp only [groupBelowList] at h
      simp only [forgetList, allPidsList, List.mem_append]
      exact Or.inr (groupBelowList_sub cs p h)
  | .node q false cs' :: cs, p, h => by
      simp only [groupBelowList, List.mem_cons, List.mem_append] at h
      simp only [forgetList, allPidsList, GTree.forget, allPids, List.mem_append, List.mem_cons]
      rcases h with h | h | h
      · exact Or.inl (Or.inl h)
      · exact Or.inl (Or.inr (groupBelowList_sub cs' p h))
      · exact Or.inr (groupBelowList_sub cs p h)

theorem joinSlices_sum (fuel remaining : Nat) (h : remaining / 600 < fuel) :
    (joinSlices fuel remaining).foldl (· + ·) 0 = remaining ∧ ∀ x ∈ joinSlices fuel remaining, 0 < x ∧ x ≤ 600 := by
  induction fuel generalizing remaining with
  | zero => omega
  | succ fuel ih =>
    unfold joinSlices
    split
    · rename_i h0; subst h0; simp
    · split
      · rename_i hne hgt
        have hlt : (remaining - 600) / 600 < fuel := by omega
        obtain ⟨hs, hb⟩ := ih (remaining - 600) hlt
        constructor
        · simp only [List.foldl_cons, Nat.zero_add]
          have : ∀ (l : List Nat) (a : Nat), l.foldl (· + ·) a = a + l.foldl (· + ·) 0 := by
            intro l
            induction l with
            | nil => simp
            | cons x xs ihx => intro a; simp only [List.foldl_cons]; rw [ihx (a + x), ihx (0 + x)]; omega
          rw [this, hs]; omega
        · intro x hx
          simp only [List.mem_cons] at hx
          rcases hx with hx | hx
          · subst hx; omega
          · exact hb x hx
      · rename_i hne hle
        simp
        omega

end RB.Kill
