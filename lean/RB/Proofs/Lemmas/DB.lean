/-
Helper lemmas for C17 (`RB/Proofs/C17.lean`).
-/
import RB.Model.DB

namespace RB.DB

/-! ### retry loop -/

theorem sendLoop_used_le (r w : Nat) (script : List Attempt) :
    (sendLoop r w script).used ≤ r + 1 := by
  induction r generalizing w script with
  | zero => simp [sendLoop]
  | succ r ih =>
    unfold sendLoop
    simp only
    split
    · simp
    · split
      · have := ih (w * 2) script.tail
        simp only; omega
      · simp

theorem sendLoop_waits_length (r w : Nat) (script : List Attempt) :
    (sendLoop r w script).waits.length + 1 = (sendLoop r w script).used := by
  induction r generalizing w script with
  | zero => simp [sendLoop]
  | succ r ih =>
    unfold sendLoop
    simp only
    split
    · simp
    · split
      · have := ih (w * 2) script.tail
        simp only [List.length_cons]; omega
      · simp

/-- the waits double from the initial one -/
def doubling : Nat → Nat → List Nat
  | 0, _ => []
  | n + 1, w => w :: doubling n (w * 2)

theorem sendLoop_waits (r w : Nat) (script : List Attempt) :
    (sendLoop r w script).waits = doubling ((sendLoop r w script).used - 1) w := by
  induction r generalizing w script with
  | zero => simp [sendLoop, doubling]
  | succ r ih =>
    unfold sendLoop
    simp only
    split
    · simp [doubling]
    · split
      · have h1 := ih (w * 2) script.tail
        have h2 := sendLoop_waits_length r (w * 2) script.tail
        simp only [Nat.add_sub_cancel]
        obtain ⟨k, hk⟩ : ∃ k, (sendLoop r (w * 2) script.tail).used = k + 1 := ⟨_, h2.symm⟩
        rw [hk] at h1 ⊢
        simp only [Nat.add_sub_cancel] at h1
        simp [doubling, h1]
      · simp [doubling]

/-- success means: some attempt within the bound answered ok, and all before were retryable -/
theorem sendLoop_success_iff (r w : Nat) (script : List Attempt) :
    (sendLoop r w script).success = true ↔
      ∃ k, k ≤ r ∧ script[k]? = some .ok ∧ ∀ j, j < k → retryable (script[j]?.getD .refused) = true := by
  induction r generalizing w script with
  | zero =>
    simp only [sendLoop, beq_iff_eq]
    constructor
    · intro h
      refine ⟨0, Nat.le_refl _, ?_, by intro j hj; omega⟩
      cases script with
      | nil => simp at h
      | cons a t => simp at h; simp [h]
    · rintro ⟨k, hk, hs, _⟩
      have : k = 0 := by omega
      subst this
      cases script with
      | nil => simp at hs
      | cons a t => simp at hs; simp [hs]
  | succ r ih =>
    unfold sendLoop
    simp only
    split
    · rename_i h
      simp only [true_iff]
      refine ⟨0, by omega, ?_, by intro j hj; omega⟩
      cases script with
      | nil => simp at h
      | cons a t => simp at h; simp [h]
    · rename_i hnok
      split
      · rename_i hre
        simp only
        rw [ih]
        constructor
        · rintro ⟨k, hk, hs, hall⟩
          refine ⟨k + 1, by omega, ?_, ?_⟩
          · cases script with
            | nil => simp at hs
            | cons a t => simpa using hs
          · intro j hj
            cases j with
            | zero =>
              cases script with
              | nil => simp [retryable]
              | cons a t => simpa using hre
            | succ j =>
              have := hall j (by omega)
              cases script with
              | nil => simp [retryable]
              | cons a t => simpa using this
        · rintro ⟨k, hk, hs, hall⟩
          cases k with
          | zero =>
            exfalso
            cases script with
            | nil => simp at hs
            | cons a t => simp at hs; simp [hs] at hnok
          | succ k =>
            refine ⟨k, by omega, ?_, ?_⟩
            · cases script with
              | nil => simp at hs
              | cons a t => simpa using hs
            · intro j hj
              have := hall (j + 1) (by omega)
              cases script with
              | nil => simp [retryable]
              | cons a t => simpa using this
      · rename_i hnre
        simp only [Bool.false_eq_true, false_iff]
        rintro ⟨k, hk, hs, hall⟩
        cases k with
        | zero =>
          cases script with
          | nil => simp at hs
          | cons a t => simp at hs; simp [hs] at hnok
        | succ k =>
          have := hall 0 (by omega)
          cases script with
          | nil => simp [retryable] at hnre
          | cons a t => simp at this; simp [this] at hnre

/-- a non-retryable, non-ok answer at position `k` (everything before retryable) ends
the request there, unsuccessfully -/
theorem sendLoop_stops_at (r w : Nat) (script : List Attempt) (k : Nat) (a : Attempt)
    (hk : k ≤ r) (ha : script[k]? = some a) (hnok : a ≠ .ok) (hnre : retryable a = false)
    (hall : ∀ j, j < k → retryable (script[j]?.getD .refused) = true) :
    (sendLoop r w script).success = false ∧ (sendLoop r w script).used = k + 1 := by
  induction r generalizing w script k with
  | zero =>
    have : k = 0 := by omega
    subst this
    cases script with
    | nil => simp at ha
    | cons b t =>
      simp at ha; subst ha
      simp [sendLoop, hnok]
  | succ r ih =>
    cases script with
    | nil => simp at ha
    | cons b t =>
      cases k with
      | zero =>
        simp at ha; subst ha
        unfold sendLoop
        simp [hnok, hnre]
      | succ k =>
        have hb := hall 0 (by omega)
        simp at hb
        have hbok : b ≠ .ok := by intro h; subst h; simp [retryable] at hb
        unfold sendLoop
        simp only [List.headD_cons, hbok, if_false, hb, if_true, List.tail_cons]
        have := ih (w * 2) t k (by omega) (by simpa using ha)
          (by intro j hj; have := hall (j + 1) (by omega); simpa using this)
        simp [this.1, this.2]

/-! ### cache -/

theorem items_cacheAdd (c : Cache) (r : Run) (d : DP) :
    (items (cacheAdd c r d)).Perm (items c ++ [(r, d)]) := by
  induction c with
  | nil => simp [cacheAdd, items]
  | cons p rest ih =>
    obtain ⟨r', ds⟩ := p
    unfold cacheAdd
    split
    · rename_i h
      subst h
      simp only [items, List.flatMap_cons, List.map_append, List.map_cons, List.map_nil,
        List.append_assoc]
      apply List.Perm.append_left
      exact List.perm_append_comm
    · have : items ((r', ds) :: cacheAdd rest r d) = ds.map (fun d => (r', d)) ++ items (cacheAdd rest r d) := by
        simp [items]
      rw [this]
      have h2 : items ((r', ds) :: rest) = ds.map (fun d => (r', d)) ++ items rest := by simp [items]
      rw [h2, List.append_assoc]
      exact List.Perm.append_left _ ih

theorem cacheAdd_ne_nil (c : Cache) (r : Run) (d : DP) : cacheAdd c r d ≠ [] := by
  cases c with
  | nil => simp [cacheAdd]
  | cons p rest =>
    obtain ⟨r', ds⟩ := p
    unfold cacheAdd; split <;> simp

theorem ackedItems_append (s : State) (q : Req) :
    ackedItems { s with reqs := s.reqs ++ [q] } =
      ackedItems s ++ (if q.result.success then items q.payload.cache else []) := by
  simp [ackedItems]

theorem items_addAll (c : Cache) (xs : List (Run × DP)) : (items (addAll c xs)).Perm (items c ++ xs) := by
  induction xs generalizing c with
  | nil => simp [addAll]
  | cons x xs ih =>
    have h1 : addAll c (x :: xs) = addAll (cacheAdd c x.1 x.2) xs := rfl
    rw [h1]
    refine (ih (cacheAdd c x.1 x.2)).trans ?_
    have h2 := items_cacheAdd c x.1 x.2
    have h3 : (items c ++ [(x.1, x.2)] ++ xs) = items c ++ x :: xs := by simp
    rw [← h3]
    exact List.Perm.append_right _ h2

theorem items_addAll_nil (xs : List (Run × DP)) : (items (addAll [] xs)).Perm xs := by
  simpa [items] using items_addAll [] xs

theorem items_mergeBack (a b : Cache) : (items (mergeBack a b)).Perm (items a ++ items b) :=
  items_addAll a (items b)

/-- the conservation invariant of the repaired code: acknowledged + cached = constant,
also when other threads hand over data points while the request is in flight -/
theorem sendAndEmpty_conserves (s : State) (script : List Attempt) (during : List (Run × DP)) :
    (ackedItems (sendAndEmpty s script during) ++ items (sendAndEmpty s script during).cache).Perm
      (ackedItems s ++ items s.cache ++ during) := by
  unfold sendAndEmpty
  split
  · rename_i hc
    have : ackedItems { s with cache := addAll [] during } = ackedItems s := rfl
    rw [this, hc]
    simp only [items, List.flatMap_nil, List.append_nil]
    exact List.Perm.append_left _ (by simpa [items] using items_addAll_nil during)
  · rename_i hc
    by_cases h : (sendWithRetries script).success = true
    · simp only [ackedItems, h, if_true, List.flatMap_append, List.flatMap_cons, List.flatMap_nil,
        List.append_nil, List.append_assoc]
      rw [hc]
      exact List.Perm.append_left _ (List.Perm.append_left _ (items_addAll_nil during))
    · simp only [ackedItems, h, List.flatMap_append, List.flatMap_cons, List.flatMap_nil,
        List.append_nil, List.append_assoc, Bool.false_eq_true, if_false]
      rw [hc]
      refine List.Perm.append_left _ ?_
      exact (items_mergeBack _ _).trans (List.Perm.append_left _ (items_addAll_nil during))

theorem step_conserves (s : State) (e : Event) :
    (ackedItems (step s e) ++ items (step s e).cache).Perm
      (ackedItems s ++ items s.cache ++ persisted [e]) := by
  cases e with
  | persist r d =>
    simp only [step, stepWith, persisted]
    have : ackedItems { s with cache := cacheAdd s.cache r d } = ackedItems s := rfl
    rw [this, List.append_assoc]
    exact List.Perm.append_left _ (items_cacheAdd s.cache r d)
  | sendData now script during =>
    simp only [step, stepWith, persisted, List.append_nil]
    split
    · exact sendAndEmpty_conserves s script during
    · have : ackedItems { s with cache := addAll s.cache during } = ackedItems s := rfl
      rw [this, List.append_assoc]
      exact List.Perm.append_left _ (items_addAll s.cache during)
  | close script during =>
    simp only [step, stepWith, persisted, List.append_nil]
    exact sendAndEmpty_conserves s script during

theorem persisted_append (es fs : List Event) : persisted (es ++ fs) = persisted es ++ persisted fs := by
  induction es with
  | nil => rfl
  | cons e es ih => cases e <;> simp [persisted, ih]

theorem run_conserves (s : State) (es : List Event) :
    (ackedItems (run s es) ++ items (run s es).cache).Perm
      (ackedItems s ++ items s.cache ++ persisted es) := by
  induction es generalizing s with
  | nil => simp [run, persisted]
  | cons e es ih =>
    have h1 := ih (step s e)
    have h2 := step_conserves s e
    have : run s (e :: es) = run (step s e) es := rfl
    rw [this]
    refine h1.trans ?_
    have : persisted (e :: es) = persisted [e] ++ persisted es := persisted_append [e] es
    rw [this, ← List.append_assoc]
    exact List.Perm.append_right _ h2

/-! ### v1 decoding -/

theorem findIdx_get (c : Crit) (t : CritTab) (i : Nat) (h : findIdx c t = some i) (suf : CritTab) :
    (t ++ suf)[i]? = some c := by
  induction t generalizing i with
  | nil => simp [findIdx] at h
  | cons x xs ih =>
    unfold findIdx at h
    split at h
    · rename_i hx; subst hx
      simp at h; subst h; simp
    · cases hf : findIdx c xs with
      | none => simp [hf] at h
      | some j =>
        simp [hf] at h; subst h
        simpa using ih j hf

theorem critIdx_spec (t : CritTab) (c : Crit) :
    (∃ suf, (critIdx t c).1 = t ++ suf) ∧ ∀ suf, ((critIdx t c).1 ++ suf)[(critIdx t c).2]? = some c := by
  unfold critIdx
  cases h : findIdx c t with
  | some i => exact ⟨⟨[], by simp⟩, fun suf => findIdx_get c t i h suf⟩
  | none => exact ⟨⟨[c], rfl⟩, fun suf => by simp⟩

theorem encMs1_spec (t : CritTab) (ms : List Meas) :
    (∃ suf, (encMs1 t ms).1 = t ++ suf) ∧
    ∀ suf, decMs1 ((encMs1 t ms).1 ++ suf) (encMs1 t ms).2 = some ms := by
  induction ms generalizing t with
  | nil => exact ⟨⟨[], by simp [encMs1]⟩, fun _ => by simp [encMs1, decMs1]⟩
  | cons m ms ih =>
    obtain ⟨⟨s1, h1⟩, g1⟩ := critIdx_spec t m.crit
    obtain ⟨⟨s2, h2⟩, g2⟩ := ih (critIdx t m.crit).1
    refine ⟨⟨s1 ++ s2, by simp only [encMs1]; rw [h2, h1, List.append_assoc]⟩, fun suf => ?_⟩
    simp only [encMs1, decMs1]
    rw [g2 suf, h2, List.append_assoc, g1 (s2 ++ suf)]

theorem encDPs1_spec (t : CritTab) (ds : List DP) :
    (∃ suf, (encDPs1 t ds).1 = t ++ suf) ∧
    ∀ suf, decDPs1 ((encDPs1 t ds).1 ++ suf) (encDPs1 t ds).2 = some ds := by
  induction ds generalizing t with
  | nil => exact ⟨⟨[], by simp [encDPs1]⟩, fun _ => by simp [encDPs1, decDPs1]⟩
  | cons d ds ih =>
    obtain ⟨⟨s1, h1⟩, g1⟩ := encMs1_spec t d.ms
    obtain ⟨⟨s2, h2⟩, g2⟩ := ih (encMs1 t d.ms).1
    refine ⟨⟨s1 ++ s2, by simp only [encDPs1]; rw [h2, h1, List.append_assoc]⟩, fun suf => ?_⟩
    simp only [encDPs1, decDPs1]
    rw [g2 suf, h2, List.append_assoc, g1 (s2 ++ suf)]

theorem encRuns1_spec (t : CritTab) (c : Cache) :
    (∃ suf, (encRuns1 t c).1 = t ++ suf) ∧
    ∀ suf, decRuns1 ((encRuns1 t c).1 ++ suf) (encRuns1 t c).2 = some c := by
  induction c generalizing t with
  | nil => exact ⟨⟨[], by simp [encRuns1]⟩, fun _ => by simp [encRuns1, decRuns1]⟩
  | cons p rest ih =>
    obtain ⟨r, ds⟩ := p
    obtain ⟨⟨s1, h1⟩, g1⟩ := encDPs1_spec t ds
    obtain ⟨⟨s2, h2⟩, g2⟩ := ih (encDPs1 t ds).1
    refine ⟨⟨s1 ++ s2, by simp only [encRuns1]; rw [h2, h1, List.append_assoc]⟩, fun suf => ?_⟩
    simp only [encRuns1, decRuns1]
    rw [g2 suf, h2, List.append_assoc, g1 (s2 ++ suf)]

end RB.DB
