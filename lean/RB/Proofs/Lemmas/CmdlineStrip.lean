/-
Helper lemmas for the strip-inclusive two-phase theorem of C03: `str.strip()`
between composing the identity string and filling in the invocation number
commutes with formatting, on the level of tokens.
-/
import RB.Proofs.Lemmas.Cmdline

namespace RB.Cmdline

/-! ### stripping a concatenation of rendered tokens -/

def Tok.isSp (t : Tok) : Bool := t = Tok.lit ' '

/-- drop the leading and trailing `lit ' '` tokens -/
def stripT (ts : List Tok) : List Tok :=
  ((ts.dropWhile Tok.isSp).reverse.dropWhile Tok.isSp).reverse

/-- `g` renders a blank token as one blank and every other token of `ts` as a non-empty
text that neither starts nor ends with a blank -/
structure Solid (g : Tok → Str) (ts : List Tok) : Prop where
  sp : g (Tok.lit ' ') = [' ']
  head : ∀ t ∈ ts, t.isSp = false → ∃ c rest, g t = c :: rest ∧ c ≠ ' '
  last : ∀ t ∈ ts, t.isSp = false → ∃ c rest, (g t).reverse = c :: rest ∧ c ≠ ' '

theorem lstrip_flatMap (g : Tok → Str) (ts : List Tok) (hsp : g (Tok.lit ' ') = [' '])
    (hh : ∀ t ∈ ts, t.isSp = false → ∃ c rest, g t = c :: rest ∧ c ≠ ' ') :
    (ts.flatMap g).dropWhile (· = ' ') = (ts.dropWhile Tok.isSp).flatMap g := by
  induction ts with
  | nil => rfl
  | cons t ts ih =>
    have ih' := ih (fun x hx => hh x (List.mem_cons_of_mem _ hx))
    by_cases ht : t.isSp = true
    · have : t = Tok.lit ' ' := by simpa [Tok.isSp] using ht
      subst this
      simp only [List.flatMap_cons, hsp, List.dropWhile_cons, ht, if_true]
      simpa using ih'
    · have ht' : t.isSp = false := by simpa using ht
      obtain ⟨c, rest, hg, hc⟩ := hh t (by simp) ht'
      simp only [List.flatMap_cons, List.dropWhile_cons, ht']
      rw [hg]
      simp [hc, hg]

theorem reverse_flatMap (g : Tok → Str) (ts : List Tok) :
    (ts.flatMap g).reverse = ts.reverse.flatMap (fun t => (g t).reverse) := by
  induction ts with
  | nil => rfl
  | cons t ts ih => simp [List.flatMap_cons, List.flatMap_append, ih]

theorem strip_flatMap (g : Tok → Str) (ts : List Tok) (h : Solid g ts) :
    strip (ts.flatMap g) = (stripT ts).flatMap g := by
  unfold strip stripT
  rw [lstrip_flatMap g ts h.sp h.head]
  have hmem : ∀ t ∈ ts.dropWhile Tok.isSp, t ∈ ts :=
    fun t ht => (List.dropWhile_sublist _).subset ht
  generalize ts.dropWhile Tok.isSp = us at hmem ⊢
  rw [reverse_flatMap g us]
  rw [lstrip_flatMap (fun t => (g t).reverse) us.reverse (by simp [h.sp])
    (fun t ht hs => h.last t (hmem t (List.mem_reverse.mp ht)) hs)]
  rw [reverse_flatMap (fun t => (g t).reverse)]
  simp

theorem mem_stripT {t : Tok} {ts : List Tok} (h : t ∈ stripT ts) : t ∈ ts := by
  unfold stripT at h
  have h1 := List.mem_reverse.mp h
  have h2 := (List.dropWhile_sublist _).subset h1
  have h3 := List.mem_reverse.mp h2
  exact (List.dropWhile_sublist _).subset h3

/-! ### the two renderings -/

theorem unparse_solid (ts : List Tok) (_h : ∀ t ∈ ts, t.WF) : Solid unparseTok ts := by
  refine ⟨rfl, ?_, ?_⟩
  · intro t _ hs
    cases t with
    | lit c =>
      refine ⟨c, [], rfl, ?_⟩
      intro e; subst e; simp [Tok.isSp] at hs
    | pct => exact ⟨'%', ['%'], rfl, by decide⟩
    | ph n => exact ⟨'%', '(' :: n ++ [')', 's'], rfl, by decide⟩
  · intro t _ hs
    cases t with
    | lit c =>
      refine ⟨c, [], rfl, ?_⟩
      intro e; subst e; simp [Tok.isSp] at hs
    | pct => exact ⟨'%', ['%'], rfl, by decide⟩
    | ph n => exact ⟨'s', ')' :: n.reverse ++ ['(', '%'], by simp [unparseTok], by decide⟩

/-- the text a token renders to (empty for an unknown name) -/
def rtok (env : Env) : Tok → Str
  | .lit c => [c]
  | .pct => ['%']
  | .ph n => (lookup env n).getD []

theorem render_eq_flatMap (env : Env) (ts : List Tok)
    (h : ∀ n, Tok.ph n ∈ ts → (lookup env n).isSome) :
    render env ts = some (ts.flatMap (rtok env)) := by
  induction ts with
  | nil => rfl
  | cons t ts ih =>
    have ih' := ih (fun n hn => h n (List.mem_cons_of_mem _ hn))
    cases t with
    | lit c => simp [render, ih', rtok]
    | pct => simp [render, ih', rtok]
    | ph n =>
      have := h n (by simp)
      cases hl : lookup env n with
      | none => simp [hl] at this
      | some v => simp [render, hl, ih', rtok]

theorem lookups_of_render (env : Env) (ts : List Tok) (y : Str) (h : render env ts = some y) :
    ∀ n, Tok.ph n ∈ ts → (lookup env n).isSome := by
  induction ts generalizing y with
  | nil => intro n hn; simp at hn
  | cons t ts ih =>
    intro n hn
    cases t with
    | lit c =>
      simp only [render] at h
      cases hr : render env ts with
      | none => simp [hr] at h
      | some y' => exact ih y' hr n (by simpa using hn)
    | pct =>
      simp only [render] at h
      cases hr : render env ts with
      | none => simp [hr] at h
      | some y' => exact ih y' hr n (by simpa using hn)
    | ph m =>
      simp only [render] at h
      cases hl : lookup env m with
      | none => simp [hl] at h
      | some v =>
        simp only [hl] at h
        cases hr : render env ts with
        | none => simp [hr] at h
        | some y' =>
          simp only [List.mem_cons, Tok.ph.injEq] at hn
          rcases hn with rfl | hn
          · simp [hl]
          · exact ih y' hr n hn

theorem space_not_digit : ∀ c : Char, c.isDigit = true → c ≠ ' ' := by
  intro c h e; subst e; simp [Char.isDigit] at h

theorem decimal_head (k : Nat) : ∃ c rest, decimal k = c :: rest ∧ c ≠ ' ' := by
  unfold decimal
  cases h : Nat.toDigits 10 k with
  | nil => exact absurd h Nat.toDigits_ne_nil
  | cons c rest =>
    refine ⟨c, rest, rfl, space_not_digit c ?_⟩
    exact Nat.isDigit_of_mem_toDigits (b := 10) (by decide) (by decide) (by rw [h]; simp)

theorem decimal_last (k : Nat) : ∃ c rest, (decimal k).reverse = c :: rest ∧ c ≠ ' ' := by
  unfold decimal
  cases h : (Nat.toDigits 10 k).reverse with
  | nil => exact absurd (List.reverse_eq_nil_iff.mp h) Nat.toDigits_ne_nil
  | cons c rest =>
    refine ⟨c, rest, rfl, space_not_digit c ?_⟩
    have : c ∈ Nat.toDigits 10 k := by
      have : c ∈ (Nat.toDigits 10 k).reverse := by rw [h]; simp
      exact List.mem_reverse.mp this
    exact Nat.isDigit_of_mem_toDigits (b := 10) (by decide) (by decide) this

/-- rendering with the phase-two dictionary: every placeholder of a renderable list is the
invocation number, a non-empty string of digits -/
theorem rtok_env2_solid (k : Nat) (ts : List Tok)
    (hl : ∀ n, Tok.ph n ∈ ts → (lookup (env2 k) n).isSome) : Solid (rtok (env2 k)) ts := by
  have hph : ∀ n, Tok.ph n ∈ ts → rtok (env2 k) (.ph n) = decimal k := by
    intro n hn
    have := hl n hn
    simp only [env2, lookup] at this
    by_cases e : kInvocation = n
    · simp [rtok, env2, lookup, e]
    · simp [e] at this
  refine ⟨rfl, ?_, ?_⟩
  · intro t ht hs
    cases t with
    | lit c =>
      refine ⟨c, [], rfl, ?_⟩
      intro e; subst e; simp [Tok.isSp] at hs
    | pct => exact ⟨'%', [], rfl, by decide⟩
    | ph n => rw [hph n ht]; exact decimal_head k
  · intro t ht hs
    cases t with
    | lit c =>
      refine ⟨c, [], rfl, ?_⟩
      intro e; subst e; simp [Tok.isSp] at hs
    | pct => exact ⟨'%', [], rfl, by decide⟩
    | ph n => rw [hph n ht]; exact decimal_last k

/-- `strip` commutes with phase two: if `s % {"invocation": k}` succeeds with `y`, then
`s.strip() % {"invocation": k}` succeeds with `y.strip()` -/
theorem fmt_env2_strip (k : Nat) (s y : Str) (h : fmt (env2 k) s = some y) :
    fmt (env2 k) (strip s) = some (strip y) := by
  unfold fmt at h
  cases hp : parse s with
  | none => simp [hp] at h
  | some ts =>
    simp only [hp, Option.bind_some] at h
    obtain ⟨hs, hwf⟩ := parse_sound s ts hp
    have hlk := lookups_of_render (env2 k) ts y h
    have hy : y = ts.flatMap (rtok (env2 k)) := by
      have := render_eq_flatMap (env2 k) ts hlk
      rw [h] at this; exact Option.some.inj this
    have hwf' : ∀ t ∈ stripT ts, t.WF := fun t ht => hwf t (mem_stripT ht)
    have hlk' : ∀ n, Tok.ph n ∈ stripT ts → (lookup (env2 k) n).isSome :=
      fun n hn => hlk n (mem_stripT hn)
    have e1 : strip s = unparse (stripT ts) := by
      rw [hs]; exact strip_flatMap unparseTok ts (unparse_solid ts hwf)
    have e2 : strip y = (stripT ts).flatMap (rtok (env2 k)) := by
      rw [hy]; exact strip_flatMap (rtok (env2 k)) ts (rtok_env2_solid k ts hlk)
    rw [e1, e2]
    unfold fmt
    rw [parse_unparse _ hwf']
    simp only [Option.bind_some]
    exact render_eq_flatMap (env2 k) (stripT ts) hlk'

end RB.Cmdline
