/-
Helper lemmas for C13: the session invariant of the sequential schedulers.
-/
import RB.Model.Builds

namespace RB.Builds

/-- run ids identify runs -/
def IdInj (runs : List Run) : Prop := ∀ r1 ∈ runs, ∀ r2 ∈ runs, r1.id = r2.id → r1 = r2

/-- `Ev.start r` is preceded by the successful end of every build in `need` -/
def StartsAfterBuilds (need : Nat → List Build) (tr : List Ev) : Prop :=
  ∀ pre post r, tr = pre ++ Ev.start r :: post → ∀ b ∈ need r, Ev.buildEnd b .ok ∈ pre

theorem startsAfter_nil (need) : StartsAfterBuilds need [] := by
  intro pre post r h; cases pre <;> simp at h

theorem startsAfter_snoc {need tr} (e : Ev) (h : StartsAfterBuilds need tr)
    (he : ∀ r, e = Ev.start r → ∀ b ∈ need r, Ev.buildEnd b .ok ∈ tr) :
    StartsAfterBuilds need (tr ++ [e]) := by
  intro pre post r heq b hb
  rcases List.eq_nil_or_concat post with hp | ⟨p', x, hp⟩
  · subst hp
    have := List.append_inj' (s₁ := tr) (t₁ := [e]) (s₂ := pre) (t₂ := [Ev.start r]) heq rfl
    obtain ⟨h1, h2⟩ := this
    subst h1
    exact he r (by simpa using h2) b hb
  · subst hp
    have heq' : tr ++ [e] = (pre ++ Ev.start r :: p') ++ [x] := by
      rw [heq]; simp
    obtain ⟨h1, _⟩ := List.append_inj' heq' rfl
    exact h pre p' r h1 b hb

theorem starts_snoc (b : Build) (tr : List Ev) (e : Ev) :
    starts b (tr ++ [e]) = starts b tr +
      (match e with | .buildStart b' _ _ _ => if b' = b then 1 else 0 | _ => 0) := by
  unfold starts
  rw [List.countP_append]
  cases e <;> simp [List.countP_cons]

/-- what an `Ev` needs: builds of the run with that id -/
def needOf (c : Cfg) (runs : List Run) (r : Nat) : List Build :=
  if c.doBuilds then (runs.filter (·.id = r)).flatMap Run.builds else []

/-- the invariant of a sequential session -/
structure Inv (c : Cfg) (runs : List Run) (st : St) : Prop where
  once : ∀ b, starts b st.trace ≤ 1
  fresh : ∀ b, b ∉ st.built → b ∉ st.failed → starts b st.trace = 0
  builtOk : ∀ b, b ∈ st.built → Ev.buildEnd b .ok ∈ st.trace
  builtRes : ∀ b, b ∈ st.built → c.res b = .ok
  failedRes : ∀ b, b ∈ st.failed → c.res b ≠ .ok
  endIn : ∀ b r, Ev.buildEnd b r ∈ st.trace →
    r = c.res b ∧ (r = .ok → b ∈ st.built) ∧ (r ≠ .ok → b ∈ st.failed)
  envcwd : ∀ b d env r, Ev.buildStart b d env r ∈ st.trace →
    d = dirOf c.cwd c.home b ∧ ∃ run ∈ runs, run.id = r ∧ env = run.env ∧ b ∈ run.builds
  failImmWhy : ∀ r ∈ st.failImm, ∃ run ∈ runs, run.id = r ∧ ∃ b ∈ run.builds, b ∈ st.failed
  nob : c.doBuilds = false → ∀ b, starts b st.trace = 0
  before : c.oserrRaises = true ∨ (∀ b, c.res b ≠ .oserr) → IdInj runs →
    StartsAfterBuilds (needOf c runs) st.trace
  nobFlags : c.doBuilds = false → st.built = [] ∧ st.failed = []
  finStart : ∀ r, Ev.finish r ∈ st.trace → Ev.start r ∈ st.trace

theorem inv_init (c : Cfg) (runs : List Run) : Inv c runs {} := by
  refine ⟨?_, ?_, ?_, ?_, ?_, ?_, ?_, ?_, ?_, ?_, ?_, ?_⟩ <;> simp [starts]
  intro _ _; exact startsAfter_nil _

/-- the state after a build of `b` triggered by `run` ended with `r` -/
def afterBuild (c : Cfg) (st : St) (run : Run) (b : Build) (r : BRes) : St :=
  match r with
  | .ok => { built := b :: st.built, failed := st.failed, failImm := st.failImm,
             trace := (st.trace ++ [Ev.buildStart b (dirOf c.cwd c.home b) run.env run.id]) ++ [Ev.buildEnd b .ok] }
  | r => { built := st.built, failed := b :: st.failed, failImm := run.id :: st.failImm,
           trace := (st.trace ++ [Ev.buildStart b (dirOf c.cwd c.home b) run.env run.id]) ++ [Ev.buildEnd b r] }

theorem processBuild_act {c : Cfg} {st : St} {run : Run} {b : Build}
    (hb : b ∉ st.built) (hf : b ∉ st.failed) :
    processBuild c st run (some b) =
      (afterBuild c st run b (c.res b),
       match c.res b with | .ok => false | .fail => true | .oserr => c.oserrRaises) := by
  unfold processBuild afterBuild
  simp only [hb, hf, if_false, St.emit]
  cases c.res b <;> rfl

theorem afterBuild_inv {c runs st} (h : Inv c runs st) (run : Run) (hrun : run ∈ runs)
    (b : Build) (hbr : b ∈ run.builds) (hb : b ∉ st.built) (hf : b ∉ st.failed) (hB : c.doBuilds = true) :
    Inv c runs (afterBuild c st run b (c.res b)) := by
  have h0 := h.fresh b hb hf
  have hne : ∀ r, Ev.buildEnd b r ∉ st.trace := by
    intro r hr
    obtain ⟨_, h1, h2⟩ := h.endIn b r hr
    by_cases hr' : r = .ok
    · exact hb (h1 hr')
    · exact hf (h2 hr')
  cases hres : c.res b with
  | ok =>
    simp only [afterBuild]
    refine ⟨?_, ?_, ?_, ?_, ?_, ?_, ?_, ?_, ?_, ?_, ?_, ?_⟩
    · intro b'
      simp only [starts_snoc]
      by_cases hbb : b = b'
      · subst hbb; simp [h0]
      · simp [hbb]; exact h.once b'
    · intro b' hb' hf'
      simp only [starts_snoc]
      have hbb : b ≠ b' := by
        intro e; subst e; exact hb' (by simp)
      simp [hbb]
      exact h.fresh b' (fun x => hb' (by simp [x])) hf'
    · intro b' hb'
      simp at hb' ⊢
      rcases hb' with e | hb'
      · subst e; simp
      · exact Or.inl (h.builtOk b' hb')
    · intro b' hb'
      simp at hb'
      rcases hb' with e | hb'
      · subst e; exact hres
      · exact h.builtRes b' hb'
    · exact h.failedRes
    · intro b' r hr
      simp at hr
      rcases hr with hr | ⟨e1, e2⟩
      · obtain ⟨a1, a2, a3⟩ := h.endIn b' r hr
        exact ⟨a1, fun x => by simp [a2 x], a3⟩
      · subst e1; subst e2
        exact ⟨hres.symm, fun _ => by simp, fun x => absurd rfl x⟩
    · intro b' d env r hr
      simp at hr
      rcases hr with hr | ⟨e1, e2, e3, e4⟩
      · exact h.envcwd b' d env r hr
      · subst e1; subst e2; subst e3; subst e4
        exact ⟨rfl, run, hrun, rfl, rfl, hbr⟩
    · exact h.failImmWhy
    · intro hB'; rw [hB] at hB'; cases hB'
    · intro hok hid
      exact startsAfter_snoc _ (startsAfter_snoc _ (h.before hok hid) (by intro r e; cases e))
        (by intro r e; cases e)
    · intro hB'; rw [hB] at hB'; cases hB'
    · intro r hr
      simp at hr ⊢
      exact h.finStart r hr
  | fail =>
    simp only [afterBuild]
    refine ⟨?_, ?_, ?_, ?_, ?_, ?_, ?_, ?_, ?_, ?_, ?_, ?_⟩
    · intro b'
      simp only [starts_snoc]
      by_cases hbb : b = b'
      · subst hbb; simp [h0]
      · simp [hbb]; exact h.once b'
    · intro b' hb' hf'
      simp only [starts_snoc]
      have hbb : b ≠ b' := by
        intro e; subst e; exact hf' (by simp)
      simp [hbb]
      exact h.fresh b' hb' (fun x => hf' (by simp [x]))
    · intro b' hb'
      simp
      exact h.builtOk b' hb'
    · exact h.builtRes
    · intro b' hb'
      simp at hb'
      rcases hb' with e | hb'
      · subst e; rw [hres]; simp
      · exact h.failedRes b' hb'
    · intro b' r hr
      simp at hr
      rcases hr with hr | ⟨e1, e2⟩
      · obtain ⟨a1, a2, a3⟩ := h.endIn b' r hr
        exact ⟨a1, a2, fun x => by simp [a3 x]⟩
      · subst e1; subst e2
        exact ⟨hres.symm, ⟨(fun x => nomatch x), fun _ => List.mem_cons_self⟩⟩
    · intro b' d env r hr
      simp at hr
      rcases hr with hr | ⟨e1, e2, e3, e4⟩
      · exact h.envcwd b' d env r hr
      · subst e1; subst e2; subst e3; subst e4
        exact ⟨rfl, run, hrun, rfl, rfl, hbr⟩
    · intro r hr
      simp at hr
      rcases hr with e | hr
      · subst e; exact ⟨run, hrun, rfl, b, hbr, by simp⟩
      · obtain ⟨run', h1, h2, b', h3, h4⟩ := h.failImmWhy r hr
        exact ⟨run', h1, h2, b', h3, by simp [h4]⟩
    · intro hB'; rw [hB] at hB'; cases hB'
    · intro hok hid
      exact startsAfter_snoc _ (startsAfter_snoc _ (h.before hok hid) (by intro r e; cases e))
        (by intro r e; cases e)
    · intro hB'; rw [hB] at hB'; cases hB'
    · intro r hr
      simp at hr ⊢
      exact h.finStart r hr
  | oserr =>
    simp only [afterBuild]
    refine ⟨?_, ?_, ?_, ?_, ?_, ?_, ?_, ?_, ?_, ?_, ?_, ?_⟩
    · intro b'
      simp only [starts_snoc]
      by_cases hbb : b = b'
      · subst hbb; simp [h0]
      · simp [hbb]; exact h.once b'
    · intro b' hb' hf'
      simp only [starts_snoc]
      have hbb : b ≠ b' := by
        intro e; subst e; exact hf' (by simp)
      simp [hbb]
      exact h.fresh b' hb' (fun x => hf' (by simp [x]))
    · intro b' hb'
      simp
      exact h.builtOk b' hb'
    · exact h.builtRes
    · intro b' hb'
      simp at hb'
      rcases hb' with e | hb'
      · subst e; rw [hres]; simp
      · exact h.failedRes b' hb'
    · intro b' r hr
      simp at hr
      rcases hr with hr | ⟨e1, e2⟩
      · obtain ⟨a1, a2, a3⟩ := h.endIn b' r hr
        exact ⟨a1, a2, fun x => by simp [a3 x]⟩
      · subst e1; subst e2
        exact ⟨hres.symm, ⟨(fun x => nomatch x), fun _ => List.mem_cons_self⟩⟩
    · intro b' d env r hr
      simp at hr
      rcases hr with hr | ⟨e1, e2, e3, e4⟩
      · exact h.envcwd b' d env r hr
      · subst e1; subst e2; subst e3; subst e4
        exact ⟨rfl, run, hrun, rfl, rfl, hbr⟩
    · intro r hr
      simp at hr
      rcases hr with e | hr
      · subst e; exact ⟨run, hrun, rfl, b, hbr, by simp⟩
      · obtain ⟨run', h1, h2, b', h3, h4⟩ := h.failImmWhy r hr
        exact ⟨run', h1, h2, b', h3, by simp [h4]⟩
    · intro hB'; rw [hB] at hB'; cases hB'
    · intro hok hid
      exact startsAfter_snoc _ (startsAfter_snoc _ (h.before hok hid) (by intro r e; cases e))
        (by intro r e; cases e)
    · intro hB'; rw [hB] at hB'; cases hB'
    · intro r hr
      simp at hr ⊢
      exact h.finStart r hr

theorem processBuild_inv {c runs st} (h : Inv c runs st) (run : Run) (hrun : run ∈ runs)
    (ob : Option Build) (hob : ∀ b, ob = some b → b ∈ run.builds) (hB : c.doBuilds = true) :
    Inv c runs (processBuild c st run ob).1 := by
  cases ob with
  | none => exact h
  | some b =>
    by_cases hb : b ∈ st.built
    · simp [processBuild, hb]; exact h
    · by_cases hf : b ∈ st.failed
      · simp only [processBuild, hb, hf, if_false, if_true]
        refine { h with failImmWhy := ?_ }
        intro r hr
        simp at hr
        rcases hr with e | hr
        · subst e; exact ⟨run, hrun, rfl, b, hob b rfl, hf⟩
        · exact h.failImmWhy r hr
      · rw [processBuild_act hb hf]
        exact afterBuild_inv h run hrun b (hob b rfl) hb hf hB

theorem processBuild_built_mono {c st run ob} (b : Build) (hb : b ∈ st.built) :
    b ∈ (processBuild c st run ob).1.built := by
  cases ob with
  | none => exact hb
  | some b' =>
    by_cases hb' : b' ∈ st.built
    · simp [processBuild, hb']; exact hb
    · by_cases hf : b' ∈ st.failed
      · simp [processBuild, hb', hf]; exact hb
      · rw [processBuild_act hb' hf]
        cases hres : c.res b' <;> simp [afterBuild, hb]

theorem processBuild_noraise {c : Cfg} {st run ob}
    (hok : c.oserrRaises = true ∨ (∀ b, c.res b ≠ .oserr))
    (h : (processBuild c st run ob).2 = false) (b : Build) (hob : ob = some b) :
    b ∈ (processBuild c st run ob).1.built := by
  subst hob
  by_cases hb : b ∈ st.built
  · simp [processBuild, hb]
  · by_cases hf : b ∈ st.failed
    · simp [processBuild, hb, hf] at h
    · rw [processBuild_act hb hf] at h ⊢
      cases hres : c.res b with
      | ok => simp [afterBuild]
      | fail => simp [hres] at h
      | oserr =>
        simp [hres] at h
        rcases hok with h1 | h2
        · rw [h1] at h; cases h
        · exact absurd hres (h2 b)

/-- a raised FailedBuilding means one of the run's own builds is marked failed -/
theorem processBuild_raise {c : Cfg} {st run ob}
    (h : (processBuild c st run ob).2 = true) :
    ∃ b, ob = some b ∧ b ∈ (processBuild c st run ob).1.failed := by
  cases ob with
  | none => simp [processBuild] at h
  | some b =>
    refine ⟨b, rfl, ?_⟩
    by_cases hb : b ∈ st.built
    · simp [processBuild, hb] at h
    · by_cases hf : b ∈ st.failed
      · simp [processBuild, hb, hf]
      · rw [processBuild_act hb hf] at h ⊢
        cases hres : c.res b <;> simp [afterBuild, hres] at h ⊢

theorem mem_builds {run : Run} {b : Build} :
    b ∈ run.builds ↔ run.ebuild = some b ∨ run.sbuild = some b := by
  unfold Run.builds
  cases run.ebuild <;> cases run.sbuild <;> simp [eq_comm]

theorem emit_start_inv {c runs st} (h : Inv c runs st) (run : Run) (hrun : run ∈ runs)
    (hb : c.doBuilds = true → (c.oserrRaises = true ∨ (∀ b, c.res b ≠ .oserr)) →
      ∀ b ∈ run.builds, b ∈ st.built) :
    Inv c runs ((st.emit (Ev.start run.id)).emit (Ev.finish run.id)) := by
  simp only [St.emit]
  refine ⟨?_, ?_, ?_, ?_, ?_, ?_, ?_, ?_, ?_, ?_, ?_, ?_⟩
  · intro b; simp only [starts_snoc, Nat.add_zero]; exact h.once b
  · intro b h1 h2; simp only [starts_snoc, Nat.add_zero]; exact h.fresh b h1 h2
  · intro b hb'; simp; exact h.builtOk b hb'
  · exact h.builtRes
  · exact h.failedRes
  · intro b r hr; simp at hr; exact h.endIn b r hr
  · intro b d env r hr; simp at hr; exact h.envcwd b d env r hr
  · exact h.failImmWhy
  · intro hB b; simp only [starts_snoc, Nat.add_zero]; exact h.nob hB b
  · intro hok hid
    refine startsAfter_snoc _ (startsAfter_snoc _ (h.before hok hid) ?_) (by intro r e; cases e)
    intro r e b hbn
    cases e
    unfold needOf at hbn
    by_cases hB : c.doBuilds = true
    · simp [hB] at hbn
      obtain ⟨run', ⟨hr', hid'⟩, hbr⟩ := hbn
      have : run' = run := hid run' hr' run hrun hid'
      subst this
      exact h.builtOk b (hb hB hok b hbr)
    · simp [hB] at hbn
  · exact h.nobFlags
  · intro r hr
    simp at hr ⊢
    rcases hr with hr | hr
    · exact Or.inl (h.finStart r hr)
    · exact Or.inr hr

theorem executeRun_inv {c runs st} (h : Inv c runs st) (run : Run) (hrun : run ∈ runs) :
    Inv c runs (executeRun c st run).1 := by
  unfold executeRun
  split
  · exact h
  · by_cases hB : c.doBuilds = true
    · simp only [hB, if_true]
      have h1 := processBuild_inv h run hrun run.ebuild (fun b e => mem_builds.mpr (Or.inl e)) hB
      split
      · exact h1
      · rename_i hr1
        have h2 := processBuild_inv h1 run hrun run.sbuild (fun b e => mem_builds.mpr (Or.inr e)) hB
        split
        · exact h2
        · rename_i hr2
          refine emit_start_inv h2 run hrun ?_
          intro _ hok b hb
          rcases mem_builds.mp hb with e | e
          · exact processBuild_built_mono b
              (processBuild_noraise hok (by simpa using hr1) b e)
          · exact processBuild_noraise hok (by simpa using hr2) b e
    · have hB' : c.doBuilds = false := by simpa using hB
      simp only [hB', Bool.false_eq_true, if_false]
      refine emit_start_inv h run hrun ?_
      intro hBt; rw [hB'] at hBt; cases hBt

theorem schedStep_inv {c runs st} (s : Sched) (k : Nat) (work : List Run)
    (h : Inv c runs st) (hw : ∀ r ∈ work, r ∈ runs) :
    Inv c runs (schedStep c s k st work).1 ∧ ∀ r ∈ (schedStep c s k st work).2, r ∈ runs := by
  unfold schedStep
  simp only
  split
  · exact ⟨h, hw⟩
  · rename_i run hget
    have hrun : run ∈ work := List.mem_of_getElem? hget
    have hi := executeRun_inv h run (hw run hrun)
    have herase : ∀ i, ∀ r ∈ work.eraseIdx i, r ∈ runs :=
      fun i r hr => hw r (List.mem_of_mem_eraseIdx hr)
    split
    · split
      · refine ⟨hi, ?_⟩
        intro r hr
        rcases List.mem_append.mp hr with hr | hr
        · exact herase _ r hr
        · have : r = run := by simpa using hr
          subst this; exact hw _ hrun
      · exact ⟨hi, hw⟩
    · exact ⟨hi, herase _⟩

theorem runSteps_inv {c runs} (s : Sched) (ks : List Nat) :
    ∀ (st : St) (work : List Run), Inv c runs st → (∀ r ∈ work, r ∈ runs) →
      Inv c runs (runSteps c s ks st work).1 := by
  induction ks with
  | nil => intro st work h _; exact h
  | cons k ks ih =>
    intro st work h hw
    unfold runSteps
    obtain ⟨h1, h2⟩ := schedStep_inv s k work h hw
    exact ih _ _ h1 h2

/-- a sequential session: the scheduler `s` iterating `ks.length` times over `runs` -/
def session (c : Cfg) (s : Sched) (ks : List Nat) (runs : List Run) : St :=
  (runSteps c s ks {} runs).1

theorem session_inv (c : Cfg) (s : Sched) (ks : List Nat) (runs : List Run) :
    Inv c runs (session c s ks runs) :=
  runSteps_inv s ks {} runs (inv_init c runs) (fun _ h => h)

/-! ### --setup-only -/

theorem selectSetup_sub (seen : List Build) (runs : List Run) :
    ∀ r ∈ selectSetup seen runs, r ∈ runs := by
  induction runs generalizing seen with
  | nil => intro r h; simp [selectSetup] at h
  | cons r0 rs ih =>
    intro r h
    unfold selectSetup at h
    split at h
    · exact List.mem_cons_of_mem _ (ih _ r h)
    · simp at h
      rcases h with e | h
      · subst e; simp
      · exact List.mem_cons_of_mem _ (ih _ r h)

theorem selectSetup_covers (seen : List Build) (runs : List Run) :
    ∀ run ∈ runs, ∀ b ∈ run.builds, b ∈ seen ∨ ∃ r' ∈ selectSetup seen runs, b ∈ r'.builds := by
  induction runs generalizing seen with
  | nil => intro r h; cases h
  | cons r0 rs ih =>
    intro run hrun b hb
    unfold selectSetup
    split
    · rename_i hall
      simp at hrun
      rcases hrun with e | hrun
      · subst e
        left
        have := List.all_eq_true.mp hall b hb
        simpa using this
      · exact ih seen run hrun b hb
    · simp at hrun
      rcases hrun with e | hrun
      · subst e; right; exact ⟨run, by simp, hb⟩
      · rcases ih (r0.builds ++ seen) run hrun b hb with h | ⟨r', h1, h2⟩
        · simp at h
          rcases h with h | h
          · right; exact ⟨r0, by simp, h⟩
          · left; exact h
        · right; exact ⟨r', by simp [h1], h2⟩

end RB.Builds
