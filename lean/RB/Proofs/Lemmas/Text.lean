/-
Helper lemmas for C07, text level: split / join, decimal integers, `"%f"` and its reader.
-/
import RB.Model.DataFile
import Mathlib.Tactic.Ring
import Mathlib.Tactic.FieldSimp
import Mathlib.Tactic.Linarith
import Mathlib.Algebra.Order.Field.Rat

namespace RB.DataFile

/-! ### split / join -/

theorem splitSep_noSep (sep : Char) (f : List Char) (h : sep ∉ f) : splitSep sep f = [f] := by
  induction f with
  | nil => rfl
  | cons c cs ih =>
    have hc : c ≠ sep := fun e => h (by simp [e])
    have := ih (fun hm => h (by simp [hm]))
    simp [splitSep, hc, this]

theorem splitSep_append (sep : Char) (f rest : List Char) (h : sep ∉ f) :
    splitSep sep (f ++ sep :: rest) = f :: splitSep sep rest := by
  induction f with
  | nil => simp [splitSep]
  | cons c cs ih =>
    have hc : c ≠ sep := fun e => h (by simp [e])
    have := ih (fun hm => h (by simp [hm]))
    simp [splitSep, hc, this]

theorem splitSep_joinSep (sep : Char) (fs : List (List Char)) (hne : fs ≠ [])
    (h : ∀ f ∈ fs, sep ∉ f) : splitSep sep (joinSep sep fs) = fs := by
  induction fs with
  | nil => exact absurd rfl hne
  | cons f fs ih =>
    cases fs with
    | nil => simpa [joinSep] using splitSep_noSep sep f (h f (by simp))
    | cons g gs =>
      simp only [joinSep]
      rw [splitSep_append sep f _ (h f (by simp)), ih (by simp) (fun x hx => h x (by simp [hx]))]

/-! ### decimal integers -/

theorem natToDec_digits (n : Nat) : ∀ c ∈ natToDec n, c.isDigit = true :=
  fun _ hc => Nat.isDigit_of_mem_toDigits (by decide) (by decide) hc

theorem decToNat_natToDec (n : Nat) : decToNat? (natToDec n) = some n := by
  unfold decToNat?
  have h1 : natToDec n ≠ [] := Nat.toDigits_ne_nil
  have h2 : (natToDec n).all Char.isDigit = true := by
    simp only [List.all_eq_true]; exact natToDec_digits n
  rw [if_pos ⟨h1, h2⟩]
  simp [natToDec]

theorem not_mem_of_digits {cs : List Char} (h : ∀ c ∈ cs, c.isDigit = true) (x : Char)
    (hx : x.isDigit = false) : x ∉ cs := by
  intro hm; have := h x hm; simp [hx] at this

theorem natToDec_noTab (n : Nat) : '\t' ∉ natToDec n := not_mem_of_digits (natToDec_digits n) _ (by decide)
theorem natToDec_noDot (n : Nat) : '.' ∉ natToDec n := not_mem_of_digits (natToDec_digits n) _ (by decide)

/-! ### `"%f"` -/

theorem pad6_digits (n : Nat) : ∀ c ∈ pad6 (natToDec n), c.isDigit = true := by
  intro c hc
  unfold pad6 at hc
  rcases List.mem_append.mp hc with h | h
  · have := (List.mem_replicate.mp h).2; subst this; decide
  · exact natToDec_digits n c h

theorem pad6_length (n : Nat) (h : n < 1000000) : (pad6 (natToDec n)).length = 6 := by
  have : (natToDec n).length ≤ 6 := by
    unfold natToDec
    rw [Nat.length_toDigits_le_iff (by decide) (by decide)]
    exact h
  unfold pad6
  simp; omega

theorem pad6_value (n : Nat) : Nat.ofDigitChars 10 (pad6 (natToDec n)) 0 = n := by
  unfold pad6 natToDec
  rw [Nat.ofDigitChars_append]
  simp

theorem decToNat_pad6 (n : Nat) : decToNat? (pad6 (natToDec n)) = some n := by
  unfold decToNat?
  have h1 : pad6 (natToDec n) ≠ [] := by
    unfold pad6
    have : natToDec n ≠ [] := Nat.toDigits_ne_nil
    simp [this]
  have h2 : (pad6 (natToDec n)).all Char.isDigit = true := by
    simp only [List.all_eq_true]; exact pad6_digits n
  rw [if_pos ⟨h1, h2⟩, pad6_value]

theorem readUnsigned_fmtMicro (u : Nat) : readUnsigned (fmtMicro u) = some ((u : Rat) / 1000000) := by
  unfold readUnsigned fmtMicro
  rw [splitSep_append '.' _ _ (natToDec_noDot _),
      splitSep_noSep '.' _ (not_mem_of_digits (pad6_digits _) _ (by decide))]
  simp only [decToNat_natToDec, decToNat_pad6, pad6_length _ (Nat.mod_lt u (by decide))]
  simp only [Option.bind_eq_bind, Option.bind_some, Option.pure_def, Option.some.injEq]
  have h := Nat.div_add_mod u 1000000
  have : (u : Rat) = 1000000 * ((u / 1000000 : Nat) : Rat) + ((u % 1000000 : Nat) : Rat) := by
    exact_mod_cast h.symm
  rw [this]
  push_cast
  field_simp

theorem fmtMicro_head (u : Nat) : ∃ c cs, fmtMicro u = c :: cs ∧ c ≠ '-' := by
  unfold fmtMicro
  have hne : natToDec (u / 1000000) ≠ [] := Nat.toDigits_ne_nil
  obtain ⟨c, cs, hc⟩ := List.exists_cons_of_ne_nil hne
  refine ⟨c, cs ++ '.' :: pad6 (natToDec (u % 1000000)), by rw [hc]; rfl, ?_⟩
  intro e
  have := natToDec_digits (u / 1000000) c (by rw [hc]; simp)
  rw [e] at this; exact absurd this (by decide)

theorem readFixed_fmtMicro (u : Nat) : readFixed (fmtMicro u) = some ((u : Rat) / 1000000) := by
  obtain ⟨c, cs, hc, hne⟩ := fmtMicro_head u
  unfold readFixed
  rw [hc]
  split
  · rename_i h; cases h; exact absurd rfl hne
  · rw [← hc]; exact readUnsigned_fmtMicro u

theorem readFixed_neg_fmtMicro (u : Nat) :
    readFixed ('-' :: fmtMicro u) = some (-((u : Rat) / 1000000)) := by
  simp [readFixed, readUnsigned_fmtMicro]

/-- the rounding error in millionths, cross-multiplied: `|u·den − num·10⁶| ≤ den/2` -/
theorem roundMicro_err (q : Rat) (h : 0 ≤ q) :
    2 * ((roundMicro q : Int) * q.den - q.num * 1000000) ≤ q.den ∧
    2 * (q.num * 1000000 - (roundMicro q : Int) * q.den) ≤ q.den := by
  have hnum : (q.num.toNat : Int) = q.num := Int.toNat_of_nonneg (Rat.num_nonneg.mpr h)
  have hden : 0 < q.den := q.den_pos
  have hdm := Nat.div_add_mod (q.num.toNat * 1000000) q.den
  have hlt := Nat.mod_lt (q.num.toNat * 1000000) hden
  unfold roundMicro
  simp only []
  generalize hn : q.num.toNat * 1000000 / q.den = n at *
  generalize hr : q.num.toNat * 1000000 % q.den = r at *
  have ha : q.num * 1000000 = (q.den : Int) * n + r := by
    rw [← hnum]; exact_mod_cast hdm.symm
  split
  · constructor <;> (rw [ha]; push_cast; nlinarith)
  · split
    · constructor <;> (rw [ha]; push_cast; nlinarith)
    · split <;> (constructor <;> (rw [ha]; push_cast; nlinarith))

theorem roundMicro_bound (q : Rat) (h : 0 ≤ q) :
    |(roundMicro q : Rat) / 1000000 - q| ≤ 1 / 2000000 := by
  obtain ⟨h1, h2⟩ := roundMicro_err q h
  have hd : (0 : Rat) < q.den := by exact_mod_cast q.den_pos
  have hk : q * (q.den : Rat) = (q.num : Rat) := Rat.mul_den_eq_num q
  have h1' : 2 * ((roundMicro q : Rat) * q.den - q.num * 1000000) ≤ q.den := by exact_mod_cast h1
  have h2' : 2 * ((q.num : Rat) * 1000000 - (roundMicro q : Rat) * q.den) ≤ q.den := by exact_mod_cast h2
  generalize ((roundMicro q : Nat) : Rat) = u at h1' h2' ⊢
  generalize (q.den : Rat) = d at hd hk h1' h2'
  generalize (q.num : Rat) = nm at hk h1' h2'
  have e : u / 1000000 - q = (u * d - nm * 1000000) / (1000000 * d) := by
    rw [← hk]; field_simp
  rw [e, abs_le]
  constructor
  · rw [le_div_iff₀ (by positivity)]; linarith
  · rw [div_le_iff₀ (by positivity)]; linarith

end RB.DataFile
