/-
Helper lemmas for C18 (`RB/Proofs/C18.lean`).
-/
import RB.Model.Report
import RB.Proofs.C15

namespace RB.Report

/-! ### column filtering -/

/-- position of column `i` among the kept ones -/
def pos (m : List Bool) (i : Nat) : Nat := (m.take i).count true

theorem filterMask_get {α : Type} (m : List Bool) (xs : List α) (i : Nat) (h : m[i]? = some true) :
    (filterMask m xs)[pos m i]? = xs[i]? := by
  induction m generalizing xs i with
  | nil => simp at h
  | cons b bs ih =>
    cases xs with
    | nil => simp [filterMask]
    | cons x xs' =>
      cases i with
      | zero =>
        simp at h; subst h
        simp [filterMask, pos]
      | succ i' =>
        have h' : bs[i']? = some true := by simpa using h
        cases b with
        | true =>
          have : pos (true :: bs) (i' + 1) = pos bs i' + 1 := by simp [pos]
          rw [this]
          simp only [filterMask, if_true, List.getElem?_cons_succ]
          exact ih xs' i' h'
        | false =>
          have : pos (false :: bs) (i' + 1) = pos bs i' := by simp [pos]
          rw [this]
          simp only [filterMask, Bool.false_eq_true, if_false, List.getElem?_cons_succ]
          exact ih xs' i' h'

theorem summaryOf_mem (m : List Bool) (ns : List String) (cs : List Cell) (i : Nat) (n : String) (c : Cell)
    (hm : m[i]? = some false) (hn : ns[i]? = some n) (hc : cs[i]? = some c) :
    (n, c) ∈ summaryOf m ns cs := by
  induction m generalizing ns cs i with
  | nil => simp at hm
  | cons b bs ih =>
    cases ns with
    | nil => simp at hn
    | cons n' ns' =>
      cases cs with
      | nil => simp at hc
      | cons c' cs' =>
        cases i with
        | zero =>
          simp at hm hn hc; subst hm hn hc
          simp [summaryOf]
        | succ i' =>
          have := ih ns' cs' i' (by simpa using hm) (by simpa using hn) (by simpa using hc)
          cases b <;> simp [summaryOf, this]

theorem filterMask_all_true {α : Type} (m : List Bool) (xs : List α) (h : ∀ b ∈ m, b = true)
    (hl : xs.length ≤ m.length) : filterMask m xs = xs := by
  induction m generalizing xs with
  | nil => cases xs with
    | nil => rfl
    | cons x xs => simp at hl
  | cons b bs ih =>
    cases xs with
    | nil => simp [filterMask]
    | cons x xs' =>
      have hb : b = true := h b (by simp)
      subst hb
      simp only [filterMask, if_true]
      rw [ih xs' (fun b hb => h b (by simp [hb])) (by simpa using hl)]

theorem mask_get (rows : List (List Cell)) (i : Nat) (hi : i < colNames.length) :
    (mask rows)[i]? = some (i == colNames.length - 1 || !(uniformAt i rows)) := by
  simp [mask, hi]

theorem mask_length (rows : List (List Cell)) : (mask rows).length = colNames.length := by
  simp [mask]

theorem uniformAt_spec (i : Nat) (rows : List (List Cell)) (h : uniformAt i rows = true) :
    ∀ r ∈ rows, r[i]? = (rows.headD [])[i]? := by
  cases rows with
  | nil => intro r hr; simp at hr
  | cons r0 rest =>
    intro r hr
    simp only [uniformAt, List.all_eq_true, beq_iff_eq] at h
    simp only [List.mem_cons] at hr
    rcases hr with hr | hr
    · subst hr; rfl
    · simpa using h r hr

theorem cells_length (r : Run) : (cells r).length = r.ident.length + 2 := by
  simp [cells]

/-! ### the sort key order: a total preorder (lexicographic on lists of strings, strings by code point) -/

theorem keyLe_iff (a b : Run) : keyLe a b = true ↔ sortKey a ≤ sortKey b := by
  simp only [keyLe, Bool.not_eq_true', decide_eq_false_iff_not, List.not_lt]

theorem keyLe_trans (a b c : Run) (h1 : keyLe a b = true) (h2 : keyLe b c = true) : keyLe a c = true := by
  rw [keyLe_iff] at *
  exact List.le_trans h1 h2

theorem keyLe_total (a b : Run) : (keyLe a b || keyLe b a) = true := by
  rw [Bool.or_eq_true, keyLe_iff, keyLe_iff]
  exact List.le_total _ _

/-! ### rounding -/

theorem round_cases (q : Rat) :
    (roundHalfEven q = q.floor ∧ q - (q.floor : Rat) ≤ 1 / 2) ∨
    (roundHalfEven q = q.floor + 1 ∧ 1 / 2 ≤ q - (q.floor : Rat)) := by
  unfold roundHalfEven lessHalf moreHalf
  simp only
  by_cases h1 : q - (q.floor : Rat) < 1 / 2
  · left; simp only [h1, decide_true, if_true, true_and]; exact le_of_lt h1
  · simp only [h1, decide_false, Bool.false_eq_true, if_false]
    by_cases h2 : 1 / 2 < q - (q.floor : Rat)
    · right; simp only [h2, decide_true, if_true, true_and]; exact le_of_lt h2
    · simp only [h2, decide_false, Bool.false_eq_true, if_false]
      have heq : q - (q.floor : Rat) = 1 / 2 := le_antisymm (not_lt.mp h2) (not_lt.mp h1)
      by_cases h3 : q.floor % 2 = 0
      · left; simp [h3, heq]
      · right; simp [h3, heq]

/-! ### Codespeed, incremental mode -/

/-- entries of all `completed` events, in order -/
def completedEntries : List CSEvent → List CSEntry
  | [] => []
  | .completed i r _ _ :: es => csEntry i r :: completedEntries es
  | .job _ :: es => completedEntries es

def completedIdx : List CSEvent → List Nat
  | [] => []
  | .completed i _ _ _ :: es => i :: completedIdx es
  | .job _ :: es => completedIdx es

def sentEntries (s : CSState) : List CSEntry := s.reqs.flatMap (·.entries)

theorem cachePut_fresh (c : List (Nat × CSEntry)) (i : Nat) (e : CSEntry) (h : i ∉ c.map (·.1)) :
    cachePut c i e = c ++ [(i, e)] := by
  induction c with
  | nil => rfl
  | cons p rest ih =>
    obtain ⟨j, e'⟩ := p
    simp only [List.map_cons, List.mem_cons, not_or] at h
    unfold cachePut
    have hne : ¬ j = i := fun hji => h.1 hji.symm
    simp only [hne, if_false, List.cons_append]
    rw [ih h.2]

theorem csFlush_sent (s : CSState) (ok : Bool) :
    sentEntries (csFlush s ok) ++ (csFlush s ok).cache.map (·.2) = sentEntries s ++ s.cache.map (·.2) := by
  unfold csFlush
  split
  · rfl
  · rename_i hc
    simp [sentEntries, csSend, hc]

theorem csFlush_cache_idx (s : CSState) (ok : Bool) : ∀ j ∈ (csFlush s ok).cache.map (·.1), j ∈ s.cache.map (·.1) := by
  unfold csFlush
  split
  · intro j hj; exact hj
  · intro j hj; simp at hj

theorem csFlush_cache_nil (s : CSState) (ok : Bool) : (csFlush s ok).cache = [] := by
  unfold csFlush
  split
  · assumption
  · rfl

theorem csRun_invariant (s : CSState) (es : List CSEvent)
    (hnd : (completedIdx es).Nodup) (hfresh : ∀ j ∈ s.cache.map (·.1), j ∉ completedIdx es) :
    sentEntries (es.foldl csStep s) ++ (es.foldl csStep s).cache.map (·.2)
      = sentEntries s ++ s.cache.map (·.2) ++ completedEntries es := by
  induction es generalizing s with
  | nil => simp [completedEntries]
  | cons e es ih =>
    simp only [List.foldl_cons]
    cases e with
    | job ok =>
      simp only [completedIdx, completedEntries] at hnd hfresh ⊢
      rw [ih (csStep s (.job ok)) hnd ?_]
      · simp only [csStep]; rw [csFlush_sent]
      · intro j hj
        exact hfresh j (csFlush_cache_idx s ok j hj)
    | completed i r now ok =>
      simp only [completedIdx, completedEntries, List.nodup_cons] at hnd hfresh ⊢
      have hi : i ∉ s.cache.map (·.1) := fun hmem => (hfresh i hmem) (by simp)
      have hput := cachePut_fresh s.cache i (csEntry i r) hi
      rw [ih _ hnd.2 ?_]
      · simp only [csStep]
        split
        · rw [csFlush_sent]
          simp [hput, sentEntries]
        · simp [hput, sentEntries]
      · intro j hj
        simp only [csStep] at hj
        have hj' : j ∈ (cachePut s.cache i (csEntry i r)).map (·.1) := by
          split at hj
          · exact csFlush_cache_idx _ ok j hj
          · exact hj
        rw [hput] at hj'
        simp only [List.map_append, List.map_cons, List.map_nil, List.mem_append, List.mem_singleton] at hj'
        rcases hj' with hj' | hj'
        · intro hmem; exact hfresh j hj' (by simp [hmem])
        · subst hj'; exact hnd.1

theorem completedIdx_append (es fs : List CSEvent) :
    completedIdx (es ++ fs) = completedIdx es ++ completedIdx fs := by
  induction es with
  | nil => rfl
  | cons e es ih => cases e <;> simp [completedIdx, ih]

theorem completedEntries_append (es fs : List CSEvent) :
    completedEntries (es ++ fs) = completedEntries es ++ completedEntries fs := by
  induction es with
  | nil => rfl
  | cons e es ih => cases e <;> simp [completedEntries, ih]

end RB.Report
