/-
Helper lemmas and the documented line shapes for C05's `classify_render`
theorems: numerals, white space, rendered lines of SavinaLog / JMH / Time.
-/
import RB.Proofs.Lemmas.AdaptersC05
namespace RB.Adapters


/-- a non-empty run of white space (Python's `\s`) -/
def Blank (ws : List Char) : Prop := ws ≠ [] ∧ ∀ c ∈ ws, isSpace c = true

/-- a white-space character (Python's `\s`) is no word character, digit, dot, colon, `=` or `i` -/
theorem space_props (c : Char) (h : isSpace c = true) :
    isWordDot c = false ∧ isWord c = false ∧ isDigit c = false ∧ c ≠ ':' ∧ c ≠ '.' ∧ c ≠ '=' ∧ c ≠ 'i' := by
  have hw : isWord c = false := by
    unfold isSpace at h
    unfold isWord isAlpha isDigit extraWord
    simp only [Bool.or_eq_true, Bool.and_eq_true, decide_eq_true_eq, beq_iff_eq] at h
    simp only [Bool.or_eq_false_iff, Bool.and_eq_false_iff, decide_eq_false_iff_not, beq_eq_false_iff_ne,
      List.contains_cons, List.contains_nil, Bool.or_false]
    refine ⟨⟨⟨⟨?_, ?_⟩, ?_⟩, ?_⟩, ?_⟩
    · omega
    · omega
    · omega
    · intro e; subst e; simp at h
    · omega
  have hne : ∀ x : Char, isSpace x = false → c ≠ x := fun x hx e => by subst e; rw [h] at hx; cases hx
  refine ⟨?_, hw, ?_, hne ':' (by decide), hne '.' (by decide), hne '=' (by decide), hne 'i' (by decide)⟩
  · unfold isWordDot; simp [hw, hne '.' (by decide)]
  · cases hd : isDigit c with
    | false => rfl
    | true => have : isWord c = true := by simp [isWord, hd]
              rw [hw] at this; cases this
def Digits (ds : List Char) : Prop := ds ≠ [] ∧ ∀ c ∈ ds, isDigit c = true
def decVal (ip fp : List Char) : Rat := (digitsNat (ip ++ fp) : Rat) / pow10 fp.length

theorem blank_space {ws : List Char} (h : Blank ws) : ∀ c ∈ ws, isSpace c = true := h.2

theorem takeWhile_all {p : Char → Bool} (xs rest : List Char) (h : ∀ c ∈ xs, p c = true) (hs : stopsAt p rest) :
    (xs ++ rest).takeWhile p = xs ∧ (xs ++ rest).dropWhile p = rest := by
  induction xs with
  | nil =>
    cases rest with
    | nil => simp
    | cons c r => have := hs c r rfl; simp [List.takeWhile, List.dropWhile, this]
  | cons x xs ih =>
    have hx := h x (by simp)
    obtain ⟨a, b⟩ := ih (fun c hc => h c (by simp [hc]))
    simp [List.takeWhile, List.dropWhile, hx, a, b]

theorem digit_notE (c : Char) (h : isDigit c = true) : (!isE c) = true := by
  unfold isDigit at h
  simp only [Bool.and_eq_true, decide_eq_true_eq] at h
  unfold isE
  simp only [Bool.not_eq_true', Bool.or_eq_false_iff, beq_eq_false_iff_ne, ne_eq]
  constructor <;> (intro e; subst e; simp at h)

theorem digit_notDot (c : Char) (h : isDigit c = true) : (c != '.') = true := by
  unfold isDigit at h
  simp only [Bool.and_eq_true, decide_eq_true_eq] at h
  simp only [bne_iff_ne, ne_eq]
  intro e; subst e; simp at h

theorem numeralVal_decimal (ip fp : List Char) (hi : ∀ c ∈ ip, isDigit c = true) (hf : ∀ c ∈ fp, isDigit c = true) :
    numeralVal (ip ++ '.' :: fp) = decVal ip fp := by
  have hall : ∀ c ∈ ip ++ '.' :: fp, (!isE c) = true := by
    intro c hc
    rcases List.mem_append.mp hc with h | h
    · exact digit_notE c (hi c h)
    · rcases List.mem_cons.mp h with h | h
      · subst h; decide
      · exact digit_notE c (hf c h)
  obtain ⟨t1, d1⟩ := takeWhile_all (p := fun c => !isE c) (ip ++ '.' :: fp) [] hall (stopsAt_nil _)
  simp only [List.append_nil] at t1 d1
  obtain ⟨t2, d2⟩ := takeWhile_all (p := fun c => c != '.') ip ('.' :: fp) (fun c hc => digit_notDot c (hi c hc))
    (stopsAt_cons _ _ _ (by decide))
  unfold numeralVal
  simp only [t1, d1, t2, d2, List.drop_nil, List.drop_succ_cons, List.drop_zero]
  rfl



theorem digits_space_stop {ds : List Char} (rest : List Char) (h : Digits ds) : stopsAt isSpace (ds ++ rest) := by
  obtain ⟨hne, hd⟩ := h
  cases ds with
  | nil => exact absurd rfl hne
  | cons d ds => exact stopsAt_cons _ _ _ (digit_not_space d (hd d (by simp)))

theorem stopsAt_lit (p : Char → Bool) (l rest : List Char) (h : l.head?.map p = some false) :
    stopsAt p (l ++ rest) := by
  cases l with
  | nil => simp at h
  | cons c r => simp at h; exact stopsAt_cons _ _ _ h

macro "len_tac" : tactic => `(tactic| first | omega | (simp <;> omega) | simp)

theorem take_eq_of_append (full xs rest : List Char) (n : Nat) (h1 : full = xs ++ rest) (h2 : n = xs.length) :
    full.take n = xs := by
  subst h1; subst h2; simp

structure SavinaLine where
  name : List Char
  ws1 : List Char
  n : List Char
  ws2 : List Char
  ip : List Char
  fp : List Char

structure SavinaLine.Valid (x : SavinaLine) : Prop where
  name : x.name ≠ [] ∧ ∀ c ∈ x.name, isWordDot c = true
  ws1 : Blank x.ws1
  n : Digits x.n
  ws2 : Blank x.ws2
  ip : Digits x.ip
  fp : Digits x.fp

def SavinaLine.render (x : SavinaLine) : List Char :=
  x.name ++ (x.ws1 ++ ("Iteration-".toList ++ (x.n ++ (":".toList ++ (x.ws2 ++ ((x.ip ++ (".".toList ++ x.fp)) ++ " ms".toList))))))

theorem blank_stop_wordDot {ws : List Char} (rest : List Char) (h : Blank ws) : stopsAt isWordDot (ws ++ rest) := by
  obtain ⟨hne, hd⟩ := h
  cases ws with
  | nil => exact absurd rfl hne
  | cons d ds =>
    exact stopsAt_cons _ _ _ (space_props d (hd d (by simp))).1

theorem stripPrefix_mismatch (l l' rest : List Char)
    (h : (match l.head?, l'.head? with | some a, some b => a != b | _, _ => false) = true) :
    stripPrefix l (l' ++ rest) = none := by
  cases l with
  | nil => simp at h
  | cons a l =>
    cases l' with
    | nil => simp at h
    | cons b l' =>
      simp at h
      simp [stripPrefix, h]

theorem m_lit_mismatch {α : Type} (l l' rest : List Char) (c : Caps) (k : List Char → Caps → Option α)
    (h : (match l.head?, l'.head? with | some a, some b => a != b | _, _ => false) = true) :
    (Re.lit l).m (l' ++ rest) c k = none := by
  simp [Re.m, stripPrefix_mismatch l l' rest h]

theorem numeralVal_int (ip : List Char) (hi : ∀ c ∈ ip, isDigit c = true) : numeralVal ip = decVal ip [] := by
  obtain ⟨t1, d1⟩ := takeWhile_all (p := fun c => !isE c) ip [] (fun c hc => digit_notE c (hi c hc)) (stopsAt_nil _)
  obtain ⟨t2, d2⟩ := takeWhile_all (p := fun c => c != '.') ip [] (fun c hc => digit_notDot c (hi c hc)) (stopsAt_nil _)
  simp only [List.append_nil] at t1 d1 t2 d2
  unfold numeralVal
  simp only [t1, d1, t2, d2, List.drop_nil]
  rfl

theorem blank_stop_digit {ws : List Char} (rest : List Char) (h : Blank ws) : stopsAt isDigit (ws ++ rest) := by
  obtain ⟨hne, hd⟩ := h
  cases ws with
  | nil => exact absurd rfl hne
  | cons d ds =>
    exact stopsAt_cons _ _ _ (space_props d (hd d (by simp))).2.2.1

/-- a JMH result line: `Iteration` or `# Warmup Iteration`, the counter, the
score (integer or decimal), the unit (no carriage return, not starting with
white space) -/
structure JMHLine where
  warmup : Bool
  ws1 : List Char
  n : List Char
  ws2 : List Char
  ip : List Char
  fp : Option (List Char)
  ws3 : List Char
  unit : List Char

structure JMHLine.Valid (x : JMHLine) : Prop where
  ws1 : Blank x.ws1
  n : Digits x.n
  ws2 : Blank x.ws2
  ip : Digits x.ip
  fp : ∀ f, x.fp = some f → Digits f
  ws3 : Blank x.ws3
  unit : x.unit ≠ [] ∧ (∀ c ∈ x.unit, notCR c = true) ∧ stopsAt isSpace x.unit

def JMHLine.head (x : JMHLine) : List Char := if x.warmup then "# Warmup Iteration".toList else "Iteration".toList
def JMHLine.score (x : JMHLine) : List Char := match x.fp with | some f => x.ip ++ (".".toList ++ f) | none => x.ip
def JMHLine.render (x : JMHLine) : List Char :=
  x.head ++ (x.ws1 ++ (x.n ++ (":".toList ++ (x.ws2 ++ (x.score ++ (x.ws3 ++ x.unit))))))
def JMHLine.value (x : JMHLine) : Rat := decVal x.ip (x.fp.getD [])

/-- the tail after the unit: nothing, or a carriage return and anything -/
def crTail (tail : List Char) : Prop := stopsAt notCR tail

theorem unit_space_stop {u : List Char} (rest : List Char) (hne : u ≠ []) (h : stopsAt isSpace u) :
    stopsAt isSpace (u ++ rest) := by
  cases u with
  | nil => exact absurd rfl hne
  | cons c r => exact stopsAt_cons _ _ _ (h c r rfl)

theorem take_prefix (full xs : List Char) (n : Nat) (h : xs <+: full) (hn : n = xs.length) : full.take n = xs := by
  obtain ⟨t, rfl⟩ := h; subst hn; simp


/-! ## the fresh-data-point loop returns one data point per matching line -/

def freshExpected (inv : Nat) : Nat → List (List Char × Val) → List (List Meas)
  | _, [] => []
  | i, (u, v) :: r =>
    [{ invocation := inv, iteration := i, criterion := totalName, unit := u, value := v }] :: freshExpected inv (i + 1) r

theorem freshLoop_items (cfg : FreshCfg) (inv : Nat) (items : List (Line × (List Char × Val))) :
    ∀ it done, (∀ x ∈ items, cfg.stop x.1 = false ∧ cfg.marker x.1 = false ∧ cfg.classify x.1 = some x.2) →
      ∃ dps, freshLoop cfg inv (items.map (·.1)) it done = finish (done ++ dps) ∧
        dps.map (·.ms) = freshExpected inv it (items.map (·.2)) := by
  induction items with
  | nil => intro it done _; exact ⟨[], by simp [freshLoop], rfl⟩
  | cons x xs ih =>
    intro it done h
    obtain ⟨hs, hm, hc⟩ := h x (by simp)
    obtain ⟨l, u, v⟩ := x
    simp only at hs hm hc
    obtain ⟨c', hc', hms, _⟩ := add_total (open_empty inv it)
      { invocation := inv, iteration := it, criterion := totalName, unit := u, value := v }
      (by simp [Meas.isTotal]) rfl rfl
    obtain ⟨dps, hd, hdms⟩ := ih (it + 1) (done ++ [c']) (fun y hy => h y (by simp [hy]))
    refine ⟨c' :: dps, ?_, ?_⟩
    · simp only [List.map_cons, freshLoop, hs, hm, Bool.false_eq_true, if_false, hc, hc']
      rw [hd]; simp
    · simp only [List.map_cons, freshExpected, hdms, hms, DP.empty, List.nil_append]

/-- groups that consist of one total line each -/
theorem groupsExpected_totals (cfg : Cfg) (inv : Nat) (xs : List (Line × (List Char × Val)))
    (h : ∀ x ∈ xs, cfg.classify x.1 = some { pre := [], main := { criterion := totalName, unit := x.2.1, value := x.2.2 } }) :
    ∀ i, groupsExpected cfg inv i (xs.map (fun x => (([] : List Line), x.1))) =
      freshExpected inv i (xs.map (·.2)) := by
  induction xs with
  | nil => intro i; rfl
  | cons x xs ih =>
    intro i
    have hx := h x (by simp)
    obtain ⟨l, u, v⟩ := x
    simp only at hx
    simp only [List.map_cons, groupsExpected, Group.lines, List.nil_append, List.flatMap_cons, List.flatMap_nil,
      List.append_nil, lineMeas, hx, List.map_nil, freshExpected]
    rw [ih (fun y hy => h y (by simp [hy])) (i + 1)]
    rfl

end RB.Adapters
