/-
C05, PlainSecondsLog: Python's `float()` (the model's `pyFloat`) on the documented numerals.
-/
import RB.Proofs.Lemmas.AdaptersTimeP
namespace RB.Adapters

/-- what may follow a run of digits in a float text without ending it wrongly: the end, or a
character that is neither a digit nor an underscore -/
def restOK (rest : List Char) : Prop := ∀ c r, rest = c :: r → isDigit c = false ∧ c ≠ '_'

theorem restOK_nil : restOK [] := by intro c r h; cases h
theorem restOK_cons (c : Char) (r : List Char) (h1 : isDigit c = false) (h2 : c ≠ '_') : restOK (c :: r) := by
  intro c' r' e; cases e; exact ⟨h1, h2⟩

theorem digit_ne_us (d : Char) (h : isDigit d = true) : d ≠ '_' := by
  unfold isDigit at h
  simp only [Bool.and_eq_true, decide_eq_true_eq] at h
  intro e; subst e; simp at h

theorem digitPartAux_digits (ds : List Char) :
    ∀ (fuel : Nat) (acc rest : List Char), ds.length ≤ fuel → (∀ c ∈ ds, isDigit c = true) → restOK rest →
      digitPartAux fuel acc (ds ++ rest) = (acc.reverse ++ ds, rest) := by
  induction ds with
  | nil =>
    intro fuel acc rest _ _ hr
    simp only [List.nil_append, List.append_nil]
    cases fuel with
    | zero => rfl
    | succ f =>
      unfold digitPartAux
      split
      · rename_i d r; exact absurd rfl (hr '_' (d :: r) rfl).2
      · rename_i d r _; simp [(hr d r rfl).1]
      · rfl
  | cons d ds ih =>
    intro fuel acc rest hf hd hr
    cases fuel with
    | zero => simp at hf
    | succ f =>
      have hdd := hd d (by simp)
      simp only [List.cons_append]
      unfold digitPartAux
      split
      · rename_i d' r heq
        simp only [List.cons.injEq] at heq
        exact absurd heq.1 (digit_ne_us d hdd)
      · rename_i d' r _ heq
        simp only [List.cons.injEq] at heq
        obtain ⟨rfl, rfl⟩ := heq
        simp only [hdd, if_true]
        rw [ih f (d :: acc) rest (by simpa using hf) (fun c hc => hd c (by simp [hc])) hr]
        simp
      · rename_i heq; cases heq

theorem digitPart_digits (ds rest : List Char) (h : Digits ds) (hr : restOK rest) :
    digitPart (ds ++ rest) = some (ds, rest) := by
  obtain ⟨hne, hd⟩ := h
  cases ds with
  | nil => exact absurd rfl hne
  | cons d r =>
    simp only [List.cons_append, digitPart, hd d (by simp), if_true]
    rw [digitPartAux_digits r _ [d] rest (by simp) (fun c hc => hd c (by simp [hc])) hr]
    simp

theorem digitPart_none (s : List Char) (h : stopsAt isDigit s) : digitPart s = none := by
  cases s with
  | nil => rfl
  | cons c r => simp [digitPart, h c r rfl]



theorem expText_restOK (n : Numeral) (h : n.Valid) : restOK n.expText := by
  unfold Numeral.expText
  cases he : n.exp with
  | none => exact restOK_nil
  | some x =>
    obtain ⟨e, sg, ds⟩ := x
    have hE := (h.exp e sg ds he).1
    apply restOK_cons
    · unfold isE at hE; simp only [Bool.or_eq_true, beq_iff_eq] at hE
      rcases hE with rfl | rfl <;> decide
    · unfold isE at hE; simp only [Bool.or_eq_true, beq_iff_eq] at hE
      rcases hE with rfl | rfl <;> decide

theorem expText_stop_digit (n : Numeral) (h : n.Valid) : stopsAt isDigit n.expText :=
  fun c r e => (expText_restOK n h c r e).1

theorem rat_div_one (x : Rat) : x / 1 = x := by grind

theorem splitSign_other (d : Char) (r : List Char) (n1 : d ≠ '-') (n2 : d ≠ '+') :
    splitSign (d :: r) = (false, d :: r) := by
  unfold splitSign
  split
  · rename_i heq; simp at heq; exact absurd heq.1 n1
  · rename_i heq; simp at heq; exact absurd heq.1 n2
  · rfl

/-- `floatExp` on the rendered exponent -/
theorem floatExp_render (n : Numeral) (h : n.Valid) (m : Rat) :
    floatExp m n.expText = some (match n.exp with
      | none => m
      | some (_, sg, ds) => scale m (sg == some '-') (digitsNat ds)) := by
  unfold Numeral.expText
  cases he : n.exp with
  | none => rfl
  | some x =>
    obtain ⟨e, sg, ds⟩ := x
    obtain ⟨hE, hs, hd⟩ := h.exp e sg ds he
    have hdp : digitPart ds = some (ds, []) := by
      have := digitPart_digits ds [] hd restOK_nil
      simpa using this
    simp only [floatExp, hE, if_true]
    cases hsg : sg with
    | none =>
      simp only [List.nil_append]
      obtain ⟨hne, hdd⟩ := hd
      cases hds : ds with
      | nil => exact absurd hds hne
      | cons d r =>
        rw [hds] at hdp
        obtain ⟨n1, n2⟩ := digit_ne_sign d (hdd d (by simp [hds]))
        rw [splitSign_other d r n1 n2]
        simp [hdp]
    | some s =>
      rcases hs s hsg with rfl | rfl
      · simp [splitSign, hdp]
      · simp [splitSign, hdp]

theorem pow10_zero : pow10 0 = 1 := by simp [pow10]

theorem expText_not_dot (n : Numeral) (h : n.Valid) : ∀ r', n.expText = '.' :: r' → False := by
  intro r' e
  unfold Numeral.expText at e
  cases he : n.exp with
  | none => simp [he] at e
  | some x =>
    obtain ⟨e', sg, ds⟩ := x
    simp only [he, List.cons.injEq] at e
    have hE := (h.exp e' sg ds he).1
    rw [e.1] at hE
    exact absurd hE (by decide)

theorem floatBody_render (n : Numeral) (h : n.Valid) : floatBody n.render = some n.value := by
  have hval : ∀ m : Rat, m = n.mantVal → floatExp m n.expText = some n.value := by
    intro m hm
    rw [floatExp_render n h m, hm]
    unfold Numeral.value
    cases n.exp with
    | none => rfl
    | some x => obtain ⟨e, sg, ds⟩ := x; rfl
  unfold Numeral.render Numeral.mant floatBody
  by_cases hip : n.ip = []
  · -- `.D+`
    rcases h.nonempty with h0 | ⟨f, hf, hfne⟩
    · exact absurd hip h0
    · simp only [hip, hf, List.nil_append, List.cons_append]
      rw [digitPart_none _ (stopsAt_cons _ _ _ (by decide))]
      simp only
      rw [digitPart_digits f _ ⟨hfne, h.fp f hf⟩ (expText_restOK n h)]
      simp only
      apply hval
      simp [Numeral.mantVal, decVal, hip, hf]
  · have hipd : Digits n.ip := ⟨hip, h.ip⟩
    cases hf : n.fp with
    | none =>
      simp only [List.append_nil]
      rw [digitPart_digits _ _ hipd (expText_restOK n h)]
      split
      · rename_i ip' r' heq
        simp only [Option.some.injEq, Prod.mk.injEq] at heq
        exact absurd heq.2 (fun e => expText_not_dot n h _ e)
      · rename_i ip' r' _ heq
        simp only [Option.some.injEq, Prod.mk.injEq] at heq
        obtain ⟨rfl, rfl⟩ := heq
        apply hval
        simp [Numeral.mantVal, decVal, hf, pow10_zero, rat_div_one]
      · rename_i heq; cases heq
    | some f =>
      simp only [List.append_assoc, List.cons_append]
      rw [digitPart_digits _ _ hipd (restOK_cons _ _ (by decide) (by decide))]
      simp only
      by_cases hfe : f = []
      · -- `D+.`
        subst hfe
        simp only [List.nil_append]
        rw [digitPart_none _ (expText_stop_digit n h)]
        simp only
        apply hval
        simp [Numeral.mantVal, decVal, hf, pow10_zero, rat_div_one]
      · rw [digitPart_digits _ _ ⟨hfe, h.fp f hf⟩ (expText_restOK n h)]
        simp only
        apply hval
        simp [Numeral.mantVal, decVal, hf]



/-- the first character of a rendered numeral: a digit or the dot -/
theorem render_head (n : Numeral) (h : n.Valid) :
    ∃ c r, n.render = c :: r ∧ (isDigit c = true ∨ c = '.') := by
  unfold Numeral.render Numeral.mant
  by_cases hip : n.ip = []
  · rcases h.nonempty with h0 | ⟨f, hf, _⟩
    · exact absurd hip h0
    · exact ⟨'.', f ++ n.expText, by simp [hip, hf], Or.inr rfl⟩
  · cases hi : n.ip with
    | nil => exact absurd hi hip
    | cons d r => exact ⟨d, _, rfl, Or.inl (h.ip d (by simp [hi]))⟩

theorem floatSpace_cases (c : Char) (h : isFloatSpace c = true) :
    isDigit c = false ∧ c ≠ '.' ∧ isE c = false ∧ c ≠ '+' ∧ c ≠ '-' := by
  have hs : isSpace c = true := by unfold isFloatSpace at h; simp at h; exact h.1
  refine ⟨?_, ?_, ?_, ?_, ?_⟩
  · cases hd : isDigit c with
    | false => rfl
    | true => rw [digit_not_space c hd] at hs; cases hs
  · intro e; subst e; revert hs; decide
  · cases he : isE c with
    | false => rfl
    | true =>
      unfold isE at he; simp only [Bool.or_eq_true, beq_iff_eq] at he
      rcases he with rfl | rfl <;> (revert hs; decide)
  · intro e; subst e; revert hs; decide
  · intro e; subst e; revert hs; decide

theorem render_no_floatSpace (n : Numeral) (h : n.Valid) : ∀ c ∈ n.render, isFloatSpace c = false := by
  intro c hc
  cases hfs : isFloatSpace c with
  | false => rfl
  | true =>
    obtain ⟨hd, hdot, he, hp, hm⟩ := floatSpace_cases c hfs
    exfalso
    unfold Numeral.render Numeral.mant Numeral.expText at hc
    rcases List.mem_append.mp hc with hc | hc
    · rcases List.mem_append.mp hc with hc | hc
      · rw [h.ip c hc] at hd; cases hd
      · cases hf : n.fp with
        | none => simp [hf] at hc
        | some f =>
          simp only [hf, List.mem_cons] at hc
          rcases hc with hc | hc
          · exact hdot hc
          · rw [h.fp f hf c hc] at hd; cases hd
    · cases hx : n.exp with
      | none => simp [hx] at hc
      | some x =>
        obtain ⟨e, sg, ds⟩ := x
        obtain ⟨hE, hs, hds⟩ := h.exp e sg ds hx
        simp only [hx, List.mem_cons, List.mem_append] at hc
        rcases hc with hc | hc | hc
        · subst hc; rw [hE] at he; cases he
        · cases hsg : sg with
          | none => simp [hsg] at hc
          | some s =>
            simp only [hsg, List.mem_cons, List.not_mem_nil, or_false] at hc
            subst hc
            rcases hs c hsg with e1 | e1
            · exact hp e1
            · exact hm e1
        · rw [hds.2 c hc] at hd; cases hd

theorem stripBy_middle (p : Char → Bool) (ws1 body ws2 : List Char) (h1 : ∀ c ∈ ws1, p c = true)
    (h2 : ∀ c ∈ ws2, p c = true) (hb : ∀ c ∈ body, p c = false) : stripBy p (ws1 ++ (body ++ ws2)) = body := by
  by_cases hne : body = []
  · subst hne
    simp only [List.nil_append]
    exact stripBy_all p _ (fun c hc => by
      rcases List.mem_append.mp hc with hc | hc
      · exact h1 c hc
      · exact h2 c hc)
  · have s1 : stopsAt p (body ++ ws2) := by
      cases body with
      | nil => exact absurd rfl hne
      | cons b r => exact stopsAt_cons _ _ _ (hb b (by simp))
    have d1 := (takeWhile_all (p := p) ws1 (body ++ ws2) h1 s1).2
    have s2 : stopsAt p body.reverse := digits_stop_rev p hb
    have d2 := (takeWhile_all (p := p) ws2.reverse body.reverse (fun c hc => h2 c (by simpa using hc)) s2).2
    unfold stripBy
    rw [d1, List.reverse_append, d2, List.reverse_reverse]

theorem lower_head (c : Char) (h : isDigit c = true ∨ c = '.') : lower c = c ∧ c ≠ 'i' ∧ c ≠ 'n' := by
  rcases h with h | rfl
  · unfold isDigit at h
    simp only [Bool.and_eq_true, decide_eq_true_eq] at h
    refine ⟨?_, ?_, ?_⟩
    · unfold lower
      have : ¬ (65 ≤ c.toNat ∧ c.toNat ≤ 90) := by omega
      simp [this]
    · intro e; subst e; simp at h
    · intro e; subst e; simp at h
  · decide

/-- Python's `float()` on a documented numeral surrounded by white space (blanks, a carriage return) -/
theorem pyFloat_render (n : Numeral) (h : n.Valid) (ws1 ws2 : List Char)
    (h1 : ∀ c ∈ ws1, isFloatSpace c = true) (h2 : ∀ c ∈ ws2, isFloatSpace c = true) :
    pyFloat (ws1 ++ (n.render ++ ws2)) = some (.flt n.value) := by
  unfold pyFloat
  rw [stripBy_middle isFloatSpace ws1 n.render ws2 h1 h2 (render_no_floatSpace n h)]
  obtain ⟨c, r, hr, hc⟩ := render_head n h
  obtain ⟨hl, hi, hn⟩ := lower_head c hc
  have hsign : splitSign n.render = (false, n.render) := by
    rw [hr]
    apply splitSign_other
    · rcases hc with hc | rfl
      · exact (digit_ne_sign c hc).1
      · decide
    · rcases hc with hc | rfl
      · exact (digit_ne_sign c hc).2
      · decide
  simp only [hsign]
  have e1 : n.render.map lower ≠ "inf".toList := by
    rw [hr]; simp only [List.map_cons, hl]; intro e
    have h1 := congrArg List.head? e
    rw [show ("inf".toList).head? = some 'i' from by decide] at h1
    simp only [List.head?_cons, Option.some.injEq] at h1
    exact hi h1
  have e2 : n.render.map lower ≠ "infinity".toList := by
    rw [hr]; simp only [List.map_cons, hl]; intro e
    have h1 := congrArg List.head? e
    rw [show ("infinity".toList).head? = some 'i' from by decide] at h1
    simp only [List.head?_cons, Option.some.injEq] at h1
    exact hi h1
  have e3 : n.render.map lower ≠ "nan".toList := by
    rw [hr]; simp only [List.map_cons, hl]; intro e
    have h1 := congrArg List.head? e
    rw [show ("nan".toList).head? = some 'n' from by decide] at h1
    simp only [List.head?_cons, Option.some.injEq] at h1
    exact hn h1
  simp only [e1, e2, e3, decide_false, Bool.or_false, Bool.false_eq_true, if_false, floatBody_render n h]

end RB.Adapters
