/-
Helper lemmas about the session model (C04 shared clause, C10, C11).
-/
import RB.Model.Sched
import RB.Proofs.Lemmas.Termination

set_option linter.unusedSimpArgs false
set_option linter.unusedVariables false

namespace RB.Sched
open RB.Term

variable {σ ε : Type}

/-! ### abstract scheduler -/

theorem proj_append (r : Nat) (a b : List (Nat × ε)) : proj r (a ++ b) = proj r a ++ proj r b := by
  simp [proj]

theorem proj_nil (r : Nat) : proj r ([] : List (Nat × ε)) = [] := rfl

theorem proj_tag_same (r : Nat) (evs : List ε) : proj r (evs.map (fun e => (r, e))) = evs := by
  induction evs with
  | nil => rfl
  | cons e es ih => simp [proj] at ih ⊢; exact ih

theorem proj_tag_other (r q : Nat) (h : q ≠ r) (evs : List ε) :
    proj r (evs.map (fun e => (q, e))) = [] := by
  induction evs with
  | nil => rfl
  | cons e es ih => simp [proj] at ih ⊢; exact ⟨h, ih⟩

theorem upd_same (g : Nat → σ) (r : Nat) (s : σ) : upd g r s r = s := by simp [upd]

theorem upd_other (g : Nat → σ) (r q : Nat) (s : σ) (h : q ≠ r) : upd g r s q = g q := by simp [upd, h]

/-- non-interference: whatever the pick sequence, run `r`'s events and final
state are those of `r` alone, stepped as often as it was picked -/
theorem exec_proj (S : Sys σ ε) (g : Nat → σ) (ps : List Nat) (r : Nat) :
    proj r (exec S g ps).2 = (solo S r (ps.count r) (g r)).2 ∧
    (exec S g ps).1 r = (solo S r (ps.count r) (g r)).1 := by
  induction ps generalizing g with
  | nil => simp [exec, solo, proj]
  | cons q ps ih =>
    by_cases h : q = r
    · subst h
      have := ih (upd g q (S.step q (g q)).1)
      simp only [exec, List.count_cons_self, solo, proj_append, proj_tag_same]
      simp only [upd_same] at this
      exact ⟨by rw [this.1], this.2⟩
    · have := ih (upd g q (S.step q (g q)).1)
      have hc : (q :: ps).count r = ps.count r := by simp [h]
      have hg : upd g q (S.step q (g q)).1 r = g r := upd_other _ _ _ _ (Ne.symm h)
      simp only [exec, proj_append, proj_tag_other r q h, List.nil_append, hc]
      rw [hg] at this
      exact this

/-- a valid pick sequence steps a run only while it is not done -/
theorem valid_solo (S : Sys σ ε) (g : Nat → σ) (ps : List Nat) (r : Nat) (h : valid S g ps = true) :
    ∀ j, j < ps.count r → S.done r (solo S r j (g r)).1 = false := by
  induction ps generalizing g with
  | nil => intro j hj; simp at hj
  | cons q ps ih =>
    simp only [valid, Bool.and_eq_true, Bool.not_eq_true'] at h
    by_cases hq : q = r
    · subst hq
      intro j hj
      cases j with
      | zero => simpa [solo] using h.1
      | succ j =>
        have := ih (upd g q (S.step q (g q)).1) h.2 j (by simpa using hj)
        simpa [solo, upd_same] using this
    · intro j hj
      have hc : (q :: ps).count r = ps.count r := by simp [hq]
      have := ih (upd g q (S.step q (g q)).1) h.2 j (by omega)
      rwa [upd_other _ _ _ _ (Ne.symm hq)] at this

/-- the number of steps after which a run is first done is unique -/
theorem first_done_unique (S : Sys σ ε) (r : Nat) (s : σ) (n m : Nat)
    (hn : S.done r (solo S r n s).1 = true) (hn' : ∀ j, j < n → S.done r (solo S r j s).1 = false)
    (hm : S.done r (solo S r m s).1 = true) (hm' : ∀ j, j < m → S.done r (solo S r j s).1 = false) :
    n = m := by
  rcases Nat.lt_trichotomy n m with h | h | h
  · have := hm' n h; simp [hn] at this
  · exact h
  · have := hn' m h; simp [hm] at this

theorem count_proj [DecidableEq ε] (r : Nat) (e : ε) (t : List (Nat × ε)) :
    t.count (r, e) = (proj r t).count e := by
  induction t with
  | nil => rfl
  | cons p t ih =>
    obtain ⟨q, x⟩ := p
    by_cases hq : q = r
    · subst hq
      by_cases hx : x = e
      · subst hx; simp [proj, List.filter_cons] at ih ⊢; exact ih
      · have : ((q, x) == (q, e)) = false := by simp [hx]
        simp [proj, List.filter_cons, List.count_cons, this, hx] at ih ⊢; exact ih
    · have : ((q, x) == (r, e)) = false := by simp [hq]
      simp [proj, List.filter_cons, List.count_cons, this, hq] at ih ⊢; exact ih

/-- traces with equal projections onto every run are permutations of each other -/
theorem perm_of_proj [DecidableEq ε] (t1 t2 : List (Nat × ε)) (h : ∀ r, proj r t1 = proj r t2) :
    t1.Perm t2 := by
  rw [List.perm_iff_count]
  intro ⟨r, e⟩
  rw [count_proj, count_proj, h r]

/-! ### concrete session -/

/-- marking a run changes only its `failNow` -/
def markOnly (s s' : RunSt) : Prop :=
  s'.script = s.script ∧ s'.cmdBuilt = s.cmdBuilt ∧ s'.pending = s.pending ∧
  s'.t.exeMissing = s.t.exeMissing ∧ s'.t.maxInv = s.t.maxInv ∧ s'.t.samples = s.t.samples ∧
  s'.t.succeeded = s.t.succeeded

theorem withoutMissing_spec (cf : Conf) (p : Nat) (g : G) (l : List Nat) :
    (∀ q, markOnly (g.rs q) ((withoutMissing cf p g l).1.rs q)) ∧
    (∀ q, (q ∉ l ∨ sameExe cf g p q = false) → (withoutMissing cf p g l).1.rs q = g.rs q) ∧
    (∀ q, q ∈ l → sameExe cf g p q = true →
        ((withoutMissing cf p g l).1.rs q).t.failNow = true ∧ q ∉ (withoutMissing cf p g l).2) ∧
    (∀ q, q ∈ l → sameExe cf g p q = false → q ∈ (withoutMissing cf p g l).2) ∧
    (withoutMissing cf p g l).2.Sublist l ∧
    (withoutMissing cf p g l).1.bst = g.bst := by
  induction l generalizing g with
  | nil => simp [withoutMissing, markOnly]
  | cons x xs ih =>
    simp only [withoutMissing]
    by_cases hx : sameExe cf g p x = true
    · simp only [hx, if_true]
      let g' : G := { g with rs := upd g.rs x { g.rs x with t := { (g.rs x).t with failNow := true } } }
      have hsame : ∀ q, sameExe cf g' p q = sameExe cf g p q := by
        intro q; rfl
      obtain ⟨i1, i2, i3, i4, i5, i6⟩ := ih g'
      refine ⟨?_, ?_, ?_, ?_, ?_, ?_⟩
      · intro q
        have := i1 q
        by_cases hq : q = x
        · subst hq; simp only [g', upd_same, markOnly] at this ⊢; exact this
        · simp only [g', upd_other _ _ _ _ hq] at this; exact this
      · intro q hq
        have hqx : q ≠ x := by
          rcases hq with hq | hq
          · intro e; apply hq; simp [e]
          · intro e; subst e; simp [hx] at hq
        have := i2 q (by
          rcases hq with hq | hq
          · left; intro hm; apply hq; simp [hm]
          · right; rw [hsame]; exact hq)
        rw [this]; simp only [g', upd_other _ _ _ _ hqx]
      · intro q hq hs
        by_cases hqm : q ∈ xs
        · exact i3 q hqm (by rw [hsame]; exact hs)
        · have hqx : q = x := by simpa [hqm] using hq
          subst hqx
          have := i2 q (Or.inl hqm)
          refine ⟨?_, fun hm => hqm (i5.subset hm)⟩
          rw [this]; simp [g', upd_same]
      · intro q hq hs
        have hqx : q ≠ x := by intro e; subst e; simp [hx] at hs
        have hqm : q ∈ xs := by simpa [hqx] using hq
        exact i4 q hqm (by rw [hsame]; exact hs)
      · exact i5.trans (List.sublist_cons_self x xs)
      · rw [i6]
    · simp only [hx, if_false, Bool.false_eq_true]
      have hx' : sameExe cf g p x = false := by simpa using hx
      obtain ⟨i1, i2, i3, i4, i5, i6⟩ := ih g
      refine ⟨i1, ?_, ?_, ?_, ?_, i6⟩
      · intro q hq
        apply i2 q
        rcases hq with hq | hq
        · left; intro hm; apply hq; simp [hm]
        · right; exact hq
      · intro q hq hs
        have hqx : q ≠ x := by intro e; subst e; simp [hx'] at hs
        have hqm : q ∈ xs := by simpa [hqx] using hq
        obtain ⟨a, b⟩ := i3 q hqm hs
        exact ⟨a, by simp [hqx, b]⟩
      · intro q hq hs
        by_cases hqx : q = x
        · simp [hqx]
        · have hqm : q ∈ xs := by simpa [hqx] using hq
          simp [i4 q hqm hs]
      · exact i5.cons_cons x

theorem pick_mem (k : Kind) (t : Nat) (ts : List Nat) (c : Nat) : pick k (t :: ts) c ∈ t :: ts := by
  cases k
  · simp [pick]
  · simp [pick]
  · have hlt : c % (t :: ts).length < (t :: ts).length := Nat.mod_lt _ (by simp)
    simp only [pick, List.getD_eq_getElem?_getD, List.getElem?_eq_getElem hlt, Option.getD_some]
    exact List.getElem_mem hlt

theorem requeue_subset (k : Kind) (tasks : List Nat) (r : Nat) (hr : r ∈ tasks) :
    ∀ q, q ∈ requeue k tasks r → q ∈ tasks := by
  intro q hq
  cases k <;> simp only [requeue] at hq
  · exact hq
  · rcases List.mem_append.mp hq with h | h
    · exact List.mem_of_mem_erase h
    · simp at h; rw [h]; exact hr
  · exact hq

theorem nextOf_subset (cf : Conf) (k : Kind) (tasks : List Nat) (r : Nat) (a : StepRes) (hr : r ∈ tasks) :
    ∀ q, q ∈ (nextOf cf k tasks r a).2 → q ∈ tasks := by
  intro q hq
  unfold nextOf at hq
  split at hq
  · exact List.mem_of_mem_erase hq
  · split at hq
    · split at hq
      · exact List.mem_of_mem_erase ((withoutMissing_spec cf r a.g (tasks.erase r)).2.2.2.2.1.subset hq)
      · exact List.mem_of_mem_erase hq
    · exact requeue_subset k tasks r hr q hq

/-- the scheduler only ever picks runs of its task list -/
theorem seqLoop_picks_subset (cf : Conf) (k : Kind) (g : G) (tasks cs : List Nat) :
    ∀ p, p ∈ (seqLoop cf k g tasks cs).picks → p ∈ tasks := by
  induction cs generalizing g tasks with
  | nil => cases tasks <;> simp [seqLoop]
  | cons c cs ih =>
    cases tasks with
    | nil => simp [seqLoop]
    | cons t ts =>
      intro p hp
      simp only [seqLoop, List.mem_cons] at hp
      rcases hp with hp | hp
      · rw [hp]; exact pick_mem k t ts c
      · exact nextOf_subset cf k (t :: ts) _ _ (pick_mem k t ts c) p (ih _ _ p hp)

/-! ### one run inside a sequential session -/

/-- no other run with `r`'s executable ever gets a 127 -/
def NoSharedNF (cf : Conf) (r : Nat) (g : G) : Prop :=
  ∀ q, q ≠ r → (cf.run q).exe = (cf.run r).exe →
    (g.rs q).t.exeMissing = false ∧ ∀ o ∈ (g.rs q).script, classify (cf.run q).cfg o ≠ .notFound

/-- `r` has no build command that could fail -/
def NoBuild (cf : Conf) (r : Nat) : Prop := cf.doBuilds = false ∨ (cf.run r).builds = []

theorem classify_default (c : Cfg) : classify c defaultOutcome ≠ .notFound := by
  unfold defaultOutcome classify
  simp

theorem nextOutcome_mem (l : List Outcome) :
    ((nextOutcome l).1 = defaultOutcome ∨ (nextOutcome l).1 ∈ l) ∧ ∀ o ∈ (nextOutcome l).2, o ∈ l := by
  cases l with
  | nil => simp [nextOutcome]
  | cons a l => simp only [nextOutcome]; exact ⟨Or.inr (by simp), fun o ho => by simp [ho]⟩

/-- `execute_run` keeps what the 127-clause looks at unless the outcome is a 127 -/
theorem runStep_keeps (rc : RunCfg) (s : RunSt)
    (h1 : s.t.exeMissing = false) (h2 : ∀ o ∈ s.script, classify rc.cfg o ≠ .notFound) :
    (runStep rc s).1.t.exeMissing = false ∧ ∀ o ∈ (runStep rc s).1.script, classify rc.cfg o ≠ .notFound := by
  unfold runStep
  split
  · exact ⟨h1, h2⟩
  · split
    · exact ⟨h1, h2⟩
    · obtain ⟨m1, m2⟩ := nextOutcome_mem s.script
      have hnf : classify rc.cfg (nextOutcome s.script).1 ≠ .notFound := by
        rcases m1 with m1 | m1
        · rw [m1]; exact classify_default _
        · exact h2 _ m1
      refine ⟨?_, fun o ho => h2 o (m2 o ho)⟩
      simp only [apply]
      split <;> simp_all

theorem execRun_other (cf : Conf) (g : G) (p r : Nat) (h : r ≠ p) : (execRun cf g p).g.rs r = g.rs r := by
  unfold execRun
  simp only
  split
  · simp [upd_other _ _ _ _ h]
  · split <;> simp [upd_other _ _ _ _ h]

/-- what `execute_run` on `p` does to `p` itself, as far as the 127-clause is concerned -/
theorem execRun_self_keeps (cf : Conf) (g : G) (p : Nat)
    (h1 : (g.rs p).t.exeMissing = false) (h2 : ∀ o ∈ (g.rs p).script, classify (cf.run p).cfg o ≠ .notFound) :
    ((execRun cf g p).g.rs p).t.exeMissing = false ∧
    ∀ o ∈ ((execRun cf g p).g.rs p).script, classify (cf.run p).cfg o ≠ .notFound := by
  unfold execRun
  simp only
  split
  · simp only [upd_same]; exact runStep_keeps _ _ h1 h2
  · split
    · simp only [upd_same]; exact ⟨h1, h2⟩
    · simp only [upd_same]; exact runStep_keeps _ _ h1 h2

theorem execRun_noBuild (cf : Conf) (g : G) (r : Nat) (hb : NoBuild cf r) :
    (execRun cf g r).g.rs = upd g.rs r (runStep (cf.run r) (g.rs r)).1 ∧
    (execRun cf g r).evs = (runStep (cf.run r) (g.rs r)).2 ∧
    (execRun cf g r).completed = runDone (cf.run r) (runStep (cf.run r) (g.rs r)).1 ∧
    (execRun cf g r).failedBuilding = false := by
  unfold execRun
  have : ((cf.run r).adapterKnown = false ∨ cf.doBuilds = false ∨ (cf.run r).builds = [] ∨
          shouldTerminate (cf.run r).cfg (g.rs r).t = true) := by
    rcases hb with hb | hb
    · right; left; exact hb
    · right; right; left; exact hb
  simp only [this, if_true, and_self]

theorem NoSharedNF_of_markOnly (cf : Conf) (r : Nat) (g g' : G) (h : NoSharedNF cf r g)
    (hm : ∀ q, markOnly (g.rs q) (g'.rs q)) : NoSharedNF cf r g' := by
  intro q hq he
  obtain ⟨a, b⟩ := h q hq he
  obtain ⟨m1, _, _, m4, _⟩ := hm q
  exact ⟨by rw [m4]; exact a, by rw [m1]; exact b⟩

theorem requeue_nodup (k : Kind) (tasks : List Nat) (r : Nat) (h : tasks.Nodup) : (requeue k tasks r).Nodup := by
  cases k <;> simp only [requeue]
  · exact h
  · rw [List.nodup_append]
    refine ⟨h.erase r, by simp, ?_⟩
    intro a ha b hb
    simp at hb; subst hb
    intro e; subst e
    exact (List.Nodup.mem_erase_iff h).mp ha |>.1 rfl
  · exact h

theorem nextOf_nodup (cf : Conf) (k : Kind) (tasks : List Nat) (r : Nat) (a : StepRes) (h : tasks.Nodup) :
    (nextOf cf k tasks r a).2.Nodup := by
  unfold nextOf
  split
  · exact h.erase r
  · split
    · split
      · exact ((withoutMissing_spec cf r a.g (tasks.erase r)).2.2.2.2.1).nodup (h.erase r)
      · exact h.erase r
    · exact requeue_nodup k tasks r h

theorem mem_requeue (k : Kind) (tasks : List Nat) (p q : Nat) (hq : q ∈ tasks) : q ∈ requeue k tasks p := by
  cases k <;> simp only [requeue]
  · exact hq
  · by_cases e : q = p
    · simp [e]
    · simp [List.mem_erase_of_ne e, hq]
  · exact hq

/-- a step on another run `p`: `r` is untouched, stays in the task list, and the
hypotheses are preserved -/
theorem nextOf_other (cf : Conf) (k : Kind) (g : G) (tasks : List Nat) (p r : Nat) (hpr : r ≠ p)
    (hns : NoSharedNF cf r g) :
    let nx := nextOf cf k tasks p (execRun cf g p)
    nx.1.rs r = g.rs r ∧ NoSharedNF cf r nx.1 ∧ (r ∈ tasks → r ∈ nx.2) := by
  intro nx
  have hr0 : (execRun cf g p).g.rs r = g.rs r := execRun_other cf g p r hpr
  -- the hypotheses after the step itself
  have hns1 : NoSharedNF cf r (execRun cf g p).g := by
    intro q hq he
    by_cases hqp : q = p
    · subst hqp
      obtain ⟨a, b⟩ := hns q hq he
      exact execRun_self_keeps cf g q a b
    · rw [execRun_other cf g p q hqp]; exact hns q hq he
  -- the stepped run cannot have a missing executable if it shares r's executable
  have hmiss : ((execRun cf g p).g.rs p).t.exeMissing = true → (cf.run p).exe ≠ (cf.run r).exe := by
    intro hm he
    have := (hns1 p (Ne.symm hpr) he).1
    rw [this] at hm; exact absurd hm (by simp)
  show (nextOf cf k tasks p (execRun cf g p)).1.rs r = g.rs r ∧
       NoSharedNF cf r (nextOf cf k tasks p (execRun cf g p)).1 ∧
       (r ∈ tasks → r ∈ (nextOf cf k tasks p (execRun cf g p)).2)
  unfold nextOf
  split
  · exact ⟨hr0, hns1, fun h => (List.mem_erase_of_ne hpr).mpr h⟩
  · split
    · split
      · rename_i hm
        obtain ⟨i1, i2, i3, i4, i5, i6⟩ := withoutMissing_spec cf p (execRun cf g p).g (tasks.erase p)
        have hse : sameExe cf (execRun cf g p).g p r = false := by
          simp only [sameExe, beq_eq_false_iff_ne]
          exact fun e => hmiss hm e.symm
        refine ⟨by rw [i2 r (Or.inr hse)]; exact hr0, NoSharedNF_of_markOnly cf r _ _ hns1 i1, ?_⟩
        intro h
        exact i4 r ((List.mem_erase_of_ne hpr).mpr h) hse
      · exact ⟨hr0, hns1, fun h => (List.mem_erase_of_ne hpr).mpr h⟩
    · exact ⟨hr0, hns1, fun h => mem_requeue k tasks p r h⟩

/-- a step on `r` itself (no build of its own): exactly `runStep`; it stays in
the task list iff it is not done -/
theorem nextOf_self (cf : Conf) (k : Kind) (g : G) (tasks : List Nat) (r : Nat) (hb : NoBuild cf r)
    (hnd : tasks.Nodup) (hr : r ∈ tasks) (hns : NoSharedNF cf r g) :
    let nx := nextOf cf k tasks r (execRun cf g r)
    nx.1.rs r = (runStep (cf.run r) (g.rs r)).1 ∧ NoSharedNF cf r nx.1 ∧
    (r ∈ nx.2 ↔ runDone (cf.run r) (runStep (cf.run r) (g.rs r)).1 = false) := by
  intro nx
  obtain ⟨e1, e2, e3, e4⟩ := execRun_noBuild cf g r hb
  have hself : (execRun cf g r).g.rs r = (runStep (cf.run r) (g.rs r)).1 := by rw [e1, upd_same]
  have hns1 : NoSharedNF cf r (execRun cf g r).g := by
    intro q hq he
    rw [execRun_other cf g r q hq]; exact hns q hq he
  have hnotin : r ∉ tasks.erase r := fun h => ((List.Nodup.mem_erase_iff hnd).mp h).1 rfl
  show (nextOf cf k tasks r (execRun cf g r)).1.rs r = _ ∧ NoSharedNF cf r (nextOf cf k tasks r (execRun cf g r)).1 ∧
       (r ∈ (nextOf cf k tasks r (execRun cf g r)).2 ↔ _)
  unfold nextOf
  simp only [e4, Bool.false_eq_true, if_false, e3]
  cases hd : runDone (cf.run r) (runStep (cf.run r) (g.rs r)).1
  · simp only [Bool.false_eq_true, if_false]
    exact ⟨hself, hns1, by simp [mem_requeue k tasks r r hr]⟩
  · simp only [if_true]
    split
    · obtain ⟨i1, i2, i3, i4, i5, i6⟩ := withoutMissing_spec cf r (execRun cf g r).g (tasks.erase r)
      refine ⟨by rw [i2 r (Or.inl hnotin)]; exact hself, NoSharedNF_of_markOnly cf r _ _ hns1 i1, ?_⟩
      simp
      exact fun h => hnotin (i5.subset h)
    · exact ⟨hself, hns1, by simp [hnotin]⟩

theorem uncompleted_not_done' (cf : Conf) (g : G) (order : List Nat) (r : Nat)
    (h : r ∈ uncompleted cf g order) : runDone (cf.run r) (g.rs r) = false := by
  simp only [uncompleted, List.mem_filter, Bool.not_eq_true'] at h
  have h2 := h.2
  simp only [runDone, h2, Bool.and_false, Bool.or_false, Bool.and_eq_false_iff]
  right
  simp only [shouldTerminate, abandoned, failsConsec, Bool.or_eq_false_iff] at h2
  exact h2.1.1.1

theorem solo_succ (S : Sys σ ε) (r : Nat) (n : Nat) (s : σ) :
    solo S r (n + 1) s = ((solo S r n (S.step r s).1).1, (S.step r s).2 ++ (solo S r n (S.step r s).1).2) := rfl

/-- The run-by-run reading of a sequential session. For a run `r` without a
build of its own and such that no other run with its executable gets a 127:
its events in the session trace and its final state are those of `r` executed
alone as often as it was picked; it was picked only while not done; and when the
scheduler finished, `r` is done. -/
theorem seq_run_spec (cf : Conf) (k : Kind) (r : Nat) (hb : NoBuild cf r) :
    ∀ (cs : List Nat) (g : G) (tasks : List Nat), tasks.Nodup → NoSharedNF cf r g →
      (r ∈ tasks → runDone (cf.run r) (g.rs r) = false) →
      proj r (seqLoop cf k g tasks cs).trace
          = (solo (runSys cf) r ((seqLoop cf k g tasks cs).picks.count r) (g.rs r)).2 ∧
      (seqLoop cf k g tasks cs).g.rs r
          = (solo (runSys cf) r ((seqLoop cf k g tasks cs).picks.count r) (g.rs r)).1 ∧
      (∀ j, j < (seqLoop cf k g tasks cs).picks.count r →
          runDone (cf.run r) (solo (runSys cf) r j (g.rs r)).1 = false) ∧
      ((seqLoop cf k g tasks cs).finished = true → r ∈ tasks →
          runDone (cf.run r) ((seqLoop cf k g tasks cs).g.rs r) = true) := by
  intro cs
  induction cs with
  | nil =>
    intro g tasks _ _ _
    cases tasks <;> simp [seqLoop, solo, proj]
  | cons c cs ih =>
    intro g tasks hnd hns hd0
    cases tasks with
    | nil => simp [seqLoop, solo, proj]
    | cons t ts =>
      have hpm := pick_mem k t ts c
      simp only [seqLoop]
      generalize hp : pick k (t :: ts) c = p at hpm
      by_cases hpr : p = r
      · subst hpr
        obtain ⟨n1, n2, n3⟩ := nextOf_self cf k g (t :: ts) p hb hnd hpm hns
        obtain ⟨e1, e2, e3, e4⟩ := execRun_noBuild cf g p hb
        have hnd' := nextOf_nodup cf k (t :: ts) p (execRun cf g p) hnd
        have ih' := ih (nextOf cf k (t :: ts) p (execRun cf g p)).1 (nextOf cf k (t :: ts) p (execRun cf g p)).2
          hnd' n2 (by rw [n1]; exact n3.mp)
        obtain ⟨i1, i2, i3, i4⟩ := ih'
        rw [n1] at i1 i2 i3
        simp only [List.count_cons_self, solo_succ, proj_append, proj_tag_same]
        have hstep : (runSys cf).step p (g.rs p) = runStep (cf.run p) (g.rs p) := rfl
        rw [hstep, e2]
        refine ⟨by rw [i1], i2, ?_, ?_⟩
        · intro j hj
          cases j with
          | zero => simpa [solo] using hd0 hpm
          | succ j =>
            rw [solo_succ, hstep]
            exact i3 j (by omega)
        · intro hfin _
          by_cases hin : p ∈ (nextOf cf k (t :: ts) p (execRun cf g p)).2
          · exact i4 hfin hin
          · have hcount : (seqLoop cf k (nextOf cf k (t :: ts) p (execRun cf g p)).1
                (nextOf cf k (t :: ts) p (execRun cf g p)).2 cs).picks.count p = 0 := by
              rw [List.count_eq_zero]
              exact fun h => hin (seqLoop_picks_subset _ _ _ _ _ p h)
            rw [i2, hcount]
            simp only [solo]
            have : ¬ runDone (cf.run p) (runStep (cf.run p) (g.rs p)).1 = false := fun h => hin (n3.mpr h)
            simpa using this
      · have hrp : r ≠ p := fun e => hpr e.symm
        obtain ⟨n1, n2, n3⟩ := nextOf_other cf k g (t :: ts) p r hrp hns
        have hnd' := nextOf_nodup cf k (t :: ts) p (execRun cf g p) hnd
        have hsub := nextOf_subset cf k (t :: ts) p (execRun cf g p) hpm
        have ih' := ih (nextOf cf k (t :: ts) p (execRun cf g p)).1 (nextOf cf k (t :: ts) p (execRun cf g p)).2
          hnd' n2 (by rw [n1]; exact fun h => hd0 (hsub r h))
        obtain ⟨i1, i2, i3, i4⟩ := ih'
        rw [n1] at i1 i2 i3
        have hc : (p :: (seqLoop cf k (nextOf cf k (t :: ts) p (execRun cf g p)).1
                (nextOf cf k (t :: ts) p (execRun cf g p)).2 cs).picks).count r
            = (seqLoop cf k (nextOf cf k (t :: ts) p (execRun cf g p)).1
                (nextOf cf k (t :: ts) p (execRun cf g p)).2 cs).picks.count r := by
          simp [hpr]
        simp only [hc, proj_append, proj_tag_other r p hpr, List.nil_append]
        exact ⟨i1, i2, i3, fun hfin hin => i4 hfin (n3 hin)⟩

end RB.Sched

namespace RB.Sched
open RB.Term

/-! ### half steps vs full steps -/

theorem apply_head (c : Cfg) (t : St) (o : Outcome) :
    (apply c t o).2 = Ev.start (t.maxInv + 1) :: (apply c t o).2.drop 1 := by
  unfold apply; split <;> simp

/-- the start and the end of a process together are one `execute_run` -/
theorem halfStep_twice (rc : RunCfg) (s : RunSt) (hp : s.pending = false) (ha : rc.adapterKnown = true) :
    (halfStep rc (halfStep rc s).1).1 = (runStep rc s).1 ∧
    (halfStep rc s).2 ++ (halfStep rc (halfStep rc s).1).2 = (runStep rc s).2 := by
  by_cases ht : shouldTerminate rc.cfg s.t = true
  · simp [halfStep, runStep, ha, hp, ht]
  · have ht' : shouldTerminate rc.cfg s.t = false := by simpa using ht
    simp only [halfStep, runStep, ha, hp, ht', Bool.true_eq_false, Bool.false_eq_true, if_false, if_true]
    refine ⟨?_, ?_⟩
    · cases s; simp_all
    · simp only [List.singleton_append]
      exact (apply_head rc.cfg s.t _).symm

theorem runStep_pending (rc : RunCfg) (s : RunSt) : (runStep rc s).1.pending = s.pending := by
  unfold runStep; split
  · rfl
  · split <;> rfl

theorem solo_runSys_pending (cf : Conf) (r : Nat) (n : Nat) (s : RunSt) :
    (solo (runSys cf) r n s).1.pending = s.pending := by
  induction n generalizing s with
  | zero => rfl
  | succ n ih =>
    rw [solo_succ, ih]
    exact runStep_pending _ _

/-- `2k` half steps of a run alone are `k` full steps -/
theorem solo_half_double (cf : Conf) (r : Nat) (ha : (cf.run r).adapterKnown = true) (k : Nat) (s : RunSt)
    (hp : s.pending = false) :
    solo (halfSys cf) r (2 * k) s = solo (runSys cf) r k s := by
  induction k generalizing s with
  | zero => rfl
  | succ k ih =>
    have h2 : 2 * (k + 1) = (2 * k + 1) + 1 := by omega
    rw [h2, solo_succ, solo_succ, solo_succ]
    have hstepH : ∀ x, (halfSys cf).step r x = halfStep (cf.run r) x := fun _ => rfl
    have hstepF : (runSys cf).step r s = runStep (cf.run r) s := rfl
    obtain ⟨e1, e2⟩ := halfStep_twice (cf.run r) s hp ha
    rw [hstepH, hstepH, hstepF, e1]
    have hp' : (runStep (cf.run r) s).1.pending = false := by rw [runStep_pending]; exact hp
    rw [ih _ hp']
    simp only [← List.append_assoc, e2]

/-- in between (after the start, before the end of a process) the run is not done -/
theorem solo_half_odd_not_done (cf : Conf) (r : Nat) (ha : (cf.run r).adapterKnown = true) (k : Nat) (s : RunSt)
    (hp : s.pending = false) (hnd : runDone (cf.run r) (solo (runSys cf) r k s).1 = false) :
    halfDone (cf.run r) (solo (halfSys cf) r (2 * k + 1) s).1 = false := by
  have hsplit : ∀ (n : Nat) (x : RunSt), (solo (halfSys cf) r (n + 1) x).1
      = ((halfSys cf).step r (solo (halfSys cf) r n x).1).1 := by
    intro n
    induction n with
    | zero => intro x; rfl
    | succ n ih => intro x; rw [solo_succ, ih]; rfl
  rw [hsplit, solo_half_double cf r ha k s hp]
  have hpk := solo_runSys_pending cf r k s
  rw [hp] at hpk
  have hterm : shouldTerminate (cf.run r).cfg (solo (runSys cf) r k s).1.t = false := by
    simpa [runDone, ha] using hnd
  simp [halfSys, halfStep, ha, hpk, hterm, halfDone]

theorem halfDone_of_not_pending (rc : RunCfg) (s : RunSt) (hp : s.pending = false) :
    halfDone rc s = runDone rc s := by
  simp [halfDone, hp]

end RB.Sched

namespace RB.Sched
open RB.Term

/-! ### runs whose own builds succeed -/

def noBuildEv : Ev → Bool
  | .build _ => false
  | _ => true

/-- the events of run `r` that are not build commands -/
def projR (r : Nat) (tr : List (Nat × Ev)) : List Ev := (proj r tr).filter noBuildEv

/-- no build command of `r` can fail: every one succeeds, or `-B`, or the run
never gets as far as building (unknown adapter) -/
def BuildsOk (cf : Conf) (r : Nat) : Prop :=
  (cf.run r).adapterKnown = false ∨ cf.doBuilds = false ∨ ∀ b ∈ (cf.run r).builds, cf.buildOk b = true

/-- the build table only says "failed" of builds that do fail -/
def BstSound (cf : Conf) (g : G) : Prop := ∀ b, g.bst b = some false → cf.buildOk b = false

theorem NoBuild.buildsOk {cf : Conf} {r : Nat} (h : NoBuild cf r) : BuildsOk cf r := by
  rcases h with h | h
  · exact Or.inr (Or.inl h)
  · exact Or.inr (Or.inr (by rw [h]; simp))

theorem doBuilds_sound (buildOk : Nat → Bool) (bst : Nat → Option Bool) (bs : List Nat)
    (h : ∀ b, bst b = some false → buildOk b = false) :
    ∀ b, (doBuilds buildOk bst bs).1 b = some false → buildOk b = false := by
  induction bs generalizing bst with
  | nil => simpa [doBuilds] using h
  | cons i is ih =>
    unfold doBuilds
    split
    · exact ih bst h
    · exact h
    · split
      · rename_i hok
        apply ih
        intro b hb
        by_cases e : b = i
        · subst e; simp [updB] at hb
        · simp only [updB, e, if_false] at hb; exact h b hb
      · rename_i hok
        intro b hb
        by_cases e : b = i
        · subst e; simpa using hok
        · simp only [updB, e, if_false] at hb; exact h b hb

theorem doBuilds_ok (buildOk : Nat → Bool) (bst : Nat → Option Bool) (bs : List Nat)
    (h : ∀ b, bst b = some false → buildOk b = false) (hok : ∀ b ∈ bs, buildOk b = true) :
    (doBuilds buildOk bst bs).2.1 = true := by
  induction bs generalizing bst with
  | nil => simp [doBuilds]
  | cons i is ih =>
    have hi : buildOk i = true := hok i (by simp)
    have his : ∀ b ∈ is, buildOk b = true := fun b hb => hok b (by simp [hb])
    unfold doBuilds
    split
    · exact ih bst h his
    · rename_i hf; have := h i hf; rw [hi] at this; exact absurd this (by simp)
    · simp only [hi, if_true]
      apply ih _ _ his
      intro b hb
      by_cases e : b = i
      · subst e; simp [updB] at hb
      · simp only [updB, e, if_false] at hb; exact h b hb

theorem runStep_noBuildEv (rc : RunCfg) (s : RunSt) : (runStep rc s).2.filter noBuildEv = (runStep rc s).2 := by
  unfold runStep
  split
  · rfl
  · split
    · rfl
    · simp only [apply]; split <;> simp [noBuildEv]

theorem filter_build_map (l : List Nat) : (l.map Ev.build).filter noBuildEv = [] := by
  induction l with
  | nil => rfl
  | cons a l ih => simp [noBuildEv, ih]

theorem execRun_bstSound (cf : Conf) (g : G) (p : Nat) (h : BstSound cf g) : BstSound cf (execRun cf g p).g := by
  unfold execRun
  simp only
  split
  · exact h
  · split
    · exact doBuilds_sound cf.buildOk g.bst _ h
    · exact doBuilds_sound cf.buildOk g.bst _ h

theorem nextOf_bstSound (cf : Conf) (k : Kind) (tasks : List Nat) (p : Nat) (a : StepRes)
    (h : BstSound cf a.g) : BstSound cf (nextOf cf k tasks p a).1 := by
  unfold nextOf
  split
  · exact h
  · split
    · split
      · intro b hb
        rw [(withoutMissing_spec cf p a.g (tasks.erase p)).2.2.2.2.2] at hb
        exact h b hb
      · exact h
    · exact h

theorem execRun_buildsOk (cf : Conf) (g : G) (r : Nat) (hb : BuildsOk cf r) (hs : BstSound cf g) :
    (execRun cf g r).g.rs = upd g.rs r (runStep (cf.run r) (g.rs r)).1 ∧
    (execRun cf g r).evs.filter noBuildEv = (runStep (cf.run r) (g.rs r)).2 ∧
    (execRun cf g r).completed = runDone (cf.run r) (runStep (cf.run r) (g.rs r)).1 ∧
    (execRun cf g r).failedBuilding = false := by
  unfold execRun
  simp only
  split
  · exact ⟨rfl, runStep_noBuildEv _ _, rfl, rfl⟩
  · rename_i hc
    have hdo : cf.doBuilds = true := by
      cases hd : cf.doBuilds
      · exact absurd (Or.inr (Or.inl hd)) hc
      · rfl
    have hall : ∀ b ∈ (cf.run r).builds, cf.buildOk b = true := by
      rcases hb with hb | hb | hb
      · exact absurd (Or.inl hb) hc
      · rw [hdo] at hb; exact absurd hb (by simp)
      · exact hb
    have hok := doBuilds_ok cf.buildOk g.bst (cf.run r).builds hs hall
    simp only [hok, Bool.true_eq_false, if_false, true_and, and_true]
    rw [List.filter_append, filter_build_map, List.nil_append, runStep_noBuildEv]

theorem projR_append (r : Nat) (a b : List (Nat × Ev)) : projR r (a ++ b) = projR r a ++ projR r b := by
  simp [projR, proj_append]

/-- step on `r` itself when its own builds succeed -/
theorem nextOf_self_builds (cf : Conf) (k : Kind) (g : G) (tasks : List Nat) (r : Nat) (hb : BuildsOk cf r)
    (hsound : BstSound cf g) (hnd : tasks.Nodup) (hr : r ∈ tasks) (hns : NoSharedNF cf r g) :
    let nx := nextOf cf k tasks r (execRun cf g r)
    nx.1.rs r = (runStep (cf.run r) (g.rs r)).1 ∧ NoSharedNF cf r nx.1 ∧
    (r ∈ nx.2 ↔ runDone (cf.run r) (runStep (cf.run r) (g.rs r)).1 = false) := by
  intro nx
  obtain ⟨e1, e2, e3, e4⟩ := execRun_buildsOk cf g r hb hsound
  have hself : (execRun cf g r).g.rs r = (runStep (cf.run r) (g.rs r)).1 := by rw [e1, upd_same]
  have hns1 : NoSharedNF cf r (execRun cf g r).g := by
    intro q hq he
    rw [execRun_other cf g r q hq]; exact hns q hq he
  have hnotin : r ∉ tasks.erase r := fun h => ((List.Nodup.mem_erase_iff hnd).mp h).1 rfl
  show (nextOf cf k tasks r (execRun cf g r)).1.rs r = _ ∧ NoSharedNF cf r (nextOf cf k tasks r (execRun cf g r)).1 ∧
       (r ∈ (nextOf cf k tasks r (execRun cf g r)).2 ↔ _)
  unfold nextOf
  simp only [e4, Bool.false_eq_true, if_false, e3]
  cases hd : runDone (cf.run r) (runStep (cf.run r) (g.rs r)).1
  · simp only [Bool.false_eq_true, if_false]
    exact ⟨hself, hns1, by simp [mem_requeue k tasks r r hr]⟩
  · simp only [if_true]
    split
    · obtain ⟨i1, i2, i3, i4, i5, i6⟩ := withoutMissing_spec cf r (execRun cf g r).g (tasks.erase r)
      refine ⟨by rw [i2 r (Or.inl hnotin)]; exact hself, NoSharedNF_of_markOnly cf r _ _ hns1 i1, ?_⟩
      simp
      exact fun h => hnotin (i5.subset h)
    · exact ⟨hself, hns1, by simp [hnotin]⟩

/-- `seq_run_spec` for a run whose own builds succeed: its events other than
build commands, and its final state, are those of the run alone -/
theorem seq_run_spec_builds (cf : Conf) (k : Kind) (r : Nat) (hb : BuildsOk cf r) :
    ∀ (cs : List Nat) (g : G) (tasks : List Nat), tasks.Nodup → NoSharedNF cf r g → BstSound cf g →
      (r ∈ tasks → runDone (cf.run r) (g.rs r) = false) →
      projR r (seqLoop cf k g tasks cs).trace
          = (solo (runSys cf) r ((seqLoop cf k g tasks cs).picks.count r) (g.rs r)).2 ∧
      (seqLoop cf k g tasks cs).g.rs r
          = (solo (runSys cf) r ((seqLoop cf k g tasks cs).picks.count r) (g.rs r)).1 ∧
      (∀ j, j < (seqLoop cf k g tasks cs).picks.count r →
          runDone (cf.run r) (solo (runSys cf) r j (g.rs r)).1 = false) ∧
      ((seqLoop cf k g tasks cs).finished = true → r ∈ tasks →
          runDone (cf.run r) ((seqLoop cf k g tasks cs).g.rs r) = true) := by
  intro cs
  induction cs with
  | nil =>
    intro g tasks _ _ _ _
    cases tasks <;> simp [seqLoop, solo, proj, projR]
  | cons c cs ih =>
    intro g tasks hnd hns hsound hd0
    cases tasks with
    | nil => simp [seqLoop, solo, proj, projR]
    | cons t ts =>
      have hpm := pick_mem k t ts c
      simp only [seqLoop]
      generalize hp : pick k (t :: ts) c = p at hpm
      have hsound' : BstSound cf (nextOf cf k (t :: ts) p (execRun cf g p)).1 :=
        nextOf_bstSound cf k (t :: ts) p _ (execRun_bstSound cf g p hsound)
      by_cases hpr : p = r
      · subst hpr
        obtain ⟨n1, n2, n3⟩ := nextOf_self_builds cf k g (t :: ts) p hb hsound hnd hpm hns
        obtain ⟨e1, e2, e3, e4⟩ := execRun_buildsOk cf g p hb hsound
        have hnd' := nextOf_nodup cf k (t :: ts) p (execRun cf g p) hnd
        have ih' := ih (nextOf cf k (t :: ts) p (execRun cf g p)).1 (nextOf cf k (t :: ts) p (execRun cf g p)).2
          hnd' n2 hsound' (by rw [n1]; exact n3.mp)
        obtain ⟨i1, i2, i3, i4⟩ := ih'
        rw [n1] at i1 i2 i3
        have hstep : (runSys cf).step p (g.rs p) = runStep (cf.run p) (g.rs p) := rfl
        have hproj : projR p ((execRun cf g p).evs.map (fun e => (p, e))) = (runStep (cf.run p) (g.rs p)).2 := by
          simp only [projR, proj_tag_same]; exact e2
        simp only [List.count_cons_self, solo_succ, projR_append, hproj, hstep]
        refine ⟨by rw [i1], i2, ?_, ?_⟩
        · intro j hj
          cases j with
          | zero => simpa [solo] using hd0 hpm
          | succ j =>
            rw [solo_succ, hstep]
            exact i3 j (by omega)
        · intro hfin _
          by_cases hin : p ∈ (nextOf cf k (t :: ts) p (execRun cf g p)).2
          · exact i4 hfin hin
          · have hcount : (seqLoop cf k (nextOf cf k (t :: ts) p (execRun cf g p)).1
                (nextOf cf k (t :: ts) p (execRun cf g p)).2 cs).picks.count p = 0 := by
              rw [List.count_eq_zero]
              exact fun h => hin (seqLoop_picks_subset _ _ _ _ _ p h)
            rw [i2, hcount]
            simp only [solo]
            have : ¬ runDone (cf.run p) (runStep (cf.run p) (g.rs p)).1 = false := fun h => hin (n3.mpr h)
            simpa using this
      · have hrp : r ≠ p := fun e => hpr e.symm
        obtain ⟨n1, n2, n3⟩ := nextOf_other cf k g (t :: ts) p r hrp hns
        have hnd' := nextOf_nodup cf k (t :: ts) p (execRun cf g p) hnd
        have hsub := nextOf_subset cf k (t :: ts) p (execRun cf g p) hpm
        have ih' := ih (nextOf cf k (t :: ts) p (execRun cf g p)).1 (nextOf cf k (t :: ts) p (execRun cf g p)).2
          hnd' n2 hsound' (by rw [n1]; exact fun h => hd0 (hsub r h))
        obtain ⟨i1, i2, i3, i4⟩ := ih'
        rw [n1] at i1 i2 i3
        have hc : (p :: (seqLoop cf k (nextOf cf k (t :: ts) p (execRun cf g p)).1
                (nextOf cf k (t :: ts) p (execRun cf g p)).2 cs).picks).count r
            = (seqLoop cf k (nextOf cf k (t :: ts) p (execRun cf g p)).1
                (nextOf cf k (t :: ts) p (execRun cf g p)).2 cs).picks.count r := by
          simp [hpr]
        have hproj : projR r ((execRun cf g p).evs.map (fun e => (p, e))) = [] := by
          simp [projR, proj_tag_other r p hpr]
        simp only [hc, projR_append, hproj, List.nil_append]
        exact ⟨i1, i2, i3, fun hfin hin => i4 hfin (n3 hin)⟩

end RB.Sched

namespace RB.Sched
open RB.Term

/-! ### runs with a failing build -/

/-- the build table only says "built" of builds that succeed -/
def BstSoundT (cf : Conf) (g : G) : Prop := ∀ b, g.bst b = some true → cf.buildOk b = true

/-- the run has a build command that fails (and gets as far as building) -/
def FailBuild (cf : Conf) (r : Nat) : Prop :=
  (cf.run r).adapterKnown = true ∧ cf.doBuilds = true ∧ ∃ b ∈ (cf.run r).builds, cf.buildOk b = false

/-- what a failed build leaves of a run: command line built, marked to fail, nothing else -/
def markB (s : RunSt) : RunSt := { s with cmdBuilt := true, t := { s.t with failNow := true } }

theorem buildsOk_or_failBuild (cf : Conf) (r : Nat) : BuildsOk cf r ∨ FailBuild cf r := by
  unfold BuildsOk FailBuild
  cases ha : (cf.run r).adapterKnown
  · left; left; rfl
  · cases hd : cf.doBuilds
    · left; right; left; rfl
    · by_cases h : ∀ b ∈ (cf.run r).builds, cf.buildOk b = true
      · left; right; right; exact h
      · right
        refine ⟨rfl, rfl, ?_⟩
        apply Classical.byContradiction
        intro hne
        apply h
        intro b hb
        cases hok : cf.buildOk b
        · exact absurd ⟨b, hb, hok⟩ hne
        · rfl

theorem doBuilds_soundT (buildOk : Nat → Bool) (bst : Nat → Option Bool) (bs : List Nat)
    (h : ∀ b, bst b = some true → buildOk b = true) :
    ∀ b, (doBuilds buildOk bst bs).1 b = some true → buildOk b = true := by
  induction bs generalizing bst with
  | nil => simpa [doBuilds] using h
  | cons i is ih =>
    unfold doBuilds
    split
    · exact ih bst h
    · exact h
    · split
      · rename_i hok
        apply ih
        intro b hb
        by_cases e : b = i
        · subst e; exact hok
        · simp only [updB, e, if_false] at hb; exact h b hb
      · intro b hb
        by_cases e : b = i
        · subst e; simp [updB] at hb
        · simp only [updB, e, if_false] at hb; exact h b hb

theorem doBuilds_fail (buildOk : Nat → Bool) (bst : Nat → Option Bool) (bs : List Nat)
    (h : ∀ b, bst b = some true → buildOk b = true) (hbad : ∃ b ∈ bs, buildOk b = false) :
    (doBuilds buildOk bst bs).2.1 = false := by
  induction bs generalizing bst with
  | nil => obtain ⟨b, hb, _⟩ := hbad; simp at hb
  | cons i is ih =>
    obtain ⟨b, hb, hbf⟩ := hbad
    unfold doBuilds
    split
    · rename_i ht
      have hi := h i ht
      have : b ≠ i := by intro e; subst e; rw [hi] at hbf; exact absurd hbf (by simp)
      exact ih bst h ⟨b, by simpa [this] using hb, hbf⟩
    · rfl
    · cases hok : buildOk i
      · simp
      · simp only [if_true]
        have : b ≠ i := by intro e; subst e; rw [hok] at hbf; exact absurd hbf (by simp)
        apply ih
        · intro c hc
          by_cases e : c = i
          · subst e; exact hok
          · simp only [updB, e, if_false] at hc; exact h c hc
        · exact ⟨b, by simpa [this] using hb, hbf⟩

theorem execRun_bstSoundT (cf : Conf) (g : G) (p : Nat) (h : BstSoundT cf g) : BstSoundT cf (execRun cf g p).g := by
  unfold execRun
  simp only
  split
  · exact h
  · split
    · exact doBuilds_soundT cf.buildOk g.bst _ h
    · exact doBuilds_soundT cf.buildOk g.bst _ h

theorem nextOf_bstSoundT (cf : Conf) (k : Kind) (tasks : List Nat) (p : Nat) (a : StepRes)
    (h : BstSoundT cf a.g) : BstSoundT cf (nextOf cf k tasks p a).1 := by
  unfold nextOf
  split
  · exact h
  · split
    · split
      · intro b hb
        rw [(withoutMissing_spec cf p a.g (tasks.erase p)).2.2.2.2.2] at hb
        exact h b hb
      · exact h
    · exact h

theorem execRun_failBuild (cf : Conf) (g : G) (r : Nat) (hf : FailBuild cf r) (hs : BstSoundT cf g)
    (hnt : shouldTerminate (cf.run r).cfg (g.rs r).t = false) :
    (execRun cf g r).g.rs = upd g.rs r (markB (g.rs r)) ∧
    (execRun cf g r).evs.filter noBuildEv = [] ∧
    (execRun cf g r).failedBuilding = true := by
  obtain ⟨ha, hd, hbad⟩ := hf
  have hne : (cf.run r).builds ≠ [] := by
    obtain ⟨b, hb, _⟩ := hbad; intro e; rw [e] at hb; simp at hb
  unfold execRun
  have hc : ¬ ((cf.run r).adapterKnown = false ∨ cf.doBuilds = false ∨ (cf.run r).builds = [] ∨
      shouldTerminate (cf.run r).cfg (g.rs r).t = true) := by
    simp [ha, hd, hne, hnt]
  have hfail := doBuilds_fail cf.buildOk g.bst (cf.run r).builds hs hbad
  simp only [hc, if_false, hfail, if_true, and_true, true_and]
  first
    | exact filter_build_map _
    | exact ⟨rfl, filter_build_map _⟩

/-- a run outside the task list is not touched -/
theorem seqLoop_untouched (cf : Conf) (k : Kind) (r : Nat) :
    ∀ (cs : List Nat) (g : G) (tasks : List Nat), r ∉ tasks →
      (seqLoop cf k g tasks cs).g.rs r = g.rs r ∧ proj r (seqLoop cf k g tasks cs).trace = [] := by
  intro cs
  induction cs with
  | nil => intro g tasks _; cases tasks <;> simp [seqLoop, proj]
  | cons c cs ih =>
    intro g tasks hr
    cases tasks with
    | nil => simp [seqLoop, proj]
    | cons t ts =>
      have hpm := pick_mem k t ts c
      simp only [seqLoop]
      generalize pick k (t :: ts) c = p at hpm
      have hpr : r ≠ p := fun e => hr (e ▸ hpm)
      have hsub := nextOf_subset cf k (t :: ts) p (execRun cf g p) hpm
      have hr' : r ∉ (nextOf cf k (t :: ts) p (execRun cf g p)).2 := fun h => hr (hsub r h)
      obtain ⟨i1, i2⟩ := ih (nextOf cf k (t :: ts) p (execRun cf g p)).1 _ hr'
      have hstate : (nextOf cf k (t :: ts) p (execRun cf g p)).1.rs r = g.rs r := by
        have h0 := execRun_other cf g p r hpr
        unfold nextOf
        split
        · exact h0
        · split
          · split
            · rw [(withoutMissing_spec cf p (execRun cf g p).g ((t :: ts).erase p)).2.1 r
                (Or.inl (fun h => hr (List.mem_of_mem_erase h)))]
              exact h0
            · exact h0
          · exact h0
      refine ⟨by rw [i1, hstate], ?_⟩
      rw [proj_append, proj_tag_other r p (fun e => hpr e.symm), i2]; rfl

/-- a run with a failing build ends marked, with nothing started and nothing
recorded, whatever the order -/
theorem seq_run_spec_failbuild (cf : Conf) (k : Kind) (r : Nat) (hf : FailBuild cf r) :
    ∀ (cs : List Nat) (g : G) (tasks : List Nat), tasks.Nodup → NoSharedNF cf r g → BstSoundT cf g →
      (r ∈ tasks → shouldTerminate (cf.run r).cfg (g.rs r).t = false) →
      projR r (seqLoop cf k g tasks cs).trace = [] ∧
      ((seqLoop cf k g tasks cs).finished = true → r ∈ tasks →
          (seqLoop cf k g tasks cs).g.rs r = markB (g.rs r)) := by
  intro cs
  induction cs with
  | nil =>
    intro g tasks _ _ _ _
    cases tasks <;> simp [seqLoop, proj, projR]
  | cons c cs ih =>
    intro g tasks hnd hns hsound hd0
    cases tasks with
    | nil => simp [seqLoop, proj, projR]
    | cons t ts =>
      have hpm := pick_mem k t ts c
      simp only [seqLoop]
      generalize hp : pick k (t :: ts) c = p at hpm
      by_cases hpr : p = r
      · subst hpr
        obtain ⟨e1, e2, e3⟩ := execRun_failBuild cf g p hf hsound (hd0 hpm)
        have hnext : nextOf cf k (t :: ts) p (execRun cf g p) = ((execRun cf g p).g, (t :: ts).erase p) := by
          simp [nextOf, e3]
        have hnotin : p ∉ (t :: ts).erase p := fun h => ((List.Nodup.mem_erase_iff hnd).mp h).1 rfl
        rw [hnext]
        obtain ⟨u1, u2⟩ := seqLoop_untouched cf k p cs (execRun cf g p).g _ hnotin
        refine ⟨?_, ?_⟩
        · rw [projR_append]
          simp only [projR, proj_tag_same, e2, u2]; rfl
        · intro _ _
          rw [u1, e1, upd_same]
      · have hrp : r ≠ p := fun e => hpr e.symm
        obtain ⟨n1, n2, n3⟩ := nextOf_other cf k g (t :: ts) p r hrp hns
        have hnd' := nextOf_nodup cf k (t :: ts) p (execRun cf g p) hnd
        have hsub := nextOf_subset cf k (t :: ts) p (execRun cf g p) hpm
        have hsound' : BstSoundT cf (nextOf cf k (t :: ts) p (execRun cf g p)).1 :=
          nextOf_bstSoundT cf k (t :: ts) p _ (execRun_bstSoundT cf g p hsound)
        obtain ⟨i1, i2⟩ := ih (nextOf cf k (t :: ts) p (execRun cf g p)).1 (nextOf cf k (t :: ts) p (execRun cf g p)).2
          hnd' n2 hsound' (by rw [n1]; exact fun h => hd0 (hsub r h))
        rw [n1] at i2
        have hproj : projR r ((execRun cf g p).evs.map (fun e => (p, e))) = [] := by
          simp [projR, proj_tag_other r p hpr]
        refine ⟨by rw [projR_append, hproj, i1]; rfl, fun hfin hin => i2 hfin (n3 hin)⟩

/-- the trace without build commands (which run triggers a shared build depends on the order) -/
def noBuildT (p : Nat × Ev) : Bool := noBuildEv p.2

theorem proj_filter_noBuild (r : Nat) (tr : List (Nat × Ev)) : proj r (tr.filter noBuildT) = projR r tr := by
  induction tr with
  | nil => rfl
  | cons p tr ih =>
    obtain ⟨q, e⟩ := p
    by_cases hq : q = r
    · subst hq
      cases hb : noBuildEv e <;> simp_all [proj, projR, noBuildT, List.filter_cons]
    · cases hb : noBuildEv e <;> simp_all [proj, projR, noBuildT, List.filter_cons]

theorem uncompleted_not_terminated (cf : Conf) (g : G) (order : List Nat) (r : Nat)
    (h : r ∈ uncompleted cf g order) : shouldTerminate (cf.run r).cfg (g.rs r).t = false := by
  simp only [uncompleted, List.mem_filter, Bool.not_eq_true'] at h
  exact h.2

end RB.Sched

namespace RB.Sched

/-- a session starts with an empty build table -/
theorem bstSound_of_fresh (cf : Conf) (g : G) (h : ∀ b, g.bst b = none) : BstSound cf g := by
  intro b hb; rw [h b] at hb; exact absurd hb (by simp)

theorem bstSoundT_of_fresh (cf : Conf) (g : G) (h : ∀ b, g.bst b = none) : BstSoundT cf g := by
  intro b hb; rw [h b] at hb; exact absurd hb (by simp)

theorem projR_of_proj_nil (r : Nat) (tr : List (Nat × Term.Ev)) (h : proj r tr = []) : projR r tr = [] := by
  simp [projR, h]

end RB.Sched
