/-
Helper lemmas about the session model (C04 shared clause, C10, C11).
-/
import RB.Model.Sched
import RB.Proofs.Lemmas.Termination

set_option linter.unusedSimpArgs false
set_option linter.unusedVariables false

namespace RB.Sched
open RB.Term

variable {σ ε : Type}

/-! ### abstract scheduler -/

theorem proj_append (r : Nat) (a b : List (Nat × ε)) : proj r (a ++ b) = proj r a ++ proj r b := by
  simp [proj]

theorem proj_nil (r : Nat) : proj r ([] : List (Nat × ε)) = [] := rfl

theorem proj_tag_same (r : Nat) (evs : List ε) : proj r (evs.map (fun e => (r, e))) = evs := by
  induction evs with
  | nil => rfl
  | cons e es ih => simp [proj] at ih ⊢; exact ih

theorem proj_tag_other (r q : Nat) (h : q ≠ r) (evs : List ε) :
    proj r (evs.map (fun e => (q, e))) = [] := by
  induction evs with
  | nil => rfl
  | cons e es ih => simp [proj] at ih ⊢; exact ⟨h, ih⟩

theorem upd_same (g : Nat → σ) (r : Nat) (s : σ) : upd g r s r = s := by simp [upd]

theorem upd_other (g : Nat → σ) (r q : Nat) (s : σ) (h : q ≠ r) : upd g r s q = g q := by simp [upd, h]

/-- non-interference: whatever the pick sequence, run `r`'s events and final
state are those of `r` alone, stepped as often as it was picked -/
theorem exec_proj (S : Sys σ ε) (g : Nat → σ) (ps : List Nat) (r : Nat) :
    proj r (exec S g ps).2 = (solo S r (ps.count r) (g r)).2 ∧
    (exec S g ps).1 r = (solo S r (ps.count r) (g r)).1 := by
  induction ps generalizing g with
  | nil => simp [exec, solo, proj]
  | cons q ps ih =>
    by_cases h : q = r
    · subst h
      have := ih (upd g q (S.step q (g q)).1)
      simp only [exec, List.count_cons_self, solo, proj_append, proj_tag_same]
      simp only [upd_same] at this
      exact ⟨by rw [this.1], this.2⟩
    · have := ih (upd g q (S.step q (g q)).1)
      have hc : (q :: ps).count r = ps.count r := by simp [h]
      have hg : upd g q (S.step q (g q)).1 r = g r := upd_other _ _ _ _ (Ne.symm h)
      simp only [exec, proj_append, proj_tag_other r q h, List.nil_append, hc]
      rw [hg] at this
      exact this

/-- a valid pick sequence steps a run only while it is not done -/
theorem valid_solo (S : Sys σ ε) (g : Nat → σ) (ps : List Nat) (r : Nat) (h : valid S g ps = true) :
    ∀ j, j < ps.count r → S.done r (solo S r j (g r)).1 = false := by
  induction ps generalizing g with
  | nil => intro j hj; simp at hj
  | cons q ps ih =>
    simp only [valid, Bool.and_eq_true, Bool.not_eq_true'] at h
    by_cases hq : q = r
    · subst hq
      intro j hj
      cases j with
      | zero => simpa [solo] using h.1
      | succ j =>
        have := ih (upd g q (S.step q (g q)).1) h.2 j (by simpa using hj)
        simpa [solo, upd_same] using this
    · intro j hj
      have hc : (q :: ps).count r = ps.count r := by simp [hq]
      have := ih (upd g q (S.step q (g q)).1) h.2 j (by omega)
      rwa [upd_other _ _ _ _ (Ne.symm hq)] at this

/-- the number of steps after which a run is first done is unique -/
theorem first_done_unique (S : Sys σ ε) (r : Nat) (s : σ) (n m : Nat)
    (hn : S.done r (solo S r n s).1 = true) (hn' : ∀ j, j < n → S.done r (solo S r j s).1 = false)
    (hm : S.done r (solo S r m s).1 = true) (hm' : ∀ j, j < m → S.done r (solo S r j s).1 = false) :
    n = m := by
  rcases Nat.lt_trichotomy n m with h | h | h
  · have := hm' n h; simp [hn] at this
  · exact h
  · have := hn' m h; simp [hm] at this

theorem count_proj [DecidableEq ε] (r : Nat) (e : ε) (t : List (Nat × ε)) :
    t.count (r, e) = (proj r t).count e := by
  induction t with
  | nil => rfl
  | cons p t ih =>
    obtain ⟨q, x⟩ := p
    by_cases hq : q = r
    · subst hq
      by_cases hx : x = e
      · subst hx; simp [proj, List.filter_cons] at ih ⊢; exact ih
      · have : ((q, x) == (q, e)) = false := by simp [hx]
        simp [proj, List.filter_cons, List.count_cons, this, hx] at ih ⊢; exact ih
    · have : ((q, x) == (r, e)) = false := by simp [hq]
      simp [proj, List.filter_cons, List.count_cons, this, hq] at ih ⊢; exact ih

/-- traces with equal projections onto every run are permutations of each other -/
theorem perm_of_proj [DecidableEq ε] (t1 t2 : List (Nat × ε)) (h : ∀ r, proj r t1 = proj r t2) :
    t1.Perm t2 := by
  rw [List.perm_iff_count]
  intro ⟨r, e⟩
  rw [count_proj, count_proj, h r]

/-! ### concrete session -/

/-- marking a run changes only its `failNow` -/
def markOnly (s s' : RunSt) : Prop :=
  s'.script = s.script ∧ s'.cmdBuilt = s.cmdBuilt ∧ s'.pending = s.pending ∧
  s'.t.exeMissing = s.t.exeMissing ∧ s'.t.maxInv = s.t.maxInv ∧ s'.t.samples = s.t.samples ∧
  s'.t.succeeded = s.t.succeeded

theorem withoutMissing_spec (cf : Conf) (p : Nat) (g : G) (l : List Nat) :
    (∀ q, markOnly (g.rs q) ((withoutMissing cf p g l).1.rs q)) ∧
    (∀ q, (q ∉ l ∨ sameExe cf g p q = false) → (withoutMissing cf p g l).1.rs q = g.rs q) ∧
    (∀ q, q ∈ l → sameExe cf g p q = true →
        ((withoutMissing cf p g l).1.rs q).t.failNow = true ∧ q ∉ (withoutMissing cf p g l).2) ∧
    (∀ q, q ∈ l → sameExe cf g p q = false → q ∈ (withoutMissing cf p g l).2) ∧
    (withoutMissing cf p g l).2.Sublist l ∧
    (withoutMissing cf p g l).1.bst = g.bst := by
  induction l generalizing g with
  | nil => simp [withoutMissing, markOnly]
  | cons x xs ih =>
    simp only [withoutMissing]
    by_cases hx : sameExe cf g p x = true
    · simp only [hx, if_true]
      let g' : G := { g with rs := upd g.rs x { g.rs x with t := { (g.rs x).t with failNow := true } } }
      have hsame : ∀ q, sameExe cf g' p q = sameExe cf g p q := by
        intro q; simp only [sameExe, g']; by_cases hq : q = x
        · subst hq; simp [upd_same]
        · simp [upd_other _ _ _ _ hq]
      obtain ⟨i1, i2, i3, i4, i5, i6⟩ := ih g'
      refine ⟨?_, ?_, ?_, ?_, ?_, ?_⟩
      · intro q
        have := i1 q
        by_cases hq : q = x
        · subst hq; simp only [g', upd_same, markOnly] at this ⊢; exact this
        · simp only [g', upd_other _ _ _ _ hq] at this; exact this
      · intro q hq
        have hqx : q ≠ x := by
          rcases hq with hq | hq
          · intro e; apply hq; simp [e]
          · intro e; subst e; simp [hx] at hq
        have := i2 q (by
          rcases hq with hq | hq
          · left; intro hm; apply hq; simp [hm]
          · right; rw [hsame]; exact hq)
        rw [this]; simp only [g', upd_other _ _ _ _ hqx]
      · intro q hq hs
        by_cases hqm : q ∈ xs
        · exact i3 q hqm (by rw [hsame]; exact hs)
        · have hqx : q = x := by simpa [hqm] using hq
          subst hqx
          have := i2 q (Or.inl hqm)
          refine ⟨?_, fun hm => hqm (i5.subset hm)⟩
          rw [this]; simp [g', upd_same]
      · intro q hq hs
        have hqx : q ≠ x := by intro e; subst e; simp [hx] at hs
        have hqm : q ∈ xs := by simpa [hqx] using hq
        exact i4 q hqm (by rw [hsame]; exact hs)
      · exact i5.trans (List.sublist_cons_self x xs)
      · rw [i6]
    · simp only [hx, if_false, Bool.false_eq_true]
      have hx' : sameExe cf g p x = false := by simpa using hx
      obtain ⟨i1, i2, i3, i4, i5, i6⟩ := ih g
      refine ⟨i1, ?_, ?_, ?_, ?_, i6⟩
      · intro q hq
        apply i2 q
        rcases hq with hq | hq
        · left; intro hm; apply hq; simp [hm]
        · right; exact hq
      · intro q hq hs
        have hqx : q ≠ x := by intro e; subst e; simp [hx'] at hs
        have hqm : q ∈ xs := by simpa [hqx] using hq
        obtain ⟨a, b⟩ := i3 q hqm hs
        exact ⟨a, by simp [hqx, b]⟩
      · intro q hq hs
        by_cases hqx : q = x
        · simp [hqx]
        · have hqm : q ∈ xs := by simpa [hqx] using hq
          simp [i4 q hqm hs]
      · exact i5.cons_cons x

theorem pick_mem (k : Kind) (t : Nat) (ts : List Nat) (c : Nat) : pick k (t :: ts) c ∈ t :: ts := by
  cases k
  · simp [pick]
  · simp [pick]
  · have hlt : c % (t :: ts).length < (t :: ts).length := Nat.mod_lt _ (by simp)
    simp only [pick, List.getD_eq_getElem?_getD, List.getElem?_eq_getElem hlt, Option.getD_some]
    exact List.getElem_mem hlt

theorem requeue_subset (k : Kind) (tasks : List Nat) (r : Nat) (hr : r ∈ tasks) :
    ∀ q, q ∈ requeue k tasks r → q ∈ tasks := by
  intro q hq
  cases k <;> simp only [requeue] at hq
  · exact hq
  · rcases List.mem_append.mp hq with h | h
    · exact List.mem_of_mem_erase h
    · simp at h; rw [h]; exact hr
  · exact hq

theorem nextOf_subset (cf : Conf) (k : Kind) (tasks : List Nat) (r : Nat) (a : StepRes) (hr : r ∈ tasks) :
    ∀ q, q ∈ (nextOf cf k tasks r a).2 → q ∈ tasks := by
  intro q hq
  unfold nextOf at hq
  split at hq
  · exact List.mem_of_mem_erase hq
  · split at hq
    · split at hq
      · exact List.mem_of_mem_erase ((withoutMissing_spec cf r a.g (tasks.erase r)).2.2.2.2.1.subset hq)
      · exact List.mem_of_mem_erase hq
    · exact requeue_subset k tasks r hr q hq

/-- the scheduler only ever picks runs of its task list -/
theorem seqLoop_picks_subset (cf : Conf) (k : Kind) (g : G) (tasks cs : List Nat) :
    ∀ p, p ∈ (seqLoop cf k g tasks cs).picks → p ∈ tasks := by
  induction cs generalizing g tasks with
  | nil => cases tasks <;> simp [seqLoop]
  | cons c cs ih =>
    cases tasks with
    | nil => simp [seqLoop]
    | cons t ts =>
      intro p hp
      simp only [seqLoop, List.mem_cons] at hp
      rcases hp with hp | hp
      · rw [hp]; exact pick_mem k t ts c
      · exact nextOf_subset cf k (t :: ts) _ _ (pick_mem k t ts c) p (ih _ _ p hp)

end RB.Sched
