/-
Helper lemmas for C06 / C07 about the data-file model (writer, loader, id tables).
-/
import RB.Model.DataFile

namespace RB.DataFile

variable {κ β : Type} [DecidableEq κ] [DecidableEq β] (benchOf : κ → β)

/-! ### shape of what the writer appends -/

omit [DecidableEq κ] [DecidableEq β] in
theorem openFile_content (fp : FP κ β) :
    (openFile fp).content = fp.content ++
      (if fp.isOpen then [] else sessionBlock ++ (if fp.content.isEmpty then [.header] else [])) := by
  unfold openFile; split <;> simp

omit [DecidableEq κ] [DecidableEq β] in
theorem openFile_dicts (fp : FP κ β) :
    (openFile fp).runDict = fp.runDict ∧ (openFile fp).benchDict = fp.benchDict := by
  unfold openFile; split <;> simp

omit [DecidableEq κ] [DecidableEq β] in
theorem openFile_isOpen (fp : FP κ β) : (openFile fp).isOpen = true := by
  unfold openFile; split <;> simp_all

/-- the lines `_ensure_benchark_is_persisted` appends -/
def benchLines (b : β) (fp : FP κ β) : List (Line κ β) :=
  match fp.benchDict.lookup b with
  | some _ => []
  | none => [.bench fp.benchDict.length b]

omit [DecidableEq κ] in
theorem ensureBench_content (b : β) (fp : FP κ β) :
    (ensureBench b fp).2.content = fp.content ++ benchLines b fp := by
  unfold ensureBench benchLines
  cases h : fp.benchDict.lookup b <;> simp

omit [DecidableEq κ] in
theorem ensureBench_runDict (b : β) (fp : FP κ β) : (ensureBench b fp).2.runDict = fp.runDict := by
  unfold ensureBench
  cases h : fp.benchDict.lookup b <;> simp

/-- the lines `_ensure_run_id_is_persisted` appends -/
def runLines (k : κ) (fp : FP κ β) : List (Line κ β) :=
  match fp.runDict.lookup k with
  | some _ => []
  | none => benchLines (benchOf k) fp ++ [.run fp.runDict.length (ensureBench (benchOf k) fp).1 k]

theorem ensureRun_content (k : κ) (fp : FP κ β) :
    (ensureRun benchOf k fp).2.content = fp.content ++ runLines benchOf k fp := by
  unfold ensureRun runLines
  cases h : fp.runDict.lookup k
  · simp [ensureBench_content]
  · simp

/-- the lines the lazy open appends -/
def openLines (fp : FP κ β) : List (Line κ β) :=
  if fp.isOpen then [] else sessionBlock ++ (if fp.content.isEmpty then [.header] else [])

theorem persist_content' (k : κ) (dp : DP) (fp : FP κ β) :
    (persist benchOf k dp fp).content =
      fp.content ++ (openLines fp ++ runLines benchOf k (openFile fp)) ++
        measLines k (ensureRun benchOf k (openFile fp)).1 dp := by
  unfold persist
  simp only [ensureRun_content, openFile_content, openLines, List.append_assoc]

omit [DecidableEq κ] [DecidableEq β] in
theorem openLines_noMeas (fp : FP κ β) : ∀ l ∈ openLines fp, isMeas l = false := by
  intro l hl
  unfold openLines at hl
  split at hl
  · simp at hl
  · simp only [sessionBlock, List.mem_append, List.mem_cons, List.not_mem_nil, or_false] at hl
    rcases hl with (rfl | rfl | rfl | rfl) | hl
    · rfl
    · rfl
    · rfl
    · rfl
    · split at hl
      · simp at hl; subst hl; rfl
      · simp at hl

omit [DecidableEq κ] in
theorem benchLines_noMeas (b : β) (fp : FP κ β) : ∀ l ∈ benchLines b fp, isMeas l = false := by
  intro l hl
  unfold benchLines at hl
  split at hl
  · simp at hl
  · simp at hl; subst hl; rfl

theorem runLines_noMeas (k : κ) (fp : FP κ β) : ∀ l ∈ runLines benchOf k fp, isMeas l = false := by
  intro l hl
  unfold runLines at hl
  split at hl
  · simp at hl
  · simp only [List.mem_append, List.mem_cons, List.not_mem_nil, or_false] at hl
    rcases hl with hl | rfl
    · exact benchLines_noMeas _ _ l hl
    · rfl

/-! ### measurement projection -/

omit [DecidableEq κ] [DecidableEq β] in
theorem filterMap_measProj_noMeas (ls : List (Line κ β)) (h : ∀ l ∈ ls, isMeas l = false) :
    ls.filterMap measProj = [] := by
  induction ls with
  | nil => rfl
  | cons l ls ih =>
    have hl := h l (by simp)
    have := ih (fun x hx => h x (by simp [hx]))
    cases l <;> simp_all [measProj, isMeas]

omit [DecidableEq κ] [DecidableEq β] in
theorem filterMap_measProj_measLines (k : κ) (rid : Nat) (dp : DP) :
    (measLines (β := β) k rid dp).filterMap measProj = dpProj k dp := by
  unfold measLines dpProj
  induction dp.ms with
  | nil => rfl
  | cons m ms ih => simp [measProj, ih]

theorem persist_measProj (k : κ) (dp : DP) (fp : FP κ β) :
    (persist benchOf k dp fp).content.filterMap measProj
      = fp.content.filterMap measProj ++ dpProj k dp := by
  rw [persist_content']
  simp only [List.filterMap_append, filterMap_measProj_measLines]
  rw [filterMap_measProj_noMeas _ (openLines_noMeas fp),
      filterMap_measProj_noMeas _ (runLines_noMeas benchOf k _)]
  simp

/-! ### header -/

def isHeader : Line κ β → Bool
  | .header => true
  | _ => false

omit [DecidableEq κ] [DecidableEq β] in
theorem headerCount_eq (c : List (Line κ β)) : headerCount c = (c.filter isHeader).length := by
  unfold headerCount
  congr 1

omit [DecidableEq κ] [DecidableEq β] in
theorem headerCount_append (a b : List (Line κ β)) :
    headerCount (a ++ b) = headerCount a + headerCount b := by
  simp [headerCount_eq]

omit [DecidableEq κ] [DecidableEq β] in
theorem headerCount_zero (ls : List (Line κ β)) (h : ∀ l ∈ ls, isHeader l = false) :
    headerCount ls = 0 := by
  rw [headerCount_eq]
  simp only [List.length_eq_zero_iff, List.filter_eq_nil_iff]
  intro l hl; simp [h l hl]

omit [DecidableEq κ] in
theorem benchLines_noHeader (b : β) (fp : FP κ β) : ∀ l ∈ benchLines b fp, isHeader l = false := by
  intro l hl
  unfold benchLines at hl
  split at hl
  · simp at hl
  · simp at hl; subst hl; rfl

theorem runLines_noHeader (k : κ) (fp : FP κ β) : ∀ l ∈ runLines benchOf k fp, isHeader l = false := by
  intro l hl
  unfold runLines at hl
  split at hl
  · simp at hl
  · simp only [List.mem_append, List.mem_cons, List.not_mem_nil, or_false] at hl
    rcases hl with hl | rfl
    · exact benchLines_noHeader _ _ l hl
    · rfl

omit [DecidableEq κ] [DecidableEq β] in
theorem measLines_noHeader (k : κ) (rid : Nat) (dp : DP) :
    ∀ l ∈ measLines (β := β) k rid dp, isHeader l = false := by
  intro l hl
  unfold measLines at hl
  simp only [List.mem_map] at hl
  obtain ⟨m, _, rfl⟩ := hl
  rfl

omit [DecidableEq κ] [DecidableEq β] in
theorem headerCount_openLines (fp : FP κ β) :
    headerCount (openLines fp) = if fp.isOpen = false ∧ fp.content = [] then 1 else 0 := by
  unfold openLines
  cases hO : fp.isOpen
  · cases hc : fp.content <;> simp [headerCount_eq, sessionBlock, isHeader, List.filter_cons]
  · simp [headerCount_eq]

/-- the file has its column header exactly once unless it is still empty; an
open file is never empty -/
def HdrOK (fp : FP κ β) : Prop :=
  (fp.content = [] ∨ headerCount fp.content = 1) ∧ (fp.isOpen = true → fp.content ≠ [])

theorem persist_isOpen (k : κ) (dp : DP) (fp : FP κ β) : (persist benchOf k dp fp).isOpen = true := by
  unfold persist ensureRun ensureBench
  have := openFile_isOpen fp
  cases h1 : (openFile fp).runDict.lookup k <;> cases h2 : (openFile fp).benchDict.lookup (benchOf k) <;> simp [this]

theorem persist_hdrOK (k : κ) (dp : DP) (fp : FP κ β) (h : HdrOK fp) :
    HdrOK (persist benchOf k dp fp) := by
  obtain ⟨h1, h2⟩ := h
  have hne : (persist benchOf k dp fp).content ≠ [] := by
    rw [persist_content']
    cases hO : fp.isOpen
    · simp [openLines, hO, sessionBlock]
    · have := h2 hO; simp [this]
  refine ⟨Or.inr ?_, fun _ => hne⟩
  rw [persist_content', headerCount_append, headerCount_append, headerCount_append,
      headerCount_zero _ (runLines_noHeader benchOf k _), headerCount_zero _ (measLines_noHeader _ _ _),
      headerCount_openLines]
  rcases h1 with h1 | h1
  · have hO : fp.isOpen = false := by
      cases hO : fp.isOpen
      · rfl
      · exact absurd h1 (h2 hO)
    simp [h1, hO, headerCount_eq]
  · have : fp.content ≠ [] := by
      intro e; rw [e] at h1; simp [headerCount_eq] at h1
    simp [h1, this]

/-! ### metadata precedes measurements -/

/-- built line by line: a run record needs its benchmark record before it, a
measurement line the run record carrying its run id -/
inductive MetaOK : List (Line κ β) → Prop
  | nil : MetaOK []
  | sess (c i) : MetaOK c → MetaOK (c ++ [.sess i])
  | header (c) : MetaOK c → MetaOK (c ++ [.header])
  | bench (c id b) : MetaOK c → MetaOK (c ++ [.bench id b])
  | run (c id bid k) : MetaOK c → .bench bid (benchOf k) ∈ c → MetaOK (c ++ [.run id bid k])
  | meas (c inv it m k rid) : MetaOK c → (∃ bid, .run rid bid k ∈ c) → MetaOK (c ++ [.meas inv it m k rid])

theorem snoc_eq_append_cons {α : Type} {c : List α} {x : α} {pre : List α} {L : α} {post : List α}
    (h : c ++ [x] = pre ++ L :: post) :
    (post = [] ∧ pre = c ∧ x = L) ∨ (∃ p, post = p ++ [x] ∧ c = pre ++ L :: p) := by
  rcases List.eq_nil_or_concat post with rfl | ⟨p, y, rfl⟩
  · left
    have := List.append_inj' h rfl
    simp_all
  · right
    have h' : c ++ [x] = (pre ++ L :: p) ++ [y] := by simp [h]
    have := List.append_inj' h' rfl
    refine ⟨p, ?_, this.1⟩
    simp_all

omit [DecidableEq κ] [DecidableEq β] in
theorem MetaOK.run_spec {c : List (Line κ β)} (h : MetaOK benchOf c) :
    ∀ pre post id bid k, c = pre ++ .run id bid k :: post → .bench bid (benchOf k) ∈ pre := by
  induction h with
  | nil => intro pre post id bid k h; simp at h
  | sess c i _ ih | header c _ ih | bench c id b _ ih | meas c inv it m k rid _ _ ih =>
    intro pre post id' bid' k' h
    rcases snoc_eq_append_cons h with ⟨_, _, h3⟩ | ⟨p, _, h2⟩
    · cases h3
    · exact ih _ _ _ _ _ h2
  | run c id bid k _ hb ih =>
    intro pre post id' bid' k' h
    rcases snoc_eq_append_cons h with ⟨_, h2, h3⟩ | ⟨p, _, h2⟩
    · cases h3; subst h2; exact hb
    · exact ih _ _ _ _ _ h2

omit [DecidableEq κ] [DecidableEq β] in
theorem MetaOK.meas_run {c : List (Line κ β)} (h : MetaOK benchOf c) :
    ∀ pre post inv it m k rid, c = pre ++ .meas inv it m k rid :: post → ∃ bid, .run rid bid k ∈ pre := by
  induction h with
  | nil => intro pre post inv it m k rid h; simp at h
  | sess c i _ ih | header c _ ih | bench c id b _ ih | run c id bid k _ _ ih =>
    intro pre post inv' it' m' k' rid' h
    rcases snoc_eq_append_cons h with ⟨_, _, h3⟩ | ⟨p, _, h2⟩
    · cases h3
    · exact ih _ _ _ _ _ _ _ h2
  | meas c inv it m k rid _ hr ih =>
    intro pre post inv' it' m' k' rid' h
    rcases snoc_eq_append_cons h with ⟨_, h2, h3⟩ | ⟨p, _, h2⟩
    · cases h3; subst h2; exact hr
    · exact ih _ _ _ _ _ _ _ h2

omit [DecidableEq κ] [DecidableEq β] in
theorem MetaOK.meas_spec {c : List (Line κ β)} (h : MetaOK benchOf c)
    (pre post : List (Line κ β)) (inv it : Nat) (m : Meas) (k : κ) (rid : Nat)
    (hc : c = pre ++ .meas inv it m k rid :: post) :
    ∃ bid, .run rid bid k ∈ pre ∧ .bench bid (benchOf k) ∈ pre := by
  obtain ⟨bid, hr⟩ := h.meas_run benchOf pre post inv it m k rid hc
  refine ⟨bid, hr, ?_⟩
  obtain ⟨p1, p2, rfl⟩ := List.append_of_mem hr
  have := h.run_spec benchOf p1 (p2 ++ .meas inv it m k rid :: post) rid bid k (by simp [hc])
  simp [this]

def isOther : Line κ β → Bool
  | .run .. => false
  | .meas .. => false
  | _ => true

omit [DecidableEq κ] [DecidableEq β] in
theorem MetaOK.append_other {c : List (Line κ β)} (h : MetaOK benchOf c) (ls : List (Line κ β))
    (ho : ∀ l ∈ ls, isOther l = true) : MetaOK benchOf (c ++ ls) := by
  induction ls generalizing c with
  | nil => simpa using h
  | cons l ls ih =>
    have : c ++ l :: ls = (c ++ [l]) ++ ls := by simp
    rw [this]
    apply ih _ (fun x hx => ho x (by simp [hx]))
    have hl := ho l (by simp)
    cases l with
    | sess i => exact .sess c i h
    | header => exact .header c h
    | bench id b => exact .bench c id b h
    | run => simp [isOther] at hl
    | meas => simp [isOther] at hl

omit [DecidableEq κ] [DecidableEq β] in
theorem MetaOK.append_meas {c : List (Line κ β)} (h : MetaOK benchOf c) (k : κ) (rid : Nat) (dp : DP)
    (hr : ∃ bid, .run rid bid k ∈ c) : MetaOK benchOf (c ++ measLines k rid dp) := by
  unfold measLines
  induction dp.ms generalizing c with
  | nil => simpa using h
  | cons m ms ih =>
    have : c ++ List.map (fun m => Line.meas dp.inv dp.it m k rid) (m :: ms)
        = (c ++ [.meas dp.inv dp.it m k rid]) ++ List.map (fun m => Line.meas dp.inv dp.it m k rid) ms := by simp
    rw [this]
    apply ih (.meas c _ _ _ _ _ h hr)
    obtain ⟨bid, hb⟩ := hr
    exact ⟨bid, by simp [hb]⟩

/-- every dictionary entry has its record in the file -/
def DictOK (fp : FP κ β) : Prop :=
  (∀ k id, fp.runDict.lookup k = some id → ∃ bid, .run id bid k ∈ fp.content) ∧
  (∀ b id, fp.benchDict.lookup b = some id → .bench id b ∈ fp.content)

omit [DecidableEq κ] [DecidableEq β] in
theorem openLines_other (fp : FP κ β) : ∀ l ∈ openLines fp, isOther l = true := by
  intro l hl
  unfold openLines at hl
  split at hl
  · simp at hl
  · simp only [sessionBlock, List.mem_append, List.mem_cons, List.not_mem_nil, or_false] at hl
    rcases hl with (rfl | rfl | rfl | rfl) | hl
    · rfl
    · rfl
    · rfl
    · rfl
    · split at hl
      · simp at hl; subst hl; rfl
      · simp at hl

theorem openFile_metaOK (fp : FP κ β) (h : MetaOK benchOf fp.content) (hd : DictOK fp) :
    MetaOK benchOf (openFile fp).content ∧ DictOK (openFile fp) := by
  have hc : (openFile fp).content = fp.content ++ openLines fp := by
    rw [openFile_content]; rfl
  refine ⟨by rw [hc]; exact h.append_other benchOf _ (openLines_other fp), ?_, ?_⟩
  · intro k id hk
    rw [(openFile_dicts fp).1] at hk
    obtain ⟨bid, hb⟩ := hd.1 k id hk
    exact ⟨bid, by rw [hc]; simp [hb]⟩
  · intro b id hk
    rw [(openFile_dicts fp).2] at hk
    have := hd.2 b id hk
    rw [hc]; simp [this]

theorem ensureBench_metaOK (b : β) (fp : FP κ β) (h : MetaOK benchOf fp.content) (hd : DictOK fp) :
    MetaOK benchOf (ensureBench b fp).2.content ∧ DictOK (ensureBench b fp).2 ∧
      .bench (ensureBench b fp).1 b ∈ (ensureBench b fp).2.content := by
  unfold ensureBench
  cases hl : fp.benchDict.lookup b with
  | some id => exact ⟨h, hd, hd.2 b id hl⟩
  | none =>
    refine ⟨.bench _ _ _ h, ⟨?_, ?_⟩, by simp⟩
    · intro k id hk
      obtain ⟨bid, hb⟩ := hd.1 k id hk
      exact ⟨bid, by simp [hb]⟩
    · intro b' id hk
      simp only [List.lookup_append] at hk
      cases hl' : fp.benchDict.lookup b' with
      | some v =>
        simp [hl'] at hk; subst hk
        have := hd.2 b' v hl'
        simp [this]
      | none =>
        simp only [hl', Option.none_or, List.lookup_cons, List.lookup_nil] at hk
        split at hk
        · rename_i heq
          have : b' = b := by simpa using heq
          subst this
          cases hk; simp
        · cases hk

theorem ensureRun_metaOK (k : κ) (fp : FP κ β) (h : MetaOK benchOf fp.content) (hd : DictOK fp) :
    MetaOK benchOf (ensureRun benchOf k fp).2.content ∧ DictOK (ensureRun benchOf k fp).2 ∧
      ∃ bid, .run (ensureRun benchOf k fp).1 bid k ∈ (ensureRun benchOf k fp).2.content := by
  unfold ensureRun
  cases hl : fp.runDict.lookup k with
  | some id => exact ⟨h, hd, hd.1 k id hl⟩
  | none =>
    obtain ⟨h1, hd1, hb⟩ := ensureBench_metaOK benchOf (benchOf k) fp h hd
    refine ⟨.run _ _ _ _ h1 hb, ⟨?_, ?_⟩, ⟨(ensureBench (benchOf k) fp).1, by simp⟩⟩
    · intro k' id hk
      simp only [ensureBench_runDict, List.lookup_append] at hk
      cases hl' : fp.runDict.lookup k' with
      | some v =>
        simp [hl'] at hk; subst hk
        rw [← ensureBench_runDict (benchOf k) fp] at hl'
        obtain ⟨bid, hb'⟩ := hd1.1 k' v hl'
        exact ⟨bid, by simp [hb']⟩
      | none =>
        simp only [hl', Option.none_or, List.lookup_cons, List.lookup_nil] at hk
        split at hk
        · rename_i heq
          have : k' = k := by simpa using heq
          subst this
          cases hk; exact ⟨(ensureBench (benchOf k') fp).1, by simp⟩
        · cases hk
    · intro b' id hk
      have := hd1.2 b' id hk
      simp [this]

theorem persist_metaOK (k : κ) (dp : DP) (fp : FP κ β) (h : MetaOK benchOf fp.content) (hd : DictOK fp) :
    MetaOK benchOf (persist benchOf k dp fp).content ∧ DictOK (persist benchOf k dp fp) := by
  obtain ⟨h0, hd0⟩ := openFile_metaOK benchOf fp h hd
  obtain ⟨h1, hd1, hr⟩ := ensureRun_metaOK benchOf k (openFile fp) h0 hd0
  unfold persist
  refine ⟨h1.append_meas benchOf k _ dp hr, ?_, ?_⟩
  · intro k' id hk
    obtain ⟨bid, hb⟩ := hd1.1 k' id hk
    exact ⟨bid, by simp [hb]⟩
  · intro b id hk
    have := hd1.2 b id hk
    simp [this]

/-! ### the loader reads back what the writer wrote (identity round trip of keys) -/

theorem loadFrom_append (rtK : κ → κ) (rtB : β → β) (st : Tables κ β × List (Loaded κ))
    (a b : List (Line κ β)) :
    loadFrom rtK rtB st (a ++ b) =
      (match loadFrom rtK rtB st a with
       | .ok st' => loadFrom rtK rtB st' b
       | .error e => .error e) := by
  induction a generalizing st with
  | nil => simp [loadFrom]
  | cons l ls ih =>
    simp only [List.cons_append, loadFrom]
    cases loadLine rtK rtB st l with
    | ok st' => simp [ih]
    | error e => simp

/-- writer state and loader state agree; the dictionaries are the id lists with positions -/
structure Sim (fp : FP κ β) (T : Tables κ β) : Prop where
  run : T.runDict = fp.runDict
  bench : T.benchDict = fp.benchDict
  wfR : T.runDict = T.idToRun.zipIdx
  wfB : T.benchDict = T.idToBench.zipIdx

theorem lookup_zipIdx_some {α : Type} [DecidableEq α] {l : List α} {a : α} {i : Nat}
    (h : (l.zipIdx).lookup a = some i) : l[i]? = some a := by
  obtain ⟨l1, l2, he, _⟩ := List.lookup_eq_some_iff.mp h
  have : (a, i) ∈ l.zipIdx := by rw [he]; simp
  exact List.mem_zipIdx_iff_getElem?.mp this

theorem load_other (ls : List (Line κ β)) (st : Tables κ β × List (Loaded κ))
    (h : ∀ l ∈ ls, (∃ i, l = .sess i) ∨ l = .header) :
    loadFrom (fun x => x) (fun x => x) st ls = .ok st := by
  induction ls with
  | nil => rfl
  | cons l ls ih =>
    have hl := h l (by simp)
    have := ih (fun x hx => h x (by simp [hx]))
    rcases hl with ⟨i, rfl⟩ | rfl <;> simp [loadFrom, loadLine, this]

omit [DecidableEq κ] [DecidableEq β] in
theorem openLines_sess (fp : FP κ β) : ∀ l ∈ openLines fp, (∃ i, l = .sess i) ∨ l = .header := by
  intro l hl
  unfold openLines at hl
  split at hl
  · simp at hl
  · simp only [sessionBlock, List.mem_append, List.mem_cons, List.not_mem_nil, or_false] at hl
    rcases hl with (rfl | rfl | rfl | rfl) | hl
    · exact .inl ⟨_, rfl⟩
    · exact .inl ⟨_, rfl⟩
    · exact .inl ⟨_, rfl⟩
    · exact .inl ⟨_, rfl⟩
    · split at hl
      · simp at hl; exact .inr hl
      · simp at hl

theorem load_benchLines (b : β) (fp : FP κ β) (T : Tables κ β) (ls : List (Loaded κ)) (hs : Sim fp T) :
    ∃ T', loadFrom (fun x => x) (fun x => x) (T, ls) (benchLines b fp) = .ok (T', ls) ∧
      Sim (ensureBench b fp).2 T' ∧ T'.idToRun = T.idToRun ∧
      T'.idToBench[(ensureBench b fp).1]? = some b := by
  unfold benchLines ensureBench
  cases hl : fp.benchDict.lookup b with
  | some id =>
    refine ⟨T, by simp [loadFrom], hs, rfl, ?_⟩
    apply lookup_zipIdx_some
    rw [← hs.wfB, hs.bench]; exact hl
  | none =>
    have hlen : T.idToBench.length = fp.benchDict.length := by
      rw [← hs.bench, hs.wfB]; simp
    have hl' : T.benchDict.lookup b = none := by rw [hs.bench]; exact hl
    refine ⟨{ T with benchDict := T.benchDict ++ [(b, fp.benchDict.length)], idToBench := T.idToBench ++ [b] },
            ?_, ⟨?_, ?_, ?_, ?_⟩, rfl, ?_⟩
    · simp [loadFrom, loadLine, hl', hlen, dictSet]
    · simp [hs.run]
    · simp [hs.bench]
    · simp [hs.wfR]
    · simp [List.zipIdx_append, hs.wfB, hlen]
    · simp [← hlen]

theorem load_runLines (k : κ) (fp : FP κ β) (T : Tables κ β) (ls : List (Loaded κ)) (hs : Sim fp T) :
    ∃ T', loadFrom (fun x => x) (fun x => x) (T, ls) (runLines benchOf k fp) = .ok (T', ls) ∧
      Sim (ensureRun benchOf k fp).2 T' ∧
      T'.idToRun[(ensureRun benchOf k fp).1]? = some k := by
  unfold runLines ensureRun
  cases hl : fp.runDict.lookup k with
  | some id =>
    refine ⟨T, by simp [loadFrom], hs, ?_⟩
    apply lookup_zipIdx_some
    rw [← hs.wfR, hs.run]; exact hl
  | none =>
    obtain ⟨T1, h1, hs1, hr1, hb1⟩ := load_benchLines (benchOf k) fp T ls hs
    have hlen : T1.idToRun.length = fp.runDict.length := by
      rw [hr1, ← hs.run, hs.wfR]; simp
    have hl' : T1.runDict.lookup k = none := by
      rw [hs1.run, ensureBench_runDict]; exact hl
    have hbid : (ensureBench (benchOf k) fp).1 < T1.idToBench.length := by
      have := (List.getElem?_eq_some_iff.mp hb1).1
      exact this
    refine ⟨{ T1 with runDict := T1.runDict ++ [(k, fp.runDict.length)], idToRun := T1.idToRun ++ [k] },
            ?_, ⟨?_, ?_, ?_, ?_⟩, ?_⟩
    · rw [loadFrom_append, h1]
      simp [loadFrom, loadLine, hl', hlen, dictSet, Nat.not_le.mpr hbid]
    · simp [hs1.run, ensureBench_runDict]
    · simp [hs1.bench]
    · simp [List.zipIdx_append, hs1.wfR, hlen]
    · simp [hs1.wfB]
    · simp [← hlen]

theorem load_measLines (k : κ) (rid : Nat) (dp : DP) (T : Tables κ β) (ls : List (Loaded κ))
    (h : T.idToRun[rid]? = some k) :
    loadFrom (fun x => x) (fun x => x) (T, ls) (measLines k rid dp) = .ok (T, ls ++ totalsOf k dp) := by
  unfold measLines totalsOf
  induction dp.ms generalizing ls with
  | nil => simp [loadFrom]
  | cons m ms ih =>
    simp only [List.map_cons, loadFrom, loadLine]
    by_cases hv : m.value.loads = true
    · by_cases hc : m.crit = "total"
      · simp [hv, hc, h, ih, List.filter_cons]
      · simp [hv, hc, h, ih, List.filter_cons]
    · simp [hv, ih, List.filter_cons]

theorem load_persist_step (k : κ) (dp : DP) (fp : FP κ β) (T : Tables κ β) (ls : List (Loaded κ))
    (hs : Sim fp T)
    (hload : load (fun x => x) (fun x => x) fp.content = .ok (T, ls)) :
    ∃ T', load (fun x => x) (fun x => x) (persist benchOf k dp fp).content = .ok (T', ls ++ totalsOf k dp) ∧
      Sim (persist benchOf k dp fp) T' := by
  have hs0 : Sim (openFile fp) T :=
    ⟨by rw [(openFile_dicts fp).1]; exact hs.run, by rw [(openFile_dicts fp).2]; exact hs.bench, hs.wfR, hs.wfB⟩
  obtain ⟨T1, h1, hs1, hr1⟩ := load_runLines benchOf k (openFile fp) T ls hs0
  refine ⟨T1, ?_, ?_⟩
  · unfold load at hload ⊢
    rw [persist_content', loadFrom_append, loadFrom_append, hload]
    simp only
    rw [loadFrom_append, load_other _ _ (openLines_sess fp)]
    simp only
    rw [h1]
    simp only
    exact load_measLines k _ dp T1 ls hr1
  · unfold persist
    exact ⟨hs1.run, hs1.bench, hs1.wfR, hs1.wfB⟩

/-! ### ids of the metadata records -/

omit [DecidableEq κ] [DecidableEq β] in
theorem runIds_append (a b : List (Line κ β)) : runIds (a ++ b) = runIds a ++ runIds b := by
  simp [runIds]

omit [DecidableEq κ] [DecidableEq β] in
theorem benchIds_append (a b : List (Line κ β)) : benchIds (a ++ b) = benchIds a ++ benchIds b := by
  simp [benchIds]

/-- ids are `0,1,2,…` and the dictionaries have as many entries as there are records -/
def IdsOK (fp : FP κ β) : Prop :=
  runIds fp.content = List.range fp.runDict.length ∧ benchIds fp.content = List.range fp.benchDict.length

omit [DecidableEq κ] [DecidableEq β] in
theorem ids_openLines (fp : FP κ β) : runIds (openLines fp) = [] ∧ benchIds (openLines fp) = [] := by
  unfold openLines
  cases fp.isOpen <;> cases fp.content <;> simp [runIds, benchIds, sessionBlock]

omit [DecidableEq κ] [DecidableEq β] in
theorem ids_measLines (k : κ) (rid : Nat) (dp : DP) :
    runIds (measLines (β := β) k rid dp) = [] ∧ benchIds (measLines (β := β) k rid dp) = [] := by
  unfold measLines
  induction dp.ms with
  | nil => simp [runIds, benchIds]
  | cons m ms ih => simp_all [runIds, benchIds]

theorem persist_idsOK (k : κ) (dp : DP) (fp : FP κ β) (h : IdsOK fp) :
    IdsOK (persist benchOf k dp fp) := by
  obtain ⟨hr, hb⟩ := h
  unfold IdsOK
  rw [persist_content']
  simp only [runIds_append, benchIds_append, (ids_openLines fp).1, (ids_openLines fp).2,
    (ids_measLines _ _ _).1, (ids_measLines _ _ _).2, List.append_nil, List.nil_append, hr, hb]
  have hd := openFile_dicts fp
  unfold persist ensureRun runLines benchLines ensureBench
  cases h1 : (openFile fp).runDict.lookup k with
  | some id => simp [runIds, benchIds, hd.1, hd.2]
  | none =>
    cases h2 : (openFile fp).benchDict.lookup (benchOf k) with
    | some id => simp [runIds, benchIds, hd.1, hd.2, List.range_succ]
    | none => simp [runIds, benchIds, hd.1, hd.2, List.range_succ]

/-! ### the invariant of a file under any number of sessions -/

/-- state of a `_FilePersistence` during a session -/
structure Inv (fp : FP κ β) : Prop where
  hdr : HdrOK fp
  md : MetaOK benchOf fp.content
  dict : DictOK fp
  ids : IdsOK fp
  sim : ∃ T ls, load (fun x => x) (fun x => x) fp.content = .ok (T, ls) ∧ Sim fp T

theorem persist_inv (k : κ) (dp : DP) (fp : FP κ β) (h : Inv benchOf fp) :
    Inv benchOf (persist benchOf k dp fp) := by
  obtain ⟨T, ls, hl, hs⟩ := h.sim
  obtain ⟨T', hl', hs'⟩ := load_persist_step benchOf k dp fp T ls hs hl
  exact ⟨persist_hdrOK benchOf k dp fp h.hdr, (persist_metaOK benchOf k dp fp h.md h.dict).1,
         (persist_metaOK benchOf k dp fp h.md h.dict).2, persist_idsOK benchOf k dp fp h.ids,
         ⟨T', _, hl', hs'⟩⟩

theorem writeOps_inv (ops : List (κ × DP)) (fp : FP κ β) (h : Inv benchOf fp) :
    Inv benchOf (writeOps benchOf ops fp) := by
  unfold writeOps
  induction ops generalizing fp with
  | nil => exact h
  | cons op ops ih => exact ih _ (persist_inv benchOf op.1 op.2 fp h)

/-- what holds of the contents of a file between sessions -/
structure Good (c : List (Line κ β)) : Prop where
  hdr : c = [] ∨ headerCount c = 1
  md : MetaOK benchOf c
  loads : ∃ T ls, load (fun x => x) (fun x => x) c = .ok (T, ls) ∧
    T.runDict = T.idToRun.zipIdx ∧ T.benchDict = T.idToBench.zipIdx ∧
    runIds c = List.range T.runDict.length ∧ benchIds c = List.range T.benchDict.length ∧
    DictOK (FP.ofTables c T)

theorem good_of_inv (fp : FP κ β) (h : Inv benchOf fp) : Good benchOf fp.content := by
  obtain ⟨T, ls, hl, hs⟩ := h.sim
  refine ⟨h.hdr.1, h.md, T, ls, hl, hs.wfR, hs.wfB, ?_, ?_, ?_⟩
  · rw [hs.run]; exact h.ids.1
  · rw [hs.bench]; exact h.ids.2
  · unfold DictOK FP.ofTables
    simp only [hs.run, hs.bench]
    exact h.dict

theorem inv_ofTables (c : List (Line κ β)) (T : Tables κ β) (ls : List (Loaded κ))
    (h : Good benchOf c) (hl : load (fun x => x) (fun x => x) c = .ok (T, ls)) :
    Inv benchOf (FP.ofTables c T) := by
  obtain ⟨T', ls', hl', h1, h2, h3, h4, h5⟩ := h.loads
  rw [hl] at hl'
  cases hl'
  refine ⟨⟨h.hdr, by simp [FP.ofTables]⟩, h.md, h5, ⟨h3, h4⟩, T, ls, hl, ⟨rfl, rfl, h1, h2⟩⟩

theorem good_nil : Good benchOf ([] : List (Line κ β)) := by
  refine ⟨.inl rfl, .nil, emptyTables, [], rfl, rfl, rfl, rfl, rfl, ?_, ?_⟩ <;>
    intro _ _ h <;> simp [FP.ofTables, emptyTables] at h

theorem reach_good {c : List (Line κ β)} (h : Reach benchOf c) : Good benchOf c := by
  induction h with
  | empty => exact good_nil benchOf
  | session c T ls ops _ hl ih =>
    exact good_of_inv benchOf _ (writeOps_inv benchOf ops _ (inv_ofTables benchOf c T ls ih hl))

end RB.DataFile
