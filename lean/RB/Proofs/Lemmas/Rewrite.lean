/-
Helper lemmas about the rewrite model (`RB/Model/Rewrite.lean`).
-/
import RB.Model.Rewrite
import RB.Proofs.Lemmas.Loader

namespace RB.Rewrite
open RB.Loader

/-! ### the run-id table only grows -/

/-- `b` extends `a` at the end -/
def Ext (a b : List Nat) : Prop := ∃ e, b = a ++ e

theorem Ext.refl (a : List Nat) : Ext a a := ⟨[], by simp⟩
theorem Ext.trans {a b c : List Nat} (h1 : Ext a b) (h2 : Ext b c) : Ext a c := by
  obtain ⟨e1, rfl⟩ := h1; obtain ⟨e2, rfl⟩ := h2; exact ⟨e1 ++ e2, by simp⟩

theorem Ext.lookup {a b : List Nat} (h : Ext a b) {i k : Nat} (hk : a[i]? = some k) : b[i]? = some k := by
  obtain ⟨e, rfl⟩ := h
  have hi : i < a.length := by
    rcases Nat.lt_or_ge i a.length with h | h
    · exact h
    · rw [List.getElem?_eq_none h] at hk; cases hk
  rw [List.getElem?_append_left hi]; exact hk

theorem tolerate_eq {b : Bool} {st st' : LState} {e : Exc} (h : tolerate b st e = .ok st') : st' = st :=
  tolerate_loaded h

theorem stepMeas_runs {st st' : LState} {m : Meas} (h : stepMeas st m = .ok st') : st'.runs = st.runs := by
  cases hr : st.runs[m.runIdx]? with
  | none => unfold stepMeas at h; rw [hr] at h; cases h
  | some r =>
    rw [stepMeas_eq st m r hr] at h
    split at h
    · cases h
    · split at h <;> (cases h; rfl)

theorem step_runs_ext {v : Variant} {st st' : LState} {r : Rec} (h : step v st r = .ok st') :
    Ext st.runs st'.runs := by
  cases r with
  | session => simp only [step] at h; cases h; simp [Ext.refl]
  | comment => simp only [step] at h; cases h; simp [Ext.refl]
  | header => simp only [step] at h; cases h; exact Ext.refl _
  | bench id key =>
    simp only [step] at h
    split at h
    · cases h
    · split at h
      · cases h
      · cases h; simp [Ext.refl]
  | run id bid key =>
    simp only [step] at h
    split at h
    · split at h
      · cases h
      · cases h; exact ⟨[key], by simp⟩
    · rw [tolerate_eq h]; simp [Ext.refl]
  | metaErr e => simp only [step] at h; rw [tolerate_eq h]; simp [Ext.refl]
  | meas m => simp only [step] at h; rw [stepMeas_runs h]; exact Ext.refl _
  | dataErr e => simp only [step] at h; rw [tolerate_eq h]; exact Ext.refl _

/-- the lines the specification keeps: everything except measurements of selected runs
(under the final run-id table `R`) and damaged data lines -/
def keepSpec (R : List Nat) (sel : List Nat) (l : FLine) : Bool :=
  !(selectedLine R sel l.cls) && !(damaged l.cls)

/-- no data point of a selected run has been handed to the run objects -/
def NoSel (sel : List Nat) (loaded : List DP) : Prop := ∀ d ∈ loaded, sel.contains d.run = false

theorem stepMeas_loaded {st st' : LState} {m : Meas} {k : Nat} (hk : st.runs[m.runIdx]? = some k)
    (h : stepMeas st m = .ok st') : st'.loaded = st.loaded ∨ ∃ d, d.run = k ∧ st'.loaded = st.loaded ++ [d] := by
  rw [stepMeas_eq st m k hk] at h
  split at h
  · cases h
  · split at h
    · cases h; exact Or.inr ⟨_, rfl, rfl⟩
    · cases h; exact Or.inl rfl

/-- one line of the filter: the table grows, the decision is the specification's, no selected
run's data point is loaded -/
theorem fstep_spec {lv : Variant} {profile : Bool} {sel : List Nat} {st st' : LState} {l : FLine} {keep : Bool}
    (h : fstep lv RVariant.repaired profile sel st l = .ok (st', keep)) :
    Ext st.runs st'.runs ∧ (∀ R, Ext st'.runs R → keep = keepSpec R sel l)
      ∧ (NoSel sel st.loaded → NoSel sel st'.loaded) := by
  unfold fstep at h
  cases hc : l.cls with
  | header =>
    simp only [hc] at h; cases h
    exact ⟨Ext.refl _, fun R _ => by simp [keepSpec, selectedLine, lineRun, damaged, hc, RVariant.repaired], id⟩
  | dataErr e =>
    simp only [hc] at h
    cases ht : tolerate true st e with
    | error x => rw [ht] at h; cases h
    | ok s =>
      rw [ht] at h; cases h
      rw [tolerate_eq ht]
      exact ⟨Ext.refl _, fun R _ => by simp [keepSpec, damaged, hc], id⟩
  | meas m =>
    simp only [hc] at h
    cases hr : st.runs[m.runIdx]? with
    | none => rw [hr] at h; cases h
    | some k =>
      rw [hr] at h
      simp only at h
      by_cases hs : sel.contains k = true
      · rw [if_pos hs] at h
        have : (profile && !RVariant.repaired.profileReturnsPair) = false := by simp [RVariant.repaired]
        simp only [this, Bool.false_eq_true, ↓reduceIte] at h
        cases h
        refine ⟨Ext.refl _, fun R hR => ?_, id⟩
        have hs' : k ∈ sel := by simpa using hs
        simp [keepSpec, selectedLine, lineRun, hc, hR.lookup hr, hs']
      · rw [if_neg hs] at h
        cases hm : stepMeas st m with
        | error x => rw [hm] at h; cases h
        | ok s =>
          rw [hm] at h; cases h
          refine ⟨by rw [stepMeas_runs hm]; exact Ext.refl _, fun R hR => ?_, fun hn => ?_⟩
          · have hl : R[m.runIdx]? = some k := hR.lookup (by rw [stepMeas_runs hm]; exact hr)
            have hs' : k ∉ sel := by simpa using hs
            simp [keepSpec, selectedLine, lineRun, hc, hl, hs', damaged]
          · rcases stepMeas_loaded hr hm with hl | ⟨d, hd, hl⟩
            · rw [hl]; exact hn
            · rw [hl]; intro d' hd'
              rcases List.mem_append.mp hd' with h1 | h1
              · exact hn d' h1
              · simp only [List.mem_singleton] at h1; subst h1; rw [hd]; simpa using hs
  | session | comment | bench _ _ | run _ _ _ | metaErr _ =>
    simp only [hc] at h
    split at h
    next s hs =>
      cases h
      refine ⟨step_runs_ext hs, fun R _ => by simp [keepSpec, selectedLine, lineRun, damaged, hc], fun hn => ?_⟩
      rw [step_loaded_of_not_total (by simp [isTotal]) hs]; exact hn
    next e _ => cases h

theorem filterFrom_spec {lv : Variant} {profile : Bool} {sel : List Nat} :
    ∀ (ls : List FLine) (st st' : LState) (out : List Text),
      filterFrom lv RVariant.repaired profile sel st ls = .ok (st', out) →
      Ext st.runs st'.runs ∧ (∀ R, Ext st'.runs R → out = (ls.filter (keepSpec R sel)).map FLine.text)
        ∧ (NoSel sel st.loaded → NoSel sel st'.loaded) := by
  intro ls
  induction ls with
  | nil =>
    intro st st' out h
    simp only [filterFrom] at h; cases h
    exact ⟨Ext.refl _, fun R _ => rfl, id⟩
  | cons l ls ih =>
    intro st st' out h
    simp only [filterFrom] at h
    cases h1 : fstep lv RVariant.repaired profile sel st l with
    | error e => rw [h1] at h; cases h
    | ok p =>
      obtain ⟨st1, keep⟩ := p
      rw [h1] at h
      simp only at h
      cases h2 : filterFrom lv RVariant.repaired profile sel st1 ls with
      | error e => rw [h2] at h; cases h
      | ok q =>
        obtain ⟨st2, out2⟩ := q
        rw [h2] at h
        simp only [Except.ok.injEq, Prod.mk.injEq] at h
        obtain ⟨rfl, rfl⟩ := h
        obtain ⟨e1, k1, n1⟩ := fstep_spec h1
        obtain ⟨e2, k2, n2⟩ := ih st1 st2 out2 h2
        refine ⟨e1.trans e2, fun R hR => ?_, fun hn => n2 (n1 hn)⟩
        have hk := k1 R (e2.trans hR)
        have ho := k2 R hR
        rw [List.filter_cons, ← hk, ho]
        cases keep <;> simp

/-! ### `completed_invocations` of a run without loaded data points -/

theorem maxInv_of_no_dp (loaded : List DP) (r : Nat) (h : ∀ d ∈ loaded, d.run ≠ r) : maxInv loaded r = 0 := by
  unfold maxInv
  suffices ∀ (l : List DP) (m : Nat), (∀ d ∈ l, d.run ≠ r) →
      l.foldl (fun m d => if d.run = r then max m d.inv else m) m = m from this loaded 0 h
  intro l
  induction l with
  | nil => intro m _; rfl
  | cons d ds ih =>
    intro m hh
    simp only [List.foldl_cons]
    rw [if_neg (hh d (List.mem_cons_self ..))]
    exact ih m (fun d' hd' => hh d' (List.mem_cons_of_mem _ hd'))

theorem todo_all (loaded : List DP) (c : RunCfg) (h : maxInv loaded c.run = 0) :
    todo loaded c = (List.range c.invocations).map (· + 1) := by
  unfold todo
  rw [h]
  induction List.range c.invocations with
  | nil => rfl
  | cons a as ih => simp [List.filterMap_cons, ih]

/-! ### the abstract file system -/

theorem mem_crashStates_append (fs : FS) (a b : List Op) (s : Option Text) :
    s ∈ crashStates fs (a ++ b) ↔ s ∈ crashStates fs a ∨ s ∈ crashStates (fs.run a) b := by
  induction a generalizing fs with
  | nil =>
    simp only [List.nil_append, crashStates, List.mem_singleton, FS.run, List.foldl_nil]
    constructor
    · intro h; exact Or.inr h
    · rintro (h | h)
      · cases b <;> simp [crashStates, h]
      · exact h
  | cons o os ih =>
    simp only [List.cons_append, crashStates, List.mem_cons, FS.run, List.foldl_cons]
    rw [ih (fs.apply o)]
    simp only [FS.run]
    constructor
    · rintro (h | h | h)
      · exact Or.inl (Or.inl h)
      · exact Or.inl (Or.inr h)
      · exact Or.inr h
    · rintro ((h | h) | h)
      · exact Or.inl h
      · exact Or.inr (Or.inl h)
      · exact Or.inr (Or.inr h)

theorem run_append (fs : FS) (a b : List Op) : fs.run (a ++ b) = (fs.run a).run b := by
  simp [FS.run, List.foldl_append]

/-- while the temporary file is being written: the data file is inode 0 with the old content,
the temporary file is inode 1, open, and disk content + buffer = what was written so far -/
structure Writing (fs : FS) (old acc : Text) : Prop where
  data : fs.data = some 0
  tmp : fs.tmp = some 1
  len : fs.inodes.length = 2
  old : fs.inodes[0]? = some old
  h : ∃ disk buf, fs.inodes[1]? = some disk ∧ fs.handle = some (1, buf) ∧ disk ++ buf = acc

theorem Writing.content {fs : FS} {old acc : Text} (w : Writing fs old acc) : fs.content .data = some old := by
  simp [FS.content, FS.lookup, w.data, w.old]

theorem writing_flush {fs : FS} {old acc : Text} (w : Writing fs old acc) : Writing fs.flushH old acc := by
  obtain ⟨disk, buf, h1, h2, h3⟩ := w.h
  have hl := w.len
  unfold FS.flushH
  rw [h2]
  simp only [setAt]
  refine ⟨w.data, w.tmp, by simp [hl], ?_, ?_⟩
  · simp only
    rw [List.getElem?_set_ne (by decide)]; exact w.old
  · refine ⟨acc, [], ?_, rfl, by simp⟩
    simp only [h1, Option.getD_some, h3]
    rw [List.getElem?_set_self (by omega)]

theorem writing_write {fs : FS} {old acc : Text} (w : Writing fs old acc) (t : Text) :
    Writing (fs.apply (.write t)) old (acc ++ t) := by
  obtain ⟨disk, buf, h1, h2, h3⟩ := w.h
  have w' : Writing { fs with handle := some (1, buf ++ t) } old (acc ++ t) :=
    ⟨w.data, w.tmp, w.len, w.old, disk, buf ++ t, h1, rfl, by rw [← h3, List.append_assoc]⟩
  simp only [FS.apply, h2]
  split
  · exact writing_flush w'
  · exact w'

theorem writing_writes (old : Text) : ∀ (ws : List Text) (fs : FS) (acc : Text), Writing fs old acc →
    Writing (fs.run (ws.map Op.write)) old (acc ++ ws.flatten)
      ∧ ∀ s ∈ crashStates fs (ws.map Op.write), s = some old := by
  intro ws
  induction ws with
  | nil =>
    intro fs acc w
    refine ⟨by simpa [FS.run] using w, ?_⟩
    intro s hs
    simp only [List.map_nil, crashStates, List.mem_singleton] at hs
    rw [hs]; exact w.content
  | cons t ts ih =>
    intro fs acc w
    obtain ⟨w2, hs2⟩ := ih (fs.apply (.write t)) (acc ++ t) (writing_write w t)
    refine ⟨by simpa [FS.run, List.append_assoc] using w2, ?_⟩
    intro s hs
    simp only [List.map_cons, crashStates, List.mem_cons] at hs
    rcases hs with hs | hs
    · rw [hs]; exact w.content
    · exact hs2 s hs

end RB.Rewrite
