/-
Helper lemmas about the rewrite model (`RB/Model/Rewrite.lean`).
-/
import RB.Model.Rewrite
import RB.Proofs.Lemmas.Loader

namespace RB.Rewrite
open RB.Loader

/-! ### the run-id table only grows -/

/-- `b` extends `a` at the end -/
def Ext (a b : List Nat) : Prop := ∃ e, b = a ++ e

theorem Ext.refl (a : List Nat) : Ext a a := ⟨[], by simp⟩
theorem Ext.trans {a b c : List Nat} (h1 : Ext a b) (h2 : Ext b c) : Ext a c := by
  obtain ⟨e1, rfl⟩ := h1; obtain ⟨e2, rfl⟩ := h2; exact ⟨e1 ++ e2, by simp⟩

theorem Ext.lookup {a b : List Nat} (h : Ext a b) {i k : Nat} (hk : a[i]? = some k) : b[i]? = some k := by
  obtain ⟨e, rfl⟩ := h
  have hi : i < a.length := by
    rcases Nat.lt_or_ge i a.length with h | h
    · exact h
    · rw [List.getElem?_eq_none h] at hk; cases hk
  rw [List.getElem?_append_left hi]; exact hk

theorem tolerate_eq {b : Bool} {st st' : LState} {e : Exc} (h : tolerate b st e = .ok st') : st' = st :=
  tolerate_loaded h

theorem stepMeas_runs {st st' : LState} {m : Meas} (h : stepMeas st m = .ok st') : st'.runs = st.runs := by
  cases hr : st.runs[m.runIdx]? with
  | none => unfold stepMeas at h; rw [hr] at h; cases h
  | some r =>
    rw [stepMeas_eq st m r hr] at h
    split at h
    · cases h
    · split at h <;> (cases h; rfl)

theorem step_runs_ext {v : Variant} {st st' : LState} {r : Rec} (h : step v st r = .ok st') :
    Ext st.runs st'.runs := by
  cases r with
  | session => simp only [step] at h; cases h; simp [Ext.refl]
  | comment => simp only [step] at h; cases h; simp [Ext.refl]
  | header => simp only [step] at h; cases h; exact Ext.refl _
  | bench id key =>
    simp only [step] at h
    split at h
    · cases h
    · split at h
      · cases h
      · cases h; simp [Ext.refl]
  | run id bid key =>
    simp only [step] at h
    split at h
    · split at h
      · cases h
      · cases h; exact ⟨[key], by simp⟩
    · rw [tolerate_eq h]; simp [Ext.refl]
  | metaErr e => simp only [step] at h; rw [tolerate_eq h]; simp [Ext.refl]
  | meas m => simp only [step] at h; rw [stepMeas_runs h]; exact Ext.refl _
  | dataErr e => simp only [step] at h; rw [tolerate_eq h]; exact Ext.refl _

/-- the lines the specification keeps: everything except measurements of selected runs
(under the final run-id table `R`) and damaged data lines -/
def keepSpec (R : List Nat) (sel : List Nat) (l : FLine) : Bool :=
  !(selectedLine R sel l.cls) && !(damaged l.cls)

/-- no data point of a selected run has been handed to the run objects -/
def NoSel (sel : List Nat) (loaded : List DP) : Prop := ∀ d ∈ loaded, sel.contains d.run = false

theorem stepMeas_loaded {st st' : LState} {m : Meas} {k : Nat} (hk : st.runs[m.runIdx]? = some k)
    (h : stepMeas st m = .ok st') : st'.loaded = st.loaded ∨ ∃ d, d.run = k ∧ st'.loaded = st.loaded ++ [d] := by
  rw [stepMeas_eq st m k hk] at h
  split at h
  · cases h
  · split at h
    · cases h; exact Or.inr ⟨_, rfl, rfl⟩
    · cases h; exact Or.inl rfl

/-- one line of the filter: the table grows, the decision is the specification's, no selected
run's data point is loaded -/
theorem fstep_spec {lv : Variant} {profile : Bool} {sel : List Nat} {st st' : LState} {l : FLine} {keep : Bool}
    (h : fstep lv RVariant.repaired profile sel st l = .ok (st', keep)) :
    Ext st.runs st'.runs ∧ (∀ R, Ext st'.runs R → keep = keepSpec R sel l)
      ∧ (NoSel sel st.loaded → NoSel sel st'.loaded) := by
  unfold fstep at h
  cases hc : l.cls with
  | header =>
    simp only [hc] at h; cases h
    exact ⟨Ext.refl _, fun R _ => by simp [keepSpec, selectedLine, lineRun, damaged, hc, RVariant.repaired], id⟩
  | dataErr e =>
    simp only [hc] at h
    cases ht : tolerate true st e with
    | error x => rw [ht] at h; cases h
    | ok s =>
      rw [ht] at h; cases h
      rw [tolerate_eq ht]
      exact ⟨Ext.refl _, fun R _ => by simp [keepSpec, damaged, hc], id⟩
  | meas m =>
    simp only [hc] at h
    cases hr : st.runs[m.runIdx]? with
    | none => rw [hr] at h; cases h
    | some k =>
      rw [hr] at h
      simp only at h
      by_cases hs : sel.contains k = true
      · rw [if_pos hs] at h
        have : (profile && !RVariant.repaired.profileReturnsPair) = false := by simp [RVariant.repaired]
        simp only [this, Bool.false_eq_true, ↓reduceIte] at h
        cases h
        refine ⟨Ext.refl _, fun R hR => ?_, id⟩
        have hs' : k ∈ sel := by simpa using hs
        simp [keepSpec, selectedLine, lineRun, hc, hR.lookup hr, hs']
      · rw [if_neg hs] at h
        cases hm : stepMeas st m with
        | error x => rw [hm] at h; cases h
        | ok s =>
          rw [hm] at h; cases h
          refine ⟨by rw [stepMeas_runs hm]; exact Ext.refl _, fun R hR => ?_, fun hn => ?_⟩
          · have hl : R[m.runIdx]? = some k := hR.lookup (by rw [stepMeas_runs hm]; exact hr)
            have hs' : k ∉ sel := by simpa using hs
            simp [keepSpec, selectedLine, lineRun, hc, hl, hs', damaged]
          · rcases stepMeas_loaded hr hm with hl | ⟨d, hd, hl⟩
            · rw [hl]; exact hn
            · rw [hl]; intro d' hd'
              rcases List.mem_append.mp hd' with h1 | h1
              · exact hn d' h1
              · simp only [List.mem_singleton] at h1; subst h1; rw [hd]; simpa using hs
  | session | comment | bench _ _ | run _ _ _ | metaErr _ =>
    simp only [hc] at h
    split at h
    next s hs =>
      cases h
      refine ⟨step_runs_ext hs, fun R _ => by simp [keepSpec, selectedLine, lineRun, damaged, hc], fun hn => ?_⟩
      rw [step_loaded_of_not_total (by simp [isTotal]) hs]; exact hn
    next e _ => cases h

theorem filterFrom_spec {lv : Variant} {profile : Bool} {sel : List Nat} :
    ∀ (ls : List FLine) (st st' : LState) (out : List Text),
      filterFrom lv RVariant.repaired profile sel st ls = .ok (st', out) →
      Ext st.runs st'.runs ∧ (∀ R, Ext st'.runs R → out = (ls.filter (keepSpec R sel)).map FLine.text)
        ∧ (NoSel sel st.loaded → NoSel sel st'.loaded) := by
  intro ls
  induction ls with
  | nil =>
    intro st st' out h
    simp only [filterFrom] at h; cases h
    exact ⟨Ext.refl _, fun R _ => rfl, id⟩
  | cons l ls ih =>
    intro st st' out h
    simp only [filterFrom] at h
    cases h1 : fstep lv RVariant.repaired profile sel st l with
    | error e => rw [h1] at h; cases h
    | ok p =>
      obtain ⟨st1, keep⟩ := p
      rw [h1] at h
      simp only at h
      cases h2 : filterFrom lv RVariant.repaired profile sel st1 ls with
      | error e => rw [h2] at h; cases h
      | ok q =>
        obtain ⟨st2, out2⟩ := q
        rw [h2] at h
        simp only [Except.ok.injEq, Prod.mk.injEq] at h
        obtain ⟨rfl, rfl⟩ := h
        obtain ⟨e1, k1, n1⟩ := fstep_spec h1
        obtain ⟨e2, k2, n2⟩ := ih st1 st2 out2 h2
        refine ⟨e1.trans e2, fun R hR => ?_, fun hn => n2 (n1 hn)⟩
        have hk := k1 R (e2.trans hR)
        have ho := k2 R hR
        rw [List.filter_cons, ← hk, ho]
        cases keep <;> simp

/-! ### `completed_invocations` of a run without loaded data points -/

theorem maxInv_of_no_dp (loaded : List DP) (r : Nat) (h : ∀ d ∈ loaded, d.run ≠ r) : maxInv loaded r = 0 := by
  unfold maxInv
  suffices ∀ (l : List DP) (m : Nat), (∀ d ∈ l, d.run ≠ r) →
      l.foldl (fun m d => if d.run = r then max m d.inv else m) m = m from this loaded 0 h
  intro l
  induction l with
  | nil => intro m _; rfl
  | cons d ds ih =>
    intro m hh
    simp only [List.foldl_cons]
    rw [if_neg (hh d (List.mem_cons_self ..))]
    exact ih m (fun d' hd' => hh d' (List.mem_cons_of_mem _ hd'))

theorem todo_all (loaded : List DP) (c : RunCfg) (h : maxInv loaded c.run = 0) :
    todo loaded c = (List.range c.invocations).map (· + 1) := by
  unfold todo
  rw [h]
  induction List.range c.invocations with
  | nil => rfl
  | cons a as ih => simp [List.filterMap_cons, ih]

/-! ### the abstract file system -/

theorem mem_crashStates_append (fs : FS) (a b : List Op) (s : Option Text) :
    s ∈ crashStates fs (a ++ b) ↔ s ∈ crashStates fs a ∨ s ∈ crashStates (fs.run a) b := by
  induction a generalizing fs with
  | nil =>
    simp only [List.nil_append, crashStates, List.mem_singleton, FS.run, List.foldl_nil]
    constructor
    · intro h; exact Or.inr h
    · rintro (h | h)
      · cases b <;> simp [crashStates, h]
      · exact h
  | cons o os ih =>
    simp only [List.cons_append, crashStates, List.mem_cons, FS.run, List.foldl_cons]
    rw [ih (fs.apply o)]
    simp only [FS.run]
    constructor
    · rintro (h | h | h)
      · exact Or.inl (Or.inl h)
      · exact Or.inl (Or.inr h)
      · exact Or.inr h
    · rintro ((h | h) | h)
      · exact Or.inl h
      · exact Or.inr (Or.inl h)
      · exact Or.inr (Or.inr h)

theorem run_append (fs : FS) (a b : List Op) : fs.run (a ++ b) = (fs.run a).run b := by
  simp [FS.run, List.foldl_append]

/-- while the temporary file is being written: the data file is inode 0 with the old content,
the temporary file is inode 1, open, and disk content + buffer = what was written so far -/
structure Writing (fs : FS) (old acc : Text) : Prop where
  data : fs.data = some 0
  tmp : fs.tmp = some 1
  len : fs.inodes.length = 2
  old : fs.inodes[0]? = some old
  h : ∃ disk buf, fs.inodes[1]? = some disk ∧ fs.handle = some (1, buf) ∧ disk ++ buf = acc

theorem Writing.content {fs : FS} {old acc : Text} (w : Writing fs old acc) : fs.content .data = some old := by
  simp [FS.content, FS.lookup, w.data, w.old]

theorem writing_flush {fs : FS} {old acc : Text} (w : Writing fs old acc) : Writing fs.flushH old acc := by
  obtain ⟨disk, buf, h1, h2, h3⟩ := w.h
  have hl := w.len
  unfold FS.flushH
  rw [h2]
  simp only [setAt]
  refine ⟨w.data, w.tmp, by simp [hl], ?_, ?_⟩
  · simp only
    rw [List.getElem?_set_ne (by decide)]; exact w.old
  · refine ⟨acc, [], ?_, rfl, by simp⟩
    simp only [h1, Option.getD_some, h3]
    rw [List.getElem?_set_self (by omega)]

theorem writing_write {fs : FS} {old acc : Text} (w : Writing fs old acc) (t : Text) :
    Writing (fs.apply (.write t)) old (acc ++ t) := by
  obtain ⟨disk, buf, h1, h2, h3⟩ := w.h
  have w' : Writing { fs with handle := some (1, buf ++ t) } old (acc ++ t) :=
    ⟨w.data, w.tmp, w.len, w.old, disk, buf ++ t, h1, rfl, by rw [← h3, List.append_assoc]⟩
  simp only [FS.apply, h2]
  split
  · exact writing_flush w'
  · exact w'

theorem writing_writes (old : Text) : ∀ (ws : List Text) (fs : FS) (acc : Text), Writing fs old acc →
    Writing (fs.run (ws.map Op.write)) old (acc ++ ws.flatten)
      ∧ ∀ s ∈ crashStates fs (ws.map Op.write), s = some old := by
  intro ws
  induction ws with
  | nil =>
    intro fs acc w
    refine ⟨by simpa [FS.run] using w, ?_⟩
    intro s hs
    simp only [List.map_nil, crashStates, List.mem_singleton] at hs
    rw [hs]; exact w.content
  | cons t ts ih =>
    intro fs acc w
    obtain ⟨w2, hs2⟩ := ih (fs.apply (.write t)) (acc ++ t) (writing_write w t)
    refine ⟨by simpa [FS.run, List.append_assoc] using w2, ?_⟩
    intro s hs
    simp only [List.map_cons, crashStates, List.mem_cons] at hs
    rcases hs with hs | hs
    · rw [hs]; exact w.content
    · exact hs2 s hs

/-! ### several data files -/



theorem mem_mcrashStates_append (fs : MFS) (a b : List MOp) (s : List (Option Text)) :
    s ∈ mcrashStates fs (a ++ b) ↔ s ∈ mcrashStates fs a ∨ s ∈ mcrashStates (fs.run a) b := by
  induction a generalizing fs with
  | nil =>
    simp only [List.nil_append, mcrashStates, List.mem_singleton, MFS.run, List.foldl_nil]
    constructor
    · intro h; exact Or.inr h
    · rintro (h | h)
      · cases b <;> simp [mcrashStates, h]
      · exact h
  | cons o os ih =>
    simp only [List.cons_append, mcrashStates, List.mem_cons, MFS.run, List.foldl_cons]
    rw [ih (fs.apply o)]
    simp only [MFS.run]
    constructor
    · rintro (h | h | h)
      · exact Or.inl (Or.inl h)
      · exact Or.inl (Or.inr h)
      · exact Or.inr h
    · rintro ((h | h) | h)
      · exact Or.inl h
      · exact Or.inr (Or.inl h)
      · exact Or.inr (Or.inr h)

theorem mrun_append (fs : MFS) (a b : List MOp) : fs.run (a ++ b) = (fs.run a).run b := by
  simp [MFS.run, List.foldl_append]

/-- no open handle, every data file's inode exists -/
structure Sound (fs : MFS) : Prop where
  handle : fs.handle = none
  range : ∀ d ∈ fs.datas, ∀ n, d = some n → n < fs.inodes.length

/-- while the temporary file of one rewrite is written: nothing that a data file points to has changed -/
structure MWriting (fs0 fs : MFS) (acc : Text) : Prop where
  datas : fs.datas = fs0.datas
  len : fs.inodes.length = fs0.inodes.length + 1
  frame : ∀ n, n < fs0.inodes.length → fs.inodes[n]? = fs0.inodes[n]?
  tmp : fs.tmp = some fs0.inodes.length
  h : ∃ disk buf, fs.inodes[fs0.inodes.length]? = some disk ∧ fs.handle = some (fs0.inodes.length, buf)
        ∧ disk ++ buf = acc

theorem MWriting.contents {fs0 fs : MFS} {acc : Text} (s : Sound fs0) (w : MWriting fs0 fs acc) :
    fs.contents = fs0.contents := by
  unfold MFS.contents
  rw [w.datas]
  apply List.map_congr_left
  intro d hd
  cases d with
  | none => rfl
  | some n => exact w.frame n (s.range _ hd n rfl)

theorem mwriting_flush {fs0 fs : MFS} {acc : Text} (w : MWriting fs0 fs acc) : MWriting fs0 fs.flushH acc := by
  obtain ⟨disk, buf, h1, h2, h3⟩ := w.h
  unfold MFS.flushH
  rw [h2]
  refine ⟨w.datas, by simp [w.len], ?_, w.tmp, ?_⟩
  · intro n hn
    simp only
    rw [List.getElem?_set_ne (by omega)]; exact w.frame n hn
  · refine ⟨acc, [], ?_, rfl, by simp⟩
    simp only [h1, Option.getD_some, h3]
    rw [List.getElem?_set_self (by rw [w.len]; omega)]

theorem mwriting_write {fs0 fs : MFS} {acc : Text} (w : MWriting fs0 fs acc) (t : Text) :
    MWriting fs0 (fs.apply (.write t)) (acc ++ t) := by
  obtain ⟨disk, buf, h1, h2, h3⟩ := w.h
  have w' : MWriting fs0 { fs with handle := some (fs0.inodes.length, buf ++ t) } (acc ++ t) :=
    ⟨w.datas, w.len, w.frame, w.tmp, disk, buf ++ t, h1, rfl, by rw [← h3, List.append_assoc]⟩
  simp only [MFS.apply, h2]
  split
  · exact mwriting_flush w'
  · exact w'

theorem mwriting_writes (fs0 : MFS) (s : Sound fs0) : ∀ (ws : List Text) (fs : MFS) (acc : Text),
    MWriting fs0 fs acc →
    MWriting fs0 (fs.run (ws.map MOp.write)) (acc ++ ws.flatten)
      ∧ ∀ c ∈ mcrashStates fs (ws.map MOp.write), c = fs0.contents := by
  intro ws
  induction ws with
  | nil =>
    intro fs acc w
    refine ⟨by simpa [MFS.run] using w, ?_⟩
    intro c hc
    simp only [List.map_nil, mcrashStates, List.mem_singleton] at hc
    rw [hc]; exact w.contents s
  | cons t ts ih =>
    intro fs acc w
    obtain ⟨w2, hs2⟩ := ih (fs.apply (.write t)) (acc ++ t) (mwriting_write w t)
    refine ⟨by simpa [MFS.run, List.append_assoc] using w2, ?_⟩
    intro c hc
    simp only [List.map_cons, mcrashStates, List.mem_cons] at hc
    rcases hc with hc | hc
    · rw [hc]; exact w.contents s
    · exact hs2 c hc

theorem contents_length (fs : MFS) : fs.contents.length = fs.datas.length := by simp [MFS.contents]

/-- one file's rewrite: at every point all data files hold what they held before, except that
after the `os.replace` file `i` holds the new content; and the state is sound again -/
theorem fileOps_spec (fs0 : MFS) (s : Sound fs0) (i : Nat) (out : List Text) :
    (∀ c ∈ mcrashStates fs0 (fileOps i out), c = fs0.contents ∨ c = fs0.contents.set i (some out.flatten))
    ∧ (fs0.run (fileOps i out)).contents = fs0.contents.set i (some out.flatten)
    ∧ Sound (fs0.run (fileOps i out)) := by
  have w0 : MWriting fs0 (fs0.run [MOp.create]) [] := by
    refine ⟨rfl, by simp [MFS.run, MFS.apply], ?_, rfl, [], [], ?_, rfl, rfl⟩
    · intro n hn
      simp only [MFS.run, List.foldl_cons, List.foldl_nil, MFS.apply]
      rw [List.getElem?_append_left hn]
    · simp [MFS.run, MFS.apply]
  obtain ⟨w1, hw⟩ := mwriting_writes fs0 s out _ [] w0
  simp only [List.nil_append] at w1
  generalize hfs1 : (fs0.run [MOp.create]).run (out.map MOp.write) = fs1 at w1
  have wf := mwriting_flush w1
  obtain ⟨disk, buf, h1, h2, h3⟩ := w1.h
  obtain ⟨disk', buf', h1', h2', h3'⟩ := wf.h
  have hb : buf' = [] := by
    have : (MFS.flushH fs1).handle = some (fs0.inodes.length, []) := by unfold MFS.flushH; rw [h2]
    rw [this] at h2'; cases h2'; rfl
  subst hb
  simp only [List.append_nil] at h3'
  -- the state after close, and after replace
  have hclose : (fs1.apply .close).contents = fs0.contents := by
    have : MWriting fs0 { fs1.flushH with handle := some (fs0.inodes.length, []) } out.flatten :=
      ⟨wf.datas, wf.len, wf.frame, wf.tmp, disk', [], h1', rfl, by simpa using h3'⟩
    have hc := this.contents s
    simpa [MFS.apply, MFS.contents] using hc
  have hrep : ((fs1.apply .close).apply (.replace i)).contents = fs0.contents.set i (some out.flatten) := by
    simp only [MFS.apply, MFS.contents, wf.tmp, wf.datas]
    rw [List.map_set]
    congr 1
    · apply List.map_congr_left
      intro d hd
      cases d with
      | none => rfl
      | some n => exact wf.frame n (s.range _ hd n rfl)
    · simp [h1', h3']
  have hops : fileOps i out = [MOp.create] ++ (out.map MOp.write ++ [MOp.close, MOp.replace i]) := by
    simp [fileOps]
  refine ⟨?_, ?_, ?_⟩
  · intro c hc
    rw [hops, mem_mcrashStates_append] at hc
    rcases hc with hc | hc
    · simp only [mcrashStates, List.mem_cons, List.not_mem_nil, or_false] at hc
      rcases hc with hc | hc
      · left; exact hc
      · left; rw [hc]; exact w0.contents s
    · rw [mem_mcrashStates_append] at hc
      rcases hc with hc | hc
      · exact Or.inl (hw c hc)
      · rw [hfs1] at hc
        simp only [mcrashStates, List.mem_cons, List.not_mem_nil, or_false] at hc
        rcases hc with hc | hc | hc
        · left; rw [hc]; exact w1.contents s
        · left; rw [hc]; exact hclose
        · right; rw [hc]; exact hrep
  · rw [hops, mrun_append, mrun_append, hfs1]
    simpa [MFS.run] using hrep
  · rw [hops, mrun_append, mrun_append, hfs1]
    simp only [MFS.run, List.foldl_cons, List.foldl_nil, MFS.apply]
    refine ⟨rfl, ?_⟩
    intro d hd n hn
    simp only [wf.datas, wf.tmp] at hd
    simp only [wf.len]
    rcases List.mem_or_eq_of_mem_set hd with hd | hd
    · have := s.range d hd n hn; omega
    · rw [hn] at hd; cases hd; omega



theorem multiOps_cons (p : Nat × List Text) (rest : List (Nat × List Text)) :
    multiOps (p :: rest) = fileOps p.1 p.2 ++ multiOps rest := by
  simp [multiOps]

theorem switched_cons (cs : List (Option Text)) (p : Nat × List Text) (rest : List (Nat × List Text)) :
    switched cs (p :: rest) = switched (cs.set p.1 (some p.2.flatten)) rest := rfl

/-- every crash state of a multi-file rewrite: the first `m` files are switched to their new
content, the others still hold what they held -/
theorem multi_states : ∀ (rws : List (Nat × List Text)) (fs : MFS), Sound fs →
    (∀ c ∈ mcrashStates fs (multiOps rws), ∃ m, m ≤ rws.length ∧ c = switched fs.contents (rws.take m))
    ∧ (fs.run (multiOps rws)).contents = switched fs.contents rws := by
  intro rws
  induction rws with
  | nil =>
    intro fs _
    refine ⟨?_, rfl⟩
    intro c hc
    simp only [multiOps, List.flatMap_nil, mcrashStates, List.mem_singleton] at hc
    exact ⟨0, Nat.le_refl _, by rw [hc]; rfl⟩
  | cons p rest ih =>
    intro fs s
    obtain ⟨b1, b2, b3⟩ := fileOps_spec fs s p.1 p.2
    obtain ⟨i1, i2⟩ := ih (fs.run (fileOps p.1 p.2)) b3
    refine ⟨?_, ?_⟩
    · intro c hc
      rw [multiOps_cons, mem_mcrashStates_append] at hc
      rcases hc with hc | hc
      · rcases b1 c hc with h | h
        · exact ⟨0, Nat.zero_le _, by rw [h]; rfl⟩
        · exact ⟨1, by simp, by rw [h]; rfl⟩
      · obtain ⟨m, hm, hcm⟩ := i1 c hc
        refine ⟨m + 1, by simpa using hm, ?_⟩
        rw [hcm, b2, List.take_succ_cons, switched_cons]
    · rw [multiOps_cons, mrun_append, i2, b2, switched_cons]

theorem switched_get : ∀ (rws : List (Nat × List Text)) (cs : List (Option Text)) (j : Nat),
    (switched cs rws)[j]? = cs[j]? ∨ ∃ p ∈ rws, p.1 = j ∧ (switched cs rws)[j]? = some (some p.2.flatten) := by
  intro rws
  induction rws with
  | nil => intro cs j; exact Or.inl rfl
  | cons p rest ih =>
    intro cs j
    rw [switched_cons]
    rcases ih (cs.set p.1 (some p.2.flatten)) j with h | ⟨q, hq, hqj, hv⟩
    · by_cases hpj : p.1 = j
      · by_cases hlt : j < cs.length
        · right
          refine ⟨p, List.mem_cons_self .., hpj, ?_⟩
          rw [h, hpj, List.getElem?_set_self hlt]
        · left
          rw [h, List.getElem?_eq_none (by simpa using Nat.le_of_not_lt hlt),
            List.getElem?_eq_none (Nat.le_of_not_lt hlt)]
      · left; rw [h, List.getElem?_set_ne hpj]
    · exact Or.inr ⟨q, List.mem_cons_of_mem _ hq, hqj, hv⟩

theorem start_sound (olds : List Text) (cap : Nat) : Sound (MFS.start olds cap) := by
  refine ⟨rfl, ?_⟩
  intro d hd n hn
  simp only [MFS.start, List.mem_map, List.mem_range] at hd
  obtain ⟨k, hk, rfl⟩ := hd
  cases hn
  simpa [MFS.start] using hk

theorem start_contents (olds : List Text) (cap : Nat) : (MFS.start olds cap).contents = olds.map some := by
  unfold MFS.contents MFS.start
  simp only
  apply List.ext_getElem?
  intro j
  simp only [List.getElem?_map, List.getElem?_range]
  by_cases hj : j < olds.length
  · simp [List.getElem?_range, hj]
  · simp [List.getElem?_eq_none (Nat.le_of_not_lt hj), hj]


end RB.Rewrite
