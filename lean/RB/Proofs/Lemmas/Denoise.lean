/-
Helper lemmas for C20, part "denoise.py itself": which settings a list of
actions can touch, and the effect of the governor loop.
-/
import RB.Model.Denoise

namespace RB.Denoise

def Act.target : Act → Option Setting
  | .write k _ => some k
  | .touch _ => none
  | .niceProbe => none
  | .shieldOn _ _ => some .shield
  | .shieldReset => some .shield

theorem applyActs_append (h : Host) (s : Sys) (a b : List Act) :
    applyActs h s (a ++ b) = applyActs h (applyActs h s a) b := by
  simp [applyActs, List.foldl_append]

theorem applyAct_untouched (h : Host) (s : Sys) (a : Act) (x : Setting) (hx : a.target ≠ some x) :
    applyAct h s a x = s x := by
  cases a with
  | write k v =>
    have : x ≠ k := fun e => hx (by simp [Act.target, e])
    simp [applyAct, Sys.upd, this]
  | touch k => rfl
  | niceProbe => rfl
  | shieldOn lo hi =>
    have : x ≠ .shield := fun e => hx (by simp [Act.target, e])
    simp only [applyAct]; split <;> simp [Sys.upd, this]
  | shieldReset =>
    have : x ≠ .shield := fun e => hx (by simp [Act.target, e])
    simp only [applyAct]; split <;> simp [Sys.upd, this]

theorem applyActs_untouched (h : Host) (as : List Act) (x : Setting) :
    ∀ s : Sys, (∀ a ∈ as, a.target ≠ some x) → applyActs h s as x = s x := by
  induction as with
  | nil => intro s _; rfl
  | cons a as ih =>
    intro s hx
    have h1 := ih (applyAct h s a) (fun b hb => hx b (List.mem_cons_of_mem _ hb))
    have h2 := applyAct_untouched h s a x (hx a (by simp))
    simp only [applyActs, List.foldl_cons] at h1 ⊢
    rw [h1, h2]

/-! ### the governor loop -/

/-- cpu `j` is written by the loop over cpus `i … i+n-1`: every cpu up to `j` is writable -/
def govWritten (h : Host) : Nat → Nat → Nat → Bool
  | _, 0, _ => false
  | i, n + 1, j => h.writable (.governor i) && (j = i || govWritten h (i + 1) n j)

theorem governorActs_targets (h : Host) (v : Str) (n : Nat) : ∀ i, ∀ a ∈ (governorActs h v i n).1,
    ∃ j, a = .write (.governor j) v := by
  induction n with
  | zero => intro i a ha; simp [governorActs] at ha
  | succ n ih =>
    intro i a ha
    simp only [governorActs] at ha
    split at ha
    · simp only [List.mem_cons] at ha
      rcases ha with rfl | ha
      · exact ⟨i, rfl⟩
      · exact ih (i + 1) a ha
    · simp at ha

theorem govWritten_ge (h : Host) (n : Nat) : ∀ i j, govWritten h i n j = true → i ≤ j := by
  induction n with
  | zero => intro i j hw; simp [govWritten] at hw
  | succ n ih =>
    intro i j hw
    simp only [govWritten, Bool.and_eq_true, Bool.or_eq_true, decide_eq_true_eq] at hw
    rcases hw.2 with rfl | h2
    · exact Nat.le_refl _
    · exact Nat.le_of_succ_le (ih (i + 1) j h2)

theorem governorActs_effect (h : Host) (v : Str) (n : Nat) : ∀ (i : Nat) (s : Sys) (j : Nat),
    applyActs h s (governorActs h v i n).1 (.governor j) =
      if govWritten h i n j then v else s (.governor j) := by
  induction n with
  | zero => intro i s j; simp [governorActs, govWritten, applyActs]
  | succ n ih =>
    intro i s j
    simp only [governorActs, govWritten]
    by_cases hw : h.writable (.governor i) = true
    case neg => simp [hw, applyActs]
    case pos =>
      simp only [hw, if_true, Bool.true_and, applyActs, List.foldl_cons, applyAct]
      have := ih (i + 1) (s.upd (.governor i) v) j
      simp only [applyActs] at this
      rw [this]
      by_cases hji : j = i
      · subst hji
        have hnot : govWritten h (j + 1) n j = false := by
          cases hg : govWritten h (j + 1) n j with
          | false => rfl
          | true => exact absurd (govWritten_ge h n (j + 1) j hg) (by omega)
        simp [hnot, Sys.upd]
      · have : (Setting.governor j = Setting.governor i) = False := by simp [hji]
        simp [hji, Sys.upd]

theorem governorActs_other (h : Host) (v : Str) (n i : Nat) (s : Sys) (x : Setting)
    (hx : ∀ j, x ≠ .governor j) : applyActs h s (governorActs h v i n).1 x = s x := by
  apply applyActs_untouched
  intro a ha
  obtain ⟨j, rfl⟩ := governorActs_targets h v n i a ha
  intro e
  simp only [Act.target, Option.some.injEq] at e
  exact hx j e.symm

/-! ### focusing on one setting -/

theorem applyAct_congr_at (h : Host) (s s' : Sys) (a : Act) (x : Setting) (hx : s x = s' x) :
    applyAct h s a x = applyAct h s' a x := by
  cases a with
  | write k v => simp only [applyAct, Sys.upd]; split <;> simp [hx]
  | touch k => exact hx
  | niceProbe => exact hx
  | shieldOn lo hi =>
    simp only [applyAct]; split
    · simp only [Sys.upd]; split <;> simp [hx]
    · exact hx
  | shieldReset =>
    simp only [applyAct]; split
    · simp only [Sys.upd]; split <;> simp [hx]
    · exact hx

theorem applyActs_congr_at (h : Host) (as : List Act) (x : Setting) :
    ∀ s s' : Sys, s x = s' x → applyActs h s as x = applyActs h s' as x := by
  induction as with
  | nil => intro s s' hx; exact hx
  | cons a as ih =>
    intro s s' hx
    simp only [applyActs, List.foldl_cons]
    exact ih _ _ (applyAct_congr_at h s s' a x hx)

def Untouched (as : List Act) (x : Setting) : Prop := ∀ a ∈ as, a.target ≠ some x

theorem focus (h : Host) (s : Sys) (pre mid post : List Act) (x : Setting)
    (hpre : Untouched pre x) (hpost : Untouched post x) :
    applyActs h s (pre ++ mid ++ post) x = applyActs h s mid x := by
  rw [applyActs_append, applyActs_untouched h post x _ hpost, applyActs_append]
  exact applyActs_congr_at h mid x _ _ (applyActs_untouched h pre x s hpre)

theorem untouched_append {a b : List Act} {x : Setting} (ha : Untouched a x) (hb : Untouched b x) :
    Untouched (a ++ b) x := by
  intro c hc
  rcases List.mem_append.mp hc with h | h
  · exact ha c h
  · exact hb c h

theorem untouched_nil (x : Setting) : Untouched [] x := by intro a ha; simp at ha

theorem governor_untouched (h : Host) (v : Str) (i n : Nat) (x : Setting) (hx : ∀ j, x ≠ .governor j) :
    Untouched (governorActs h v i n).1 x := by
  intro a ha
  obtain ⟨j, rfl⟩ := governorActs_targets h v n i a ha
  intro e
  simp only [Act.target, Option.some.injEq] at e
  exact hx j e.symm

theorem noTurbo_untouched (h : Host) (v : Str) (x : Setting) (hx : x ≠ .noTurbo) :
    Untouched (noTurboActs h v).1 x := by
  intro a ha
  unfold noTurboActs at ha
  split at ha
  · simp at ha; subst ha; intro e; simp only [Act.target, Option.some.injEq] at e; exact hx e.symm
  · simp at ha

def Setting.isPerf : Setting → Bool
  | .perfMaxPercent => true
  | .perfSampleRate => true
  | .perfParanoid => true
  | _ => false

theorem perfConfig_untouched (h : Host) (prof : Bool) (x : Setting) (hx : x.isPerf = false) :
    Untouched (perfConfigActs h prof).1 x := by
  intro a ha
  unfold perfConfigActs at ha
  cases x <;> simp [Setting.isPerf] at hx <;>
    (repeat' split at ha) <;> simp at ha <;>
    (try rcases ha with rfl | rfl | rfl) <;> (try rcases ha with rfl | rfl) <;> (try subst ha) <;>
    (try split) <;> simp [Act.target]

theorem perfRestore_untouched (h : Host) (x : Setting) (hx : x.isPerf = false) :
    Untouched (perfRestoreActs h).1 x := by
  intro a ha
  unfold perfRestoreActs at ha
  cases x <;> simp [Setting.isPerf] at hx <;>
    (repeat' split at ha) <;> simp at ha <;>
    (try rcases ha with rfl | rfl | rfl) <;> (try rcases ha with rfl | rfl) <;> (try subst ha) <;>
    simp [Act.target]

theorem nice_untouched (b : Bool) (x : Setting) : Untouched (if b then [Act.niceProbe] else []) x := by
  intro a ha; cases b <;> simp at ha; subst ha; simp [Act.target]

theorem shieldOn_untouched (b : Bool) (lo hi : Nat) (x : Setting) (hx : x ≠ .shield) :
    Untouched (if b then [Act.shieldOn lo hi] else []) x := by
  intro a ha; cases b <;> simp at ha; subst ha
  intro e; simp only [Act.target, Option.some.injEq] at e; exact hx e.symm

theorem shieldReset_untouched (b : Bool) (x : Setting) (hx : x ≠ .shield) :
    Untouched (if b then [Act.shieldReset] else []) x := by
  intro a ha; cases b <;> simp at ha; subst ha
  intro e; simp only [Act.target, Option.some.injEq] at e; exact hx e.symm

end RB.Denoise
