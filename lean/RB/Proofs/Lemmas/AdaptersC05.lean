/-
Helper lemmas for C05: the parse loops ignore noise and return exactly the
groups "criteria then total"; first-path lemmas for the backtracking matcher.
-/
import RB.Proofs.Lemmas.Adapters

namespace RB.Adapters

/-! ## noise -/

/-- a line the open-data-point loop does not react to -/
def Cfg.noise (cfg : Cfg) (l : Line) : Bool := !cfg.stop l && !cfg.marker l && (cfg.classify l).isNone
def FreshCfg.noise (cfg : FreshCfg) (l : Line) : Bool := !cfg.stop l && !cfg.marker l && (cfg.classify l).isNone

theorem collectLoop_ignores_noise (cfg : Cfg) (inv : Nat) (ls : List Line) :
    ∀ it cur done, collectLoop cfg inv ls it cur done =
      collectLoop cfg inv (ls.filter (fun l => !cfg.noise l)) it cur done := by
  induction ls with
  | nil => intro it cur done; rfl
  | cons l ls ih =>
    intro it cur done
    by_cases hn : cfg.noise l = true
    · have hs : cfg.stop l = false := by simp [Cfg.noise] at hn; exact hn.1.1
      have hm : cfg.marker l = false := by simp [Cfg.noise] at hn; exact hn.1.2
      have hc : cfg.classify l = none := by simp [Cfg.noise] at hn; exact hn.2
      simp only [List.filter, hn, Bool.not_true]
      simp only [collectLoop, hs, hm, hc, Bool.false_eq_true, if_false]
      exact ih it cur done
    · have hn' : cfg.noise l = false := by simpa using hn
      simp only [List.filter, hn', Bool.not_false]
      simp only [collectLoop]
      split
      · rfl
      · split
        · rfl
        · split
          · exact ih _ _ _
          · split
            · rfl
            · split
              · exact ih _ _ _
              · exact ih _ _ _

theorem freshLoop_ignores_noise (cfg : FreshCfg) (inv : Nat) (ls : List Line) :
    ∀ it done, freshLoop cfg inv ls it done =
      freshLoop cfg inv (ls.filter (fun l => !cfg.noise l)) it done := by
  induction ls with
  | nil => intro it done; rfl
  | cons l ls ih =>
    intro it done
    by_cases hn : cfg.noise l = true
    · have hs : cfg.stop l = false := by simp [FreshCfg.noise] at hn; exact hn.1.1
      have hm : cfg.marker l = false := by simp [FreshCfg.noise] at hn; exact hn.1.2
      have hc : cfg.classify l = none := by simp [FreshCfg.noise] at hn; exact hn.2
      simp only [List.filter, hn, Bool.not_true]
      simp only [freshLoop, hs, hm, hc, Bool.false_eq_true, if_false]
      exact ih it done
    · have hn' : cfg.noise l = false := by simpa using hn
      simp only [List.filter, hn', Bool.not_false]
      simp only [freshLoop]
      split
      · rfl
      · split
        · rfl
        · split
          · exact ih _ _
          · split
            · rfl
            · exact ih _ _

theorem timePLoop_ignores_noise (marker : Line → Bool) (classify : Line → Option (List Char × Val)) (inv : Nat)
    (ls : List Line) :
    ∀ st, TimePInv inv st → timePLoop marker classify inv ls st =
      timePLoop marker classify inv (ls.filter (fun l => marker l || (classify l).isSome)) st := by
  induction ls with
  | nil => intro st _; rfl
  | cons l ls ih =>
    intro st hst
    obtain ⟨st', hst', hinv'⟩ := timePStep_inv classify inv l hst
    have hno : ¬ (st'.cur.ms.length = 3 ∧ st'.cur.total.isSome = true) := by
      simp [hinv'.cur.noTotal]
    by_cases hn : (marker l || (classify l).isSome) = true
    · simp only [List.filter, hn]
      simp only [timePLoop, hst', hno, if_false]
      split
      · rfl
      · exact ih st' hinv'
    · have hn' : (marker l || (classify l).isSome) = false := by simpa using hn
      have hm : marker l = false := by simp at hn'; exact hn'.1
      have hc : classify l = none := by simp at hn'; exact hn'.2
      have hst'' : st' = st := by simp [timePStep, hc] at hst'; exact hst'.symm
      subst hst''
      simp only [List.filter, hn']
      simp only [timePLoop, hm, Bool.false_eq_true, if_false, hst', hno]
      exact ih st' hinv'

/-! ## groups -/

/-- the measurements a line contributes in iteration `it` -/
def lineMeas (cfg : Cfg) (inv it : Nat) (l : Line) : List Meas :=
  match cfg.classify l with
  | some lm => (lm.pre ++ [lm.main]).map (stamp inv it)
  | none => []

/-- a group: lines with further criteria, then the line with the total -/
abbrev Group := List Line × Line

def Group.lines (g : Group) : List Line := g.1 ++ [g.2]

/-- what the groups stand for: the i-th group is the i-th data point, all of its
measurements in order, stamped `(inv, i)` -/
def groupsExpected (cfg : Cfg) (inv : Nat) : Nat → List Group → List (List Meas)
  | _, [] => []
  | i, g :: gs => (g.lines.flatMap (lineMeas cfg inv i)) :: groupsExpected cfg inv (i + 1) gs

structure GoodGroup (cfg : Cfg) (g : Group) : Prop where
  clean : ∀ l ∈ g.lines, cfg.stop l = false ∧ cfg.marker l = false
  crit : ∀ l ∈ g.1, ∃ lm, cfg.classify l = some lm ∧ lm.main.isTotal = false
  tot : ∃ lm, cfg.classify g.2 = some lm ∧ lm.main.isTotal = true

theorem collectLoop_crits (cfg : Cfg) (hc : PreNonTotal cfg.classify) (inv : Nat) (cs : List Line)
    (rest : List Line) :
    ∀ it cur done, Open inv it cur →
      (∀ l ∈ cs, cfg.stop l = false ∧ cfg.marker l = false) →
      (∀ l ∈ cs, ∃ lm, cfg.classify l = some lm ∧ lm.main.isTotal = false) →
      ∃ cur', collectLoop cfg inv (cs ++ rest) it cur done = collectLoop cfg inv rest it cur' done ∧
        cur'.ms = cur.ms ++ cs.flatMap (lineMeas cfg inv it) ∧ Open inv it cur' := by
  induction cs with
  | nil => intro it cur done ho _ _; exact ⟨cur, rfl, by simp, ho⟩
  | cons l cs ih =>
    intro it cur done ho hclean hcrit
    obtain ⟨hs, hm⟩ := hclean l (by simp)
    obtain ⟨lm, hlm, hnt⟩ := hcrit l (by simp)
    obtain ⟨c1, h1, h1ms, _, h1o⟩ := addAll_line lm ho (hc l lm hlm)
    obtain ⟨c2, h2, h2ms, h2o⟩ := ih it c1 done (h1o hnt) (fun x hx => hclean x (by simp [hx]))
      (fun x hx => hcrit x (by simp [hx]))
    refine ⟨c2, ?_, ?_, h2o⟩
    · simp only [List.cons_append, collectLoop, hs, hm, Bool.false_eq_true, if_false, hlm, h1, hnt]
      exact h2
    · rw [h2ms, h1ms]; simp [lineMeas, hlm]

theorem collectLoop_groups (cfg : Cfg) (hc : PreNonTotal cfg.classify) (inv : Nat) (gs : List Group) :
    ∀ it done, (∀ g ∈ gs, GoodGroup cfg g) →
      ∃ dps, collectLoop cfg inv (gs.flatMap Group.lines) it DP.empty done = finish (done ++ dps) ∧
        dps.map (·.ms) = groupsExpected cfg inv it gs := by
  induction gs with
  | nil => intro it done _; exact ⟨[], by simp [collectLoop], rfl⟩
  | cons g gs ih =>
    intro it done hg
    have hgood := hg g (by simp)
    obtain ⟨c1, h1, h1ms, h1o⟩ := collectLoop_crits cfg hc inv g.1 (g.2 :: gs.flatMap Group.lines) it DP.empty done
      (open_empty inv it) (fun l hl => hgood.clean l (by simp [Group.lines, hl])) hgood.crit
    obtain ⟨hs, hm⟩ := hgood.clean g.2 (by simp [Group.lines])
    obtain ⟨lm, hlm, htot⟩ := hgood.tot
    obtain ⟨c2, h2, h2ms, _, _⟩ := addAll_line lm h1o (hc g.2 lm hlm)
    obtain ⟨dps, hd, hdms⟩ := ih (it + 1) (done ++ [c2]) (fun x hx => hg x (by simp [hx]))
    refine ⟨c2 :: dps, ?_, ?_⟩
    · have : (g :: gs).flatMap Group.lines = g.1 ++ (g.2 :: gs.flatMap Group.lines) := by
        simp [List.flatMap_cons, Group.lines]
      rw [this, h1]
      simp only [collectLoop, hs, hm, Bool.false_eq_true, if_false, hlm, h2, htot, if_true]
      rw [hd]; simp
    · simp only [List.map_cons, groupsExpected, hdms]
      congr 1
      rw [h2ms, h1ms]
      simp [Group.lines, lineMeas, hlm, DP.empty]

/-- `GoodGroup` from decidable checks (for concrete lines) -/
theorem goodGroup_of_dec (cfg : Cfg) (g : Group)
    (h1 : g.lines.all (fun l => !cfg.stop l && !cfg.marker l) = true)
    (h2 : g.1.all (fun l => (cfg.classify l).map (·.main.isTotal) == some false) = true)
    (h3 : ((cfg.classify g.2).map (·.main.isTotal) == some true) = true) : GoodGroup cfg g := by
  refine ⟨?_, ?_, ?_⟩
  · intro l hl
    have := List.all_eq_true.mp h1 l hl
    simp at this; exact this
  · intro l hl
    have := List.all_eq_true.mp h2 l hl
    cases hc : cfg.classify l with
    | none => simp [hc] at this
    | some lm => simp [hc] at this; exact ⟨lm, rfl, this⟩
  · cases hc : cfg.classify g.2 with
    | none => simp [hc] at h3
    | some lm => simp [hc] at h3; exact ⟨lm, rfl, h3⟩

/-! ## first-path lemmas for the matcher -/

theorem stripPrefix_append (l rest : List Char) : stripPrefix l (l ++ rest) = some rest := by
  induction l with
  | nil => cases rest <;> rfl
  | cons a l ih => simp [stripPrefix, ih]

/-- the next character does not belong to the class (or the text ends) -/
def stopsAt (p : Char → Bool) (rest : List Char) : Prop := ∀ c r, rest = c :: r → p c = false

theorem stopsAt_nil (p : Char → Bool) : stopsAt p [] := by intro c r h; cases h
theorem stopsAt_cons (p : Char → Bool) (c : Char) (r : List Char) (h : p c = false) : stopsAt p (c :: r) := by
  intro c' r' e; cases e; exact h

/-- greedy run: when the class matches exactly `xs`, stops there, and the
continuation accepts what follows, the first path tried is the answer -/
theorem starM_first {α : Type} (p : Char → Bool) (xs rest : List Char) (k : List Char → Option α) (r : α)
    (hxs : ∀ c ∈ xs, p c = true) (hstop : stopsAt p rest) (hk : k rest = some r) :
    starM p (xs ++ rest) k = some r := by
  induction xs with
  | nil =>
    cases rest with
    | nil => simpa [starM] using hk
    | cons c cs => have := hstop c cs rfl; simp [starM, this, hk]
  | cons x xs ih =>
    simp only [List.cons_append, starM, hxs x (by simp), if_true, ih (fun c hc => hxs c (by simp [hc]))]

theorem take_consumed (xs rest : List Char) : (xs ++ rest).take ((xs ++ rest).length - rest.length) = xs := by
  simp

theorem m_seq {α : Type} (a b : Re) (s : List Char) (c : Caps) (k : List Char → Caps → Option α) :
    (Re.seq a b).m s c k = a.m s c (fun s' c' => b.m s' c' k) := rfl

theorem m_lit {α : Type} (l rest : List Char) (c : Caps) (k : List Char → Caps → Option α) :
    (Re.lit l).m (l ++ rest) c k = k rest c := by
  simp [Re.m, stripPrefix_append]

theorem m_grp {α : Type} (n : Nat) (a : Re) (s : List Char) (c : Caps) (k : List Char → Caps → Option α) :
    (Re.grp n a).m s c k = a.m s c (fun s' c' => k s' ((n, s.take (s.length - s'.length)) :: c')) := rfl

theorem m_plus_first {α : Type} (p : Char → Bool) (xs rest : List Char) (c : Caps)
    (k : List Char → Caps → Option α) (r : α) (hne : xs ≠ []) (hxs : ∀ x ∈ xs, p x = true)
    (hstop : stopsAt p rest) (hk : k rest c = some r) : (Re.plus p).m (xs ++ rest) c k = some r := by
  cases xs with
  | nil => exact absurd rfl hne
  | cons x xs =>
    simp only [List.cons_append, Re.m, hxs x (by simp), if_true]
    exact starM_first p xs rest _ r (fun y hy => hxs y (by simp [hy])) hstop hk

theorem m_star_first {α : Type} (p : Char → Bool) (xs rest : List Char) (c : Caps)
    (k : List Char → Caps → Option α) (r : α) (hxs : ∀ x ∈ xs, p x = true)
    (hstop : stopsAt p rest) (hk : k rest c = some r) : (Re.star p).m (xs ++ rest) c k = some r := by
  simp only [Re.m]
  exact starM_first p xs rest _ r hxs hstop hk

theorem m_opt_first {α : Type} (a : Re) (s : List Char) (c : Caps) (k : List Char → Caps → Option α) (r : α)
    (h : a.m s c k = some r) : (Re.opt a).m s c k = some r := by
  simp [Re.m, h]

theorem m_opt_skip {α : Type} (a : Re) (s : List Char) (c : Caps) (k : List Char → Caps → Option α)
    (h : a.m s c k = none) : (Re.opt a).m s c k = k s c := by
  simp [Re.m, h]

theorem m_alt_first {α : Type} (a b : Re) (s : List Char) (c : Caps) (k : List Char → Caps → Option α) (r : α)
    (h : a.m s c k = some r) : (Re.alt a b).m s c k = some r := by
  simp [Re.m, h]

theorem m_alt_second {α : Type} (a b : Re) (s : List Char) (c : Caps) (k : List Char → Caps → Option α)
    (h : a.m s c k = none) : (Re.alt a b).m s c k = b.m s c k := by
  simp [Re.m, h]

/-! ### facts about the character classes -/

theorem digit_not_space (c : Char) (h : isDigit c = true) : isSpace c = false := by
  unfold isDigit at h
  unfold isSpace
  simp only [Bool.and_eq_true, decide_eq_true_eq] at h
  simp only [Bool.or_eq_false_iff, Bool.and_eq_false_iff, decide_eq_false_iff_not, beq_eq_false_iff_ne]
  omega

theorem digit_notCR (c : Char) (h : isDigit c = true) : notCR c = true := by
  unfold isDigit at h
  simp only [Bool.and_eq_true, decide_eq_true_eq] at h
  unfold notCR
  simp only [bne_iff_ne, ne_eq]
  intro e; subst e; simp at h

end RB.Adapters
