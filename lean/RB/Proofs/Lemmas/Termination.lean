/-
Helper lemmas for C04 (and the per-run part of C10 / C11).
-/
import RB.Model.Termination

namespace RB.Term

theorem recorded_append (a b : List Ev) : recorded (a ++ b) = recorded a ++ recorded b := by
  induction a with
  | nil => rfl
  | cons e a ih => cases e <;> simp [recorded, ih]

theorem starts_append (a b : List Ev) : starts (a ++ b) = starts a ++ starts b := by
  induction a with
  | nil => rfl
  | cons e a ih => cases e <;> simp [starts, ih]

theorem runTrace_nil (c : Cfg) (s : St) : runTrace c s [] = (s, []) := by
  simp [runTrace]

theorem runTrace_term (c : Cfg) (s : St) (os : List Outcome)
    (h : shouldTerminate c s = true) : runTrace c s os = (s, []) := by
  cases os <;> simp [runTrace, h]

theorem runTrace_step (c : Cfg) (s : St) (o : Outcome) (os : List Outcome)
    (h : shouldTerminate c s = false) :
    runTrace c s (o :: os)
      = ((runTrace c (apply c s o).1 os).1, (apply c s o).2 ++ (runTrace c (apply c s o).1 os).2) := by
  simp [runTrace, h]

/-- what `apply` does to the counters, by class -/
theorem apply_ok (c : Cfg) (s : St) (o : Outcome) (d : Nat) (h : classify c o = .ok d) :
    apply c s o = ({ s with consec := 0, maxInv := s.maxInv + 1, samples := s.samples + (d - c.warmup),
                            succeeded := true },
                   [.start (s.maxInv + 1), .record (s.maxInv + 1) d]) := by
  simp [apply, h]

theorem apply_fail (c : Cfg) (s : St) (o : Outcome) (h : classify c o = .fail) :
    apply c s o = ({ s with consec := s.consec + 1, failed := s.failed + 1 }, [.start (s.maxInv + 1)]) := by
  simp [apply, h]

theorem apply_notFound (c : Cfg) (s : St) (o : Outcome) (h : classify c o = .notFound) :
    apply c s o = ({ s with failNow := true, exeMissing := true }, [.start (s.maxInv + 1)]) := by
  simp [apply, h]

theorem apply_osErr (c : Cfg) (s : St) (o : Outcome) (h : classify c o = .osErr) :
    apply c s o = ({ s with failNow := true }, [.start (s.maxInv + 1)]) := by
  simp [apply, h]

/-- `maxInv` never decreases and grows by at most one per process -/
theorem apply_maxInv (c : Cfg) (s : St) (o : Outcome) :
    (apply c s o).1.maxInv = s.maxInv ∨ (apply c s o).1.maxInv = s.maxInv + 1 := by
  unfold apply; split <;> simp

theorem numbered_append (m : Nat) (a b : List Ev) :
    numbered m (a ++ b) = (numbered m a && numbered (m + (recorded a).length) b) := by
  induction a generalizing m with
  | nil => simp [numbered, recorded]
  | cons e a ih =>
    cases e with
    | start i => simp [numbered, recorded, ih, Bool.and_assoc]
    | record i d =>
      simp only [List.cons_append, numbered, recorded, ih, List.length_cons, Bool.and_assoc]
      congr 2; congr 1; omega
    | build b => simp [numbered, recorded, ih]

/-- the events of one process are well numbered and record iff `maxInv` moved -/
theorem apply_numbered (c : Cfg) (s : St) (o : Outcome) :
    numbered s.maxInv (apply c s o).2 = true ∧
    s.maxInv + (recorded (apply c s o).2).length = (apply c s o).1.maxInv := by
  unfold apply; split <;> simp [numbered, recorded]

/-- well-numbered events record consecutive numbers -/
theorem numbered_recorded (m : Nat) (es : List Ev) (h : numbered m es = true) :
    recorded es = List.range' (m + 1) (recorded es).length := by
  induction es generalizing m with
  | nil => simp [recorded]
  | cons e es ih =>
    cases e with
    | start i => simp [numbered] at h; simpa [recorded] using ih m h.2
    | record i d =>
      simp [numbered] at h
      simp only [recorded, List.length_cons, List.range'_succ, h.1]
      rw [← ih (m + 1) h.2]
    | build b => simp [numbered] at h; simpa [recorded] using ih m h

end RB.Term
