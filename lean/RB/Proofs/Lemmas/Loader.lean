/-
Helper lemmas about the loader model (`RB/Model/Loader.lean`).
-/
import RB.Model.Loader

namespace RB.Loader

/-! ### folds -/

theorem loadFrom_append (v : Variant) (a b : List Rec) (st : LState) :
    loadFrom v st (a ++ b) = (loadFrom v st a).bind (fun st' => loadFrom v st' b) := by
  induction a generalizing st with
  | nil => rfl
  | cons r rs ih =>
    simp only [List.cons_append, loadFrom]
    cases step v st r with
    | ok st' => exact ih st'
    | error e => rfl

theorem loadFrom_append_ok {v : Variant} {a b : List Rec} {st st1 : LState}
    (h : loadFrom v st a = .ok st1) : loadFrom v st (a ++ b) = loadFrom v st1 b := by
  rw [loadFrom_append, h]; rfl

/-- loading is prefix closed: if the whole list loads, every prefix loads -/
theorem loadFrom_prefix_ok {v : Variant} {a b : List Rec} {st st2 : LState}
    (h : loadFrom v st (a ++ b) = .ok st2) : ∃ st1, loadFrom v st a = .ok st1 ∧ loadFrom v st1 b = .ok st2 := by
  rw [loadFrom_append] at h
  cases h1 : loadFrom v st a with
  | ok st1 => rw [h1] at h; exact ⟨st1, rfl, h⟩
  | error e => rw [h1] at h; cases h

/-! ### the open data point -/

/-- the data point a measurement of run `r` is added to -/
def eff (st : LState) (r : Nat) : Open :=
  match st.cur with
  | some o => if o.run = r then o else fresh r
  | none => fresh r

/-- nothing is waiting for its total -/
def Clean (c : Option Open) : Prop := ∀ o, c = some o → o.inv = none ∧ o.ms = []

theorem clean_none : Clean none := by intro o h; cases h
theorem clean_fresh (r : Nat) : Clean (some (fresh r)) := by
  intro o h; cases h; exact ⟨rfl, rfl⟩

theorem eff_clean {st : LState} (h : Clean st.cur) (r : Nat) : eff st r = fresh r := by
  unfold eff
  cases hc : st.cur with
  | none => rfl
  | some o =>
    simp only
    split
    · next hr =>
      obtain ⟨h1, h2⟩ := h o hc
      cases o; simp_all [fresh]
    · rfl

theorem stepMeas_eq (st : LState) (m : Meas) (r : Nat) (hr : st.runs[m.runIdx]? = some r) :
    stepMeas st m =
      (if (eff st r).inv.isSome && (eff st r).inv ≠ some m.inv then .error .uiError
       else if m.total then
         .ok { st with loaded := st.loaded ++ [⟨r, m.inv, (eff st r).ms ++ [(m.it, m.crit, m.value)]⟩],
                       cur := some (fresh r) }
       else .ok { st with cur := some ⟨r, some m.inv, (eff st r).ms ++ [(m.it, m.crit, m.value)]⟩ }) := by
  unfold stepMeas eff
  rw [hr]
  rfl

/-- the measurement lines of one data point, read from a state whose open data point for the run
holds `acc` (all of the same invocation): exactly one data point is handed over, made of `acc`
and these lines -/
theorem load_lines (v : Variant) (r idx inv it : Nat) (tot : Text) :
    ∀ (cs : List (Text × Text)) (st : LState) (acc : List M),
      st.runs[idx]? = some r → (eff st r).ms = acc →
      ((eff st r).inv = none ∨ (eff st r).inv = some inv) →
      loadFrom v st (cs.map (fun cv => Rec.meas ⟨inv, it, cv.2, cv.1, false, idx⟩)
                      ++ [Rec.meas ⟨inv, it, tot, totalName, true, idx⟩])
        = .ok { st with
            loaded := st.loaded ++ [⟨r, inv, acc ++ cs.map (fun cv => (it, cv.1, cv.2)) ++ [(it, totalName, tot)]⟩],
            cur := some (fresh r) } := by
  intro cs
  induction cs with
  | nil =>
    intro st acc hr hacc hinv
    simp only [List.map_nil, List.nil_append, loadFrom, step, List.append_nil]
    rw [stepMeas_eq st _ r hr]
    have : ((eff st r).inv.isSome && (eff st r).inv ≠ some inv) = false := by
      rcases hinv with h | h <;> simp [h]
    simp only [this, hacc]
    simp
  | cons c cs ih =>
    intro st acc hr hacc hinv
    simp only [List.map_cons, List.cons_append, loadFrom, step]
    rw [stepMeas_eq st _ r hr]
    have : ((eff st r).inv.isSome && (eff st r).inv ≠ some inv) = false := by
      rcases hinv with h | h <;> simp [h]
    simp only [this, hacc]
    simp only [Bool.false_eq_true, ↓reduceIte]
    have hst := ih { st with cur := some ⟨r, some inv, acc ++ [(it, c.1, c.2)]⟩ } (acc ++ [(it, c.1, c.2)])
      hr (by simp [eff]) (by simp [eff])
    rw [hst]
    simp [List.append_assoc]

/-- a whole data point read from a clean state -/
theorem load_dpRecs (v : Variant) (st : LState) (d : WDP) (idx : Nat)
    (hr : st.runs[idx]? = some d.run) (hc : Clean st.cur) :
    loadFrom v st (dpRecs idx d)
      = .ok { st with loaded := st.loaded ++ [d.toDP], cur := some (fresh d.run) } := by
  unfold dpRecs
  have h := load_lines v d.run idx d.inv d.it d.total d.crits st [] hr
    (by rw [eff_clean hc]; rfl) (by rw [eff_clean hc]; exact Or.inl rfl)
  rw [h]
  simp [WDP.toDP, WDP.ms]

/-! ### metadata records -/

theorem idxOf_getElem? (l : List Nat) (x : Nat) (h : x ∈ l) : l[l.idxOf x]? = some x := by
  induction l with
  | nil => cases h
  | cons a l ih =>
    by_cases hax : a = x
    · subst hax; simp
    · have hx : x ∈ l := by
        cases h with
        | head => exact absurd rfl hax
        | tail _ h => exact h
      rw [List.idxOf_cons]
      have : (a == x) = false := by simpa using hax
      rw [this]
      simpa using ih hx

theorem mem_ensure_runs (tb : Tables) (d : WDP) : d.run ∈ (tb.ensure d).runs := by
  unfold Tables.ensure
  split
  · assumption
  · simp

theorem mem_ensure_benches (tb : Tables) (d : WDP) (h : d.run ∉ tb.runs) : d.bench ∈ (tb.ensure d).benches := by
  unfold Tables.ensure
  rw [if_neg h]
  simp only
  split
  · assumption
  · simp

@[simp] theorem atComment_benches (v : Variant) (st : LState) : (atComment v st).benches = st.benches := by
  unfold atComment; split <;> rfl
@[simp] theorem atComment_runs (v : Variant) (st : LState) : (atComment v st).runs = st.runs := by
  unfold atComment; split <;> rfl
@[simp] theorem atComment_loaded (v : Variant) (st : LState) : (atComment v st).loaded = st.loaded := by
  unfold atComment; split <;> rfl
theorem clean_atComment (v : Variant) {st : LState} (hc : Clean st.cur) : Clean (atComment v st).cur := by
  unfold atComment; split
  · exact clean_none
  · exact hc

theorem step_bench_ok (v : Variant) (st : LState) (key : Nat) (h : key ∉ st.benches) :
    step v st (.bench st.benches.length key)
      = .ok { atComment v st with benches := st.benches ++ [key] } := by
  simp [step, h]

theorem step_run_ok (v : Variant) (st : LState) (bid key : Nat) (h : bid < st.benches.length) :
    step v st (.run st.runs.length bid key)
      = .ok { atComment v st with runs := st.runs ++ [key] } := by
  simp [step, h]

/-- the metadata records a session writes before a data point load without complaint and
leave exactly the writer's tables -/
theorem load_metaRecs (v : Variant) (st : LState) (d : WDP) (hc : Clean st.cur) :
    ∃ st', loadFrom v st (metaRecs st.tables d) = .ok st' ∧ st'.tables = st.tables.ensure d
      ∧ st'.loaded = st.loaded ∧ Clean st'.cur := by
  unfold metaRecs
  by_cases hrun : d.run ∈ st.runs
  · have hrun' : d.run ∈ st.tables.runs := hrun
    rw [if_pos hrun']
    exact ⟨st, rfl, by unfold Tables.ensure; rw [if_pos hrun'], rfl, hc⟩
  · have hrun' : d.run ∉ st.tables.runs := hrun
    rw [if_neg hrun']
    by_cases hb : d.bench ∈ st.benches
    · have hb' : d.bench ∈ st.tables.benches := hb
      have hens : st.tables.ensure d = ⟨st.benches, st.runs ++ [d.run]⟩ := by
        unfold Tables.ensure; rw [if_neg hrun', if_pos hb']; rfl
      rw [if_pos hb', hens]
      have hidx : st.benches.idxOf d.bench < st.benches.length := List.idxOf_lt_length_of_mem hb
      simp only [List.nil_append, loadFrom]
      rw [show st.tables.runs.length = st.runs.length from rfl, step_run_ok v st _ _ hidx]
      exact ⟨_, rfl, by simp [LState.tables], by simp, clean_atComment v hc⟩
    · have hb' : d.bench ∉ st.tables.benches := hb
      have hens : st.tables.ensure d = ⟨st.benches ++ [d.bench], st.runs ++ [d.run]⟩ := by
        unfold Tables.ensure; rw [if_neg hrun', if_neg hb']; rfl
      rw [if_neg hb', hens]
      simp only [List.cons_append, List.nil_append, loadFrom]
      rw [show st.tables.benches.length = st.benches.length from rfl, step_bench_ok v st _ hb]
      simp only
      let st1 : LState := { atComment v st with benches := st.benches ++ [d.bench] }
      have hidx : (st.benches ++ [d.bench]).idxOf d.bench < st1.benches.length :=
        List.idxOf_lt_length_of_mem (by simp)
      have hr1 : st.tables.runs.length = st1.runs.length := by simp [st1, LState.tables]
      rw [hr1]
      have := step_run_ok v st1 _ d.run hidx
      rw [this]
      refine ⟨_, rfl, by simp [LState.tables, st1], by simp [st1], ?_⟩
      exact clean_atComment v (st := st1) (clean_atComment v hc)

/-- one `persist_data_point`: metadata (if new) and the lines, read from a clean state -/
theorem load_emitDP (v : Variant) (st : LState) (d : WDP) (hc : Clean st.cur) :
    ∃ st', loadFrom v st (emitDP st.tables d) = .ok st' ∧ st'.tables = st.tables.ensure d
      ∧ st'.loaded = st.loaded ++ [d.toDP] ∧ Clean st'.cur := by
  obtain ⟨st1, h1, ht, hl, hc1⟩ := load_metaRecs v st d hc
  unfold emitDP
  rw [loadFrom_append_ok h1]
  have hr : st1.runs[(st.tables.ensure d).runs.idxOf d.run]? = some d.run := by
    have : st1.runs = (st.tables.ensure d).runs := by rw [← ht]; rfl
    rw [this]; exact idxOf_getElem? _ _ (mem_ensure_runs _ _)
  rw [load_dpRecs v st1 d _ hr hc1]
  refine ⟨_, rfl, ?_, ?_, clean_fresh _⟩
  · simpa [LState.tables] using ht
  · simp [hl]

theorem load_emitAll (v : Variant) : ∀ (ds : List WDP) (st : LState), Clean st.cur →
    ∃ st', loadFrom v st (emitAll st.tables ds) = .ok st' ∧ st'.tables = ensureAll st.tables ds
      ∧ st'.loaded = st.loaded ++ ds.map WDP.toDP ∧ Clean st'.cur := by
  intro ds
  induction ds with
  | nil => intro st hc; exact ⟨st, rfl, rfl, by simp, hc⟩
  | cons d ds ih =>
    intro st hc
    obtain ⟨st1, h1, ht1, hl1, hc1⟩ := load_emitDP v st d hc
    obtain ⟨st2, h2, ht2, hl2, hc2⟩ := ih st1 hc1
    refine ⟨st2, ?_, ?_, ?_, hc2⟩
    · simp only [emitAll]
      rw [loadFrom_append_ok h1, ← ht1]; exact h2
    · rw [ht2, ht1]; rfl
    · rw [hl2, hl1]; simp

theorem load_block (v : Variant) (st : LState) (g e : Bool) :
    loadFrom v st (blockRecs g e) = .ok (atComment v st) := by
  have hat : ∀ s : LState, atComment v (atComment v s) = atComment v s := by
    intro s; unfold atComment; split <;> simp_all
  cases g <;> cases e <;> simp [blockRecs, loadFrom, step, hat]

theorem atComment_tables (v : Variant) (st : LState) : (atComment v st).tables = st.tables := by
  unfold atComment; split <;> rfl

/-! ### records that do not complete a data point -/

def isTotal : Rec → Bool
  | .meas m => m.total
  | _ => false

theorem stepMeas_loaded_of_not_total {st st' : LState} {m : Meas} (hm : m.total = false)
    (h : stepMeas st m = .ok st') : st'.loaded = st.loaded := by
  cases hr : st.runs[m.runIdx]? with
  | none => unfold stepMeas at h; rw [hr] at h; cases h
  | some r =>
    rw [stepMeas_eq st m r hr, hm] at h
    by_cases hc : ((eff st r).inv.isSome && decide ((eff st r).inv ≠ some m.inv)) = true
    · rw [if_pos hc] at h; cases h
    · rw [if_neg hc] at h
      simp only [Bool.false_eq_true, ↓reduceIte, Except.ok.injEq] at h
      rw [← h]

theorem tolerate_loaded {b : Bool} {st st' : LState} {e : Exc} (h : tolerate b st e = .ok st') : st' = st := by
  unfold tolerate at h
  split at h
  · cases h
  · split at h
    · cases h; rfl
    · cases h

theorem step_loaded_of_not_total {v : Variant} {st st' : LState} {r : Rec} (hr : isTotal r = false)
    (h : step v st r = .ok st') : st'.loaded = st.loaded := by
  cases r with
  | session => simp only [step] at h; cases h; exact atComment_loaded v st
  | comment => simp only [step] at h; cases h; exact atComment_loaded v st
  | header => simp only [step] at h; cases h; rfl
  | bench id key =>
    simp only [step] at h
    split at h
    · cases h
    · split at h
      · cases h
      · cases h; exact atComment_loaded v st
  | run id bid key =>
    simp only [step] at h
    split at h
    · split at h
      · cases h
      · cases h; exact atComment_loaded v st
    · rw [tolerate_loaded h]; exact atComment_loaded v st
  | metaErr e => simp only [step] at h; rw [tolerate_loaded h]; exact atComment_loaded v st
  | meas m => exact stepMeas_loaded_of_not_total (by simpa [isTotal] using hr) (by simpa [step] using h)
  | dataErr e => simp only [step] at h; rw [tolerate_loaded h]

/-- data points are handed over only at `total` lines -/
theorem loadFrom_loaded_of_no_total {v : Variant} : ∀ (rs : List Rec) (st st' : LState),
    (∀ r ∈ rs, isTotal r = false) → loadFrom v st rs = .ok st' → st'.loaded = st.loaded := by
  intro rs
  induction rs with
  | nil => intro st st' _ h; cases h; rfl
  | cons r rs ih =>
    intro st st' hall h
    simp only [loadFrom] at h
    cases hs : step v st r with
    | error e => rw [hs] at h; cases h
    | ok st1 =>
      rw [hs] at h
      rw [ih st1 st' (fun r hr => hall r (List.mem_cons_of_mem _ hr)) h]
      exact step_loaded_of_not_total (hall r (List.mem_cons_self ..)) hs

/-! ### text level -/

theorem splitOn_ne_nil (sep : Char) (t : Text) : splitOn sep t ≠ [] := by
  induction t with
  | nil => simp [splitOn]
  | cons c cs ih =>
    unfold splitOn
    split
    · simp
    · split <;> simp

theorem splitOn_nosep (sep : Char) : ∀ f : Text, sep ∉ f → splitOn sep f = [f] := by
  intro f
  induction f with
  | nil => intro _; rfl
  | cons c cs ih =>
    intro hf
    have hc : c ≠ sep := fun e => hf (by simp [e])
    have hcs : sep ∉ cs := fun e => hf (List.mem_cons_of_mem _ e)
    unfold splitOn
    rw [if_neg hc, ih hcs]

theorem splitOn_append_sep (sep : Char) (rest : Text) : ∀ f : Text, sep ∉ f →
    splitOn sep (f ++ sep :: rest) = f :: splitOn sep rest := by
  intro f
  induction f with
  | nil => intro _; simp only [List.nil_append]; rw [splitOn, if_pos rfl]
  | cons c cs ih =>
    intro hf
    have hc : c ≠ sep := fun e => hf (by simp [e])
    have hcs : sep ∉ cs := fun e => hf (List.mem_cons_of_mem _ e)
    simp only [List.cons_append]
    rw [splitOn, if_neg hc, ih hcs]

/-- fields that do not contain the separator survive joining and splitting -/
theorem splitOn_joinWith (sep : Char) : ∀ (fs : List Text), fs ≠ [] → (∀ f ∈ fs, sep ∉ f) →
    splitOn sep (joinWith sep fs) = fs := by
  intro fs
  induction fs with
  | nil => intro h; exact absurd rfl h
  | cons f fs ih =>
    intro _ hsep
    have hf : sep ∉ f := hsep f (List.mem_cons_self ..)
    cases fs with
    | nil => simp only [joinWith]; exact splitOn_nosep sep f hf
    | cons g gs =>
      have ih' := ih (by simp) (fun x hx => hsep x (List.mem_cons_of_mem _ hx))
      simp only [joinWith]
      rw [splitOn_append_sep sep _ f hf, ih']

/-- the last field of a line that ends in separator-free text `b` ends in `b` -/
theorem splitOn_getLast_append (sep : Char) (b : Text) (hb : sep ∉ b) :
    ∀ a : Text, ∃ x, (splitOn sep (a ++ b)).getLast? = some (x ++ b) := by
  intro a
  induction a with
  | nil =>
    refine ⟨[], ?_⟩
    simp only [List.nil_append]
    rw [splitOn_nosep sep b hb]; rfl
  | cons c cs ih =>
    obtain ⟨x, hx⟩ := ih
    simp only [List.cons_append]
    unfold splitOn
    split
    · refine ⟨x, ?_⟩
      rw [List.getLast?_cons_of_ne_nil (splitOn_ne_nil _ _)] at *
      exact hx
    · cases hs : splitOn sep (cs ++ b) with
      | nil => exact absurd hs (splitOn_ne_nil _ _)
      | cons f fs =>
        rw [hs] at hx
        simp only
        cases fs with
        | nil =>
          simp only [List.getLast?_singleton, Option.some.injEq] at hx
          exact ⟨c :: x, by simp [hx]⟩
        | cons g gs =>
          refine ⟨x, ?_⟩
          rw [List.getLast?_cons_cons] at hx ⊢
          exact hx

theorem pyNat?_none_of_nondigit (s : Text) (c : Char) (hc : c ∈ s) (hd : isDigit c = false) : pyNat? s = none := by
  unfold pyNat?
  split
  · rfl
  · split
    · next h =>
      have := List.all_eq_true.mp h c hc
      rw [hd] at this; cases this
    · rfl

theorem classifyData_meas_last {f : List Text} {m : Meas} (h : classifyData f = .meas m) :
    ∃ last, f.getLast? = some last ∧ pyNat? last = some m.runIdx := by
  unfold classifyData at h
  cases h0 : pyNat? (f.headD []) with
  | none => simp only [h0] at h; cases h
  | some inv =>
  simp only [h0] at h
  cases h1 : f[1]? with
  | none => simp only [h1] at h; cases h
  | some f1 =>
  simp only [h1] at h
  cases h1' : pyNat? f1 with
  | none => simp only [h1'] at h; cases h
  | some it =>
  simp only [h1'] at h
  cases h2 : f[2]? with
  | none => simp only [h2] at h; cases h
  | some f2 =>
  simp only [h2] at h
  cases h2' : pyFloatOk f2 with
  | false => simp only [h2'] at h; cases h
  | true =>
  simp only [h2'] at h
  cases h3 : f[3]? with
  | none => simp only [h3] at h; cases h
  | some f3 =>
  simp only [h3] at h
  cases h4 : f[4]? with
  | none => simp only [h4] at h; cases h
  | some crit =>
  simp only [h4] at h
  cases h5 : lastAfter5 f with
  | none => simp only [h5] at h; cases h
  | some last =>
  simp only [h5] at h
  cases h6 : pyNat? last with
  | none => simp only [h6] at h; cases h
  | some idx =>
  simp only [h6, Bool.not_true, Bool.false_eq_true, ↓reduceIte, Rec.meas.injEq] at h
  refine ⟨last, ?_, ?_⟩
  · unfold lastAfter5 at h5
    rw [List.getLast?_drop] at h5
    split at h5
    · cases h5
    · exact h5
  · rw [← h]; exact h6

/-! ### counting data points per invocation (resume) -/

/-- number of written data points of (run, invocation) -/
def cnt (ds : List WDP) (r i : Nat) : Nat := (ds.filter (fun d => d.run = r && d.inv = i)).length

theorem countInv_map_toDP (ds : List WDP) (r i : Nat) : countInv (ds.map WDP.toDP) r i = cnt ds r i := by
  unfold countInv cnt
  induction ds with
  | nil => rfl
  | cons d ds ih =>
    simp only [List.map_cons, List.filter_cons, WDP.toDP] at ih ⊢
    split <;> simp [ih]

theorem countInv_append (a b : List DP) (r i : Nat) : countInv (a ++ b) r i = countInv a r i + countInv b r i := by
  simp [countInv, List.filter_append]

theorem cnt_append (a b : List WDP) (r i : Nat) : cnt (a ++ b) r i = cnt a r i + cnt b r i := by
  simp [cnt, List.filter_append]

theorem cnt_invDPs (val : Nat → Nat → Nat → Text) (c : RunCfg) (a r i : Nat) :
    cnt (invDPs val c a) r i = if c.run = r ∧ a = i then c.iterations else 0 := by
  unfold cnt invDPs
  by_cases h : c.run = r ∧ a = i
  · rw [if_pos h]
    rw [List.filter_eq_self.mpr]
    · simp
    · intro d hd
      obtain ⟨j, _, rfl⟩ := List.mem_map.mp hd
      simp [h.1, h.2]
  · rw [if_neg h]
    rw [List.filter_eq_nil_iff.mpr]
    · rfl
    · intro d hd
      obtain ⟨j, _, rfl⟩ := List.mem_map.mp hd
      simp only [Bool.and_eq_true, decide_eq_true_eq]
      exact h

theorem cnt_flatMap_inv (val : Nat → Nat → Nat → Text) (c : RunCfg) (r i : Nat) : ∀ (is : List Nat),
    cnt (is.flatMap (invDPs val c)) r i = if c.run = r then c.iterations * is.count i else 0 := by
  intro is
  induction is with
  | nil => simp [cnt]
  | cons a as ih =>
    rw [List.flatMap_cons, cnt_append, ih, cnt_invDPs]
    by_cases hr : c.run = r
    · by_cases ha : a = i
      · subst ha; simp [hr, Nat.mul_add, Nat.add_comm]
      · simp [hr, ha, List.count_cons]
    · simp [hr]

theorem count_todo (m N i : Nat) :
    ((List.range N).filterMap (fun j => if m ≤ j then some (j + 1) else none)).count i
      = if m < i ∧ i ≤ N then 1 else 0 := by
  induction N with
  | zero =>
    simp only [List.range_zero, List.filterMap_nil, List.count_nil]
    split
    · omega
    · rfl
  | succ N ih =>
    rw [List.range_succ, List.filterMap_append, List.count_append, ih]
    simp only [List.filterMap_cons, List.filterMap_nil]
    by_cases hm : m ≤ N
    · simp only [hm, ↓reduceIte, List.count_cons, List.count_nil]
      by_cases h1 : N + 1 = i
      · subst h1
        simp only [BEq.rfl, ↓reduceIte]
        rw [if_neg (by omega), if_pos (by omega)]
      · have : (N + 1 == i) = false := by simpa using h1
        simp only [this, Bool.false_eq_true, ↓reduceIte, Nat.add_zero]
        by_cases h2 : m < i ∧ i ≤ N
        · rw [if_pos h2, if_pos (by omega)]
        · rw [if_neg h2, if_neg (by omega)]
    · simp only [hm, ↓reduceIte, List.count_nil, Nat.add_zero]
      rw [if_neg (by omega), if_neg (by omega)]

theorem foldl_max_ge (r : Nat) : ∀ (l : List DP) (m : Nat),
    m ≤ l.foldl (fun m d => if d.run = r then max m d.inv else m) m ∧
    ∀ d ∈ l, d.run = r → d.inv ≤ l.foldl (fun m d => if d.run = r then max m d.inv else m) m := by
  intro l
  induction l with
  | nil => intro m; exact ⟨Nat.le_refl _, fun d hd => by cases hd⟩
  | cons x xs ih =>
    intro m
    simp only [List.foldl_cons]
    obtain ⟨h1, h2⟩ := ih (if x.run = r then max m x.inv else m)
    refine ⟨?_, ?_⟩
    · refine Nat.le_trans ?_ h1
      split
      · exact Nat.le_max_left _ _
      · exact Nat.le_refl _
    · intro d hd hr
      rcases List.mem_cons.mp hd with rfl | hd
      · refine Nat.le_trans ?_ h1
        rw [if_pos hr]; exact Nat.le_max_right _ _
      · exact h2 d hd hr

theorem countInv_zero_above (loaded : List DP) (r i : Nat) (h : maxInv loaded r < i) : countInv loaded r i = 0 := by
  unfold countInv
  rw [List.filter_eq_nil_iff.mpr]
  · rfl
  · intro d hd
    simp only [Bool.and_eq_true, decide_eq_true_eq]
    rintro ⟨hr, hi⟩
    have := (foldl_max_ge r loaded 0).2 d hd hr
    unfold maxInv at h
    omega

theorem cnt_other_runs (val : Nat → Nat → Nat → Text) (loaded : List DP) (r i : Nat) : ∀ (cs : List RunCfg),
    (∀ c' ∈ cs, c'.run ≠ r) → cnt (cs.flatMap (fun c => (todo loaded c).flatMap (invDPs val c))) r i = 0 := by
  intro cs
  induction cs with
  | nil => intro _; rfl
  | cons c cs ih =>
    intro h
    rw [List.flatMap_cons, cnt_append, cnt_flatMap_inv, if_neg (h c (List.mem_cons_self ..)),
      ih (fun c' hc' => h c' (List.mem_cons_of_mem _ hc'))]

theorem cnt_resume (val : Nat → Nat → Nat → Text) (loaded : List DP) (i : Nat) : ∀ (cfg : List RunCfg),
    cfg.Pairwise (fun a b => a.run ≠ b.run) → ∀ c ∈ cfg,
    cnt (resumeDPs val loaded cfg) c.run i = c.iterations * (todo loaded c).count i := by
  intro cfg
  unfold resumeDPs
  induction cfg with
  | nil => intro _ c hc; cases hc
  | cons c0 cs ih =>
    intro hp c hc
    rw [List.pairwise_cons] at hp
    rw [List.flatMap_cons, cnt_append, cnt_flatMap_inv]
    rcases List.mem_cons.mp hc with rfl | hc
    · rw [if_pos rfl, cnt_other_runs val loaded _ i cs (fun c' hc' => fun e => hp.1 c' hc' e.symm)]
      rfl
    · rw [if_neg (hp.1 c hc), ih hp.2 c hc, Nat.zero_add]

end RB.Loader
