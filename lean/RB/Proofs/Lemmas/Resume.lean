/-
Helper lemmas for the file-level `c08_resume_equiv`: file contents as a function of
the recorded invocations, through the scheduler loop and through loading.
-/
import RB.Proofs.Lemmas.Session
import RB.Proofs.C06
import RB.Proofs.C07

namespace RB.Session
open RB.DataFile

/-! ### lists -/

/-- two lists whose sub-lists per key agree, and whose elements all have one of the listed keys, are permutations -/
theorem perm_of_keyed {α κ : Type} [DecidableEq α] [DecidableEq κ] (key : α → κ) (keys : List κ) (l1 l2 : List α)
    (h : ∀ k ∈ keys, l1.filter (fun a => key a = k) = l2.filter (fun a => key a = k))
    (h1 : ∀ a ∈ l1, key a ∈ keys) (h2 : ∀ a ∈ l2, key a ∈ keys) : l1.Perm l2 := by
  rw [List.perm_iff_count]
  intro a
  by_cases hk : key a ∈ keys
  · have e1 : l1.count a = (l1.filter (fun x => key x = key a)).count a := by
      rw [List.count_filter]; simp
    have e2 : l2.count a = (l2.filter (fun x => key x = key a)).count a := by
      rw [List.count_filter]; simp
    rw [e1, e2, h _ hk]
  · have c1 : l1.count a = 0 := List.count_eq_zero.mpr (fun hm => hk (h1 a hm))
    have c2 : l2.count a = 0 := List.count_eq_zero.mpr (fun hm => hk (h2 a hm))
    rw [c1, c2]

theorem foldl_max_eq (l : List Nat) (m : Nat) (hle : ∀ x ∈ l, x ≤ m) (hm : m = 0 ∨ m ∈ l) :
    l.foldl max 0 = m := by
  have gen : ∀ (l : List Nat) (a : Nat), l.foldl max a = max a (l.foldl max 0) := by
    intro l
    induction l with
    | nil => intro a; simp
    | cons x xs ih => intro a; simp only [List.foldl_cons]; rw [ih (max a x), ih (max 0 x)]; omega
  have hub : ∀ (l : List Nat), (∀ x ∈ l, x ≤ m) → l.foldl max 0 ≤ m := by
    intro l
    induction l with
    | nil => intro _; simp
    | cons x xs ih =>
      intro h
      simp only [List.foldl_cons]; rw [gen]
      have := ih (fun y hy => h y (by simp [hy]))
      have := h x (by simp)
      omega
  have hlb : ∀ (l : List Nat), m ∈ l → m ≤ l.foldl max 0 := by
    intro l
    induction l with
    | nil => intro h; simp at h
    | cons x xs ih =>
      intro h
      simp only [List.foldl_cons]; rw [gen]
      rcases List.mem_cons.mp h with rfl | h
      · omega
      · have := ih h; omega
  have := hub l hle
  rcases hm with rfl | hm
  · omega
  · have := hlb l hm; omega

/-! ### what loading restores, in terms of measurement rows -/

variable {κ β : Type} [DecidableEq κ] [DecidableEq β] (benchOf : κ → β)

/-- the complete data points the loader sees among measurement rows -/
def totalsOfRows (rows : List (κ × Nat × Nat × Meas)) : List (Loaded κ) :=
  (rows.filter (fun p => p.2.2.2.value.loads && decide (p.2.2.2.crit = "total"))).map
    (fun p => { k := p.1, inv := p.2.1, it := p.2.2.1 })

omit [DecidableEq κ] in
theorem totalsOfRows_append (a b : List (κ × Nat × Nat × Meas)) :
    totalsOfRows (a ++ b) = totalsOfRows a ++ totalsOfRows b := by
  simp [totalsOfRows]

omit [DecidableEq κ] in
theorem totalsOfRows_dpProj (k : κ) (dp : DP) : totalsOfRows (dpProj k dp) = totalsOf k dp := by
  unfold totalsOfRows dpProj totalsOf
  induction dp.ms with
  | nil => rfl
  | cons m ms ih =>
    simp only [List.map_cons, List.filter_cons]
    split <;> simp_all

omit [DecidableEq κ] in
theorem totalsOfRows_flatMap (ops : List (κ × DP)) :
    totalsOfRows (ops.flatMap (fun op => dpProj op.1 op.2)) = ops.flatMap (fun op => totalsOf op.1 op.2) := by
  induction ops with
  | nil => rfl
  | cons op ops ih => simp [totalsOfRows_append, totalsOfRows_dpProj, ih]

/-- for every reachable file, what the loader reports is determined by the file's measurement rows -/
theorem reach_loaded {c : List (Line κ β)} (h : Reach benchOf c) :
    ∀ T ls, load (fun x => x) (fun x => x) c = .ok (T, ls) → ls = totalsOfRows (measRows c) := by
  induction h with
  | empty =>
    intro T ls hl
    simp [load, loadFrom] at hl
    simp [hl.2.symm, measRows, totalsOfRows]
  | session c T ls ops hr hl ih =>
    intro T' ls' hl'
    obtain ⟨T2, h2⟩ := c07_load_persist benchOf c T ls ops hr hl
    rw [h2] at hl'
    cases hl'
    have := c06_appended_exactly benchOf ops (FP.ofTables c T)
    have e := ih T ls hl
    unfold measRows at e ⊢
    rw [this, totalsOfRows_append, totalsOfRows_flatMap]
    simp only [FP.ofTables]
    rw [← e]

theorem maxInv_eq (k : κ) (ls : List (Loaded κ)) (m : Nat)
    (hle : ∀ l ∈ ls, l.k = k → l.inv ≤ m) (hm : m = 0 ∨ ∃ l ∈ ls, l.k = k ∧ l.inv = m) :
    maxInv k ls = m := by
  have key : maxInv k ls = ((ls.filter (fun l => l.k = k)).map (·.inv)).foldl max 0 := by
    unfold maxInv
    have gen : ∀ (ls : List (Loaded κ)) (a : Nat),
        ls.foldl (fun m l => if l.k = k then max m l.inv else m) a
          = ((ls.filter (fun l => l.k = k)).map (·.inv)).foldl max a := by
      intro ls
      induction ls with
      | nil => intro a; rfl
      | cons l ls ih =>
        intro a
        simp only [List.foldl_cons, List.filter_cons]
        by_cases h : l.k = k
        · simp [h, ih]
        · simp [h, ih]
    exact gen ls 0
  rw [key]
  apply foldl_max_eq
  · intro x hx
    simp only [List.mem_map, List.mem_filter, decide_eq_true_eq] at hx
    obtain ⟨l, ⟨hl, hk⟩, rfl⟩ := hx
    exact hle l hl hk
  · rcases hm with h | ⟨l, hl, hk, hi⟩
    · exact .inl h
    · right
      simp only [List.mem_map, List.mem_filter, decide_eq_true_eq]
      exact ⟨l, ⟨hl, hk⟩, hi⟩

/-! ### `_eval_output`: what recording the data points of one invocation does to the files -/

omit [DecidableEq κ] [DecidableEq β] in
theorem writeOps_append (a b : List (κ × DP)) (fp : FP κ β) [DecidableEq κ] [DecidableEq β] :
    writeOps benchOf (a ++ b) fp = writeOps benchOf b (writeOps benchOf a fp) := by
  simp [writeOps, List.foldl_append]

theorem recordDPs_spec (c : RunC κ) (inv : Nat) (hnd : c.files.Nodup) :
    ∀ (dps : List (List Meas)) (j : Nat) (files : List (FP κ β)) (f : Nat),
      (recordDPs benchOf c inv j dps files)[f]? =
        (files[f]?).map (fun fp =>
          if f ∈ c.files then writeOps benchOf ((numberDPs inv j dps).map (fun dp => (c.key, dp))) fp else fp) := by
  intro dps
  induction dps with
  | nil => intro j files f; simp [recordDPs, numberDPs, writeOps]
  | cons ms rest ih =>
    intro j files f
    simp only [recordDPs, numberDPs, List.map_cons]
    rw [ih (j + 1) _ f, c06_right_files benchOf c _ files f hnd]
    by_cases hf : f ∈ c.files
    · cases h : files[f]? <;> simp [hf, writeOps]
    · cases h : files[f]? <;> simp [hf]

omit [DecidableEq κ] [DecidableEq β] in
theorem recordDPs_length (c : RunC κ) (inv : Nat) [DecidableEq κ] [DecidableEq β] :
    ∀ (dps : List (List Meas)) (j : Nat) (files : List (FP κ β)),
      (recordDPs benchOf c inv j dps files).length = files.length := by
  intro dps
  induction dps with
  | nil => intro j files; rfl
  | cons ms rest ih =>
    intro j files
    simp only [recordDPs]
    rw [ih]
    unfold persistAll
    generalize c.files = fl
    induction fl generalizing files with
    | nil => rfl
    | cons g gs ihg => simp only [List.foldl_cons]; rw [ihg]; simp

/-! ### one `execute_run`: effect on files and progress -/

theorem step_effect (cfg : List (RunC κ)) (H : Harness) (stop : Option Nat) (s : St κ β) (i : Nat) (c : RunC κ)
    (hc : cfg[i]? = some c) (hi : i < s.runs.length) (s' : St κ β) (res : StepRes)
    (hstep : step benchOf cfg H stop s i = (s', res)) :
    (s'.files = s.files ∧ (s'.runs.getD i dfltRun).m = (s.runs.getD i dfltRun).m) ∨
    (∃ dps, H.out i ((s.runs.getD i dfltRun).m + 1) = some dps ∧
      s'.files = recordDPs benchOf c ((s.runs.getD i dfltRun).m + 1) 0 dps s.files ∧
      (s'.runs.getD i dfltRun).m = if dps.isEmpty then (s.runs.getD i dfltRun).m else (s.runs.getD i dfltRun).m + 1) := by
  unfold step at hstep
  simp only [hc] at hstep
  generalize hrs : s.runs.getD i dfltRun = rs at hstep ⊢
  by_cases ht : terminated c rs = true
  · simp only [ht, if_true, Prod.mk.injEq] at hstep
    obtain ⟨rfl, rfl⟩ := hstep
    exact .inl ⟨rfl, by rw [hrs]⟩
  · simp only [ht, Bool.false_eq_true, if_false] at hstep
    -- doBuilds leaves runs and files alone, whatever the build table says
    have hdb : ∀ (bs : List Nat) (s0 : St κ β), (doBuilds H stop bs s0).1.runs = s0.runs ∧
        (doBuilds H stop bs s0).1.files = s0.files := by
      intro bs
      induction bs with
      | nil => intro s0; simp [doBuilds]
      | cons b bs ih =>
        intro s0
        unfold doBuilds
        cases s0.builds.lookup b with
        | some ok => cases ok <;> simp [ih]
        | none =>
          simp only
          split
          · simp
          · split
            · have := ih { s0 with trace := s0.trace ++ [Ev.build b], builds := (b, true) :: s0.builds }
              simpa using this
            · simp
    obtain ⟨d1, d2⟩ := hdb c.builds s
    generalize hdbr : doBuilds H stop c.builds s = db at d1 d2 hstep
    obtain ⟨s1, br⟩ := db
    simp only at d1 d2
    have hi1 : i < s1.runs.length := by rw [d1]; exact hi
    have hrs1 : s1.runs.getD i dfltRun = rs := by rw [d1]; exact hrs
    cases br with
    | interrupted =>
      simp only [Prod.mk.injEq] at hstep
      obtain ⟨rfl, rfl⟩ := hstep
      exact .inl ⟨d2, by rw [hrs1]⟩
    | failed =>
      simp only [Prod.mk.injEq] at hstep
      obtain ⟨rfl, rfl⟩ := hstep
      left
      refine ⟨by simp [setRun, d2], ?_⟩
      rw [getD_setRun s1 i i _ hi1]; simp
    | ok =>
      simp only at hstep
      split at hstep
      · simp only [Prod.mk.injEq] at hstep
        obtain ⟨rfl, rfl⟩ := hstep
        exact .inl ⟨d2, by simpa using congrArg RunSt.m hrs1⟩
      · cases hout : H.out i (rs.m + 1) with
        | none =>
          simp only [hout, Prod.mk.injEq] at hstep
          obtain ⟨rfl, _⟩ := hstep
          left
          have hi2 : i < ({ s1 with trace := s1.trace ++ [Ev.start i (rs.m + 1)] } : St κ β).runs.length := hi1
          refine ⟨by simp [setRun, d2], ?_⟩
          rw [getD_setRun _ i i _ hi2]; simp
        | some dps =>
          simp only [hout, Prod.mk.injEq] at hstep
          obtain ⟨rfl, _⟩ := hstep
          right
          have hi2 : i < ({ s1 with trace := s1.trace ++ [Ev.start i (rs.m + 1)],
                                    files := recordDPs benchOf c (rs.m + 1) 0 dps s1.files } : St κ β).runs.length := hi1
          refine ⟨dps, rfl, by simp [setRun, d2], ?_⟩
          rw [getD_setRun _ i i _ hi2]
          simp only [if_true]
          split <;> simp

/-- the process starts of one `execute_run`: builds, then at most the next unrecorded invocation of that run -/
theorem step_trace (cfg : List (RunC κ)) (H : Harness) (stop : Option Nat) (s : St κ β) (i : Nat) (c : RunC κ)
    (hc : cfg[i]? = some c) (s' : St κ β) (res : StepRes)
    (hstep : step benchOf cfg H stop s i = (s', res)) :
    ∃ evs, s'.trace = s.trace ++ evs ∧
      ∀ e ∈ evs, (∃ b, e = .build b) ∨ e = .start i ((s.runs.getD i dfltRun).m + 1) := by
  unfold step at hstep
  simp only [hc] at hstep
  generalize hrs : s.runs.getD i dfltRun = rs at hstep ⊢
  by_cases ht : terminated c rs = true
  · simp only [ht, if_true, Prod.mk.injEq] at hstep
    obtain ⟨rfl, rfl⟩ := hstep
    exact ⟨[], by simp, by simp⟩
  · simp only [ht, Bool.false_eq_true, if_false] at hstep
    have hdb : ∀ (bs : List Nat) (s0 : St κ β), ∃ evs, (doBuilds H stop bs s0).1.trace = s0.trace ++ evs ∧
        ∀ e ∈ evs, ∃ b, e = Ev.build b := by
      intro bs
      induction bs with
      | nil => intro s0; exact ⟨[], by simp [doBuilds], by simp⟩
      | cons b bs ih =>
        intro s0
        unfold doBuilds
        cases s0.builds.lookup b with
        | some ok => cases ok
                     · exact ⟨[], by simp, by simp⟩
                     · exact ih s0
        | none =>
          simp only
          split
          · exact ⟨[.build b], rfl, by simp⟩
          · split
            · obtain ⟨evs, h1, h2⟩ := ih { s0 with trace := s0.trace ++ [Ev.build b], builds := (b, true) :: s0.builds }
              refine ⟨.build b :: evs, by simp [h1], ?_⟩
              intro e he
              rcases List.mem_cons.mp he with rfl | he
              · exact ⟨b, rfl⟩
              · exact h2 e he
            · exact ⟨[.build b], rfl, by simp⟩
    obtain ⟨evs, d4, d5⟩ := hdb c.builds s
    generalize hdbr : doBuilds H stop c.builds s = db at d4 hstep
    obtain ⟨s1, br⟩ := db
    simp only at d4
    have hb : ∀ e ∈ evs, (∃ b, e = Ev.build b) ∨ e = Ev.start i (rs.m + 1) := fun e he => .inl (d5 e he)
    have hb2 : ∀ e ∈ evs ++ [Ev.start i (rs.m + 1)], (∃ b, e = Ev.build b) ∨ e = Ev.start i (rs.m + 1) := by
      intro e he
      rcases List.mem_append.mp he with h | h
      · exact hb e h
      · simp at h; exact .inr h
    cases br with
    | interrupted =>
      simp only [Prod.mk.injEq] at hstep
      obtain ⟨rfl, rfl⟩ := hstep
      exact ⟨evs, d4, hb⟩
    | failed =>
      simp only [Prod.mk.injEq] at hstep
      obtain ⟨rfl, rfl⟩ := hstep
      exact ⟨evs, by simp [setRun, d4], hb⟩
    | ok =>
      simp only at hstep
      split at hstep
      · simp only [Prod.mk.injEq] at hstep
        obtain ⟨rfl, rfl⟩ := hstep
        exact ⟨evs ++ [.start i (rs.m + 1)], by simp [d4], hb2⟩
      · cases hout : H.out i (rs.m + 1) with
        | none =>
          simp only [hout, Prod.mk.injEq] at hstep
          obtain ⟨rfl, _⟩ := hstep
          exact ⟨evs ++ [.start i (rs.m + 1)], by simp [setRun, d4], hb2⟩
        | some dps =>
          simp only [hout, Prod.mk.injEq] at hstep
          obtain ⟨rfl, _⟩ := hstep
          exact ⟨evs ++ [.start i (rs.m + 1)], by simp [setRun, d4], hb2⟩

/-! ### file contents as a function of the recorded invocations -/

omit [DecidableEq κ] in
theorem keys_inj (cfg : List (RunC κ)) (hk : (cfg.map (·.key)).Nodup) (i j : Nat) (c cj : RunC κ)
    (hi : cfg[i]? = some c) (hj : cfg[j]? = some cj) (he : c.key = cj.key) : i = j := by
  have hil : i < (cfg.map (·.key)).length := by simp [(List.getElem?_eq_some_iff.mp hi).1]
  have hjl : j < (cfg.map (·.key)).length := by simp [(List.getElem?_eq_some_iff.mp hj).1]
  have e : (cfg.map (·.key))[i] = (cfg.map (·.key))[j] := by
    simp [(List.getElem?_eq_some_iff.mp hi).2, (List.getElem?_eq_some_iff.mp hj).2, he]
  exact (List.getElem_inj (h₀ := hil) (h₁ := hjl) hk).mp e

omit [DecidableEq κ] in
theorem numberDPs_keys (k : κ) (inv : Nat) (dps : List (List Meas)) (j : Nat) :
    ∀ p ∈ (numberDPs inv j dps).flatMap (dpProj k), p.1 = k := by
  induction dps generalizing j with
  | nil => intro p hp; simp [numberDPs] at hp
  | cons ms rest ih =>
    intro p hp
    simp only [numberDPs, List.flatMap_cons, List.mem_append] at hp
    rcases hp with hp | hp
    · simp only [dpProj, List.mem_map] at hp
      obtain ⟨m, _, rfl⟩ := hp; rfl
    · exact ih (j + 1) p hp

omit [DecidableEq κ] in
theorem expectedRows_succ (cfg : List (RunC κ)) (H : Harness) (i m : Nat) :
    expectedRows cfg H i (m + 1) = expectedRows cfg H i m ++ rowsOf cfg H i (m + 1) := by
  simp [expectedRows, List.range_succ, List.flatMap_append]

/-- the state of the data files during a session, relative to the files `init` it started from -/
structure FInv (cfg : List (RunC κ)) (H : Harness) (nfiles : Nat) (init : List (FP κ β)) (s : St κ β) : Prop where
  len : s.files.length = nfiles
  ops : ∀ f, f < nfiles → ∃ ops, s.files[f]? = (init[f]?).map (writeOps benchOf ops)
  rows : ∀ (f i : Nat) (c : RunC κ) (fp : FP κ β), cfg[i]? = some c → s.files[f]? = some fp →
    (measRows fp.content).filter (fun p => p.1 = c.key) =
      if f ∈ c.files then expectedRows cfg H i (s.runs.getD i dfltRun).m else []
  known : ∀ (f : Nat) (fp : FP κ β), s.files[f]? = some fp → ∀ p ∈ measRows fp.content,
    ∃ (i : Nat) (c : RunC κ), cfg[i]? = some c ∧ p.1 = c.key

theorem step_finv (cfg : List (RunC κ)) (H : Harness) (nfiles : Nat) (hcfg : CfgOK cfg nfiles)
    (init : List (FP κ β)) (stop : Option Nat) (s : St κ β) (i : Nat) (c : RunC κ)
    (hc : cfg[i]? = some c) (hi : i < s.runs.length)
    (hothers : ∀ s' res, step benchOf cfg H stop s i = (s', res) →
      ∀ j, j ≠ i → s'.runs.getD j dfltRun = s.runs.getD j dfltRun)
    (hF : FInv benchOf cfg H nfiles init s) (s' : St κ β) (res : StepRes)
    (hstep : step benchOf cfg H stop s i = (s', res)) :
    FInv benchOf cfg H nfiles init s' := by
  have hoth := hothers s' res hstep
  have hcmem : c ∈ cfg := List.mem_of_getElem? hc
  obtain ⟨_, hnd, _⟩ := hcfg.files c hcmem
  rcases step_effect benchOf cfg H stop s i c hc hi s' res hstep with ⟨hf, hm⟩ | ⟨dps, hout, hf, hm⟩
  · -- nothing recorded
    have hruns : ∀ j, (s'.runs.getD j dfltRun).m = (s.runs.getD j dfltRun).m := by
      intro j
      by_cases hji : j = i
      · subst hji; exact hm
      · rw [hoth j hji]
    refine ⟨by rw [hf]; exact hF.len, fun f hfl => by rw [hf]; exact hF.ops f hfl, ?_, ?_⟩
    · intro f j cj fp hcj hfp
      rw [hf] at hfp
      rw [hruns j]
      exact hF.rows f j cj fp hcj hfp
    · intro f fp hfp
      rw [hf] at hfp
      exact hF.known f fp hfp
  · -- the data points of invocation m+1 are recorded
    generalize hm0 : (s.runs.getD i dfltRun).m = m0 at hout hf hm
    have hnew : ∀ f, s'.files[f]? = (s.files[f]?).map (fun fp =>
        if f ∈ c.files then writeOps benchOf ((numberDPs (m0 + 1) 0 dps).map (fun dp => (c.key, dp))) fp else fp) := by
      intro f; rw [hf]; exact recordDPs_spec benchOf c (m0 + 1) hnd dps 0 s.files f
    have hrowsOf : rowsOf cfg H i (m0 + 1) = (numberDPs (m0 + 1) 0 dps).flatMap (dpProj c.key) := by
      simp [rowsOf, hc, hout]
    have hflat : ((numberDPs (m0 + 1) 0 dps).map (fun dp => (c.key, dp))).flatMap (fun op => dpProj op.1 op.2)
        = rowsOf cfg H i (m0 + 1) := by
      rw [hrowsOf]; simp [List.flatMap_map]
    refine ⟨by rw [hf, recordDPs_length]; exact hF.len, ?_, ?_, ?_⟩
    · intro f hfl
      obtain ⟨ops, hops⟩ := hF.ops f hfl
      by_cases hfc : f ∈ c.files
      · refine ⟨ops ++ (numberDPs (m0 + 1) 0 dps).map (fun dp => (c.key, dp)), ?_⟩
        rw [hnew f, hops]
        cases init[f]? with
        | none => rfl
        | some fp0 => simp [hfc, writeOps_append]
      · refine ⟨ops, ?_⟩
        rw [hnew f, hops]
        cases init[f]? with
        | none => rfl
        | some fp0 => simp [hfc]
    · intro f j cj fp' hcj hfp'
      rw [hnew f] at hfp'
      cases hfp : s.files[f]? with
      | none => simp [hfp] at hfp'
      | some fp =>
        simp only [hfp, Option.map_some, Option.some.injEq] at hfp'
        have hold := hF.rows f j cj fp hcj hfp
        by_cases hfc : f ∈ c.files
        · simp only [hfc, if_true] at hfp'
          subst hfp'
          have happ := c06_appended_exactly benchOf ((numberDPs (m0 + 1) 0 dps).map (fun dp => (c.key, dp))) fp
          unfold measRows at hold ⊢
          rw [happ, hflat, List.filter_append, hold]
          by_cases hji : j = i
          · subst hji
            rw [hc] at hcj; cases hcj
            have hall : (rowsOf cfg H j (m0 + 1)).filter (fun p => p.1 = c.key) = rowsOf cfg H j (m0 + 1) := by
              rw [List.filter_eq_self]
              intro p hp
              rw [hrowsOf] at hp
              simp [numberDPs_keys c.key (m0 + 1) dps 0 p hp]
            rw [hall, hm0]
            simp only [hfc, if_true]
            rw [hm]
            by_cases hemp : dps.isEmpty = true
            · have : dps = [] := by simpa using hemp
              subst this
              simp [hrowsOf, numberDPs]
            · simp only [hemp, Bool.false_eq_true, if_false]
              rw [expectedRows_succ]
          · have hne : cj.key ≠ c.key := by
              intro e
              exact hji (keys_inj cfg hcfg.keys j i cj c hcj hc e)
            have hnone : (rowsOf cfg H i (m0 + 1)).filter (fun p => p.1 = cj.key) = [] := by
              rw [List.filter_eq_nil_iff]
              intro p hp
              rw [hrowsOf] at hp
              simp [numberDPs_keys c.key (m0 + 1) dps 0 p hp, Ne.symm hne]
            rw [hnone, hoth j hji]; simp
        · simp only [hfc, if_false] at hfp'
          subst hfp'
          rw [hold]
          by_cases hji : j = i
          · subst hji
            rw [hc] at hcj; cases hcj
            simp [hfc]
          · rw [hoth j hji]
    · intro f fp' hfp' p hp
      rw [hnew f] at hfp'
      cases hfp : s.files[f]? with
      | none => simp [hfp] at hfp'
      | some fp =>
        simp only [hfp, Option.map_some, Option.some.injEq] at hfp'
        by_cases hfc : f ∈ c.files
        · simp only [hfc, if_true] at hfp'
          subst hfp'
          have happ := c06_appended_exactly benchOf ((numberDPs (m0 + 1) 0 dps).map (fun dp => (c.key, dp))) fp
          unfold measRows at hp
          rw [happ, hflat, List.mem_append] at hp
          rcases hp with hp | hp
          · exact hF.known f fp hfp p hp
          · rw [hrowsOf] at hp
            exact ⟨i, c, hc, numberDPs_keys c.key (m0 + 1) dps 0 p hp⟩
        · simp only [hfc, if_false] at hfp'
          subst hfp'
          exact hF.known f fp hfp p hp

/-! ### between sessions -/

/-- the data files between two sessions: reachable, and their measurement rows are exactly those of the
invocations `1..m i` of every run `i`, for a progress `m` that never exceeds `K` -/
structure Between (cfg : List (RunC κ)) (H : Harness) (nfiles : Nat) (contents : List (List (Line κ β)))
    (m : Nat → Nat) : Prop where
  len : contents.length = nfiles
  reach : ∀ (f : Nat) (c : List (Line κ β)), contents[f]? = some c → Reach benchOf c
  rows : ∀ (f i : Nat) (c : RunC κ) (cont : List (Line κ β)), cfg[i]? = some c → contents[f]? = some cont →
    (measRows cont).filter (fun p => p.1 = c.key) = if f ∈ c.files then expectedRows cfg H i (m i) else []
  known : ∀ (f : Nat) (cont : List (Line κ β)), contents[f]? = some cont → ∀ p ∈ measRows cont,
    ∃ (i : Nat) (c : RunC κ), cfg[i]? = some c ∧ p.1 = c.key
  le : ∀ (i : Nat) (c : RunC κ), cfg[i]? = some c → m i ≤ recordedInTheEnd H c i

theorem loadAll_spec (contents : List (List (Line κ β))) (hr : ∀ c ∈ contents, Reach benchOf c) :
    ∃ loaded, loadAll (fun x => x) (fun x => x) contents = .ok loaded ∧ loaded.length = contents.length ∧
      ∀ (f : Nat) (c : List (Line κ β)), contents[f]? = some c →
        ∃ T ls, loaded[f]? = some (FP.ofTables c T, ls) ∧ load (fun x => x) (fun x => x) c = .ok (T, ls) := by
  induction contents with
  | nil => exact ⟨[], by simp [loadAll, loadAllWith], rfl, by simp⟩
  | cons c cs ih =>
    obtain ⟨rest, h1, h2, h3⟩ := ih (fun x hx => hr x (by simp [hx]))
    obtain ⟨_, _, T, ls, hl⟩ := c07_ids_consecutive benchOf (hr c (by simp))
    refine ⟨(FP.ofTables c T, ls) :: rest, by (unfold loadAll at h1 ⊢; simp [loadAllWith, hl, h1]), by simp [h2], ?_⟩
    intro f c' hf
    cases f with
    | zero => simp at hf; subst hf; exact ⟨T, ls, by simp, hl⟩
    | succ f => simp at hf; simpa using h3 f c' hf

omit [DecidableEq κ] in
theorem mem_numberDPs_rows (k : κ) (inv : Nat) (dps : List (List Meas)) (j : Nat) :
    ∀ p ∈ (numberDPs inv j dps).flatMap (dpProj k), p.2.1 = inv := by
  induction dps generalizing j with
  | nil => intro p hp; simp [numberDPs] at hp
  | cons ms rest ih =>
    intro p hp
    simp only [numberDPs, List.flatMap_cons, List.mem_append] at hp
    rcases hp with hp | hp
    · simp only [dpProj, List.mem_map] at hp
      obtain ⟨m, _, rfl⟩ := hp; rfl
    · exact ih (j + 1) p hp

omit [DecidableEq κ] in
theorem mem_expectedRows (cfg : List (RunC κ)) (H : Harness) (i m : Nat) :
    ∀ p ∈ expectedRows cfg H i m, 1 ≤ p.2.1 ∧ p.2.1 ≤ m := by
  intro p hp
  simp only [expectedRows, List.mem_flatMap, List.mem_range] at hp
  obtain ⟨t, ht, hp⟩ := hp
  unfold rowsOf at hp
  split at hp
  · have := mem_numberDPs_rows _ _ _ _ p hp
    omega
  · simp at hp

/-- what a new session restores for run `i` is the `m i` the files stand for -/
theorem restored_progress (cfg : List (RunC κ)) (H : Harness) (nfiles : Nat) (hcfg : CfgOK cfg nfiles)
    (hH : HarnessOK H) (contents : List (List (Line κ β))) (m : Nat → Nat)
    (hB : Between benchOf cfg H nfiles contents m)
    (loaded : List (FP κ β × List (Loaded κ))) (hlen : loaded.length = contents.length)
    (hl : ∀ (f : Nat) (c : List (Line κ β)), contents[f]? = some c →
        ∃ T ls, loaded[f]? = some (FP.ofTables c T, ls) ∧ load (fun x => x) (fun x => x) c = .ok (T, ls))
    (i : Nat) (c : RunC κ) (hc : cfg[i]? = some c) :
    (initRun c (loaded.map (·.2))).m = m i := by
  have hcmem : c ∈ cfg := List.mem_of_getElem? hc
  obtain ⟨hne, _, hrange⟩ := hcfg.files c hcmem
  -- per file
  have hfile : ∀ (f : Nat) (p : FP κ β × List (Loaded κ)), loaded[f]? = some p →
      maxInv c.key p.2 = if f ∈ c.files then m i else 0 := by
    intro f p hp
    have hf : f < contents.length := by
      rw [← hlen]; exact (List.getElem?_eq_some_iff.mp hp).1
    obtain ⟨T, ls, h1, h2⟩ := hl f contents[f] (by simp [hf])
    rw [hp] at h1; cases h1
    have hls := reach_loaded benchOf (hB.reach f _ (by simp [hf])) T ls h2
    have hrows := hB.rows f i c contents[f] hc (by simp [hf])
    simp only
    -- entries of ls with key c.key come from rows with that key
    have hfrom : ∀ l ∈ ls, l.k = c.key → ∃ p ∈ (measRows contents[f]).filter (fun p => p.1 = c.key),
        p.2.1 = l.inv ∧ p.2.2.2.value.loads = true ∧ p.2.2.2.crit = "total" := by
      intro l hl hk
      rw [hls] at hl
      simp only [totalsOfRows, List.mem_map, List.mem_filter, Bool.and_eq_true, decide_eq_true_eq] at hl
      obtain ⟨p, ⟨hp, hv, hcr⟩, rfl⟩ := hl
      have hk' : p.1 = c.key := hk
      exact ⟨p, by simp [List.mem_filter, hp, hk'], rfl, hv, hcr⟩
    by_cases hfc : f ∈ c.files
    · simp only [hfc, if_true] at hrows ⊢
      apply maxInv_eq
      · intro l hl hk
        obtain ⟨p, hp, he, _⟩ := hfrom l hl hk
        rw [hrows] at hp
        have := (mem_expectedRows cfg H i (m i) p hp).2
        omega
      · by_cases hm0 : m i = 0
        · exact .inl hm0
        · right
          -- invocation m i delivered data, and its first data point has a loadable total
          have hK := hB.le i c hc
          have hb : c.builds.all H.buildOk = true := by
            by_contra hb
            have : recordedInTheEnd H c i = 0 := by simp [recordedInTheEnd, hb]
            omega
          have hKp : recordedInTheEnd H c i = prefLen (delivers H i) c.invocations := by
            simp [recordedInTheEnd, hb]
          have hdel := prefLen_all (delivers H i) c.invocations (m i) (by omega) (by rw [← hKp]; exact hK)
          unfold delivers at hdel
          cases hout : H.out i (m i) with
          | none => simp [hout] at hdel
          | some dps =>
            cases dps with
            | nil => simp [hout] at hdel
            | cons ms rest =>
              obtain ⟨me, hme, hcrit, hloads⟩ := hH i (m i) (ms :: rest) hout ms (by simp)
              have hrow : (c.key, m i, 1, me) ∈ expectedRows cfg H i (m i) := by
                simp only [expectedRows, List.mem_flatMap, List.mem_range]
                refine ⟨m i - 1, by omega, ?_⟩
                have e : m i - 1 + 1 = m i := by omega
                rw [e]
                simp only [rowsOf, hc, hout, numberDPs, List.flatMap_cons, List.mem_append]
                left
                simp only [dpProj, List.mem_map]
                have hme' : me ∈ totalLast ms := by
                  unfold totalLast
                  simp only [List.mem_append, List.mem_filter, decide_eq_true_eq]
                  exact .inr ⟨hme, hcrit⟩
                exact ⟨me, hme', rfl⟩
              refine ⟨{ k := c.key, inv := m i, it := 1 }, ?_, rfl, rfl⟩
              rw [hls]
              simp only [totalsOfRows, List.mem_map, List.mem_filter, Bool.and_eq_true, decide_eq_true_eq]
              refine ⟨(c.key, m i, 1, me), ⟨?_, hloads, hcrit⟩, rfl⟩
              have : (c.key, m i, 1, me) ∈ (measRows contents[f]).filter (fun p => p.1 = c.key) := by
                rw [hrows]; exact hrow
              exact (List.mem_filter.mp this).1
    · simp only [hfc, if_false] at hrows ⊢
      apply maxInv_eq
      · intro l hl hk
        obtain ⟨p, hp, _⟩ := hfrom l hl hk
        rw [hrows] at hp; simp at hp
      · exact .inl rfl
  -- all files
  unfold initRun
  simp only
  apply foldl_max_eq
  · intro x hx
    simp only [List.mem_map] at hx
    obtain ⟨ls, ⟨p, hp, rfl⟩, rfl⟩ := hx
    obtain ⟨f, hf⟩ := List.getElem?_of_mem hp
    rw [hfile f p hf]
    split <;> omega
  · by_cases hm0 : m i = 0
    · exact .inl hm0
    · right
      obtain ⟨f0, hf0⟩ := List.exists_mem_of_ne_nil _ hne
      have hf0n : f0 < loaded.length := by rw [hlen, hB.len]; exact hrange f0 hf0
      simp only [List.mem_map]
      refine ⟨loaded[f0].2, ⟨loaded[f0], by simp, rfl⟩, ?_⟩
      rw [hfile f0 loaded[f0] (by simp [hf0n])]
      simp [hf0]

/-! ### one whole session keeps the files in step with the recorded invocations -/

theorem session_between (cfg : List (RunC κ)) (H : Harness) (nfiles : Nat) (hcfg : CfgOK cfg nfiles)
    (hH : HarnessOK H) (sched : Sched) (order choices : List Nat) (stop : Option Nat)
    (hord : ∀ i, i < cfg.length → i ∈ order)
    (contents : List (List (Line κ β))) (m : Nat → Nat) (hB : Between benchOf cfg H nfiles contents m) :
    ∃ m', Between benchOf cfg H nfiles
        (session benchOf (fun x => x) (fun x => x) cfg H sched order choices stop contents).contents m' ∧
      (∀ i, i < cfg.length → m i ≤ m' i) ∧
      ((session benchOf (fun x => x) (fun x => x) cfg H sched order choices stop contents).ending = .complete →
        ∀ (i : Nat) (c : RunC κ), cfg[i]? = some c → m' i = recordedInTheEnd H c i) := by
  obtain ⟨loaded, hload, hlen, hl⟩ := loadAll_spec benchOf contents
    (fun c hc => by obtain ⟨f, hf⟩ := List.getElem?_of_mem hc; exact hB.reach f c hf)
  have hm0 : ∀ (i : Nat) (c : RunC κ), cfg[i]? = some c → (initRun c (loaded.map (·.2))).m = m i :=
    restored_progress benchOf cfg H nfiles hcfg hH contents m hB loaded hlen hl
  unfold session sessionWith
  simp only [hload]
  generalize hruns0 : cfg.map (fun c => initRun c (loaded.map (·.2))) = runs0
  generalize htasks : List.filter _ order = tasks
  have hget0 : ∀ (i : Nat) (c : RunC κ), cfg[i]? = some c → runs0.getD i dfltRun = initRun c (loaded.map (·.2)) := by
    intro i c hc
    have hi : i < cfg.length := (List.getElem?_eq_some_iff.mp hc).1
    have hci : cfg[i] = c := (List.getElem?_eq_some_iff.mp hc).2
    rw [← hruns0]; simp [List.getD_eq_getElem?_getD, hi, hci]
  let s0 : St κ β := { files := loaded.map (·.1), runs := runs0, builds := [], trace := [] }
  -- scheduler invariant at the start
  have hL : LInv cfg H tasks s0 := by
    refine ⟨by show runs0.length = cfg.length; rw [← hruns0]; simp, ?_, ?_, ?_, ?_⟩
    · intro b ok h; simp [s0] at h
    · intro i c hc
      show RInv H c i (runs0.getD i dfltRun)
      rw [hget0 i c hc]
      exact ⟨by rw [hm0 i c hc]; exact hB.le i c hc, by simp [initRun], by simp [initRun], by simp [initRun]⟩
    · intro i c hc hni
      have hi : i < cfg.length := (List.getElem?_eq_some_iff.mp hc).1
      rw [← htasks] at hni
      simp only [List.mem_filter, hord i hi, true_and, hc, Bool.not_eq_true', Bool.not_eq_false] at hni
      exact hni
    · intro i hi
      rw [← htasks] at hi
      simp only [List.mem_filter] at hi
      cases hc : cfg[i]? with
      | none => simp [hc] at hi
      | some c => exact (List.getElem?_eq_some_iff.mp hc).1
  -- file invariant at the start
  have hF0 : FInv benchOf cfg H nfiles (loaded.map (·.1)) s0 := by
    refine ⟨by simp [s0, hlen, hB.len], ?_, ?_, ?_⟩
    · intro f _; exact ⟨[], by cases h : (loaded.map (·.1))[f]? <;> simp [s0, h, writeOps]⟩
    · intro f i c fp hc hfp
      have hfl : f < loaded.length := by
        have := (List.getElem?_eq_some_iff.mp hfp).1; simpa [s0] using this
      obtain ⟨T, ls, h1, _⟩ := hl f contents[f] (by simp [← hlen, hfl])
      have hfp' : fp = FP.ofTables contents[f] T := by
        simp only [s0, List.getElem?_map, h1, Option.map_some, Option.some.injEq] at hfp
        exact hfp.symm
      subst hfp'
      show List.filter _ (measRows (FP.ofTables contents[f] T).content) = if f ∈ c.files then
        expectedRows cfg H i (runs0.getD i dfltRun).m else []
      rw [hget0 i c hc, hm0 i c hc]
      exact hB.rows f i c contents[f] hc (by simp [← hlen, hfl])
    · intro f fp hfp
      have hfl : f < loaded.length := by
        have := (List.getElem?_eq_some_iff.mp hfp).1; simpa [s0] using this
      obtain ⟨T, ls, h1, _⟩ := hl f contents[f] (by simp [← hlen, hfl])
      have hfp' : fp = FP.ofTables contents[f] T := by
        simp only [s0, List.getElem?_map, h1, Option.map_some, Option.some.injEq] at hfp
        exact hfp.symm
      subst hfp'
      exact hB.known f contents[f] (by simp [← hlen, hfl])
  generalize hloop : loop benchOf cfg H stop sched (fuelFor cfg) choices tasks s0 = lr
  obtain ⟨s', res⟩ := lr
  have hstepF : ∀ (tasks : List Nat) (s : St κ β) (i : Nat) (c : RunC κ) (s1 : St κ β) (r1 : StepRes),
      LInv cfg H tasks s → i ∈ tasks → cfg[i]? = some c → FInv benchOf cfg H nfiles (loaded.map (·.1)) s →
      step benchOf cfg H stop s i = (s1, r1) → FInv benchOf cfg H nfiles (loaded.map (·.1)) s1 := by
    intro tasks s i c s1 r1 hLs himem hc hFs hst
    have hi : i < s.runs.length := by rw [hLs.len]; exact hLs.inRange i himem
    refine step_finv benchOf cfg H nfiles hcfg _ stop s i c hc hi ?_ hFs s1 r1 hst
    intro s2 r2 hst2
    exact (step_spec benchOf cfg H stop s i c hc hi hLs.b (hLs.r i c hc) s2 r2 hst2).2.2.1
  obtain ⟨hF', hlen', hR', hdone⟩ := loop_spec_with benchOf cfg H stop sched
    (FInv benchOf cfg H nfiles (loaded.map (·.1))) hstepF (fuelFor cfg) choices tasks s0 hL hF0 s' res hloop
  refine ⟨fun i => (s'.runs.getD i dfltRun).m, ?_, ?_, ?_⟩
  · -- the new contents
    simp only
    refine ⟨by simp [hF'.len], ?_, ?_, ?_, ?_⟩
    · intro f c hfc
      simp only [List.getElem?_map] at hfc
      cases hfp : s'.files[f]? with
      | none => simp [hfp] at hfc
      | some fp =>
        simp only [hfp, Option.map_some, Option.some.injEq] at hfc
        subst hfc
        have hfl : f < nfiles := by rw [← hF'.len]; exact (List.getElem?_eq_some_iff.mp hfp).1
        obtain ⟨ops, hops⟩ := hF'.ops f hfl
        have hfl' : f < loaded.length := by rw [hlen, hB.len]; exact hfl
        obtain ⟨T, ls, h1, h2⟩ := hl f contents[f] (by simp [← hlen, hfl'])
        simp only [List.getElem?_map, h1, Option.map_some, hfp, Option.some.injEq] at hops
        rw [hops]
        exact .session contents[f] T ls ops (hB.reach f _ (by simp [← hlen, hfl'])) h2
    · intro f i c cont hc hcont
      simp only [List.getElem?_map] at hcont
      cases hfp : s'.files[f]? with
      | none => simp [hfp] at hcont
      | some fp =>
        simp only [hfp, Option.map_some, Option.some.injEq] at hcont
        subst hcont
        exact hF'.rows f i c fp hc hfp
    · intro f cont hcont
      simp only [List.getElem?_map] at hcont
      cases hfp : s'.files[f]? with
      | none => simp [hfp] at hcont
      | some fp =>
        simp only [hfp, Option.map_some, Option.some.injEq] at hcont
        subst hcont
        exact hF'.known f fp hfp
    · intro i c hc
      exact (hR' i c hc).1.le
  · intro i hi
    have hc : cfg[i]? = some cfg[i] := by simp [hi]
    have := (hR' i cfg[i] hc).2
    have h0 : (s0.runs.getD i dfltRun).m = m i := by
      show (runs0.getD i dfltRun).m = m i
      rw [hget0 i _ hc, hm0 i _ hc]
    show m i ≤ (s'.runs.getD i dfltRun).m
    omega
  · intro hcomp i c hc
    have hres : res = some false := by
      simp only at hcomp
      cases res with
      | none => simp at hcomp
      | some b => cases b <;> simp_all
    exact terminated_final H c i _ (hR' i c hc).1 (hdone hres i c hc)

end RB.Session
