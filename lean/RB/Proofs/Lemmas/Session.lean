/-
Helper lemmas for C08: the session model (`RB.Session`).
-/
import RB.Model.Session
import RB.Proofs.Lemmas.DataFile

namespace RB.Session
open RB.DataFile

variable {κ β : Type} [DecidableEq κ] [DecidableEq β] (benchOf : κ → β)

/-! ### longest prefix of invocations that all deliver data -/

theorem prefLen_le (f : Nat → Bool) (n : Nat) : prefLen f n ≤ n := by
  induction n with
  | zero => simp [prefLen]
  | succ n ih => unfold prefLen; split <;> omega

theorem prefLen_all (f : Nat → Bool) (n t : Nat) (h1 : 1 ≤ t) (h2 : t ≤ prefLen f n) : f t = true := by
  induction n with
  | zero => simp [prefLen] at h2; omega
  | succ n ih =>
    unfold prefLen at h2
    split at h2
    · rename_i h
      by_cases ht : t = n + 1
      · subst ht; exact h.2
      · exact ih (by rw [h.1]; omega)
    · exact ih h2

theorem prefLen_stop (f : Nat → Bool) (n : Nat) (h : prefLen f n < n) : f (prefLen f n + 1) = false := by
  induction n with
  | zero => omega
  | succ n ih =>
    unfold prefLen at h ⊢
    split
    · rename_i hc; simp [hc] at h
    · rename_i hc
      by_cases he : prefLen f n = n
      · simp only [he, true_and, Bool.not_eq_true] at hc
        rw [he]; exact hc
      · have := prefLen_le f n
        exact ih (by omega)

/-! ### builds -/

/-- session-local build results agree with the deterministic outcome -/
def BInv (H : Harness) (s : St κ β) : Prop :=
  ∀ b ok, s.builds.lookup b = some ok → ok = H.buildOk b

omit [DecidableEq κ] [DecidableEq β] in
theorem doBuilds_spec (H : Harness) (stop : Option Nat) (bs : List Nat) (s : St κ β) (hB : BInv H s) :
    let r := doBuilds H stop bs s
    r.1.runs = s.runs ∧ r.1.files = s.files ∧ BInv H r.1 ∧
    (∃ evs, r.1.trace = s.trace ++ evs ∧ ∀ e ∈ evs, ∃ b, e = .build b) ∧
    (r.2 = .ok → ∀ b ∈ bs, H.buildOk b = true) ∧
    (r.2 = .failed → ∃ b ∈ bs, H.buildOk b = false) := by
  induction bs generalizing s with
  | nil => simp [doBuilds, hB]
  | cons b bs ih =>
    unfold doBuilds
    cases hl : s.builds.lookup b with
    | some ok =>
      cases ok with
      | true =>
        simp only
        obtain ⟨h1, h2, h3, h4, h5, h6⟩ := ih s hB
        refine ⟨h1, h2, h3, h4, ?_, ?_⟩
        · intro hr x hx
          rcases List.mem_cons.mp hx with rfl | hx
          · exact (hB _ _ hl).symm
          · exact h5 hr x hx
        · intro hr
          obtain ⟨x, hx, hf⟩ := h6 hr
          exact ⟨x, List.mem_cons_of_mem _ hx, hf⟩
      | false =>
        simp only
        refine ⟨by simp, by simp, hB, ⟨[], by simp, by simp⟩, by simp, ?_⟩
        intro _
        exact ⟨b, by simp, (hB _ _ hl).symm⟩
    | none =>
      simp only
      split
      · refine ⟨rfl, rfl, ?_, ⟨[.build b], rfl, by simp⟩, by simp, by simp⟩
        exact hB
      · split
        · rename_i hok
          have hB' : BInv H { s with trace := s.trace ++ [Ev.build b], builds := (b, true) :: s.builds } := by
            intro x ok hx
            simp only [List.lookup_cons] at hx
            split at hx
            · rename_i heq
              have : x = b := by simpa using heq
              subst this; cases hx; exact hok.symm
            · exact hB _ _ hx
          obtain ⟨h1, h2, h3, ⟨evs, h4, h4'⟩, h5, h6⟩ := ih _ hB'
          refine ⟨h1, h2, h3, ⟨.build b :: evs, by simp [h4], ?_⟩, ?_, ?_⟩
          · intro e he
            rcases List.mem_cons.mp he with rfl | he
            · exact ⟨b, rfl⟩
            · exact h4' e he
          · intro hr x hx
            rcases List.mem_cons.mp hx with rfl | hx
            · exact hok
            · exact h5 hr x hx
          · intro hr
            obtain ⟨x, hx, hf⟩ := h6 hr
            exact ⟨x, List.mem_cons_of_mem _ hx, hf⟩
        · rename_i hok
          refine ⟨rfl, rfl, ?_, ⟨[.build b], rfl, by simp⟩, by simp, ?_⟩
          · intro x ok hx
            simp only [List.lookup_cons] at hx
            split at hx
            · rename_i heq
              have : x = b := by simpa using heq
              subst this; cases hx; simpa using hok
            · exact hB _ _ hx
          · intro _
            exact ⟨b, by simp, by simpa using hok⟩

/-! ### one `execute_run` -/

/-- per-run invariant of a session with a deterministic harness -/
structure RInv {κ : Type} (H : Harness) (c : RunC κ) (i : Nat) (rs : RunSt) : Prop where
  le : rs.m ≤ recordedInTheEnd H c i
  fl : 0 < rs.failed → rs.m = recordedInTheEnd H c i
  cf : rs.consec ≤ rs.failed
  fi : rs.failImm = true → recordedInTheEnd H c i = 0

omit [DecidableEq κ] in
theorem recordedInTheEnd_le (H : Harness) (c : RunC κ) (i : Nat) : recordedInTheEnd H c i ≤ c.invocations := by
  unfold recordedInTheEnd; split
  · exact prefLen_le _ _
  · omega

omit [DecidableEq κ] in
/-- a run whose termination condition holds has exactly `K` invocations recorded -/
theorem terminated_final (H : Harness) (c : RunC κ) (i : Nat) (rs : RunSt) (h : RInv H c i rs)
    (ht : terminated c rs = true) : rs.m = recordedInTheEnd H c i := by
  have hle := recordedInTheEnd_le H c i
  have h1 := h.le
  unfold terminated at ht
  simp only [Bool.or_eq_true, Bool.and_eq_true, decide_eq_true_eq] at ht
  rcases ht with (((hf | ⟨hc, _⟩) | hm) | ⟨_, hs⟩) | hN
  · have := h.fi hf; omega
  · exact h.fl (by have := h.cf; omega)
  · exact h.fl (by omega)
  · exact h.fl (by omega)
  · omega

omit [DecidableEq κ] [DecidableEq β] in
theorem getD_setRun (s : St κ β) (i j : Nat) (r : RunSt) (hi : i < s.runs.length) :
    (setRun s i r).runs.getD j dfltRun = if j = i then r else s.runs.getD j dfltRun := by
  unfold setRun
  simp only [List.getD_eq_getElem?_getD, List.getElem?_set]
  by_cases h : i = j
  · subst h; simp [hi]
  · simp [h, Ne.symm h]

theorem step_spec (cfg : List (RunC κ)) (H : Harness) (stop : Option Nat) (s : St κ β) (i : Nat) (c : RunC κ)
    (hc : cfg[i]? = some c) (hi : i < s.runs.length) (hB : BInv H s)
    (hR : RInv H c i (s.runs.getD i dfltRun)) (s' : St κ β) (res : StepRes)
    (hstep : step benchOf cfg H stop s i = (s', res)) :
    BInv H s' ∧ s'.runs.length = s.runs.length ∧
    (∀ j, j ≠ i → s'.runs.getD j dfltRun = s.runs.getD j dfltRun) ∧
    RInv H c i (s'.runs.getD i dfltRun) ∧
    (res = .done → terminated c (s'.runs.getD i dfltRun) = true) ∧
    (s.runs.getD i dfltRun).m ≤ (s'.runs.getD i dfltRun).m := by
  unfold step at hstep
  simp only [hc] at hstep
  generalize hrs : s.runs.getD i dfltRun = rs at hR hstep ⊢
  by_cases ht : terminated c rs = true
  · simp only [ht, if_true, Prod.mk.injEq] at hstep
    obtain ⟨rfl, rfl⟩ := hstep
    exact ⟨hB, rfl, fun _ _ => rfl, by rw [hrs]; exact hR, fun _ => by rw [hrs]; exact ht, by rw [hrs]; exact Nat.le_refl _⟩
  · simp only [ht, Bool.false_eq_true, if_false] at hstep
    obtain ⟨d1, d2, d3, ⟨evs, d4, _⟩, d5, d6⟩ := doBuilds_spec H stop c.builds s hB
    generalize hdb : doBuilds H stop c.builds s = db at d1 d2 d3 d4 d5 d6 hstep
    obtain ⟨s1, br⟩ := db
    simp only at d1 d2 d3 d4 d5 d6
    have hi1 : i < s1.runs.length := by rw [d1]; exact hi
    cases br with
    | interrupted =>
      simp only [Prod.mk.injEq] at hstep
      obtain ⟨rfl, rfl⟩ := hstep
      refine ⟨d3, by rw [d1], fun j _ => by rw [d1], by rw [d1, hrs]; exact hR, by simp, by rw [d1, hrs]; exact Nat.le_refl _⟩
    | failed =>
      simp only [Prod.mk.injEq] at hstep
      obtain ⟨rfl, rfl⟩ := hstep
      obtain ⟨b, hb, hbf⟩ := d6 rfl
      have hK : recordedInTheEnd H c i = 0 := by
        unfold recordedInTheEnd
        have : c.builds.all H.buildOk = false := by
          simp only [List.all_eq_false]; exact ⟨b, hb, by simp [hbf]⟩
        simp [this]
      refine ⟨?_, ?_, ?_, ?_, ?_, ?_⟩
      · exact d3
      · simp [setRun, d1]
      · intro j hj; rw [getD_setRun s1 i j _ hi1]; simp [hj, d1]
      · rw [getD_setRun s1 i i _ hi1]; simp only [if_true]
        exact ⟨hR.le, hR.fl, hR.cf, fun _ => hK⟩
      · intro _; rw [getD_setRun s1 i i _ hi1]; simp [terminated]
      · rw [getD_setRun s1 i i _ hi1]; simp
    | ok =>
      simp only at hstep
      have hbuilds : c.builds.all H.buildOk = true := by
        simp only [List.all_eq_true]; exact d5 rfl
      have hK : recordedInTheEnd H c i = prefLen (delivers H i) c.invocations := by
        unfold recordedInTheEnd; simp [hbuilds]
      have hBs2 : BInv H { s1 with trace := s1.trace ++ [Ev.start i (rs.m + 1)] } := d3
      split at hstep
      · -- interrupted while the invocation runs
        simp only [Prod.mk.injEq] at hstep
        obtain ⟨rfl, rfl⟩ := hstep
        have hrs' := hrs
        simp only [List.getD_eq_getElem?_getD] at hrs'
        refine ⟨hBs2, by simp [d1], fun j _ => by simp [d1], by simp only [d1, hrs]; exact hR, by simp, ?_⟩
        simp [d1, hrs']
      · have hnt : rs.m < c.invocations := by
          unfold terminated at ht
          simp only [Bool.or_eq_true, Bool.and_eq_true, decide_eq_true_eq, not_or] at ht
          omega
        cases hout : H.out i (rs.m + 1) with
        | none =>
          simp only [hout, Prod.mk.injEq] at hstep
          obtain ⟨rfl, hres⟩ := hstep
          have hdel : delivers H i (rs.m + 1) = false := by simp [delivers, hout]
          have hmK : rs.m = recordedInTheEnd H c i := by
            have h1 := hR.le
            by_cases hne : rs.m = recordedInTheEnd H c i
            · exact hne
            · exfalso
              have hlt : rs.m + 1 ≤ prefLen (delivers H i) c.invocations := by rw [← hK]; omega
              have := prefLen_all (delivers H i) c.invocations (rs.m + 1) (by omega) hlt
              rw [hdel] at this; cases this
          have hi2 : i < ({ s1 with trace := s1.trace ++ [Ev.start i (rs.m + 1)] } : St κ β).runs.length := hi1
          refine ⟨?_, ?_, ?_, ?_, ?_, ?_⟩
          · exact hBs2
          · simp [setRun, d1]
          · intro j hj; rw [getD_setRun _ i j _ hi2]; simp [hj, d1]
          · rw [getD_setRun _ i i _ hi2]; simp only [if_true]
            exact ⟨hR.le, fun _ => hmK, by have := hR.cf; simp; omega, hR.fi⟩
          · intro hd; rw [getD_setRun _ i i _ hi2]; simp only [if_true]
            rw [hd] at hres
            apply Decidable.byContradiction
            intro htt
            rw [if_neg htt] at hres
            cases hres
          · rw [getD_setRun _ i i _ hi2]; simp
        | some dps =>
          simp only [hout, Prod.mk.injEq] at hstep
          obtain ⟨rfl, hres⟩ := hstep
          have hi2 : i < ({ s1 with trace := s1.trace ++ [Ev.start i (rs.m + 1)],
                                    files := recordDPs benchOf c (rs.m + 1) 0 dps s1.files } : St κ β).runs.length := hi1
          refine ⟨?_, ?_, ?_, ?_, ?_, ?_⟩
          · exact hBs2
          · simp [setRun, d1]
          · intro j hj; rw [getD_setRun _ i j _ hi2]; simp [hj, d1]
          · rw [getD_setRun _ i i _ hi2]; simp only [if_true]
            by_cases hemp : dps.isEmpty = true
            · simp only [hemp, if_true]
              exact ⟨hR.le, hR.fl, by simp, hR.fi⟩
            · simp only [hemp, Bool.false_eq_true, if_false]
              have hdel : delivers H i (rs.m + 1) = true := by simp [delivers, hout, hemp]
              have hlt : rs.m < recordedInTheEnd H c i := by
                have h1 := hR.le
                by_cases hge : rs.m < recordedInTheEnd H c i
                · exact hge
                · exfalso
                  have heq : rs.m = prefLen (delivers H i) c.invocations := by rw [← hK]; omega
                  have := prefLen_stop (delivers H i) c.invocations (by rw [← heq]; exact hnt)
                  rw [← heq, hdel] at this; cases this
              refine ⟨by simp; omega, ?_, by simp, hR.fi⟩
              intro hf
              have := hR.fl hf
              omega
          · intro hd; rw [getD_setRun _ i i _ hi2]; simp only [if_true]
            rw [hd] at hres
            apply Decidable.byContradiction
            intro htt
            rw [if_neg htt] at hres
            cases hres
          · rw [getD_setRun _ i i _ hi2]; simp only [if_true]
            split <;> simp

/-! ### the scheduler loop, for every scheduler and every choice stream -/

theorem getD_mem_cons (t : Nat) (ts : List Nat) (idx : Nat) : (t :: ts).getD idx t ∈ t :: ts := by
  simp only [List.getD_eq_getElem?_getD]
  cases h : (t :: ts)[idx]? with
  | none => simp
  | some x => simp only [Option.getD_some]; exact List.mem_of_getElem? h

theorem mem_of_mem_eraseIdx' (l : List Nat) (k x : Nat) (h : x ∈ l.eraseIdx k) : x ∈ l := by
  rw [List.mem_eraseIdx_iff_getElem?] at h
  obtain ⟨i, _, hi⟩ := h
  exact List.mem_of_getElem? hi

theorem erased_is_picked (l : List Nat) (k x : Nat) (h1 : x ∈ l) (h2 : x ∉ l.eraseIdx k) : l[k]? = some x := by
  obtain ⟨i, hi⟩ := List.getElem?_of_mem h1
  by_cases hik : i = k
  · subst hik; exact hi
  · exact absurd (List.mem_eraseIdx_iff_getElem?.mpr ⟨i, hik, hi⟩) h2

theorem requeue_mem (sched : Sched) (idx : Nat) (tasks : List Nat) (x : Nat) :
    x ∈ sched.requeue idx tasks ↔ x ∈ tasks := by
  cases sched with
  | batch => simp [Sched.requeue]
  | random => simp [Sched.requeue]
  | roundRobin =>
    simp only [Sched.requeue, List.mem_append]
    constructor
    · rintro (h | h)
      · exact mem_of_mem_eraseIdx' _ _ _ h
      · cases hk : tasks[idx]? with
        | none => simp [hk] at h
        | some y => simp [hk] at h; subst h; exact List.mem_of_getElem? hk
    · intro h
      by_cases he : x ∈ tasks.eraseIdx idx
      · exact .inl he
      · right; rw [erased_is_picked _ _ _ h he]; simp

/-- loop invariant: every run satisfies `RInv`, every run not in the task list is terminated -/
structure LInv (cfg : List (RunC κ)) (H : Harness) (tasks : List Nat) (s : St κ β) : Prop where
  len : s.runs.length = cfg.length
  b : BInv H s
  r : ∀ i c, cfg[i]? = some c → RInv H c i (s.runs.getD i dfltRun)
  t : ∀ i c, cfg[i]? = some c → i ∉ tasks → terminated c (s.runs.getD i dfltRun) = true
  inRange : ∀ i ∈ tasks, i < cfg.length

theorem loop_spec (cfg : List (RunC κ)) (H : Harness) (stop : Option Nat) (sched : Sched) (fuel : Nat) :
    ∀ (choices tasks : List Nat) (s : St κ β), LInv cfg H tasks s →
    ∀ s' res, loop benchOf cfg H stop sched fuel choices tasks s = (s', res) →
      s'.runs.length = cfg.length ∧
      (∀ i c, cfg[i]? = some c → RInv H c i (s'.runs.getD i dfltRun) ∧
        (s.runs.getD i dfltRun).m ≤ (s'.runs.getD i dfltRun).m) ∧
      (res = some false → ∀ i c, cfg[i]? = some c → terminated c (s'.runs.getD i dfltRun) = true) := by
  induction fuel with
  | zero =>
    intro choices tasks s h s' res hl
    simp only [loop, Prod.mk.injEq] at hl
    obtain ⟨rfl, rfl⟩ := hl
    exact ⟨h.len, fun i c hc => ⟨h.r i c hc, Nat.le_refl _⟩, by simp⟩
  | succ fuel ih =>
    intro choices tasks s h s' res hl
    cases tasks with
    | nil =>
      simp only [loop, Prod.mk.injEq] at hl
      obtain ⟨rfl, rfl⟩ := hl
      exact ⟨h.len, fun i c hc => ⟨h.r i c hc, Nat.le_refl _⟩, fun _ i c hc => h.t i c hc (by simp)⟩
    | cons t ts =>
      simp only [loop] at hl
      generalize hidx : sched.pickIdx (t :: ts) (choices.headD 0) = idx at hl
      generalize hi : (t :: ts).getD idx t = i at hl
      have himem : i ∈ t :: ts := by rw [← hi]; exact getD_mem_cons t ts idx
      have hirange := h.inRange i himem
      obtain ⟨c, hc⟩ : ∃ c, cfg[i]? = some c := ⟨cfg[i], by simp [hirange]⟩
      have hilen : i < s.runs.length := by rw [h.len]; exact hirange
      generalize hst : step benchOf cfg H stop s i = st at hl
      obtain ⟨s1, r1⟩ := st
      obtain ⟨q1, q2, q3, q4, q5, q6⟩ := step_spec benchOf cfg H stop s i c hc hilen h.b (h.r i c hc) s1 r1 hst
      have hR1 : ∀ j cj, cfg[j]? = some cj → RInv H cj j (s1.runs.getD j dfltRun) ∧
          (s.runs.getD j dfltRun).m ≤ (s1.runs.getD j dfltRun).m := by
        intro j cj hcj
        by_cases hji : j = i
        · subst hji; rw [hc] at hcj; cases hcj; exact ⟨q4, q6⟩
        · rw [q3 j hji]; exact ⟨h.r j cj hcj, Nat.le_refl _⟩
      cases r1 with
      | interrupted =>
        simp only [Prod.mk.injEq] at hl
        obtain ⟨rfl, rfl⟩ := hl
        exact ⟨by rw [q2, h.len], hR1, by simp⟩
      | done =>
        simp only at hl
        have hinv : LInv cfg H ((t :: ts).eraseIdx idx) s1 := by
          refine ⟨by rw [q2, h.len], q1, fun j cj hcj => (hR1 j cj hcj).1, ?_, ?_⟩
          · intro j cj hcj hj
            by_cases hji : j = i
            · subst hji; rw [hc] at hcj; cases hcj; exact q5 rfl
            · rw [q3 j hji]
              apply h.t j cj hcj
              intro hmem
              have := erased_is_picked _ _ _ hmem hj
              have hij : i = j := by
                rw [← hi]; simp [List.getD_eq_getElem?_getD, this]
              exact hji hij.symm
          · intro j hj; exact h.inRange j (mem_of_mem_eraseIdx' _ _ _ hj)
        obtain ⟨r1, r2, r3⟩ := ih _ _ s1 hinv s' res hl
        exact ⟨r1, fun j cj hcj => ⟨(r2 j cj hcj).1, Nat.le_trans (hR1 j cj hcj).2 (r2 j cj hcj).2⟩, r3⟩
      | again =>
        simp only at hl
        have hinv : LInv cfg H (sched.requeue idx (t :: ts)) s1 := by
          refine ⟨by rw [q2, h.len], q1, fun j cj hcj => (hR1 j cj hcj).1, ?_, ?_⟩
          · intro j cj hcj hj
            have hj' : j ∉ t :: ts := fun hm => hj ((requeue_mem sched idx _ j).mpr hm)
            have hji : j ≠ i := fun e => hj' (e ▸ himem)
            rw [q3 j hji]
            exact h.t j cj hcj hj'
          · intro j hj; exact h.inRange j ((requeue_mem sched idx _ j).mp hj)
        obtain ⟨r1, r2, r3⟩ := ih _ _ s1 hinv s' res hl
        exact ⟨r1, fun j cj hcj => ⟨(r2 j cj hcj).1, Nat.le_trans (hR1 j cj hcj).2 (r2 j cj hcj).2⟩, r3⟩

/-- `loop_spec` carrying an additional invariant `F` that every `execute_run` of a task preserves -/
theorem loop_spec_with (cfg : List (RunC κ)) (H : Harness) (stop : Option Nat) (sched : Sched)
    (F : St κ β → Prop)
    (hF : ∀ (tasks : List Nat) (s : St κ β) (i : Nat) (c : RunC κ) (s' : St κ β) (res : StepRes),
      LInv cfg H tasks s → i ∈ tasks → cfg[i]? = some c → F s →
      step benchOf cfg H stop s i = (s', res) → F s') (fuel : Nat) :
    ∀ (choices tasks : List Nat) (s : St κ β), LInv cfg H tasks s → F s →
    ∀ s' res, loop benchOf cfg H stop sched fuel choices tasks s = (s', res) →
      F s' ∧ s'.runs.length = cfg.length ∧
      (∀ i c, cfg[i]? = some c → RInv H c i (s'.runs.getD i dfltRun) ∧
        (s.runs.getD i dfltRun).m ≤ (s'.runs.getD i dfltRun).m) ∧
      (res = some false → ∀ i c, cfg[i]? = some c → terminated c (s'.runs.getD i dfltRun) = true) := by
  induction fuel with
  | zero =>
    intro choices tasks s h hFs s' res hl
    simp only [loop, Prod.mk.injEq] at hl
    obtain ⟨rfl, rfl⟩ := hl
    exact ⟨hFs, h.len, fun i c hc => ⟨h.r i c hc, Nat.le_refl _⟩, by simp⟩
  | succ fuel ih =>
    intro choices tasks s h hFs s' res hl
    cases tasks with
    | nil =>
      simp only [loop, Prod.mk.injEq] at hl
      obtain ⟨rfl, rfl⟩ := hl
      exact ⟨hFs, h.len, fun i c hc => ⟨h.r i c hc, Nat.le_refl _⟩, fun _ i c hc => h.t i c hc (by simp)⟩
    | cons t ts =>
      simp only [loop] at hl
      generalize hidx : sched.pickIdx (t :: ts) (choices.headD 0) = idx at hl
      generalize hi : (t :: ts).getD idx t = i at hl
      have himem : i ∈ t :: ts := by rw [← hi]; exact getD_mem_cons t ts idx
      have hirange := h.inRange i himem
      obtain ⟨c, hc⟩ : ∃ c, cfg[i]? = some c := ⟨cfg[i], by simp [hirange]⟩
      have hilen : i < s.runs.length := by rw [h.len]; exact hirange
      generalize hst : step benchOf cfg H stop s i = st at hl
      obtain ⟨s1, r1⟩ := st
      obtain ⟨q1, q2, q3, q4, q5, q6⟩ := step_spec benchOf cfg H stop s i c hc hilen h.b (h.r i c hc) s1 r1 hst
      have hFs1 : F s1 := hF (t :: ts) s i c s1 r1 h himem hc hFs hst
      have hR1 : ∀ j cj, cfg[j]? = some cj → RInv H cj j (s1.runs.getD j dfltRun) ∧
          (s.runs.getD j dfltRun).m ≤ (s1.runs.getD j dfltRun).m := by
        intro j cj hcj
        by_cases hji : j = i
        · subst hji; rw [hc] at hcj; cases hcj; exact ⟨q4, q6⟩
        · rw [q3 j hji]; exact ⟨h.r j cj hcj, Nat.le_refl _⟩
      cases r1 with
      | interrupted =>
        simp only [Prod.mk.injEq] at hl
        obtain ⟨rfl, rfl⟩ := hl
        exact ⟨hFs1, by rw [q2, h.len], hR1, by simp⟩
      | done =>
        simp only at hl
        have hinv : LInv cfg H ((t :: ts).eraseIdx idx) s1 := by
          refine ⟨by rw [q2, h.len], q1, fun j cj hcj => (hR1 j cj hcj).1, ?_, ?_⟩
          · intro j cj hcj hj
            by_cases hji : j = i
            · subst hji; rw [hc] at hcj; cases hcj; exact q5 rfl
            · rw [q3 j hji]
              apply h.t j cj hcj
              intro hmem
              have := erased_is_picked _ _ _ hmem hj
              have hij : i = j := by
                rw [← hi]; simp [List.getD_eq_getElem?_getD, this]
              exact hji hij.symm
          · intro j hj; exact h.inRange j (mem_of_mem_eraseIdx' _ _ _ hj)
        obtain ⟨r0, r1, r2, r3⟩ := ih _ _ s1 hinv hFs1 s' res hl
        exact ⟨r0, r1, fun j cj hcj => ⟨(r2 j cj hcj).1, Nat.le_trans (hR1 j cj hcj).2 (r2 j cj hcj).2⟩, r3⟩
      | again =>
        simp only at hl
        have hinv : LInv cfg H (sched.requeue idx (t :: ts)) s1 := by
          refine ⟨by rw [q2, h.len], q1, fun j cj hcj => (hR1 j cj hcj).1, ?_, ?_⟩
          · intro j cj hcj hj
            have hj' : j ∉ t :: ts := fun hm => hj ((requeue_mem sched idx _ j).mpr hm)
            have hji : j ≠ i := fun e => hj' (e ▸ himem)
            rw [q3 j hji]
            exact h.t j cj hcj hj'
          · intro j hj; exact h.inRange j ((requeue_mem sched idx _ j).mp hj)
        obtain ⟨r0, r1, r2, r3⟩ := ih _ _ s1 hinv hFs1 s' res hl
        exact ⟨r0, r1, fun j cj hcj => ⟨(r2 j cj hcj).1, Nat.le_trans (hR1 j cj hcj).2 (r2 j cj hcj).2⟩, r3⟩


end RB.Session
