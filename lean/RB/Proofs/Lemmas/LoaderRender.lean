/-
The concrete renderer of `RB/Model/Loader.lean` is right: every line it writes
classifies as the record the writer model means (`mkSess_ok`).
-/
import RB.Proofs.Lemmas.LoaderText

namespace RB.Loader

/-! ### numerals -/

theorem isDigit_eq (c : Char) : isDigit c = c.isDigit := by
  simp [isDigit, Char.isDigit, Char.le_def]

theorem natText_digits (n : Nat) : ∀ c ∈ natText n, isDigit c = true := by
  intro c hc
  rw [isDigit_eq]
  exact Nat.isDigit_of_mem_toDigits (by decide) (by decide) hc

theorem natText_ne_nil (n : Nat) : natText n ≠ [] := Nat.toDigits_ne_nil

/-- Python `int(str(n)) == n` -/
theorem pyNat?_natText (n : Nat) : pyNat? (natText n) = some n := by
  unfold pyNat?
  rw [if_neg (natText_ne_nil n), if_pos (List.all_eq_true.mpr (natText_digits n))]
  have := @Nat.ofDigitChars_ten_toDigits n
  unfold Nat.ofDigitChars at this
  simpa [natText] using this

theorem natText_not_mem (n : Nat) (c : Char) (hc : isDigit c = false) : c ∉ natText n := by
  intro h; rw [natText_digits n c h] at hc; cases hc

theorem contains_false {t : Text} {c : Char} (h : (!t.contains c) = true) : c ∉ t := by
  simpa using h

/-! ### metadata lines -/

theorem splitFirstEq_append (a b : Text) (ha : '=' ∉ a) : splitFirstEq (a ++ '=' :: b) = some (a, b) := by
  induction a with
  | nil => simp [splitFirstEq]
  | cons c cs ih =>
    have hc : c ≠ '=' := fun e => ha (by simp [e])
    have hcs : '=' ∉ cs := fun e => ha (List.mem_cons_of_mem _ e)
    simp only [List.cons_append]
    rw [splitFirstEq, if_neg hc, ih hcs]

theorem isPrefixOf_append (p x : Text) : p.isPrefixOf (p ++ x) = true := by
  induction p with
  | nil => simp [List.isPrefixOf]
  | cons c cs ih => simp [List.isPrefixOf, ih]

theorem classify_benchLine (pl : Payloads) (hdr : Text) (id key : Nat) (js : Text)
    (h : pl.bench js = some key) :
    classify pl hdr ⟨benchPrefix ++ natText id ++ '=' :: js, true⟩ = .bench id key := by
  have hp : benchPrefix = '#' :: ' ' :: "benchmark: ".toList := by decide
  have h1 : classify pl hdr ⟨benchPrefix ++ natText id ++ '=' :: js, true⟩
      = classifyComment pl (benchPrefix ++ natText id ++ '=' :: js) := by
    rw [hp]; simp [classify]
  rw [h1]
  unfold classifyComment
  rw [List.append_assoc, if_pos (isPrefixOf_append _ _), List.drop_left,
    splitFirstEq_append _ _ (natText_not_mem id '=' (by decide))]
  simp [h, pyNat?_natText]

theorem classify_runLine (pl : Payloads) (hdr : Text) (id bid key : Nat) (js : Text)
    (h : pl.run js = some (key, bid)) :
    classify pl hdr ⟨runPrefix ++ natText id ++ '=' :: js, true⟩ = .run id bid key := by
  have hp : runPrefix = '#' :: ' ' :: "run_id: ".toList := by decide
  have hb : benchPrefix = '#' :: ' ' :: "benchmark: ".toList := by decide
  have h1 : classify pl hdr ⟨runPrefix ++ natText id ++ '=' :: js, true⟩
      = classifyComment pl (runPrefix ++ natText id ++ '=' :: js) := by
    rw [hp]; simp [classify]
  have h2 : benchPrefix.isPrefixOf (runPrefix ++ natText id ++ '=' :: js) = false := by
    rw [hp, hb]; simp [List.isPrefixOf]
  rw [h1]
  unfold classifyComment
  rw [h2]
  simp only [Bool.false_eq_true, ↓reduceIte]
  rw [List.append_assoc, if_pos (isPrefixOf_append _ _), List.drop_left,
    splitFirstEq_append _ _ (natText_not_mem id '=' (by decide))]
  simp [h, pyNat?_natText]

theorem classify_comment (pl : Payloads) (hdr t : Text) (h : commentOk t = true) :
    classify pl hdr ⟨t, true⟩ = .comment := by
  unfold commentOk at h
  simp only [Bool.and_eq_true, Bool.not_eq_true', beq_iff_eq] at h
  obtain ⟨⟨⟨⟨_, hhead⟩, hb⟩, hr⟩, hs⟩ := h
  cases t with
  | nil => simp at hhead
  | cons c cs =>
    simp only [List.head?_cons, Option.some.injEq] at hhead
    subst hhead
    simp [classify, classifyComment, hb, hr, hs]

theorem classify_header (pl : Payloads) (hdr : Text) (h : (hdr.head?.any (fun c => isDigit c || c == '#')) = false) :
    classify pl hdr ⟨hdr, true⟩ = .header := by
  cases hdr with
  | nil => simp [classify]
  | cons c cs =>
    have hc : c ≠ '#' := by
      intro e; subst e; simp at h
    unfold classify
    simp only
    split
    · next heq => simp only [List.cons.injEq] at heq; exact absurd heq.1 hc
    · simp

/-! ### measurement lines -/

theorem plainField_spec {t : Text} (h : plainField t = true) : '\t' ∉ t ∧ '\n' ∉ t ∧ '\r' ∉ t := by
  unfold plainField at h
  simp only [Bool.and_eq_true, Bool.not_eq_true'] at h
  obtain ⟨⟨h1, h2⟩, h3⟩ := h
  exact ⟨by simpa using h1, by simpa using h2, by simpa using h3⟩

theorem plainLine_spec {t : Text} (h : plainLine t = true) : '\n' ∉ t ∧ '\r' ∉ t := by
  unfold plainLine at h
  simp only [Bool.and_eq_true, Bool.not_eq_true'] at h
  exact ⟨by simpa using h.1, by simpa using h.2⟩

theorem noCR_of {t : Text} (h : '\r' ∉ t) : noCR t = true := by
  unfold noCR; simpa using h

theorem not_mem_joinWith (c sep : Char) (hcs : c ≠ sep) : ∀ (fs : List Text), (∀ f ∈ fs, c ∉ f) →
    c ∉ joinWith sep fs := by
  intro fs
  induction fs with
  | nil => intro _; simp [joinWith]
  | cons f fs ih =>
    intro h
    cases fs with
    | nil => simpa [joinWith] using h f (List.mem_cons_self ..)
    | cons g gs =>
      simp only [joinWith]
      intro hm
      rcases List.mem_append.mp hm with hm | hm
      · exact h f (List.mem_cons_self ..) hm
      · rcases List.mem_cons.mp hm with e | hm
        · exact hcs e
        · exact ih (fun x hx => h x (List.mem_cons_of_mem _ hx)) hm

theorem head?_joinWith (sep : Char) (f : Text) (fs : List Text) (hf : f ≠ []) :
    (joinWith sep (f :: fs)).head? = f.head? := by
  cases fs with
  | nil => rfl
  | cons g gs =>
    simp only [joinWith]
    cases f with
    | nil => exact absurd rfl hf
    | cons c cs => rfl

/-- what the fields of a measurement line have to satisfy -/
structure MeasOk (R : Rend) (run : Nat) (m : Meas) : Prop where
  value : plainField m.value = true
  float : pyFloatOk m.value = true
  crit : plainField m.crit = true
  total : m.total = (m.crit == totalName)
  unit : plainField (R.unit m.crit) = true
  cols : ∀ f ∈ R.cols run, plainField f = true
  mode : R.profile = false

theorem natText_plain (n : Nat) : '\t' ∉ natText n ∧ '\n' ∉ natText n ∧ '\r' ∉ natText n :=
  ⟨natText_not_mem n _ (by decide), natText_not_mem n _ (by decide), natText_not_mem n _ (by decide)⟩

theorem measLine_fields {R : Rend} {run : Nat} {m : Meas} (h : MeasOk R run m) :
    ∀ f ∈ [natText m.inv, natText m.it, m.value, R.unit m.crit, m.crit] ++ R.cols run ++ [natText m.runIdx],
      '\t' ∉ f ∧ '\n' ∉ f ∧ '\r' ∉ f := by
  intro f hf
  simp only [List.cons_append, List.nil_append, List.mem_cons, List.mem_append, List.mem_singleton,
    List.not_mem_nil, or_false] at hf
  rcases hf with rfl | rfl | rfl | rfl | rfl | hf | rfl
  · exact natText_plain _
  · exact natText_plain _
  · exact plainField_spec h.value
  · exact plainField_spec h.unit
  · exact plainField_spec h.crit
  · exact plainField_spec (h.cols f hf)
  · exact natText_plain _

theorem classify_measLine (pl : Payloads) (hp : pl.profile = none) (R : Rend) (run : Nat) (m : Meas)
    (h : MeasOk R run m)
    (hh : (R.hdr.head?.any (fun c => isDigit c || c == '#')) = false) :
    classify pl R.hdr ⟨measLineText R run m, true⟩ = .meas m := by
  have hfields := measLine_fields h
  have hhead : (measLineText R run m).head? = (natText m.inv).head? := by
    unfold measLineText
    simp only [h.mode, Bool.false_eq_true, ↓reduceIte, List.cons_append]
    exact head?_joinWith _ _ _ (natText_ne_nil _)
  obtain ⟨c, cs, hcs⟩ : ∃ c cs, natText m.inv = c :: cs := by
    cases hn : natText m.inv with
    | nil => exact absurd hn (natText_ne_nil _)
    | cons c cs => exact ⟨c, cs, rfl⟩
  have hcd : isDigit c = true := natText_digits m.inv c (by rw [hcs]; exact List.mem_cons_self ..)
  obtain ⟨rest, hline⟩ : ∃ rest, measLineText R run m = c :: rest := by
    cases hl : measLineText R run m with
    | nil => rw [hl, hcs] at hhead; cases hhead
    | cons x xs =>
      rw [hl, hcs] at hhead
      simp only [List.head?_cons, Option.some.injEq] at hhead
      exact ⟨xs, by rw [hhead]⟩
  have hcne : c ≠ '#' := by intro e; subst e; revert hcd; decide
  have hne : measLineText R run m ≠ R.hdr := by
    intro e
    rw [← e, hline] at hh
    simp [hcd] at hh
  have hdata : classifyData (splitOn '\t' (measLineText R run m)) = .meas m := by
    unfold measLineText
    simp only [h.mode, Bool.false_eq_true, ↓reduceIte]
    rw [rendered_line_parses _ _ _ _ _ _ _ m.inv m.it m.runIdx (fun f hf => (hfields f hf).1)
      (pyNat?_natText _) (pyNat?_natText _) h.float (pyNat?_natText _), ← h.total]
  unfold classify
  simp only
  rw [hline] at hne ⊢
  split
  · next heq => simp only [List.cons.injEq] at heq; exact absurd heq.1 hcne
  · simp only [hne, decide_false, Bool.false_and, Bool.false_eq_true, ↓reduceIte]
    rw [← hline]; unfold classifyLine; rw [hp]; exact hdata

theorem measLine_plain {R : Rend} {run : Nat} {m : Meas} (h : MeasOk R run m) :
    '\n' ∉ measLineText R run m ∧ '\r' ∉ measLineText R run m := by
  have hf := measLine_fields h
  unfold measLineText
  simp only [h.mode, Bool.false_eq_true, ↓reduceIte]
  exact ⟨not_mem_joinWith _ _ (by decide) _ (fun f hm => (hf f hm).2.1),
    not_mem_joinWith _ _ (by decide) _ (fun f hm => (hf f hm).2.2)⟩

/-! ### profile lines -/

/-- what the fields of a profile line have to satisfy -/
structure ProfOk (R : Rend) (run : Nat) (m : Meas) (ok : Text → Bool) : Prop where
  value : plainField m.value = true
  json : ok m.value = true
  crit : m.crit = totalName
  total : m.total = true
  cols : ∀ f ∈ R.cols run, plainField f = true
  mode : R.profile = true

theorem profLine_fields {R : Rend} {run : Nat} {m : Meas} {ok : Text → Bool} (h : ProfOk R run m ok) :
    ∀ f ∈ [natText m.inv, natText m.it] ++ R.cols run ++ [natText m.runIdx, m.value],
      '\t' ∉ f ∧ '\n' ∉ f ∧ '\r' ∉ f := by
  intro f hf
  simp only [List.cons_append, List.nil_append, List.mem_cons, List.mem_append,
    List.not_mem_nil, or_false] at hf
  rcases hf with rfl | rfl | hf | rfl | rfl
  · exact natText_plain _
  · exact natText_plain _
  · exact plainField_spec (h.cols f hf)
  · exact natText_plain _
  · exact plainField_spec h.value

theorem classifyProfile_rendered (ok : Text → Bool) (invT itT : Text) (mid : List Text) (idxT js : Text)
    (inv it idx : Nat) (h1 : pyNat? invT = some inv) (h2 : pyNat? itT = some it) (h4 : pyNat? idxT = some idx)
    (hj : ok js = true) :
    classifyProfile ok ([invT, itT] ++ mid ++ [idxT, js]) = .meas ⟨inv, it, js, totalName, true, idx⟩ := by
  have hl : ([invT, itT] ++ mid ++ [idxT, js]).getLast? = some js := by
    rw [List.getLast?_append]; rfl
  have hd : (([invT, itT] ++ mid ++ [idxT, js]).drop 2).dropLast = mid ++ [idxT] := by
    have : ([invT, itT] ++ mid ++ [idxT, js]).drop 2 = (mid ++ [idxT]) ++ [js] := by simp
    rw [this, List.dropLast_concat]
  unfold classifyProfile
  rw [hl, hd]
  simp [hj, h1, h2, h4]

theorem classify_profLine (pl : Payloads) (ok : Text → Bool) (hp : pl.profile = some ok) (R : Rend) (run : Nat)
    (m : Meas) (h : ProfOk R run m ok)
    (hh : (R.hdr.head?.any (fun c => isDigit c || c == '#')) = false) :
    classify pl R.hdr ⟨measLineText R run m, true⟩ = .meas m := by
  have hfields := profLine_fields h
  have hform : measLineText R run m
      = joinWith '\t' ([natText m.inv, natText m.it] ++ R.cols run ++ [natText m.runIdx, m.value]) := by
    unfold measLineText; simp [h.mode]
  have hhead : (measLineText R run m).head? = (natText m.inv).head? := by
    rw [hform]
    simp only [List.cons_append]
    exact head?_joinWith _ _ _ (natText_ne_nil _)
  obtain ⟨c, cs, hcs⟩ : ∃ c cs, natText m.inv = c :: cs := by
    cases hn : natText m.inv with
    | nil => exact absurd hn (natText_ne_nil _)
    | cons c cs => exact ⟨c, cs, rfl⟩
  have hcd : isDigit c = true := natText_digits m.inv c (by rw [hcs]; exact List.mem_cons_self ..)
  obtain ⟨rest, hline⟩ : ∃ rest, measLineText R run m = c :: rest := by
    cases hl : measLineText R run m with
    | nil => rw [hl, hcs] at hhead; cases hhead
    | cons x xs =>
      rw [hl, hcs] at hhead
      simp only [List.head?_cons, Option.some.injEq] at hhead
      exact ⟨xs, by rw [hhead]⟩
  have hcne : c ≠ '#' := by intro e; subst e; revert hcd; decide
  have hne : measLineText R run m ≠ R.hdr := by
    intro e
    rw [← e, hline] at hh
    simp [hcd] at hh
  have hdata : classifyProfile ok (splitOn '\t' (measLineText R run m)) = .meas m := by
    rw [hform, splitOn_joinWith '\t' _ (by simp) (fun f hf => (hfields f hf).1),
      classifyProfile_rendered ok _ _ _ _ _ m.inv m.it m.runIdx (pyNat?_natText _) (pyNat?_natText _)
        (pyNat?_natText _) h.json]
    have hc := h.crit
    have ht := h.total
    cases m
    simp only at hc ht
    subst hc ht
    rfl
  unfold classify
  simp only
  rw [hline] at hne ⊢
  split
  · next heq => simp only [List.cons.injEq] at heq; exact absurd heq.1 hcne
  · simp only [hne, decide_false, Bool.false_and, Bool.false_eq_true, ↓reduceIte]
    rw [← hline]; unfold classifyLine; rw [hp]; exact hdata

theorem profLine_plain {R : Rend} {run : Nat} {m : Meas} {ok : Text → Bool} (h : ProfOk R run m ok) :
    '\n' ∉ measLineText R run m ∧ '\r' ∉ measLineText R run m := by
  have hf := profLine_fields h
  have hform : measLineText R run m
      = joinWith '\t' ([natText m.inv, natText m.it] ++ R.cols run ++ [natText m.runIdx, m.value]) := by
    unfold measLineText; simp [h.mode]
  rw [hform]
  exact ⟨not_mem_joinWith _ _ (by decide) _ (fun f hm => (hf f hm).2.1),
    not_mem_joinWith _ _ (by decide) _ (fun f hm => (hf f hm).2.2)⟩

/-! ### the whole session -/

/-- the decoders accept what the renderer writes as metadata payloads -/
def RendFor (pl : Payloads) (R : Rend) : Prop :=
  (∀ k, pl.bench (R.benchJson k) = some k ∧ plainLine (R.benchJson k) = true) ∧
  (∀ k b, pl.run (R.runJson k b) = some (k, b) ∧ plainLine (R.runJson k b) = true)

/-- a rendered line is a line and reads back as the record meant -/
def LineOk (pl : Payloads) (hdr : Text) (l : RLine) : Prop :=
  '\n' ∉ l.text ∧ noCR l.text = true ∧ classify pl hdr ⟨l.text, true⟩ = l.cls

theorem rendOk_spec {R : Rend} (h : rendOk R = true) :
    commentOk (R.comment 0) = true ∧ commentOk (R.comment 1) = true
      ∧ commentOk (R.comment 2) = true ∧ plainLine R.hdr = true
      ∧ (R.hdr.head?.any (fun c => isDigit c || c == '#')) = false ∧ '#' ∉ R.hdr := by
  unfold rendOk at h
  simp only [Bool.and_eq_true, Bool.not_eq_true'] at h
  obtain ⟨⟨⟨⟨⟨h2, h3⟩, h4⟩, h5⟩, h6⟩, h7⟩ := h
  exact ⟨h2, h3, h4, h5, h6, by simpa using h7⟩

theorem comment_lineOk (pl : Payloads) (hdr t : Text) (h : commentOk t = true) : LineOk pl hdr ⟨t, .comment⟩ := by
  have hp : plainLine t = true := by
    unfold commentOk at h
    simp only [Bool.and_eq_true] at h
    exact h.1.1.1.1
  exact ⟨(plainLine_spec hp).1, noCR_of (plainLine_spec hp).2, classify_comment pl hdr t h⟩

theorem prefix_plain : ('\n' ∉ benchPrefix ∧ '\r' ∉ benchPrefix) ∧ ('\n' ∉ runPrefix ∧ '\r' ∉ runPrefix) := by
  decide

theorem not_mem_metaLine (c : Char) (pre : Text) (n : Nat) (js : Text) (h1 : c ∉ pre) (h2 : isDigit c = false)
    (h3 : c ≠ '=') (h4 : c ∉ js) : c ∉ pre ++ natText n ++ '=' :: js := by
  intro hm
  rcases List.mem_append.mp hm with hm | hm
  · rcases List.mem_append.mp hm with hm | hm
    · exact h1 hm
    · exact natText_not_mem n c h2 hm
  · rcases List.mem_cons.mp hm with e | hm
    · exact h3 e
    · exact h4 hm

/-- the renderer and the decoders agree about the kind of data file; for a profile data file the
decoder accepts the JSON columns of the data points -/
def Mode (pl : Payloads) (R : Rend) (ds : List WDP) : Prop :=
  (pl.profile = none ∧ R.profile = false)
    ∨ (∃ ok, pl.profile = some ok ∧ R.profile = true ∧ ∀ d ∈ ds, ok d.total = true)

theorem Mode.tail {pl : Payloads} {R : Rend} {d : WDP} {ds : List WDP} (h : Mode pl R (d :: ds)) : Mode pl R ds := by
  rcases h with h | ⟨ok, h1, h2, h3⟩
  · exact Or.inl h
  · exact Or.inr ⟨ok, h1, h2, fun x hx => h3 x (List.mem_cons_of_mem _ hx)⟩

theorem emitDP_lineOk (pl : Payloads) (R : Rend) (hR : rendOk R = true) (hpl : RendFor pl R)
    (tb : Tables) (d : WDP) (hmode : Mode pl R [d]) (hd : dpOk R d = true) :
    ∀ r ∈ emitDP tb d, LineOk pl R.hdr ⟨recText R d.run r, r⟩ := by
  obtain ⟨_, _, _, _, hhdr, _⟩ := rendOk_spec hR
  intro r hr
  unfold emitDP at hr
  rcases List.mem_append.mp hr with hm | hm
  · -- metadata records
    unfold metaRecs at hm
    split at hm
    · cases hm
    · rcases List.mem_append.mp hm with hm | hm
      · split at hm
        · cases hm
        · simp only [List.mem_singleton] at hm
          subst hm
          obtain ⟨hb1, hb2⟩ := hpl.1 d.bench
          refine ⟨?_, noCR_of ?_, classify_benchLine pl R.hdr _ _ _ hb1⟩
          · exact not_mem_metaLine _ _ _ _ prefix_plain.1.1 (by decide) (by decide) (plainLine_spec hb2).1
          · exact not_mem_metaLine _ _ _ _ prefix_plain.1.2 (by decide) (by decide) (plainLine_spec hb2).2
      · simp only [List.mem_singleton] at hm
        subst hm
        obtain ⟨hb1, hb2⟩ := hpl.2 d.run ((tb.ensure d).benches.idxOf d.bench)
        refine ⟨?_, noCR_of ?_, classify_runLine pl R.hdr _ _ _ _ hb1⟩
        · exact not_mem_metaLine _ _ _ _ prefix_plain.2.1 (by decide) (by decide) (plainLine_spec hb2).1
        · exact not_mem_metaLine _ _ _ _ prefix_plain.2.2 (by decide) (by decide) (plainLine_spec hb2).2
  · rcases hmode with ⟨hp, hrp⟩ | ⟨ok, hp, hrp, hjs⟩
    · -- measurement lines of a benchmark data file
      unfold dpOk at hd
      simp only [hrp, Bool.false_eq_true, ↓reduceIte, Bool.and_eq_true, List.all_eq_true, bne_iff_ne, ne_eq] at hd
      obtain ⟨⟨⟨⟨hcr, hut⟩, htot⟩, hfl⟩, hcols⟩ := hd
      unfold dpRecs at hm
      rcases List.mem_append.mp hm with hm | hm
      · obtain ⟨cv, hcv, rfl⟩ := List.mem_map.mp hm
        have h := hcr cv hcv
        obtain ⟨⟨⟨⟨h1, h2⟩, h3⟩, h4⟩, h5⟩ := h
        have hm : MeasOk R d.run ⟨d.inv, d.it, cv.2, cv.1, false, (tb.ensure d).runs.idxOf d.run⟩ :=
          ⟨h2, h3, h1, by simpa using h4, h5, hcols, hrp⟩
        exact ⟨(measLine_plain hm).1, noCR_of (measLine_plain hm).2, classify_measLine pl hp R d.run _ hm hhdr⟩
      · simp only [List.mem_singleton] at hm
        subst hm
        have htn : plainField totalName = true := by decide
        have hm : MeasOk R d.run ⟨d.inv, d.it, d.total, totalName, true, (tb.ensure d).runs.idxOf d.run⟩ :=
          ⟨htot, hfl, htn, by simp, hut, hcols, hrp⟩
        exact ⟨(measLine_plain hm).1, noCR_of (measLine_plain hm).2, classify_measLine pl hp R d.run _ hm hhdr⟩
    · -- the line of a profile data file
      unfold dpOk at hd
      simp only [hrp, ↓reduceIte, Bool.and_eq_true, List.all_eq_true, List.isEmpty_iff] at hd
      obtain ⟨⟨hcr, htot⟩, hcols⟩ := hd
      unfold dpRecs at hm
      rw [hcr] at hm
      simp only [List.map_nil, List.nil_append, List.mem_singleton] at hm
      subst hm
      have hm : ProfOk R d.run ⟨d.inv, d.it, d.total, totalName, true, (tb.ensure d).runs.idxOf d.run⟩ ok :=
        ⟨htot, hjs d (List.mem_cons_self ..), rfl, rfl, hcols, hrp⟩
      exact ⟨(profLine_plain hm).1, noCR_of (profLine_plain hm).2, classify_profLine pl ok hp R d.run _ hm hhdr⟩

theorem renderAll_ok (pl : Payloads) (R : Rend) (hR : rendOk R = true) (hpl : RendFor pl R) :
    ∀ (ds : List WDP) (tb : Tables), Mode pl R ds → (∀ d ∈ ds, dpOk R d = true) →
      (∀ l ∈ renderAll R tb ds, LineOk pl R.hdr l) ∧ (renderAll R tb ds).map RLine.cls = emitAll tb ds := by
  intro ds
  induction ds with
  | nil => intro tb _ _; exact ⟨fun l hl => (by cases hl), rfl⟩
  | cons d ds ih =>
    intro tb hmode h
    obtain ⟨i1, i2⟩ := ih (tb.ensure d) hmode.tail (fun x hx => h x (List.mem_cons_of_mem _ hx))
    have hm1 : Mode pl R [d] := by
      rcases hmode with hm | ⟨ok, h1, h2, h3⟩
      · exact Or.inl hm
      · exact Or.inr ⟨ok, h1, h2, fun x hx => h3 x (by
          simp only [List.mem_singleton] at hx; subst hx; exact List.mem_cons_self ..)⟩
    have hd := emitDP_lineOk pl R hR hpl tb d hm1 (h d (List.mem_cons_self ..))
    refine ⟨?_, ?_⟩
    · intro l hl
      simp only [renderAll] at hl
      rcases List.mem_append.mp hl with hl | hl
      · unfold renderDP at hl
        obtain ⟨r, hr, rfl⟩ := List.mem_map.mp hl
        exact hd r hr
      · exact i1 l hl
    · simp only [renderAll, emitAll, List.map_append, i2]
      congr 1
      unfold renderDP
      rw [List.map_map]
      exact List.map_id'' (fun _ => rfl) _

/-- the concrete renderer satisfies what the byte-prefix theorem asks of a session -/
theorem mkSess_ok (pl : Payloads) (R : Rend) (hR : rendOk R = true) (hpl : RendFor pl R)
    (cmd : Text) (hc : cmdOk cmd = true) (hcr : noCR cmd = true) (empty : Bool) (ds : List WDP)
    (hmode : Mode pl R ds) (hds : ∀ d ∈ ds, dpOk R d = true) : (mkSess R cmd empty ds).Ok pl R.hdr := by
  obtain ⟨c0, c1, c2, hh, hhd, _⟩ := rendOk_spec hR
  refine ⟨hc, hcr, fun tb => ?_⟩
  obtain ⟨a1, a2⟩ := renderAll_ok pl R hR hpl ds tb hmode hds
  have hhdr : LineOk pl R.hdr ⟨R.hdr, .header⟩ :=
    ⟨(plainLine_spec hh).1, noCR_of (plainLine_spec hh).2, classify_header pl R.hdr hhd⟩
  refine ⟨?_, ?_⟩
  · intro l hl
    simp only [mkSess, renderBody] at hl
    rcases List.mem_append.mp hl with hl | hl
    · rcases List.mem_append.mp hl with hl | hl
      · simp only [List.mem_cons, List.not_mem_nil, or_false] at hl
        rcases hl with rfl | rfl | rfl
        · exact comment_lineOk pl R.hdr _ c0
        · exact comment_lineOk pl R.hdr _ c1
        · exact comment_lineOk pl R.hdr _ c2
      · cases empty
        · simp at hl
        · simp only [↓reduceIte, List.mem_singleton] at hl
          subst hl; exact hhdr
    · exact a1 l hl
  · simp only [mkSess, renderBody, List.map_append, a2, blockRecs]
    cases empty <;> simp

/-! ### an instance (non-vacuity) -/

/-- a small concrete renderer and matching decoders: payload of benchmark `k` is `{k}`, of run
`k` with benchmark id `b` is `{k,b}` -/
def exRend : Rend where
  cols := fun k => ["B".toList, "E".toList, "S".toList, [], natText k, [], [], [], []]
  unit := fun c => if c = totalName then "ms".toList else "kb".toList
  benchJson := fun k => '{' :: natText k ++ ['}']
  runJson := fun k b => '{' :: natText k ++ ',' :: natText b ++ ['}']
  comment := fun i => "# c".toList ++ natText i
  hdr := "invocation\titeration".toList

def exPl : Payloads where
  bench := fun js => match js with
    | '{' :: rest => if rest.getLast? = some '}' then pyNat? rest.dropLast else none
    | _ => none
  run := fun js => match js with
    | '{' :: rest => if rest.getLast? = some '}' then
        (match splitOn ',' rest.dropLast with
         | [a, b] => match pyNat? a, pyNat? b with
            | some x, some y => some (x, y)
            | _, _ => none
         | _ => none) else none
    | _ => none

theorem exPl_ok : PlOk exPl := by
  constructor
  · intro js k h
    unfold exPl at h
    simp only at h
    split at h
    · next rest =>
      split at h
      · next hl => rw [List.getLast?_cons_of_ne_nil (by intro e; rw [e] at hl; cases hl)]; exact hl
      · cases h
    · cases h
  · refine ⟨?_, fun ok js h => by cases h⟩
    intro js kb h
    unfold exPl at h
    simp only at h
    split at h
    · next rest =>
      split at h
      · next hl => rw [List.getLast?_cons_of_ne_nil (by intro e; rw [e] at hl; cases hl)]; exact hl
      · cases h
    · cases h

theorem natText_plainLine (n : Nat) (pre post : Text) (h1 : plainLine pre = true) (h2 : plainLine post = true) :
    plainLine (pre ++ natText n ++ post) = true := by
  unfold plainLine at *
  simp only [Bool.and_eq_true, Bool.not_eq_true', List.contains_eq_mem, decide_eq_false_iff_not] at *
  have a := natText_not_mem n '\n' (by decide)
  have b := natText_not_mem n '\r' (by decide)
  simp [List.mem_append, h1.1, h1.2, h2.1, h2.2, a, b]

theorem exRend_for : RendFor exPl exRend := by
  constructor
  · intro k
    refine ⟨?_, ?_⟩
    · show exPl.bench ('{' :: natText k ++ ['}']) = some k
      simp [exPl, List.getLast?_append, List.dropLast_concat, pyNat?_natText]
    · exact natText_plainLine k ['{'] ['}'] (by decide) (by decide)
  · intro k b
    refine ⟨?_, ?_⟩
    · have e : exRend.runJson k b = '{' :: ((natText k ++ ',' :: natText b) ++ ['}']) := by
        simp [exRend, List.append_assoc]
      rw [e]
      have hs : splitOn ',' (natText k ++ ',' :: natText b) = [natText k, natText b] := by
        rw [splitOn_append_sep ',' _ _ (natText_not_mem k ',' (by decide)),
          splitOn_nosep ',' _ (natText_not_mem b ',' (by decide))]
      have hl : ((natText k ++ ',' :: natText b) ++ ['}']).getLast? = some '}' := by
        rw [List.getLast?_append]; rfl
      simp only [exPl, hl, ↓reduceIte, List.dropLast_concat, hs, pyNat?_natText]
    · have e : exRend.runJson k b = ('{' :: natText k ++ [',']) ++ natText b ++ ['}'] := by
        simp [exRend, List.append_assoc]
      rw [e]
      exact natText_plainLine b ('{' :: natText k ++ [',']) ['}']
        (by simpa using natText_plainLine k ['{'] [','] (by decide) (by decide)) (by decide)

theorem exRend_ok : rendOk exRend = true := by decide

end RB.Loader
