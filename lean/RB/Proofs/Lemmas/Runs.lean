import RB.Model.Runs

namespace RB.Runs

theorem mem_dedup {α : Type} [DecidableEq α] (x : α) (l : List α) : x ∈ dedup l ↔ x ∈ l := by
  induction l with
  | nil => simp [dedup]
  | cons y ys ih =>
    simp only [dedup]
    split
    · rename_i h
      constructor
      · intro hx; exact List.mem_cons_of_mem _ (ih.mp hx)
      · intro hx
        rcases List.mem_cons.mp hx with rfl | hx
        · exact h
        · exact ih.mpr hx
    · simp [ih]

theorem nodup_dedup {α : Type} [DecidableEq α] (l : List α) : (dedup l).Nodup := by
  induction l with
  | nil => simp [dedup]
  | cons y ys ih =>
    simp only [dedup]
    split
    · exact ih
    · rename_i h; exact List.nodup_cons.mpr ⟨h, ih⟩

theorem group_iff {α : Type} (fs : List α) (p : α → Bool) :
    group fs p = true ↔ fs = [] ∨ ∃ f ∈ fs, p f = true := by
  simp [group, List.isEmpty_iff]

theorem mem_runsOfBench (cfg : Config) (sel : Sel) (bk : BenchKey) (k : RunKey) :
    k ∈ runsOfBench cfg sel bk ↔
      ∃ c ∈ bk.vars.cores, ∃ i ∈ bk.vars.inputSizes, ∃ v ∈ bk.vars.variableValues,
      ∃ t ∈ bk.vars.tags, appliesToTag sel t = true ∧ k = mkRun cfg bk c i v t := by
  simp only [runsOfBench, List.mem_flatMap, List.mem_map, List.mem_filter]
  constructor
  · rintro ⟨c, hc, i, hi, v, hv, t, ⟨ht, hat⟩, rfl⟩
    exact ⟨c, hc, i, hi, v, hv, t, ht, hat, rfl⟩
  · rintro ⟨c, hc, i, hi, v, hv, t, ht, hat, rfl⟩
    exact ⟨c, hc, i, hi, v, hv, t, ⟨ht, hat⟩, rfl⟩

theorem mem_runsOfSuite (cfg : Config) (sel : Sel) (ek : ExecKey) (s : SuiteCfg) (k : RunKey) :
    k ∈ runsOfSuite cfg sel ek s ↔
      ∃ b ∈ s.benchmarks, appliesToBench sel ek.name s.name b.name = true ∧
        k ∈ runsOfBench cfg sel (benchKey cfg ek s b) := by
  simp only [runsOfSuite, List.mem_flatMap, List.mem_filter]
  constructor
  · rintro ⟨b, ⟨hb, hab⟩, hk⟩; exact ⟨b, hb, hab, hk⟩
  · rintro ⟨b, hb, hab, hk⟩; exact ⟨b, ⟨hb, hab⟩, hk⟩

theorem mem_runsOfExecution (cfg : Config) (sel : Sel) (e : Experiment) (x : Execution) (k : RunKey) :
    k ∈ runsOfExecution cfg sel e x ↔
      ∃ ex, lookupExecutor cfg x.executor = some ex ∧
      ∃ sn ∈ suitesFor e x, ∃ s, lookupSuite cfg sn = some s ∧
        k ∈ runsOfSuite cfg sel (execKey cfg e x ex) s := by
  unfold runsOfExecution
  cases hex : lookupExecutor cfg x.executor with
  | none => simp
  | some ex =>
    simp only [List.mem_flatMap, Option.some.injEq, exists_eq_left']
    constructor
    · rintro ⟨sn, hsn, hk⟩
      cases hs : lookupSuite cfg sn with
      | none => simp [hs] at hk
      | some s => simp only [hs] at hk; exact ⟨sn, hsn, s, hs, hk⟩
    · rintro ⟨sn, hsn, s, hs, hk⟩
      exact ⟨sn, hsn, by simpa [hs] using hk⟩

end RB.Runs
