/-
C05, ReBenchLog: the extra-criterion line `[prefix: ]name: criterion:[blanks]NUMunit`.
-/
import RB.Proofs.Lemmas.AdaptersRebench
namespace RB.Adapters

/-! ## ReBenchLog: the extra-criterion line -/

/-- the extra-criterion pattern after the optional prefix -/
def reExtraBody : Re :=
  seqs [.grp 1 (.plus notSpace), str ": ", .grp 2 (.rep notColon 1 30), str ":", .star isSpace,
        .grp 3 (reNumeral 4), .grp 7 (.plus isAlpha)]

theorem reRebenchExtra_eq : reRebenchExtra = rePrefix.seq reExtraBody := rfl

/-- bounded greedy run, first path -/
theorem repM_first {α : Type} (p : Char → Bool) (xs : List Char) :
    ∀ (lo hi : Nat) (rest : List Char) (k : List Char → Option α) (r : α),
      (∀ c ∈ xs, p c = true) → lo ≤ xs.length → xs.length ≤ hi → stopsAt p rest → k rest = some r →
      repM p lo hi (xs ++ rest) k = some r := by
  induction xs with
  | nil =>
    intro lo hi rest k r _ hlo _ hstop hk
    have hlo0 : lo = 0 := by simpa using hlo
    subst hlo0
    simp only [List.nil_append]
    cases hi with
    | zero => simp [repM, hk]
    | succ n =>
      cases rest with
      | nil => simp [repM, hk]
      | cons a t => simp [repM, hstop a t rfl, hk]
  | cons x xs ih =>
    intro lo hi rest k r hxs hlo hhi hstop hk
    cases hi with
    | zero => simp at hhi
    | succ n =>
      have := ih (lo - 1) n rest k r (fun c hc => hxs c (by simp [hc])) (by simp at hlo; omega)
        (by simp at hhi; omega) hstop hk
      simp only [List.cons_append, repM, hxs x (by simp), if_true, this]

theorem m_rep_first {α : Type} (p : Char → Bool) (lo hi : Nat) (xs rest : List Char) (c : Caps)
    (k : List Char → Caps → Option α) (r : α) (hxs : ∀ x ∈ xs, p x = true) (hlo : lo ≤ xs.length)
    (hhi : xs.length ≤ hi) (hstop : stopsAt p rest) (hk : k rest c = some r) :
    (Re.rep p lo hi).m (xs ++ rest) c k = some r := by
  simp only [Re.m]
  exact repM_first p xs lo hi rest _ r hxs hlo hhi hstop hk

theorem m_lit_def {α : Type} (l s : List Char) (c : Caps) (k : List Char → Caps → Option α) :
    (Re.lit l).m s c k = (match stripPrefix l s with | some r => k r c | none => none) := rfl

/-- the extra-criterion body fails on a text with at most one colon -/
theorem reExtraBody_none (s : List Char) (h : s.count ':' ≤ 1) (c : Caps)
    (k : List Char → Caps → Option Caps) : reExtraBody.m s c k = none := by
  unfold reExtraBody
  simp only [seqs, str]
  rw [m_seq, m_grp]
  apply m_plus_none_suffix
  intro i
  rw [m_seq, m_lit_def]
  cases hsp : stripPrefix ": ".toList (s.drop i) with
  | none => rfl
  | some v =>
    simp only
    have hv := stripPrefix_some _ _ _ hsp
    -- `v` follows a colon of `s`: it has none
    have hcount : v.count ':' = 0 := by
      have h1 : (s.drop i).count ':' ≤ s.count ':' := (List.drop_sublist i s).count_le _
      rw [hv] at h1
      have : (": ".toList ++ v).count ':' = 1 + v.count ':' := by
        rw [show ": ".toList = [':', ' '] from by decide]
        simp [List.count_cons]
        omega
      omega
    have hfree : ∀ j, stopsAt (fun c => c == ':') (v.drop j) := by
      intro j a t e
      have : a ∈ v := List.mem_of_mem_drop (by rw [e]; simp)
      have hne : ':' ∉ v := List.count_eq_zero.mp hcount
      simp only [beq_eq_false_iff_ne]
      intro ea; subst ea; exact hne this
    rw [m_seq, m_grp]
    apply m_rep_none_suffix
    intro j
    rw [m_seq]
    apply m_lit_none
    cases hd : v.drop j with
    | nil => decide
    | cons a t =>
      have := hfree j a t hd
      simp only [beq_eq_false_iff_ne] at this
      exact stripPrefix_head_ne ':' [] a t this



/-- an extra-criterion line `name: criterion:[blanks]NUMunit` -/
structure XLine where
  name : List Char
  crit : List Char
  ws : List Char
  num : Numeral
  unit : List Char
  tail : List Char

structure XLine.Valid (x : XLine) : Prop where
  name : NameOK x.name
  critNe : x.crit ≠ []
  critLen : x.crit.length ≤ 30
  crit : ∀ c ∈ x.crit, c ≠ ':' ∧ c ≠ '='
  ws : ∀ c ∈ x.ws, isSpace c = true
  num : x.num.Valid
  unitNe : x.unit ≠ []
  unit : ∀ c ∈ x.unit, isAlpha c = true
  tail : EolTail x.tail

/-- numeral, unit, end of line -/
def XLine.t0 (x : XLine) : List Char := x.num.render ++ (x.unit ++ x.tail)
/-- what follows the criterion's colon -/
def XLine.t1 (x : XLine) : List Char := x.ws ++ x.t0
/-- what follows `name: ` -/
def XLine.t2 (x : XLine) : List Char := x.crit ++ ':' :: x.t1
def XLine.body (x : XLine) : List Char := x.name ++ ':' :: ' ' :: x.t2

theorem alpha_props (c : Char) (h : isAlpha c = true) :
    c ≠ ':' ∧ c ≠ '=' ∧ isDigit c = false ∧ c ≠ '.' ∧ isSign c = false := by
  unfold isAlpha at h
  simp only [Bool.or_eq_true, Bool.and_eq_true, decide_eq_true_eq] at h
  refine ⟨?_, ?_, ?_, ?_, ?_⟩
  · intro e; subst e; simp at h
  · intro e; subst e; simp at h
  · unfold isDigit; simp only [Bool.and_eq_false_iff, decide_eq_false_iff_not]; omega
  · intro e; subst e; simp at h
  · cases hs : isSign c with
    | false => rfl
    | true =>
      have : c = '+' ∨ c = '-' := by simpa [isSign] using hs
      rcases this with rfl | rfl <;> simp at h

theorem eolTail_mem {tail : List Char} (h : EolTail tail) : ∀ c ∈ tail, c = '\r' := by
  intro c hc; rcases h with h | h <;> simp [h] at hc; exact hc

/-- every character of numeral + unit + end of line: no colon, no `=` -/
theorem XLine.t0_chars (x : XLine) (hx : x.Valid) : ∀ c ∈ x.t0, c ≠ ':' ∧ c ≠ '=' := by
  intro c hc
  simp only [XLine.t0, List.mem_append] at hc
  rcases hc with hc | hc | hc
  · constructor
    · exact render_free x.num hx.num c hc
    · intro e; subst e
      rcases render_chars x.num hx.num _ hc with h1 | h1 | h1 | h1 | h1 <;> revert h1 <;> decide
  · exact ⟨(alpha_props c (hx.unit c hc)).1, (alpha_props c (hx.unit c hc)).2.1⟩
  · rw [eolTail_mem hx.tail c hc]; exact ⟨by decide, by decide⟩

theorem XLine.t1_chars (x : XLine) (hx : x.Valid) : ∀ c ∈ x.t1, c ≠ ':' ∧ c ≠ '=' := by
  intro c hc
  simp only [XLine.t1, List.mem_append] at hc
  rcases hc with hc | hc
  · exact ⟨(space_props c (hx.ws c hc)).2.2.2.1, (space_props c (hx.ws c hc)).2.2.2.2.2.1⟩
  · exact x.t0_chars hx c hc

theorem count_zero_of_free {s : List Char} (h : ∀ c ∈ s, c ≠ ':') : s.count ':' = 0 :=
  List.count_eq_zero.mpr (fun hm => h ':' hm rfl)

theorem XLine.t2_count (x : XLine) (hx : x.Valid) : x.t2.count ':' ≤ 1 := by
  unfold XLine.t2
  rw [List.count_append, List.count_cons,
      count_zero_of_free (fun c hc => (hx.crit c hc).1), count_zero_of_free (fun c hc => (x.t1_chars hx c hc).1)]
  simp

/-- the first character after the blanks: a digit or the dot -/
theorem XLine.t0_head (x : XLine) (hx : x.Valid) : ∃ a t, x.t0 = a :: t ∧ (isDigit a = true ∨ a = '.') := by
  obtain ⟨a, r, hr, ha⟩ := render_head x.num hx.num
  exact ⟨a, r ++ (x.unit ++ x.tail), by simp [XLine.t0, hr], ha⟩

theorem XLine.noPrefix_body (x : XLine) (hx : x.Valid) (c : Caps) (k : List Char → Caps → Option Caps) :
    NoPrefix (fun s' c' => reExtraBody.m s' c' k) c x.body := by
  unfold XLine.body
  apply noPrefix_name _ _ _ hx.name.ns hx.name.last
  apply noPrefix_cs
  · unfold XLine.t2
    apply noPrefix_append_free _ _ _ _ (fun a ha => (hx.crit a ha).1)
    apply noPrefix_cons _ _ _ _ (noPrefix_free _ _ _ (fun a ha => (x.t1_chars hx a ha).1))
    cases ht : x.t1 with
    | nil => exact prefK_colon_end _ _
    | cons b u =>
      by_cases hb : b = ' '
      · subst hb
        rw [prefK_cs]
        apply reExtraBody_none
        have : ∀ a ∈ u, a ≠ ':' := fun a ha => (x.t1_chars hx a (by rw [ht]; simp [ha])).1
        rw [count_zero_of_free this]; omega
      · exact prefK_colon_ne _ _ b u hb
  · exact reExtraBody_none _ (x.t2_count hx) _ _



theorem XLine.numRest (x : XLine) (hx : x.Valid) : NumRest (x.unit ++ x.tail) := by
  have htail : stopsAt isDigit x.tail ∧ stopsAt isSign x.tail := by
    rcases hx.tail with h | h <;> rw [h]
    · exact ⟨stopsAt_nil _, stopsAt_nil _⟩
    · exact ⟨stopsAt_cons _ _ _ (by decide), stopsAt_cons _ _ _ (by decide)⟩
  cases hu : x.unit with
  | nil => exact absurd hu hx.unitNe
  | cons a u =>
    have ha := alpha_props a (hx.unit a (by simp [hu]))
    refine ⟨stopsAt_cons _ _ _ ha.2.2.1, ?_, ?_⟩
    · intro r e; simp only [List.cons_append, List.cons.injEq] at e; exact ha.2.2.2.1 e.1
    · intro e r he _
      simp only [List.cons_append, List.cons.injEq] at he
      obtain ⟨_, rfl⟩ := he
      cases hu' : u with
      | nil => simpa using htail
      | cons b u' =>
        have hb := alpha_props b (hx.unit b (by simp [hu, hu']))
        exact ⟨stopsAt_cons _ _ _ hb.2.2.1, stopsAt_cons _ _ _ hb.2.2.2.2⟩

/-- the captures of the extra-criterion pattern on a rendered line -/
def XLine.caps (x : XLine) (c0 : Caps) : Caps :=
  (7, x.unit) :: (3, x.num.render) :: numCaps 4 x.num ((2, x.crit) :: (1, x.name) :: c0)

theorem XLine.body_first (x : XLine) (hx : x.Valid) (c0 : Caps) :
    reExtraBody.m x.body c0 (fun _ c => some c) = some (x.caps c0) := by
  unfold reExtraBody XLine.body
  simp only [seqs, str]
  rw [m_seq, m_grp]
  apply m_plus_giveback notSpace x.name ':' _ _ _ _ hx.name.ne hx.name.ns (by decide) (notSpace_stop_space _)
  · rw [m_seq]; exact m_lit_none _ _ _ _ (stripPrefix_head_ne ':' _ ' ' _ (by decide))
  · rw [take_consumed, m_seq, show (':' :: ' ' :: x.t2) = ": ".toList ++ x.t2 from rfl, m_lit]
    unfold XLine.t2
    rw [m_seq, m_grp]
    apply m_rep_first _ _ _ _ _ _ _ _ (fun c hc => by simpa [notColon] using (hx.crit c hc).1)
      (by have := hx.critNe; cases hc : x.crit with
          | nil => exact absurd hc this
          | cons a r => simp)
      hx.critLen (stopsAt_cons _ _ _ (by decide))
    rw [take_consumed, m_seq, show (':' :: x.t1) = ":".toList ++ x.t1 from rfl, m_lit, m_seq]
    unfold XLine.t1
    obtain ⟨a, t, hat, ha⟩ := x.t0_head hx
    apply m_star_first _ _ _ _ _ _
      hx.ws
      (by rw [hat]; apply stopsAt_cons
          rcases ha with ha | rfl
          · exact digit_not_space a ha
          · decide)
    unfold XLine.t0
    rw [m_seq, m_grp]
    apply reNumeral_first 4 x.num hx.num _ (x.numRest hx)
    rw [take_consumed, m_grp]
    apply m_plus_first _ _ _ _ _ _ hx.unitNe hx.unit
      (by rcases hx.tail with h | h <;> rw [h]
          · exact stopsAt_nil _
          · exact stopsAt_cons _ _ _ (by decide))
    rw [take_consumed]
    rfl



theorem stripPrefix_cons_same (a : Char) (l s : List Char) : stripPrefix (a :: l) (a :: s) = stripPrefix l s := by
  simp [stripPrefix]

theorem noLit_name (l : List Char) (name : List Char) (hns : ∀ a ∈ name, notSpace a = true)
    (hlast : name.getLast? ≠ some ':') (X : List Char) (hX : noLit (':' :: ' ' :: l) X) :
    noLit (':' :: ' ' :: l) (name ++ X) := by
  induction name with
  | nil => exact hX
  | cons a r ih =>
    have hr : r.getLast? ≠ some ':' := by
      cases r with
      | nil => simp
      | cons b r' => simpa [List.getLast?_cons_cons] using hlast
    have ihr := ih (fun x hx => hns x (by simp [hx])) hr
    apply noLit_cons a _ ihr
    by_cases ha : a = ':'
    · subst ha
      cases r with
      | nil => simp at hlast
      | cons b r' =>
        have hb : notSpace b = true := hns b (by simp)
        have : b ≠ ' ' := by intro e; subst e; revert hb; decide
        simp [stripPrefix, Ne.symm this]
    · exact stripPrefix_head_ne _ _ _ _ ha

theorem XLine.sp1 (x : XLine) (hx : x.Valid) : stripPrefix litIter (':' :: x.t1) = none := by
  obtain ⟨a, t, hat, ha⟩ := x.t0_head hx
  have ha' : a ≠ ' ' ∧ a ≠ 'i' := by
    rcases ha with ha | rfl
    · constructor <;> (intro e; subst e; revert ha; decide)
    · exact ⟨by decide, by decide⟩
  rw [litIter_cons]
  unfold XLine.t1
  cases hws : x.ws with
  | nil => simp [stripPrefix, hat, Ne.symm ha'.1]
  | cons b ws' =>
    by_cases hb : b = ' '
    · subst hb
      rw [List.cons_append, stripPrefix_cons_same, stripPrefix_cons_same,
        show "iterations=".toList = 'i' :: "terations=".toList from by decide]
      cases hws' : ws' with
      | nil => rw [List.nil_append, hat]; exact stripPrefix_head_ne _ _ _ _ ha'.2
      | cons b' ws'' =>
        rw [List.cons_append]
        exact stripPrefix_head_ne _ _ _ _ (space_props b' (hx.ws b' (by simp [hws, hws']))).2.2.2.2.2.2
    · rw [List.cons_append, stripPrefix_cons_same]
      exact stripPrefix_head_ne _ _ _ _ hb

theorem XLine.t2_noEq (x : XLine) (hx : x.Valid) : ∀ c ∈ x.t2, c ≠ '=' := by
  intro c hc
  simp only [XLine.t2, List.mem_append, List.mem_cons] at hc
  rcases hc with hc | rfl | hc
  · exact (hx.crit c hc).2
  · decide
  · exact (x.t1_chars hx c hc).2

theorem XLine.noLit_body (x : XLine) (hx : x.Valid) : noLit litIter x.body := by
  have h1 : noLit litIter x.t1 := by rw [litIter_cons]; exact noLit_free _ (fun c hc => (x.t1_chars hx c hc).1)
  have h1c : noLit litIter (':' :: x.t1) := noLit_cons ':' (x.sp1 hx) h1
  have h2 : noLit litIter x.t2 := by
    rw [litIter_cons] at h1c ⊢
    exact noLit_append_free _ _ (fun c hc => (hx.crit c hc).1) h1c
  have h2s : noLit litIter (' ' :: x.t2) := by
    rw [litIter_cons] at h2 ⊢
    exact noLit_cons ' ' (stripPrefix_head_ne _ _ _ _ (by decide)) h2
  have h2c : noLit litIter (':' :: ' ' :: x.t2) := by
    apply noLit_cons ':' _ h2s
    rw [litIter_cons, stripPrefix_cons_same, stripPrefix_cons_same]
    exact stripPrefix_none_of_absent '=' _ _ (by decide) (fun c hc => x.t2_noEq hx c (List.mem_of_mem_take hc))
  unfold XLine.body
  rw [litIter_cons] at h2c ⊢
  exact noLit_name _ _ hx.name.ns hx.name.last _ h2c

/-- the line as printed; a prefix is a word without colon -/
def XLine.render (x : XLine) (pre : Option (List Char)) : List Char :=
  match pre with
  | none => x.body
  | some w => w ++ ':' :: ' ' :: x.body

/-- well-formed prefix of an extra-criterion line: no colon in it, and (so that `prefix: name` cannot be
read as `: iterations=`) no `=` in the name -/
def XLine.PreOK (x : XLine) (pre : Option (List Char)) : Prop :=
  ∀ w, pre = some w → (∀ c ∈ w, c ≠ ':') ∧ (∀ c ∈ x.name, c ≠ '=')

theorem XLine.noLit_render (x : XLine) (hx : x.Valid) (pre : Option (List Char)) (hp : x.PreOK pre) :
    noLit litIter (x.render pre) := by
  have hb := x.noLit_body hx
  cases pre with
  | none => exact hb
  | some w =>
    obtain ⟨hw, hname⟩ := hp w rfl
    unfold XLine.render
    simp only
    rw [litIter_cons] at hb ⊢
    apply noLit_append_free _ _ hw
    apply noLit_cons ':'
    · rw [stripPrefix_cons_same, stripPrefix_cons_same]
      apply stripPrefix_none_of_absent '=' _ _ (by decide)
      intro c hc
      have hc' := List.mem_of_mem_take hc
      simp only [XLine.body, List.mem_append, List.mem_cons] at hc'
      rcases hc' with hc' | rfl | rfl | hc'
      · exact hname c hc'
      · decide
      · decide
      · exact x.t2_noEq hx c hc'
    · exact noLit_cons ' ' (stripPrefix_head_ne _ _ _ _ (by decide)) hb

theorem XLine.classify (x : XLine) (hx : x.Valid) (pre : Option (List Char)) (hp : x.PreOK pre) :
    classifyRebenchLog (x.render pre) =
      some { pre := [], main := { criterion := x.crit, unit := x.unit, value := .flt x.num.value } } := by
  have h1 : reRebenchLog.pmatch (x.render pre) = none := by
    rw [reRebenchLog_eq]; exact rePrefixBody_none notSpace reLogTail _ (x.noLit_render hx pre hp)
  have h2 : reRebenchExtra.pmatch (x.render pre) = some (x.caps []) := by
    rw [reRebenchExtra_eq]
    unfold Re.pmatch XLine.render
    rw [m_seq]
    cases pre with
    | none =>
      simp only
      rw [rePrefix_skip _ _ _ (x.noPrefix_body hx [] _)]
      exact x.body_first hx []
    | some w =>
      simp only
      exact rePrefix_word w x.body [] _ _ (x.noPrefix_body hx [] _) (x.body_first hx [])
  unfold classifyRebenchLog
  rw [h1]
  simp only [h2]
  have c2 : capD (x.caps []) 2 = x.crit := by
    simp only [capD, XLine.caps, cap]
    rw [cap_numCaps 4 x.num _ 2 (Or.inl (by omega))]
    simp [cap]
  have c3 : capD (x.caps []) 3 = x.num.render := by simp [capD, cap, XLine.caps]
  have c7 : capD (x.caps []) 7 = x.unit := by simp [capD, cap, XLine.caps]
  simp [c2, c3, c7, numeralVal_render x.num hx.num]

end RB.Adapters
