/-
C05, ValidationLog: the line `[prefix: ]name[ crit]: iterations=N runtime: D(m|u)s success: (true|false)` and the
actors summary line.
-/
import RB.Proofs.Lemmas.AdaptersRebenchExtra
namespace RB.Adapters

/-! ## ValidationLog -/

def reValTail : Re :=
  seqs [.grp 3 (.plus isDigit), str " runtime: ", .grp 4 (.plus isDigit), .grp 5 (.cls isMU),
        str "s success: ", .grp 6 (.alt (str "true") (str "false"))]

theorem reValidation_eq : reValidation = rePrefix.seq (reBody isWordDot reValTail) := rfl

/-- a ValidationLog line `name[ crit]: iterations=N runtime: D(m|u)s success: (true|false)` -/
structure VLine where
  name : List Char
  crit : Option (List Char)
  n : List Char
  rt : List Char
  unit : Char
  ok : Bool
  tail : List Char

structure VLine.Valid (x : VLine) : Prop where
  name : CritWord x.name
  crit : ∀ cw, x.crit = some cw → CritWord cw
  n : Digits x.n
  rt : Digits x.rt
  unit : isMU x.unit = true
  tail : EolTail x.tail

def VLine.okText (x : VLine) : List Char := if x.ok then "true".toList else "false".toList
def VLine.t00 (x : VLine) : List Char := x.okText ++ x.tail
def VLine.t0 (x : VLine) : List Char := x.rt ++ x.unit :: ("s success".toList ++ ':' :: ' ' :: x.t00)
def VLine.t1 (x : VLine) : List Char := " runtime".toList ++ ':' :: ' ' :: x.t0
def VLine.t2 (x : VLine) : List Char := "iterations=".toList ++ (x.n ++ x.t1)
def VLine.body (x : VLine) : List Char := x.name ++ (critText x.crit ++ ':' :: ' ' :: x.t2)
def VLine.afterIter (x : VLine) : List Char :=
  x.n ++ (" runtime: ".toList ++ (x.rt ++ x.unit :: ("s success: ".toList ++ x.t00)))

theorem success_split : "s success: ".toList = "s success".toList ++ [':', ' '] := by decide

theorem VLine.t2_eq (x : VLine) : x.t2 = "iterations=".toList ++ x.afterIter := by
  unfold VLine.t2 VLine.afterIter VLine.t1 VLine.t0
  rw [runtime_split, success_split, List.append_assoc, List.append_assoc]
  rfl

theorem VLine.t00_free (x : VLine) (hx : x.Valid) : ∀ c ∈ x.t00, c ≠ ':' := by
  intro c hc
  simp only [VLine.t00, VLine.okText, List.mem_append] at hc
  rcases hc with hc | hc
  · intro e; subst e
    cases hok : x.ok <;> simp [hok] at hc <;> revert hc <;> decide
  · rw [eolTail_mem hx.tail c hc]; decide

theorem VLine.t00_head (x : VLine) : ∃ a t, x.t00 = a :: t ∧ a ≠ 'i' := by
  unfold VLine.t00 VLine.okText
  cases x.ok
  · exact ⟨'f', "alse".toList ++ x.tail, rfl, by decide⟩
  · exact ⟨'t', "rue".toList ++ x.tail, rfl, by decide⟩

theorem unit_free (u : Char) (h : isMU u = true) : u ≠ ':' := by
  intro e; subst e; revert h; decide

theorem VLine.noLit_t00 (x : VLine) (hx : x.Valid) : noLit litIter x.t00 := by
  rw [litIter_cons]; exact noLit_free _ (x.t00_free hx)

theorem VLine.noLit_t0 (x : VLine) (hx : x.Valid) : noLit litIter x.t0 := by
  have h0 := x.noLit_t00 hx
  rw [litIter_cons] at h0 ⊢
  unfold VLine.t0
  apply noLit_append_free _ _ (digits_free hx.rt.2)
  apply noLit_cons x.unit (stripPrefix_head_ne _ _ _ _ (unit_free _ hx.unit))
  apply noLit_append_free _ _ (by decide)
  obtain ⟨a, t, hat, hai⟩ := x.t00_head
  apply noLit_cons
  · rw [hat, stripPrefix_cons_same, stripPrefix_cons_same,
        show "iterations=".toList = 'i' :: "terations=".toList from by decide]
    exact stripPrefix_head_ne _ _ _ _ hai
  · exact noLit_cons ' ' (stripPrefix_head_ne _ _ _ _ (by decide)) h0

theorem VLine.t0_head (x : VLine) (hx : x.Valid) : ∃ a t, x.t0 = a :: t ∧ a ≠ 'i' := by
  obtain ⟨hne, hd⟩ := hx.rt
  cases hr : x.rt with
  | nil => exact absurd hr hne
  | cons d r =>
    refine ⟨d, r ++ x.unit :: ("s success".toList ++ ':' :: ' ' :: x.t00), by rw [VLine.t0, hr]; rfl, ?_⟩
    intro e; subst e; have := hd 'i' (by simp [hr]); revert this; decide

theorem VLine.noLit_t1 (x : VLine) (hx : x.Valid) : noLit litIter x.t1 := by
  have h0 := x.noLit_t0 hx
  rw [litIter_cons] at h0 ⊢
  unfold VLine.t1
  apply noLit_append_free _ _ (by decide)
  obtain ⟨a, t, hat, hai⟩ := x.t0_head hx
  apply noLit_cons
  · rw [hat, stripPrefix_cons_same, stripPrefix_cons_same,
        show "iterations=".toList = 'i' :: "terations=".toList from by decide]
    exact stripPrefix_head_ne _ _ _ _ hai
  · exact noLit_cons ' ' (stripPrefix_head_ne _ _ _ _ (by decide)) h0

theorem VLine.noLit_t2 (x : VLine) (hx : x.Valid) : noLit litIter x.t2 := by
  have h1 := x.noLit_t1 hx
  rw [litIter_cons] at h1 ⊢
  unfold VLine.t2
  apply noLit_append_free _ _ (by decide)
  exact noLit_append_free _ _ (digits_free hx.n.2) h1

theorem VLine.noPrefix_body (x : VLine) (hx : x.Valid) (q : Char → Bool) (X : Re) (c : Caps)
    (k : List Char → Caps → Option Caps) :
    NoPrefix (fun s' c' => (reBody q X).m s' c' k) c x.body := by
  have K0 : ∀ s, noLit litIter s → (fun s' c' => (reBody q X).m s' c' k) s c = none :=
    fun s hs => reBody_none q X s hs c k
  unfold VLine.body
  apply noPrefix_append_free _ _ _ _ (fun a ha => (wordDot_props a (hx.name.2 a ha)).2.1)
  apply noPrefix_append_free _ _ _ _ (critText_free x.crit hx.crit)
  apply noPrefix_cs _ _ _ _ (K0 _ (x.noLit_t2 hx))
  unfold VLine.t2
  apply noPrefix_append_free _ _ _ _ (by decide)
  apply noPrefix_append_free _ _ _ _ (digits_free hx.n.2)
  unfold VLine.t1
  apply noPrefix_append_free _ _ _ _ (by decide)
  apply noPrefix_cs _ _ _ _ (K0 _ (x.noLit_t0 hx))
  unfold VLine.t0
  apply noPrefix_append_free _ _ _ _ (digits_free hx.rt.2)
  apply noPrefix_cons _ _ _ _ _ (prefK_ne _ _ _ _ (unit_free _ hx.unit))
  apply noPrefix_append_free _ _ _ _ (by decide)
  apply noPrefix_cs _ _ _ _ (K0 _ (x.noLit_t00 hx))
  exact noPrefix_free _ _ _ (x.t00_free hx)



def VLine.caps (x : VLine) (c0 : Caps) : Caps :=
  (6, x.okText) :: (5, [x.unit]) :: (4, x.rt) :: (3, x.n) ::
    ((match x.crit with | some cw => [(2, ' ' :: cw)] | none => []) ++ (1, x.name) :: c0)

theorem unit_not_digit (u : Char) (h : isMU u = true) : isDigit u = false := by
  have : u = 'm' ∨ u = 'u' := by simpa [isMU] using h
  rcases this with rfl | rfl <;> decide

theorem VLine.tail_first (x : VLine) (hx : x.Valid) (c1 : Caps) :
    reValTail.m x.afterIter c1 (fun _ c => some c) =
      some ((6, x.okText) :: (5, [x.unit]) :: (4, x.rt) :: (3, x.n) :: c1) := by
  unfold reValTail VLine.afterIter
  simp only [seqs, str, m_seq]
  rw [m_grp]
  apply m_plus_first _ _ _ _ _ _ hx.n.1 hx.n.2 (stopsAt_lit _ _ _ (by decide))
  rw [take_consumed, m_lit, m_grp]
  apply m_plus_first _ _ _ _ _ _ hx.rt.1 hx.rt.2 (stopsAt_cons _ _ _ (unit_not_digit _ hx.unit))
  rw [take_consumed, m_grp, m_cls_ok _ _ _ _ _ hx.unit, m_lit, m_grp]
  unfold VLine.t00 VLine.okText
  cases x.ok with
  | true =>
    simp only [if_true]
    apply m_alt_first
    rw [m_lit, take_consumed]
    simp
  | false =>
    simp only [Bool.false_eq_true, if_false]
    rw [m_alt_second _ _ _ _ _ (m_lit_mismatch _ _ _ _ _ (by decide)), m_lit, take_consumed]
    simp

theorem VLine.body_first (x : VLine) (hx : x.Valid) (c0 : Caps) :
    (reBody isWordDot reValTail).m x.body c0 (fun _ c => some c) = some (x.caps c0) := by
  unfold reBody VLine.body
  rw [m_seq, m_grp, x.t2_eq]
  have hiter : ∀ (c1 : Caps), ((Re.lit litIter).seq reValTail).m (':' :: ' ' :: ("iterations=".toList ++ x.afterIter)) c1
      (fun _ c => some c) = some ((6, x.okText) :: (5, [x.unit]) :: (4, x.rt) :: (3, x.n) :: c1) := by
    intro c1
    rw [m_seq, show (':' :: ' ' :: ("iterations=".toList ++ x.afterIter)) = litIter ++ x.afterIter from rfl, m_lit]
    exact x.tail_first hx c1
  cases hcr : x.crit with
  | some cw =>
    obtain ⟨hcne, hcw⟩ := hx.crit cw hcr
    simp only [critText, List.cons_append]
    apply m_plus_first _ _ _ _ _ _ hx.name.1 hx.name.2 (stopsAt_cons _ _ _ (by decide))
    rw [take_consumed]
    unfold reCritIter
    rw [m_seq]
    apply m_opt_first
    rw [m_grp, m_seq, show (' ' :: (cw ++ ':' :: ' ' :: ("iterations=".toList ++ x.afterIter))) =
      " ".toList ++ (cw ++ ':' :: ' ' :: ("iterations=".toList ++ x.afterIter)) from rfl, m_lit]
    apply m_plus_first _ _ _ _ _ _ hcne hcw (stopsAt_cons _ _ _ (by decide))
    rw [show (" ".toList ++ (cw ++ ':' :: ' ' :: ("iterations=".toList ++ x.afterIter))) =
      (' ' :: cw) ++ (':' :: ' ' :: ("iterations=".toList ++ x.afterIter)) from rfl, take_consumed]
    rw [hiter]
    simp [VLine.caps, hcr]
  | none =>
    simp only [critText, List.nil_append]
    apply m_plus_first _ _ _ _ _ _ hx.name.1 hx.name.2 (stopsAt_cons _ _ _ (by decide))
    rw [take_consumed]
    unfold reCritIter
    rw [m_seq, m_opt_skip]
    · rw [hiter]; simp [VLine.caps, hcr]
    · rw [m_grp, m_seq]
      exact m_lit_none _ _ _ _ (stripPrefix_head_ne ' ' [] ':' _ (by decide))

def VLine.render (x : VLine) (pre : Option (List Char)) : List Char :=
  match pre with
  | none => x.body
  | some w => w ++ ':' :: ' ' :: x.body

theorem VLine.pmatch (x : VLine) (hx : x.Valid) (pre : Option (List Char)) :
    reValidation.pmatch (x.render pre) = some (x.caps []) := by
  rw [reValidation_eq]
  unfold Re.pmatch VLine.render
  rw [m_seq]
  cases pre with
  | none =>
    simp only
    rw [rePrefix_skip _ _ _ (x.noPrefix_body hx isWordDot reValTail [] _)]
    exact x.body_first hx []
  | some w =>
    simp only
    exact rePrefix_word w x.body [] _ _ (x.noPrefix_body hx isWordDot reValTail [] _) (x.body_first hx [])

def VLine.criterion (x : VLine) : List Char := x.crit.getD totalName
def VLine.value (x : VLine) : Rat := if x.unit = 'u' then decVal x.rt [] / 1000 else decVal x.rt []

theorem VLine.classify (x : VLine) (hx : x.Valid) (pre : Option (List Char)) :
    classifyValidation (x.render pre) =
      some { pre := [{ criterion := "Success".toList, unit := "bool".toList, value := .bool x.ok }],
             main := { criterion := x.criterion, unit := ms, value := .flt x.value } } := by
  unfold classifyValidation
  rw [x.pmatch hx pre]
  have h4 : capD (x.caps []) 4 = x.rt := by simp [capD, cap, VLine.caps]
  have h5 : capD (x.caps []) 5 = [x.unit] := by simp [capD, cap, VLine.caps]
  have h6 : capD (x.caps []) 6 = x.okText := by simp [capD, cap, VLine.caps]
  have h2 : cap (x.caps []) 2 = x.crit.map (fun cw => ' ' :: cw) := by
    simp only [VLine.caps, cap]
    cases x.crit <;> simp [cap]
  have hok : decide (x.okText = "true".toList) = x.ok := by
    unfold VLine.okText; cases x.ok <;> decide
  simp only [h4, h5, h6, h2, numeralVal_int x.rt hx.rt.2, hok]
  unfold VLine.criterion VLine.value
  cases hcr : x.crit with
  | none => simp
  | some cw => simp [strip_crit cw (hx.crit cw hcr)]



/-- the summary line of the actor benchmarks `[Total] A#D M#D P#D` -/
structure ALine where
  ws1 : List Char
  a : List Char
  ws2 : List Char
  m : List Char
  ws3 : List Char
  p : List Char
  tail : List Char

structure ALine.Valid (x : ALine) : Prop where
  ws1 : Blank x.ws1
  a : Digits x.a
  ws2 : Blank x.ws2
  m : Digits x.m
  ws3 : Blank x.ws3
  p : Digits x.p
  tail : EolTail x.tail

def ALine.render (x : ALine) : List Char :=
  "[Total]".toList ++ (x.ws1 ++ ("A#".toList ++ (x.a ++ (x.ws2 ++ ("M#".toList ++ (x.m ++ (x.ws3 ++
    ("P#".toList ++ (x.p ++ x.tail)))))))))

theorem blank_free {ws : List Char} (h : Blank ws) : ∀ c ∈ ws, c ≠ ':' := by
  intro c hc; exact (space_props c (h.2 c hc)).2.2.2.1

theorem free_append {A B : List Char} (hA : ∀ c ∈ A, c ≠ ':') (hB : ∀ c ∈ B, c ≠ ':') :
    ∀ c ∈ A ++ B, c ≠ ':' := by
  intro c hc; rcases List.mem_append.mp hc with h | h
  · exact hA c h
  · exact hB c h

theorem ALine.free (x : ALine) (hx : x.Valid) : ∀ c ∈ x.render, c ≠ ':' := by
  unfold ALine.render
  apply free_append (by decide)
  apply free_append (blank_free hx.ws1)
  apply free_append (by decide)
  apply free_append (digits_free hx.a.2)
  apply free_append (blank_free hx.ws2)
  apply free_append (by decide)
  apply free_append (digits_free hx.m.2)
  apply free_append (blank_free hx.ws3)
  apply free_append (by decide)
  apply free_append (digits_free hx.p.2)
  intro c hc; rw [eolTail_mem hx.tail c hc]; decide

theorem blank_stop_space_lit (l rest : List Char) (h : l.head?.map isSpace = some false) :
    stopsAt isSpace (l ++ rest) := stopsAt_lit _ _ _ h

theorem ALine.noValidation (x : ALine) (hx : x.Valid) : reValidation.pmatch x.render = none := by
  rw [reValidation_eq]
  apply rePrefixBody_none
  rw [litIter_cons]; exact noLit_free _ (x.free hx)

theorem ALine.pmatch (x : ALine) (hx : x.Valid) :
    reActors.pmatch x.render = some [(3, x.p), (2, x.m), (1, x.a)] := by
  unfold Re.pmatch reActors ALine.render
  simp only [seqs, str, m_seq]
  rw [m_lit]
  apply m_plus_first _ _ _ _ _ _ hx.ws1.1 (blank_space hx.ws1) (stopsAt_lit _ _ _ (by decide))
  rw [m_lit, m_grp]
  apply m_plus_first _ _ _ _ _ _ hx.a.1 hx.a.2 (blank_stop_digit _ hx.ws2)
  rw [take_consumed]
  apply m_plus_first _ _ _ _ _ _ hx.ws2.1 (blank_space hx.ws2) (stopsAt_lit _ _ _ (by decide))
  rw [m_lit, m_grp]
  apply m_plus_first _ _ _ _ _ _ hx.m.1 hx.m.2 (blank_stop_digit _ hx.ws3)
  rw [take_consumed]
  apply m_plus_first _ _ _ _ _ _ hx.ws3.1 (blank_space hx.ws3) (stopsAt_lit _ _ _ (by decide))
  rw [m_lit, m_grp]
  apply m_plus_first _ _ _ _ _ _ hx.p.1 hx.p.2
    (by rcases hx.tail with h | h <;> rw [h]
        · exact stopsAt_nil _
        · exact stopsAt_cons _ _ _ (by decide))
  rw [take_consumed]

theorem ALine.classify (x : ALine) (hx : x.Valid) :
    classifyValidation x.render =
      some { pre := [{ criterion := "Actors".toList, unit := "count".toList, value := .int (digitsNat x.a) },
                     { criterion := "Messages".toList, unit := "count".toList, value := .int (digitsNat x.m) },
                     { criterion := "Promises".toList, unit := "count".toList, value := .int (digitsNat x.p) }],
             main := { criterion := totalName, unit := ms, value := .int 0 } } := by
  unfold classifyValidation
  rw [x.noValidation hx]
  simp only [x.pmatch hx]
  simp [capD, cap]

end RB.Adapters
